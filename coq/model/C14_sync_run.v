(* C14 / C15 — evaluator for the sync stage: Scheduler.sync against the recording stub pool and queue. *)
From Coq Require Import List ZArith Bool NArith.
From AV Require Import model.C16_runq model.C14_sync.
Import ListNotations.
Local Open Scope Z_scope.

Record case := mksy {
  y_ents : list ent;        (* queue.Entries() *)
  y_running : rmap;         (* pool.Running(): uuid -> exited time (0 = zero time) *)
  y_unknown : bool;         (* pool.CountWorkers()[StateUnknown] > 0 *)
  y_qupd : Z;               (* the threshold returned by queue.Entries() *)
  y_latch : list N;         (* uuids with an operation in flight (sch.uuidOp) *)
  y_now : list (N * (cstate * Z));  (* what queue.Get answers when the spawned goroutines run: state, priority *)
  y_run_now : rmap;         (* pool.Running() at that moment *)
  o_cancel : list N;        (* queue.Cancel calls *)
  o_kill : list N;          (* pool.KillContainer calls *)
  o_pforget : list N;       (* pool.ForgetContainer calls *)
  o_unlock : list N;        (* queue.Unlock calls *)
  o_qforget : list N        (* queue.Forget calls *)
}.

(* ---------------- specification ---------------- *)
Definition live (running : rmap) (u : N) : Prop := rlook u running = Some 0.
Definition finished (e : ent) : Prop :=
  e_state e = Complete \/ e_state e = Cancelled \/ e_state e = Queued \/
  (e_prio e = 0 /\ (e_state e = Running \/ e_state e = Locked)).
Definition dead (running : rmap) (qupd : Z) (u : N) : Prop :=
  exists t, rlook u running = Some t /\ t <> 0 /\ t < qupd.

Record SyncSpec (c : case) : Prop := {
  (* C14: cancelled / completed / on hold / re-queued with a lingering live process => killed *)
  ss_kill : forall e, In e (y_ents c) -> live (y_running c) (e_uuid e) -> finished e ->
            ~ In (e_uuid e) (y_latch c) -> In (e_uuid e) (o_kill c);
  (* C15: Running whose process is known to have exited before the last queue update, or is on no worker
     (all workers known) => cancelled; Locked whose process exited before the last queue update => re-queued *)
  ss_cancel : forall e, In e (y_ents c) -> e_state e = Running -> ~ In (e_uuid e) (y_latch c) ->
            (dead (y_running c) (y_qupd c) (e_uuid e) \/ (rlook (e_uuid e) (y_running c) = None /\ y_unknown c = false)) ->
            In (e_uuid e) (o_cancel c);
  ss_requeue : forall e, In e (y_ents c) -> e_state e = Locked -> ~ In (e_uuid e) (y_latch c) ->
            dead (y_running c) (y_qupd c) (e_uuid e) ->
            still_locked (y_now c) (e_uuid e) = true -> reason_holds (y_now c) (y_run_now c) (e_uuid e) = true ->
            In (e_uuid e) (o_unlock c);
  (* F21 (fixed): nothing is unlocked that the queue does not show Locked any more when the goroutine runs, or
     whose reason (crunch-run exited / not running with priority 0) no longer holds *)
  ss_unlock_locked : forall u, In u (o_unlock c) ->
            still_locked (y_now c) u = true /\ reason_holds (y_now c) (y_run_now c) u = true;
  (* a process of a container that is not in the queue at all is killed *)
  ss_orphan : forall u t, rlook u (y_running c) = Some t -> ~ In u (map e_uuid (y_ents c)) ->
            ~ In u (y_latch c) -> In u (o_kill c)
}.

Definition finished_b (e : ent) : bool :=
  cstate_eqb (e_state e) Complete || cstate_eqb (e_state e) Cancelled || cstate_eqb (e_state e) Queued ||
  ((e_prio e =? 0) && (cstate_eqb (e_state e) Running || cstate_eqb (e_state e) Locked)).
Definition live_b (running : rmap) (u : N) : bool := match rlook u running with Some t => t =? 0 | None => false end.
Definition dead_b (running : rmap) (qupd : Z) (u : N) : bool :=
  match rlook u running with Some t => negb (t =? 0) && (t <? qupd) | None => false end.
Definition absent_b (running : rmap) (u : N) : bool := match rlook u running with None => true | _ => false end.

Definition spec_b (c : case) : bool :=
  forallb (fun e =>
    let u := e_uuid e in
    memN u (y_latch c) ||
    ((negb (live_b (y_running c) u && finished_b e) || memN u (o_kill c)) &&
     (negb (cstate_eqb (e_state e) Running &&
            (dead_b (y_running c) (y_qupd c) u || (absent_b (y_running c) u && negb (y_unknown c)))) || memN u (o_cancel c)) &&
     (negb (cstate_eqb (e_state e) Locked && dead_b (y_running c) (y_qupd c) u && still_locked (y_now c) u && reason_holds (y_now c) (y_run_now c) u) || memN u (o_unlock c))))
    (y_ents c) &&
  forallb (fun u => still_locked (y_now c) u && reason_holds (y_now c) (y_run_now c) u) (o_unlock c) &&
  forallb (fun kv => memN (fst kv) (map e_uuid (y_ents c)) || memN (fst kv) (y_latch c) || memN (fst kv) (o_kill c))
          (y_running c).

(* ---------------- model vs implementation ---------------- *)
Fixpoint insN (x : N) (l : list N) : list N :=
  match l with [] => [x] | y :: r => if (x <=? y)%N then x :: l else y :: insN x r end.
Definition sortN (l : list N) : list N := fold_right insN [] l.
Fixpoint listN_eqb (a b : list N) : bool :=
  match a, b with [], [] => true | x :: r, y :: s => N.eqb x y && listN_eqb r s | _, _ => false end.
Definition same_set (a b : list N) : bool := listN_eqb (sortN a) (sortN b).

Definition pick (f : act -> option N) (l : list act) : list N :=
  flat_map (fun a => match f a with Some u => [u] | None => [] end) l.

Definition model_b (c : case) : bool :=
  let acts := sync (y_ents c) (y_running c) (y_unknown c) (y_qupd c) (y_latch c) in
  same_set (o_cancel c) (pick (fun a => match a with ACancel u => Some u | _ => None end) acts) &&
  same_set (o_kill c) (pick (fun a => match a with AKill u => Some u | _ => None end) acts) &&
  same_set (o_pforget c) (pick (fun a => match a with AKill u => Some u | _ => None end) acts) &&
  same_set (o_unlock c) (sync_unlocks acts (y_now c) (y_run_now c)) &&
  same_set (o_qforget c) (pick (fun a => match a with AForget u => Some u | _ => None end) acts).

Definition check_case (c : case) : N :=
  ((if model_b c then 0 else 1) + (if spec_b c then 0 else 2))%N.
Fixpoint failing_from (i : N) (cs : list case) : list (N * N) :=
  match cs with
  | [] => []
  | c :: r => let k := check_case c in
              if N.eqb k 0 then failing_from (N.succ i) r else (i, k) :: failing_from (N.succ i) r
  end.
Definition failing (cs : list case) : list (N * N) := failing_from 0%N cs.

Definition E (u : N) (st : N) (p : Z) (it : N) : ent :=
  mkent u (match st with 0 => Queued | 1 => Locked | 2 => Running | 3 => Complete | 4 => Cancelled | _ => OtherState end%N) p it.
