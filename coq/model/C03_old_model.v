(* C03 — the GET loop of getOrHead as it was BEFORE fix F25: the HashCheckingReader was handed the response body
   itself, so nothing compared the number of bytes of a body without Content-Length with the expected size.
   Kept as a regression witness only (props: C03_old_model_chunked_wrong_size_refuted).  Definitions only. *)
From Coq Require Import Arith NArith List Ascii String Bool.
From AV Require Import lib.Str model.C03_model.
Import ListNotations.
Local Open Scope nat_scope.

Section OldGet.
Variable oracle : nat -> nat -> response.

Fixpoint old_try_servers (servers : list nat) (round : nat) (expect : option nat) (c404 : nat) (retry : list nat)
         (log : list (nat * nat)) : option gres * nat * list nat * list (nat * nat) :=
  match servers with
  | [] => (None, c404, retry, log)
  | x :: rest =>
    let log' := log ++ [(x, round)] in
    match oracle x round with
    | ConnErr => old_try_servers rest round expect c404 (retry ++ [x]) log'
    | Resp st declared body cut =>
      if negb (st =? 200)%N then
        if retry_status st then old_try_servers rest round expect c404 (retry ++ [x]) log'
        else if (st =? 404)%N then old_try_servers rest round expect (S c404) retry log'
        else old_try_servers rest round expect c404 retry log'
      else
        match expect, declared with
        | None, None => (Some (GErr ENoSize), c404, retry, log')
        | None, Some n => (Some (GOk x round n (transport declared body cut)), c404, retry, log')
        | Some e, Some n => if e =? n then (Some (GOk x round e (transport declared body cut)), c404, retry, log')
                            else (Some (GErr ESizeMismatch), c404, retry, log')
        | Some e, None => (Some (GOk x round e (transport declared body cut)), c404, retry, log')
        end
    end
  end.

Fixpoint old_get_rounds (tries round : nat) (servers : list nat) (nservers : nat) (expect : option nat) (c404 : nat)
         (log : list (nat * nat)) : gout :=
  match tries with
  | 0 => {| g_res := GErr (if c404 =? nservers then ENotFound else match servers with [] => EPerm | _ => ETemp end);
            g_log := log |}
  | S t =>
    match old_try_servers servers round expect c404 [] log with
    | (Some r, _, _, log') => {| g_res := r; g_log := log' |}
    | (None, c404', retry, log') => old_get_rounds t (S round) retry nservers expect c404' log'
    end
  end.

Definition old_get_or_head (retries : nat) (order : list nat) (loc : string) : gout :=
  if empty_block_loc loc then {| g_res := GEmpty; g_log := [] |}
  else old_get_rounds (S retries) 0 order (List.length order) (size_hint loc) 0 [].
End OldGet.
