(* C05 — model of balanceBlock WITH the proposed repairs applied (fixes/F1_F10.diff, fixes/F8.diff,
   fixes/F12.diff).  Not the code under test: used (a) by the evaluator `failing_fixed` when the harness
   is run against a patched scratch copy of balance.go, (b) by proofs/C05_fixed_proofs.v to show that
   the repaired algorithm meets the whole specification for every layout.
   Differences from model/C05_model.v:
     F1/F10  a protection pass over the sorted slots before the two allocation passes: replicas on
             mounts of the class are protected until `desired` is reached, every non-blank device
             counted once; trySlot no longer protects and is done when replWant >= desired;
             `underreplicated` is set iff that pass could not protect `desired`;
             replicas on protected (or wanted) devices are unsafe to delete;
     F12     a desired class that no mount offers sets `underreplicated`;
     F8      lost is also reported when there is no replica and some desired > 0. *)
From Coq Require Import List Arith Bool.
From AV Require Import model.C05_model.
Import ListNotations.

Section Block.
Variable dflt : nat.
Variable rank : nat -> nat.
Variable devrank : nat -> nat.
Variable minMtime : nat.

(* the protection pass: (protected replication, unsafeToDelete, protected non-blank devices) *)
Fixpoint protect (c desired : nat) (l : list slot) (prot : nat) (uns pd : list nat) : nat * list nat * list nat :=
  match l with
  | [] => (prot, uns, pd)
  | s :: r =>
    if desired <=? prot then (prot, uns, pd)
    else match srepl s with
         | Some mt =>
           if inclass dflt c (smnt s) && negb (nz (dev (smnt s)) && mem (dev (smnt s)) pd)
           then protect c desired r (prot + mrepl (smnt s)) (add mt uns)
                        (if nz (dev (smnt s)) then dev (smnt s) :: pd else pd)
           else protect c desired r prot uns pd
         | None => protect c desired r prot uns pd
         end
  end.

Definition try_slot_f (desired : nat) (a : acc) (s : slot) : acc * slot * bool :=
  let m := smnt s in
  if mem (mid m) (wantMnt a) || (negb (dev m =? 0) && mem (dev m) (wantDev a)) then (a, s, false)
  else if (replWant a <? desired) && (has s || negb (mro m)) then
    let a2 := {| wantSrv := add (msrv m) (wantSrv a); wantMnt := add (mid m) (wantMnt a);
                 wantDev := if dev m =? 0 then wantDev a else add (dev m) (wantDev a);
                 protMnt := protMnt a; replWant := replWant a + mrepl m; replProt := replProt a; unsafe := unsafe a |} in
    (a2, set_want s, desired <=? replWant a2)
  else (a, s, desired <=? replWant a).

Fixpoint pass_f (distinct : bool) (desired : nat) (a : acc) (done : bool) (l : list slot) : acc * bool * list slot :=
  match l with
  | [] => (a, done, [])
  | s :: r =>
    if done then (a, done, l)
    else if distinct && mem (msrv (smnt s)) (wantSrv a) then
      let '(a', dn, r') := pass_f distinct desired a done r in (a', dn, s :: r')
    else
      let '(a1, s1, d1) := try_slot_f desired a s in
      let '(a', dn, r') := pass_f distinct desired a1 d1 r in (a', dn, s1 :: r')
  end.

Definition protect_devs (wd pd : list nat) (l : list slot) (uns : list nat) : list nat :=
  fold_left (fun u s => match srepl s with
                        | Some mt => if nz (dev (smnt s)) && (mem (dev (smnt s)) wd || mem (dev (smnt s)) pd)
                                     then add mt u else u
                        | None => u end) l uns.

Definition do_class_f (c desired : nat) (st : cstate) : cstate :=
  let '(sl, uns, under) := st in
  if desired =? 0 then st else
  let sorted := isort dflt rank devrank c sl in
  let '(prot, uns1, pd) := protect c desired sorted 0 uns [] in
  let '(a1, d1, l1) := pass_f true desired (acc0 uns1) false sorted in
  let '(a2, _, l2) := pass_f false desired a1 d1 l1 in
  (l2, protect_devs (wantDev a2) pd l2 uns1, if under then true else prot <? desired).

(* F12: some desired class is offered by no mount (bal.mountsByClass[class] == nil) *)
Definition unoffered (classes : list nat) (desired : list (nat * nat)) : bool :=
  existsb (fun kd => (0 <? snd kd) && negb (mem (fst kd) classes)) desired.

Definition run_classes_f (classes : list nat) (desired : list (nat * nat)) (sl0 : list slot) : cstate :=
  fold_left (fun st c => do_class_f c (lookup desired c) st) classes (sl0, [], unoffered classes desired).

Definition final_slots_f (mounts : list mnt) (replicas : list (nat * nat)) (classes : list nat)
           (desired : list (nat * nat)) : list slot :=
  let '(sl, uns, under) := run_classes_f classes desired (map (mkslot replicas) mounts) in
  map (widen under uns) sl.

Definition balance_block_f (mounts allmounts : list mnt) (replicas : list (nat * nat)) (classes : list nat)
           (desired : list (nat * nat)) : list change * bool :=
  let sl := final_slots_f mounts replicas classes desired in
  let norepl := match replicas with [] => true | _ => false end in
  let from := match replicas with
              | (m0, _) :: _ => match find (fun m => mid m =? m0) allmounts with Some m => msrv m | None => 0 end
              | [] => 0 end in
  (flat_map (emit minMtime norepl from) sl,
   existsb (fun s => negb (has s) && swant s && norepl) sl ||
   (norepl && existsb (fun kd => 0 <? snd kd) desired)).
End Block.

Definition balance_f (dflt : nat) (rank devrank : nat -> nat) (minMtime : nat)
           (raw : list mnt) (sro : list nat) (replicas : list (nat * nat)) (desired : list (nat * nat))
  : list change * bool :=
  let eff := setup raw sro in
  balance_block_f dflt rank devrank minMtime eff raw replicas (classes_of dflt eff) desired.
