(* C18: evaluator for the stage c18fan (package lib/controller): the legacy request path driven through the
   whole handler stack (setupProxyRemoteCluster) with the local cluster and the remotes played by a stub HTTP
   transport whose answers are released in a generated order.
   FGet  = GET /arvados/v1/collections/<hash+size> (fetchRemoteCollectionByPDH, one goroutine per remote)
   FUuid = GET /arvados/v1/collections/<uuid of another cluster> (fetchRemoteCollectionByUUID)
   [model_b] compares the model with what the client of the controller received; [spec_b] judges that observation:
   whatever the remotes answer (any status code, any body, transport error, no answer), the client gets either
   status 200 with a manifest that some remote sent with status 200 and that hashes to the requested value,
   with only its signatures rewritten - or an error status; and an honest remote is not beaten. *)
From Coq Require Import NArith List Ascii String Bool.
From AV Require Import lib.Str lib.Md5 lib.TokSplit lib.ManifestTok model.C18_model model.C18_fan_model.
Import ListNotations.
Local Open Scope string_scope.

Inductive case :=
| FGet (local_id req : string) (local : hanswer)
       (amp : N)                      (* API.MaxRequestAmplification: remote requests in flight at a time, 0 = no limit *)
       (arrivals : list (string * hanswer))  (* every configured remote with its answer: the released ones in release order first *)
       (unasked : list string)        (* remotes whose request never reached the transport before the client gave up *)
       (calls : list string)          (* cluster id ("" = local) of every request the stub transport received *)
       (res : fres)
| FUuid (local_id remote : string) (known : bool) (a : hanswer) (calls : list string) (res : fres).

Definition ostr_eqb (a b : option string) : bool :=
  match a, b with Some x, Some y => x =? y | None, None => true | _, _ => false end.
Definition fres_eqb (a b : fres) : bool :=
  match a, b with FRes c m, FRes c' m' => N.eqb c c' && ostr_eqb m m' end.
Fixpoint count (x : string) (l : list string) : nat :=
  match l with [] => O | y :: r => (if x =? y then 1 else 0) + count x r end.
Definition perm_b (a b : list string) : bool := forallb (fun x => Nat.eqb (count x a) (count x b)) (a ++ b).
Definition is_hang (a : hanswer) : bool := match a with HHang => true | _ => false end.

(* ---------- model ---------- *)
(* A remote that never answers ends with an error once the client has given up; which of the errors are still
   counted when the status (404 or 502) is chosen then depends on goroutine timing.  So when some remote is
   silent and the model predicts a failure, either failure status is accepted; a relayed manifest never is. *)
Definition failed (r : fres) : bool :=
  match r with FRes c None => N.eqb c 404 || N.eqb c 502 | _ => false end.
(* Capacity: with MaxRequestAmplification = amp > 0 at most amp remote requests are in flight; a silent remote
   keeps its slot for ever.  A remote is legitimately never asked only while every slot is held by a silent
   remote; a remote that was never asked counts as silent. *)
Definition mask (unasked : list string) (arr : list (string * hanswer)) : list (string * hanswer) :=
  map (fun ra => if existsb (String.eqb (fst ra)) unasked then (fst ra, HHang) else ra) arr.
Definition nhang (arr : list (string * hanswer)) : nat := List.length (filter (fun ra => is_hang (snd ra)) arr).
(* the silent remotes cannot exhaust the capacity: every remote must get asked *)
Definition must_ask (amp : N) (arr : list (string * hanswer)) : bool := N.eqb amp 0 || N.ltb (N.of_nat (nhang arr)) amp.
Definition asked_part (unasked : list string) (arr : list (string * hanswer)) : list (string * hanswer) :=
  filter (fun ra => negb (existsb (String.eqb (fst ra)) unasked)) arr.
Definition model_fget (req : string) (local : hanswer) (amp : N) (arr0 : list (string * hanswer)) (unasked : list string)
  (calls : list string) (res : fres) : bool :=
  let arr := mask unasked arr0 in
  (fres_eqb (fan_get req local arr) res ||
   (existsb (fun ra => is_hang (snd ra)) arr && failed (fan_get req local arr) && failed res)) &&
  (* once an answer has been forwarded, a remote that was waiting for a slot may or may not still be asked before
     everything is cancelled (goroutine timing): then only "local once, nobody but configured remotes" is demanded *)
  (match unasked, res with
   | _ :: _, FRes _ (Some _) =>
     Nat.eqb (count EmptyString calls) 1 && forallb (fun c => (c =? EmptyString) || existsb (String.eqb c) (map fst arr0)) calls
   | _, _ => perm_b calls (EmptyString :: if fan_remotes_asked local then map fst (asked_part unasked arr0) else [])
   end) &&
  (* once an answer has been forwarded the remaining remotes are not asked any more; otherwise a remote stays
     unasked only while every slot is held by a silent remote *)
  (match unasked, res with
   | [], _ | _, FRes _ (Some _) => true
   | _, _ => fan_remotes_asked local && N.eqb (N.of_nat (nhang (asked_part unasked arr0))) amp
   end).
Definition model_fuuid (remote : string) (known : bool) (a : hanswer) (calls : list string) (res : fres) : bool :=
  fres_eqb (fan_uuid known remote a) res && perm_b calls (if known then [remote] else []).

(* ---------- specification ---------- *)
(* manifests the legacy path is able to verify: valid, every locator plain or signed in the shape
   SignedLocatorRe accepts, no CR *)
Definition legacy_valid (m : string) : option (list mstream) :=
  match parse m with Some ss => if forallb legacy_stream ss then Some ss else None | None => None end.

(* the answer of remote r vouches for handing m' to the client: status 200, a collection record, and if its
   manifest is one the legacy path can verify, it hashes to the expected value and m' is that manifest with
   every A-hint turned into an R<r>- hint *)
Definition vouches (r expect m' : string) (a : hanswer) : bool :=
  match a with
  | HResp c b =>
    N.eqb c 200 &&
    match body_col b with
    | Some (p, m) =>
      match legacy_valid m with
      | Some ss => (pdh m =? (if expect =? "" then p else expect)) && (m' =? render (map (rw_stream r) ss))
      | None => true
      end
    | None => false
    end
  | _ => false
  end.
(* an honest answer: status 200, the record says the expected hash, the manifest is valid and hashes to it *)
Definition honest (expect : string) (a : hanswer) : bool :=
  match a with
  | HResp c (BCol p m) =>
    N.eqb c 200 && (p =? (if expect =? "" then p else expect)) &&
    match legacy_valid m with Some _ => pdh m =? p | None => false end
  | _ => false
  end.

Definition spec_fget (req : string) (local : hanswer) (arr : list (string * hanswer)) (res : fres) : bool :=
  if h404 local then
    match res with
    | FRes c (Some m') => N.eqb c 200 && existsb (fun ra => vouches (fst ra) req m' (snd ra)) arr
    | FRes c None => N.leb 400 c && negb (existsb (fun ra => honest req (snd ra)) arr)
    end
  else true.      (* the local cluster's own answer is final; the property is about what remotes send *)
Definition spec_fuuid (remote : string) (known : bool) (a : hanswer) (res : fres) : bool :=
  match res with
  | FRes c (Some m') => negb (N.eqb c 200) || (known && vouches remote "" m' a)
  | FRes c None => negb (known && honest "" a)
  end.

(* availability of the honest answer: when the capacity cannot be exhausted by silent remotes, every configured
   remote counts - also one that was never asked; otherwise the remotes that were asked *)
Definition spec_fget2 (amp : N) (req : string) (local : hanswer) (arr : list (string * hanswer)) (unasked : list string) (res : fres) : bool :=
  match res with
  | FRes c (Some _) => spec_fget req local (mask unasked arr) res
  | FRes c None => spec_fget req local (if must_ask amp arr then arr else mask unasked arr) res
  end.

Definition model_b (c : case) : bool :=
  match c with
  | FGet lid req l amp arr un calls res => model_fget req l amp arr un calls res
  | FUuid lid r known a calls res => model_fuuid r known a calls res
  end.
Definition spec_b (c : case) : bool :=
  match c with
  | FGet lid req l amp arr un calls res => spec_fget2 amp req l arr un res
  | FUuid lid r known a calls res => spec_fuuid r known a res
  end.
Definition check_case (c : case) : N :=
  ((if model_b c then 0 else 1) + (if spec_b c then 0 else 2))%N.
Fixpoint failing_from (i : N) (cs : list case) : list (N * N) :=
  match cs with
  | [] => []
  | c :: r => let k := check_case c in
              if N.eqb k 0 then failing_from (N.succ i) r else (i, k) :: failing_from (N.succ i) r
  end.
Definition failing (cs : list case) : list (N * N) := failing_from 0%N cs.
