(* C05 — evaluator for generated case files.
   spec_b judges what the real balanceBlock put into the change sets against the physical-device
   reading of the layout; model_b compares it with the model's output (only when the sort
   comparator has no ties, otherwise Go's unstable sort leaves the outcome under-determined).
   check_case: 0 ok, +1 mismatch, +2 spec violated.  No known-finding bit is accepted any more: F1, F10,
   F12 and F8 are repaired in /repo (the predicates f1/f10/f12/lost_bits below are kept only for the
   theorems about the old algorithm, model/C05_old_model.v). *)
From Coq Require Import List Arith Bool NArith.
From AV Require Import model.C05_model model.C05_old_model.
Import ListNotations.

Record case := {
  c_dflt : nat;                     (* id of class "default" *)
  c_raw : list mnt;                 (* mounts as reported by the services (before cleanupMounts) *)
  c_sro : list nat;                 (* read-only services *)
  c_repl : list (nat * nat);        (* blk.Replicas: (mount, mtime) in order *)
  c_desired : list (nat * nat);     (* blk.Desired: (class, n) *)
  c_rank : list nat;                (* service -> rendezvous position (from the real NewRootSorter) *)
  c_devrank : list nat;             (* device -> position in the real rendezvousLess order *)
  c_min : nat;                      (* bal.MinMtime *)
  o_trash : list (nat * nat);       (* observed: (mount, mtime) of every Trash in the change sets *)
  o_pull : list (nat * nat);        (* observed: (target mount, source service) of every Pull *)
  o_lost : bool                     (* observed: balanceResult.lost *)
}.

Definition mkm (i s d : nat) (ro : bool) (r : nat) (cls : list nat) : mnt :=
  {| mid := i; msrv := s; dev := d; mro := ro; mrepl := r; mclasses := cls |}.

(* ---------- physical-device view ---------- *)
(* a blank DeviceID is a device of its own; (0, S mid) can never equal (d, 0) with d <> 0 *)
Definition pd := (nat * nat)%type.
Definition pdev (m : mnt) : pd := if dev m =? 0 then (0, S (mid m)) else (dev m, 0).
Definition pd_eqb (a b : pd) : bool := (fst a =? fst b) && (snd a =? snd b).
Definition pd_mem (x : pd) (l : list pd) : bool := existsb (pd_eqb x) l.
Fixpoint pd_nodup (l : list pd) : list pd :=
  match l with [] => [] | x :: r => if pd_mem x r then pd_nodup r else x :: pd_nodup r end.

Definition holds (repl : list (nat * nat)) (m : mnt) : bool := existsb (fun r => fst r =? mid m) repl.
(* devices that hold the block: some mount of the device shows a replica *)
Definition held (eff : list mnt) (repl : list (nat * nat)) : list pd :=
  pd_nodup (map pdev (filter (holds repl) eff)).
(* replication a device contributes to class c: the largest Replication among its mounts in c *)
Definition dev_repl (dflt c : nat) (eff : list mnt) (p : pd) : nat :=
  fold_right Nat.max 0 (map mrepl (filter (fun m => pd_eqb (pdev m) p && inclass dflt c m) eff)).
Definition phys_repl (dflt c : nat) (eff : list mnt) (devs : list pd) : nat :=
  list_sum (map (dev_repl dflt c eff) devs).
(* devices emptied when every trash request is carried out *)
Definition gone (eff : list mnt) (tr : list (nat * nat)) : list pd :=
  flat_map (fun t => map pdev (filter (fun m => mid m =? fst t) eff)) tr.
Definition after (eff : list mnt) (repl tr : list (nat * nat)) : list pd :=
  filter (fun p => negb (pd_mem p (gone eff tr))) (held eff repl).

Definition writable (eff : list mnt) (m : nat) : bool := existsb (fun x => (mid x =? m) && negb (mro x)) eff.
Definition pair_mem (p : nat * nat) (l : list (nat * nat)) : bool :=
  existsb (fun q => (fst p =? fst q) && (snd p =? snd q)) l.
Definition is_nil {A} (l : list A) : bool := match l with [] => true | _ => false end.
Definition wanted (desired : list (nat * nat)) : list (nat * nat) := filter (fun cd => 0 <? snd cd) desired.

(* ---------- the clauses of the property, as booleans over an output (tr, pl, lost) ---------- *)
Section Clauses.
Variable c : case.
Let eff := setup (c_raw c) (c_sro c).
Variables (tr pl : list (nat * nat)) (lost : bool).

(* every trash names an observed replica older than MinMtime on a writable mount of a writable server *)
Definition cl_trash_basic : bool :=
  forallb (fun t => pair_mem t (c_repl c) && (snd t <? c_min c) && writable eff (fst t)) tr.
(* under-replicated for class k (physically) => nothing is trashed *)
Definition viol_under (k d : nat) : bool :=
  (0 <? d) && (phys_repl (c_dflt c) k eff (held eff (c_repl c)) <? d) && negb (is_nil tr).
(* executing every trash (no pull succeeding) leaves class k with >= min(desired, before) *)
Definition viol_pres (k d : nat) : bool :=
  (0 <? d) && negb (Nat.min d (phys_repl (c_dflt c) k eff (held eff (c_repl c))) <=?
                    phys_repl (c_dflt c) k eff (after eff (c_repl c) tr)).
Definition cl_under : bool := forallb (fun kd => negb (viol_under (fst kd) (snd kd))) (c_desired c).
Definition cl_pres : bool := forallb (fun kd => negb (viol_pres (fst kd) (snd kd))) (c_desired c).
(* pulls: target writable and lacking the block, some replica exists, the source service has one *)
Definition cl_pull : bool :=
  forallb (fun p => writable eff (fst p) && negb (existsb (fun r => fst r =? fst p) (c_repl c)) &&
                    existsb (fun r => existsb (fun m => (mid m =? fst r) && (msrv m =? snd p)) (c_raw c)) (c_repl c)) pl.
(* referenced, no replica anywhere => reported lost *)
Definition cl_lost : bool :=
  negb (is_nil (c_repl c) && negb (is_nil (wanted (c_desired c)))) || lost.

Definition spec_core : bool := cl_trash_basic && cl_under && cl_pres && cl_pull && cl_lost.

(* ---------- known findings: narrow trigger predicates (model vocabulary) ---------- *)
(* the same two replication clauses with every mount counted as a device of its own *)
Definition hm := filter (holds (c_repl c)) eff.
Definition msum (k : nat) (ms : list mnt) : nat := list_sum (map mrepl (filter (inclass (c_dflt c) k) ms)).
Definition hm_after := filter (fun m => negb (existsb (fun t => fst t =? mid m) tr)) hm.
Definition mviol_under (k d : nat) : bool := (0 <? d) && (msum k hm <? d) && negb (is_nil tr).
Definition mviol_pres (k d : nat) : bool := (0 <? d) && negb (Nat.min d (msum k hm) <=? msum k hm_after).

(* F1: one non-blank device seen through two mounts that both show a replica (counted twice by
   replProt/safe), and the violation disappears when mounts are counted instead of devices *)
Definition shared_double : bool :=
  existsb (fun m => existsb (fun m' => negb (mid m =? mid m') && negb (dev m =? 0) && (dev m =? dev m')) hm) hm.
Definition f1 (k d : nat) : bool :=
  shared_double && ((viol_under k d && negb (mviol_under k d)) || (viol_pres k d && negb (mviol_pres k d))).
(* F10: a trashed member of class k shares its server with another member of k, while a replica on a
   mount outside k sits on another server (the distinct-servers pass met the class with it) *)
Definition f10 (k d : nat) : bool :=
  viol_pres k d &&
  existsb (fun t => existsb (fun m => (mid m =? fst t) && inclass (c_dflt c) k m &&
      existsb (fun m' => negb (mid m' =? mid m) && (msrv m' =? msrv m) && inclass (c_dflt c) k m') eff &&
      existsb (fun n => negb (inclass (c_dflt c) k n) && negb (msrv n =? msrv m)) hm) eff) tr.
(* F12: the class is desired but offered by no mount at all *)
Definition f12 (k d : nat) : bool := viol_under k d && negb (existsb (inclass (c_dflt c) k) eff).

Definition repl_bits : N :=
  fold_right (fun kd acc =>
    let k := fst kd in let d := snd kd in
    if viol_under k d || viol_pres k d then
      let b := ((if f1 k d then 4 else 0) + (if f10 k d then 8 else 0) + (if f12 k d then 16 else 0))%N in
      N.lor acc (if N.eqb b 0 then 2%N else b)
    else acc) 0%N (c_desired c).

(* F8: nothing is writable; F12 (lost part): no desired class is offered by any mount *)
Definition lost_bits : N :=
  if cl_lost then 0%N
  else if negb (existsb (fun m => negb (mro m)) eff) then 32%N
  else if negb (existsb (fun kd => mem (fst kd) (classes_of (c_dflt c) eff)) (wanted (c_desired c))) then 16%N
  else 2%N.

Definition spec_bits : N :=
  N.lor (N.lor repl_bits lost_bits) (if cl_trash_basic && cl_pull then 0%N else 2%N).
End Clauses.

Definition spec_b (c : case) : bool := spec_core c (o_trash c) (o_pull c) (o_lost c).

(* ---------- model output ---------- *)
Definition m_out (c : case) : list change * bool :=
  balance (c_dflt c) (fun s => nth s (c_rank c) 0) (fun d => nth d (c_devrank c) 0) (c_min c)
          (c_raw c) (c_sro c) (c_repl c) (c_desired c).
(* the algorithm before the repairs, on the same case *)
Definition m_out_old (c : case) : list change * bool :=
  balance_old (c_dflt c) (fun s => nth s (c_rank c) 0) (fun d => nth d (c_devrank c) 0) (c_min c)
              (c_raw c) (c_sro c) (c_repl c) (c_desired c).
Definition trashes (l : list change) : list (nat * nat) :=
  flat_map (fun ch => match ch with Trash m t => [(m, t)] | _ => [] end) l.
Definition pulls (l : list change) : list (nat * nat) :=
  flat_map (fun ch => match ch with Pull m f => [(m, f)] | _ => [] end) l.

Fixpoint pins (x : nat * nat) (l : list (nat * nat)) : list (nat * nat) :=
  match l with
  | [] => [x]
  | y :: r => if (fst x <? fst y) || ((fst x =? fst y) && (snd x <=? snd y)) then x :: l else y :: pins x r
  end.
Definition psort (l : list (nat * nat)) : list (nat * nat) := fold_right pins [] l.
Fixpoint peq (a b : list (nat * nat)) : bool :=
  match a, b with
  | [], [] => true
  | x :: r, y :: s => (fst x =? fst y) && (snd x =? snd y) && peq r s
  | _, _ => false
  end.

(* the comparator is a strict total order on the slots iff no two mounts of one server have the
   same DeviceID position (two blank devices, or one device mounted twice on a server) *)
Definition no_ties (c : case) : bool :=
  let eff := setup (c_raw c) (c_sro c) in
  let dr := fun m => nth (dev m) (c_devrank c) 0 in
  forallb (fun m => forallb (fun m' => (mid m =? mid m') || negb (msrv m =? msrv m') || negb (dr m =? dr m')) eff) eff.

Definition model_b (c : case) : bool :=
  negb (no_ties c) ||
  (let '(chs, lost) := m_out c in
   peq (psort (trashes chs)) (psort (o_trash c)) && peq (psort (pulls chs)) (psort (o_pull c)) &&
   Bool.eqb lost (o_lost c)).

(* a model's own output judged by the same clauses *)
Definition model_spec (c : case) : bool :=
  let '(chs, lost) := m_out c in spec_core c (trashes chs) (pulls chs) lost.
Definition model_spec_old (c : case) : bool :=
  let '(chs, lost) := m_out_old c in spec_core c (trashes chs) (pulls chs) lost.

(* ---------- hypotheses under which the OLD algorithm met the specification (proofs/C05_spec.v:
   hyp_b c = true -> model_spec_old c = true); kept with the old model as regression witness ---------- *)
Fixpoint nodupb (l : list nat) : bool :=
  match l with [] => true | x :: r => negb (mem x r) && nodupb r end.
Definition hyp_b (c : case) : bool :=
  let eff := setup (c_raw c) (c_sro c) in
  (* every device is mounted once *)
  nodupb (map mid eff) && nodupb (filter nz (map dev eff)) &&
  (* replicas refer to known mounts; Desired has one entry per class *)
  forallb (fun r => existsb (fun x => mid x =? fst r) (c_raw c)) (c_repl c) &&
  nodupb (map fst (c_desired c)) &&
  (* every desired class is offered by some mount, on pairwise different servers *)
  forallb (fun kd => negb (0 <? snd kd) ||
                     (mem (fst kd) (classes_of (c_dflt c) eff) &&
                      nodupb (map msrv (filter (inclass (c_dflt c) (fst kd)) eff)))) (c_desired c) &&
  (* something is writable *)
  existsb (fun m => negb (mro m)) eff.


Definition check_case (c : case) : N :=
  ((if model_b c then 0 else 1) + (if spec_b c then 0 else 2))%N.

Fixpoint failing_from (i : N) (cs : list case) : list (N * N) :=
  match cs with
  | [] => []
  | c :: r => let k := check_case c in
              if N.eqb k 0 then failing_from (N.succ i) r else (i, k) :: failing_from (N.succ i) r
  end.
Definition failing (cs : list case) : list (N * N) := failing_from 0%N cs.

(* ---------- the alternative repair that was studied (model/C05_fixed.v, fixes/F1_F10_alt_protection_pass.diff):
   its output on a case, for proofs/C05_fixed_proofs.v ---------- *)
From AV Require Import model.C05_fixed.
Definition m_out_f (c : case) : list change * bool :=
  balance_f (c_dflt c) (fun s => nth s (c_rank c) 0) (fun d => nth d (c_devrank c) 0) (c_min c)
            (c_raw c) (c_sro c) (c_repl c) (c_desired c).
Definition model_f_b (c : case) : bool :=
  negb (no_ties c) ||
  (let '(chs, lost) := m_out_f c in
   peq (psort (trashes chs)) (psort (o_trash c)) && peq (psort (pulls chs)) (psort (o_pull c)) &&
   Bool.eqb lost (o_lost c)).
Definition check_case_fixed (c : case) : N :=
  ((if model_f_b c then 0 else 1) + (if spec_b c then 0 else 2))%N.
Fixpoint failing_fixed_from (i : N) (cs : list case) : list (N * N) :=
  match cs with
  | [] => []
  | c :: r => let k := check_case_fixed c in
              if N.eqb k 0 then failing_fixed_from (N.succ i) r else (i, k) :: failing_fixed_from (N.succ i) r
  end.
Definition failing_fixed (cs : list case) : list (N * N) := failing_fixed_from 0%N cs.

