(* C03 — evaluator for generated case files: one KeepClient with one BlockCache, a list of blocks
   (locator, the content the locator stands for, rendezvous order, per-service per-attempt scripted
   responses), a sequence of client operations; the observation is the list of results and the request
   log.  [spec_b] judges the observed results, [model_b] compares them with the model's. *)
From Coq Require Import Arith NArith List Ascii String Bool.
From AV Require Import lib.Str model.C03_model.
Import ListNotations.
Local Open Scope string_scope.
Local Open Scope list_scope.
Local Open Scope nat_scope.

Record blockin := {
  b_loc : string;                       (* locator as used by the client *)
  b_content : string;                   (* the content whose md5 is the locator's hash *)
  b_consistent : bool;                  (* md5(content) = hash and the size hint (if any) = |content| *)
  b_order : list nat;                   (* probe order of the service indices for this hash *)
  b_script : list (list response)       (* per service, per attempt (counted over the whole case) *)
}.

Inductive rmode := MReadAll | MReadFull (k : nat) | MWriteTo | MCloseOnly.

Inductive op :=
| OGet (blk : nat) (m : rmode)                     (* kc.Get, then use the reader as m says, then Close *)
| OReadAt (blk n off : nat)                        (* kc.ReadAt(locator, p[:n], off) *)
| OGroup (k blk n off : nat)                       (* k concurrent ReadAt calls for one block *)
| OFile (segs : list (nat * nat * nat)) (off : nat). (* CollectionFileReader over segments (blk, offset, length): Seek(off), ReadAll *)

Inductive ores :=
| RGet (gerr : err) (size srv : nat) (bytes : string) (rerr cerr : err)
| RRead (bytes : string) (e : err)
| RGroup (l : list (string * err))
| RFile (bytes : string) (e : err).

Record cin := {
  i_retries : nat;
  i_blocks : list blockin;
  i_htab : list (string * string);      (* finite table for H: bytes -> md5 hex *)
  i_ops : list op
}.

Record obs := {
  ob_res : list ores;
  ob_log : list (nat * nat * nat);      (* requests seen by the services: block, service, attempt *)
  ob_nreq : list nat;                   (* per operation: how many of these requests it caused (segments ob_log) *)
  ob_sync : bool                        (* concurrent readers were all waiting before the fetch was answered *)
}.

Record case := { c_in : cin; c_obs : obs }.

Fixpoint tab_lookup (t : list (string * string)) (s : string) : string :=
  match t with [] => "?" | (k, v) :: r => if String.eqb k s then v else tab_lookup r s end.
Definition H_of (i : cin) : string -> string := tab_lookup (i_htab i).

Definition no_block : blockin := {| b_loc := ""; b_content := ""; b_consistent := false; b_order := []; b_script := [] |}.
Definition blk_of (i : cin) (b : nat) : blockin := nth b (i_blocks i) no_block.

(* ---- client state ---- *)
Record cst := { cs_cache : cache; cs_log : list (nat * nat * nat) }.

Fixpoint count_log (b s : nat) (l : list (nat * nat * nat)) : nat :=
  match l with
  | [] => 0
  | (b', s', _) :: r => (if (b' =? b) && (s' =? s) then 1 else 0) + count_log b s r
  end.

Section Run.
Variable i : cin.
Let H := H_of i.

(* the attempt counter of the stub is global: attempt = requests this service already got for this block *)
Definition oracle_at (st : cst) (b : nat) (srv round : nat) : response :=
  nth (count_log b srv (cs_log st) + round) (nth srv (b_script (blk_of i b)) []) ConnErr.

Definition do_get (st : cst) (b : nat) : gout * cst :=
  let g := get_or_head (oracle_at st b) (i_retries i) (b_order (blk_of i b)) (b_loc (blk_of i b)) in
  (g, {| cs_cache := cs_cache st;
         cs_log := cs_log st ++ map (fun p => (b, fst p, count_log b (fst p) (cs_log st) + snd p)) (g_log g) |}).

(* BlockCache.Get *)
Definition cache_get (st : cst) (b : nat) : entry * cst :=
  let loc := b_loc (blk_of i b) in
  match lookup (cs_cache st) (loc_hash loc) with
  | Some (EData d) => (EData d, st)
  | _ => let '(g, st') := do_get st b in
         let e := fetch_entry H loc (g_res g) in
         (e, {| cs_cache := store (cs_cache st') (loc_hash loc) e; cs_log := cs_log st' |})
  end.

Definition read_at (st : cst) (b n off : nat) : (string * err) * cst :=
  let '(e, st') := cache_get st b in (entry_read_at e n off, st').

(* reading a file made of segments from byte offset [off] to the end, one segment after the other;
   stops at the first error *)
Fixpoint file_read (st : cst) (segs : list (nat * nat * nat)) (off : nat) (acc : string) : (string * err) * cst :=
  match segs with
  | [] => ((acc, ENil), st)
  | (b, o, l) :: rest =>
    if l <=? off then file_read st rest (off - l) acc
    else
      let se := {| sg_loc := b_loc (blk_of i b); sg_offset := o; sg_length := l |} in
      let '(e, st') := cache_get st b in
      let '(bytes, er) := seg_read_at (entry_read_at e) se (l - off) off in
      (* filenode.Read moves on to the next segment when this one was read to its end; an io.EOF before that
         ends the file for io.ReadAll (reported as success); any other error is returned *)
      match er with
      | ENil | EEOF =>
        if slen bytes =? l - off then file_read st' rest 0 (acc ++ bytes)%string
        else ((acc ++ bytes)%string, match er with EEOF => ENil | _ => EOther end, st')
      | _ => ((acc ++ bytes)%string, er, st')
      end
  end.

Definition use_reader (g : gres) (loc : string) (m : rmode) : ores :=
  match g with
  | GErr e => RGet e 0 0 "" ENil ENil
  | GEmpty =>
    match m with
    | MReadFull (S _) => RGet ENil 0 0 "" EEOF ENil
    | MReadAll => RGet ENil 0 0 "" EEOF ENil
    | _ => RGet ENil 0 0 "" ENil ENil
    end
  | GOk srv _ size s =>
    let r0 := {| h_st := s; h_pos := 0; h_check := loc_hash loc |} in
    match m with
    | MReadAll => let '(b, e) := hcr_read_all H r0 in RGet ENil size srv b e (hcr_close H r0)
    | MReadFull k => let '(b, e, r') := hcr_read_full H r0 k in RGet ENil size srv b e (hcr_close H r')
    | MWriteTo => let '(b, e) := hcr_write_to H r0 in RGet ENil size srv b e (hcr_close H r0)
    | MCloseOnly => RGet ENil size srv "" ENil (hcr_close H r0)
    end
  end.

Definition do_op (st : cst) (o : op) : ores * cst :=
  match o with
  | OGet b m => let '(g, st') := do_get st b in (use_reader (g_res g) (b_loc (blk_of i b)) m, st')
  | OReadAt b n off => let '(r, st') := read_at st b n off in (RRead (fst r) (snd r), st')
  | OGroup k b n off => let '(r, st') := read_at st b n off in (RGroup (repeat r k), st')
  | OFile segs off => let '(r, st') := file_read st segs off "" in (RFile (fst r) (snd r), st')
  end.

Fixpoint do_ops (st : cst) (ops : list op) : list ores * cst :=
  match ops with
  | [] => ([], st)
  | o :: r => let '(x, st') := do_op st o in let '(xs, st'') := do_ops st' r in (x :: xs, st'')
  end.
End Run.

Definition run_model (i : cin) : list ores * cst := do_ops i {| cs_cache := []; cs_log := [] |} (i_ops i).

(* the number of requests each operation of the model's run causes *)
Fixpoint do_ops_n (i : cin) (st : cst) (ops : list op) : list nat :=
  match ops with
  | [] => []
  | o :: r => let '(_, st') := do_op i st o in (List.length (cs_log st') - List.length (cs_log st)) :: do_ops_n i st' r
  end.
Definition run_nreq (i : cin) : list nat := do_ops_n i {| cs_cache := []; cs_log := [] |} (i_ops i).

(* ---- equality ---- *)
Fixpoint list_eqb {A} (eqb : A -> A -> bool) (a b : list A) : bool :=
  match a, b with [], [] => true | x :: a', y :: b' => eqb x y && list_eqb eqb a' b' | _, _ => false end.
Definition rd_eqb (a b : string * err) : bool := String.eqb (fst a) (fst b) && err_eqb (snd a) (snd b).
Definition ores_eqb (a b : ores) : bool :=
  match a, b with
  | RGet g s v x r c, RGet g' s' v' x' r' c' =>
      err_eqb g g' && (s =? s') && (v =? v') && String.eqb x x' && err_eqb r r' && err_eqb c c'
  | RRead x e, RRead x' e' => rd_eqb (x, e) (x', e')
  | RGroup l, RGroup l' => list_eqb rd_eqb l l'
  | RFile x e, RFile x' e' => rd_eqb (x, e) (x', e')
  | _, _ => false
  end.
Definition log_eqb (a b : nat * nat * nat) : bool :=
  (fst (fst a) =? fst (fst b)) && (snd (fst a) =? snd (fst b)) && (snd a =? snd b).

(* ---- the boolean specification, on the observed results only ---- *)
(* what a successful read of (n bytes at off) of content c must return *)
Definition slice_ok (c : string) (n off : nat) (bytes : string) : bool :=
  (off <=? slen c) && String.eqb bytes (take n (drop off c)).

(* expected bytes of a file made of segments, from byte offset off *)
Fixpoint file_bytes (i : cin) (segs : list (nat * nat * nat)) (off : nat) : string :=
  match segs with
  | [] => ""
  | (b, o, l) :: rest =>
    if l <=? off then file_bytes i rest (off - l)
    else (take (l - off) (drop (o + off) (b_content (blk_of i b))) ++ file_bytes i rest 0)%string
  end.

Definition rd_ok (c : string) (n off : nat) (r : string * err) : bool :=
  match snd r with ENil => slice_ok c n off (fst r) | _ => true end.

Definition op_ok (i : cin) (o : op) (r : ores) : bool :=
  match o, r with
  | OGet b m, RGet gerr size srv bytes rerr cerr =>
    let bl := blk_of i b in let c := b_content bl in
    negb (b_consistent bl) ||
    match gerr with
    | ENil =>
      (* the size announced by Get is the size in the locator *)
      match size_hint (b_loc bl) with Some n => size =? n | None => true end &&
      match m with
      | MReadAll => match rerr with EEOF | ENil => String.eqb bytes c | _ => true end
      | MWriteTo => match rerr with ENil => String.eqb bytes c | _ => true end
      | MReadFull k => match rerr, cerr with
                       | ENil, ENil => (k <=? slen c) && String.eqb bytes (take k c)
                       | _, _ => true
                       end
      | MCloseOnly => true
      end &&
      (* Close succeeds only if the whole stream was the content; a reader that verified at EOF verifies at Close *)
      match m, rerr, cerr with
      | MReadAll, (EEOF | ENil), ENil | MWriteTo, ENil, ENil => true
      | MReadAll, (EEOF | ENil), _ | MWriteTo, ENil, _ => false
      | _, _, _ => true
      end
    | _ => true
    end
  | OReadAt b n off, RRead bytes e =>
    let bl := blk_of i b in negb (b_consistent bl) || rd_ok (b_content bl) n off (bytes, e)
  | OGroup k b n off, RGroup l =>
    let bl := blk_of i b in
    (List.length l =? k) && (negb (b_consistent bl) || forallb (rd_ok (b_content bl) n off) l)
  | OFile segs off, RFile bytes e =>
    negb (forallb (fun s => b_consistent (blk_of i (fst (fst s)))) segs) ||
    match e with ENil => String.eqb bytes (file_bytes i segs off) | _ => true end
  | _, _ => false
  end.

Fixpoint ops_ok (i : cin) (ops : list op) (rs : list ores) : bool :=
  match ops, rs with
  | [], [] => true
  | o :: ops', r :: rs' => op_ok i o r && ops_ok i ops' rs'
  | _, _ => false
  end.

(* not_found_classes, checked on the first operation (all attempt counters are 0 then): if every service
   answers 404 the error is BlockNotFound *)
Definition first404 (bl : blockin) : bool :=
  negb (empty_block_loc (b_loc bl)) &&
  forallb (fun s => match nth 0 (nth s (b_script bl) []) ConnErr with Resp st _ _ _ => (st =? 404)%N | ConnErr => false end)
          (b_order bl).
Definition notfound_ok (i : cin) (rs : list ores) : bool :=
  match i_ops i, rs with
  | OGet b _ :: _, RGet gerr _ _ _ _ _ :: _ => negb (first404 (blk_of i b)) || err_eqb gerr ENotFound
  | OReadAt b _ _ :: _, RRead _ e :: _ => negb (first404 (blk_of i b)) || err_eqb e ENotFound
  | _, _ => true
  end.

(* ---- the locator clauses: judged on the locator and the observed results only; the content the generator had
   in mind (b_content, b_consistent) plays no role.  "Data delivered as a successful read has the MD5 and the size
   that appear in the locator."  Since fix F25 the reader returned by Get counts the bytes it delivers, so the
   length clauses hold for every kind of answer (declared Content-Length or not). ---- *)

Definition hint_eqb (a b : option nat) : bool :=
  match a, b with Some x, Some y => x =? y | None, None => true | _, _ => false end.

(* the block cache is keyed by the hash alone: what a cached read through the locator of [bl] returns may have
   been fetched through the locator of any block of the case with that hash, and then has THAT locator's size.
   The cached-read clauses therefore apply when all blocks of the case with bl's hash carry bl's size hint and none
   of them takes the empty-block short cut (which stores "" whatever the hint says, e.g. "d41d8...+05"). *)
Definition loc_guard (i : cin) (bl : blockin) : bool :=
  negb (empty_block_loc (b_loc bl)) &&
  forallb (fun bl' => negb (String.eqb (loc_hash (b_loc bl')) (loc_hash (b_loc bl))) ||
                      (hint_eqb (size_hint (b_loc bl')) (size_hint (b_loc bl)) && negb (empty_block_loc (b_loc bl'))))
          (i_blocks i).

(* the reader was read to its end and the read reported success *)
Definition full_read (m : rmode) (rerr : err) : bool :=
  match m, rerr with
  | MReadAll, (EEOF | ENil) => true
  | MWriteTo, ENil => true
  | _, _ => false
  end.

(* a Get that returned a reader, locator not the empty block's *)
Definition get_loc_ok (H : string -> string) (bl : blockin) (m : rmode) (size : nat) (bytes : string) (rerr cerr : err) : bool :=
  let loc := b_loc bl in
  (* (a) the size announced by Get is the size in the locator *)
  match size_hint loc with Some n => size =? n | None => true end &&
  (* (b) a complete successful read delivered bytes with the locator's digest *)
  (negb (full_read m rerr) || String.eqb (H bytes) (loc_hash loc)) &&
  (* (c) ... and with the locator's size *)
  (negb (full_read m rerr) || match size_hint loc with Some n => slen bytes =? n | None => true end) &&
  (* (d) a successful partial read confirmed by Close stays inside the locator's size *)
  match m, rerr, cerr with
  | MReadFull k, ENil, ENil => match size_hint loc with Some n => (k <=? n) && (slen bytes =? k) | None => true end
  | _, _, _ => true
  end.

(* a cached read of k bytes at offset off that reported success *)
Definition rd_loc_ok (H : string -> string) (loc : string) (k off : nat) (r : string * err) : bool :=
  match snd r with
  | ENil =>
    match size_hint loc with
    | Some n => (off <=? n) && (slen (fst r) =? Nat.min k (n - off)) &&
                (negb ((off =? 0) && (n <=? k)) || String.eqb (H (fst r)) (loc_hash loc))
    | None => negb ((off =? 0) && (slen (fst r) <? k)) || String.eqb (H (fst r)) (loc_hash loc)
    end
  | _ => true
  end.

Definition loc_ok (i : cin) (o : op) (r : ores) : bool :=
  match o, r with
  | OGet b m, RGet gerr size srv bytes rerr cerr =>
    let bl := blk_of i b in
    match gerr with
    | ENil => empty_block_loc (b_loc bl) || get_loc_ok (H_of i) bl m size bytes rerr cerr
    | _ => true
    end
  | OReadAt b k off, RRead bytes e =>
    let bl := blk_of i b in negb (loc_guard i bl) || rd_loc_ok (H_of i) (b_loc bl) k off (bytes, e)
  | OGroup g b k off, RGroup l =>
    let bl := blk_of i b in negb (loc_guard i bl) || forallb (rd_loc_ok (H_of i) (b_loc bl) k off) l
  | OFile _ _, RFile _ _ => true
  | _, _ => false
  end.

Fixpoint ops_loc_ok (i : cin) (ops : list op) (rs : list ores) : bool :=
  match ops, rs with
  | [], [] => true
  | o :: ops', r :: rs' => loc_ok i o r && ops_loc_ok i ops' rs'
  | _, _ => false
  end.

(* per operation (content clauses, locator clauses): printed with a failing case, not part of the verdict *)
Fixpoint judge_ops (i : cin) (ops : list op) (rs : list ores) : list (bool * bool) :=
  match ops, rs with
  | o :: ops', r :: rs' => (op_ok i o r, loc_ok i o r) :: judge_ops i ops' rs'
  | _, _ => []
  end.

(* ---- the error class of a failed read, judged against the answers the services gave to the requests of that
   very operation.  ob_nreq cuts the request log into one segment per operation; the scripted answer of the log
   entry (block, service, attempt) is entry [attempt] of the service's row of the block's script (the stub's
   attempt counter, as in oracle_at).  A service that answered 404 is not asked again in the same call; a service
   is asked again in the next round exactly when its answer was retryable (connection error, 408, 429, >= 500).
   So: BlockNotFound means every service of the probe order answered 404 in this operation; if every service's
   last answer in the operation is a 404 the error is BlockNotFound; otherwise the error is temporary exactly
   when some service's last answer was retryable.  Judged only when the probe order has no duplicates (a function
   of the input) and when the observation could attribute requests to operations (ob_sync). ---- *)
Definition is404b (r : response) : bool := match r with Resp st _ _ _ => (st =? 404)%N | ConnErr => false end.
Definition retryableb (r : response) : bool := match r with Resp st _ _ _ => retry_status st | ConnErr => true end.

(* (service, answer) for each request of a log segment *)
Definition ans_at (i : cin) (en : nat * nat * nat) : response :=
  nth (snd en) (nth (snd (fst en)) (b_script (blk_of i (fst (fst en)))) []) ConnErr.
Definition answers (i : cin) (seg : list (nat * nat * nat)) : list (nat * response) :=
  map (fun en => (snd (fst en), ans_at i en)) seg.

(* the last answer service s gave in the segment *)
Fixpoint last_of (al : list (nat * response)) (s : nat) : option response :=
  match al with
  | [] => None
  | (s', r) :: rest => match last_of rest s with Some x => Some x | None => if s' =? s then Some r else None end
  end.
Definition has404 (al : list (nat * response)) (s : nat) : bool := existsb (fun p => (fst p =? s) && is404b (snd p)) al.
Definition last404 (al : list (nat * response)) (s : nat) : bool :=
  match last_of al s with Some r => is404b r | None => false end.
Definition last_retry (al : list (nat * response)) (s : nat) : bool :=
  match last_of al s with Some r => retryableb r | None => false end.
Fixpoint nodupb (l : list nat) : bool :=
  match l with [] => true | x :: r => negb (existsb (Nat.eqb x) r) && nodupb r end.
Definition all_last_404 (order : list nat) (al : list (nat * response)) : bool :=
  match order with [] => false | _ => forallb (last404 al) order end.

Definition class_okb (order : list nat) (al : list (nat * response)) (e : err) : bool :=
  match e with
  | ENotFound => forallb (has404 al) order
  | ETemp => existsb (last_retry al) order
  | EPerm => negb (existsb (last_retry al) order)
  | _ => true
  end && (negb (all_last_404 order al) || err_eqb e ENotFound).
Definition class_ok (order : list nat) (al : list (nat * response)) (e : err) : bool :=
  negb (nodupb order) || class_okb order al e.

Definition err_ok (i : cin) (o : op) (r : ores) (seg : list (nat * nat * nat)) : bool :=
  match o, r with
  | OGet b _, RGet gerr _ _ _ _ _ => class_ok (b_order (blk_of i b)) (answers i seg) gerr
  | OReadAt b _ _, RRead _ e => class_ok (b_order (blk_of i b)) (answers i seg) e
  | OGroup _ b _ _, RGroup l => forallb (fun r => class_ok (b_order (blk_of i b)) (answers i seg) (snd r)) l
  | _, _ => true
  end.

Fixpoint ops_err_ok (i : cin) (ops : list op) (rs : list ores) (ns : list nat) (log : list (nat * nat * nat)) : bool :=
  match ops, rs, ns with
  | [], [], [] => true
  | o :: ops', r :: rs', n :: ns' => err_ok i o r (firstn n log) && ops_err_ok i ops' rs' ns' (skipn n log)
  | _, _, _ => false
  end.

Definition spec_b (c : case) : bool :=
  ops_ok (c_in c) (i_ops (c_in c)) (ob_res (c_obs c)) && notfound_ok (c_in c) (ob_res (c_obs c)) &&
  ops_loc_ok (c_in c) (i_ops (c_in c)) (ob_res (c_obs c)) &&
  (negb (ob_sync (c_obs c)) ||
   ops_err_ok (c_in c) (i_ops (c_in c)) (ob_res (c_obs c)) (ob_nreq (c_obs c)) (ob_log (c_obs c))).

Definition model_b (c : case) : bool :=
  let '(rs, st) := run_model (c_in c) in
  list_eqb ores_eqb (ob_res (c_obs c)) rs &&
  (negb (ob_sync (c_obs c)) ||
   (list_eqb log_eqb (ob_log (c_obs c)) (cs_log st) && list_eqb Nat.eqb (ob_nreq (c_obs c)) (run_nreq (c_in c)))).

Definition check_case (c : case) : N :=
  ((if model_b c then 0 else 1) + (if spec_b c then 0 else 2))%N.

Fixpoint failing_from (k : N) (cs : list case) : list (N * N) :=
  match cs with
  | [] => []
  | c :: r => let x := check_case c in
              if N.eqb x 0 then failing_from (N.succ k) r else (k, x) :: failing_from (N.succ k) r
  end.
Definition failing (cs : list case) : list (N * N) := failing_from 0%N cs.

(* ---- helpers for compact case files (pure syntax: each denotes a byte string) ---- *)
Definition flip_at (k : nat) (s : string) : string :=      (* s with bit 0 of byte k inverted *)
  match drop k s with
  | String c r => (take k s ++ String (ascii_of_N (N.lxor (N_of_ascii c) 1)) r)%string
  | EmptyString => s
  end.
Definition B (loc content : string) (cons : bool) (order : list nat) (script : list (list response)) : blockin :=
  {| b_loc := loc; b_content := content; b_consistent := cons; b_order := order; b_script := script |}.
