(* C20 — evaluator for generated case files.
   A case = configuration (incl. Login.LoginCluster) + which Conn.<Type>List was called + request + what
   every stub backend received and answered (in order, per backend; list requests and, for the local
   backend, UserBatchUpdate calls) + whether the call returned at all (o_fate) + what it returned.  [model_b] replays the model against the recorded answers
   and compares requests, error class and merged items; [spec_b] judges the observed behaviour with a
   specification written independently of the model's control flow (targets are defined as "27-char
   strings satisfying every uuid filter"); proofs/C20_spec.v relates the two. *)
From Coq Require Import NArith ZArith List Ascii String Bool.
From AV Require Import lib.Str lib.SortPerm model.C20_model model.C20_entry.
Import ListNotations.
Local Open Scope string_scope.

Record case := {
  c_cfg : config;
  c_login : string;                                 (* Login.LoginCluster of the cluster configuration *)
  c_kind : kind;                                    (* which Conn.<Type>List was called *)
  c_opts : opts;
  c_exist : list string;                            (* objects that exist, each in the database of its home cluster *)
  c_logs : list (string * list (opts * answer));    (* backend id -> (request received, answer given), in order *)
  c_lax : bool;                                     (* the backends honour context cancellation (wire stage: rpc.Conn over HTTP): once a cluster
                                                       has failed, the calls to the others may be cut short — their logs are compared as prefixes *)
  c_upd : list (list string * bool);                (* UserBatchUpdate calls received by the local backend: (user uuids, answered without error) *)
  o_fate : N;                                       (* 0 = the call returned; 1 = it had not returned when the watchdog (20 s) expired; 2 = it panicked *)
  o_code : N;                                       (* 0 = nil error, otherwise the HTTP status of the error *)
  o_items : list (string * item)                    (* returned items, each with the backend that produced it *)
}.

(* compact constructors used by the generated files *)
Definition It (u : string) (t : N) : item := {| it_uuid := u; it_time := t |}.
Definition Fl (a o : string) (v : operand) : lfilter := {| f_attr := a; f_op := o; f_operand := v |}.
Definition Op (b : bool) (fwd : string) (fs : list lfilter) (cnt : string) (lim off : Z) (ord : list string)
  (sel : option (list string)) : opts :=
  {| o_bypass := b; o_fwd := fwd; o_filters := fs; o_count := cnt; o_limit := lim; o_offset := off; o_order := ord; o_select := sel |}.
Definition Cf (l : string) (r : list string) (m : Z) : config := {| cf_local := l; cf_remotes := r; cf_max := m |}.

(* ---------- generic helpers ---------- *)
Fixpoint assoc {A} (k : string) (l : list (string * A)) : option A :=
  match l with [] => None | (k', v) :: r => if k' =? k then Some v else assoc k r end.
Fixpoint count (x : string) (l : list string) : nat :=
  match l with [] => O | y :: r => (if x =? y then 1 else 0) + count x r end.
Definition perm_b (a b : list string) : bool := forallb (fun x => Nat.eqb (count x a) (count x b)) (a ++ b).
Fixpoint nodupb (l : list string) : bool := match l with [] => true | x :: r => negb (mem x r) && nodupb r end.
Fixpoint nodupN (l : list N) : bool := match l with [] => true | x :: r => negb (existsb (N.eqb x) r) && nodupN r end.
Definition subset_b (a b : list string) : bool := forallb (fun x => mem x b) a.
Fixpoint list_eqb {A} (e : A -> A -> bool) (a b : list A) : bool :=
  match a, b with [], [] => true | x :: a', y :: b' => e x y && list_eqb e a' b' | _, _ => false end.
Definition opt_eqb {A} (e : A -> A -> bool) (a b : option A) : bool :=
  match a, b with None, None => true | Some x, Some y => e x y | _, _ => false end.

Definition operand_eqb (a b : operand) : bool :=
  match a, b with
  | OStr x, OStr y => x =? y
  | OList x, OList y => list_eqb (opt_eqb String.eqb) x y
  | OStrs x, OStrs y => perm_b x y          (* a batch is built from a Go map: order unspecified *)
  | OOther, OOther => true
  | _, _ => false
  end.
Definition lfilter_eqb (a b : lfilter) : bool :=
  (f_attr a =? f_attr b) && (f_op a =? f_op b) && operand_eqb (f_operand a) (f_operand b).
Definition opts_eqb (a b : opts) : bool :=
  Bool.eqb (o_bypass a) (o_bypass b) && (o_fwd a =? o_fwd b) && list_eqb lfilter_eqb (o_filters a) (o_filters b) &&
  (o_count a =? o_count b) && (o_limit a =? o_limit b)%Z && (o_offset a =? o_offset b)%Z &&
  list_eqb String.eqb (o_order a) (o_order b) && opt_eqb (list_eqb String.eqb) (o_select a) (o_select b).
Definition titem_eqb (a b : string * item) : bool :=
  (fst a =? fst b) && (it_uuid (snd a) =? it_uuid (snd b)) && N.eqb (it_time (snd a)) (it_time (snd b)).
Definition titem_key (a : string * item) : string := fst a ++ "/" ++ it_uuid (snd a) ++ "/" ++ dec (it_time (snd a)).

(* ---------- model side ---------- *)
Definition log_of (c : case) (b : string) : list (opts * answer) :=
  match assoc b (c_logs c) with Some l => l | None => [] end.
(* the recorded answers as an oracle (the batch argument is not needed: the n-th answer is the n-th answer) *)
Definition oracle (c : case) : string -> nat -> list string -> answer :=
  fun b n _ => match nth_error (log_of c b) n with Some (_, a) => a | None => AErr 999 end.
Definition backends (c : case) : list string :=
  dedup (cf_local (c_cfg c) :: cf_remotes (c_cfg c) ++ map fst (c_logs c)).

Definition items_match (m o : list (string * item)) : bool :=
  if nodupN (map (fun x => it_time (snd x)) m) then list_eqb titem_eqb m o
  else perm_b (map titem_key m) (map titem_key o).

Definition econf (c : case) : econfig := {| ec_cfg := c_cfg c; ec_login := c_login c |}.
(* the local backend's answer to UserBatchUpdate, as recorded *)
Definition upd_oracle (c : case) : bool := match c_upd c with (_, ok) :: _ => ok | [] => true end.
(* the model always returns: a call that is stuck or panicked is never explained by it *)
Fixpoint prefix_b {A} (e : A -> A -> bool) (a b : list A) : bool :=    (* a is a prefix of b *)
  match a, b with [], _ => true | x :: a', y :: b' => e x y && prefix_b e a' b' | _ :: _, [] => false end.
Definition model_b (c : case) : bool :=
  let eo := erun (econf c) (oracle c) (c_kind c) (c_opts c) in
  let failed := negb (is_nil (e_errs (econf c) (upd_oracle c) eo)) in
  N.eqb (o_fate c) 0 &&
  forallb (fun b => if c_lax c && failed
                    then prefix_b (fun x y => opts_eqb y x) (map fst (log_of c b)) (e_calls_to (econf c) (c_opts c) eo b)
                    else list_eqb opts_eqb (e_calls_to (econf c) (c_opts c) eo b) (map fst (log_of c b))) (backends c) &&
  list_eqb perm_b (e_updates (econf c) eo) (map fst (c_upd c)) &&
  match e_errs (econf c) (upd_oracle c) eo with
  | [] => N.eqb (o_code c) 0 && items_match (e_items (econf c) eo) (o_items c)
  | l => existsb (N.eqb (o_code c)) l
  end.

(* ---------- specification side ---------- *)
Definition is_uuid_filter (f : lfilter) : bool := (f_attr f =? "uuid") && ((f_op f =? "=") || (f_op f =? "in")).
Definition well_typed (f : lfilter) : bool :=
  match f_operand f with
  | OStr _ => f_op f =? "="
  | OList _ | OStrs _ => f_op f =? "in"
  | OOther => false
  end.
Definition f_matches (f : lfilter) (u : string) : bool :=
  match f_operand f with
  | OStr s => (f_op f =? "=") && (s =? u)
  | OList l => (f_op f =? "in") && mem u (somes l)
  | OStrs l => (f_op f =? "in") && mem u l
  | OOther => false
  end.
Definition mentioned (o : opts) : list string :=
  flat_map (fun f => match f_operand f with OStr s => [s] | OList l => somes l | OStrs l => l | OOther => [] end)
           (filter is_uuid_filter (o_filters o)).
(* a target: a 27-character string that satisfies every uuid filter (and there is one) *)
Definition is_target (o : opts) (u : string) : bool :=
  is27 u && existsb is_uuid_filter (o_filters o) &&
  forallb (fun f => negb (is_uuid_filter f) || f_matches f u) (o_filters o).
Definition spec_targets (o : opts) : list string := dedup (filter (is_target o) (mentioned o)).

Definition federated (o : opts) : bool := negb (o_bypass o) && (o_fwd o =? "").
Definition all_well_typed (o : opts) : bool := forallb (fun f => negb (is_uuid_filter f) || well_typed f) (o_filters o).
Definition remote_involved (cfg : config) (o : opts) : bool :=
  existsb (fun u => negb (prefix u =? cf_local cfg)) (spec_targets o).
(* queries that cannot be split safely *)
Definition unsafe (cfg : config) (o : opts) : bool :=
  existsb (fun f => negb (is_uuid_filter f)) (o_filters o) || negb (o_count o =? "none") ||
  (0 <=? o_limit o)%Z || negb (o_offset o =? 0)%Z || negb (is_nil (o_order o)) ||
  (cf_max cfg <? Z.of_nat (List.length (spec_targets o)))%Z.

Definition batch_of (rq : opts) : list string :=
  match o_filters rq with
  | [f] => match f_operand f with OStrs l => l | _ => [] end
  | _ => []
  end.
Definition all_entries (c : case) : list (opts * answer) := flat_map snd (c_logs c).
Definition is_err (a : answer) : bool := match a with AErr _ => true | _ => false end.
Definition no_progress (e : opts * answer) : bool :=
  match snd e with
  | AItems (i :: l) => negb (existsb (fun u => mem u (batch_of (fst e))) (uuids (i :: l)))
  | _ => false
  end.

(* per backend log: pages annotated with what the same backend delivered before *)
Fixpoint pages_ok_from (tg : list string) (seen : list string) (l : list (opts * answer)) : bool :=
  match l with
  | [] => true
  | (rq, a) :: r =>
    let us := uuids (page_items a) in
    nodupb us && forallb (fun u => mem u (batch_of rq) || negb (mem u tg) || mem u seen) us &&
    pages_ok_from tg (seen ++ us) r
  end.
(* serial numbers (it_time) of the item instances that repeat something the same backend delivered in an earlier page *)
Fixpoint repeats_from (seen : list string) (l : list (opts * answer)) : list N :=
  match l with
  | [] => []
  | (_, a) :: r =>
    map it_time (filter (fun i => mem (it_uuid i) seen) (page_items a)) ++ repeats_from (seen ++ uuids (page_items a)) r
  end.
Definition repeats (c : case) : list N := flat_map (fun bl => repeats_from [] (snd bl)) (c_logs c).

(* honest backend: every page is a duplicate-free set of existing objects from the requested batch, and
   it is empty only when nothing of the batch exists *)
Definition honest_entry (ex : list string) (e : opts * answer) : bool :=
  match snd e with
  | AErr _ => false
  | AItems l =>
    let us := uuids l in
    nodupb us && subset_b us (batch_of (fst e)) && subset_b us ex &&
    (negb (is_nil l) || negb (existsb (fun u => mem u ex) (batch_of (fst e))))
  end.

(* each requested object at most once, and from the cluster named by its prefix *)
Definition once_b (tg : list string) (items : list (string * item)) : bool :=
  forallb (fun u => Nat.leb (count u (map (fun x => it_uuid (snd x)) items)) 1) tg &&
  forallb (fun x => negb (mem (it_uuid (snd x)) tg) || (fst x =? prefix (it_uuid (snd x)))) items.
Definition complete_b (tg ex : list string) (items : list (string * item)) : bool :=
  forallb (fun u => Bool.eqb (mem u ex) (mem u (map (fun x => it_uuid (snd x)) items))) tg.

(* every requested object whose prefix names a configured cluster was asked for at that cluster
   (calls b = the list requests backend b received) *)
Definition asked_home_b (cfg : config) (tg : list string) (calls : string -> list opts) : bool :=
  forallb (fun u => negb (has_backend cfg (prefix u)) || existsb (fun rq => mem u (batch_of rq)) (calls (prefix u))) tg.

(* the one configuration in which a list-by-uuid is not federated by splitting: user records on a cluster
   that delegates logins to ANOTHER cluster (Login.LoginCluster set and different from the cluster's own
   id) — that cluster is the authority for all user records and gets the whole query.  The property is
   not applied there (the model still is). *)
Definition login_delegated (c : case) : bool :=
  is_user (c_kind c) && negb (c_login c =? "") && negb (c_login c =? cf_local (c_cfg c)).
(* "... instead of looping": the call came back (with a list or an error) *)
Definition returned (c : case) : bool := N.eqb (o_fate c) 0.

(* everything the property demands except "at most once / right origin" *)
Definition spec_base_b (c : case) : bool :=
  let cfg := c_cfg c in let o := c_opts c in let tg := spec_targets o in
  if negb (returned c) then false
  else if login_delegated c || negb (federated o) || negb (all_well_typed o) then true
  else if negb (remote_involved cfg o) then
    (* nothing to federate: no remote backend is contacted *)
    forallb (fun bl => (fst bl =? cf_local cfg) || is_nil (snd bl)) (c_logs c)
  else if unsafe cfg o then
    (* rejected before any backend is called *)
    negb (N.eqb (o_code c) 0) && forallb (fun bl => is_nil (snd bl)) (c_logs c)
  else
    let failed := negb (N.eqb (o_code c) 0) in
    (* unknown cluster, backend error, answer without progress => the whole request fails *)
    (negb (existsb (fun u => negb (has_backend cfg (prefix u))) tg) || failed) &&
    (negb (existsb (fun e => is_err (snd e)) (all_entries c)) || failed) &&
    (negb (existsb no_progress (all_entries c)) || failed) &&
    (* each backend is asked only for requested objects of its own prefix, at most once per object *)
    forallb (fun bl => forallb (fun e => subset_b (batch_of (fst e)) (todo_of (fst bl) tg)) (snd bl) &&
                       Nat.leb (List.length (snd bl)) (List.length (todo_of (fst bl) tg))) (c_logs c) &&
    (* success => every requested object was asked for at the cluster named by its prefix *)
    (failed || asked_home_b cfg tg (fun b => map fst (log_of c b))) &&
    (* honest backends: success, and every existing requested object is returned *)
    (negb (forallb (honest_entry (c_exist c)) (all_entries c) && subset_b (map prefix tg) (cf_local cfg :: cf_remotes cfg)) ||
     (N.eqb (o_code c) 0 && complete_b tg (c_exist c) (o_items c))).

Definition pages_ok (c : case) : bool :=
  forallb (fun bl => pages_ok_from (spec_targets (c_opts c)) [] (snd bl)) (c_logs c).
Definition split_mode (c : case) : bool :=
  negb (login_delegated c) && federated (c_opts c) && all_well_typed (c_opts c) && remote_involved (c_cfg c) (c_opts c) && negb (unsafe (c_cfg c) (c_opts c)).
Definition spec_once_b (c : case) (items : list (string * item)) : bool :=
  negb (split_mode c) || negb (N.eqb (o_code c) 0) || negb (pages_ok c) || once_b (spec_targets (c_opts c)) items.

Definition spec_b (c : case) : bool := spec_base_b c && spec_once_b c (o_items c).

(* F9 trigger: some backend page contains an item already delivered by an earlier page of the same
   cluster.  The case is an instance of F9 only if, in addition, the returned list satisfies the
   specification once those repeated instances are removed from it. *)
Definition f9_trigger (c : case) : bool := negb (is_nil (repeats c)).
Definition known_F9_b (c : case) : bool :=
  f9_trigger c && nodupN (map (fun x => it_time (snd x)) (o_items c)) &&
  spec_once_b c (filter (fun x => negb (existsb (N.eqb (it_time (snd x))) (repeats c))) (o_items c)).

(* 0 ok; +1 model/implementation mismatch; +2 spec violated; +4 instance of known finding F9 *)
Definition check_case (c : case) : N :=
  ((if model_b c then 0 else 1) +
   (if spec_b c then 0 else if spec_base_b c && known_F9_b c then 4 else 2))%N.

Fixpoint failing_from (i : N) (cs : list case) : list (N * N) :=
  match cs with
  | [] => []
  | c :: r => let k := check_case c in
              if N.eqb k 0 then failing_from (N.succ i) r else (i, k) :: failing_from (N.succ i) r
  end.
Definition failing (cs : list case) : list (N * N) := failing_from 0%N cs.
