(* C02 — the Directory-volume write path of one PUT request as a step program over a small file-system
   model; one step = from one yield point of the instrumented unix_volume.go to the next (so "crash
   after k steps" = the process was killed at yield point k, before that call).
   Transcribes (services/keepstore):
     handlers.go      handlePUT, PutBlock, CompareAndTouch (order of volumes, stop at the first identical
                      copy whose Touch succeeds, fall through to NextWritable().Put)
     unix_volume.go   Compare/stat/getFunc (stat, open, close), Touch (open, flock, utimes, unflock,
                      close), WriteBlock (MkdirAll, TempFile, each write of the copy loop, Close, Chtimes,
                      OpenFile of the block path and — if a file is there — flock of it (since /repo
                      a9eb270), Rename, deferred unflock and Close of the old file; on a read error:
                      Close, Remove), IndexTo (names ^[0-9a-f]{32}$ only)
     pipe_adapters.go putWithPipe: the writer side sees the whole buffer then EOF, or — when the request
                      context ends first — a prefix and then a non-EOF error ([source])
   One block name h, body of L bytes whose digest is h ("Good").  A stored file is Good (exactly the
   body) or Corrupt (any other bytes, of some size).  Definitions only. *)
From Coq Require Import NArith List String Bool Ascii.
From AV Require Import lib.Str.
Import ListNotations.
Local Open Scope N_scope.

Definition CHUNK : N := 32768.                   (* io.Copy's buffer *)

Inductive fk := KGood | KCorrupt (size : N).

Record vold := {
  d_ro : bool;
  d_dir : bool;             (* <root>/<h[0:3]> exists *)
  d_blk : option fk;        (* <root>/<h[0:3]>/<h> *)
  d_tmp : option N;         (* <root>/<h[0:3]>/tmp<h><random>: bytes written so far *)
  d_full : bool             (* IsFull(): a fresh <root>/full marker (or < MinFreeKilobytes free): WriteBlock
                               returns FullError before its first filesystem step *)
}.

(* what the writer reads from the pipe *)
Inductive source :=
| Complete                  (* all L bytes, then EOF *)
| FailsAfter (w : nat)      (* w successful chunk reads, then a non-EOF error (context cancelled) *)
| CancelledIn (nv : nat).   (* context cancelled while CompareAndTouch examines its nv-th writable volume:
                               that Compare finishes, then PutBlock returns ErrClientDisconnect *)

Inductive eff :=
| ENone                     (* stat / open / close / flock / unflock: no change visible after a crash *)
| ETouch (i : nat)          (* os.Chtimes(block path): timestamp only *)
| EMkdir (i : nat)
| ECreate (i : nat)
| EWrite (i : nat) (upto : N)   (* temp file now holds the first [upto] bytes of the body *)
| ERename (i : nat)         (* rename(tmp, block path) *)
| ERemoveTmp (i : nat).

Local Open Scope string_scope.
Local Open Scope list_scope.

(* number of chunk writes for an L-byte body *)
Definition nwrites (L : N) : nat := N.to_nat ((L + CHUNK - 1) / CHUNK).
Fixpoint write_steps (i : nat) (L : N) (done : nat) (n : nat) : list (string * eff) :=
  match n with
  | O => []
  | S n' => ("WriteBlock:write:tmpfile", EWrite i (N.min L (N.of_nat (S done) * CHUNK))) :: write_steps i L (S done) n'
  end.

(* WriteBlock on volume i; [ex] = a file is at the block path (it is opened and flocked before the
   rename, unlocked and closed by deferred calls afterwards) *)
Definition lock_steps (ex : bool) : list (string * eff) :=
  ("WriteBlock:v.os.OpenFile", ENone) :: (if ex then [("WriteBlock:v.lockfile", ENone)] else []).
Definition unlock_steps (ex : bool) : list (string * eff) :=
  if ex then [("WriteBlock:defer:v.unlockfile", ENone); ("WriteBlock:defer:old.Close", ENone)] else [].
Definition write_block (i : nat) (L : N) (src : source) (ex : bool) : list (string * eff) * bool :=
  let pre := [("WriteBlock:os.MkdirAll", EMkdir i); ("WriteBlock:v.os.TempFile", ECreate i)] in
  match src with
  | Complete =>
      (pre ++ write_steps i L 0 (nwrites L) ++
       [("WriteBlock:tmpfile.Close", ENone); ("WriteBlock:os.Chtimes", ENone)] ++ lock_steps ex ++
       [("WriteBlock:v.os.Rename", ERename i)] ++ unlock_steps ex, true)
  | FailsAfter w =>
      (pre ++ write_steps i L 0 (Nat.min w (nwrites L)) ++
       [("WriteBlock:tmpfile.Close", ENone); ("WriteBlock:v.os.Remove", ERemoveTmp i)], false)
  | CancelledIn _ => ([], false)
  end.

Definition touch_steps (i : nat) : list (string * eff) :=
  [("Touch:v.os.OpenFile", ENone); ("Touch:v.lockfile", ENone); ("Touch:os.Chtimes", ETouch i);
   ("Touch:defer:v.unlockfile", ENone); ("Touch:defer:f.Close", ENone)].
Definition compare_steps_present : list (string * eff) :=
  [("stat:v.os.Stat", ENone); ("getFunc:v.os.Open", ENone); ("getFunc:defer:f.Close", ENone)].

(* CompareAndTouch over the volumes (index i counts all volumes; read-only ones are skipped):
   Some steps = an identical copy was found and touched: the request is acknowledged without writing *)
Fixpoint compare_and_touch (vs : list vold) (i : nat) : list (string * eff) * bool :=
  match vs with
  | [] => ([], false)
  | v :: r =>
    if d_ro v then compare_and_touch r (S i)
    else match d_blk v with
         | None => let '(t, ok) := compare_and_touch r (S i) in (("stat:v.os.Stat", ENone) :: t, ok)
         | Some KGood => (compare_steps_present ++ touch_steps i, true)
         | Some (KCorrupt _) => let '(t, ok) := compare_and_touch r (S i) in (compare_steps_present ++ t, ok)
         end
  end.

(* the same with the context cancelled while the nv-th writable volume is examined: its Compare
   completes (ctx is checked when Compare returns), nothing is touched, nothing is written *)
Fixpoint compare_cut (vs : list vold) (nv : nat) : list (string * eff) :=
  match vs with
  | [] => []
  | v :: r =>
    if d_ro v then compare_cut r nv
    else let here := match d_blk v with None => [("stat:v.os.Stat", ENone)] | Some _ => compare_steps_present end in
         match nv with O => here | S nv' => here ++ compare_cut r nv' end
  end.

(* index (among all volumes) of the k-th writable volume *)
Fixpoint nth_writable (vs : list vold) (k : nat) (i : nat) : option nat :=
  match vs with
  | [] => None
  | v :: r => if d_ro v then nth_writable r k (S i)
              else match k with O => Some i | S k' => nth_writable r k' (S i) end
  end.
(* PutBlock: NextWritable().Put; when that volume answers FullError (no yield point: IsFull is not part
   of the write path's steps), the fallback loop tries every writable volume in order: the full ones
   answer FullError again, the first one that is not full gets the write.  None = all full: FullError *)
Definition vol_full (vs : list vold) (i : nat) : bool :=
  match nth_error vs i with Some v => d_full v | None => false end.
Fixpoint first_free (vs : list vold) (i : nat) : option nat :=
  match vs with
  | [] => None
  | v :: r => if d_ro v || d_full v then first_free r (S i) else Some i
  end.
Definition put_target (vs : list vold) (n : nat) : option nat :=
  match nth_writable vs (Nat.modulo 1 n) 0 with
  | Some i => if vol_full vs i then first_free vs 0 else Some i
  | None => None
  end.
Definition nwritable (vs : list vold) : nat := List.length (filter (fun v => negb (d_ro v)) vs).

(* the whole PUT (fresh handler: RRVolumeManager.counter = 0, so NextWritable is writable #(1 mod n)).
   Result: the steps and whether the request is acknowledged (200). *)
Definition put_prog (vs : list vold) (L : N) (src : source) : list (string * eff) * bool :=
  match nwritable vs with
  | O => ([], false)                                       (* 503 before anything *)
  | S _ as n =>
    match src with CancelledIn nv => (compare_cut vs nv, false) | _ =>
    let '(t, ok) := compare_and_touch vs 0 in
    if ok then (t, true)
    else match put_target vs n with
         | Some i =>
           let ex := match nth_error vs i with Some v => match d_blk v with Some _ => true | None => false end | None => false end in
           let '(w, ok') := write_block i L src ex in (t ++ w, ok')
         | None => (t, false)
         end
    end
  end.

(* ---- effects on the file system ---- *)
Fixpoint upd_nth (vs : list vold) (i : nat) (f : vold -> vold) : list vold :=
  match vs, i with
  | [], _ => []
  | v :: r, O => f v :: r
  | v :: r, S i' => v :: upd_nth r i' f
  end.
Definition apply_eff (L : N) (e : eff) (vs : list vold) : list vold :=
  match e with
  | ENone | ETouch _ => vs
  | EMkdir i => upd_nth vs i (fun v => {| d_ro := d_ro v; d_dir := true; d_blk := d_blk v; d_tmp := d_tmp v; d_full := d_full v |})
  | ECreate i => upd_nth vs i (fun v => {| d_ro := d_ro v; d_dir := d_dir v; d_blk := d_blk v; d_tmp := Some 0; d_full := d_full v |})
  | EWrite i n => upd_nth vs i (fun v => {| d_ro := d_ro v; d_dir := d_dir v; d_blk := d_blk v; d_tmp := Some n; d_full := d_full v |})
  | ERename i => upd_nth vs i (fun v =>
      {| d_ro := d_ro v; d_dir := d_dir v;
         d_blk := match d_tmp v with
                  | Some n => Some (if (n =? L)%N then KGood else KCorrupt n)    (* a short temp file would be a corrupt block *)
                  | None => d_blk v
                  end;
         d_tmp := None; d_full := d_full v |})
  | ERemoveTmp i => upd_nth vs i (fun v => {| d_ro := d_ro v; d_dir := d_dir v; d_blk := d_blk v; d_tmp := None; d_full := d_full v |})
  end.

Fixpoint apply_all (L : N) (es : list (string * eff)) (vs : list vold) : list vold :=
  match es with
  | [] => vs
  | (_, e) :: r => apply_all L r (apply_eff L e vs)
  end.

(* the disk after the process was killed at yield point k *)
Definition crash (vs : list vold) (L : N) (src : source) (k : nat) : list vold :=
  apply_all L (firstn k (fst (put_prog vs L src))) vs.
Definition finish (vs : list vold) (L : N) (src : source) : list vold :=
  apply_all L (fst (put_prog vs L src)) vs.

(* ---- what a freshly started process serves from that disk ---- *)
Inductive gres := GData | GErr (code : N).       (* GData: 200 with exactly the body *)
Fixpoint get_block (vs : list vold) (err : N) : gres :=
  match vs with
  | [] => GErr err
  | v :: r => match d_blk v with
              | Some KGood => GData
              | Some (KCorrupt _) => get_block r 500
              | None => get_block r err
              end
  end.
Definition fsize (L : N) (k : fk) : N := match k with KGood => L | KCorrupt n => n end.
(* /index: one line per file whose name is the block name, with the file's size *)
Definition index (L : N) (vs : list vold) : list N :=
  flat_map (fun v => match d_blk v with Some k => [fsize L k] | None => [] end) vs.

(* ---- names: IndexTo / EmptyTrash recognise a block only by ^[0-9a-f]{32}$ ---- *)
Definition is_lower_hex (c : ascii) : bool :=
  let n := N_of_ascii c in ((48 <=? n) && (n <=? 57) || (97 <=? n) && (n <=? 102))%N.
Fixpoint all_hex (s : string) : bool :=
  match s with EmptyString => true | String c r => is_lower_hex c && all_hex r end.
Definition is_block_name (s : string) : bool := Nat.eqb (String.length s) 32 && all_hex s.
(* ioutil.TempFile(dir, "tmp" ++ hash) appends decimal digits *)
Definition tmp_name (h suffix : string) : string := ("tmp" ++ h ++ suffix)%string.
