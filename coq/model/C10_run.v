(* C10 — evaluators for the generated case files.  One module per harness stage:
     FS  sdk/go/arvados   (Collection.FileSystem, directory walk + reads, MarshalManifest, PortableDataHash, SizedDigests)
     GM  sdk/go/manifest  (StreamIter + FileSegmentIterByName, Extract, BlockIterWithDuplicates + Manifest.Err,
                           Manifest.FileSegmentIterByName, EscapeName/UnescapeName; child process)
     PY  sdk/python       (locators_and_ranges, normalize_stream, escape under python3)
   spec_b judges the IMPLEMENTATION's observations against the reference of C10_manifest.v (never against the codec
   models); model_b compares the codec model with the observation.
   check_case: 0 ok; +1 model/implementation mismatch; +2 specification violated.  (The findings F14/F15 of the first
   round are repaired in /repo; there is no known-finding bit any more.) *)
From Coq Require Import NArith List Ascii String Bool.
From AV Require Import lib.Str lib.Md5 model.C10_manifest model.C10_ranges model.C10_fs model.C10_gomanifest model.C10_python.
Import ListNotations.
Local Open Scope string_scope.

Definition str_list_eqb : list string -> list string -> bool := list_eqb String.eqb.
Definition st_fun (l : list (string * string)) : store :=
  fun h => match assoc_get h l with Some d => d | None => "" end.
Definition seg_eqb (a b : seg) : bool :=
  let '(l, o, n) := a in let '(l', o', n') := b in String.eqb l l' && (o =? o')%N && (n =? n')%N.
Definition opt_eqb {A} (eq : A -> A -> bool) (a b : option A) : bool :=
  match a, b with Some x, Some y => eq x y | None, None => true | _, _ => false end.
Definition set_eqb (a b : list string) : bool := str_list_eqb (sort_strs a) (sort_strs b).
Definition same_files (m' m : manifest) (paths : list string) : bool :=
  forallb (fun p => canon_eqb (denote m' p) (denote m p)) paths.
Definition ref_files (m : manifest) : list string := sort_strs (file_paths m).
Definition ref_dirs (m : manifest) : list string := sort_strs (filter (fun d => negb (String.eqb d ".")) (dir_paths m)).

(* a file token p:s:name with p + s >= bound (both fields plain decimals below the bound) *)
Definition overflow_tok (bound : N) (tok : string) : bool :=
  match splitn3 c_colon tok with
  | [p; s; _] => match lenient_num p, lenient_num s with
                 | Some p', Some s' => (p' <? bound)%N && (s' <? bound)%N && (bound <=? p' + s')%N
                 | _, _ => false
                 end
  | _ => false
  end.
Definition has_overflow_tok (bound : N) (txt : string) : bool :=
  existsb (fun l => existsb (overflow_tok bound) (split_on c_sp l)) (split_on c_nl txt).

Fixpoint forall2b {A B} (f : A -> B -> bool) (a : list A) (b : list B) : bool :=
  match a, b with
  | [], [] => true
  | x :: r, y :: s => f x y && forall2b f r s
  | _, _ => false
  end.

Fixpoint failing_from {C} (check : C -> N) (i : N) (cs : list C) : list (N * N) :=
  match cs with
  | [] => []
  | c :: r => let k := check c in
              if (k =? 0)%N then failing_from check (N.succ i) r else (i, k) :: failing_from check (N.succ i) r
  end.

(* ======================================================================================================= *)
Module FS.
Record case := {
  c_kind : N;                                   (* 0 generated valid, 1 single-token mutation, 2 arbitrary bytes *)
  c_txt : string;
  c_store : list (string * string);             (* hash -> block data (complete for kind 0) *)
  o_panic : bool;                               (* a panic was recovered *)
  o_load : bool;                                (* Collection.FileSystem returned no error *)
  o_list : list (string * bool * N * string);   (* walk: path, is directory, size, bytes read (kind 0 only) *)
  o_marshal : option string;                    (* MarshalManifest(".") *)
  o_pdh : string;                               (* PortableDataHash(txt) *)
  o_sd : option (list string)                   (* Collection{ManifestText: txt}.SizedDigests(), None = error *)
}.

Definition entry_eqb (read : bool) (a b : string * bool * N * string) : bool :=
  let '(p, d, n, x) := a in let '(p', d', n', x') := b in
  String.eqb p p' && Bool.eqb d d' && (n =? n')%N && (negb read || String.eqb x x').

Definition model_list (st : store) (t : fstree) : list (string * bool * N * string) :=
  let ds := map (fun d => (path_string d, (true, 0%N, ""))) (t_dirs t) in
  let fs := map (fun e => (path_string (fst e), (false, segs_len (snd e), segs_bytes st (snd e)))) (t_files t) in
  let all := (ds ++ fs)%list in
  map (fun k => match assoc_get k all with Some (d, n, x) => (k, d, n, x) | None => (k, false, 0%N, "") end)
      (sort_strs (map fst all)).

Definition pdh_of (t : string) : string := md5hex t ++ "+" ++ dec (slen t).
(* h = pdh (c_txt c), passed in so that check_case computes each MD5 once *)
Definition model_with (h : string) (c : case) : bool :=
  let st := st_fun (c_store c) in
  negb (o_panic c) &&
  match fs_load (c_txt c) with
  | None => negb (o_load c)
  | Some t =>
      o_load c &&
      list_eqb (entry_eqb (c_kind c =? 0)%N) (o_list c) (model_list st t) &&
      opt_eqb String.eqb (o_marshal c) (Some (fs_marshal t))
  end &&
  String.eqb (o_pdh c) h &&
  (String.eqb (c_txt c) "" || opt_eqb str_list_eqb (o_sd c) (sized_digests (c_txt c))).
Definition model_b (c : case) : bool := model_with (pdh (c_txt c)) c.

(* clauses that hold for every input *)
Definition spec_always (c : case) : bool := negb (o_panic c).
(* malformed_rejected *)
Definition spec_reject (c : case) : bool := wf_manifest (c_txt c) || negb (o_load c).
(* agreement with the reference on valid manifests *)
(* h = pdh_of (strip_manifest (c_txt c)) *)
Definition spec_valid_with (h : string) (c : case) : bool :=
  if negb (valid_manifest (c_txt c)) then true else
  match parse_manifest (c_txt c) with
  | None => false
  | Some m =>
      let st := st_fun (c_store c) in
      let files := filter (fun e => negb (snd (fst (fst e)))) (o_list c) in
      let dirs := filter (fun e => snd (fst (fst e))) (o_list c) in
      o_load c &&
      str_list_eqb (map (fun e => fst (fst (fst e))) files) (ref_files m) &&
      str_list_eqb (map (fun e => fst (fst (fst e))) dirs) (ref_dirs m) &&
      forallb (fun e => let '(p, _, n, x) := e in
                        (n =? segs_len (denote m p))%N &&
                        (negb (c_kind c =? 0)%N || String.eqb x (file_bytes st m p))) files &&
      match o_marshal c with
      | Some out =>
          valid_manifest out &&
          match parse_manifest out with
          | Some m' => str_list_eqb (ref_files m') (ref_files m) && str_list_eqb (ref_dirs m') (ref_dirs m) &&
                       same_files m' m (ref_files m)
          | None => false
          end
      | None => false
      end &&
      String.eqb (o_pdh c) h &&
      (String.eqb (c_txt c) "" ||
       opt_eqb str_list_eqb (o_sd c) (Some (map loc_strip (flat_map s_blocks m))))
  end.
Definition spec_valid (c : case) : bool := spec_valid_with (pdh_of (strip_manifest (c_txt c))) c.
Definition spec_b (c : case) : bool := spec_always c && spec_valid c && spec_reject c.

(* = (if model_b c then 0 else 1) + (if spec ... ), with the two MD5 computations shared when the texts coincide
   (lemma check_case_eq in proofs/C10_run_proofs.v) *)
Definition check_case (c : case) : N :=
  let pt := pdh_text (c_txt c) in
  let sm := strip_manifest (c_txt c) in
  let h := pdh_of pt in
  let h' := if String.eqb sm pt then h else pdh_of sm in
  ((if model_with h c then 0 else 1) +
   (if spec_always c && spec_valid_with h' c && spec_reject c then 0 else 2))%N.
Definition failing (cs : list case) : list (N * N) := failing_from check_case 0%N cs.
End FS.

(* ======================================================================================================= *)
Module GM.
Inductive gop := OpIter | OpExtract (src reloc : string) | OpEsc (name : string)
| OpBlocks                                 (* drain BlockIterWithDuplicates, then read Manifest.Err *)
| OpFileSegs (path : string).              (* drain Manifest.FileSegmentIterByName(path) *)
Inductive gobs :=
| ObsIter (l : list (string * list seg))   (* per stream without Err, per file token: StreamName/name, segments *)
| ObsText (t : string)                     (* Extract(...).Text, Err == nil *)
| ObsErr                                   (* Extract(...).Err != nil *)
| ObsPanic                                 (* the child process died *)
| ObsEsc (e u : string)                    (* EscapeName(name), UnescapeName(name) *)
| ObsBlocks (l : list (string * N * string)) (err : bool)   (* delivered blocks (digest, size, hints); m.Err != nil *)
| ObsSegs (l : list seg).                  (* delivered file segments *)
(* one manifest, several operations on it, each with what the implementation did *)
Record case := { c_kind : N; c_txt : string; c_ops : list (gop * gobs) }.

Definition iter_eqb (a b : list (string * list seg)) : bool :=
  list_eqb (fun x y => String.eqb (fst x) (fst y) && list_eqb seg_eqb (snd x) (snd y)) a b.

Definition blocks_eqb (a b : list (string * N * string)) : bool :=
  list_eqb (fun x y => let '(d, n, h) := x in let '(d', n', h') := y in String.eqb d d' && (n =? n')%N && String.eqb h h') a b.

Definition model_op (txt : string) (seg : outcome smanifest) (x : gop * gobs) : bool :=
  match fst x with
  | OpEsc name =>
      match snd x with ObsEsc e u => String.eqb e (gm_escape name) && String.eqb u (gm_unescape name) | _ => false end
  | OpIter =>
      match gm_iter txt, snd x with
      | Unmodelled, _ => true
      | Ok l, ObsIter l' => iter_eqb l' l
      | Panic, ObsPanic => true
      | _, _ => false
      end
  | OpExtract src reloc =>
      match seg, snd x with
      | Unmodelled, _ => true
      | Ok m, ObsText t' => String.eqb (text_for_path m src reloc) t'
      | Err, ObsErr => true
      | Panic, ObsPanic => true
      | _, _ => false
      end
  | OpBlocks =>
      match gm_blocks txt, snd x with
      | Unmodelled, _ => true
      | Ok (l, e), ObsBlocks l' e' => blocks_eqb l' l && Bool.eqb e' e
      | Panic, ObsPanic => true
      | _, _ => false
      end
  | OpFileSegs path =>
      match gm_file_segs txt path, snd x with
      | Unmodelled, _ => true
      | Ok l, ObsSegs l' => list_eqb seg_eqb l' l
      | Panic, ObsPanic => true
      | _, _ => false
      end
  end.
Definition model_b (c : case) : bool :=
  let seg := gm_segment (c_txt c) in forallb (model_op (c_txt c) seg) (c_ops c).

Definition is_panic (o : gobs) : bool := match o with ObsPanic => true | _ => false end.
(* no_panic; and malformed (some non-blank line is not well-formed) => Extract reports an error, and so does
   BlockIterWithDuplicates (through Manifest.Err, whichever line is the damaged one) *)
Definition robust_op (wf : bool) (x : gop * gobs) : bool :=
  negb (is_panic (snd x)) &&
  match fst x with
  | OpExtract _ _ => wf || match snd x with ObsErr => true | _ => false end
  | OpBlocks => wf || match snd x with ObsBlocks _ e => e | _ => false end
  | _ => true
  end.
Definition spec_robust (c : case) : bool :=
  let wf := forallb wf_line (filter (fun l => negb (String.eqb l "")) (split_on c_nl (c_txt c))) in
  forallb (robust_op wf) (c_ops c).

Definition strip_slash (s : string) : string := if has_suffix_slash s then drop_last s else s.
Definition extract_ok (m : manifest) (src reloc : string) (out : string) : bool :=
  let slash := has_suffix_slash reloc in
  let rel := strip_slash reloc in
  let E := extract_ref m src rel slash in
  match E with
  | [] => String.eqb out ""
  | _ => valid_manifest out &&
         match parse_manifest out with
         | Some m' => set_eqb (all_paths m') (map fst E) &&
                      forallb (fun '(d, s) => canon_eqb (denote m' d) (denote m s)) E
         | None => false
         end
  end.
Definition valid_op (m : manifest) (x : gop * gobs) : bool :=
  match fst x, snd x with
  | OpIter, ObsIter l =>
      let expect := flat_map (fun s => map (fun f => let p := path_of (s_name s) (ft_name f) in (p, stream_segs s p))
                                           (s_ftoks s)) m in
      list_eqb (fun x y => String.eqb (fst x) (fst y) &&
                           list_eqb seg_eqb (filter seg_nonempty (snd x)) (snd y)) l expect
  | OpIter, _ => false
  | OpExtract src reloc, o =>
      if valid_stream_name_u src && valid_stream_name_u (strip_slash reloc) then
        match o with ObsText out => extract_ok m src reloc out | _ => false end
      else true
  | OpEsc _, _ => true
  (* valid manifest: no error, and exactly the block tokens of the text, in order (hash and size) *)
  | OpBlocks, ObsBlocks l e =>
      negb e && forall2b (fun x b => let '(d, n, _) := x in String.eqb d (loc_hash b) && (n =? loc_size b)%N) l (flat_map s_blocks m)
  | OpBlocks, _ => false
  (* valid manifest, canonical path: the non-empty segments are the reference denotation of the path *)
  | OpFileSegs path, o =>
      if valid_stream_name_u path then
        match o with ObsSegs l => list_eqb seg_eqb (filter seg_nonempty l) (denote m path) | _ => false end
      else true
  end.
Definition spec_valid (c : case) : bool :=
  if negb (valid_manifest (c_txt c)) then true else
  match parse_manifest (c_txt c) with
  | None => false
  | Some m => forallb (valid_op m) (c_ops c)
  end.
Definition esc_op (x : gop * gobs) : bool :=
  match fst x, snd x with
  | OpEsc name, ObsEsc e u => String.eqb (unescape e) name && String.eqb u (unescape name)
  | OpEsc _, _ => false
  | _, _ => true
  end.
Definition spec_esc (c : case) : bool := forallb esc_op (c_ops c).
Definition spec_b (c : case) : bool := spec_robust c && spec_valid c && spec_esc c.

Definition check_case (c : case) : N :=
  ((if model_b c then 0 else 1) + (if spec_b c then 0 else 2))%N.
Definition failing (cs : list case) : list (N * N) := failing_from check_case 0%N cs.
End GM.

(* ======================================================================================================= *)
Module PY.
Record case := {
  c_name : string;                          (* stream name, unescaped *)
  c_blocks : list (string * N);             (* Range(locator, start, size): locator and size, contiguous from 0 *)
  c_fts : list (N * N * string);            (* position, size, file name (unescaped) *)
  c_names : list string;                    (* arguments for escape() *)
  o_segs : list (option (list pseg));       (* locators_and_ranges per file token; None = exception *)
  o_norm : option (list string);            (* normalize_stream(name, {file: concatenated segments}) *)
  o_esc : list string                       (* escape(n) for n in c_names *)
}.
Definition pseg_eqb (a b : pseg) : bool :=
  let '(l, s, o, n) := a in let '(l', s', o', n') := b in String.eqb l l' && (s =? s')%N && (o =? o')%N && (n =? n')%N.

Definition blocks (c : case) := map fst (c_blocks c).
Definition sizes (c : case) := map snd (c_blocks c).
Definition m_segs (c : case) : list (option (list pseg)) :=
  map (fun '(p, n, _) => py_segs (blocks c) (sizes c) p n) (c_fts c).
(* the dict the driver builds: per name, the concatenation over its tokens, in token order *)
Fixpoint build_files (fts : list (N * N * string)) (segs : list (option (list pseg))) (acc : pfiles) : option pfiles :=
  match fts, segs with
  | (_, _, nm) :: r, Some l :: r' =>
      let old := match assoc_get nm acc with Some x => x | None => [] end in
      build_files r r' (assoc_set nm (old ++ l)%list acc)
  | [], _ => Some acc
  | _, _ => None
  end.
Definition model_b (c : case) : bool :=
  let ms := m_segs c in
  list_eqb (opt_eqb (list_eqb pseg_eqb)) (o_segs c) ms &&
  opt_eqb str_list_eqb (o_norm c)
    (match build_files (c_fts c) ms [] with Some f => Some (py_normalize_stream (c_name c) f) | None => None end) &&
  str_list_eqb (o_esc c) (map py_escape (c_names c)).

Definition ref_stream (c : case) : stream :=
  {| s_name := c_name c; s_blocks := blocks c;
     s_ftoks := map (fun '(p, n, nm) => {| ft_pos := p; ft_len := n; ft_name := nm |}) (c_fts c) |}.
Definition spec_b (c : case) : bool :=
  let s := ref_stream c in
  let tot := total (sizes c) in
  (* the harness must hand the same sizes to Python as the locators carry *)
  list_eqb N.eqb (sizes c) (sizes_of (blocks c)) &&
  (* every in-range token: no exception, and the non-empty segments are the reference ones, block sizes right *)
  forall2b (fun f o =>
              let '(p, n, _) := f in
              if (p + n <=? tot)%N then
                match o with
                | Some l => list_eqb seg_eqb (filter seg_nonempty (map (fun '(loc, _, off, len) => (loc, off, len)) l))
                                             (name_segs (blocks c) (ref (sizes c) p n)) &&
                            forallb (fun '(loc, bs, _, _) => (bs =? loc_size loc)%N) l
                | None => false
                end
              else true) (c_fts c) (o_segs c) &&
  (* normalize_stream: re-read by the reference, same files, same bytes for every store *)
  (if forallb (fun '(p, n, _) => (p + n <=? tot)%N) (c_fts c) then
     match o_norm c with
     | Some toks =>
         let line := join " " toks in
         match parse_stream line with
         | Some s' =>
             String.eqb (s_name s') (s_name s) &&
             set_eqb (map ft_name (s_ftoks s')) (map ft_name (s_ftoks s)) &&
             forallb (fun f => let p := path_of (s_name s) (ft_name f) in canon_eqb (stream_segs s' p) (stream_segs s p))
                     (s_ftoks s) &&
             forallb (fun f => (ft_pos f + ft_len f <=? total (sizes_of (s_blocks s')))%N) (s_ftoks s')
         | None => false
         end
     | None => false
     end
   else true) &&
  (* escape round trip *)
  forall2b (fun n e => String.eqb (unescape e) n && all_chars is_tokc e) (c_names c) (o_esc c).

Definition check_case (c : case) : N := ((if model_b c then 0 else 1) + (if spec_b c then 0 else 2))%N.
Definition failing (cs : list case) : list (N * N) := failing_from check_case 0%N cs.
End PY.
