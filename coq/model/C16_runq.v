(* C16 / C14 — lib/dispatchcloud/scheduler/run_queue.go: runQueue as a pure function from a queue
   snapshot and a worker-pool behaviour to the ordered log of the calls it makes
   (KillContainer / Create / StartContainer / Unlock, with the pool's answers), the set of containers
   handed to lockContainer goroutines, and the set of instance types passed to Shutdown.
   The pool is an arbitrary state machine (Section variables), so the theorems hold for every pool
   behaviour, including AtQuota/Create answers that change during the pass; [stub] is the scripted pool
   used by the harness.  Definitions only; proofs in proofs/C16_runq.v. *)
From Coq Require Import List ZArith Bool NArith.
Import ListNotations.
Local Open Scope Z_scope.

Inductive cstate := Queued | Locked | Running | Complete | Cancelled | OtherState.
Definition cstate_eqb (a b : cstate) : bool :=
  match a, b with
  | Queued, Queued | Locked, Locked | Running, Running | Complete, Complete
  | Cancelled, Cancelled | OtherState, OtherState => true
  | _, _ => false
  end.

(* container.QueueEnt: uuid, state, priority, instance type (ids are small numbers) *)
Record ent := mkent { e_uuid : N; e_state : cstate; e_prio : Z; e_it : N }.

Inductive ev :=
| EKill (u : N) (r : bool)          (* pool.KillContainer(u, _) returned r *)
| ECreate (it : N) (r : bool)       (* pool.Create(it) returned r *)
| EStart (it u : N) (r : bool)      (* pool.StartContainer(it, u) returned r *)
| EUnlock (u : N).                  (* queue.Unlock(u) *)

Definition memN (x : N) (l : list N) : bool := existsb (N.eqb x) l.

(* unalloc : map[InstanceType]int as an association list; a missing key reads 0 *)
Definition umap := list (N * Z).
Fixpoint uget (it : N) (m : umap) : Z :=
  match m with [] => 0 | (k, v) :: r => if N.eqb k it then v else uget it r end.
Fixpoint udec (it : N) (m : umap) : umap :=
  match m with
  | [] => [(it, -1)]
  | (k, v) :: r => if N.eqb k it then (k, v - 1) :: r else (k, v) :: udec it r
  end.

(* sort.Slice by priority, descending: the executable model sorts stably; theorems are stated for any
   priority-sorted permutation *)
Fixpoint ins_prio (x : ent) (l : list ent) : list ent :=
  match l with
  | [] => [x]
  | y :: r => if e_prio y <? e_prio x then x :: l else y :: ins_prio x r
  end.
Definition psort (l : list ent) : list ent := fold_right ins_prio [] l.

(* ---- the dontstart latch as a function of the log (specification side) ---- *)
Fixpoint dont_after (d : list N) (evs : list ev) : list N :=
  match evs with
  | [] => d
  | EStart it _ false :: r => dont_after (it :: d) r
  | _ :: r => dont_after d r
  end.
(* no StartContainer(it, _) once a StartContainer(it, _) has failed *)
Fixpoint latch_b (d : list N) (evs : list ev) : bool :=
  match evs with
  | [] => true
  | EStart it _ r :: rest => negb (memN it d) && latch_b (if r then d else it :: d) rest
  | _ :: rest => latch_b d rest
  end.


Section RQ.
(* the worker pool as seen by one runQueue pass *)
Variable P : Type.
Variable p_quota : P -> bool * P.             (* AtQuota() *)
Variable p_kill : N -> P -> bool * P.         (* KillContainer(uuid, reason) *)
Variable p_create : N -> P -> bool * P.       (* Create(it) *)
Variable p_start : N -> N -> P -> bool * P.   (* StartContainer(it, ctr) *)
Variable running : list N.                    (* keys of pool.Running() *)

Record rstate := mkrs { unalloc : umap; dontstart : list N; locks : list N; pool : P }.

Definition eligible (e : ent) : bool := negb (memN (e_uuid e) running) && (1 <=? e_prio e).

(* the last if/else-if chain of the Locked case: dontstart latch, kill leftovers, start *)
Definition try_start (e : ent) (s : rstate) : list ev * rstate :=
  let u := e_uuid e in let it := e_it e in
  if memN it (dontstart s) then ([], s)
  else
    let (k, p1) := p_kill u (pool s) in
    if k then ([EKill u true], mkrs (unalloc s) (dontstart s) (locks s) p1)
    else
      let (r, p2) := p_start it u p1 in
      ([EKill u false; EStart it u r],
       mkrs (unalloc s) (if r then dontstart s else it :: dontstart s) (locks s) p2).

(* one iteration of the tryrun loop: new events, new state, and whether the loop breaks here *)
Definition step (e : ent) (s : rstate) : list ev * rstate * bool :=
  let u := e_uuid e in let it := e_it e in
  if negb (eligible e) then ([], s, false)
  else match e_state e with
  | Queued =>
      (* unalloc[it] < 1 && sch.pool.AtQuota(): AtQuota is only called when the first test holds *)
      let '(stop, p0) := if uget it (unalloc s) <? 1 then p_quota (pool s) else (false, pool s) in
      if stop then ([], mkrs (unalloc s) (dontstart s) (locks s) p0, true)
      else
        let (k, p1) := p_kill u p0 in
        if k then ([EKill u true], mkrs (unalloc s) (dontstart s) (locks s) p1, false)
        else ([EKill u false], mkrs (udec it (unalloc s)) (dontstart s) (u :: locks s) p1, false)
  | Locked =>
      if 0 <? uget it (unalloc s) then
        let '(evs, s') := try_start e (mkrs (udec it (unalloc s)) (dontstart s) (locks s) (pool s)) in
        (evs, s', false)
      else
        let (q, p0) := p_quota (pool s) in
        if q then ([EUnlock u], mkrs (unalloc s) (dontstart s) (locks s) p0, true)
        else
          let (c, p1) := p_create it p0 in
          if c then
            let '(evs, s') := try_start e (mkrs (unalloc s) (dontstart s) (locks s) p1) in
            (ECreate it true :: evs, s', false)
          else ([ECreate it false], mkrs (unalloc s) (dontstart s) (locks s) p1, false)
  | _ => ([], s, false)
  end.

(* for i, ctr := range sorted {...}: Some tail = the loop broke with overquota = sorted[i:] *)
Fixpoint loop (l : list ent) (s : rstate) : list ev * rstate * option (list ent) :=
  match l with
  | [] => ([], s, None)
  | e :: r =>
      let '(evs, s', brk) := step e s in
      if brk then (evs, s', Some l)
      else let '(evs2, s'', t) := loop r s' in (evs ++ evs2, s'', t)
  end.

Definition is_locked (e : ent) : bool := cstate_eqb (e_state e) Locked.

Record rq_result := mkres { r_log : list ev; r_locks : list N; r_shut : list N; r_pool : P }.

(* runQueue on an already sorted queue *)
Definition run_queue_sorted (sorted : list ent) (unalloc0 : umap) (p : P) : rq_result :=
  let '(evs, s, t) := loop sorted (mkrs unalloc0 [] [] p) in
  match t with
  | None => mkres evs (locks s) [] (pool s)
  | Some tail =>
      mkres (evs ++ map (fun e => EUnlock (e_uuid e)) (filter is_locked tail))
            (locks s)
            (map fst (filter (fun kv => 1 <=? snd kv) (unalloc s)))
            (pool s)
  end.

Definition run_queue (ents : list ent) (unalloc0 : umap) (p : P) : rq_result :=
  run_queue_sorted (psort ents) unalloc0 p.
End RQ.

Arguments mkrs {P}.
Arguments unalloc {P}.
Arguments dontstart {P}.
Arguments locks {P}.
Arguments pool {P}.
Arguments r_log {P}.
Arguments r_locks {P}.
Arguments r_shut {P}.
Arguments r_pool {P}.

(* ---- the scripted pool of the harness (recording stub in harness/C16/zz_verif_c16rq_test.go) ---- *)
Record stub := mkstub {
  sq : list bool;               (* AtQuota answers, one per call; the last one repeats *)
  sk : list N;                  (* KillContainer returns true for these uuids *)
  sc : list (N * list bool);    (* Create answers per type, one per call; the last one repeats; none = false *)
  si : list (N * Z)             (* idle workers per type: StartContainer succeeds while > 0 *)
}.
Definition next_answer (l : list bool) : bool * list bool :=
  match l with [] => (false, []) | [b] => (b, [b]) | b :: r => (b, r) end.
Definition stub_quota (p : stub) : bool * stub :=
  let (b, r) := next_answer (sq p) in (b, mkstub r (sk p) (sc p) (si p)).
Definition stub_kill (u : N) (p : stub) : bool * stub := (memN u (sk p), p).
Fixpoint sc_next (it : N) (m : list (N * list bool)) : bool * list (N * list bool) :=
  match m with
  | [] => (false, [])
  | (k, l) :: r => if N.eqb k it then let (b, l') := next_answer l in (b, (k, l') :: r)
                   else let (b, r') := sc_next it r in (b, (k, l) :: r')
  end.
Definition stub_create (it : N) (p : stub) : bool * stub :=
  let (b, m) := sc_next it (sc p) in (b, mkstub (sq p) (sk p) m (si p)).
Fixpoint si_take (it : N) (m : list (N * Z)) : bool * list (N * Z) :=
  match m with
  | [] => (false, [])
  | (k, v) :: r => if N.eqb k it then (if 0 <? v then (true, (k, v - 1) :: r) else (false, m))
                   else let (b, r') := si_take it r in (b, (k, v) :: r')
  end.
Definition stub_start (it u : N) (p : stub) : bool * stub :=
  let (b, m) := si_take it (si p) in (b, mkstub (sq p) (sk p) (sc p) m).

Definition run_queue_stub (sorted : list ent) (running : list N) (unalloc0 : umap) (p : stub) : rq_result stub :=
  run_queue_sorted stub stub_quota stub_kill stub_create stub_start running sorted unalloc0 p.
