(* C01 — executable model of keepstore's block read/write paths over Directory volumes.
   Transcribes (services/keepstore):
     handlers.go      handleGET, handlePUT, GetBlock, PutBlock, CompareAndTouch
     collision.go     compareReaderWithBuf / collisionOrCorrupt   (-> [compare])
     unix_volume.go   stat, ReadBlock, Compare, WriteBlock, IsFull (-> [vol_get], [compare], [write_vol])
     pipe_adapters.go getWithPipe (read bounded by the buffer; the stat size check comes first)
     volume.go        RRVolumeManager.AllReadable / AllWritable / NextWritable (-> [writable], counter)
   Block contents are abstract ({cid; clen}); the digest function H is a Section variable, so every
   definition and theorem is parametric in it (the case files instantiate H by the finite table of MD5
   digests that Go computed).  Definitions only; proofs are in proofs/C01_proofs.v. *)
From Coq Require Import NArith List String Bool.
From AV Require Import lib.Str.
Import ListNotations.
Local Open Scope N_scope.

(* keepstore.go: BlockSize = 64 MiB *)
Definition BlockSize : N := 67108864.

(* abstract block content: identity + length.  Two byte strings are the same content iff same cid. *)
Record content := { cid : N; clen : N }.
Definition content_eqb (a b : content) : bool := (cid a =? cid b) && (clen a =? clen b).

(* what a Directory volume holds under <root>/<h[0:3]>/<h> *)
Inductive copy :=
| Absent                (* no such file (or its directory is missing) *)
| File (c : content)    (* a regular file with these bytes: intact, flipped, truncated, extended, substituted… *)
| Unreadable.           (* stat and open succeed, read fails (the path is a directory: EISDIR) *)

Record vol := {
  ro : bool;                        (* Volumes.*.ReadOnly *)
  full : bool;                      (* IsFull(): <root>/full symlink younger than 1 h, or no free space *)
  badpfx : list string;             (* 3-char prefixes where <root>/<pfx> is a regular file: stat gives
                                       ENOTDIR (PathError -> os.ErrNotExist), MkdirAll fails *)
  files : list (string * copy)      (* block name -> copy; first match wins *)
}.

Fixpoint assoc (l : list (string * copy)) (h : string) : copy :=
  match l with
  | [] => Absent
  | (k, c) :: r => if String.eqb k h then c else assoc r h
  end.

Definition pfx (h : string) : string := take 3 h.
Definition bad (v : vol) (h : string) : bool := existsb (String.eqb (pfx h)) (badpfx v).
Definition lookup (v : vol) (h : string) : copy := if bad v h then Absent else assoc (files v) h.

Definition set_file (v : vol) (h : string) (c : content) : vol :=
  {| ro := ro v; full := full v; badpfx := badpfx v; files := (h, File c) :: files v |}.

(* RRVolumeManager: readables = all mounts, writables = mounts not ReadOnly, both in mount order *)
Definition writable (vols : list vol) : list vol := filter (fun v => negb (ro v)) vols.

Section KS.
Variable H : content -> string.       (* the digest; MD5 hex in the implementation *)

Definition intact (h : string) (c : content) : bool := String.eqb (H c) h.

(* UnixVolume.Get = getWithPipe(ReadBlock): v.stat (ENOENT/ENOTDIR -> ErrNotExist, size > BlockSize ->
   TooLongError), then the whole file is copied into buf *)
Inductive rres := RNotExist | RErr | RData (c : content).
Definition vol_get (v : vol) (h : string) : rres :=
  match lookup v h with
  | Absent => RNotExist
  | Unreadable => RErr
  | File c => if BlockSize <? clen c then RErr else RData c
  end.

(* GetBlock: errorToCaller starts as NotFoundError (404) and becomes DiskHashError (500) after a
   checksum mismatch; volume errors other than VolumeBusyError leave it unchanged *)
Inductive gres := GOk (c : content) | GErr (code : N).
Fixpoint get_block (vols : list vol) (h : string) (err : N) : gres :=
  match vols with
  | [] => GErr err
  | v :: r =>
    match vol_get v h with
    | RData c => if intact h c then GOk c else get_block r h 500
    | _ => get_block r h err
    end
  end.

(* UnixVolume.Compare + compareReaderWithBuf + collisionOrCorrupt *)
Inductive cmp := Same | NotExist | CorruptOnDisk | Collision | CmpErr.
Definition compare (v : vol) (h : string) (d : content) : cmp :=
  match lookup v h with
  | Absent => NotExist
  | Unreadable => CmpErr
  | File c => if BlockSize <? clen c then CmpErr            (* v.stat: TooLongError *)
              else if content_eqb c d then Same
              else if intact h c then Collision else CorruptOnDisk
  end.

(* CompareAndTouch over the writable mounts in order.  Touch of a regular file that was just read
   successfully cannot fail without a concurrent actor (that race is C04's subject), so Same => done. *)
Inductive cat := CatOk | CatCollision | CatNone.
Fixpoint compare_and_touch (ws : list vol) (h : string) (d : content) : cat :=
  match ws with
  | [] => CatNone
  | v :: r =>
    match compare v h d with
    | Collision => CatCollision
    | Same => CatOk
    | _ => compare_and_touch r h d
    end
  end.

(* UnixVolume.Put = putWithPipe(WriteBlock): IsFull -> FullError; MkdirAll fails when the prefix is a
   file; the final rename fails when the block path is a directory; otherwise the block file is
   replaced by the new data *)
Inductive wres := WOk (v' : vol) | WFull | WErr.
Definition write_vol (v : vol) (h : string) (d : content) : wres :=
  if full v then WFull
  else if bad v h then WErr
  else match assoc (files v) h with
       | Unreadable => WErr
       | _ => WOk (set_file v h d)
       end.

(* replace the k-th writable mount *)
Fixpoint set_writable (vols : list vol) (k : nat) (v' : vol) : list vol :=
  match vols with
  | [] => []
  | v :: r => if ro v then v :: set_writable r k v'
              else match k with O => v' :: r | S k' => v :: set_writable r k' v' end
  end.

(* the fallback loop of PutBlock over all writable mounts: index of the first success, or whether
   every failure was FullError *)
Inductive lres := LOk (k : nat) (v' : vol) | LFail (allfull : bool).
Fixpoint put_loop (ws : list vol) (k : nat) (h : string) (d : content) (allfull : bool) : lres :=
  match ws with
  | [] => LFail allfull
  | v :: r =>
    match write_vol v h d with
    | WOk v' => LOk k v'
    | WFull => put_loop r (S k) h d allfull
    | WErr => put_loop r (S k) h d false
    end
  end.

Record state := { vols : list vol; counter : N }.   (* counter: RRVolumeManager.counter (uint32) *)

(* PutBlock; returns HTTP code and the new state *)
Definition put_block (s : state) (h : string) (d : content) : N * state :=
  if negb (intact h d) then (422, s)                                   (* RequestHashError *)
  else match compare_and_touch (writable (vols s)) h d with
       | CatOk => (200, s)
       | CatCollision => (500, s)                                       (* CollisionError *)
       | CatNone =>
         let ws := writable (vols s) in
         match ws with
         | [] => (503, s)                                               (* NextWritable = nil; FullError *)
         | w0 :: _ =>
           let ctr := (counter s + 1) mod 4294967296 in
           let k := N.to_nat (ctr mod N.of_nat (List.length ws)) in
           match write_vol (nth k ws w0) h d with
           | WOk v' => (200, {| vols := set_writable (vols s) k v'; counter := ctr |})
           | _ =>
             match put_loop ws O h d true with
             | LOk i v' => (200, {| vols := set_writable (vols s) i v'; counter := ctr |})
             | LFail true => (503, {| vols := vols s; counter := ctr |})    (* FullError *)
             | LFail false => (500, {| vols := vols s; counter := ctr |})   (* GenericError *)
             end
           end
         end
       end.

Inductive op :=
| Get (h : string)
| Head (h : string)                      (* same handler as GET *)
| Put (h : string) (d : content)
| PutShort (h : string) (d : content) (n : N)
| PutCancel (h : string) (d : content).
                                         (* PUT with Content-Length n whose body ends, or fails, after the
                                            bytes d (clen d < n): a client that goes away in mid-upload *)

Record resp := { code : N; body : option content; clength : option N }.

Definition handle_get (s : state) (h : string) : resp :=
  match get_block (vols s) h 404 with
  | GOk c => {| code := 200; body := Some c; clength := Some (clen c) |}
  | GErr e => {| code := e; body := None; clength := None |}
  end.

(* handlePUT: ContentLength > BlockSize -> 413; no writable mount -> 503; then PutBlock *)
Definition handle_put (s : state) (h : string) (d : content) : resp * state :=
  if BlockSize <? clen d then ({| code := 413; body := None; clength := None |}, s)
  else match writable (vols s) with
       | [] => ({| code := 503; body := None; clength := None |}, s)
       | _ => let '(c, s') := put_block s h d in ({| code := c; body := None; clength := None |}, s')
       end.

(* (PutCancel h d: the whole body d arrived, the client went away while PutBlock was at work and the
   request was answered with an error: 503 ErrClientDisconnect, or 500 -- same status class as below;
   whatever the abandoned write had done is undone, the volumes are as before.  A request whose
   client went away too late to matter is an ordinary Put.) *)
(* handlePUT when io.ReadFull(req.Body, buf) returns an error (io.EOF, io.ErrUnexpectedEOF or the
   reader's own error): the same checks come first, then 500; PutBlock is never called *)
Definition handle_put_short (s : state) (n : N) : resp :=
  if BlockSize <? n then {| code := 413; body := None; clength := None |}
  else match writable (vols s) with
       | [] => {| code := 503; body := None; clength := None |}
       | _ => {| code := 500; body := None; clength := None |}
       end.

Definition handle (s : state) (o : op) : resp * state :=
  match o with
  | Get h | Head h => (handle_get s h, s)
  | Put h d => handle_put s h d
  | PutShort h d n => (handle_put_short s n, s)
  | PutCancel h d => (handle_put_short s (clen d), s)
  end.

(* run a request sequence; the trace pairs every response with the state after the request *)
Fixpoint run (s : state) (ops : list op) : list (resp * state) :=
  match ops with
  | [] => []
  | o :: r => let '(a, s') := handle s o in (a, s') :: run s' r
  end.

End KS.
