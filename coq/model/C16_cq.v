(* C16 — lib/dispatchcloud/container/queue.go: how the container queue turns the answer of its chooseType
   callback (dispatcher.typeChooser = ChooseInstanceType, model/C16_model.v) into a queue entry or into
   "cancel with the error in runtime_status": Queue.Update / poll (which records reach the merge),
   the merge (existing entries keep their instance type), Queue.addEnt and the goroutine it starts for a
   Queued/Locked container whose chooseType call failed (Lock if Queued, setRuntimeError, Cancel, GET on
   failure), against the harness's API stub (harness/C16/zz_verif_c16cq_test.go).
   One Update with no concurrent local operation (those are C14's queue stage).  Definitions only;
   proofs in proofs/C16_cq.v. *)
From Coq Require Import List ZArith Bool NArith String.
From AV Require Import model.C16_model model.C16_runq.
Import ListNotations.
Local Open Scope Z_scope.

(* a container record of the API server: uuid, state, priority, locked_by_uuid = this dispatcher's token,
   runtime_status.error as a class: 0 empty, 1 the message of ChooseInstanceType's ConstraintsNotSatisfiableError
   for this container, 2 the message of ErrInstanceTypesNotConfigured, 3 anything else *)
Record dbrec := mkdbr { cd_uuid : N; cd_state : cstate; cd_prio : Z; cd_mine : bool; cd_err : N }.

(* container.QueueEnt as the scheduler sees it through Entries(): uuid, state, priority, InstanceType
   (None = the zero value arvados.InstanceType{}, Some id = the configured type with that id) *)
Record qent := mkqe { ce_uuid : N; ce_state : cstate; ce_prio : Z; ce_type : option N }.

(* requests the queue sends to the API server on behalf of one container, with the outcome *)
Inductive acall :=
| ALock (ok : bool)                 (* POST containers/<uuid>/lock *)
| ASetErr (kind : N) (ok : bool)    (* PUT runtime_status.error = message of class kind *)
| ACancel (ok : bool)               (* PUT state = Cancelled *)
| AUnlock (ok : bool)               (* POST containers/<uuid>/unlock (never sent by this code path; recorded if it is) *)
| AGet.                             (* GET containers/<uuid> (the deferred "did we lose a race" check) *)

Fixpoint find_d (u : N) (db : list dbrec) : option dbrec :=
  match db with [] => None | d :: r => if N.eqb (cd_uuid d) u then Some d else find_d u r end.
Fixpoint find_e (u : N) (cur : list qent) : option qent :=
  match cur with [] => None | e :: r => if N.eqb (ce_uuid e) u then Some e else find_e u r end.
Fixpoint lookupN {A} (u : N) (m : list (N * A)) : option A :=
  match m with [] => None | (k, v) :: r => if N.eqb k u then Some v else lookupN u r end.

Definition final_st (s : cstate) : bool := cstate_eqb s Complete || cstate_eqb s Cancelled.
Definition waiting_st (s : cstate) : bool := cstate_eqb s Queued || cstate_eqb s Locked.

(* poll(): the record is returned by the locked_by_uuid query or by the state=Queued, priority>0 query *)
Definition offered (d : dbrec) : bool := cd_mine d || (cstate_eqb (cd_state d) Queued && (0 <? cd_prio d)).

(* the merge at the end of Update() for an entry that is already in the cache: it is in `next` if the record
   was offered, or ("missing") if the cached state is not final and the uuid query found the record; it keeps
   its InstanceType; otherwise it is dropped *)
Definition upd_ent (db : list dbrec) (e : qent) : list qent :=
  match find_d (ce_uuid e) db with
  | Some d => if offered d || negb (final_st (ce_state e))
              then [mkqe (ce_uuid e) (cd_state d) (cd_prio d) (ce_type e)] else []
  | None => []
  end.

(* addEnt for a record that is not in the cache *)
Inductive added :=
| AddEnt (e : qent)                         (* cq.current[uuid] = QueueEnt{ctr, it} *)
| AddCancel (u : N) (st : cstate) (kind : N).  (* not added; goroutine: [Lock,] setRuntimeError(err), Cancel *)

(* ts: cc.InstanceTypes in the order this call's map iteration produced *)
Definition add_ent (reserve : Z) (ts : list itype) (c : ctr) (d : dbrec) : added :=
  match choose reserve ts c with
  | Chosen t => AddEnt (mkqe (cd_uuid d) (cd_state d) (cd_prio d) (Some (it_id t)))
  | ErrNoTypes => if waiting_st (cd_state d) then AddCancel (cd_uuid d) (cd_state d) 2%N
                  else AddEnt (mkqe (cd_uuid d) (cd_state d) (cd_prio d) None)
  | ErrUnsat _ => if waiting_st (cd_state d) then AddCancel (cd_uuid d) (cd_state d) 1%N
                  else AddEnt (mkqe (cd_uuid d) (cd_state d) (cd_prio d) None)
  end.

(* the goroutine of addEnt against the API stub.  fault: 0 none, 1 the lock request fails, 2 the
   runtime_status update fails, 3 the cancel request fails.  Returns the requests and the record afterwards. *)
Definition cancel_run (d : dbrec) (kind fault : N) : list acall * dbrec :=
  let lock_needed := cstate_eqb (cd_state d) Queued in
  if lock_needed && N.eqb fault 1 then ([ALock false], d)
  else
    let pre := if lock_needed then [ALock true] else [] in
    let d1 := if lock_needed then mkdbr (cd_uuid d) Locked (cd_prio d) true (cd_err d) else d in
    if N.eqb fault 2 then (pre ++ [ASetErr kind false; AGet], d1)
    else
      let d2 := mkdbr (cd_uuid d1) (cd_state d1) (cd_prio d1) (cd_mine d1) kind in
      if N.eqb fault 3 then (pre ++ [ASetErr kind true; ACancel false; AGet], d2)
      else (pre ++ [ASetErr kind true; ACancel true], mkdbr (cd_uuid d2) Cancelled (cd_prio d2) false kind).

Definition ctr0 : ctr := mkctr 0 0 0 [] EmptyString false.
Definition cons_of (cons : list (N * ctr)) (u : N) : ctr := match lookupN u cons with Some c => c | None => ctr0 end.
Definition fault_of (faults : list (N * N)) (u : N) : N := match lookupN u faults with Some f => f | None => 0%N end.

(* records that reach addEnt: offered and not in the cache *)
Definition fresh (cur : list qent) (d : dbrec) : bool :=
  offered d && match find_e (cd_uuid d) cur with Some _ => false | None => true end.

Section Update.
Variable reserve : Z.
Variable ord : N -> list itype.       (* the table in the order in which the chooseType call for uuid u iterated over it *)
Variable cons : list (N * ctr).       (* the (immutable) constraints of each container *)
Variable faults : list (N * N).

Definition added_of (d : dbrec) : added := add_ent reserve (ord (cd_uuid d)) (cons_of cons (cd_uuid d)) d.

Definition new_ents (db : list dbrec) (cur : list qent) : list qent :=
  flat_map (fun d => if fresh cur d then match added_of d with AddEnt e => [e] | AddCancel _ _ _ => [] end else []) db.

Definition cache_after (db : list dbrec) (cur : list qent) : list qent :=
  flat_map (upd_ent db) cur ++ new_ents db cur.

(* per fresh record whose chooseType call failed while Queued/Locked: the requests of its goroutine *)
Definition calls_after (db : list dbrec) (cur : list qent) : list (N * list acall) :=
  flat_map (fun d => if fresh cur d then
                       match added_of d with
                       | AddEnt _ => []
                       | AddCancel u _ kind => [(u, fst (cancel_run d kind (fault_of faults u)))]
                       end
                     else []) db.

Definition db_after (db : list dbrec) (cur : list qent) : list dbrec :=
  map (fun d => if fresh cur d then
                  match added_of d with
                  | AddEnt _ => d
                  | AddCancel u _ kind => snd (cancel_run d kind (fault_of faults u))
                  end
                else d) db.
End Update.
