(* C05 — where BlockState.Desired comes from.
   Executable model of services/keep-balance/block_state.go BlockState.increaseDesired /
   BlockStateMap.IncreaseDesired and of balance.go Balancer.addCollection: every collection that
   references a block raises Desired[class] to at least its replication level, for every storage class
   the collection lists ("default" when it lists none); a collection without replication_desired counts
   with the cluster's default replication.  The Go map is an association list here (one entry per class,
   in order of first appearance); balanceBlock only looks entries up, so the order is immaterial.
   Definitions only; proofs are in proofs/C05_desired_proofs.v. *)
From Coq Require Import List Arith Bool.
From AV Require Import model.C05_model model.C05_run.
Import ListNotations.

(* `if d, ok := bs.Desired[class]; !ok || d < n { bs.Desired[class] = n }` (a nil map is allocated first) *)
Fixpoint set_max (k n : nat) (d : list (nat * nat)) : list (nat * nat) :=
  match d with
  | [] => [(k, n)]
  | (k', v) :: r => if k' =? k then (k', if v <? n then n else v) :: r else (k', v) :: set_max k n r
  end.

(* `if len(classes) == 0 { classes = defaultClasses }` *)
Definition classes_or_default (dflt : nat) (classes : list nat) : list nat :=
  match classes with [] => [dflt] | _ => classes end.

(* increaseDesired: the loop over the collection's classes *)
Definition increase_desired (dflt : nat) (d : list (nat * nat)) (classes : list nat) (n : nat) : list (nat * nat) :=
  fold_left (fun d k => set_max k n d) (classes_or_default dflt classes) d.

(* a collection as far as it matters for one block that it references:
   storage_classes_desired (class ids, in the order listed) and replication_desired (None = null) *)
Record coll := { k_classes : list nat; k_repl : option nat }.
Definition mkc (cls : list nat) (r : option nat) : coll := {| k_classes := cls; k_repl := r |}.

(* addCollection: `repl := bal.DefaultReplication; if coll.ReplicationDesired != nil { repl = *coll.ReplicationDesired }` *)
Definition coll_repl (defrepl : nat) (k : coll) : nat := match k_repl k with Some n => n | None => defrepl end.
Definition add_collection (dflt defrepl : nat) (d : list (nat * nat)) (k : coll) : list (nat * nat) :=
  increase_desired dflt d (k_classes k) (coll_repl defrepl k).

(* Desired of a block after the collection scan: the collections referencing it, in scan order *)
Definition desired_of (dflt defrepl : nat) (ks : list coll) : list (nat * nat) :=
  fold_left (add_collection dflt defrepl) ks [].

(* what the referencing collections ask for, one entry per (collection, class it lists): the
   specification speaks about these demands, not about the map *)
Definition demands (dflt defrepl : nat) (ks : list coll) : list (nat * nat) :=
  flat_map (fun k => map (fun c => (c, coll_repl defrepl k)) (classes_or_default dflt (k_classes k))) ks.

(* a case with another Desired *)
Definition with_desired (c : case) (d : list (nat * nat)) : case :=
  {| c_dflt := c_dflt c; c_raw := c_raw c; c_sro := c_sro c; c_repl := c_repl c; c_desired := d;
     c_rank := c_rank c; c_devrank := c_devrank c; c_min := c_min c;
     o_trash := o_trash c; o_pull := o_pull c; o_lost := o_lost c |}.

(* a block judged from the collections that reference it (b_case's own c_desired is not used) *)
Record bcase := { b_defrepl : nat; b_colls : list coll; b_case : case }.
(* the case the model runs on: Desired as the model derives it from the collections *)
Definition b_model_case (b : bcase) : case :=
  with_desired (b_case b) (desired_of (c_dflt (b_case b)) (b_defrepl b) (b_colls b)).
(* the case the specification judges: every single demand of every referencing collection *)
Definition b_spec_case (b : bcase) : case :=
  with_desired (b_case b) (demands (c_dflt (b_case b)) (b_defrepl b) (b_colls b)).

Definition b_model_b (b : bcase) : bool := model_b (b_model_case b).
Definition b_spec_b (b : bcase) : bool := spec_b (b_spec_case b).
