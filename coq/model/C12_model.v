(* C12 — rendezvous probe order.  Executable model of
   sdk/go/keepclient/root_sorter.go (NewRootSorter/getWeight/GetSortedRoots),
   keepclient.go:getSortedRoots (hint handling) and the rank map built in
   services/keep-balance/balance.go:balanceBlock. *)
From Coq Require Import NArith List Ascii String Bool.
From AV Require Import lib.Str lib.Md5 lib.SortPerm.
Import ListNotations.
Local Open Scope string_scope.

Record svc := { uuid : string; root : string }.

(* getWeight: md5hex(hash ++ last 15 chars of a 27-char uuid), else md5hex(hash ++ uuid) *)
Definition wsuffix (u : string) : string := if Nat.eqb (String.length u) 27 then drop 12 u else u.
Definition weight (h u : string) : string := md5hex (h ++ wsuffix u).
Definition wkey (h : string) (s : svc) : string := weight h (uuid s).

(* NewRootSorter(...).GetSortedRoots(): heaviest first *)
Definition sorted (h : string) (svcs : list svc) : list svc := sort svc string (wkey h) str_ltb svcs.
Definition sorted_roots (h : string) (svcs : list svc) : list string := map root (sorted h svcs).

(* keep-balance: serviceRoots maps uuid -> uuid, rank = position in the sorted uuids *)
Definition balancer_order (h : string) (svcs : list svc) : list string :=
  sorted_roots h (map (fun s => {| uuid := uuid s; root := uuid s |}) svcs).

(* strings.Split(locator, "+") *)
Fixpoint split_on (sep : ascii) (s : string) (cur : string -> string) : list string :=
  match s with
  | EmptyString => [cur EmptyString]
  | String c r => if Ascii.eqb c sep then cur EmptyString :: split_on sep r (fun x => x)
                  else split_on sep r (fun x => cur (String c x))
  end.
Definition split_plus (s : string) : list string := split_on "+"%char s (fun x => x).

Fixpoint lookup (gw : list svc) (u : string) : option string :=
  match gw with
  | [] => None
  | g :: r => if String.eqb (uuid g) u then Some (root g) else lookup r u
  end.

(* one "+"-separated field of the locator -> roots contributed by it *)
Definition hint_root (gw : list svc) (hint : string) : list string :=
  if Nat.ltb (String.length hint) 7 then []
  else if negb (String.eqb (take 2 hint) "K@") then []
  else if Nat.eqb (String.length hint) 7 then ["https://keep." ++ drop 2 hint ++ ".arvadosapi.com"]
  else if Nat.eqb (String.length hint) 29 then
    match lookup gw (drop 2 hint) with Some r => [r] | None => [] end
  else [].
Definition hint_roots (gw : list svc) (loc : string) : list string :=
  flat_map (hint_root gw) (split_plus loc).

Definition get_sorted_roots (gw local : list svc) (loc : string) : list string :=
  hint_roots gw loc ++ sorted_roots (take 32 loc) local.
