(* C16 — evaluator for the runQueue stage: the specification of the ordering clauses of the property on
   the observed call log ([RqSpec], boolean form [spec_b]; equivalence and "the model meets it for every
   pool" are proved in proofs/C16_spec.v) and the comparison of the model with the log recorded by the
   stub pool/queue around the real scheduler.runQueue. *)
From Coq Require Import List ZArith Bool NArith.
From AV Require Import model.C16_runq.
Import ListNotations.
Local Open Scope Z_scope.

Record case := mkrq {
  q_ents : list ent;        (* queue.Entries(), in the order the harness generated them (Go: a map) *)
  q_running : list N;       (* keys of pool.Running() *)
  q_unalloc : umap;         (* pool.Unallocated() *)
  q_pool : stub;            (* scripted answers of the stub pool *)
  o_log : list ev;          (* ordered calls KillContainer/Create/StartContainer/Unlock with results *)
  o_locks : list N;         (* queue.Lock calls made by the lockContainer goroutines (a set) *)
  o_shut : list N           (* pool.Shutdown calls (a set) *)
}.

Definition ev_eqb (a b : ev) : bool :=
  match a, b with
  | EKill u r, EKill v s => N.eqb u v && Bool.eqb r s
  | ECreate i r, ECreate j s => N.eqb i j && Bool.eqb r s
  | EStart i u r, EStart j v s => N.eqb i j && N.eqb u v && Bool.eqb r s
  | EUnlock u, EUnlock v => N.eqb u v
  | _, _ => false
  end.
Definition in_log (x : ev) (log : list ev) : bool := existsb (ev_eqb x) log.

Definition elig := eligible.

(* ---------------- specification ---------------- *)
Record RqSpec (ents : list ent) (running : list N) (log : list ev) (lk : list N) : Prop := {
  (* a start is attempted only for a Locked, priority >= 1 entry without a known process, on its own type *)
  rs_start : forall it u r, In (EStart it u r) log ->
      exists e, In e ents /\ e_uuid e = u /\ e_it e = it /\ e_state e = Locked /\ elig running e = true;
  (* after a failed StartContainer(it,_) no other StartContainer(it,_) in this pass *)
  rs_latch : forall a it u b, log = a ++ EStart it u false :: b -> forall u' r', ~ In (EStart it u' r') b;
  (* no start is attempted for a lower-priority container while a higher-priority Locked one of the same
     type is still waiting for a worker (it was started, or its old process is still being killed, or the
     pool refused to create an instance) *)
  rs_order : forall v u r, In v ents -> In u ents -> e_it u = e_it v -> e_prio u < e_prio v ->
      e_state v = Locked -> elig running v = true ->
      In (EStart (e_it u) (e_uuid u) r) log ->
      In (EStart (e_it v) (e_uuid v) true) log \/ In (EKill (e_uuid v) true) log \/ In (ECreate (e_it v) false) log;
  (* if a container is unlocked, every Locked one of strictly lower priority is unlocked as well *)
  rs_tail : forall u v, In u ents -> In v ents -> e_prio v < e_prio u -> e_state v = Locked ->
      In (EUnlock (e_uuid u)) log -> In (EUnlock (e_uuid v)) log;
  rs_unlock : forall uu, In (EUnlock uu) log -> exists e, In e ents /\ e_uuid e = uu /\ e_state e = Locked;
  (* lock only Queued, priority >= 1 entries without a known process *)
  rs_lock : forall uu, In uu lk -> exists e, In e ents /\ e_uuid e = uu /\ e_state e = Queued /\ elig running e = true
}.

Definition spec_b (c : case) : bool :=
  let ents := q_ents c in let run := q_running c in let log := o_log c in
  forallb (fun x => match x with
                    | EStart it u _ =>
                        existsb (fun e => N.eqb (e_uuid e) u && N.eqb (e_it e) it && cstate_eqb (e_state e) Locked && elig run e) ents
                    | EUnlock u => existsb (fun e => N.eqb (e_uuid e) u && cstate_eqb (e_state e) Locked) ents
                    | _ => true
                    end) log &&
  latch_b [] log &&
  forallb (fun v => forallb (fun u =>
      negb (N.eqb (e_it u) (e_it v) && (e_prio u <? e_prio v) && cstate_eqb (e_state v) Locked && elig run v &&
            (in_log (EStart (e_it u) (e_uuid u) true) log || in_log (EStart (e_it u) (e_uuid u) false) log)) ||
      in_log (EStart (e_it v) (e_uuid v) true) log || in_log (EKill (e_uuid v) true) log ||
      in_log (ECreate (e_it v) false) log) ents) ents &&
  forallb (fun u => forallb (fun v =>
      negb ((e_prio v <? e_prio u) && cstate_eqb (e_state v) Locked && in_log (EUnlock (e_uuid u)) log) ||
      in_log (EUnlock (e_uuid v)) log) ents) ents &&
  forallb (fun uu => existsb (fun e => N.eqb (e_uuid e) uu && cstate_eqb (e_state e) Queued && elig run e) ents) (o_locks c).

(* ---------------- model vs implementation ---------------- *)
Fixpoint insert_all {A} (x : A) (l : list A) : list (list A) :=
  match l with [] => [[x]] | y :: r => (x :: l) :: map (cons y) (insert_all x r) end.
Fixpoint perms {A} (l : list A) : list (list A) :=
  match l with [] => [[]] | x :: r => flat_map (insert_all x) (perms r) end.

(* runs of equal priority in a sorted list *)
Fixpoint group_prio (l : list ent) : list (list ent) :=
  match l with
  | [] => []
  | x :: r => match group_prio r with
              | (y :: g) :: gs => if e_prio x =? e_prio y then (x :: y :: g) :: gs else [x] :: (y :: g) :: gs
              | _ => [[x]]
              end
  end.
(* every arrangement sort.Slice may produce: ties in any order *)
Definition tie_orders (ents : list ent) : list (list ent) :=
  fold_right (fun g acc => flat_map (fun p => map (app p) acc) (perms g)) [[]] (group_prio (psort ents)).

Fixpoint list_eqb {A} (f : A -> A -> bool) (a b : list A) : bool :=
  match a, b with [], [] => true | x :: r, y :: s => f x y && list_eqb f r s | _, _ => false end.
Fixpoint insN (x : N) (l : list N) : list N :=
  match l with [] => [x] | y :: r => if (x <=? y)%N then x :: l else y :: insN x r end.
Definition sortN (l : list N) : list N := fold_right insN [] l.
Fixpoint dedupN (l : list N) : list N :=
  match l with [] => [] | x :: r => if memN x r then dedupN r else x :: dedupN r end.

Definition same_result (c : case) (m : rq_result stub) : bool :=
  list_eqb ev_eqb (o_log c) (r_log m) &&
  list_eqb N.eqb (sortN (o_locks c)) (sortN (r_locks m)) &&
  list_eqb N.eqb (sortN (dedupN (o_shut c))) (sortN (dedupN (r_shut m))).

Definition model_b (c : case) : bool :=
  existsb (fun sorted => same_result c (run_queue_stub sorted (q_running c) (q_unalloc c) (q_pool c)))
          (tie_orders (q_ents c)).

Definition check_case (c : case) : N :=
  ((if model_b c then 0 else 1) + (if spec_b c then 0 else 2))%N.

Fixpoint failing_from (i : N) (cs : list case) : list (N * N) :=
  match cs with
  | [] => []
  | c :: r => let k := check_case c in
              if N.eqb k 0 then failing_from (N.succ i) r else (i, k) :: failing_from (N.succ i) r
  end.
Definition failing (cs : list case) : list (N * N) := failing_from 0%N cs.

(* short constructors for generated case files *)
Definition E (u : N) (st : N) (p : Z) (it : N) : ent :=
  mkent u (match st with 0 => Queued | 1 => Locked | 2 => Running | 3 => Complete | 4 => Cancelled | _ => OtherState end%N) p it.
