(* C18, legacy request path seen from the client of the controller: executable model of
     lib/controller/fed_collections.go, fetchRemoteCollectionByPDH  -> fan_try, fan_first, fan_get
     lib/controller/fed_collections.go, fetchRemoteCollectionByUUID -> fan_uuid
   on top of legacy_rewrite (rewriteSignatures, model/C18_model.v).  Definitions only.

   What a cluster answers is an HTTP response (any status code, any body), a transport error, or nothing
   until the request is cancelled.  A body is a JSON collection record (portable_data_hash, manifest_text),
   a JSON error document (it decodes into a record with both fields empty), or something that is not JSON.
   What the client of the controller gets is a status code and, if the body is a JSON object with a
   manifest_text member, that manifest.

   fetchRemoteCollectionByPDH: the local cluster is asked first; any answer other than 404 is final (it is
   forwarded as it is; a transport error becomes 502).  Otherwise every remote is asked; in the order in which
   the answers complete, an answer is a candidate only if its status is exactly 200, and the first candidate that
   rewriteSignatures verifies against the requested hash is forwarded with status 200; if there is none the
   client gets 404 when every remote answered 404 and 502 otherwise. *)
From Coq Require Import NArith List Ascii String Bool.
From AV Require Import lib.Str lib.Md5 lib.TokSplit lib.ManifestTok model.C18_model.
Import ListNotations.
Local Open Scope string_scope.

Inductive hbody := BCol (record_pdh manifest : string) | BErrJson | BJunk.
Inductive hanswer := HResp (code : N) (b : hbody) | HFail | HHang.
Inductive fres := FRes (code : N) (manifest : option string).

(* json.Decode into arvados.Collection: (portable_data_hash, manifest_text) *)
Definition body_col (b : hbody) : option (string * string) :=
  match b with BCol p m => Some (p, m) | BErrJson => Some (EmptyString, EmptyString) | BJunk => None end.
(* what the client finds in a body that is forwarded untouched *)
Definition body_manifest (b : hbody) : option string :=
  match b with BCol _ m => Some m | _ => None end.

(* one remote answer in the per-remote goroutine: Some out = sent on the success channel *)
Definition fan_try (req : string) (ra : string * hanswer) : option string :=
  match snd ra with
  | HResp c b =>
    if N.eqb c 200 then
      match body_col b with
      | Some (p, m) => match legacy_rewrite (fst ra) req p m with LOk out => Some out | LErr => None end
      | None => None
      end
    else None
  | _ => None
  end.
Definition h404 (a : hanswer) : bool := match a with HResp c _ => N.eqb c 404 | _ => false end.

(* answers of the remotes in the order in which they complete *)
Fixpoint fan_first (req : string) (arr : list (string * hanswer)) (all404 : bool) : fres :=
  match arr with
  | [] => FRes (if all404 then 404 else 502) None
  | ra :: rest =>
    match fan_try req ra with
    | Some out => FRes 200 (Some out)
    | None => fan_first req rest (all404 && h404 (snd ra))
    end
  end.
Definition fan_get (req : string) (local : hanswer) (arr : list (string * hanswer)) : fres :=
  match local with
  | HResp c b => if N.eqb c 404 then fan_first req arr true else FRes c (body_manifest b)
  | _ => FRes 502 None
  end.
Definition fan_remotes_asked (local : hanswer) : bool := h404 local.

(* fetchRemoteCollectionByUUID for a uuid of another cluster r: known = r is a configured remote *)
Definition fan_uuid (known : bool) (r : string) (a : hanswer) : fres :=
  if negb known then FRes 404 None
  else match a with
       | HResp c b =>
         if N.eqb c 200 then
           match body_col b with
           | Some (p, m) => match legacy_rewrite r EmptyString p m with LOk out => FRes 200 (Some out) | LErr => FRes 502 None end
           | None => FRes 502 None
           end
         else FRes c (body_manifest b)
       | _ => FRes 502 None
       end.
