(* C20 — the per-resource entry points Conn.<Type>List of lib/controller/federation/conn.go, which decide
   whether the generic splitter (generated_<Type>List -> splitListRequest, model/C20_model.v) is used at all:
     conn.go : CollectionList, ContainerList, ContainerRequestList, GroupList, SpecimenList
               -> conn.generated_<Type>List(ctx, options), unconditionally
     conn.go : UserList -> if Login.LoginCluster is set, is another cluster, and the caller did not ask for
               bypass_federation: the whole request goes (unchanged) to chooseBackend(LoginCluster), the
               answer is returned as it is, and the users carrying the login cluster's prefix are cached in
               the local database (batchUpdateUsers -> local.UserBatchUpdate);
               otherwise conn.generated_UserList(ctx, options)
     conn.go : chooseBackend
   Definitions only; proofs are in proofs/C20_entry.v. *)
From Coq Require Import NArith ZArith List Ascii String Bool.
From AV Require Import lib.Str lib.SortPerm model.C20_model.
Import ListNotations.
Local Open Scope string_scope.

Inductive kind := KCollection | KContainer | KContainerRequest | KGroup | KSpecimen | KUser.
Definition is_user (k : kind) : bool := match k with KUser => true | _ => false end.

(* cluster configuration seen by an entry point: the splitter's configuration + Login.LoginCluster *)
Record econfig := { ec_cfg : config; ec_login : string }.

(* conn.go chooseBackend(id): a 27-character id stands for its 5-character prefix; anything that is not a
   5-character cluster id after that, the local id, and an id without a configured remote all give the
   local backend *)
Definition choose_backend (cfg : config) (id : string) : string :=
  let id5 := if Nat.eqb (String.length id) 27 then Some (take 5 id)
             else if Nat.eqb (String.length id) 5 then Some id else None in
  match id5 with
  | None => cf_local cfg
  | Some i => if i =? cf_local cfg then cf_local cfg else if mem i (cf_remotes cfg) then i else cf_local cfg
  end.

(* the guard of conn.go UserList: id != "" && id != conn.cluster.ClusterID && !options.BypassFederation *)
Definition forwards (ec : econfig) (k : kind) (o : opts) : bool :=
  is_user k && negb (ec_login ec =? "") && negb (ec_login ec =? cf_local (ec_cfg ec)) && negb (o_bypass o).

(* strings.HasPrefix(s, p) *)
Definition has_prefix (p s : string) : bool := take (String.length p) s =? p.
(* batchUpdateUsers: keys of batchOpts.Updates (a Go map) *)
Definition cached_users (login : string) (its : list item) : list string :=
  dedup (filter (has_prefix login) (uuids its)).

Inductive eoutcome :=
| EForward (b : string) (a : answer)     (* the whole request was handed to backend b, which answered a *)
| EGeneric (out : outcome).              (* generated_<Type>List *)

Section Entry.
Variable ec : econfig.
Variable page : string -> nat -> list string -> answer.
Variable upd_ok : bool.                  (* the local backend's answer to UserBatchUpdate: true = no error *)

Definition erun (k : kind) (o : opts) : eoutcome :=
  if forwards ec k o
  then let b := choose_backend (ec_cfg ec) (ec_login ec) in EForward b (page b 0 [])
  else EGeneric (run (ec_cfg ec) page o).

(* list requests received by backend b, in order (a forwarded request carries the caller's options unchanged) *)
Definition e_calls_to (o : opts) (eo : eoutcome) (b : string) : list opts :=
  match eo with
  | EForward b0 _ => if b =? b0 then [o] else []
  | EGeneric out => calls_to (ec_cfg ec) o out b
  end.
(* UserBatchUpdate calls received by the local backend: the set of user uuids in each *)
Definition e_updates (eo : eoutcome) : list (list string) :=
  match eo with
  | EForward _ (AItems its) => let u := cached_users (ec_login ec) its in if is_nil u then [] else [u]
  | _ => []
  end.
Definition e_errs (eo : eoutcome) : list N :=
  match eo with
  | EForward _ (AErr c) => [c]
  | EForward _ (AItems its) => if is_nil (cached_users (ec_login ec) its) || upd_ok then [] else [500%N]
  | EGeneric out => errs out
  end.
Definition e_items (eo : eoutcome) : list (string * item) :=
  match eo with
  | EForward b a => map (fun i => (b, i)) (page_items a)
  | EGeneric out => merged (ec_cfg ec) out
  end.
End Entry.
