(* C04 (H) — evaluator for history cases that carry the cluster configuration as written.
   The harness does not say which volumes are read-only: it gives Volumes.<uuid>.ReadOnly and the
   AccessViaHosts entries of every configured volume and the URL of the server under test; the
   listings (initial and after every request) cover EVERY configured volume's directory, the server's
   mounts first (in the order GET /mounts gave), then the volumes it does not mount.
   [hspec_b] derives from the configuration which volumes this server may change (those it can reach
   and that are read-only neither at volume level nor in its own AccessViaHosts entry) and judges the
   observations with model/C04_run.v's clauses: every other volume's directory never changes;
   fresh_survives looks only at the volumes the server can reach.
   [hmodel_b]: the mounts advertised are those of model/C04_conf.v, and the history model started
   from those mounts reproduces statuses and listings. *)
From Coq Require Import ZArith NArith List String Bool.
From AV Require Import lib.Str model.C04_model model.C04_run model.C04_conf.
Import ListNotations.
Local Open Scope Z_scope.

(* ---- the specification's reading of the configuration (independent of make_mounts) ---- *)
Definition has_entry (host : string) (r : bool) (acc : list (string * bool)) : bool :=
  existsb (fun e => String.eqb (fst e) host && Bool.eqb (snd e) r) acc.
(* reachable: no AccessViaHosts at all, or an entry for this server *)
Definition accessible_b (host : string) (cv : cvol) : bool :=
  match cv_access cv with
  | [] => true
  | acc => has_entry host true acc || has_entry host false acc
  end.
Definition read_only_here_b (host : string) (cv : cvol) : bool := cv_ro cv || has_entry host true (cv_access cv).
Definition writable_here_b (host : string) (cv : cvol) : bool := accessible_b host cv && negb (read_only_here_b host cv).

Fixpoint restrict {A} (keep : list bool) (xs : list A) : list A :=
  match keep, xs with
  | k :: ks, x :: r => if k then x :: restrict ks r else restrict ks r
  | _, _ => []
  end.
Definition restrict_step (keep : list bool) (st : sobs) : sobs :=
  {| s_lo := s_lo st; s_now := s_now st; s_hi := s_hi st; s_op := s_op st; s_code := s_code st;
     s_after := restrict keep (s_after st) |}.

Record hcase := {
  hc_host : string;                       (* this server's URL *)
  hc_conf : list cvol;                    (* every configured volume *)
  hc_adv : list (string * bool);          (* GET /mounts: uuid, read_only *)
  hc_cfg : cfg;
  hc_init : list listing;                 (* one per configured volume *)
  hc_steps : list sobs                    (* s_after: one listing per configured volume *)
}.

Definition guarded_flags (host : string) (conf : list cvol) : list bool :=
  map (fun cv => negb (writable_here_b host cv)) conf.
Definition reach_flags (host : string) (conf : list cvol) : list bool := map (accessible_b host) conf.

Definition to_case (hc : hcase) : case :=
  {| c_cfg := hc_cfg hc;
     c_ro := guarded_flags (hc_host hc) (hc_conf hc);
     c_uuid := map cv_uuid (hc_conf hc);
     c_init := hc_init hc;
     c_steps := hc_steps hc |}.

Definition hspec_b (hc : hcase) : bool :=
  spec_nofresh_b (to_case hc) &&
  fresh_ok (hc_cfg hc) false (map (restrict_step (reach_flags (hc_host hc) (hc_conf hc))) (hc_steps hc)).

(* ---- model = observation ---- *)
Fixpoint adv_eqb (ms : list mount) (adv : list (string * bool)) : bool :=
  match ms, adv with
  | [], [] => true
  | m :: r, (u, ro) :: r' => String.eqb (m_uuid m) u && Bool.eqb (m_ro m) ro && adv_eqb r r'
  | _, _ => false
  end.

Definition conf_state (host : string) (conf : list cvol) (ls : list listing) : state :=
  let ms := make_mounts host conf in
  {| vols := mk_vols (map m_ro ms) (map m_uuid ms) ls; counter := 0 |}.

Definition hmodel_case (hc : hcase) : case :=
  let ms := make_mounts (hc_host hc) (hc_conf hc) in
  let keep := map (is_mounted (hc_host hc)) (hc_conf hc) in
  {| c_cfg := hc_cfg hc;
     c_ro := map m_ro ms;
     c_uuid := map m_uuid ms;
     c_init := restrict keep (hc_init hc);
     c_steps := map (restrict_step keep) (hc_steps hc) |}.

Definition hmodel_b (hc : hcase) : bool :=
  adv_eqb (make_mounts (hc_host hc) (hc_conf hc)) (hc_adv hc) &&
  Nat.eqb (List.length (hc_init hc)) (List.length (hc_conf hc)) &&
  forallb (fun st => Nat.eqb (List.length (s_after st)) (List.length (hc_conf hc))) (hc_steps hc) &&
  model_b (hmodel_case hc).

Definition hcheck_case (c : hcase) : N :=
  ((if hmodel_b c then 0 else 1) +
   (if hspec_b c then 0 else 2))%N.

Fixpoint hfailing_from (i : N) (cs : list hcase) : list (N * N) :=
  match cs with
  | [] => []
  | c :: r => let k := hcheck_case c in
              if (k =? 0)%N then hfailing_from (N.succ i) r else (i, k) :: hfailing_from (N.succ i) r
  end.
Definition hfailing (cs : list hcase) : list (N * N) := hfailing_from 0%N cs.

(* for the replay file of a failing case: the first request (0-based) after which some volume's clauses
   fail, with one boolean per configured volume (false = that volume's directory changed in a way the
   specification forbids), and whether fresh_survives holds *)
Fixpoint vols_flags (c : cfg) (ros : list bool) (uuids : list string) (st : sobs) (before after : list listing) : list bool :=
  match ros, uuids, before, after with
  | ro :: ros', u :: uuids', b :: before', a :: after' =>
      vol_step_ok c ro u st b a :: vols_flags c ros' uuids' st before' after'
  | _, _, _, _ => []
  end.
Fixpoint first_bad (c : cfg) (ros : list bool) (uuids : list string) (before : list listing) (sts : list sobs) (i : N)
  : option (N * list bool) :=
  match sts with
  | [] => None
  | st :: r => if vols_step_ok c ros uuids st before (s_after st) && untrash_ok ros st before
               then first_bad c ros uuids (s_after st) r (N.succ i)
               else Some (i, vols_flags c ros uuids st before (s_after st))
  end.
Definition hexplain (hc : hcase) :=
  (guarded_flags (hc_host hc) (hc_conf hc),
   first_bad (hc_cfg hc) (guarded_flags (hc_host hc) (hc_conf hc)) (map cv_uuid (hc_conf hc)) (hc_init hc) (hc_steps hc) 0%N,
   fresh_ok (hc_cfg hc) false (map (restrict_step (reach_flags (hc_host hc) (hc_conf hc))) (hc_steps hc))).

(* short constructors for generated files *)
Definition CV (uuid : string) (ro : bool) (acc : list (string * bool)) : cvol :=
  {| cv_uuid := uuid; cv_ro := ro; cv_access := acc |}.
Definition HC (host : string) (conf : list cvol) (adv : list (string * bool)) (c : cfg)
              (init : list listing) (steps : list sobs) : hcase :=
  {| hc_host := host; hc_conf := conf; hc_adv := adv; hc_cfg := c; hc_init := init; hc_steps := steps |}.
