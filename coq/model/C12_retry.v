(* C12 — the probe order of a read ACROSS retry rounds (keepclient.go getOrHead, the loop
   `for triesRemaining > 0 { retryList = nil; for _, host := range serversToTry {...}; serversToTry = retryList }`).
   The loop itself is the one transcribed for C03 (model/C03_model.v: try_servers / get_rounds / get_or_head, whose
   request log g_log is the probe sequence); here is its closed form — every round walks, in the order of the first
   round, exactly the services that answered every earlier round with a transient failure, each once; a 200 ends the
   read — and the evaluator of stage c12retry.  Definitions only. *)
From Coq Require Import Arith NArith List Ascii String Bool.
From AV Require Import lib.Str model.C03_model.
Import ListNotations.
Local Open Scope nat_scope.

(* the answer ends the read *)
Definition is200r (r : response) : bool := match r with Resp st _ _ _ => (st =? 200)%N | ConnErr => false end.
(* the service goes on the retry list: no response, 408, 429, >= 500 *)
Definition transient (r : response) : bool :=
  match r with ConnErr => true | Resp st _ _ _ => negb (st =? 200)%N && retry_status st end.

Section Probe.
Variable ans : nat -> nat -> response.        (* service -> round -> answer *)

(* still to be asked in round a: asked in every earlier round and answered transiently each time *)
Fixpoint eligible (a : nat) (s : nat) : bool :=
  match a with 0 => true | S a' => eligible a' s && transient (ans s a') end.

Definition round_probes (order : list nat) (a : nat) : list (nat * nat) :=
  map (fun s => (s, a)) (filter (eligible a) order).

(* up to and including the first probe that is answered 200 *)
Fixpoint upto200 (l : list (nat * nat)) : list (nat * nat) :=
  match l with
  | [] => []
  | p :: r => if is200r (ans (fst p) (snd p)) then [p] else p :: upto200 r
  end.

(* the probe sequence of a read with retry limit [retries] over the first-round order [order] *)
Definition probe_seq (retries : nat) (order : list nat) : list (nat * nat) :=
  upto200 (flat_map (round_probes order) (seq 0 (S retries))).
End Probe.

(* ---- evaluator: stage c12retry ---- *)
Record rcase := {
  r_retries : nat;                     (* kc.Retries *)
  r_loc : string;                      (* locator (never the empty block's) *)
  r_order : list nat;                  (* getSortedRoots(locator) as service indices: usable hints, then rendezvous order *)
  r_script : list (list response);     (* per service, per attempt: scripted answer *)
  o_probes : list (nat * nat)          (* requests in arrival order: service, how many requests it had got before *)
}.

Definition ans_of (c : rcase) (s a : nat) : response := nth a (nth s (r_script c) []) ConnErr.

Fixpoint nodup_nat (l : list nat) : bool :=
  match l with [] => true | x :: r => negb (existsb (Nat.eqb x) r) && nodup_nat r end.

Definition pair_eqb (a b : nat * nat) : bool := (fst a =? fst b) && (snd a =? snd b).
Fixpoint pairs_eqb (a b : list (nat * nat)) : bool :=
  match a, b with [], [] => true | x :: a', y :: b' => pair_eqb x y && pairs_eqb a' b' | _, _ => false end.

(* specification: the observed probe sequence is the closed form (first-round orders with a repeated root are
   outside the statement: a hint naming a local service makes getSortedRoots list it twice) *)
Definition retry_spec_b (c : rcase) : bool :=
  negb (nodup_nat (r_order c)) || pairs_eqb (o_probes c) (probe_seq (ans_of c) (r_retries c) (r_order c)).

(* correspondence: the transcribed loop's request log *)
Definition retry_model_b (c : rcase) : bool :=
  pairs_eqb (o_probes c) (g_log (get_or_head (ans_of c) (r_retries c) (r_order c) (r_loc c))).

Definition retry_check_case (c : rcase) : N :=
  ((if retry_model_b c then 0 else 1) + (if retry_spec_b c then 0 else 2))%N.
Fixpoint retry_failing_from (i : N) (cs : list rcase) : list (N * N) :=
  match cs with
  | [] => []
  | c :: r => let k := retry_check_case c in
              if N.eqb k 0 then retry_failing_from (N.succ i) r else (i, k) :: retry_failing_from (N.succ i) r
  end.
Definition retry_failing (cs : list rcase) : list (N * N) := retry_failing_from 0%N cs.

(* short constructors for generated files: a non-200 answer, a 200 answer with declared length, no answer *)
Definition RS (st : N) : response := Resp st (Some 2) "no" false.
Definition ROK (n : nat) (body : string) : response := Resp 200 (Some n) body false.
