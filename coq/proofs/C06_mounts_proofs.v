(* C06 (d') - one index per device of the mounts that survive cleanupMounts covers every advertised mount
   (model/C06_mounts.v, model/C05_model.v cleanup). *)
From Coq Require Import List Arith Bool.
From AV Require Import model.C05_model model.C06_mounts.
Import ListNotations.

Lemma mem_In x l : mem x l = true <-> In x l.
Proof.
  unfold mem. rewrite existsb_exists. split.
  - intros (y & H & E). apply Nat.eqb_eq in E. subst. exact H.
  - intros H. exists x. split; [exact H|apply Nat.eqb_refl].
Qed.

(* the boolean judged on the observed index requests says what it should *)
Theorem all_covered_reflects raw idx :
  all_covered raw idx = true <->
  forall m, In m raw -> exists i, In i raw /\ In (mid i) idx /\ (mid i = mid m \/ (dev m <> 0 /\ dev i = dev m)).
Proof.
  unfold all_covered. rewrite forallb_forall. split.
  - intros H m Hm. specialize (H m Hm). apply existsb_exists in H. destruct H as (i & Hi & E).
    apply andb_true_iff in E. destruct E as [E1 E2]. exists i. split; [exact Hi|]. split; [apply mem_In; exact E1|].
    unfold covers_b in E2. apply orb_true_iff in E2. destruct E2 as [E2|E2].
    + left. apply Nat.eqb_eq. exact E2.
    + right. apply andb_true_iff in E2. destruct E2 as [A B]. apply negb_true_iff, Nat.eqb_neq in A. apply Nat.eqb_eq in B. auto.
  - intros H m Hm. destruct (H m Hm) as (i & Hi & Hidx & C). apply existsb_exists. exists i. split; [exact Hi|].
    apply andb_true_iff. split; [apply mem_In; exact Hidx|]. unfold covers_b. apply orb_true_iff. destruct C as [C|[C1 C2]].
    + left. apply Nat.eqb_eq. exact C.
    + right. apply andb_true_iff. split; [apply negb_true_iff, Nat.eqb_neq; exact C1|apply Nat.eqb_eq; exact C2].
Qed.

(* cleanupMounts + "one index per device": if for every surviving mount some surviving mount of the same device
   (itself, or one with the same non-blank device id) was asked for its index - whichever the map order picked -,
   then every mount the keepstores advertise is covered, also the read-only ones that cleanupMounts dropped *)
Theorem one_index_per_device_covers_all raw idx :
  (forall s, In s (cleanup raw) -> exists i, In i (cleanup raw) /\ In (mid i) idx /\ (i = s \/ (dev s <> 0 /\ dev i = dev s))) ->
  all_covered raw idx = true.
Proof.
  intros H. apply all_covered_reflects. intros m Hm.
  assert (Sub : forall x, In x (cleanup raw) -> In x raw) by (intros x Hx; apply filter_In in Hx; tauto).
  destruct (negb (mro m && mem (dev m) (rwdev raw))) eqn:K.
  - assert (Hc : In m (cleanup raw)) by (apply filter_In; auto).
    destruct (H m Hc) as (i & Hi & Hidx & C). exists i. split; [auto|]. split; [exact Hidx|].
    destruct C as [->|C]; [left; reflexivity|right; exact C].
  - apply negb_false_iff, andb_true_iff in K. destruct K as [_ K]. apply mem_In in K.
    unfold rwdev in K. apply in_map_iff in K. destruct K as (w & Ew & Hw). apply filter_In in Hw. destruct Hw as [Hw Fw].
    apply andb_true_iff in Fw. destruct Fw as [F1 F2]. apply negb_true_iff in F1. apply negb_true_iff, Nat.eqb_neq in F2.
    assert (Hc : In w (cleanup raw)) by (apply filter_In; split; [exact Hw|rewrite F1; reflexivity]).
    destruct (H w Hc) as (i & Hi & Hidx & C). exists i. split; [auto|]. split; [exact Hidx|]. right.
    split; [congruence|]. destruct C as [->|[_ C]]; congruence.
Qed.

(* regression witness: without the `DeviceID != ""` guard in cleanupMounts a read-write mount with a blank device id
   makes the read-only mount with a blank device id disappear: its index is not among the requests, it is not covered *)
Definition rwdev_noguard (raw : list mnt) : list nat := map dev (filter (fun m => negb (mro m)) raw).
Definition cleanup_noguard (raw : list mnt) : list mnt := filter (fun m => negb (mro m && mem (dev m) (rwdev_noguard raw))) raw.
Definition w_blank : list mnt := [MM 1 0 0 false; MM 2 1 0 true].
Lemma blank_guard_variant_refuted :
  map mid (cleanup_noguard w_blank) = [1] /\ all_covered w_blank (map mid (cleanup_noguard w_blank)) = false /\
  index_requests w_blank = [1; 2] /\ all_covered w_blank (index_requests w_blank) = true.
Proof. vm_compute. repeat split; reflexivity. Qed.
