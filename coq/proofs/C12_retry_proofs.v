(* C12 — probe order across retry rounds: the request log of the transcribed getOrHead loop (model/C03_model.v) is
   the closed form of model/C12_retry.v, and what that closed form says. *)
From Coq Require Import Arith NArith List Ascii String Bool Sorted Lia.
From AV Require Import lib.Str model.C03_model model.C12_retry.
Import ListNotations.
Local Open Scope nat_scope.

Lemma firstn_In_local {A} (l : list A) : forall k x, In x (firstn k l) -> In x l.
Proof.
  induction l as [|a l IH]; intros [|k] x H; cbn [firstn] in H; try destruct H.
  - left; assumption.
  - right. eapply IH. eassumption.
Qed.
Lemma NoDup_firstn_local {A} (l : list A) : forall k, NoDup l -> NoDup (firstn k l).
Proof.
  induction l as [|a l IH]; intros [|k] H; cbn [firstn]; try constructor.
  - inversion H as [|? ? Ha Hl]; subst. intros X. apply Ha. eapply firstn_In_local. exact X.
  - inversion H; subst. apply IH. assumption.
Qed.
Lemma NoDup_app_local {A} (l1 l2 : list A) :
  NoDup l1 -> NoDup l2 -> (forall x, In x l1 -> In x l2 -> False) -> NoDup (l1 ++ l2).
Proof.
  induction l1 as [|a l1 IH]; intros H1 H2 Hd; cbn [app]; [exact H2|].
  inversion H1 as [|? ? Ha Hl]; subst. constructor.
  - intros X. apply in_app_or in X. destruct X as [X|X]; [contradiction|]. apply (Hd a); [left; reflexivity|exact X].
  - apply IH; [exact Hl|exact H2|]. intros x Hx1 Hx2. apply (Hd x); [right; exact Hx1|exact Hx2].
Qed.

Lemma NoDup_map_pair (a : nat) (l : list nat) : NoDup l -> NoDup (map (fun s => (s, a)) l).
Proof.
  induction l as [|x l IH]; intros H; cbn [map]; [constructor|]. inversion H as [|? ? Hx Hl]; subst. constructor; [|apply IH; exact Hl].
  intros X. apply in_map_iff in X. destruct X as (y & [= ->] & Hy). contradiction.
Qed.

Section P.
Variable ans : nat -> nat -> response.

Definition at_round (round : nat) (l : list nat) : list (nat * nat) := map (fun s => (s, round)) l.
Definition has200 (round : nat) (l : list nat) : bool := existsb (fun s => is200r (ans s round)) l.

Lemma upto200_app_no l1 l2 :
  existsb (fun p => is200r (ans (fst p) (snd p))) l1 = false -> upto200 ans (l1 ++ l2) = l1 ++ upto200 ans l2.
Proof.
  induction l1 as [|p l1 IH]; cbn [existsb app upto200]; [reflexivity|].
  intros H. apply orb_false_iff in H. destruct H as [H1 H2]. rewrite H1, (IH H2). reflexivity.
Qed.
Lemma upto200_app_yes l1 l2 :
  existsb (fun p => is200r (ans (fst p) (snd p))) l1 = true -> upto200 ans (l1 ++ l2) = upto200 ans l1.
Proof.
  induction l1 as [|p l1 IH]; cbn [existsb app upto200]; [discriminate|].
  destruct (is200r (ans (fst p) (snd p))); [reflexivity|]. cbn [orb]. intros H. rewrite (IH H). reflexivity.
Qed.
Lemma existsb_at_round round l :
  existsb (fun p => is200r (ans (fst p) (snd p))) (at_round round l) = has200 round l.
Proof. unfold at_round, has200. induction l as [|s l IH]; cbn [map existsb fst snd]; [reflexivity|rewrite IH; reflexivity]. Qed.

(* one round of the loop *)
Lemma try_servers_log servers : forall round expect c404 retry log,
  let '(res, _, rt', log') := try_servers ans servers round expect c404 retry log in
  log' = log ++ upto200 ans (at_round round servers) /\
  (if has200 round servers then res <> None
   else res = None /\ rt' = retry ++ filter (fun s => transient (ans s round)) servers).
Proof.
  induction servers as [|x rest IH]; intros round expect c404 retry log; cbn [try_servers at_round map upto200 has200 existsb filter fst snd].
  - rewrite !app_nil_r. auto.
  - unfold has200 in IH. fold (at_round round rest).
    destruct (ans x round) as [st declared body cut|] eqn:Ea; cbn [is200r transient].
    + destruct (st =? 200)%N eqn:E2; cbn [negb andb orb].
      * destruct expect as [e|], declared as [n|]; try destruct (e =? n); cbn [app]; (split; [reflexivity|discriminate]).
      * destruct (retry_status st) eqn:Er.
        -- specialize (IH round expect c404 (retry ++ [x]) (log ++ [(x, round)])).
           destruct (try_servers ans rest round expect c404 (retry ++ [x]) (log ++ [(x, round)])) as [[[res c'] rt'] log'].
           destruct IH as [A B]. split; [rewrite A, <- app_assoc; reflexivity|].
           destruct (existsb (fun s => is200r (ans s round)) rest); [exact B|]. destruct B as [B1 B2]. split; [exact B1|].
           rewrite B2, <- app_assoc. reflexivity.
        -- destruct (st =? 404)%N.
           ++ specialize (IH round expect (S c404) retry (log ++ [(x, round)])).
              destruct (try_servers ans rest round expect (S c404) retry (log ++ [(x, round)])) as [[[res c'] rt'] log'].
              destruct IH as [A B]. split; [rewrite A, <- app_assoc; reflexivity|exact B].
           ++ specialize (IH round expect c404 retry (log ++ [(x, round)])).
              destruct (try_servers ans rest round expect c404 retry (log ++ [(x, round)])) as [[[res c'] rt'] log'].
              destruct IH as [A B]. split; [rewrite A, <- app_assoc; reflexivity|exact B].
    + specialize (IH round expect c404 (retry ++ [x]) (log ++ [(x, round)])).
      destruct (try_servers ans rest round expect c404 (retry ++ [x]) (log ++ [(x, round)])) as [[[res c'] rt'] log'].
      destruct IH as [A B]. split; [rewrite A, <- app_assoc; reflexivity|].
      destruct (existsb (fun s => is200r (ans s round)) rest); [exact B|]. destruct B as [B1 B2]. split; [exact B1|].
      rewrite B2, <- app_assoc. reflexivity.
Qed.

(* the rounds the loop walks from a given round on: the retry list of a round is its transient subset *)
Fixpoint rounds_from (tries round : nat) (servers : list nat) : list (nat * nat) :=
  match tries with
  | 0 => []
  | S t => at_round round servers ++ rounds_from t (S round) (filter (fun s => transient (ans s round)) servers)
  end.

Lemma get_rounds_log tries : forall round servers ns expect c404 log,
  g_log (get_rounds ans tries round servers ns expect c404 log) = log ++ upto200 ans (rounds_from tries round servers).
Proof.
  induction tries as [|t IH]; intros round servers ns expect c404 log; cbn [get_rounds rounds_from upto200 g_log].
  - rewrite app_nil_r. reflexivity.
  - pose proof (try_servers_log servers round expect c404 [] log) as T.
    destruct (try_servers ans servers round expect c404 [] log) as [[[res c'] rt'] log'] eqn:Et.
    destruct T as [A B]. destruct (has200 round servers) eqn:Eh.
    + destruct res as [r|]; [|contradiction]. cbn [g_log]. rewrite A.
      rewrite upto200_app_yes by (rewrite existsb_at_round; exact Eh). reflexivity.
    + destruct B as [-> ->]. cbn [app]. rewrite IH, A.
      assert (N2 : existsb (fun p => is200r (ans (fst p) (snd p))) (at_round round servers) = false)
        by (rewrite existsb_at_round; exact Eh).
      rewrite (upto200_app_no _ _ N2).
      pose proof (upto200_app_no _ [] N2) as U. rewrite app_nil_r in U. cbn [upto200] in U. rewrite app_nil_r in U.
      rewrite U, <- app_assoc. reflexivity.
Qed.

Lemma filter_filter {A} (p q : A -> bool) l : filter q (filter p l) = filter (fun x => p x && q x) l.
Proof.
  induction l as [|x l IH]; cbn [filter]; [reflexivity|]. destruct (p x); cbn [andb filter]; [rewrite IH; reflexivity|exact IH].
Qed.
Lemma filter_all {A} (l : list A) : filter (fun _ => true) l = l.
Proof. induction l as [|x l IH]; cbn [filter]; [reflexivity|f_equal; exact IH]. Qed.

Lemma rounds_from_closed order tries : forall round,
  rounds_from tries round (filter (eligible ans round) order) = flat_map (round_probes ans order) (seq round tries).
Proof.
  induction tries as [|t IH]; intros round; cbn [rounds_from seq flat_map]; [reflexivity|].
  rewrite filter_filter. change (fun x => eligible ans round x && transient (ans x round)) with (eligible ans (S round)).
  rewrite IH. reflexivity.
Qed.

(* THE LOOP IS THE CLOSED FORM *)
Theorem loop_log_is_probe_seq retries order loc :
  empty_block_loc loc = false -> g_log (get_or_head ans retries order loc) = probe_seq ans retries order.
Proof.
  intros He. unfold get_or_head, probe_seq. rewrite He, get_rounds_log. cbn [app].
  rewrite <- (rounds_from_closed order (S retries) 0). cbn [eligible]. rewrite filter_all. reflexivity.
Qed.

(* ---- what the closed form says ---- *)
Lemma eligible_iff a s : eligible ans a s = true <-> forall b, b < a -> transient (ans s b) = true.
Proof.
  induction a as [|a IH]; cbn [eligible].
  - split; [intros _ b Hb; lia|reflexivity].
  - rewrite andb_true_iff, IH. split.
    + intros [A B] b Hb. destruct (Nat.eq_dec b a) as [->|Hne]; [exact B|apply A; lia].
    + intros H. split; [intros b Hb; apply H; lia|apply H; lia].
Qed.

Lemma upto200_prefix l : exists k, upto200 ans l = firstn k l.
Proof.
  induction l as [|p l [k IH]]; [exists 0; reflexivity|]. cbn [upto200].
  destruct (is200r (ans (fst p) (snd p))); [exists 1; reflexivity|exists (S k); cbn [firstn]; rewrite IH; reflexivity].
Qed.

Lemma in_all_rounds order retries s a :
  In (s, a) (flat_map (round_probes ans order) (seq 0 (S retries))) <-> a <= retries /\ In s order /\ eligible ans a s = true.
Proof.
  rewrite in_flat_map. split.
  - intros (r & Hr & Hin). apply in_seq in Hr. unfold round_probes in Hin. apply in_map_iff in Hin.
    destruct Hin as (x & [= -> ->] & Hx). apply filter_In in Hx. destruct Hx. split; [lia|auto].
  - intros (A & B & C). exists a. split; [apply in_seq; lia|]. unfold round_probes. apply in_map_iff. exists s. split; [reflexivity|].
    apply filter_In. auto.
Qed.

(* a service is probed in round a only if it is a service of the first round, a is within the retry limit, and it
   answered EVERY earlier round with a transient failure (so: never again after a definitive answer such as 404) *)
Theorem probed_only_while_transient retries order s a :
  In (s, a) (probe_seq ans retries order) ->
  a <= retries /\ In s order /\ forall b, b < a -> transient (ans s b) = true.
Proof.
  unfold probe_seq. destruct (upto200_prefix (flat_map (round_probes ans order) (seq 0 (S retries)))) as [k ->].
  intros H. apply firstn_In_local in H. apply in_all_rounds in H. destruct H as (A & B & C).
  split; [exact A|]. split; [exact B|]. apply eligible_iff. exact C.
Qed.

(* the probe sequence is a prefix of "round 0 in order, then round 1 in order, ..." (it stops after the first 200) *)
Theorem probe_seq_is_prefix_of_rounds retries order :
  exists k, probe_seq ans retries order = firstn k (flat_map (round_probes ans order) (seq 0 (S retries))).
Proof. apply upto200_prefix. Qed.

Lemma nodup_rounds order : NoDup order -> forall n r0, NoDup (flat_map (round_probes ans order) (seq r0 n)).
Proof.
  intros Hnd n. induction n as [|n IH]; intros r0; cbn [seq flat_map]; [constructor|].
  apply NoDup_app_local.
  - unfold round_probes. apply NoDup_map_pair. apply NoDup_filter. exact Hnd.
  - apply IH.
  - intros [s a] H1 H2. unfold round_probes in H1. apply in_map_iff in H1. destruct H1 as (x & [= -> ->] & _).
    apply in_flat_map in H2. destruct H2 as (r & Hr & Hin). apply in_seq in Hr. unfold round_probes in Hin.
    apply in_map_iff in Hin. destruct Hin as (y & [= _ E] & _). lia.
Qed.

(* each service at most once per round *)
Theorem probe_seq_nodup retries order : NoDup order -> NoDup (probe_seq ans retries order).
Proof.
  intros Hnd. destruct (probe_seq_is_prefix_of_rounds retries order) as [k ->]. apply NoDup_firstn_local. apply nodup_rounds. exact Hnd.
Qed.
End P.

(* ---- the boolean oracle of stage c12retry ---- *)
Lemma pairs_eqb_eq a : forall b, pairs_eqb a b = true <-> a = b.
Proof.
  induction a as [|[x1 x2] a IH]; intros [|[y1 y2] b]; cbn [pairs_eqb]; try (split; [discriminate|intros X; discriminate]).
  - split; reflexivity.
  - unfold pair_eqb. cbn [fst snd]. rewrite !andb_true_iff, !Nat.eqb_eq, IH. split.
    + intros [[-> ->] ->]. reflexivity.
    + intros [= -> -> ->]. auto.
Qed.

Lemma nodup_nat_iff l : nodup_nat l = true <-> NoDup l.
Proof.
  induction l as [|x l IH]; cbn [nodup_nat]; [split; [constructor|reflexivity]|].
  rewrite andb_true_iff, negb_true_iff, IH. split.
  - intros [A B]. constructor; [|exact B]. intros X. assert (existsb (Nat.eqb x) l = true); [|congruence].
    apply existsb_exists. exists x. split; [exact X|apply Nat.eqb_refl].
  - intros H. inversion H as [|? ? Hx Hl]; subst. split; [|exact Hl].
    destruct (existsb (Nat.eqb x) l) eqn:E; [|reflexivity]. apply existsb_exists in E. destruct E as (y & Hy & E).
    apply Nat.eqb_eq in E. subst. contradiction.
Qed.

Theorem retry_spec_b_reflects c :
  retry_spec_b c = true <-> (NoDup (r_order c) -> o_probes c = probe_seq (ans_of c) (r_retries c) (r_order c)).
Proof.
  unfold retry_spec_b. rewrite orb_true_iff, negb_true_iff, pairs_eqb_eq. split.
  - intros [H|H] Hnd; [apply nodup_nat_iff in Hnd; congruence|exact H].
  - intros H. destruct (nodup_nat (r_order c)) eqn:E; [right; apply H; apply nodup_nat_iff; exact E|left; reflexivity].
Qed.

(* the transcribed loop passes it, for every script, order, retry limit and locator other than the empty block's *)
Theorem retry_model_meets_spec retries loc order script :
  empty_block_loc loc = false ->
  let c0 := {| r_retries := retries; r_loc := loc; r_order := order; r_script := script; o_probes := [] |} in
  retry_spec_b {| r_retries := retries; r_loc := loc; r_order := order; r_script := script;
                  o_probes := g_log (get_or_head (ans_of c0) retries order loc) |} = true.
Proof.
  intros He c0. apply retry_spec_b_reflects. cbn [r_order o_probes r_retries]. intros _.
  change (ans_of {| r_retries := retries; r_loc := loc; r_order := order; r_script := script;
                    o_probes := g_log (get_or_head (ans_of c0) retries order loc) |}) with (ans_of c0).
  apply loop_log_is_probe_seq. exact He.
Qed.
