(* C06 (d) — a sweep whose view is incomplete asks no server to trash or pull anything. *)
From Coq Require Import List Arith Bool Lia.
From AV Require Import model.C06_model.
Import ListNotations.

Lemma phase_puts_zero ph p : In p (phase_puts ph) -> put_items p = 0.
Proof.
  unfold phase_puts. rewrite in_flat_map. intros (r & _ & H). destruct r; simpl in H; try contradiction.
  destruct H as [<-|[]]. reflexivity.
Qed.

Lemma run_pre_zero fails : forall phs p, In p (fst (run_pre fails phs)) -> put_items p = 0.
Proof.
  induction phs as [|ph r IH]; intros p H; simpl in H; [contradiction|].
  destruct (existsb fails ph); simpl in H; [eapply phase_puts_zero; eauto|].
  destruct (run_pre fails r) as [ps ok] eqn:E. simpl in *. apply in_app_or in H.
  destruct H as [H|H]; [eapply phase_puts_zero; eauto|apply IH; exact H].
Qed.

Lemma run_pre_fails fails : forall phs r, In r (concat phs) -> fails r = true -> snd (run_pre fails phs) = false.
Proof.
  induction phs as [|ph rest IH]; intros r Hin Hf; simpl in *; [contradiction|].
  destruct (existsb fails ph) eqn:E; [reflexivity|].
  apply in_app_or in Hin. destruct Hin as [Hin|Hin].
  - assert (existsb fails ph = true) by (apply existsb_exists; exists r; auto). congruence.
  - specialize (IH r Hin Hf). destruct (run_pre fails rest) as [ps ok]. simpl in *. exact IH.
Qed.

(* any request of the pre-commit phases (keep services, mounts, sanity checks, ClearTrashLists,
   discovery document, every index, every collection page/count) fails, or the late sanity check
   refuses the result => Run returns an error and every PUT /trash and PUT /pull sent had an empty list *)
Theorem sweep_aborts c fails :
  (exists r, In r (concat (pre_phases c)) /\ fails r = true) \/ s_sane c = false ->
  snd (sweep c fails) = false /\ forall p, In p (fst (sweep c fails)) -> put_items p = 0.
Proof.
  intros H. unfold sweep.
  pose proof (run_pre_zero fails (pre_phases c)) as Z.
  destruct (run_pre fails (pre_phases c)) as [pre ok] eqn:E. simpl in Z.
  destruct H as [(r & Hin & Hf)|Hs].
  - pose proof (run_pre_fails fails _ r Hin Hf) as F. rewrite E in F. simpl in F. subst ok. simpl. auto.
  - destruct ok; simpl; [|auto]. rewrite Hs. simpl. auto.
Qed.

(* a pull list cannot be delivered => no trash list is sent (the trash PUTs seen are the empty
   ClearTrashLists ones) *)
Theorem pull_failure_no_trash c fails s :
  s_commit_pulls c = true -> In s (s_services c) -> fails (QPull s) = true ->
  snd (sweep c fails) = false /\
  forall p, In p (fst (sweep c fails)) -> is_trash p = true -> put_items p = 0.
Proof.
  intros Hc Hs Hf. unfold sweep.
  pose proof (run_pre_zero fails (pre_phases c)) as Z.
  destruct (run_pre fails (pre_phases c)) as [pre ok] eqn:E. simpl in Z.
  destruct ok; simpl; [|split; [reflexivity|intros p Hp _; apply Z; exact Hp]].
  destruct (s_sane c); simpl; [|split; [reflexivity|intros p Hp _; apply Z; exact Hp]].
  rewrite Hc. simpl.
  assert (X : existsb (fun s0 => fails (QPull s0)) (s_services c) = true) by (apply existsb_exists; exists s; auto).
  rewrite X. split; [reflexivity|].
  intros p Hp Ht. apply in_app_or in Hp. destruct Hp as [Hp|Hp]; [apply Z; exact Hp|].
  apply in_map_iff in Hp. destruct Hp as (x & <- & _). discriminate.
Qed.

(* Run returns nil only if no request that was issued failed *)
Theorem sweep_ok_no_failure c fails :
  snd (sweep c fails) = true ->
  (forall r, In r (concat (pre_phases c)) -> fails r = false) /\ s_sane c = true.
Proof.
  intros H. split.
  - intros r Hin. destruct (fails r) eqn:F; [|reflexivity].
    destruct (sweep_aborts c fails (or_introl (ex_intro _ r (conj Hin F)))) as [X _]. congruence.
  - destruct (s_sane c) eqn:S; [reflexivity|].
    destruct (sweep_aborts c fails (or_intror S)) as [X _]. congruence.
Qed.

(* not vacuous: a complete sweep does send its non-empty lists *)
Example sweep_sends_lists :
  let c := {| s_services := [0; 1]; s_ks_pages := 1; s_indexed := [1; 2]; s_coll_reqs := 3; s_clear := true;
              s_commit_pulls := true; s_commit_trash := true; s_sane := true; s_plan := [(0, (2, 0)); (1, (0, 1))] |} in
  sweep c (fun _ => false) =
    ([PutTrash 0 0; PutTrash 1 0; PutPull 0 0; PutPull 1 1; PutTrash 0 2; PutTrash 1 0], true) /\
  fst (sweep c (fun r => req_eqb r (QIndex 2))) = [PutTrash 0 0; PutTrash 1 0].
Proof. vm_compute. auto. Qed.
