(* C14 / C15 — lemmas about the worker-pool state machine (model/C14_pool.v): what each operation does
   to the bookkeeping (starting / running uuids per worker), to the Unknown-ness of workers and to the
   `updated` stamps. *)
From Coq Require Import List ZArith Bool NArith Lia.
From AV Require Import model.C16_runq model.C14_pool proofs.C16_runq.
Import ListNotations.
Local Open Scope Z_scope.

(* ---------------- association-list plumbing ---------------- *)
Lemma find_w_id id ws w : find_w id ws = Some w -> w_id w = id.
Proof.
  induction ws as [|x r IH]; cbn [find_w]; [discriminate|].
  destruct (N.eqb (w_id x) id) eqn:E; [intros H; injection H as <-; apply N.eqb_eq; exact E|exact IH].
Qed.
Lemma find_w_in id ws w : find_w id ws = Some w -> In w ws.
Proof.
  induction ws as [|x r IH]; cbn [find_w]; [discriminate|].
  destruct (N.eqb (w_id x) id); [intros H; injection H as <-; left; reflexivity|intros H; right; auto].
Qed.
Lemma in_find w ws : In w ws -> exists w', find_w (w_id w) ws = Some w'.
Proof.
  induction ws as [|x r IH]; intros H; [destruct H|]. cbn [find_w].
  destruct (N.eqb (w_id x) (w_id w)) eqn:E; [eauto|]. destruct H as [->|H]; [rewrite N.eqb_refl in E; discriminate|auto].
Qed.
Lemma find_w_none id ws : find_w id ws = None <-> ~ In id (map w_id ws).
Proof.
  induction ws as [|x r IH]; cbn [find_w map]; [tauto|].
  destruct (N.eqb (w_id x) id) eqn:E.
  - apply N.eqb_eq in E. split; [discriminate|]. intros H. exfalso. apply H. left; exact E.
  - apply N.eqb_neq in E. rewrite IH. cbn [In]. tauto.
Qed.
Lemma find_put_eq id ws w0 w : find_w id ws = Some w0 -> w_id w = id -> find_w id (put_w w ws) = Some w.
Proof.
  induction ws as [|x r IH]; cbn [find_w put_w]; [discriminate|]. intros H Hid.
  destruct (N.eqb (w_id x) id) eqn:E.
  - rewrite Hid, E. cbn [find_w]. rewrite Hid, N.eqb_refl. reflexivity.
  - rewrite Hid, E. cbn [find_w]. rewrite E. apply IH; assumption.
Qed.
Lemma find_put_neq id ws w : id <> w_id w -> find_w id (put_w w ws) = find_w id ws.
Proof.
  intros Hn. induction ws as [|x r IH]; cbn [find_w put_w]; [reflexivity|].
  destruct (N.eqb (w_id x) (w_id w)) eqn:E; cbn [find_w].
  - apply N.eqb_eq in E. assert (N.eqb (w_id w) id = false) by (apply N.eqb_neq; auto).
    assert (N.eqb (w_id x) id = false) by (rewrite E; assumption). rewrite H, H0. reflexivity.
  - rewrite IH. reflexivity.
Qed.
Lemma put_w_ids w ws : map w_id (put_w w ws) = map w_id ws.
Proof.
  induction ws as [|x r IH]; cbn [put_w map]; [reflexivity|].
  destruct (N.eqb (w_id x) (w_id w)) eqn:E; cbn [map]; [apply N.eqb_eq in E; rewrite E; reflexivity|rewrite IH; reflexivity].
Qed.
Lemma in_put x w ws : In x (put_w w ws) -> x = w \/ In x ws.
Proof.
  induction ws as [|y r IH]; cbn [put_w]; [intros []|].
  destruct (N.eqb (w_id y) (w_id w)); cbn [In]; intros [<-|H]; auto. destruct (IH H); auto.
Qed.
Lemma find_app id a b : find_w id (a ++ b) = match find_w id a with Some w => Some w | None => find_w id b end.
Proof.
  induction a as [|x r IH]; cbn [app find_w]; [reflexivity|]. destruct (N.eqb (w_id x) id); [reflexivity|exact IH].
Qed.

(* ---------------- the view of a worker that the safety argument needs ---------------- *)
Definition sids (w : wkr) : list N := map ru (w_starting w).
Definition rids (w : wkr) : list N := map ru (w_running w).
Definition unk (w : wkr) : bool := wstate_eqb (w_st w) WUnknown.

(* w' differs from w at most in flags, state (not across Unknown), idle behaviour and stamps; a changed
   `updated` stamp is fresh (later than [clock]) *)
Definition wframe (clock : Z) (w w' : wkr) : Prop :=
  w_id w' = w_id w /\ sids w' = sids w /\ rids w' = rids w /\ unk w' = unk w /\
  (w_updated w' = w_updated w \/ clock < w_updated w').

Lemma wframe_refl c w : wframe c w w.
Proof. unfold wframe. intuition. Qed.

Lemma Forall2_refl_frame c ws : Forall2 (wframe c) ws ws.
Proof. induction ws; constructor; auto using wframe_refl. Qed.

Lemma frame_find c ws ws' id :
  Forall2 (wframe c) ws ws' ->
  match find_w id ws, find_w id ws' with
  | Some w, Some w' => wframe c w w'
  | None, None => True
  | _, _ => False
  end.
Proof.
  induction 1 as [|x y r r' Hxy Hr IH]; cbn [find_w]; [exact I|].
  destruct Hxy as (Hid & Hrest). rewrite Hid.
  destruct (N.eqb (w_id x) id); [|exact IH]. split; [exact Hid|exact Hrest].
Qed.

Lemma frame_put c ws w w' :
  find_w (w_id w) ws = Some w -> wframe c w w' -> Forall2 (wframe c) ws (put_w w' ws).
Proof.
  intros Hf Hfr. pose proof Hfr as (Hid & _).
  induction ws as [|x r IH]; cbn [find_w put_w] in *; [constructor|].
  rewrite Hid. destruct (N.eqb (w_id x) (w_id w)) eqn:E.
  - injection Hf as ->. constructor; [exact Hfr|apply Forall2_refl_frame].
  - constructor; [apply wframe_refl|apply IH; exact Hf].
Qed.

(* ---------------- single-worker operations ---------------- *)
Lemma mark_stop_ru u l : map ru (mark_stop u l) = map ru l.
Proof. unfold mark_stop. rewrite map_map. apply map_ext. intros r. destruct (N.eqb (ru r) u); reflexivity. Qed.
Lemma mark_given_ru u l : map ru (mark_given u l) = map ru l.
Proof. unfold mark_given. rewrite map_map. apply map_ext. intros r. destruct (N.eqb (ru r) u); reflexivity. Qed.

Lemma eligible_not_unknown c now w : eligible_shutdown c now w = true -> unk w = false.
Proof.
  unfold eligible_shutdown, unk. destruct (w_ib w); [|discriminate|]; destruct (w_st w); cbn; congruence.
Qed.

Lemma shutdown_if_idle_frame c w clock w' clock' b :
  shutdown_if_idle c w clock = (w', clock', b) ->
  wframe clock w w' /\ clock <= clock' /\ (w_updated w <= clock -> w_updated w' <= clock').
Proof.
  unfold shutdown_if_idle. destruct (eligible_shutdown c (clock + 1) w) eqn:E; intros H; injection H as <- <- <-.
  - split; [|split; [lia|cbn; lia]]. unfold wframe, sids, rids, unk. cbn.
    apply eligible_not_unknown in E. unfold unk in E. rewrite E. repeat split; auto. right; lia.
  - split; [apply wframe_refl|split; [lia|auto]].
Qed.

Lemma set_idle_behavior_frame c w b clock w' clock' :
  set_idle_behavior c w b clock = (w', clock') ->
  wframe clock w w' /\ clock <= clock' /\ (w_updated w <= clock -> w_updated w' <= clock').
Proof.
  unfold set_idle_behavior. destruct (shutdown_if_idle c (with_ib w b) clock) as [[w1 c1] b1] eqn:E.
  intros H; injection H as <- <-. apply shutdown_if_idle_frame in E. destruct E as [F [L U]].
  split; [|split; [exact L|exact U]]. destruct F as (A & B & C & D & G). unfold wframe. cbn in *. auto.
Qed.

(* ---------------- pools ---------------- *)
Definition stamps_ok (p : wpool) : Prop := forall w, In w (p_workers p) -> w_updated w <= p_clock p.

(* p' = p up to a frame change of every worker *)
Definition pframe (p p' : wpool) : Prop :=
  p_clock p <= p_clock p' /\ Forall2 (wframe (p_clock p)) (p_workers p) (p_workers p') /\
  (stamps_ok p -> stamps_ok p').

Lemma pframe_refl p : pframe p p.
Proof. split; [lia|]. split; [apply Forall2_refl_frame|auto]. Qed.

Lemma wframe_mono c c' w w' : c' <= c -> wframe c w w' -> wframe c' w w'.
Proof. intros L (A & B & C & D & [E|E]); unfold wframe; repeat split; auto. right; lia. Qed.

Lemma Forall2_frame_mono c c' ws ws' : c' <= c -> Forall2 (wframe c) ws ws' -> Forall2 (wframe c') ws ws'.
Proof. intros L H. induction H; constructor; eauto using wframe_mono. Qed.

Lemma wframe_trans c w1 w2 w3 : wframe c w1 w2 -> wframe c w2 w3 -> wframe c w1 w3.
Proof.
  intros (A & B & C & D & E) (A' & B' & C' & D' & E'). unfold wframe. repeat split; try congruence.
  destruct E' as [E'|E']; [|right; exact E']. destruct E as [E|E]; [left; congruence|right; lia].
Qed.
Lemma Forall2_frame_trans c l1 : forall l2 l3, Forall2 (wframe c) l1 l2 -> Forall2 (wframe c) l2 l3 -> Forall2 (wframe c) l1 l3.
Proof.
  induction l1 as [|x r IH]; intros l2 l3 H1 H2; inversion H1; subst; inversion H2; subst; constructor.
  - eapply wframe_trans; eauto.
  - eapply IH; eauto.
Qed.
Lemma pframe_trans p1 p2 p3 : pframe p1 p2 -> pframe p2 p3 -> pframe p1 p3.
Proof.
  intros (L1 & F1 & S1) (L2 & F2 & S2). split; [lia|]. split; [|auto].
  eapply Forall2_frame_trans; [exact F1|]. eapply Forall2_frame_mono; [exact L1|exact F2].
Qed.

Lemma tick_frame p : pframe p (snd (tick p)).
Proof.
  unfold tick. cbn [snd]. split; [cbn; lia|]. split; [apply Forall2_refl_frame|].
  intros S w Hw. cbn in *. specialize (S w Hw). lia.
Qed.

(* replacing one worker by a frame-equal one *)
Lemma put_frame p w w' clock' :
  find_w (w_id w) (p_workers p) = Some w -> wframe (p_clock p) w w' -> p_clock p <= clock' ->
  (w_updated w <= p_clock p -> w_updated w' <= clock') ->
  pframe p (mkp (put_w w' (p_workers p)) (p_exited p) clock' (p_quota p) (p_loaded p)).
Proof.
  intros Hf Hfr Hc Hu. split; [exact Hc|]. split; [exact (frame_put _ _ w w' Hf Hfr)|].
  intros S x Hx. cbn [p_workers p_clock] in *. apply in_put in Hx. destruct Hx as [->|Hx].
  - apply Hu. apply S. eapply find_w_in; eauto.
  - specialize (S x Hx). lia.
Qed.

Lemma kill_in_frame c u ws b ws' : kill_in u ws = (b, ws') -> Forall2 (wframe c) ws ws'.
Proof.
  revert b ws'. induction ws as [|w r IH]; intros b ws'; cbn [kill_in].
  - intros H; injection H as <- <-. constructor.
  - destruct (has_run u (w_running w)).
    + intros H; injection H as <- <-. constructor; [|apply Forall2_refl_frame].
      unfold wframe, sids, rids, unk; cbn; rewrite ?mark_stop_ru; intuition.
    + destruct (has_run u (w_starting w)).
      * intros H; injection H as <- <-. constructor; [|apply Forall2_refl_frame].
        unfold wframe, sids, rids, unk; cbn; rewrite ?mark_stop_ru; intuition.
      * destruct (kill_in u r) as [b0 r0] eqn:E. intros H; injection H as <- <-.
        constructor; [apply wframe_refl|eapply IH; reflexivity].
Qed.
Lemma kill_in_stamps u ws b ws' : kill_in u ws = (b, ws') -> forall x, In x ws' -> exists y, In y ws /\ w_updated x = w_updated y.
Proof.
  revert b ws'. induction ws as [|w r IH]; intros b ws'; cbn [kill_in].
  - intros H; injection H as <- <-. intros x [].
  - destruct (has_run u (w_running w)).
    + intros H; injection H as <- <-. intros x [<-|Hx]; [exists w; split; [left; reflexivity|reflexivity]|exists x; split; [right; exact Hx|reflexivity]].
    + destruct (has_run u (w_starting w)).
      * intros H; injection H as <- <-. intros x [<-|Hx]; [exists w; split; [left; reflexivity|reflexivity]|exists x; split; [right; exact Hx|reflexivity]].
      * destruct (kill_in u r) as [b0 r0] eqn:E. intros H; injection H as <- <-.
        intros x [<-|Hx]; [exists w; split; [left; reflexivity|reflexivity]|].
        destruct (IH _ _ eq_refl x Hx) as (y & Hy & Ey). exists y. split; [right; exact Hy|exact Ey].
Qed.
Lemma pool_kill_frame u p : pframe p (snd (pool_kill u p)).
Proof.
  unfold pool_kill. destruct (kill_in u (p_workers p)) as [b ws] eqn:E. cbn [snd].
  split; [cbn; lia|]. split; [cbn; eapply kill_in_frame; eauto|].
  intros S x Hx. cbn in *. destruct (kill_in_stamps _ _ _ _ E x Hx) as (y & Hy & ->). apply S. exact Hy.
Qed.

Lemma pool_forget_frame u p : pframe p (pool_forget u p).
Proof.
  unfold pool_forget, set_exited. split; [cbn; lia|]. split; [cbn; apply Forall2_refl_frame|]. intros S; exact S.
Qed.

Lemma give_up_frame c id u p : pframe p (give_up c id u p).
Proof.
  unfold give_up. destruct (find_w id (p_workers p)) as [w|] eqn:Ef; [|apply pframe_refl].
  pose proof (find_w_id _ _ _ Ef) as Hid.
  set (w1 := with_runs w (mark_given u (w_starting w)) (mark_given u (w_running w))).
  assert (F1 : wframe (p_clock p) w w1).
  { unfold wframe, sids, rids, unk, w1; cbn; rewrite !mark_given_ru; intuition. }
  destruct (w_ib w1) eqn:Eib.
  - destruct (set_idle_behavior c w1 IDrain (p_clock p)) as [w2 clock] eqn:E.
    apply set_idle_behavior_frame in E. destruct E as [F2 [L U]].
    rewrite <- Hid in Ef. apply (put_frame p w w2 clock Ef); [eapply wframe_trans; eauto|exact L|exact U].
  - rewrite <- Hid in Ef. unfold set_workers.
    replace (p_clock p) with (p_clock p) by reflexivity.
    apply (put_frame p w w1 (p_clock p) Ef F1); [lia|cbn; auto].
  - destruct (set_idle_behavior c w1 IDrain (p_clock p)) as [w2 clock] eqn:E.
    apply set_idle_behavior_frame in E. destruct E as [F2 [L U]].
    rewrite <- Hid in Ef. apply (put_frame p w w2 clock Ef); [eapply wframe_trans; eauto|exact L|exact U].
Qed.

Lemma pool_set_ib_frame c id b p : pframe p (pool_set_ib c id b p).
Proof.
  unfold pool_set_ib. destruct (find_w id (p_workers p)) as [w|] eqn:Ef; [|apply pframe_refl].
  pose proof (find_w_id _ _ _ Ef) as Hid.
  destruct (set_idle_behavior c w b (p_clock p)) as [w2 clock] eqn:E.
  apply set_idle_behavior_frame in E. destruct E as [F2 [L U]].
  rewrite <- Hid in Ef. apply (put_frame p w w2 clock Ef F2 L U).
Qed.

Lemma w_shutdown_frame clock w : unk w = false -> wframe clock w (w_shutdown (clock + 1) w).
Proof.
  intros Hu. unfold wframe, sids, rids, unk in *. cbn. rewrite Hu. repeat split; auto. right; lia.
Qed.

Lemma shut_ok_known it st w : st <> WUnknown -> shut_ok it st w = true -> unk w = false.
Proof.
  unfold shut_ok, unk. rewrite !andb_true_iff. intros Hst [[_ Hs] _].
  destruct (w_st w), st; cbn in *; congruence.
Qed.

Lemma pool_shutdown_frame it ch p : pframe p (snd (pool_shutdown it ch p)).
Proof.
  unfold pool_shutdown. destruct (shutdown_candidates it p); [apply pframe_refl|].
  destruct (find_w ch (p_workers p)) as [w|] eqn:Ef; [|apply pframe_refl].
  set (want := match filter (shut_ok it WBooting) (p_workers p) with [] => WIdle | _ => WBooting end).
  destruct (shut_ok it want w) eqn:Eok; [|apply pframe_refl].
  assert (Hu : unk w = false).
  { apply (shut_ok_known it want w); [|exact Eok]. unfold want. destruct (filter _ _); discriminate. }
  cbn [tick snd set_workers p_workers p_exited p_clock p_quota p_loaded].
  pose proof (find_w_id _ _ _ Ef) as Hid. rewrite <- Hid in Ef.
  apply (put_frame p w (w_shutdown (p_clock p + 1) w) (p_clock p + 1) Ef (w_shutdown_frame _ _ Hu)); [lia|cbn; lia].
Qed.

Lemma sweep_idle_frame c c0 ws : forall clock ws' clock',
  c0 <= clock -> sweep_idle c ws clock = (ws', clock') ->
  Forall2 (wframe c0) ws ws' /\ clock <= clock' /\
  ((forall w, In w ws -> w_updated w <= clock) -> forall w, In w ws' -> w_updated w <= clock').
Proof.
  induction ws as [|w r IH]; intros clock ws' clock' Hc; cbn [sweep_idle].
  - intros H; injection H as <- <-. split; [constructor|]. split; [lia|]. intros _ w [].
  - destruct (wstate_eqb (w_st w) WShutdown).
    + destruct (sweep_idle c r clock) as [r' k] eqn:E. intros H; injection H as <- <-.
      destruct (IH _ _ _ Hc E) as (F & L & U). split; [constructor; [apply wframe_refl|exact F]|]. split; [exact L|].
      intros S x [<-|Hx]; [specialize (S w (or_introl eq_refl)); lia|apply U; [intros y Hy; apply S; right; exact Hy|exact Hx]].
    + destruct (shutdown_if_idle c w clock) as [[w1 c1] b1] eqn:E1.
      destruct (sweep_idle c r c1) as [r' k] eqn:E. intros H; injection H as <- <-.
      apply shutdown_if_idle_frame in E1. destruct E1 as (F1 & L1 & U1).
      assert (Hc1 : c0 <= c1) by lia.
      destruct (IH _ _ _ Hc1 E) as (F & L & U). split; [constructor; [eapply wframe_mono; [exact Hc|exact F1]|exact F]|].
      split; [lia|]. intros S x [<-|Hx].
      * specialize (U1 (S w (or_introl eq_refl))). lia.
      * apply U; [intros y Hy; specialize (S y (or_intror Hy)); lia|exact Hx].
Qed.
Lemma pool_sweep_frame c p : pframe p (pool_sweep c p).
Proof.
  unfold pool_sweep. destruct (sweep_idle c (p_workers p) (p_clock p)) as [ws clock] eqn:E.
  destruct (sweep_idle_frame c (p_clock p) _ _ _ _ (Z.le_refl _) E) as (F & L & U).
  split; [exact L|]. split; [exact F|]. intros S. exact (U S).
Qed.
