(* C11 — the service set used by the Put model (model/C11_model.v: loaded / writable_ids /
   replicas_per_service over list items identified by their index) is the one the shared discovery model
   (model/KC_discover.v: loadKeepServers with its uuid-keyed maps) installs. *)
From Coq Require Import Arith NArith List Ascii String Bool Lia.
From AV Require Import lib.Str model.KC_discover model.C11_model model.C11_run proofs.KC_discover_proofs proofs.C11_proofs proofs.C11_spec.
Import ListNotations.
Local Open Scope nat_scope.

Lemma svc_url_k_of s : svc_url (k_of s) = d_url s.
Proof. reflexivity. Qed.

Lemma load_from_kept l : forall i0 listed,
  map snd (load_from i0 listed (map k_of l)) = map k_of (kept_from listed l).
Proof.
  induction l as [|a l IH]; intros i0 listed; cbn [map load_from kept_from]; [reflexivity|].
  rewrite svc_url_k_of. destruct (existsb (String.eqb (d_url a)) listed); [apply IH|].
  cbn [map snd]. rewrite IH. reflexivity.
Qed.

Lemma load_from_in_kept l : forall i0 listed x k,
  In (x, k) (load_from i0 listed (map k_of l)) ->
  exists s, i0 <= x /\ nth_error l (x - i0) = Some s /\ In s (kept_from listed l) /\ k = k_of s.
Proof.
  induction l as [|a l IH]; intros i0 listed x k H; cbn [map load_from kept_from] in *; [destruct H|].
  rewrite svc_url_k_of in H. destruct (existsb (String.eqb (d_url a)) listed).
  - destruct (IH _ _ _ _ H) as (s & A & B & C & E). exists s. split; [lia|]. split; [|auto].
    replace (x - i0) with (S (x - S i0)) by lia. exact B.
  - destruct H as [H|H].
    + injection H as <- <-. exists a. rewrite Nat.sub_diag. cbn. auto.
    + destruct (IH _ _ _ _ H) as (s & A & B & C & E). exists s. split; [lia|]. split; [|split; [right; exact C|exact E]].
      replace (x - i0) with (S (x - S i0)) by lia. exact B.
Qed.

Lemma nodup_map_inj {A B} (f : A -> B) l a b : NoDup (map f l) -> In a l -> In b l -> f a = f b -> a = b.
Proof.
  induction l as [|x l IH]; cbn [map In]; [intros _ []|]. intros Hnd Ha Hb E. inversion Hnd as [|? ? Hx Hnd']; subst.
  destruct Ha as [<-|Ha], Hb as [<-|Hb]; [reflexivity| | |apply IH; assumption].
  - exfalso. apply Hx. rewrite E. apply in_map. exact Hb.
  - exfalso. apply Hx. rewrite <- E. apply in_map. exact Ha.
Qed.

Lemma kept_in_load_from l : forall i0 listed j s,
  NoDup (map d_uuid l) -> nth_error l j = Some s -> In s (kept_from listed l) ->
  In (i0 + j, k_of s) (load_from i0 listed (map k_of l)).
Proof.
  induction l as [|a l IH]; intros i0 listed j s Hnd Hj Hk; cbn [map load_from kept_from] in *; [destruct Hk|].
  cbn [map] in Hnd. inversion Hnd as [|? ? Ha Hnd']; subst. rewrite svc_url_k_of.
  assert (Hne : forall t, In t l -> t <> a).
  { intros t Ht ->. apply Ha. apply in_map. exact Ht. }
  destruct (existsb (String.eqb (d_url a)) listed).
  - destruct j as [|j]; cbn [nth_error] in Hj.
    + injection Hj as <-. exfalso. apply (Hne a); [eapply kept_from_in; exact Hk|reflexivity].
    + replace (i0 + S j) with (S i0 + j) by lia. apply IH; assumption.
  - destruct j as [|j]; cbn [nth_error] in Hj.
    + injection Hj as <-. left. rewrite Nat.add_0_r. reflexivity.
    + right. replace (i0 + S j) with (S i0 + j) by lia. apply IH; [exact Hnd'|exact Hj|].
      destruct Hk as [<-|Hk]; [|exact Hk]. exfalso. apply (Hne a); [eapply nth_error_In; exact Hj|reflexivity].
Qed.

(* the indices the Put model may write to are exactly the items whose (uuid, url) is a writable root of the
   discovery model, i.e. the listed (first per URL) items that are not read-only *)
Theorem writable_ids_discovered l : NoDup (map d_uuid l) ->
  forall x, In x (writable_ids (map k_of l)) <->
            exists s, nth_error l x = Some s /\ In (root_entry s) (r_writable (load_roots l)).
Proof.
  intros Hnd x. unfold writable_ids, loaded. rewrite in_map_iff. split.
  - intros ([x' k] & <- & H). apply filter_In in H. destruct H as [H R]. cbn [fst snd] in *.
    destruct (load_from_in_kept _ _ _ _ _ H) as (s & _ & Hn & Hk & ->). rewrite Nat.sub_0_r in Hn.
    exists s. split; [exact Hn|]. unfold root_entry. apply (writable_roots_exactly l Hnd).
    exists s. cbn [k_of k_ro] in R. apply negb_true_iff in R. auto.
  - intros (s & Hn & Hw). unfold root_entry in Hw. apply (writable_roots_exactly l Hnd) in Hw.
    destruct Hw as (s' & Hk & Hr & Eu & _).
    assert (s' = s).
    { apply (nodup_map_inj d_uuid l); [exact Hnd|eapply kept_from_in; exact Hk|eapply nth_error_In; exact Hn|exact Eu]. }
    subst s'. exists (x, k_of s). split; [reflexivity|]. apply filter_In. split.
    + apply (kept_in_load_from l 0 [] x s Hnd Hn Hk).
    + cbn [snd k_of k_ro]. rewrite Hr. reflexivity.
Qed.

Lemma forallb_map {A B} (f : A -> B) p l : forallb p (map f l) = forallb (fun x => p (f x)) l.
Proof. induction l as [|x l IH]; cbn [map forallb]; [reflexivity|rewrite IH; reflexivity]. Qed.

(* replicasPerService of the Put model is the flag of the discovery model *)
Theorem replicas_per_service_discovered l : replicas_per_service (map k_of l) = r_rps (load_roots l).
Proof.
  unfold replicas_per_service, loaded. rewrite load_roots_rps.
  replace (forallb (fun p => k_ro (snd p) || String.eqb (k_type (snd p)) "disk") (load_from 0 [] (map k_of l)))
    with (forallb (fun k => k_ro k || String.eqb (k_type k) "disk") (map snd (load_from 0 [] (map k_of l))))
    by (rewrite forallb_map; reflexivity).
  rewrite load_from_kept, forallb_map. reflexivity.
Qed.

(* a client that was given lists ls (non-empty) uses, for its next Put, the service set of the LAST list: the
   model of the Put takes [i_svcs] = that list, and the discovery model's state after all the loads is the state
   after loading that list alone *)
Theorem put_uses_current_list (i : cin) : i_lists i <> [] ->
  k_roots (load_all kstate0 (i_lists i)) = load_roots (current_list (i_lists i)) /\
  g_svcs (gin_of i) = map k_of (current_list (i_lists i)).
Proof. intros Hne. split; [apply load_all_current; exact Hne|reflexivity]. Qed.
