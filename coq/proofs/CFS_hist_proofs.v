(* Whole event histories of the background-write model: whatever flushes, saves, completions and
   Keep failures are interleaved, the foreground observations are those of the plain byte-array
   filesystem, and every stored segment refers to a block that was written with exactly its bytes. *)
From Coq Require Import List Arith Lia Bool String.
Import ListNotations.
From AV Require Import lib.Str lib.Path model.CFS_file model.CFS_tree model.CFS_inst model.C08_run model.CFS_bg model.CFS_run
  proofs.CFS_file_proofs proofs.CFS_refine proofs.CFS_prov proofs.CFS_tree_proofs proofs.CFS_bg_proofs.

Section Hist.
Variable mb : nat.
Hypothesis Hmb : 1 <= mb.
Notation C := (Conc mb).

Lemma complete_data_quiet st d : BInv mb st -> quiet mb st (complete_data mb st d).
Proof.
  intros HB. unfold complete_data.
  assert (H : forall l s, BInv mb s -> quiet mb s (fold_left (fun s q => if bytes_eqb (q_data q) d then complete mb s (q_id q) else s) l s)).
  { induction l as [|q l IH]; intros s Hs; cbn [fold_left]; [apply quiet_refl; exact Hs|].
    destruct (bytes_eqb (q_data q) d).
    - destruct (complete_ok mb Hmb s (q_id q) Hs) as [A B]. eapply quiet_trans; [split; [exact A|exact B]|]. apply IH. exact B.
    - apply IH. exact Hs. }
  apply H. exact HB.
Qed.

(* the foreground meaning of an event: an operation of the plain filesystem, or nothing *)
Definition spec_effect (e : ev) (o : out) (t t' : fs Spec) : Prop :=
  match e with
  | EOp op _ => exists v, o = OObs v /\ step Spec t op = (t', v)
  | _ => t' = t
  end.

Theorem bexec_ok tab st e : BInv mb st ->
  let '(st', o) := bexec mb tab st e in
  BInv mb st' /\ spec_effect e o (abs mb (fsys mb st)) (abs mb (fsys mb st')).
Proof.
  intros HB. destruct e as [o v|p sh v|v|d|m]; cbn [bexec spec_effect].
  - destruct o as [nm fl|hh nn|hh data|hh oo ng wh|hh sz|hh|hh|nm|pa pb|nm|nm];
      try (match goal with |- context [step C (fsys mb st) ?op] =>
             pose proof (fg_step_ok mb Hmb st op HB) as H; destruct (step C (fsys mb st) op) as [s' v'];
             destruct H as [H1 H2]; split; [exact H2|exists v'; split; [reflexivity|exact H1]] end).
    (* Write goes through the pruning variant *)
    pose proof (b_write_sim mb Hmb st hh data HB) as H. unfold step.
    destruct (b_write mb st hh data) as [st' [n|x]]; destruct H as [H1 H2]; (split; [exact H2|]); rewrite H1; eauto.
  - pose proof (b_flush_quiet mb Hmb st p sh HB) as [A B].
    destruct (b_flush mb st p sh) as [st' [u|x]]; cbn [fst] in *; auto.
  - pose proof (b_marshal_quiet mb Hmb tab st HB) as [A B].
    destruct (b_marshal mb tab st) as [st' [t|x]]; cbn [fst] in *; auto.
  - destruct (complete_data_quiet st d HB) as [A B]. auto.
  - split; [|reflexivity]. destruct HB as (G & T & P & S0). split; [exact G|]. split; [|split]; [exact T|exact P|exact S0].
Qed.

(* observations of the foreground operations, as the model produces them along a history *)
Fixpoint bouts (tab : list (list byte * string)) (st : bst mb) (es : list ev) : list obs :=
  match es with
  | [] => []
  | e :: r => let '(st', o) := bexec mb tab st e in
              match e, o with EOp _ _, OObs v => v :: bouts tab st' r | _, _ => bouts tab st' r end
  end.
Definition fg_ops (es : list ev) : list op := flat_map (fun e => match e with EOp o _ => [o] | _ => [] end) es.

Theorem bg_history_refines tab es : forall st, BInv mb st ->
  bouts tab st es = run Spec (abs mb (fsys mb st)) (fg_ops es).
Proof.
  induction es as [|e r IH]; intros st HB; cbn [bouts fg_ops flat_map]; [reflexivity|].
  pose proof (bexec_ok tab st e HB) as H. destruct (bexec mb tab st e) as [st' o]. destruct H as [HB' Hsp].
  destruct e as [op v|p sh v|v|d|m]; cbn [spec_effect] in Hsp.
  - destruct Hsp as (v0 & -> & Hst). cbn [app run]. rewrite Hst. f_equal. apply IH. exact HB'.
  - cbn [app]. rewrite <- Hsp. destruct o; apply IH; exact HB'.
  - cbn [app]. rewrite <- Hsp. destruct o; apply IH; exact HB'.
  - cbn [app]. rewrite <- Hsp. destruct o; apply IH; exact HB'.
  - cbn [app]. rewrite <- Hsp. destruct o; apply IH; exact HB'.
Qed.

(* the invariant along a history; in particular StoOK: every stored segment anywhere denotes a slice of
   a block that a successful Keep write (or the initial manifest) supplied with exactly those bytes *)
Fixpoint bfinal (tab : list (list byte * string)) (st : bst mb) (es : list ev) : bst mb :=
  match es with [] => st | e :: r => bfinal tab (fst (bexec mb tab st e)) r end.
Theorem bg_history_invariant tab es : forall st, BInv mb st -> BInv mb (bfinal tab st es).
Proof.
  induction es as [|e r IH]; intros st HB; cbn [bfinal]; [exact HB|].
  pose proof (bexec_ok tab st e HB) as H. destruct (bexec mb tab st e) as [st' o]. cbn [fst]. apply IH. apply H.
Qed.

Lemma BInv_init tab : BInv mb (binit mb tab (fs_init C)).
Proof.
  split; [apply (Good_init mb Hmb)|]. split; [|split].
  - intros id b t Hin. unfold file_segs, binit, fs_init, get_ino in Hin. cbn in Hin. destruct id as [|[|id]]; cbn in Hin; contradiction.
  - intros q r [].
  - intros id b loc bsz boff Hin. unfold file_segs, binit, fs_init, get_ino in Hin. cbn in Hin. destruct id as [|[|id]]; cbn in Hin; contradiction.
Qed.

End Hist.
