(* C18: the model satisfies the boolean specification with which the evaluator (model/C18_run.v) judges the
   implementation, for every request, every set of answers and every arrival order. *)
From Coq Require Import NArith List Ascii String Bool Lia Arith.
From AV Require Import lib.Str lib.Md5 lib.TokSplit lib.ManifestTok model.C18_model model.C18_run proofs.C18_scan.
Import ListNotations.
Local Open Scope string_scope.

Lemma remote_ok_model r m : remote_ok r m (rewrite_manifest m r) = true.
Proof.
  unfold remote_ok. destruct (parse m) as [ss|] eqn:P; [|reflexivity]. destruct (parse_sound m ss P) as [W E].
  rewrite <- E at 1. rewrite (rw_valid r ss W). apply String.eqb_refl.
Qed.
Lemma relayed_ok_model r m : relayed_ok r m (if r =? "" then m else rewrite_manifest m r) = true.
Proof. unfold relayed_ok. destruct (r =? ""); [apply String.eqb_refl|apply remote_ok_model]. Qed.

Lemma try1_cases r a :
  (exists m, a = JCol m true /\ try1 r a = ROk (if r =? "" then m else rewrite_manifest m r)) \/
  (accepting a = false /\ exists c, try1 r a = RErr c /\ (N.eqb c 404 = C18_run.is404 a)).
Proof.
  destruct a as [m [|]|c|]; cbn [try1 accepting C18_run.is404].
  - left. exists m. auto.
  - right. split; [reflexivity|]. exists 502%N. auto.
  - right. split; [reflexivity|]. exists c. auto.
  - right. split; [reflexivity|]. exists 500%N. auto.
Qed.

Lemma first_ok_spec ja : forall b,
  match first_ok ja b with
  | ROk m' => existsb (explains m') ja = true
  | RErr c => existsb (fun ra => accepting (snd ra)) ja = false /\
              c = (if b && forallb (fun ra => C18_run.is404 (snd ra)) ja then 404 else 502)%N
  end.
Proof.
  induction ja as [|[r a] ja IH]; intros b; cbn [first_ok existsb forallb fst snd].
  - rewrite andb_true_r. destruct b; auto.
  - destruct (try1_cases r a) as [(m & -> & T)|(A & c & T & E)]; rewrite T.
    + unfold explains at 1. cbn [fst snd]. rewrite relayed_ok_model. reflexivity.
    + specialize (IH (b && N.eqb c 404)). destruct (first_ok ja (b && N.eqb c 404)) as [m'|c'].
      * rewrite IH. apply orb_true_r.
      * destruct IH as [I1 I2]. rewrite A, I1. split; [reflexivity|]. rewrite I2, E.
        rewrite <- andb_assoc. reflexivity.
Qed.

Theorem model_meets_spec_get fwd jl ja : spec_get fwd jl ja (collection_get_j fwd jl ja) = true.
Proof.
  unfold collection_get_j. destruct (try1_cases "" jl) as [(m & -> & T)|(A & c & T & E)]; rewrite T.
  - cbn [spec_get existsb]. unfold explains at 1. cbn [fst snd]. rewrite (relayed_ok_model "" m). reflexivity.
  - destruct (negb (N.eqb c 404) || negb (fwd =? "")) eqn:D.
    + cbn [spec_get]. rewrite A. cbn [negb andb]. rewrite <- E.
      destruct (N.eqb c 404); cbn in *; [|reflexivity]. rewrite D. reflexivity.
    + apply orb_false_iff in D. destruct D as [D1 D2]. apply negb_false_iff in D1. apply negb_false_iff in D2.
      pose proof (first_ok_spec ja true) as S. destruct (first_ok ja true) as [m'|c'].
      * cbn [spec_get existsb]. rewrite S. apply orb_true_r.
      * destruct S as [S1 S2]. cbn [spec_get]. rewrite A, <- E, D1, D2, S1, S2. cbn. apply N.eqb_refl.
Qed.
Theorem model_meets_spec req fwd local arrivals :
  spec_get fwd (judge req local) (jarr req arrivals) (collection_get_pdh req fwd local arrivals) = true.
Proof. apply model_meets_spec_get. Qed.

Theorem model_meets_spec_uuid lid uuid a : spec_uuid lid uuid a (collection_get_uuid lid uuid a) = true.
Proof.
  destruct a as [m|c|]; cbn [collection_get_uuid spec_uuid]; try reflexivity.
  destruct (take 5 uuid =? lid); [apply String.eqb_refl|apply remote_ok_model].
Qed.
Theorem model_meets_spec_rw m r : remote_ok r m (rewrite_manifest m r) = true.
Proof. apply remote_ok_model. Qed.
