(* Background writes never change what readers see (C13) and stored references always denote the
   bytes of a block that was really written (C09): invariants of the CFS_bg model. *)
From Coq Require Import List Arith Lia Bool String.
Import ListNotations.
From AV Require Import lib.Str lib.Path model.CFS_file model.CFS_tree model.CFS_inst model.CFS_bg
  proofs.CFS_file_proofs proofs.CFS_refine proofs.CFS_prov proofs.CFS_tree_proofs.
Notation length := List.length.

(* ---------- segments with the same bytes ---------- *)
Definition same_bytes (fn' fn : fnode) : Prop :=
  map sbytes (segs fn') = map sbytes (segs fn) /\ size fn' = size fn /\ repacked fn' = repacked fn.

Lemma flat_map_map_sbytes l : flat_map sbytes l = List.concat (map sbytes l).
Proof. induction l as [|s l IH]; cbn; [reflexivity|]. rewrite IH. reflexivity. Qed.
Lemma map_slen_sbytes l : map slen l = map (@List.length byte) (map sbytes l).
Proof. rewrite map_map. reflexivity. Qed.

Lemma same_bytes_content fn' fn : same_bytes fn' fn -> content fn' = content fn.
Proof. intros (H & _). unfold content. rewrite !flat_map_map_sbytes, H. reflexivity. Qed.
Lemma same_bytes_slen fn' fn : same_bytes fn' fn -> map slen (segs fn') = map slen (segs fn).
Proof. intros (H & _). rewrite !map_slen_sbytes, H. reflexivity. Qed.
Lemma same_bytes_WF fn' fn : same_bytes fn' fn -> WF fn -> WF fn'.
Proof.
  intros Hs [H1 H2]. pose proof Hs as (Hm & Hsz & _). split.
  - rewrite Hsz, H1, (same_bytes_content _ _ Hs). reflexivity.
  - pose proof (same_bytes_slen _ _ Hs) as Hl.
    rewrite Forall_forall in *. intros s Hin.
    assert (In (slen s) (map slen (segs fn'))) by (apply in_map; exact Hin).
    rewrite Hl in H. apply in_map_iff in H. destruct H as (s0 & E & Hin0). rewrite <- E. apply H2; exact Hin0.
Qed.
Lemma same_bytes_valid fn' fn p : same_bytes fn' fn -> valid fn p -> valid fn' p.
Proof. intros Hs. apply valid_same_lengths. apply same_bytes_slen. exact Hs. Qed.
Lemma same_bytes_refl fn : same_bytes fn fn.
Proof. repeat split. Qed.
Lemma same_bytes_hok fn' fn q : same_bytes fn' fn -> hok fn q -> hok fn' q.
Proof.
  intros Hs. pose proof Hs as (_ & Hsz & Hr). unfold hok. destruct (rep q) as [r|]; [|auto].
  rewrite Hr, Hsz. intros [A B]. split; [exact A|]. intros E Hle. eapply same_bytes_valid; [exact Hs|]. apply B; assumption.
Qed.

Section BGP.
Variable mb : nat.
Hypothesis Hmb : 1 <= mb.
Notation C := (Conc mb).

(* ---------- pruneMemSegments ---------- *)
Lemma prune_segs_bytes fid : forall l idx st, map sbytes (fst (prune_segs mb fid idx l st)) = map sbytes l.
Proof.
  induction l as [|s l IH]; intros idx st; cbn [prune_segs]; [reflexivity|].
  destruct s as [b [t|]|b loc bsz boff].
  - specialize (IH (S idx) st). destruct (prune_segs mb fid (S idx) l st). cbn in *. rewrite IH. reflexivity.
  - destruct (mb <=? length b).
    + match goal with |- context [prune_segs mb fid (S idx) l ?s1] => specialize (IH (S idx) s1); destruct (prune_segs mb fid (S idx) l s1) end.
      cbn in *. rewrite IH. reflexivity.
    + specialize (IH (S idx) st). destruct (prune_segs mb fid (S idx) l st). cbn in *. rewrite IH. reflexivity.
  - specialize (IH (S idx) st). destruct (prune_segs mb fid (S idx) l st). cbn in *. rewrite IH. reflexivity.
Qed.
Lemma prune_same fid fn st : same_bytes (fst (prune mb fid fn st)) fn.
Proof.
  unfold prune. pose proof (prune_segs_bytes fid (segs fn) 0 st) as H.
  destruct (prune_segs mb fid 0 (segs fn) st) as [l st']. cbn in *. repeat split. exact H.
Qed.

(* what prune does to the bookkeeping: the filesystem, the blocks and the mode are untouched,
   pending writes are only added, tokens only grow *)
Definition ext (st st' : bst mb) : Prop :=
  fsys mb st' = fsys mb st /\ blocks mb st' = blocks mb st /\ mode mb st' = mode mb st /\
  ntok mb st <= ntok mb st' /\
  (exists added, pends mb st' = pends mb st ++ added /\
     forall q r, In q added -> In r (q_refs q) -> ntok mb st <= r_tok r < ntok mb st').
Lemma ext_refl st : ext st st.
Proof. repeat split; try lia. exists []. rewrite app_nil_r. split; [reflexivity|]. intros ? ? []. Qed.
Lemma ext_trans a b c : ext a b -> ext b c -> ext a c.
Proof.
  intros (A1 & A2 & A3 & A4 & (x & A5 & A6)) (B1 & B2 & B3 & B4 & (y & B5 & B6)).
  repeat split; try congruence; try lia.
  exists (x ++ y). split; [rewrite B5, A5, app_assoc; reflexivity|].
  intros q r Hq Hr. apply in_app_or in Hq. destruct Hq as [Hq|Hq].
  - specialize (A6 q r Hq Hr). lia.
  - specialize (B6 q r Hq Hr). lia.
Qed.

(* token discipline of one file against a bookkeeping state *)
Definition TokLocal (st : bst mb) (l : list seg) : Prop :=
  forall b t, In (Mem b (Some t)) l ->
    t < ntok mb st /\
    forall q r, In q (pends mb st) -> In r (q_refs q) -> r_tok r = t -> is_slice b (r_boff r) (q_data q).
Definition PendFresh (st : bst mb) : Prop :=
  forall q r, In q (pends mb st) -> In r (q_refs q) -> r_tok r < ntok mb st.
Definition StoLocal (blks : list (list byte)) (l : list seg) : Prop :=
  forall b loc bsz boff, In (Sto b loc bsz boff) l ->
    exists blk, nth_error blks loc = Some blk /\ length blk = bsz /\ is_slice b boff blk.

Lemma TokLocal_ext st st' l : ext st st' -> TokLocal st l -> TokLocal st' l.
Proof.
  intros (_ & _ & _ & Hn & (added & Hp & Ha)) H b t Hin. destruct (H b t Hin) as [Ht Hq]. split; [lia|].
  intros q r Hq' Hr Et. rewrite Hp in Hq'. apply in_app_or in Hq'. destruct Hq' as [Hq'|Hq'].
  - apply Hq; assumption.
  - specialize (Ha q r Hq' Hr). lia.
Qed.
Lemma PendFresh_ext st st' : ext st st' -> PendFresh st -> PendFresh st'.
Proof.
  intros (_ & _ & _ & Hn & (added & Hp & Ha)) H q r Hq Hr. rewrite Hp in Hq. apply in_app_or in Hq. destruct Hq as [Hq|Hq].
  - specialize (H q r Hq Hr). lia.
  - specialize (Ha q r Hq Hr). lia.
Qed.

Lemma TokLocal_prov st l' l : prov l' l -> TokLocal st l -> TokLocal st l'.
Proof.
  intros Hp H b t Hin. destruct (Hp _ Hin) as [F|(s & Hs & F)]; [cbn in F; contradiction|].
  cbn in F. destruct F as (b0 & -> & Hsl). destruct (H b0 t Hs) as [Ht Hq]. split; [exact Ht|].
  intros q r Hq' Hr Et. specialize (Hq q r Hq' Hr Et).
  replace (r_boff r) with (r_boff r + 0) by lia. eapply is_slice_trans; eassumption.
Qed.
Lemma StoLocal_prov blks l' l : prov l' l -> StoLocal blks l -> StoLocal blks l'.
Proof.
  intros Hp H b loc bsz boff Hin. destruct (Hp _ Hin) as [F|(s & Hs & F)]; [cbn in F; contradiction|].
  cbn in F. destruct F as (b0 & boff0 & o & -> & -> & Hsl). destruct (H b0 loc bsz boff0 Hs) as (blk & A & B & D).
  exists blk. split; [exact A|]. split; [exact B|]. eapply is_slice_trans; eassumption.
Qed.

Lemma TokLocal_tail st s l : TokLocal st (s :: l) -> TokLocal st l.
Proof. intros H b t Hin. apply H. right; exact Hin. Qed.
Lemma StoLocal_tail blks s l : StoLocal blks (s :: l) -> StoLocal blks l.
Proof. intros H b loc bsz boff Hin. apply (H b loc bsz boff). right; exact Hin. Qed.

Lemma prune_segs_ok fid : forall l idx st,
  TokLocal st l -> PendFresh st ->
  let '(l', st') := prune_segs mb fid idx l st in
  ext st st' /\ TokLocal st' l' /\ PendFresh st' /\ (forall blks, StoLocal blks l -> StoLocal blks l').
Proof.
  induction l as [|s l IH]; intros idx st HT HP; cbn [prune_segs].
  - split; [apply ext_refl|]. split; [exact HT|]. split; [exact HP|auto].
  - pose proof (TokLocal_tail _ _ _ HT) as HTl.
    destruct s as [b [t|]|b loc bsz boff].
    + specialize (IH (S idx) st HTl HP). destruct (prune_segs mb fid (S idx) l st) as [r' st2].
      destruct IH as (E & T & P & S0). split; [exact E|]. split; [|split; [exact P|]].
      * intros b' t' [Ein|Hin]; [|apply T; exact Hin]. inversion Ein; subst b' t'.
        apply (TokLocal_ext _ _ (Mem b (Some t) :: l) E HT). left; reflexivity.
      * intros blks HS b' loc bsz boff [Ein|Hin]; [discriminate|]. apply (S0 blks); [|exact Hin]. eapply StoLocal_tail; exact HS.
    + destruct (mb <=? length b).
      * set (q := {| q_id := nput mb st; q_refs := [{| r_file := fid; r_idx := idx; r_tok := ntok mb st; r_boff := 0 |}];
                     q_data := b; q_ok := negb (put_fails (mode mb st) b); q_prune := true |}).
        set (st1 := {| fsys := fsys mb st; pends := pends mb st ++ [q]; ntok := S (ntok mb st); nput := S (nput mb st);
                       blocks := blocks mb st; mode := mode mb st |}).
        assert (He : ext st st1).
        { unfold st1. repeat split; cbn; try lia. exists [q]. split; [reflexivity|].
          intros q' r [<-|[]] [<-|[]]. cbn. lia. }
        assert (HP1 : PendFresh st1) by (eapply PendFresh_ext; eassumption).
        specialize (IH (S idx) st1 (TokLocal_ext _ _ _ He HTl) HP1).
        destruct (prune_segs mb fid (S idx) l st1) as [r' st2]. destruct IH as (E & T & P & S0).
        split; [eapply ext_trans; eassumption|]. split; [|split; [exact P|]].
        -- intros b' t' [Ein|Hin]; [|apply T; exact Hin]. inversion Ein; subst b' t'.
           destruct E as (_ & _ & _ & Hn & (added & Hp & Ha)). cbn [ntok pends st1] in Hn, Hp, Ha.
           split; [lia|]. intros q' r Hq Hr Et. rewrite Hp in Hq.
           apply in_app_or in Hq. destruct Hq as [Hq|Hq].
           ++ apply in_app_or in Hq. destruct Hq as [Hq|[<-|[]]].
              ** specialize (HP q' r Hq Hr). lia.
              ** destruct Hr as [<-|[]]. cbn. apply is_slice_refl.
           ++ specialize (Ha q' r Hq Hr). lia.
        -- intros blks HS b' loc bsz boff [Ein|Hin]; [discriminate|]. apply (S0 blks); [|exact Hin]. eapply StoLocal_tail; exact HS.
      * specialize (IH (S idx) st HTl HP). destruct (prune_segs mb fid (S idx) l st) as [r' st2].
        destruct IH as (E & T & P & S0). split; [exact E|]. split; [|split; [exact P|]].
        -- intros b' t' [Ein|Hin]; [discriminate|apply T; exact Hin].
        -- intros blks HS b' loc bsz boff [Ein|Hin]; [discriminate|]. apply (S0 blks); [|exact Hin]. eapply StoLocal_tail; exact HS.
    + specialize (IH (S idx) st HTl HP). destruct (prune_segs mb fid (S idx) l st) as [r' st2].
      destruct IH as (E & T & P & S0). split; [exact E|]. split; [|split; [exact P|]].
      * intros b' t' [Ein|Hin]; [discriminate|apply T; exact Hin].
      * intros blks HS b' loc' bsz' boff' [Ein|Hin].
        -- inversion Ein; subst. apply HS. left; reflexivity.
        -- apply (S0 blks); [|exact Hin]. eapply StoLocal_tail; exact HS.
Qed.

Lemma prune_ok fid fn st : TokLocal st (segs fn) -> PendFresh st ->
  let '(fn', st') := prune mb fid fn st in
  same_bytes fn' fn /\ ext st st' /\ TokLocal st' (segs fn') /\ PendFresh st' /\
  (forall blks, StoLocal blks (segs fn) -> StoLocal blks (segs fn')).
Proof.
  intros HT HP. pose proof (prune_same fid fn st) as Hs. unfold prune in *.
  pose proof (prune_segs_ok fid (segs fn) 0 st HT HP) as H.
  destruct (prune_segs mb fid 0 (segs fn) st) as [l st']. cbn [fst segs] in *. tauto.
Qed.

(* ---------- filenode.Write with pruning inside the loop ---------- *)
Definition wr_post (fn : fnode) (p : ptr) (data : list byte) (st : bst mb) (fn' : fnode) (p' : ptr) (st' : bst mb) : Prop :=
  content fn' = overwrite (content fn) (off p) data /\ WF fn' /\ valid fn' p' /\ off p' = off p + length data /\
  (rep p = Some (repacked fn) -> rep p' = Some (repacked fn')) /\ repacked fn <= repacked fn' /\
  (repacked fn' = repacked fn -> map slen (segs fn') = map slen (segs fn)) /\
  ext st st' /\ TokLocal st' (segs fn') /\ PendFresh st' /\
  (forall blks, StoLocal blks (segs fn) -> StoLocal blks (segs fn')).

Lemma bwrite_loop_S fuel fid fn p x data st :
  bwrite_loop mb (S fuel) fid fn p (x :: data) st =
  let '(fn1, p1, n) := write_step mb fn p (x :: data) in
  let '(fn2, st2) := if prune_due mb fn1 p1 then prune mb fid fn1 st else (fn1, st) in
  bwrite_loop mb fuel fid fn2 p1 (skipn n (x :: data)) st2.
Proof. reflexivity. Qed.

Lemma bwrite_loop_ok fid fuel : forall fn p data st,
  WF fn -> valid fn p -> off p <= length (content fn) -> length data <= fuel ->
  TokLocal st (segs fn) -> PendFresh st ->
  let '(fn', p', st') := bwrite_loop mb fuel fid fn p data st in wr_post fn p data st fn' p' st'.
Proof.
  assert (Hnil : forall fn p st, WF fn -> valid fn p -> TokLocal st (segs fn) -> PendFresh st -> wr_post fn p [] st fn p st).
  { intros fn p st Hwf Hv HT HP. unfold wr_post, overwrite. cbn [app length]. rewrite Nat.add_0_r, firstn_skipn.
    splits; auto. apply ext_refl. }
  induction fuel as [|fuel IH]; intros fn p data st Hwf Hv Ho Hlen HT HP.
  - destruct data; [|cbn [length] in Hlen; lia]. cbn [bwrite_loop]. apply Hnil; assumption.
  - destruct data as [|x data']; [cbn [bwrite_loop]; apply Hnil; assumption|].
    rewrite bwrite_loop_S. set (data := x :: data') in *.
    assert (Hd : data <> []) by discriminate.
    destruct (write_step_ok mb Hmb fn p data Hwf Hv Hd) as [Hok Hval].
    pose proof (write_step_rep mb Hmb fn p data Hwf Hv Hd) as Hrep.
    pose proof (write_step_prov mb fn p data) as Hprov.
    destruct (write_step mb fn p data) as [[fn1 p1] n].
    unfold step_ok, step_valid in *.
    destruct Hok as (Hn & Hc1 & Hwf1 & Hoff1). destruct Hrep as (R1 & R2 & R3).
    assert (HT1 : TokLocal st (segs fn1)) by (eapply TokLocal_prov; eassumption).
    (* the prune hook *)
    assert (Hhook : let '(fn2, st2) := (if prune_due mb fn1 p1 then prune mb fid fn1 st else (fn1, st)) in
              same_bytes fn2 fn1 /\ ext st st2 /\ TokLocal st2 (segs fn2) /\ PendFresh st2 /\
              (forall blks, StoLocal blks (segs fn1) -> StoLocal blks (segs fn2))).
    { destruct (prune_due mb fn1 p1).
      - apply prune_ok; assumption.
      - split; [apply same_bytes_refl|]. split; [apply ext_refl|]. auto. }
    destruct (if prune_due mb fn1 p1 then prune mb fid fn1 st else (fn1, st)) as [fn2 st2].
    destruct Hhook as (Hsb & He & HT2 & HP2 & HS2).
    pose proof (same_bytes_content _ _ Hsb) as Hc2. pose proof (same_bytes_slen _ _ Hsb) as Hl2.
    pose proof Hsb as (_ & Hsz2 & Hr2).
    assert (Hwf2 : WF fn2) by (eapply same_bytes_WF; eassumption).
    assert (Hval2 : valid fn2 p1) by (eapply same_bytes_valid; eassumption).
    assert (Hlen1 : off p1 <= length (content fn2)).
    { rewrite Hc2, Hc1, Hoff1. unfold overwrite. rewrite !app_length, !firstn_length. lia. }
    assert (Hsk : length (skipn n data) = length data - n) by apply skipn_length.
    specialize (IH fn2 p1 (skipn n data) st2 Hwf2 Hval2 Hlen1 ltac:(lia) HT2 HP2).
    destruct (bwrite_loop mb fuel fid fn2 p1 (skipn n data) st2) as [[fn' p'] st'].
    destruct IH as (A & B & C0 & D & E1 & E2 & E3 & E4 & E5 & E6 & E7).
    unfold wr_post. splits.
    + rewrite A, Hc2, Hc1, Hoff1.
      replace n with (length (firstn n data)) at 2 by (rewrite firstn_length; lia).
      rewrite overwrite_compose by exact Ho. rewrite firstn_skipn. reflexivity.
    + exact B.
    + exact C0.
    + lia.
    + intros Hr. apply E1. rewrite Hr2. apply R1. exact Hr.
    + lia.
    + intros Hr. assert (repacked fn1 = repacked fn) by lia. assert (repacked fn' = repacked fn2) by lia.
      rewrite E3 by assumption. rewrite Hl2. apply R3. assumption.
    + eapply ext_trans; eassumption.
    + exact E5.
    + exact E6.
    + intros blks HS. apply E7. apply HS2. eapply StoLocal_prov; eassumption.
Qed.

(* the whole Write: same content-level result as the plain model, plus the token discipline *)
Lemma bfn_write_ok fid fn p0 data st : WF fn -> hok fn p0 -> TokLocal st (segs fn) -> PendFresh st ->
  let '(fn', p', st') := bfn_write mb fid fn p0 data st in
  (content fn', off p') = s_write (content fn) (off p0) data /\ WF fn' /\ hok fn' p' /\
  (forall q, hok fn q -> hok fn' q) /\
  ext st st' /\ TokLocal st' (segs fn') /\ PendFresh st' /\
  (forall blks, StoLocal blks (segs fn) -> StoLocal blks (segs fn')).
Proof.
  intros Hwf Hh HT HP. unfold bfn_write.
  set (fn1 := if size fn <? off p0 then fn_truncate mb fn (off p0) else fn).
  assert (H1 : content fn1 = content fn ++ repeat 0 (off p0 - size fn) /\ WF fn1 /\ off p0 <= size fn1 /\
               repacked fn <= repacked fn1 /\ (repacked fn1 = repacked fn -> fn1 = fn) /\ prov (segs fn1) (segs fn)).
  { unfold fn1. destruct (size fn <? off p0) eqn:E.
    - apply Nat.ltb_lt in E. destruct (truncate_grow_ok mb Hmb fn (off p0) Hwf E) as (A & B & C0 & D).
      split; [exact A|]. split; [exact B|]. split; [lia|]. split; [lia|]. split; [intros; lia|].
      apply truncate_prov. exact Hwf.
    - apply Nat.ltb_ge in E. replace (off p0 - size fn) with 0 by lia. cbn [repeat]. rewrite app_nil_r.
      split; [reflexivity|]. split; [exact Hwf|]. split; [exact E|]. split; [lia|]. split; [reflexivity|apply prov_refl]. }
  destruct H1 as (Hc1 & Hwf1 & Hle1 & Hmono1 & Hsame1 & Hprov1).
  assert (Hh1 : rep p0 = Some (repacked fn1) -> valid fn1 p0).
  { intros Hr. unfold hok in Hh. rewrite Hr in Hh. destruct Hh as [Hle Hv].
    assert (E : repacked fn1 = repacked fn) by lia. rewrite (Hsame1 E) in *. apply Hv; [congruence|exact Hle1]. }
  destruct (seek_valid fn1 p0 Hwf1 Hle1 Hh1) as [Hv Hoff].
  pose proof (seek_rep fn1 p0) as Hrp.
  set (p := seek fn1 p0) in *.
  assert (Hop : off p <= length (content fn1)) by (rewrite Hoff; destruct Hwf1 as [Hs _]; lia).
  assert (HT1 : TokLocal st (segs fn1)) by (eapply TokLocal_prov; eassumption).
  pose proof (bwrite_loop_ok fid (length data + length (segs fn1) + 1) fn1 p data st Hwf1 Hv Hop ltac:(lia) HT1 HP) as HL.
  destruct (bwrite_loop mb (length data + length (segs fn1) + 1) fid fn1 p data st) as [[fn' p'] st'].
  destruct HL as (A & B & C0 & D & E1 & E2 & E3 & E4 & E5 & E6 & E7).
  pose proof Hwf as [Hsz _].
  split.
  { unfold s_write, zeros. rewrite A, D, Hc1, Hoff. unfold overwrite. rewrite Hsz. reflexivity. }
  split; [exact B|]. split.
  { unfold hok. rewrite (E1 Hrp). split; [lia|]. intros _ _. exact C0. }
  split.
  { intros q Hq. unfold hok in *. destruct (rep q) as [r|]; [|exact I].
    destruct Hq as [Hr Hvq]. split; [lia|]. intros Er Hle.
    assert (Ea : repacked fn1 = repacked fn) by lia. assert (Eb : repacked fn' = repacked fn1) by lia.
    pose proof (Hsame1 Ea) as Efn. rewrite Efn in *.
    specialize (E3 Eb).
    apply (valid_same_lengths fn fn' q E3). apply Hvq; [lia|].
    rewrite <- (size_same_lengths fn fn' Hwf B E3). exact Hle. }
  split; [exact E4|]. split; [exact E5|]. split; [exact E6|].
  intros blks HS. apply E7. eapply StoLocal_prov; eassumption.
Qed.

(* ---------- global invariant ---------- *)
Definition BTok (st : bst mb) : Prop := forall id, TokLocal st (file_segs mb (fsys mb st) id).
Definition BSto (st : bst mb) : Prop := forall id, StoLocal (blocks mb st) (file_segs mb (fsys mb st) id).
Definition BInv (st : bst mb) : Prop := Good mb (fsys mb st) /\ BTok st /\ PendFresh st /\ BSto st.

(* how a filesystem update may change the segment lists: each file's new list descends from its old one *)
Definition segs_from (s' s : fs C) : Prop := forall id, prov (file_segs mb s' id) (file_segs mb s id).
Lemma segs_from_refl s : segs_from s s.
Proof. intros id. apply prov_refl. Qed.
Lemma segs_from_trans s2 s1 s0 : segs_from s2 s1 -> segs_from s1 s0 -> segs_from s2 s0.
Proof. intros A B id. eapply prov_trans; [apply A|apply B]. Qed.

Lemma file_segs_set_ino s id x j :
  file_segs mb (set_ino C s id x) j =
  if Nat.eqb j id && (id <? length (inodes C s)) then match i_node C x with IFile f => segs f | IDir _ => [] end
  else file_segs mb s j.
Proof. unfold file_segs. rewrite (get_set_ino mb Hmb). destruct (Nat.eqb j id && (id <? length (inodes C s))); reflexivity. Qed.

Lemma segs_from_set_ino_same s id x :
  (match i_node C x with IFile f => prov (segs f) (file_segs mb s id) | IDir _ => True end) -> segs_from (set_ino C s id x) s.
Proof.
  intros H j. rewrite file_segs_set_ino. destruct (Nat.eqb_spec j id) as [->|]; cbn [andb]; [|apply prov_refl].
  destruct (id <? length (inodes C s)); [|apply prov_refl]. destruct (i_node C x); [exact H|apply prov_nil].
Qed.
Lemma segs_from_set_ents s d e : segs_from (set_ents C s d e) s.
Proof. apply segs_from_set_ino_same. exact I. Qed.
Lemma segs_from_set_parent s id p : segs_from (set_parent C s id p) s.
Proof.
  apply segs_from_set_ino_same. cbn. unfold file_segs. destruct (i_node C (get_ino C s id)); [apply prov_refl|exact I].
Qed.
Lemma segs_from_set_file s id f : prov (segs f) (file_segs mb s id) -> segs_from (set_file C s id f) s.
Proof. intros H. apply segs_from_set_ino_same. exact H. Qed.
Lemma file_segs_set_handle s h x j : file_segs mb (set_handle C s h x) j = file_segs mb s j.
Proof. unfold file_segs. rewrite get_ino_set_handle. reflexivity. Qed.
Lemma segs_from_set_handle s h x : segs_from (set_handle C s h x) s.
Proof. intros j. rewrite file_segs_set_handle. apply prov_refl. Qed.
Lemma segs_from_add_handle s x : segs_from (fst (add_handle C s x)) s.
Proof. intros j. unfold add_handle, file_segs, get_ino. cbn. apply prov_refl. Qed.
Lemma segs_from_add_ino s x : (match i_node C x with IFile f => segs f = [] | IDir _ => True end) -> segs_from (fst (add_ino C s x)) s.
Proof.
  intros H j. unfold add_ino, file_segs, get_ino. cbn [fst inodes].
  destruct (Nat.lt_ge_cases j (length (inodes C s))) as [Hlt|Hge].
  - rewrite app_nth1 by exact Hlt. apply prov_refl.
  - rewrite app_nth2 by exact Hge. destruct (j - length (inodes C s)) as [|k]; cbn [nth].
    + destruct (i_node C x); [rewrite H; apply prov_nil|apply prov_nil].
    + destruct k; cbn; apply prov_nil.
Qed.

(* token/stored discipline is inherited along segs_from *)
Lemma BTok_from st s' : BTok st -> segs_from s' (fsys mb st) -> BTok (with_fs mb st s').
Proof. intros H Hf id. cbn. eapply TokLocal_prov; [apply Hf|]. exact (H id). Qed.
Lemma BSto_from st s' : BSto st -> segs_from s' (fsys mb st) -> BSto (with_fs mb st s').
Proof. intros H Hf id. cbn. eapply StoLocal_prov; [apply Hf|]. exact (H id). Qed.

Lemma TokLocal_with_fs st s l : TokLocal (with_fs mb st s) l <-> TokLocal st l.
Proof. unfold TokLocal. cbn [with_fs ntok pends]. tauto. Qed.
Lemma PendFresh_with_fs st s : PendFresh (with_fs mb st s) <-> PendFresh st.
Proof. unfold PendFresh. cbn [with_fs ntok pends]. tauto. Qed.

(* ---------- Write through a handle, with background pruning ---------- *)
Lemma file_segs_file s id f : i_node C (get_ino C s id) = IFile f -> file_segs mb s id = segs f.
Proof. intros E. unfold file_segs. rewrite E. reflexivity. Qed.

Lemma b_write_sim st h data : BInv st ->
  let '(st', r) := b_write mb st h data in
  h_write Spec (abs mb (fsys mb st)) h data = (abs mb (fsys mb st'), r) /\ BInv st'.
Proof.
  intros (HG & HT & HP & HS). unfold b_write, h_write. rewrite get_handle_abs.
  set (s := fsys mb st) in *.
  destruct (get_handle C s h) as [x|] eqn:Ex; cbn [option_map]; [|split; [reflexivity|exact (conj HG (conj HT (conj HP HS)))]].
  change (h_w Spec (abs_handle mb x)) with (h_w C x).
  destruct (h_w C x); cbn [negb]; [|split; [reflexivity|exact (conj HG (conj HT (conj HP HS)))]].
  rewrite get_ino_abs. change (h_ino Spec (abs_handle mb x)) with (h_ino C x). cbn [abs_ino i_node].
  destruct HG as [HI HB].
  destruct (i_node C (get_ino C s (h_ino C x))) as [f|e] eqn:En; cbn [abs_node].
  - pose proof HI as [Hf Hh]. pose proof (Hf _ _ En) as Hwf.
    change (h_append Spec (abs_handle mb x)) with (h_append C x).
    cbn [f_write p_eof Conc Spec]. change (h_ptr Spec (abs_handle mb x)) with (off (h_ptr C x)).
    assert (HTf : TokLocal st (segs f)) by (rewrite <- (file_segs_file s _ f En); apply HT).
    assert (HSf : StoLocal (blocks mb st) (segs f)) by (rewrite <- (file_segs_file s _ f En); apply HS).
    assert (Hcore : forall p, hok f p ->
      let '(st', r) := let '(f', p', st1) := bfn_write mb (h_ino C x) f p data st in
                       (with_fs mb st1 (set_handle C (set_file C s (h_ino C x) f') h (with_ptr C x p')), Ok (length data)) in
      (let '(f', p') := s_write (content f) (off p) data in
       (set_handle Spec (set_file Spec (abs mb s) (h_ino C x) f') h (with_ptr Spec (abs_handle mb x) p'), Ok (length data)))
      = (abs mb (fsys mb st'), r) /\ BInv st').
    2:{ destruct (h_append C x).
        - assert (El : length (content f) = off (c_peof f)) by (cbn; destruct Hwf as [Hs0 _]; symmetry; exact Hs0).
          rewrite El. apply Hcore. apply (hok_peof mb Hmb). exact Hwf.
        - apply Hcore. apply (Hh h x f Ex En). }
    intros p Hp.
    pose proof (bfn_write_ok (h_ino C x) f p data st Hwf Hp HTf HP) as H.
    destruct (bfn_write mb (h_ino C x) f p data st) as [[f' p'] st1].
    destruct H as (H1 & H2 & H3 & H4 & He & HT1 & HP1 & HS1).
    rewrite <- H1. cbn [fsys with_fs]. rewrite (set_handle_abs mb), (set_file_abs mb). split; [reflexivity|].
    assert (HI1 : Inv mb (set_file C s (h_ino C x) f')) by (eapply (Inv_set_file mb Hmb); eassumption).
    assert (Ex1 : nth_error (handles C (set_file C s (h_ino C x) f')) h = Some x).
    { unfold set_file. rewrite handles_set_ino. exact Ex. }
    assert (Hlt : h_ino C x < length (inodes C s)) by (eapply get_ino_file_bound; exact En).
    split; [|split; [|split]].
    + split; [apply (Inv_set_handle mb Hmb); [exact HI1|exact Ex1|]|apply (Bnd_set_handle mb Hmb); [apply (Bnd_set_file mb Hmb); exact HB|exact Ex1]].
      intros g. unfold set_file. rewrite (get_set_ino mb Hmb), Nat.eqb_refl. cbn [andb].
      destruct (Nat.ltb_spec (h_ino C x) (length (inodes C s))) as [_|]; [|lia].
      cbn. intros E. inversion E; subst g. exact H3.
    + intros j. cbn [fsys with_fs]. rewrite file_segs_set_handle. unfold set_file. rewrite file_segs_set_ino.
      destruct (Nat.eqb_spec j (h_ino C x)) as [->|]; cbn [andb].
      * destruct (Nat.ltb_spec (h_ino C x) (length (inodes C s))) as [_|]; [|lia]. cbn [i_node]. apply TokLocal_with_fs. exact HT1.
      * apply TokLocal_with_fs. eapply TokLocal_ext; [exact He|apply HT].
    + apply PendFresh_with_fs. exact HP1.
    + intros j. cbn [fsys with_fs blocks]. destruct He as (_ & Eb & _). rewrite Eb.
      rewrite file_segs_set_handle. unfold set_file. rewrite file_segs_set_ino.
      destruct (Nat.eqb_spec j (h_ino C x)) as [->|]; cbn [andb].
      * destruct (Nat.ltb_spec (h_ino C x) (length (inodes C s))) as [_|]; [|lia]. cbn. apply HS1. exact HSf.
      * apply HS.
  - cbn [fsys with_fs]. rewrite (set_handle_abs mb). split; [reflexivity|].
    split; [|split; [|split]].
    + split; [apply (Inv_set_handle mb Hmb); [exact HI|exact Ex|]|apply (Bnd_set_handle mb Hmb); [exact HB|exact Ex]].
      intros g Eg. rewrite En in Eg. discriminate.
    + intros j. cbn [fsys with_fs]. rewrite file_segs_set_handle. apply TokLocal_with_fs. apply HT.
    + apply PendFresh_with_fs. exact HP.
    + intros j. cbn [fsys with_fs blocks]. rewrite file_segs_set_handle. apply HS.
Qed.

(* ---------- completion of a background write ---------- *)
Lemma take_pend_spec ps id q rest : take_pend ps id = Some (q, rest) ->
  In q ps /\ (forall x, In x rest -> In x ps).
Proof.
  revert q rest. induction ps as [|a ps IH]; intros q rest; cbn [take_pend]; [discriminate|].
  destruct (Nat.eqb (q_id a) id).
  - intros E; inversion E; subst. split; [left; reflexivity|intros x Hx; right; exact Hx].
  - destruct (take_pend ps id) as [[x r']|]; [|discriminate]. intros E; inversion E; subst.
    destruct (IH q r' eq_refl) as [A B]. split; [right; exact A|]. intros y [<-|Hy]; [left; reflexivity|right; apply B; exact Hy].
Qed.

Lemma set_nth_id {A} (l : list A) i d : i < length l -> firstn i l ++ nth i l d :: skipn (S i) l = l.
Proof.
  revert i. induction l as [|x l IH]; intros i Hi; [cbn in Hi; lia|].
  destruct i; [reflexivity|]. cbn. f_equal. apply IH. cbn in Hi. lia.
Qed.

Lemma set_ino_same_spec (t : fs Spec) id : set_ino Spec t id (get_ino Spec t id) = t.
Proof.
  unfold set_ino. destruct (Nat.ltb_spec id (length (inodes Spec t))) as [H|H]; [|reflexivity].
  unfold get_ino. rewrite set_nth_id by exact H. destruct t; reflexivity.
Qed.

Lemma abs_set_file_same s id fn fn' :
  i_node C (get_ino C s id) = IFile fn -> content fn' = content fn -> abs mb (set_file C s id fn') = abs mb s.
Proof.
  intros En Ec. rewrite (set_file_abs mb). unfold set_file. rewrite Ec.
  replace {| i_node := IFile (I := Spec) (content fn); i_parent := i_parent Spec (get_ino Spec (abs mb s) id) |}
    with (get_ino Spec (abs mb s) id); [apply set_ino_same_spec|].
  rewrite (get_ino_abs mb). unfold abs_ino. rewrite En. reflexivity.
Qed.

Lemma set_nth_same_bytes l i s' : i < length l -> sbytes s' = sbytes (nthseg l i) ->
  map sbytes (set_nth l i s') = map sbytes l.
Proof.
  intros Hi E. unfold set_nth. rewrite map_app. cbn [map]. rewrite E.
  rewrite <- (set_nth_id l i (Mem [] None) Hi) at 4. rewrite map_app. reflexivity.
Qed.

(* replacing a segment of a file by one with the same bytes is invisible and keeps the state good *)
Lemma replace_seg_ok s id fn i s' :
  Good mb s -> i_node C (get_ino C s id) = IFile fn -> i < length (segs fn) -> sbytes s' = sbytes (nthseg (segs fn) i) ->
  abs mb (set_file C s id (set_seg fn i s')) = abs mb s /\ Good mb (set_file C s id (set_seg fn i s')).
Proof.
  intros [HI HB] En Hi Eb.
  assert (Hsb : same_bytes (set_seg fn i s') fn).
  { unfold same_bytes, set_seg. cbn [segs size repacked]. split; [apply set_nth_same_bytes; assumption|auto]. }
  split.
  - eapply abs_set_file_same; [exact En|apply same_bytes_content; exact Hsb].
  - split; [|apply (Bnd_set_file mb Hmb); exact HB].
    eapply (Inv_set_file mb Hmb); [exact HI|exact En| |].
    + eapply same_bytes_WF; [exact Hsb|]. destruct HI as [Hf _]. eapply Hf; exact En.
    + intros q. apply same_bytes_hok. exact Hsb.
Qed.

Lemma In_set_nth l i (x s : seg) : In x (set_nth l i s) -> x = s \/ In x l.
Proof.
  unfold set_nth. intros H. apply in_app_or in H. destruct H as [H|[<-|H]].
  - right. eapply In_firstn; exact H.
  - left; reflexivity.
  - right. eapply In_skipn; exact H.
Qed.

Lemma StoLocal_more blks x l : StoLocal blks l -> StoLocal (blks ++ [x]) l.
Proof.
  intros H b loc bsz boff Hin. destruct (H b loc bsz boff Hin) as (blk & A & B & D). exists blk.
  split; [|auto]. rewrite nth_error_app1; [exact A|]. apply nth_error_Some. rewrite A. discriminate.
Qed.

(* the per-reference installation step, with the facts it needs about the finished write q *)
Lemma install_ref_ok st q loc blks' s r :
  Good mb s ->
  (forall id, TokLocal st (file_segs mb s id)) -> (forall id, StoLocal blks' (file_segs mb s id)) ->
  In q (pends mb st) -> In r (q_refs q) ->
  nth_error blks' loc = Some (q_data q) ->
  let s' := install_ref mb q loc s r in
  abs mb s' = abs mb s /\ Good mb s' /\
  (forall id, TokLocal st (file_segs mb s' id)) /\ (forall id, StoLocal blks' (file_segs mb s' id)).
Proof.
  intros HG HT HS Hq Hr Hblk. unfold install_ref.
  destruct (i_node C (get_ino C s (r_file r))) as [fn|e] eqn:En; [|auto].
  destruct (Nat.leb_spec (length (segs fn)) (r_idx r)) as [Hle|Hlt]; [auto|].
  destruct (nthseg (segs fn) (r_idx r)) as [b [t|]|b0 l0 z0 o0] eqn:Es; [|auto|auto].
  destruct (Nat.eqb_spec t (r_tok r)) as [Et|]; cbn [andb]; [|auto].
  destruct (negb (q_prune q) || Nat.eqb (length b) (length (q_data q))); [|auto].
  cbn zeta.
  assert (Hin : In (Mem b (Some t)) (file_segs mb s (r_file r))).
  { rewrite (file_segs_file s _ fn En). rewrite <- Es. unfold nthseg. apply nth_In. exact Hlt. }
  destruct (HT (r_file r) b t Hin) as [_ Hsl]. specialize (Hsl q r Hq Hr (eq_sym Et)).
  destruct (replace_seg_ok s (r_file r) fn (r_idx r) (Sto b loc (length (q_data q)) (r_boff r)) HG En Hlt) as [A B].
  { rewrite Es. reflexivity. }
  split; [exact A|]. split; [exact B|].
  assert (Hb : r_file r < length (inodes C s)) by (eapply get_ino_file_bound; exact En).
  split.
  - intros id. unfold set_file. rewrite file_segs_set_ino.
    destruct (Nat.eqb_spec id (r_file r)) as [->|]; cbn [andb]; [|apply HT].
    destruct (Nat.ltb_spec (r_file r) (length (inodes C s))) as [_|]; [|lia]. cbn [i_node set_seg segs].
    intros b' t' Hin'. apply In_set_nth in Hin'. destruct Hin' as [E|Hin']; [discriminate|].
    apply (HT (r_file r)). rewrite (file_segs_file s _ fn En). exact Hin'.
  - intros id. unfold set_file. rewrite file_segs_set_ino.
    destruct (Nat.eqb_spec id (r_file r)) as [->|]; cbn [andb]; [|apply HS].
    destruct (Nat.ltb_spec (r_file r) (length (inodes C s))) as [_|]; [|lia]. cbn [i_node set_seg segs].
    intros b' loc' bsz' boff' Hin'. apply In_set_nth in Hin'. destruct Hin' as [E|Hin'].
    + inversion E; subst. exists (q_data q). auto.
    + apply (HS (r_file r)). rewrite (file_segs_file s _ fn En). exact Hin'.
Qed.

Lemma install_refs_ok st q loc blks' : forall refs s,
  Good mb s ->
  (forall id, TokLocal st (file_segs mb s id)) -> (forall id, StoLocal blks' (file_segs mb s id)) ->
  In q (pends mb st) -> (forall r, In r refs -> In r (q_refs q)) ->
  nth_error blks' loc = Some (q_data q) ->
  let s' := fold_left (install_ref mb q loc) refs s in
  abs mb s' = abs mb s /\ Good mb s' /\
  (forall id, TokLocal st (file_segs mb s' id)) /\ (forall id, StoLocal blks' (file_segs mb s' id)).
Proof.
  induction refs as [|r refs IH]; intros s HG HT HS Hq Hsub Hblk; cbn [fold_left]; [auto|].
  destruct (install_ref_ok st q loc blks' s r HG HT HS Hq (Hsub r (or_introl eq_refl)) Hblk) as (A & B & T & S0).
  destruct (IH (install_ref mb q loc s r) B T S0 Hq (fun x Hx => Hsub x (or_intror Hx)) Hblk) as (A' & B' & T' & S').
  cbn zeta in *. split; [rewrite A'; exact A|auto].
Qed.

(* whenever, and in whatever order, a background write returns - successfully or not - what readers
   see is unchanged, nothing overwritten comes back, and the state stays good *)
Theorem complete_ok st id : BInv st ->
  abs mb (fsys mb (complete mb st id)) = abs mb (fsys mb st) /\ BInv (complete mb st id).
Proof.
  intros (HG & HT & HP & HS). unfold complete.
  destruct (take_pend (pends mb st) id) as [[q rest]|] eqn:Etp; [|split; [reflexivity|exact (conj HG (conj HT (conj HP HS)))]].
  destruct (take_pend_spec _ _ _ _ Etp) as [Hq Hrest].
  assert (Hweak : forall l, TokLocal st l ->
            TokLocal {| fsys := fsys mb st; pends := rest; ntok := ntok mb st; nput := nput mb st; blocks := blocks mb st; mode := mode mb st |} l).
  { intros l H b t Hin. destruct (H b t Hin) as [A B]. split; [exact A|]. intros q' r Hq' Hr Et. apply B; auto. }
  destruct (q_ok q).
  - pose proof (install_refs_ok st q (length (blocks mb st)) (blocks mb st ++ [q_data q]) (q_refs q) (fsys mb st) HG HT
                 (fun id => StoLocal_more _ _ _ (HS id)) Hq (fun r H => H)) as H.
    destruct H as (A & B & T & S0).
    { rewrite nth_error_app2 by lia. rewrite Nat.sub_diag. reflexivity. }
    cbn zeta in *. cbn [fsys]. split; [exact A|]. split; [exact B|]. split; [|split].
    + intros j. cbn [fsys]. unfold TokLocal. cbn [ntok pends]. intros b t Hin.
      destruct (T j b t Hin) as [X Y]. split; [exact X|]. intros q' r Hq' Hr Et. apply Y; auto.
    + intros q' r Hq' Hr. cbn [pends ntok] in *. apply (HP q' r); auto.
    + exact S0.
  - cbn [fsys]. split; [reflexivity|]. split; [exact HG|]. split; [|split].
    + intros j. apply Hweak. apply HT.
    + intros q' r Hq' Hr. cbn [pends ntok] in *. apply (HP q' r); auto.
    + exact HS.
Qed.

(* ---------- commitBlock: handing out tokens ---------- *)
Lemma seg_at_nth s fid i : seg_at mb s fid i = nthseg (file_segs mb s fid) i.
Proof. unfold seg_at, file_segs. destruct (i_node C (get_ino C s fid)); [reflexivity|]. unfold nthseg. destruct i; reflexivity. Qed.

Definition same_bytes_fs (s' s : fs C) : Prop := forall id, map sbytes (file_segs mb s' id) = map sbytes (file_segs mb s id).

Lemma set_seg_at_ok s fid i x : Good mb s -> i < length (file_segs mb s fid) -> sbytes x = sbytes (seg_at mb s fid i) ->
  abs mb (set_seg_at mb s fid i x) = abs mb s /\ Good mb (set_seg_at mb s fid i x) /\
  (forall id, file_segs mb (set_seg_at mb s fid i x) id = if Nat.eqb id fid then set_nth (file_segs mb s fid) i x else file_segs mb s id).
Proof.
  intros HG Hi Eb. unfold set_seg_at. unfold file_segs in Hi. rewrite seg_at_nth in Eb. unfold file_segs in Eb.
  destruct (i_node C (get_ino C s fid)) as [fn|e] eqn:En; [|cbn in Hi; lia].
  destruct (replace_seg_ok s fid fn i x HG En Hi Eb) as [A B]. split; [exact A|]. split; [exact B|].
  intros id. unfold set_file. rewrite file_segs_set_ino.
  assert (Hb : fid < length (inodes C s)) by (eapply get_ino_file_bound; exact En).
  destruct (Nat.eqb_spec id fid) as [->|]; cbn [andb]; [|reflexivity].
  destruct (Nat.ltb_spec fid (length (inodes C s))) as [_|]; [|lia]. cbn [i_node set_seg segs].
  rewrite (file_segs_file s fid fn En). reflexivity.
Qed.

Lemma nth_map_sbytes l i : sbytes (nthseg l i) = nth i (map sbytes l) [].
Proof. unfold nthseg. change (@nil byte) with (sbytes (Mem [] None)). rewrite map_nth. reflexivity. Qed.

Lemma is_slice_mid (pre b post : list byte) : is_slice b (length pre) (pre ++ b ++ post).
Proof.
  unfold is_slice. rewrite skipn_app, skipn_all, Nat.sub_diag. cbn [app skipn].
  rewrite firstn_app, firstn_all, Nat.sub_diag. cbn [firstn]. rewrite app_nil_r. reflexivity.
Qed.

Lemma refs_data_app s a b : refs_data mb s (a ++ b) = refs_data mb s a ++ refs_data mb s b.
Proof. unfold refs_data. apply flat_map_app'. Qed.

Section Assign.
Variable st0 : bst mb.
Variable data : list byte.

Definition AInv (st : bst mb) (acc : list pref) : Prop :=
  abs mb (fsys mb st) = abs mb (fsys mb st0) /\ Good mb (fsys mb st) /\ same_bytes_fs (fsys mb st) (fsys mb st0) /\
  pends mb st = pends mb st0 /\ blocks mb st = blocks mb st0 /\ mode mb st = mode mb st0 /\ nput mb st = nput mb st0 /\
  ntok mb st0 <= ntok mb st /\
  (forall id b t, In (Mem b (Some t)) (file_segs mb (fsys mb st) id) ->
      (t < ntok mb st0 /\ In (Mem b (Some t)) (file_segs mb (fsys mb st0) id)) \/
      (ntok mb st0 <= t < ntok mb st /\ exists r, In r acc /\ r_tok r = t /\ is_slice b (r_boff r) data)) /\
  (forall r, In r acc -> ntok mb st0 <= r_tok r < ntok mb st /\
      r_idx r < length (file_segs mb (fsys mb st0) (r_file r)) /\
      is_slice (sbytes (seg_at mb (fsys mb st0) (r_file r) (r_idx r))) (r_boff r) data) /\
  (forall r r', In r acc -> In r' acc -> r_tok r = r_tok r' -> r = r') /\
  (forall id b loc bsz boff, In (Sto b loc bsz boff) (file_segs mb (fsys mb st) id) -> In (Sto b loc bsz boff) (file_segs mb (fsys mb st0) id)).

Hypothesis HB0 : BInv st0.

Lemma AInv_init : AInv st0 [].
Proof.
  destruct HB0 as (HG & HT & HP & HS). unfold AInv. splits; auto; try reflexivity; try (intros ? []; fail).
  - intros id. reflexivity.
  - intros id b t Hin. left. split; [apply (HT id b t Hin)|exact Hin].
  - intros r r' [].
Qed.

(* from the loop invariant back to the global invariant (no pending write refers to the new tokens yet) *)
Lemma AInv_BInv st acc : AInv st acc -> abs mb (fsys mb st) = abs mb (fsys mb st0) /\ BInv st.
Proof.
  destruct HB0 as (HG & HT & HP & HS).
  intros (A1 & A2 & A3 & A4 & A5 & A6 & A6b & A7 & A8 & A9 & A10 & A11). split; [exact A1|].
  split; [exact A2|]. split; [|split].
  - intros id b t Hin. destruct (A8 id b t Hin) as [[Hlt Hin0]|[Hge _]].
    + destruct (HT id b t Hin0) as [_ Hq]. split; [lia|]. rewrite A4. exact Hq.
    + split; [lia|]. rewrite A4. intros q r Hq Hr Et. specialize (HP q r Hq Hr). lia.
  - intros q r. rewrite A4. intros Hq Hr. specialize (HP q r Hq Hr). lia.
  - intros id b loc bsz boff Hin. rewrite A5. apply (HS id). apply A11. exact Hin.
Qed.

Lemma assign_ok sync : forall refs done st boff acc,
  AInv st acc -> boff = length (refs_data mb (fsys mb st0) done) -> data = refs_data mb (fsys mb st0) (done ++ refs) ->
  let '(st', res) := assign_tokens mb sync refs st boff acc in
  match res with
  | None => exists acc', AInv st' acc'
  | Some (prs, _) => AInv st' (rev prs)
  end.
Proof.
  induction refs as [|[fid i] refs IH]; intros done st boff acc HA Hboff Hdata; cbn [assign_tokens].
  - rewrite rev_involutive. exact HA.
  - destruct (Nat.ltb_spec i (length (file_segs mb (fsys mb st) fid))) as [Hi|Hi]; cbn [negb]; [|exists acc; exact HA].
    destruct (seg_at mb (fsys mb st) fid i) as [b tok|b l0 z0 o0] eqn:Es; [|exists acc; exact HA].
    destruct (negb sync && match tok with Some t => tok_pending (pends mb st) t | None => false end); [exists acc; exact HA|].
    pose proof HA as (A1 & A2 & A3 & A4 & A5 & A6 & A6b & A7 & A8 & A9 & A10 & A11).
    set (t := ntok mb st).
    set (nr := {| r_file := fid; r_idx := i; r_tok := t; r_boff := boff |}).
    destruct (set_seg_at_ok (fsys mb st) fid i (Mem b (Some t)) A2 Hi) as (S1 & S2 & S3).
    { rewrite Es. reflexivity. }
    (* the bytes at this reference are those of the initial state *)
    assert (Hlen0 : length (file_segs mb (fsys mb st) fid) = length (file_segs mb (fsys mb st0) fid)).
    { rewrite <- (map_length sbytes), (A3 fid), map_length. reflexivity. }
    assert (Hb0 : sbytes (seg_at mb (fsys mb st0) fid i) = b).
    { rewrite seg_at_nth, nth_map_sbytes, <- (A3 fid), <- nth_map_sbytes, <- seg_at_nth, Es. reflexivity. }
    assert (Hslice : is_slice b boff data).
    { rewrite Hdata, refs_data_app. cbn [refs_data flat_map fst snd]. fold (refs_data mb (fsys mb st0) refs).
      rewrite Hb0, Hboff. apply is_slice_mid. }
    match goal with |- context [assign_tokens mb sync refs ?s1 ?b1 ?a1] =>
      specialize (IH (done ++ [(fid, i)]) s1 b1 a1) end.
    apply IH.
    + unfold AInv. cbn [fsys pends blocks mode nput ntok]. splits.
      * rewrite S1. exact A1.
      * exact S2.
      * intros id. rewrite S3. destruct (Nat.eqb_spec id fid) as [->|]; [|apply A3].
        rewrite set_nth_same_bytes; [apply A3|exact Hi|]. rewrite <- seg_at_nth, Es. reflexivity.
      * exact A4.
      * exact A5.
      * exact A6.
      * exact A6b.
      * lia.
      * intros id b' t' Hin. rewrite S3 in Hin.
        assert (Hold : In (Mem b' (Some t')) (file_segs mb (fsys mb st) id) ->
                  (t' < ntok mb st0 /\ In (Mem b' (Some t')) (file_segs mb (fsys mb st0) id)) \/
                  (ntok mb st0 <= t' < S (ntok mb st) /\ exists r, In r (nr :: acc) /\ r_tok r = t' /\ is_slice b' (r_boff r) data)).
        { intros H. destruct (A8 id b' t' H) as [L|[R1 (r & R2 & R3 & R4)]]; [left; exact L|right].
          split; [lia|]. exists r. split; [right; exact R2|auto]. }
        destruct (Nat.eqb_spec id fid) as [->|]; [|apply Hold; exact Hin].
        apply In_set_nth in Hin. destruct Hin as [E|Hin]; [|apply Hold; exact Hin].
        inversion E; subst b' t'. right. split; [unfold t; lia|]. exists nr. split; [left; reflexivity|]. split; [reflexivity|exact Hslice].
      * intros r [<-|Hr].
        -- cbn [r_tok r_idx r_file r_boff nr]. split; [unfold t; lia|]. split; [lia|]. rewrite Hb0. exact Hslice.
        -- destruct (A9 r Hr) as (X & Y & Z). split; [lia|auto].
      * intros r r' [<-|Hr] [<-|Hr'] Et; try reflexivity.
        -- destruct (A9 r' Hr') as (X & _). cbn in Et. unfold t in Et. lia.
        -- destruct (A9 r Hr) as (X & _). cbn in Et. unfold t in Et. lia.
        -- apply A10; assumption.
      * intros id b' loc bsz boff' Hin. rewrite S3 in Hin. destruct (Nat.eqb_spec id fid) as [->|]; [|apply A11; exact Hin].
        apply In_set_nth in Hin. destruct Hin as [E|Hin]; [discriminate|apply A11; exact Hin].
    + rewrite refs_data_app, app_length, <- Hboff. cbn [refs_data flat_map fst snd app]. rewrite app_nil_r, Hb0. reflexivity.
    + rewrite <- app_assoc. exact Hdata.
Qed.

End Assign.

(* commitBlock(sync=false): starting a background block write is invisible *)
Lemma commit_async_ok st refs : BInv st ->
  abs mb (fsys mb (commit_async mb st refs)) = abs mb (fsys mb st) /\ BInv (commit_async mb st refs).
Proof.
  intros HB. unfold commit_async. destruct refs as [|r0 refs']; [auto|]. set (refs := r0 :: refs').
  set (data := refs_data mb (fsys mb st) refs).
  pose proof (assign_ok st data false refs [] st 0 [] (AInv_init st data HB) eq_refl eq_refl) as H.
  destruct (assign_tokens mb false refs st 0 []) as [st1 [[prs total]|]].
  - (* the block write starts: one pending record for all references *)
    pose proof H as (A1 & A2 & A3 & A4 & A5 & A6 & A6b & A7 & A8 & A9 & A10 & A11).
    destruct HB as (HG & HT & HP & HS). cbn [fsys].
    split; [exact A1|]. split; [exact A2|]. split; [|split].
    + intros id b t Hin. cbn [fsys] in Hin. unfold TokLocal. cbn [ntok pends].
      destruct (A8 id b t Hin) as [[Hlt Hin0]|[Hge (r & R1 & R2 & R3)]].
      * destruct (HT id b t Hin0) as [_ Hq]. split; [lia|]. intros q r Hq' Hr Et.
        apply in_app_or in Hq'. destruct Hq' as [Hq'|[<-|[]]].
        -- rewrite A4 in Hq'. apply Hq; assumption.
        -- cbn [q_refs] in Hr. apply in_rev in Hr. destruct (A9 r Hr) as (X & _). lia.
      * split; [lia|]. intros q r' Hq' Hr' Et.
        apply in_app_or in Hq'. destruct Hq' as [Hq'|[<-|[]]].
        -- rewrite A4 in Hq'. specialize (HP q r' Hq' Hr'). lia.
        -- cbn [q_refs q_data] in *. apply in_rev in Hr'.
           assert (r' = r) by (apply A10; [exact Hr'|exact R1|congruence]). subst r'. exact R3.
    + intros q r Hq Hr. cbn [pends ntok] in *. apply in_app_or in Hq. destruct Hq as [Hq|[<-|[]]].
      * rewrite A4 in Hq. specialize (HP q r Hq Hr). lia.
      * cbn [q_refs] in Hr. apply in_rev in Hr. destruct (A9 r Hr) as (X & _). lia.
    + intros id b loc bsz boff Hin. cbn [fsys blocks] in *. rewrite A5. apply (HS id). apply A11. exact Hin.
  - destruct H as (acc' & HA). apply (AInv_BInv st data HB st1 acc' HA).
Qed.

(* commitBlock(sync=true): writing a block now and turning its segments into stored ones is invisible *)
Lemma commit_sync_ok st refs : BInv st ->
  let '(st', _) := commit_sync mb st refs in abs mb (fsys mb st') = abs mb (fsys mb st) /\ BInv st'.
Proof.
  intros HB. unfold commit_sync. destruct refs as [|r0 refs']; [auto|]. set (refs := r0 :: refs').
  set (data := refs_data mb (fsys mb st) refs).
  pose proof (assign_ok st data true refs [] st 0 [] (AInv_init st data HB) eq_refl eq_refl) as H.
  destruct (assign_tokens mb true refs st 0 []) as [st1 [[prs total]|]].
  2:{ destruct H as (acc' & HA). apply (AInv_BInv st data HB st1 acc' HA). }
  destruct (AInv_BInv st data HB st1 (rev prs) H) as [Habs1 HB1].
  destruct (put_fails (mode mb st1) data).
  { cbn [fsys]. split; [exact Habs1|]. destruct HB1 as (G1 & T1 & P1 & S1). split; [exact G1|]. split; [|split].
    - intros id. apply T1.
    - exact P1.
    - exact S1. }
  pose proof H as (A1 & A2 & A3 & A4 & A5 & A6 & A6b & A7 & A8 & A9 & A10 & A11).
  set (loc := length (blocks mb st1)). set (bsz := length data).
  (* loop invariant of the installation *)
  assert (HL : forall l s,
     (forall r, In r l -> In r (rev prs)) ->
     abs mb s = abs mb (fsys mb st) -> Good mb s -> same_bytes_fs s (fsys mb st) ->
     (forall id b t, In (Mem b (Some t)) (file_segs mb s id) -> In (Mem b (Some t)) (file_segs mb (fsys mb st1) id)) ->
     (forall id b l' z o, In (Sto b l' z o) (file_segs mb s id) ->
         In (Sto b l' z o) (file_segs mb (fsys mb st) id) \/ (l' = loc /\ z = bsz /\ is_slice b o data)) ->
     let s' := fold_left (install_sync mb loc bsz) l s in
     abs mb s' = abs mb (fsys mb st) /\ Good mb s' /\
     (forall id b t, In (Mem b (Some t)) (file_segs mb s' id) -> In (Mem b (Some t)) (file_segs mb (fsys mb st1) id)) /\
     (forall id b l' z o, In (Sto b l' z o) (file_segs mb s' id) ->
         In (Sto b l' z o) (file_segs mb (fsys mb st) id) \/ (l' = loc /\ z = bsz /\ is_slice b o data))).
  { induction l as [|r l IH]; intros s Hsub Ha Hg Hsb Hm Hs; cbn [fold_left]; [auto|].
    assert (Hsub' : forall x, In x l -> In x (rev prs)) by (intros x Hx; apply Hsub; right; exact Hx).
    destruct (A9 r (Hsub r (or_introl eq_refl))) as (_ & Hidx & Hsl).
    assert (Hlen : length (file_segs mb s (r_file r)) = length (file_segs mb (fsys mb st) (r_file r)))
      by (rewrite <- (map_length sbytes), (Hsb (r_file r)), map_length; reflexivity).
    assert (Ei : install_sync mb loc bsz s r =
              match seg_at mb s (r_file r) (r_idx r) with
              | Mem b _ => set_seg_at mb s (r_file r) (r_idx r) (Sto b loc bsz (r_boff r))
              | Sto _ _ _ _ => s
              end) by reflexivity.
    rewrite Ei. clear Ei.
    destruct (seg_at mb s (r_file r) (r_idx r)) as [b tok|b l0 z0 o0] eqn:Es; [|apply IH; assumption].
    assert (Hb0 : sbytes (seg_at mb (fsys mb st) (r_file r) (r_idx r)) = b)
      by (rewrite seg_at_nth, nth_map_sbytes, <- (Hsb (r_file r)), <- nth_map_sbytes, <- seg_at_nth, Es; reflexivity).
    destruct (set_seg_at_ok s (r_file r) (r_idx r) (Sto b loc bsz (r_boff r)) Hg ltac:(lia) ltac:(rewrite Es; reflexivity)) as (S1 & S2 & S3).
    apply IH; [exact Hsub'| | | | |].
    - rewrite S1. exact Ha.
    - exact S2.
    - intros id. rewrite S3. destruct (Nat.eqb_spec id (r_file r)) as [->|]; [|apply Hsb].
      rewrite set_nth_same_bytes; [apply Hsb|lia|]. rewrite <- seg_at_nth, Es. reflexivity.
    - intros id b' t' Hin. rewrite S3 in Hin. destruct (Nat.eqb_spec id (r_file r)) as [->|]; [|apply Hm; exact Hin].
      apply In_set_nth in Hin. destruct Hin as [E|Hin]; [discriminate|apply Hm; exact Hin].
    - intros id b' l' z o Hin. rewrite S3 in Hin. destruct (Nat.eqb_spec id (r_file r)) as [->|]; [|apply Hs; exact Hin].
      apply In_set_nth in Hin. destruct Hin as [E|Hin]; [|apply Hs; exact Hin].
      inversion E; subst b' l' z o. right. split; [reflexivity|]. split; [reflexivity|]. rewrite <- Hb0. exact Hsl. }
  destruct HB1 as (G1 & T1 & P1 & S1).
  destruct (HL prs (fsys mb st1) (fun r Hr => proj1 (in_rev _ _) Hr) Habs1 G1 A3 (fun _ _ _ H => H)
              (fun id b l' z o Hin => or_introl (A11 id b l' z o Hin))) as (F1 & F2 & F3 & F4).
  cbn zeta in *. cbn [fsys]. split; [exact F1|]. split; [exact F2|]. split; [|split].
  - intros id b t Hin. cbn [fsys] in Hin. unfold TokLocal in *. cbn [ntok pends]. apply (T1 id b t). apply F3. exact Hin.
  - exact P1.
  - intros id b l' z o Hin. cbn [fsys blocks] in *. destruct (F4 id b l' z o Hin) as [Hold|(-> & -> & Hsl)].
    + destruct HB as (_ & _ & _ & HS). rewrite A5. apply (StoLocal_more _ data _ (HS id)). exact Hold.
    + exists data. split; [|split; [reflexivity|exact Hsl]]. unfold loc. rewrite nth_error_app2 by lia. rewrite Nat.sub_diag. reflexivity.
Qed.

(* ---------- flush ---------- *)
Definition quiet (st st' : bst mb) : Prop := abs mb (fsys mb st') = abs mb (fsys mb st) /\ BInv st'.
Lemma quiet_refl st : BInv st -> quiet st st.
Proof. intros H. split; [reflexivity|exact H]. Qed.
Lemma quiet_trans a b c : quiet a b -> quiet b c -> quiet a c.
Proof. intros [A1 A2] [B1 B2]. split; [congruence|exact B2]. Qed.

Lemma commit_any_quiet (sync : bool) st refs : BInv st ->
  quiet st (fst (if sync then commit_sync mb st refs else (commit_async mb st refs, true))).
Proof.
  intros HB. destruct sync.
  - pose proof (commit_sync_ok st refs HB) as H. destruct (commit_sync mb st refs) as [st' ok]. exact H.
  - exact (commit_async_ok st refs HB).
Qed.

Lemma flush_segs_quiet sync fid : forall l i st ok pending plen, BInv st ->
  let '(st', _, _, _) := flush_segs mb sync fid i l st ok pending plen in quiet st st'.
Proof.
  induction l as [|s l IH]; intros i st ok pending plen HB; cbn [flush_segs]; [apply quiet_refl; exact HB|].
  destruct s as [b tok|b loc bsz boff]; [|apply IH; exact HB].
  destruct (mb / 2 <? length b).
  - pose proof (commit_any_quiet sync st [(fid, i)] HB) as Q.
    destruct (if sync then commit_sync mb st [(fid, i)] else (commit_async mb st [(fid, i)], true)) as [st1 ok1]. cbn [fst] in Q.
    specialize (IH (S i) st1 (ok && ok1) pending plen (proj2 Q)).
    destruct (flush_segs mb sync fid (S i) l st1 (ok && ok1) pending plen) as [[[st2 ?] ?] ?]. eapply quiet_trans; eassumption.
  - destruct (mb <? plen + length b).
    + pose proof (commit_any_quiet sync st pending HB) as Q.
      destruct (if sync then commit_sync mb st pending else (commit_async mb st pending, true)) as [st1 ok1]. cbn [fst] in Q.
      specialize (IH (S i) st1 (ok && ok1) [(fid, i)] (length b) (proj2 Q)).
      destruct (flush_segs mb sync fid (S i) l st1 (ok && ok1) [(fid, i)] (length b)) as [[[st2 ?] ?] ?]. eapply quiet_trans; eassumption.
    + apply IH. exact HB.
Qed.

Lemma flush_dir_quiet fuel : forall sync short recursive st d, BInv st ->
  quiet st (fst (flush_dir mb fuel sync short recursive st d)).
Proof.
  induction fuel as [|fuel IH]; intros sync short recursive st d HB; cbn [flush_dir]; [apply quiet_refl; exact HB|].
  set (step := fun (acc : bst mb * bool * list (nat * nat) * nat) (e : string * nat) =>
        let '(st0, ok0, pending, plen) := acc in
        if is_dir C (fsys mb st0) (snd e) then
          if recursive then let '(st1, ok1) := flush_dir mb fuel sync short true st0 (snd e) in (st1, ok0 && ok1, pending, plen) else acc
        else flush_segs mb sync (snd e) 0 (file_segs mb (fsys mb st0) (snd e)) st0 ok0 pending plen).
  assert (Hfold : forall ents acc, BInv (fst (fst (fst acc))) ->
            quiet (fst (fst (fst acc))) (fst (fst (fst (fold_left step ents acc))))).
  { induction ents as [|e ents IHe]; intros [[[st0 ok0] pending] plen] HB0; cbn [fold_left fst]; [apply quiet_refl; exact HB0|].
    cbn [fst] in HB0.
    assert (Q : quiet st0 (fst (fst (fst (step (st0, ok0, pending, plen) e))))).
    { unfold step. destruct (is_dir C (fsys mb st0) (snd e)).
      - destruct recursive; [|apply quiet_refl; exact HB0].
        pose proof (IH sync short true st0 (snd e) HB0) as Q.
        destruct (flush_dir mb fuel sync short true st0 (snd e)) as [st1 ok1]. exact Q.
      - pose proof (flush_segs_quiet sync (snd e) (file_segs mb (fsys mb st0) (snd e)) 0 st0 ok0 pending plen HB0) as Q.
        destruct (flush_segs mb sync (snd e) 0 (file_segs mb (fsys mb st0) (snd e)) st0 ok0 pending plen) as [[[st1 ?] ?] ?]. exact Q. }
    eapply quiet_trans; [exact Q|]. apply IHe. exact (proj2 Q). }
  specialize (Hfold (dir_ents C (fsys mb st) d) (st, true, [], 0) HB).
  fold step. destruct (fold_left step (dir_ents C (fsys mb st) d) (st, true, [], 0)) as [[[st1 ok1] pending] plen].
  cbn [fst] in Hfold. destruct short; [|exact Hfold].
  pose proof (commit_any_quiet sync st1 pending (proj2 Hfold)) as Q.
  destruct (if sync then commit_sync mb st1 pending else (commit_async mb st1 pending, true)) as [st2 ok2].
  cbn [fst] in *. eapply quiet_trans; eassumption.
Qed.

(* Flush(path, shortBlocks): whatever it starts, readers see nothing *)
Theorem b_flush_quiet st path short : BInv st -> quiet st (fst (b_flush mb st path short)).
Proof.
  intros HB. unfold b_flush. destruct (rlookup C (fsys mb st) path) as [d|e]; [|apply quiet_refl; exact HB].
  destruct (is_dir C (fsys mb st) d); cbn [negb]; [|apply quiet_refl; exact HB].
  pose proof (flush_dir_quiet (length (inodes C (fsys mb st))) false short (String.eqb path "") st d HB) as Q.
  destruct (flush_dir mb (length (inodes C (fsys mb st))) false short (String.eqb path "") st d) as [st1 ok]. exact Q.
Qed.

(* MarshalManifest: success or failure, the buffered data stays intact and readable *)
Theorem b_marshal_quiet tab st : BInv st -> quiet st (fst (b_marshal mb tab st)).
Proof.
  intros HB. unfold b_marshal.
  pose proof (flush_dir_quiet (length (inodes C (fsys mb st))) true true true st root_id HB) as Q.
  destruct (flush_dir mb (length (inodes C (fsys mb st))) true true true st root_id) as [st1 ok].
  destruct ok; exact Q.
Qed.

(* ---------- foreground operations other than Write only slice or drop segments ---------- *)
Lemma add_handle_fst s x : forall s1 h1, add_handle C s x = (s1, h1) -> segs_from s1 s.
Proof. intros s1 h1 E. pose proof (segs_from_add_handle s x) as H. rewrite E in H. exact H. Qed.

Lemma open_file_from s name fl : Good mb s -> segs_from (fst (open_file C s name fl)) s.
Proof.
  intros [[Hf _] _]. unfold open_file. destruct (o_sync fl); [apply segs_from_refl|].
  destruct (path_split name) as [dirname base].
  destruct (rlookup C s dirname) as [parent|e]; [|apply segs_from_refl].
  destruct (o_acc fl =? 3); [apply segs_from_refl|].
  destruct (_ && _ && _).
  { destruct (add_handle C s _) as [s1 h1] eqn:E. cbn [fst]. eapply add_handle_fst; exact E. }
  destruct (_ && _ && _).
  { destruct (add_handle C s _) as [s1 h1] eqn:E. cbn [fst]. eapply add_handle_fst; exact E. }
  destruct (child C s parent base) as [[n|]|e]; [| |apply segs_from_refl].
  - destruct (o_excl fl); [apply segs_from_refl|]. destruct (o_trunc fl).
    + destruct (negb _); [apply segs_from_refl|].
      destruct (i_node C (get_ino C s n)) as [f|e] eqn:En; [|apply segs_from_refl].
      destruct (add_handle C (set_file C s n (f_trunc C f 0)) _) as [s1 h1] eqn:E. cbn [fst].
      eapply segs_from_trans; [eapply add_handle_fst; exact E|].
      apply segs_from_set_file. rewrite (file_segs_file s n f En). cbn [f_trunc Conc].
      apply truncate_prov. eapply Hf; exact En.
    + destruct (add_handle C s _) as [s1 h1] eqn:E. cbn [fst]. eapply add_handle_fst; exact E.
  - destruct (negb (o_create fl)); [apply segs_from_refl|].
    destruct (add_ino C s _) as [s1 id] eqn:E1.
    destruct (add_handle C (set_ents C s1 parent (ents_put (dir_ents C s1 parent) base id)) _) as [s3 h3] eqn:E3. cbn [fst].
    eapply segs_from_trans; [eapply add_handle_fst; exact E3|].
    eapply segs_from_trans; [apply segs_from_set_ents|].
    pose proof (segs_from_add_ino s {| i_node := IFile (I := C) (f_empty C); i_parent := parent |}) as H.
    rewrite E1 in H. apply H. reflexivity.
Qed.

Lemma mkdir_from s name : segs_from (fst (mkdir C s name)) s.
Proof.
  unfold mkdir. destruct (path_split name) as [dirname base].
  destruct (rlookup C s dirname) as [n|e]; [|apply segs_from_refl].
  destruct (child C s n base) as [[c|]|e]; try apply segs_from_refl.
  destruct (add_ino C s _) as [s1 id] eqn:E1. cbn [fst].
  eapply segs_from_trans; [apply segs_from_set_ents|].
  pose proof (segs_from_add_ino s {| i_node := IDir (I := C) []; i_parent := n |}) as H. rewrite E1 in H. apply H. exact I.
Qed.

Lemma rename_from s a b : segs_from (fst (rename C s a b)) s.
Proof.
  unfold rename. destruct (path_split a) as [olddir oldname]. destruct (special_name oldname); [apply segs_from_refl|].
  destruct (rlookup C s olddir) as [od|e]; [|apply segs_from_refl].
  destruct (path_split b) as [newdir newname0]. destruct (_ || _); [apply segs_from_refl|].
  destruct (rlookup C s newdir) as [nd|e]; [|apply segs_from_refl].
  destruct (ents_find (dir_ents C s od) oldname) as [oi|]; [|apply segs_from_refl].
  destruct (mem_nat oi _); [apply segs_from_refl|]. destruct (_ && _); [apply segs_from_refl|].
  assert (Hmv : forall nn, segs_from (set_ents C (set_parent C (set_ents C s nd (ents_put (dir_ents C s nd) nn oi)) oi nd) od
             (ents_del (dir_ents C (set_parent C (set_ents C s nd (ents_put (dir_ents C s nd) nn oi)) oi nd) od) oldname)) s).
  { intros nn. eapply segs_from_trans; [apply segs_from_set_ents|]. eapply segs_from_trans; [apply segs_from_set_parent|apply segs_from_set_ents]. }
  destruct (ents_find (dir_ents C s nd) _) as [ex|]; [destruct (is_dir C s ex); [apply segs_from_refl|]|]; cbn [fst]; apply Hmv.
Qed.

Lemma remove_from s name : segs_from (fst (remove C s name)) s.
Proof.
  unfold remove. destruct (path_split _) as [dirname base]. destruct (special_name base); [apply segs_from_refl|].
  destruct (rlookup C s dirname) as [d|e]; [|apply segs_from_refl].
  destruct (i_node C (get_ino C s d)) as [f|ents]; [apply segs_from_refl|].
  destruct (ents_find ents base) as [n|]; [|apply segs_from_refl].
  destruct (_ && _); [apply segs_from_refl|]. cbn [fst]. apply segs_from_set_ents.
Qed.

Lemma h_read_from s h n : segs_from (fst (h_read C s h n)) s.
Proof.
  unfold h_read. destruct (get_handle C s h) as [x|]; [|apply segs_from_refl].
  destruct (negb (h_r C x)); [apply segs_from_refl|].
  destruct (i_node C (get_ino C s (h_ino C x))) as [f|e]; [|apply segs_from_set_handle].
  destruct (f_read C f n (h_ptr C x)) as [[d p'] eof]. cbn [fst]. apply segs_from_set_handle.
Qed.
Lemma h_seek_from s h o neg wh : segs_from (fst (h_seek C s h o neg wh)) s.
Proof.
  unfold h_seek. destruct (get_handle C s h) as [x|]; [|apply segs_from_refl].
  destruct (_ && _); [apply segs_from_refl|]. destruct (_ =? _); [apply segs_from_refl|]. cbn [fst]. apply segs_from_set_handle.
Qed.
Lemma h_trunc_from s h n : Good mb s -> segs_from (fst (h_trunc C s h n)) s.
Proof.
  intros [[Hf _] _]. unfold h_trunc. destruct (get_handle C s h) as [x|]; [|apply segs_from_refl].
  destruct (i_node C (get_ino C s (h_ino C x))) as [f|e] eqn:En; [|apply segs_from_refl]. cbn [fst].
  apply segs_from_set_file. rewrite (file_segs_file s _ f En). cbn [f_trunc Conc]. apply truncate_prov. eapply Hf; exact En.
Qed.
Lemma h_write_from s h d : Good mb s -> segs_from (fst (h_write C s h d)) s.
Proof.
  intros [[Hf _] _]. unfold h_write. destruct (get_handle C s h) as [x|]; [|apply segs_from_refl].
  destruct (negb (h_w C x)); [apply segs_from_refl|].
  destruct (i_node C (get_ino C s (h_ino C x))) as [f|e] eqn:En; [|apply segs_from_set_handle].
  pose proof (fn_write_prov mb f (if h_append C x then p_eof C f else h_ptr C x) d (Hf _ _ En)) as H.
  cbn [f_write Conc]. destruct (fn_write mb f _ d) as [f' p']. cbn [fst].
  eapply segs_from_trans; [apply segs_from_set_handle|]. apply segs_from_set_file. rewrite (file_segs_file s _ f En). exact H.
Qed.

Lemma step_from s o : Good mb s -> segs_from (fst (step C s o)) s.
Proof.
  intros HG. destruct o; cbn [step].
  - pose proof (open_file_from s name fl HG) as H. destruct (open_file C s name fl) as [s' [r|e]]; exact H.
  - pose proof (h_read_from s h n) as H. destruct (h_read C s h n) as [s' [[d eof]|e]]; exact H.
  - pose proof (h_write_from s h data HG) as H. destruct (h_write C s h data) as [s' [r|e]]; exact H.
  - pose proof (h_seek_from s h off neg whence) as H. destruct (h_seek C s h off neg whence) as [s' [r|e]]; exact H.
  - pose proof (h_trunc_from s h size HG) as H. destruct (h_trunc C s h size) as [s' [r|e]]; exact H.
  - destruct (h_stat C s h) as [[d n]|e]; apply segs_from_refl.
  - destruct (h_readdir C s h) as [l|e]; apply segs_from_refl.
  - pose proof (mkdir_from s name) as H. destruct (mkdir C s name) as [s' [r|e]]; exact H.
  - pose proof (rename_from s a b) as H. destruct (rename C s a b) as [s' [r|e]]; exact H.
  - pose proof (remove_from s name) as H. destruct (remove C s name) as [s' [r|e]]; exact H.
  - destruct (stat C s name) as [[d n]|e]; apply segs_from_refl.
Qed.

(* a foreground operation of the tree layer, run inside the background-write state *)
Lemma fg_step_ok st o : BInv st ->
  let '(s', v) := step C (fsys mb st) o in
  step Spec (abs mb (fsys mb st)) o = (abs mb s', v) /\ BInv (with_fs mb st s').
Proof.
  intros (HG & HT & HP & HS). pose proof (step_sim mb Hmb (fsys mb st) o HG) as H.
  pose proof (step_from (fsys mb st) o HG) as Hfrom.
  destruct (step C (fsys mb st) o) as [s' v]. cbn [fst] in Hfrom. destruct H as [H1 H2].
  split; [exact H1|]. split; [exact H2|]. split; [|split].
  - intros id. apply TokLocal_with_fs. cbn [fsys with_fs]. eapply TokLocal_prov; [apply Hfrom|apply HT].
  - apply PendFresh_with_fs. exact HP.
  - apply BSto_from; assumption.
Qed.

End BGP.
