(* C05 — Desired derived from the referencing collections (model/C05_desired.v): what the map holds,
   and the whole specification restated over the collections' own demands. *)
From Coq Require Import List Arith Bool Lia.
From AV Require Import model.C05_model model.C05_run model.C05_desired proofs.C05_spec proofs.C05_fixed_proofs proofs.C05_main.
Import ListNotations.

(* ---------- set_max ---------- *)
Lemma set_max_keys k n d : forall x, In x (map fst (set_max k n d)) <-> x = k \/ In x (map fst d).
Proof.
  induction d as [|[k' v] r IH]; simpl; intros x.
  - split; [intros [E|[]]; auto|intros [E|[]]; auto].
  - destruct (k' =? k) eqn:E; simpl.
    + apply Nat.eqb_eq in E. subst. split; [intros [H|H]; auto|intros [H|[H|H]]; auto].
    + rewrite IH. split; [intros [H|[H|H]]; auto|intros [H|[H|H]]; auto].
Qed.

Lemma set_max_nodup k n d : NoDup (map fst d) -> NoDup (map fst (set_max k n d)).
Proof.
  induction d as [|[k' v] r IH]; simpl; intros N.
  - constructor; [intros []|constructor].
  - inversion N as [|? ? Hnin N']; subst. destruct (k' =? k) eqn:E; simpl.
    + constructor; auto.
    + constructor; [|auto]. rewrite set_max_keys. intros [H|H]; [|auto].
      apply Nat.eqb_neq in E. congruence.
Qed.

Lemma set_max_lookup k n d c :
  lookup (set_max k n d) c = if c =? k then Nat.max (lookup d c) n else lookup d c.
Proof.
  induction d as [|[k' v] r IH]; simpl.
  - rewrite (Nat.eqb_sym k c). destruct (c =? k); reflexivity.
  - destruct (k' =? k) eqn:E; simpl.
    + apply Nat.eqb_eq in E. subst k'. rewrite (Nat.eqb_sym k c). destruct (c =? k) eqn:F; [|reflexivity].
      destruct (v <? n) eqn:L; [apply Nat.ltb_lt in L|apply Nat.ltb_ge in L]; lia.
    + destruct (k' =? c) eqn:F; [|exact IH].
      apply Nat.eqb_eq in F. subst k'. rewrite E. reflexivity.
Qed.

(* ---------- increase_desired / desired_of ---------- *)
Definition cmax (c : nat) (l : list (nat * nat)) : nat :=
  fold_right Nat.max 0 (map snd (filter (fun kd => fst kd =? c) l)).

Lemma cmax_app c a b : cmax c (a ++ b) = Nat.max (cmax c a) (cmax c b).
Proof.
  unfold cmax. rewrite filter_app, map_app. induction (map snd (filter (fun kd => fst kd =? c) a)) as [|x r IH]; simpl; [reflexivity|].
  rewrite IH. lia.
Qed.

Lemma fold_set_max_nodup n : forall cls d, NoDup (map fst d) -> NoDup (map fst (fold_left (fun d k => set_max k n d) cls d)).
Proof. induction cls as [|k r IH]; simpl; intros d N; [exact N|]. apply IH. apply set_max_nodup. exact N. Qed.

Lemma fold_set_max_lookup n c : forall cls d,
  lookup (fold_left (fun d k => set_max k n d) cls d) c =
  Nat.max (lookup d c) (cmax c (map (fun k => (k, n)) cls)).
Proof.
  induction cls as [|k r IH]; simpl; intros d; [unfold cmax; simpl; lia|].
  rewrite IH, set_max_lookup. unfold cmax. simpl. rewrite (Nat.eqb_sym k c).
  destruct (c =? k); simpl; fold (cmax c (map (fun k0 => (k0, n)) r)); lia.
Qed.

Lemma desired_fold_nodup dflt dr : forall ks d, NoDup (map fst d) -> NoDup (map fst (fold_left (add_collection dflt dr) ks d)).
Proof.
  induction ks as [|k r IH]; simpl; intros d N; [exact N|]. apply IH. unfold add_collection, increase_desired.
  apply fold_set_max_nodup. exact N.
Qed.

(* Desired is a map: one entry per class *)
Theorem desired_of_nodup dflt dr ks : NoDup (map fst (desired_of dflt dr ks)).
Proof. unfold desired_of. apply desired_fold_nodup. constructor. Qed.

Lemma desired_fold_lookup dflt dr c : forall ks d,
  lookup (fold_left (add_collection dflt dr) ks d) c = Nat.max (lookup d c) (cmax c (demands dflt dr ks)).
Proof.
  induction ks as [|k r IH]; simpl; intros d; [unfold cmax; simpl; lia|].
  rewrite IH. unfold add_collection, increase_desired. rewrite fold_set_max_lookup, cmax_app. lia.
Qed.

(* Desired[class] = the largest replication level among the referencing collections that list the class
   (a collection listing no class lists "default"; no replication_desired = the default replication);
   0 when no referencing collection lists it *)
Theorem desired_of_is_max dflt dr ks c : lookup (desired_of dflt dr ks) c = cmax c (demands dflt dr ks).
Proof. unfold desired_of. rewrite desired_fold_lookup. simpl. reflexivity. Qed.

Lemma cmax_ge c d l : In (c, d) l -> d <= cmax c l.
Proof.
  unfold cmax. induction l as [|[k v] r IH]; simpl; intros H; [contradiction|].
  destruct H as [E|H].
  - injection E as -> ->. rewrite Nat.eqb_refl. simpl. lia.
  - specialize (IH H). destruct (k =? c); simpl; lia.
Qed.

Lemma lookup_pos_In des k : 0 < lookup des k -> In (k, lookup des k) des.
Proof.
  induction des as [|[k' v] r IH]; simpl; intros H; [lia|].
  destruct (k' =? k) eqn:E; [apply Nat.eqb_eq in E; subst; auto|auto].
Qed.

(* every positive demand of a referencing collection is covered by the map entry of its class *)
Theorem demand_covered dflt dr ks k d : In (k, d) (demands dflt dr ks) -> 0 < d ->
  exists d', In (k, d') (desired_of dflt dr ks) /\ d <= d'.
Proof.
  intros Hin Hd. exists (lookup (desired_of dflt dr ks) k).
  pose proof (cmax_ge k d _ Hin) as G. rewrite <- desired_of_is_max in G.
  split; [apply lookup_pos_In; lia|exact G].
Qed.

Lemma cmax_pos_In k : forall l, 0 < cmax k l -> In (k, cmax k l) l.
Proof.
  unfold cmax. induction l as [|[k' v] r IH]; simpl; [lia|].
  destruct (k' =? k) eqn:E; simpl; [|intros H; right; auto].
  apply Nat.eqb_eq in E. subst k'. intros H.
  destruct (Nat.max_spec v (fold_right Nat.max 0 (map snd (filter (fun kd => fst kd =? k) r)))) as [[A B]|[A B]]; rewrite B in *.
  - right. apply IH. exact H.
  - left. reflexivity.
Qed.

(* and the map never asks for more than some referencing collection does *)
Theorem desired_is_some_demand dflt dr ks k d : In (k, d) (desired_of dflt dr ks) -> 0 < d ->
  In (k, d) (demands dflt dr ks).
Proof.
  intros Hin Hd. pose proof (lookup_In _ k d (desired_of_nodup dflt dr ks) Hin) as L.
  rewrite desired_of_is_max in L. subst d. apply cmax_pos_In. exact Hd.
Qed.

(* ---------- the specification is monotone in Desired ---------- *)
Lemma spec_desired_mono c D1 D2 tr pl lost :
  (forall k d, In (k, d) D1 -> 0 < d -> exists d', In (k, d') D2 /\ d <= d') ->
  Spec (with_desired c D2) tr pl lost -> Spec (with_desired c D1) tr pl lost.
Proof.
  intros Cov. unfold Spec. simpl. intros (A & B & C & D & E).
  split; [exact A|]. split; [|split; [|split; [exact D|]]].
  - intros k d Hin Hd Hlt. destruct (Cov k d Hin Hd) as (d' & Hin' & Hle). apply (B k d' Hin'); lia.
  - intros k d Hin Hd. destruct (Cov k d Hin Hd) as (d' & Hin' & Hle).
    specialize (C k d' Hin' ltac:(lia)). lia.
  - intros Hr (k & d & Hin & Hd). apply E; [exact Hr|].
    destruct (Cov k d Hin Hd) as (d' & Hin' & Hle). exists k, d'. split; [exact Hin'|lia].
Qed.

(* layout part of well-formedness (mount ids distinct, replicas refer to reported mounts) *)
Definition wfl_b (c : case) : bool :=
  nodupb (map mid (setup (c_raw c) (c_sro c))) &&
  forallb (fun r => existsb (fun x => mid x =? fst r) (c_raw c)) (c_repl c).

Lemma wf_with_desired c D : wfl_b c = true -> NoDup (map fst D) -> wf_b (with_desired c D) = true.
Proof.
  unfold wfl_b, wf_b. simpl. intros H N. rewrite H. simpl. apply nodupb_NoDup. exact N.
Qed.

(* ---------- the whole property, from collections to trash lists ---------- *)
(* for every layout, replica set and every list of referencing collections (any classes in any order,
   any replication levels, with or without replication_desired): the lists computed from the derived
   Desired satisfy the specification with respect to EVERY single demand of EVERY referencing collection *)
Theorem coll_meets_spec b : wfl_b (b_case b) = true ->
  let '(chs, lost) := m_out (b_model_case b) in Spec (b_spec_case b) (trashes chs) (pulls chs) lost.
Proof.
  intros W. unfold b_model_case, b_spec_case.
  set (dflt := c_dflt (b_case b)). set (dr := b_defrepl b). set (ks := b_colls b).
  pose proof (fixed2_meets_spec (with_desired (b_case b) (desired_of dflt dr ks))
                (wf_with_desired _ _ W (desired_of_nodup dflt dr ks))) as S.
  destruct (m_out (with_desired (b_case b) (desired_of dflt dr ks))) as [chs lost].
  apply spec_desired_mono with (D2 := desired_of dflt dr ks); [|exact S].
  intros k d Hin Hd. apply demand_covered; assumption.
Qed.

(* the boolean that judges the implementation reflects that specification *)
Theorem b_spec_b_reflects b :
  b_spec_b b = true <-> Spec (b_spec_case b) (o_trash (b_case b)) (o_pull (b_case b)) (o_lost (b_case b)).
Proof. unfold b_spec_b, spec_b. apply spec_core_reflects. Qed.

(* ---------- regression witness: leaving the class loop at the first satisfied class ---------- *)
(* the variant of increaseDesired that stops at the first class whose entry is already >= n *)
Fixpoint increase_desired_stop (d : list (nat * nat)) (classes : list nat) (n : nat) : list (nat * nat) :=
  match classes with
  | [] => d
  | k :: r => if existsb (fun kv => (fst kv =? k) && (n <=? snd kv)) d then d
              else increase_desired_stop (set_max k n d) r n
  end.
Definition desired_of_stop (dflt dr : nat) (ks : list coll) : list (nat * nat) :=
  fold_left (fun d k => increase_desired_stop d (classes_or_default dflt (k_classes k)) (coll_repl dr k)) ks [].

(* two servers, one "default" volume (mount 1) and one "archive" volume (mount 2), a replica on each; a plain
   collection and one listing [default; archive], both at replication 1: the variant forgets "archive", the
   archive replica is trashed and class archive falls from 1 to 0 *)
Definition w_stop : bcase :=
  {| b_defrepl := 2; b_colls := [mkc [] (Some 1); mkc [1; 0] (Some 1)];
     b_case := {| c_dflt := 1; c_raw := [mkm 1 0 1 false 1 []; mkm 2 1 2 false 1 [0]]; c_sro := [];
                  c_repl := [(1, 10); (2, 11)]; c_desired := []; c_rank := [0; 1]; c_devrank := [0; 1; 2]; c_min := 100;
                  o_trash := []; o_pull := []; o_lost := false |} |}.
Lemma stop_variant_refuted :
  desired_of_stop 1 2 (b_colls w_stop) = [(1, 1)] /\
  desired_of 1 2 (b_colls w_stop) = [(1, 1); (0, 1)] /\
  trashes (fst (m_out (with_desired (b_case w_stop) (desired_of_stop 1 2 (b_colls w_stop))))) = [(2, 11)] /\
  trashes (fst (m_out (b_model_case w_stop))) = [] /\
  wfl_b (b_case w_stop) = true /\
  spec_core (b_spec_case w_stop) [(2, 11)] [] false = false.
Proof. vm_compute. repeat split; reflexivity. Qed.
