(* C06 (b), (c) — the index readers reject every proper prefix of a well-formed index, accept the
   complete text with exactly its entries, and keepstore's handleIndex produces a complete text only
   when every volume succeeded. *)
From Coq Require Import List Arith Bool NArith ZArith Ascii String Lia.
From AV Require Import model.C06_model.
Import ListNotations.
Local Open Scope string_scope.

(* ---------- strings ---------- *)
Lemma sapp_assoc (a b c : string) : (a ++ b) ++ c = a ++ (b ++ c).
Proof. induction a as [|x a IH]; simpl; [reflexivity|]. rewrite IH. reflexivity. Qed.
Lemma sapp_nil_r (a : string) : a ++ "" = a.
Proof. induction a as [|x a IH]; simpl; [reflexivity|]. rewrite IH. reflexivity. Qed.

Fixpoint all_chars (p : ascii -> bool) (s : string) : bool :=
  match s with EmptyString => true | String c r => p c && all_chars p r end.
Lemma all_chars_app p a b : all_chars p (a ++ b) = all_chars p a && all_chars p b.
Proof. induction a as [|x a IH]; simpl; [reflexivity|]. rewrite IH, andb_assoc. reflexivity. Qed.
Lemma all_chars_weaken (p q : ascii -> bool) s : (forall c, p c = true -> q c = true) -> all_chars p s = true -> all_chars q s = true.
Proof.
  intros H. induction s as [|c r IH]; simpl; [auto|]. rewrite !andb_true_iff. intros [A B]. split; auto.
Qed.

(* ---------- well-formed index entries ---------- *)
Definition not_lf (c : ascii) : bool := negb (Ascii.eqb c LF).
Definition not_cr (c : ascii) : bool := negb (Ascii.eqb c CR).
Definition not_sp (c : ascii) : bool := negb (Ascii.eqb c SP).
Definition not_sep (c : ascii) : bool := not_lf c && not_cr c && not_sp c.
Definition is_digit (c : ascii) : bool := match digit_val c with Some _ => true | None => false end.
(* locator: no line feed, carriage return or space; mtime: a non-empty decimal *)
Definition wf_entry (e : string * string) : bool :=
  all_chars not_sep (fst e) && negb (String.eqb (snd e) "") && all_chars is_digit (snd e).
Definition line_of (e : string * string) : string := fst e ++ String SP (snd e).

Lemma render_line_eq e : render_line e = line_of e ++ String LF "".
Proof. unfold render_line, line_of. rewrite sapp_assoc. reflexivity. Qed.
Lemma render_lines_cons e es : render_lines (e :: es) = line_of e ++ String LF (render_lines es).
Proof. unfold render_lines. simpl. rewrite render_line_eq, sapp_assoc. reflexivity. Qed.
Lemma render_index_cons e es : render_index (e :: es) = line_of e ++ String LF (render_index es).
Proof. unfold render_index. rewrite render_lines_cons, sapp_assoc. reflexivity. Qed.

Lemma digit_not_sep c : is_digit c = true -> not_sep c = true.
Proof.
  unfold is_digit, digit_val, not_sep, not_lf, not_cr, not_sp.
  destruct ((48 <=? N_of_ascii c)%N && (N_of_ascii c <=? 57)%N) eqn:E; [|discriminate]. intros _.
  apply andb_true_iff in E. destruct E as [E1 E2]. apply N.leb_le in E1, E2.
  assert (H : forall d, (N_of_ascii d < 48)%N -> Ascii.eqb c d = false).
  { intros d Hd. destruct (Ascii.eqb c d) eqn:X; [|reflexivity]. apply Ascii.eqb_eq in X. subst. lia. }
  rewrite (H LF), (H CR), (H SP); [reflexivity| | |]; vm_compute; reflexivity.
Qed.

(* a line is not empty, has no LF and no CR, and ends with a digit *)
Lemma line_chars e : wf_entry e = true -> all_chars not_lf (line_of e) = true /\ all_chars not_cr (line_of e) = true.
Proof.
  unfold wf_entry, line_of. rewrite !andb_true_iff. intros [[A _] C].
  assert (D : all_chars not_sep (snd e) = true) by (eapply all_chars_weaken; [apply digit_not_sep|exact C]).
  rewrite !all_chars_app. simpl.
  assert (P1 : forall s, all_chars not_sep s = true -> all_chars not_lf s = true).
  { intros s. apply all_chars_weaken. unfold not_sep. intros c H. apply andb_true_iff in H. destruct H as [H _]. apply andb_true_iff in H. tauto. }
  assert (P2 : forall s, all_chars not_sep s = true -> all_chars not_cr s = true).
  { intros s. apply all_chars_weaken. unfold not_sep. intros c H. apply andb_true_iff in H. destruct H as [H _]. apply andb_true_iff in H. tauto. }
  rewrite (P1 _ A), (P1 _ D), (P2 _ A), (P2 _ D). split; reflexivity.
Qed.
Lemma line_nonempty e : line_of e <> "".
Proof. unfold line_of. destruct (fst e); simpl; discriminate. Qed.

(* ---------- split_on ---------- *)
Lemma split_on_nonnil sep s : split_on sep s <> [].
Proof. destruct s as [|c r]; simpl; [discriminate|]. destruct (Ascii.eqb c sep); [discriminate|]. destruct (split_on sep r); discriminate. Qed.

Lemma split_on_free sep l : all_chars (fun c => negb (Ascii.eqb c sep)) l = true -> split_on sep l = [l].
Proof.
  induction l as [|c r IH]; simpl; [reflexivity|]. rewrite andb_true_iff. intros [A B].
  apply negb_true_iff in A. rewrite A, (IH B). reflexivity.
Qed.
Lemma split_on_app sep l r : all_chars (fun c => negb (Ascii.eqb c sep)) l = true ->
  split_on sep (l ++ String sep r) = l :: split_on sep r.
Proof.
  induction l as [|c l IH]; simpl.
  - intros _. rewrite Ascii.eqb_refl. reflexivity.
  - rewrite andb_true_iff. intros [A B]. apply negb_true_iff in A. rewrite A, (IH B). reflexivity.
Qed.

(* a prefix of  l ++ LF ++ w  (l without LF) is a prefix of l, or l ++ LF ++ a prefix of w *)
Lemma prefix_cases l : forall p q w, all_chars not_lf l = true ->
  p ++ q = l ++ String LF w ->
  (exists q', p ++ q' = l /\ q = q' ++ String LF w) \/ (exists p', p = l ++ String LF p' /\ p' ++ q = w).
Proof.
  induction l as [|c l IH]; intros p q w Hl H; simpl in *.
  - destruct p as [|x p]; simpl in H.
    + left. exists "". split; [reflexivity|exact H].
    + injection H as -> H. right. exists p. split; [reflexivity|exact H].
  - apply andb_true_iff in Hl. destruct Hl as [Hc Hl].
    destruct p as [|x p]; simpl in H.
    + left. exists (String c l). split; [reflexivity|exact H].
    + injection H as -> H. destruct (IH p q w Hl H) as [(q' & A & B)|(p' & A & B)].
      * left. exists q'. split; [simpl; rewrite A; reflexivity|exact B].
      * right. exists p'. split; [rewrite A; reflexivity|exact B].
Qed.

Lemma prefix_chars (P : ascii -> bool) p q l : p ++ q = l -> all_chars P l = true -> all_chars P p = true.
Proof. intros <-. rewrite all_chars_app, andb_true_iff. tauto. Qed.

(* ---------- the shape of the pieces of a proper prefix ---------- *)
Definition good_full (t : string) : Prop := t <> "" /\ all_chars not_cr t = true.
Definition good_partial (t : string) : Prop := all_chars not_cr t = true.

Lemma pieces_of_prefix : forall es p q,
  forallb wf_entry es = true -> p ++ q = render_index es -> q <> "" ->
  exists fulls partial, split_on LF p = (fulls ++ [partial])%list /\ Forall good_full fulls /\ good_partial partial.
Proof.
  induction es as [|e es IH]; intros p q Hwf H Hq.
  - unfold render_index, render_lines in H. simpl in H.
    destruct p as [|x p]; simpl in H.
    + exists [], "". simpl. split; [reflexivity|]. split; [constructor|reflexivity].
    + injection H as _ H. destruct p; simpl in H; [contradiction|discriminate].
  - simpl in Hwf. apply andb_true_iff in Hwf. destruct Hwf as [He Hes].
    rewrite render_index_cons in H. destruct (line_chars e He) as [Llf Lcr].
    destruct (prefix_cases _ _ _ _ Llf H) as [(q' & A & B)|(p' & A & B)].
    + exists [], p. split.
      * simpl. apply split_on_free. eapply prefix_chars; [exact A|exact Llf].
      * split; [constructor|]. eapply prefix_chars; [exact A|exact Lcr].
    + destruct (IH p' q Hes B Hq) as (fulls & partial & S & F & G).
      exists (line_of e :: fulls), partial. split.
      * rewrite A. rewrite (split_on_app LF _ _ Llf). rewrite S. reflexivity.
      * split; [|exact G]. constructor; [|exact F]. split; [apply line_nonempty|exact Lcr].
Qed.

(* ---------- scanner and line loop ---------- *)
Lemma drop_cr_id s : all_chars not_cr s = true -> drop_cr s = s.
Proof.
  induction s as [|c r IH]; simpl; [reflexivity|]. rewrite andb_true_iff. intros [A B].
  destruct r as [|d r'].
  - unfold not_cr in A. apply negb_true_iff in A. rewrite A. reflexivity.
  - rewrite (IH B). reflexivity.
Qed.

Lemma deliver_tokens : forall l ts e, deliver l = (ts, e) -> forall t, In t ts -> exists x, In x l /\ t = drop_cr x.
Proof.
  induction l as [|x r IH]; intros ts e H t Ht; simpl in H.
  - injection H as <- _. contradiction.
  - destruct (max_token <=? nlen x)%N; [injection H as <- _; contradiction|].
    destruct (deliver r) as [ts' e'] eqn:E. injection H as <- _.
    destruct Ht as [<-|Ht]; [exists x; split; [left; reflexivity|reflexivity]|].
    destruct (IH _ _ eq_refl t Ht) as (y & A & B). exists y. split; [right; exact A|exact B].
Qed.

Lemma index_lines_no_blank : forall ts acc, (forall t, In t ts -> t <> "") ->
  (exists e, index_lines ts false acc = inl e) \/ (exists ents, index_lines ts false acc = inr (false, ents)).
Proof.
  induction ts as [|t r IH]; intros acc H; simpl.
  - right. eauto.
  - destruct t as [|c t'] eqn:Et; [exfalso; apply (H ""); [left; reflexivity|reflexivity]|].
    destruct (split_on SP (String c t')) as [|d [|m [|x y]]]; try (left; eauto; fail).
    destruct (parse_int64 m); [|left; eauto].
    apply IH. intros u Hu. apply H. right; exact Hu.
Qed.

(* every proper prefix of a well-formed index is rejected by KeepService.index *)
Theorem parse_index_truncated es p q :
  forallb wf_entry es = true -> p ++ q = render_index es -> q <> "" ->
  exists e, parse_index p = inl e.
Proof.
  intros Hwf H Hq. destruct (pieces_of_prefix es p q Hwf H Hq) as (fulls & partial & S & F & G).
  unfold parse_index, scan_lines. rewrite S.
  assert (T : forall l, (forall x, In x l -> x <> "" /\ all_chars not_cr x = true) ->
              forall ts e, deliver l = (ts, e) -> forall t, In t ts -> t <> "").
  { intros l Hl ts e Hd t Ht. destruct (deliver_tokens _ _ _ Hd t Ht) as (x & Hx & ->).
    destruct (Hl x Hx) as [A B]. rewrite (drop_cr_id _ B). exact A. }
  assert (Ff : forall x, In x fulls -> x <> "" /\ all_chars not_cr x = true).
  { intros x Hx. rewrite Forall_forall in F. exact (F x Hx). }
  rewrite rev_app_distr. simpl.
  destruct partial as [|c pr] eqn:Ep.
  - rewrite rev_involutive.
    destruct (deliver fulls) as [ts e] eqn:Ed.
    destruct (index_lines_no_blank ts [] (T fulls Ff ts e Ed)) as [(x & ->)|(ents & ->)]; [eauto|].
    destruct e; eauto.
  - destruct (deliver (fulls ++ [String c pr])%list) as [ts e] eqn:Ed.
    assert (Fp : forall x, In x (fulls ++ [String c pr])%list -> x <> "" /\ all_chars not_cr x = true).
    { intros x Hx. apply in_app_or in Hx. destruct Hx as [Hx|[<-|[]]]; [apply Ff; exact Hx|]. split; [discriminate|exact G]. }
    destruct (index_lines_no_blank ts [] (T _ Fp ts e Ed)) as [(x & ->)|(ents & ->)]; [eauto|].
    destruct e; eauto.
Qed.

(* ... and by KeepClient.GetIndex *)
Lemma ends_lflf_free s : all_chars not_lf s = true -> ends_lflf s = false.
Proof.
  induction s as [|a r IH]; simpl; [reflexivity|]. rewrite andb_true_iff. intros [A B].
  destruct r as [|b r']; [reflexivity|]. destruct r' as [|c r''].
  - unfold not_lf in A. apply negb_true_iff in A. rewrite A. reflexivity.
  - apply IH; exact B.
Qed.
(* in front of a text of at least two characters, what precedes does not matter *)
Lemma ends_lflf_skip1 c s : 2 <= String.length s -> ends_lflf (String c s) = ends_lflf s.
Proof. destruct s as [|x [|y t]]; simpl; intros H; try lia; reflexivity. Qed.
Lemma slength_app a b : String.length (a ++ b) = String.length a + String.length b.
Proof. induction a as [|c a IH]; simpl; [reflexivity|]. rewrite IH. reflexivity. Qed.
Lemma ends_lflf_skip a s : 2 <= String.length s -> ends_lflf (a ++ s) = ends_lflf s.
Proof.
  intros H. induction a as [|c a IH]; [reflexivity|].
  change (String c a ++ s) with (String c (a ++ s)).
  rewrite ends_lflf_skip1; [exact IH|]. rewrite slength_app. lia.
Qed.

Lemma ends_lflf_app_lf l : l <> "" -> all_chars not_lf l = true -> ends_lflf (l ++ String LF "") = false.
Proof.
  induction l as [|a r IH]; intros Hne Hl; [contradiction|]. simpl in Hl. apply andb_true_iff in Hl. destruct Hl as [A B].
  destruct r as [|b r'].
  - simpl. unfold not_lf in A. apply negb_true_iff in A. rewrite A. reflexivity.
  - change (String a (String b r') ++ String LF "") with (String a (String b r' ++ String LF "")).
    rewrite ends_lflf_skip1; [apply IH; [discriminate|exact B]|]. rewrite slength_app. simpl. lia.
Qed.

Theorem get_index_truncated : forall es p q,
  forallb wf_entry es = true -> p ++ q = render_index es -> q <> "" -> get_index p = None.
Proof.
  assert (X : forall es p q, forallb wf_entry es = true -> p ++ q = render_index es -> q <> "" ->
              String.eqb p (String LF "") = false /\ ends_lflf p = false).
  { induction es as [|e es IH]; intros p q Hwf H Hq.
    - unfold render_index, render_lines in H. simpl in H.
      destruct p as [|x p]; simpl in H; [split; reflexivity|].
      injection H as _ H. destruct p; simpl in H; [contradiction|discriminate].
    - simpl in Hwf. apply andb_true_iff in Hwf. destruct Hwf as [He Hes].
      rewrite render_index_cons in H. destruct (line_chars e He) as [Llf _].
      destruct (prefix_cases _ _ _ _ Llf H) as [(q' & A & B)|(p' & A & B)].
      + assert (Pl : all_chars not_lf p = true) by (eapply prefix_chars; [exact A|exact Llf]).
        split; [|apply ends_lflf_free; exact Pl].
        destruct p as [|c r]; [reflexivity|]. simpl in Pl. apply andb_true_iff in Pl. destruct Pl as [Pc _].
        unfold not_lf in Pc. apply negb_true_iff in Pc. simpl. rewrite Pc. reflexivity.
      + destruct (IH p' q Hes B Hq) as [I1 I2]. subst p. split.
        * pose proof (line_nonempty e) as Ne. destruct (line_of e) as [|c r] eqn:El; [contradiction|].
          simpl in Llf. apply andb_true_iff in Llf. destruct Llf as [Pc _].
          unfold not_lf in Pc. apply negb_true_iff in Pc. simpl. rewrite Pc. reflexivity.
        * destruct p' as [|c [|d t]].
          -- apply ends_lflf_app_lf; [apply line_nonempty|exact Llf].
          -- rewrite ends_lflf_skip by (simpl; lia). simpl.
             simpl in I1. destruct (Ascii.eqb c LF) eqn:E; [|reflexivity]. discriminate.
          -- rewrite ends_lflf_skip by (simpl; lia). rewrite ends_lflf_skip1 by (simpl; lia). exact I2. }
  intros es p q Hwf H Hq. destruct (X es p q Hwf H Hq) as [A B]. unfold get_index. rewrite A, B. reflexivity.
Qed.

(* ---------- round trip for the complete text ---------- *)
Definition mt_val (m : string) : N := match parse_digits m 0%N with Some n => n | None => 0%N end.
Definition conv (e : string * string) : string * Z := (fst e, norm_mtime (Z.of_N (mt_val (snd e)))).
(* the bounds the code has: a line fits the scanner buffer, the mtime fits int64 *)
Definition fits (e : string * string) : bool :=
  (nlen (line_of e) <? max_token)%N && (Z.of_N (mt_val (snd e)) <? two63)%Z.

Lemma split_render_index es : forallb wf_entry es = true ->
  split_on LF (render_index es) = (map line_of es ++ [""; ""])%list.
Proof.
  induction es as [|e es IH]; intros Hwf; [reflexivity|].
  simpl in Hwf. apply andb_true_iff in Hwf. destruct Hwf as [He Hes].
  rewrite render_index_cons. destruct (line_chars e He) as [Llf _].
  rewrite (split_on_app LF _ _ Llf), (IH Hes). reflexivity.
Qed.

Lemma parse_digits_some : forall m acc, all_chars is_digit m = true -> exists n, parse_digits m acc = Some n.
Proof.
  induction m as [|c r IH]; intros acc H; simpl; [eauto|].
  simpl in H. apply andb_true_iff in H. destruct H as [A B]. unfold is_digit in A.
  destruct (digit_val c); [apply IH; exact B|discriminate].
Qed.

Lemma parse_int64_digits m : m <> "" -> all_chars is_digit m = true ->
  (Z.of_N (mt_val m) <? two63)%Z = true -> parse_int64 m = Some (Z.of_N (mt_val m)).
Proof.
  intros Hne Hd Hr. destruct m as [|c r]; [contradiction|].
  unfold parse_int64.
  assert (Hc : is_digit c = true) by (simpl in Hd; apply andb_true_iff in Hd; tauto).
  assert (N1 : Ascii.eqb c "+" = false).
  { destruct (Ascii.eqb c "+") eqn:E; [|reflexivity]. apply Ascii.eqb_eq in E. subst c. vm_compute in Hc. discriminate. }
  assert (N2 : Ascii.eqb c "-" = false).
  { destruct (Ascii.eqb c "-") eqn:E; [|reflexivity]. apply Ascii.eqb_eq in E. subst c. vm_compute in Hc. discriminate. }
  rewrite N1, N2. unfold parse_unsigned.
  destruct (parse_digits_some (String c r) 0%N Hd) as (n & En).
  unfold mt_val in *. rewrite En in *. rewrite Hr. reflexivity.
Qed.

Lemma split_line e : wf_entry e = true -> split_on SP (line_of e) = [fst e; snd e].
Proof.
  unfold wf_entry, line_of. rewrite !andb_true_iff. intros [[A _] C].
  assert (A' : all_chars (fun c => negb (Ascii.eqb c SP)) (fst e) = true).
  { eapply all_chars_weaken; [|exact A]. unfold not_sep, not_sp. intros c H. apply andb_true_iff in H. tauto. }
  assert (C' : all_chars (fun c => negb (Ascii.eqb c SP)) (snd e) = true).
  { eapply all_chars_weaken; [|exact C]. intros c H. apply digit_not_sep in H. unfold not_sep, not_sp in H. apply andb_true_iff in H. tauto. }
  rewrite (split_on_app SP _ _ A'), (split_on_free SP _ C'). reflexivity.
Qed.

Lemma deliver_lines : forall es, forallb wf_entry es = true -> forallb fits es = true ->
  deliver (map line_of es ++ [""])%list = ((map line_of es ++ [""])%list, false).
Proof.
  induction es as [|e es IH]; intros Hwf Hf; [reflexivity|].
  simpl in Hwf, Hf. apply andb_true_iff in Hwf. destruct Hwf as [He Hes]. apply andb_true_iff in Hf. destruct Hf as [Fe Fes].
  simpl. unfold fits in Fe. apply andb_true_iff in Fe. destruct Fe as [Fl _]. apply N.ltb_lt in Fl.
  assert ((max_token <=? nlen (line_of e))%N = false) by (apply N.leb_gt; exact Fl). rewrite H.
  rewrite (IH Hes Fes). destruct (line_chars e He) as [_ Lcr]. rewrite (drop_cr_id _ Lcr). reflexivity.
Qed.

Lemma index_lines_ok : forall es acc, forallb wf_entry es = true -> forallb fits es = true ->
  index_lines (map line_of es ++ [""])%list false acc = inr (true, (rev acc ++ map conv es)%list).
Proof.
  induction es as [|e es IH]; intros acc Hwf Hf.
  - simpl. rewrite app_nil_r. reflexivity.
  - simpl in Hwf, Hf. apply andb_true_iff in Hwf. destruct Hwf as [He Hes]. apply andb_true_iff in Hf. destruct Hf as [Fe Fes].
    simpl. pose proof (line_nonempty e) as Ne. destruct (line_of e) as [|c r] eqn:El; [contradiction|].
    rewrite <- El. rewrite (split_line e He).
    unfold fits in Fe. apply andb_true_iff in Fe. destruct Fe as [_ Fr].
    assert (We := He). unfold wf_entry in We. rewrite !andb_true_iff in We. destruct We as [[_ W2] W3].
    apply negb_true_iff in W2. assert (snd e <> "") by (intro X; rewrite X in W2; discriminate).
    rewrite (parse_int64_digits (snd e) H W3 Fr).
    rewrite (IH _ Hes Fes). simpl. rewrite <- app_assoc. reflexivity.
Qed.

Theorem parse_index_roundtrip es : forallb wf_entry es = true -> forallb fits es = true ->
  parse_index (render_index es) = inr (map conv es).
Proof.
  intros Hwf Hf. unfold parse_index, scan_lines. rewrite (split_render_index es Hwf).
  rewrite rev_app_distr. simpl. rewrite rev_involutive.
  rewrite (deliver_lines es Hwf Hf), (index_lines_ok es [] Hwf Hf). reflexivity.
Qed.

Lemma drop_last_cons c s : s <> "" -> drop_last (String c s) = String c (drop_last s).
Proof. destruct s; [contradiction|reflexivity]. Qed.
Lemma drop_last_app_lf s : drop_last (s ++ String LF "") = s.
Proof.
  induction s as [|c r IH]; [reflexivity|].
  change (String c r ++ String LF "") with (String c (r ++ String LF "")).
  rewrite drop_last_cons by (destruct r; discriminate). rewrite IH. reflexivity.
Qed.

Theorem get_index_roundtrip es : forallb wf_entry es = true ->
  get_index (render_index es) = Some (render_lines es).
Proof.
  intros Hwf. unfold get_index.
  assert (X : String.eqb (render_index es) (String LF "") || ends_lflf (render_index es) = true).
  { destruct es as [|e es]; [reflexivity|]. apply orb_true_iff. right.
    (* the text ends with the last line's LF followed by the terminating LF *)
    assert (Y : forall es', forallb wf_entry es' = true -> es' <> [] -> ends_lflf (render_index es') = true).
    { induction es' as [|e' es' IH]; intros Hw Hne; [contradiction|].
      simpl in Hw. apply andb_true_iff in Hw. destruct Hw as [He' Hes']. rewrite render_index_cons.
      destruct es' as [|e2 es2].
      - unfold render_index, render_lines. simpl. rewrite ends_lflf_skip by (simpl; lia). reflexivity.
      - rewrite ends_lflf_skip.
        + rewrite ends_lflf_skip1; [apply IH; [exact Hes'|discriminate]|].
          rewrite render_index_cons, slength_app. pose proof (line_nonempty e2). destruct (line_of e2); [contradiction|]. simpl. lia.
        + simpl. rewrite render_index_cons, slength_app. simpl. lia. }
    apply Y; [exact Hwf|discriminate]. }
  rewrite X. unfold render_index. rewrite drop_last_app_lf. reflexivity.
Qed.

(* ---------- (c) keepstore handleIndex ---------- *)
(* the text a volume writes when it succeeds: its entries, one line each *)
Definition vol_ok (es : list (string * string)) : vol_out := {| v_text := render_lines es; v_ok := true |}.

Lemma render_lines_app a b : render_lines (a ++ b)%list = render_lines a ++ render_lines b.
Proof.
  induction a as [|e a IH]; [reflexivity|].
  change ((e :: a) ++ b)%list with (e :: (a ++ b))%list. rewrite !render_lines_cons, IH, sapp_assoc. reflexivity.
Qed.

(* every volume succeeded: the response is the complete well-formed index of all entries *)
Theorem handle_index_complete : forall ess,
  handle_index (map vol_ok ess) = render_index (List.concat ess).
Proof.
  induction ess as [|es r IH]; [reflexivity|].
  simpl. rewrite IH. unfold render_index. rewrite render_lines_app, sapp_assoc. reflexivity.
Qed.

(* a volume fails after writing part of its lines (possibly cut inside a line): the response is a
   proper prefix of a well-formed index, hence rejected by both readers *)
Theorem handle_index_truncated : forall ess es_f written rest after,
  forallb wf_entry (List.concat ess ++ es_f)%list = true ->
  written ++ rest = render_lines es_f ->
  let body := handle_index (map vol_ok ess ++ {| v_text := written; v_ok := false |} :: after)%list in
  (exists e, parse_index body = inl e) /\ get_index body = None.
Proof.
  intros ess es_f written rest after Hwf Hw body.
  assert (B : body = render_lines (List.concat ess) ++ written).
  { unfold body. clear. induction ess as [|es r IH]; [reflexivity|].
    simpl. rewrite IH, render_lines_app, sapp_assoc. reflexivity. }
  assert (P : body ++ (rest ++ String LF "") = render_index (List.concat ess ++ es_f)%list).
  { rewrite B. unfold render_index. rewrite render_lines_app, <- Hw, !sapp_assoc. reflexivity. }
  assert (Q : rest ++ String LF "" <> "") by (destruct rest; discriminate).
  split; [eapply parse_index_truncated; eauto|eapply get_index_truncated; eauto].
Qed.
