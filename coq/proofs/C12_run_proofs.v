(* C12 — the evaluator's fast paths and boolean oracle mean what they should. *)
From Coq Require Import Arith NArith List Ascii String Bool Sorted Permutation Lia.
From AV Require Import lib.Str lib.Md5 lib.SortPerm model.C12_model model.C12_run proofs.C12_proofs.
Import ListNotations.
Local Open Scope string_scope.

(* looking a weight up in the table computed once per case gives the model's weight *)
Lemma wlook_mk_wtab h (all : list svc) u : In u (map uuid all) -> wlook (mk_wtab h all) u = weight h u.
Proof.
  induction all as [|s all IH]; cbn [map In mk_wtab wlook]; [tauto|].
  destruct (String.eqb_spec (uuid s) u) as [->|Hne]; [reflexivity|].
  intros [E|Hin]; [contradiction|]. apply IH. exact Hin.
Qed.

(* sorting with two key functions that agree on the list gives the same result *)
Lemma insert_ext {A K} (k1 k2 : A -> K) ltb x l :
  k1 x = k2 x -> (forall y, In y l -> k1 y = k2 y) -> insert A K k1 ltb x l = insert A K k2 ltb x l.
Proof.
  intros Hx. induction l as [|y l IH]; intros Hl; cbn [insert]; [reflexivity|].
  rewrite Hx, (Hl y (or_introl eq_refl)). destruct (ltb (k2 y) (k2 x)); [reflexivity|].
  rewrite IH; [reflexivity|]. intros z Hz. apply Hl. right; exact Hz.
Qed.
Lemma sort_ext {A K} (k1 k2 : A -> K) ltb l :
  (forall y, In y l -> k1 y = k2 y) -> sort A K k1 ltb l = sort A K k2 ltb l.
Proof.
  induction l as [|x l IH]; intros Hl; cbn [sort fold_right]; [reflexivity|].
  fold (sort A K k1 ltb l). fold (sort A K k2 ltb l). rewrite IH by (intros y Hy; apply Hl; right; exact Hy).
  apply insert_ext; [apply Hl; left; reflexivity|].
  intros y Hy. apply Hl. right. eapply Permutation_in; [apply sort_perm|exact Hy].
Qed.

(* the evaluator's table-based sort is the model's sort for any sub-list of the services *)
Theorem sorted_t_eq h (all l : list svc) :
  (forall s, In s l -> In (uuid s) (map uuid all)) -> sorted_t (mk_wtab h all) l = sorted h l.
Proof.
  intros Hsub. unfold sorted_t, sorted. apply sort_ext. intros s Hs. unfold wkey. apply wlook_mk_wtab. apply Hsub. exact Hs.
Qed.

(* ---- the boolean oracle ---- *)
Lemma count_occ_eq x l : count x l = count_occ string_dec l x.
Proof.
  induction l as [|y l IH]; cbn [count count_occ]; [reflexivity|].
  destruct (String.eqb_spec x y) as [->|Hne].
  - destruct (string_dec y y); [cbn; rewrite IH; reflexivity|contradiction].
  - destruct (string_dec y x) as [E|]; [subst; contradiction|]. rewrite IH. reflexivity.
Qed.

Theorem perm_b_sound a b : perm_b a b = true -> Permutation a b.
Proof.
  intros H. apply (Permutation_count_occ string_dec). intros x.
  unfold perm_b in H. rewrite forallb_forall in H.
  destruct (in_dec string_dec x (a ++ b)) as [Hin|Hnin].
  - specialize (H x Hin). apply Nat.eqb_eq in H. rewrite <- !count_occ_eq. exact H.
  - assert (~ In x a /\ ~ In x b) as [Ha Hb] by (split; intro; apply Hnin; apply in_or_app; auto).
    rewrite (proj1 (count_occ_not_In string_dec a x) Ha), (proj1 (count_occ_not_In string_dec b x) Hb). reflexivity.
Qed.

(* consecutive weights never increase *)
Theorem desc_b_sound ws : desc_b ws = true -> Sorted (fun a b => str_ltb a b = false) ws.
Proof.
  induction ws as [|a [|b r] IH]; intros H; [constructor|constructor; constructor|].
  cbn [desc_b] in H. apply andb_true_iff in H. destruct H as [H1 H2]. constructor; [apply IH; exact H2|].
  constructor. apply negb_true_iff. exact H1.
Qed.

(* what order_ok_b accepts: an arrangement of exactly the given roots whose weights never increase *)
Theorem order_ok_b_sound t svcs out : order_ok_b t svcs out = true ->
  Permutation out (map root svcs) /\
  Sorted (fun a b => str_ltb a b = false)
         (map (fun r => match find_root svcs r with Some s => wlook t (uuid s) | None => "" end) out).
Proof.
  unfold order_ok_b. intros H. apply andb_true_iff in H. destruct H as [H1 H2].
  split; [apply perm_b_sound; exact H1|apply desc_b_sound; exact H2].
Qed.
