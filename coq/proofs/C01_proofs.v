(* C01 — proofs about model/C01_model.v and the boolean specification of model/C01_run.v.
   Everything is parametric in the digest function H (no property of MD5 is used); where two contents
   could share a digest the conclusion carries the explicit collision disjunct. *)
From Coq Require Import NArith Arith List String Bool Lia.
From AV Require Import lib.Str model.C01_model model.C01_run.
Import ListNotations.
Local Open Scope N_scope.

Lemma content_eqb_eq a b : content_eqb a b = true <-> a = b.
Proof.
  unfold content_eqb. destruct a as [i l], b as [j m]; cbn. rewrite andb_true_iff, !N.eqb_eq.
  split; [intros [-> ->]; reflexivity|intros X; inversion X; auto].
Qed.
Lemma content_eqb_refl a : content_eqb a a = true.
Proof. apply content_eqb_eq; reflexivity. Qed.

Section P.
Variable H : content -> string.

(* a copy that GetBlock can serve: a regular file within BlockSize whose digest is the block name *)
Definition servable (h : string) (v : vol) (c : content) : Prop :=
  lookup v h = File c /\ clen c <= BlockSize /\ H c = h.

Lemma intact_true h c : intact H h c = true <-> H c = h.
Proof. unfold intact. apply String.eqb_eq. Qed.

Lemma vol_get_data v h c : vol_get v h = RData c <-> lookup v h = File c /\ clen c <= BlockSize.
Proof.
  unfold vol_get. destruct (lookup v h) as [|c'|]; try (split; [discriminate|intros [X _]; discriminate]).
  destruct (N.ltb_spec BlockSize (clen c')); split.
  - discriminate.
  - intros [X Y]. inversion X; subst. lia.
  - intros X; inversion X; subst. split; [reflexivity|lia].
  - intros [X _]. inversion X; reflexivity.
Qed.

(* ---- GetBlock ---- *)
Lemma get_sound vs h e c : get_block H vs h e = GOk c -> exists v, In v vs /\ servable h v c.
Proof.
  revert e. induction vs as [|v r IH]; intros e Hg; cbn [get_block] in Hg; [discriminate|].
  destruct (vol_get v h) as [| |c'] eqn:Ev.
  - destruct (IH _ Hg) as (v' & A & B). exists v'. split; [right; exact A|exact B].
  - destruct (IH _ Hg) as (v' & A & B). exists v'. split; [right; exact A|exact B].
  - destruct (intact H h c') eqn:Ei.
    + inversion Hg; subst c'. apply vol_get_data in Ev. apply intact_true in Ei.
      exists v. split; [left; reflexivity|]. unfold servable. tauto.
    + destruct (IH _ Hg) as (v' & A & B). exists v'. split; [right; exact A|exact B].
Qed.

Lemma get_complete vs h e :
  (exists v c, In v vs /\ servable h v c) -> exists c, get_block H vs h e = GOk c /\ H c = h.
Proof.
  revert e. induction vs as [|v r IH]; intros e (v0 & c0 & Hin & Hs); [contradiction|].
  cbn [get_block]. destruct Hin as [<-|Hin].
  - destruct Hs as (A & B & C). assert (E : vol_get v h = RData c0) by (apply vol_get_data; auto).
    rewrite E. assert (Ei : intact H h c0 = true) by (apply intact_true; exact C). rewrite Ei. eauto.
  - assert (Hex : exists v c, In v r /\ servable h v c) by eauto.
    destruct (vol_get v h) as [| |c']; [apply IH; exact Hex|apply IH; exact Hex|].
    destruct (intact H h c') eqn:Ei; [|apply IH; exact Hex].
    exists c'. split; [reflexivity|apply intact_true; exact Ei].
Qed.

Lemma get_error_otherwise vs h e :
  (forall v c, In v vs -> ~ servable h v c) ->
  exists e', get_block H vs h e = GErr e' /\ (e' = e \/ e' = 500).
Proof.
  revert e. induction vs as [|v r IH]; intros e Hno; cbn [get_block]; [eauto|].
  assert (Hr : forall v' c, In v' r -> ~ servable h v' c) by (intros v' c A; apply Hno; right; exact A).
  destruct (vol_get v h) as [| |c'] eqn:Ev; [apply IH; exact Hr|apply IH; exact Hr|].
  destruct (intact H h c') eqn:Ei.
  - exfalso. apply vol_get_data in Ev. apply intact_true in Ei. apply (Hno v c'); [left; reflexivity|].
    unfold servable; tauto.
  - destruct (IH 500 Hr) as (e' & A & B). exists e'. split; [exact A|]. destruct B; auto.
Qed.

(* nothing stored under the name anywhere: 404 *)
Lemma get_all_absent vs h :
  (forall v, In v vs -> lookup v h = Absent) -> get_block H vs h 404 = GErr 404.
Proof.
  induction vs as [|v r IH]; intros Ha; cbn [get_block]; [reflexivity|].
  unfold vol_get. rewrite (Ha v) by (left; reflexivity). apply IH. intros v' A; apply Ha; right; exact A.
Qed.

(* ---- PutBlock ---- *)
Lemma lookup_set_file_same v h d : bad v h = false -> lookup (set_file v h d) h = File d.
Proof.
  intros Hb. unfold lookup. assert (E : bad (set_file v h d) h = bad v h) by reflexivity.
  rewrite E, Hb. cbn [set_file files assoc]. rewrite String.eqb_refl. reflexivity.
Qed.

Lemma write_vol_ok v h d v' : write_vol v h d = WOk v' -> lookup v' h = File d /\ ro v' = ro v.
Proof.
  unfold write_vol. destruct (full v); [discriminate|]. destruct (bad v h) eqn:Eb; [discriminate|].
  destruct (assoc (files v) h); intros X; inversion X; subst; (split; [apply lookup_set_file_same; exact Eb|reflexivity]).
Qed.

Lemma set_writable_in vs : forall k v', (k < List.length (writable vs))%nat -> ro v' = false ->
  In v' (set_writable vs k v').
Proof.
  induction vs as [|v r IH]; intros k v' Hk Hro; cbn [writable filter List.length] in Hk; [lia|].
  cbn [set_writable]. destruct (ro v) eqn:Er; cbn [negb] in Hk.
  - right. apply IH; assumption.
  - cbn [List.length] in Hk. destruct k as [|k']; [left; reflexivity|right; apply IH; [unfold writable; lia|exact Hro]].
Qed.

Lemma nth_writable_ro vs k w0 : (k < List.length (writable vs))%nat -> ro (nth k (writable vs) w0) = false.
Proof.
  intros Hk. assert (A : In (nth k (writable vs) w0) (writable vs)) by (apply nth_In; exact Hk).
  unfold writable in A. apply filter_In in A. destruct A as [_ A]. destruct (ro _); [discriminate|reflexivity].
Qed.

Lemma put_loop_ok ws : forall k h d af i v', put_loop ws k h d af = LOk i v' ->
  exists w, nth_error ws (i - k) = Some w /\ write_vol w h d = WOk v' /\ (k <= i)%nat /\ (i - k < List.length ws)%nat.
Proof.
  induction ws as [|w r IH]; intros k h d af i v' Hl; cbn [put_loop] in Hl; [discriminate|].
  destruct (write_vol w h d) as [v''| |] eqn:Ew.
  - inversion Hl; subst. exists w. rewrite Nat.sub_diag. cbn [nth_error List.length]. repeat split; try lia. exact Ew.
  - destruct (IH _ _ _ _ _ _ Hl) as (w' & A & B & C & D). exists w'.
    replace (i - k)%nat with (S (i - S k)) by lia. cbn [nth_error List.length]. repeat split; try lia; assumption.
  - destruct (IH _ _ _ _ _ _ Hl) as (w' & A & B & C & D). exists w'.
    replace (i - k)%nat with (S (i - S k)) by lia. cbn [nth_error List.length]. repeat split; try lia; assumption.
Qed.

Lemma cat_ok_copy ws h d : compare_and_touch H ws h d = CatOk ->
  exists v, In v ws /\ lookup v h = File d /\ clen d <= BlockSize.
Proof.
  induction ws as [|v r IH]; cbn [compare_and_touch]; [discriminate|].
  unfold compare. destruct (lookup v h) as [|c|] eqn:El.
  - intros X. destruct (IH X) as (v' & A & B). exists v'. split; [right; exact A|exact B].
  - destruct (N.ltb_spec BlockSize (clen c)).
    + intros X. destruct (IH X) as (v' & A & B). exists v'. split; [right; exact A|exact B].
    + destruct (content_eqb c d) eqn:Ec.
      * apply content_eqb_eq in Ec. subst c. intros _. exists v. split; [left; reflexivity|]. split; [exact El|lia].
      * destruct (intact H h c); [discriminate|].
        intros X. destruct (IH X) as (v' & A & B). exists v'. split; [right; exact A|exact B].
  - intros X. destruct (IH X) as (v' & A & B). exists v'. split; [right; exact A|exact B].
Qed.

(* an acknowledged PutBlock: the body hashes to the name and a copy equal to the body is on a volume *)
Lemma put_block_ok s h d s' : put_block H s h d = (200, s') ->
  H d = h /\ (clen d <= BlockSize -> exists v, In v (vols s') /\ lookup v h = File d).
Proof.
  unfold put_block. destruct (intact H h d) eqn:Ei; cbn [negb]; [|intros X; inversion X].
  apply intact_true in Ei. intros Hp. split; [exact Ei|]. intros Hlen.
  destruct (compare_and_touch H (writable (vols s)) h d) eqn:Ec.
  - inversion Hp; subst s'. destruct (cat_ok_copy _ _ _ Ec) as (v & A & B & _).
    exists v. split; [|exact B]. unfold writable in A. apply filter_In in A. tauto.
  - inversion Hp.
  - destruct (writable (vols s)) as [|w0 ws] eqn:Ew; [inversion Hp|].
    set (ctr := (counter s + 1) mod 4294967296) in *.
    set (k := N.to_nat (ctr mod N.of_nat (List.length (w0 :: ws)))) in *.
    assert (Hk : (k < List.length (writable (vols s)))%nat).
    { rewrite Ew. subst k. cbn [List.length].
      assert (ctr mod N.of_nat (S (List.length ws)) < N.of_nat (S (List.length ws))) by (apply N.mod_lt; lia). lia. }
    destruct (write_vol (nth k (w0 :: ws) w0) h d) as [v'| |] eqn:Ewr.
    + inversion Hp; subst s'. cbn [vols]. destruct (write_vol_ok _ _ _ _ Ewr) as [A B].
      exists v'. split; [|exact A]. apply set_writable_in; [exact Hk|].
      rewrite B, <- Ew. apply nth_writable_ro. exact Hk.
    + destruct (put_loop (w0 :: ws) 0 h d true) as [i v'|[|]] eqn:El; try (inversion Hp; fail).
      inversion Hp; subst s'. cbn [vols].
      destruct (put_loop_ok _ _ _ _ _ _ _ El) as (w & A & B & _ & D). rewrite Nat.sub_0_r in A, D.
      destruct (write_vol_ok _ _ _ _ B) as [B1 B2]. exists v'. split; [|exact B1].
      apply set_writable_in; [rewrite Ew; exact D|].
      rewrite B2. assert (Hin : In w (writable (vols s))) by (rewrite Ew; eapply nth_error_In; exact A).
      unfold writable in Hin. apply filter_In in Hin. destruct (ro w); [destruct Hin; discriminate|reflexivity].
    + destruct (put_loop (w0 :: ws) 0 h d true) as [i v'|[|]] eqn:El; try (inversion Hp; fail).
      inversion Hp; subst s'. cbn [vols].
      destruct (put_loop_ok _ _ _ _ _ _ _ El) as (w & A & B & _ & D). rewrite Nat.sub_0_r in A, D.
      destruct (write_vol_ok _ _ _ _ B) as [B1 B2]. exists v'. split; [|exact B1].
      apply set_writable_in; [rewrite Ew; exact D|].
      rewrite B2. assert (Hin : In w (writable (vols s))) by (rewrite Ew; eapply nth_error_In; exact A).
      unfold writable in Hin. apply filter_In in Hin. destruct (ro w); [destruct Hin; discriminate|reflexivity].
Qed.

(* a PutBlock that is not acknowledged leaves every volume as it was *)
Lemma put_block_fail_unchanged s h d c s' : put_block H s h d = (c, s') -> c <> 200 -> vols s' = vols s.
Proof.
  unfold put_block. destruct (negb (intact H h d)); [intros X; inversion X; reflexivity|].
  destruct (compare_and_touch H (writable (vols s)) h d); try (intros X; inversion X; reflexivity).
  destruct (writable (vols s)) as [|w0 ws]; [intros X; inversion X; reflexivity|].
  destruct (write_vol _ h d); [intros X; inversion X; congruence| |];
  (destruct (put_loop (w0 :: ws) 0 h d true) as [i v'|[|]]; intros X; inversion X; subst; [congruence|reflexivity|reflexivity]).
Qed.

(* a stored copy with the same digest but different bytes on a writable volume, met before an
   identical copy: the request fails with 500 and nothing is written *)
Lemma put_collision_stops s h d :
  H d = h -> compare_and_touch H (writable (vols s)) h d = CatCollision -> put_block H s h d = (500, s).
Proof.
  intros Hh Hc. unfold put_block. assert (E : intact H h d = true) by (apply intact_true; exact Hh).
  rewrite E; cbn [negb]. rewrite Hc. reflexivity.
Qed.

Lemma cat_collision_witness ws h d : compare_and_touch H ws h d = CatCollision ->
  exists v c, In v ws /\ lookup v h = File c /\ c <> d /\ H c = h.
Proof.
  induction ws as [|v r IH]; cbn [compare_and_touch]; [discriminate|].
  unfold compare. destruct (lookup v h) as [|c|] eqn:El.
  - intros X. destruct (IH X) as (v' & c' & A & B). exists v', c'. split; [right; exact A|exact B].
  - destruct (BlockSize <? clen c).
    + intros X. destruct (IH X) as (v' & c' & A & B). exists v', c'. split; [right; exact A|exact B].
    + destruct (content_eqb c d) eqn:Ec; [discriminate|].
      destruct (intact H h c) eqn:Ei.
      * intros _. exists v, c. split; [left; reflexivity|]. split; [exact El|]. split.
        -- intros ->. rewrite content_eqb_refl in Ec. discriminate.
        -- apply intact_true; exact Ei.
      * intros X. destruct (IH X) as (v' & c' & A & B). exists v', c'. split; [right; exact A|exact B].
  - intros X. destruct (IH X) as (v' & c' & A & B). exists v', c'. split; [right; exact A|exact B].
Qed.

(* ---- handler level ---- *)
Lemma handle_put_ok s h d r s' : handle_put H s h d = (r, s') -> code r = 200 ->
  H d = h /\ clen d <= BlockSize /\ exists v, In v (vols s') /\ lookup v h = File d.
Proof.
  unfold handle_put. destruct (N.ltb_spec BlockSize (clen d)); [intros X; inversion X; subst; cbn; discriminate|].
  destruct (writable (vols s)) eqn:Ew; [intros X; inversion X; subst; cbn; discriminate|].
  destruct (put_block H s h d) as [c s1] eqn:Ep. intros X; inversion X; subst. cbn [code]. intros ->.
  destruct (put_block_ok _ _ _ _ Ep) as [A B]. split; [exact A|]. split; [lia|]. apply B; lia.
Qed.

Lemma handle_put_fail_unchanged s h d r s' : handle_put H s h d = (r, s') -> code r <> 200 -> vols s' = vols s.
Proof.
  unfold handle_put. destruct (BlockSize <? clen d); [intros X; inversion X; reflexivity|].
  destruct (writable (vols s)); [intros X; inversion X; reflexivity|].
  destruct (put_block H s h d) as [c s1] eqn:Ep. intros X; inversion X; subst. cbn [code]. intros Hc.
  eapply put_block_fail_unchanged; eassumption.
Qed.

Lemma handle_get_ok s h :
  (exists v c, In v (vols s) /\ servable h v c) ->
  exists c, handle_get H s h = {| code := 200; body := Some c; clength := Some (clen c) |} /\ H c = h /\
            exists v, In v (vols s) /\ servable h v c.
Proof.
  intros Hex. unfold handle_get. destruct (get_complete _ h 404 Hex) as (c & A & B). rewrite A.
  exists c. split; [reflexivity|]. split; [exact B|]. apply (get_sound _ _ _ _ A).
Qed.

Lemma handle_get_err s h :
  (forall v c, In v (vols s) -> ~ servable h v c) ->
  exists e, handle_get H s h = {| code := e; body := None; clength := None |} /\ (e = 404 \/ e = 500).
Proof.
  intros Hno. unfold handle_get. destruct (get_error_otherwise _ h 404 Hno) as (e & A & B). rewrite A. eauto.
Qed.

(* once acknowledged, the block is retrievable, whatever was on the volumes before *)
Lemma put_then_get s h d r s' : handle_put H s h d = (r, s') -> code r = 200 ->
  exists c, handle_get H s' h = {| code := 200; body := Some c; clength := Some (clen c) |} /\
            H c = h /\ (c = d \/ (c <> d /\ H c = H d)).
Proof.
  intros Hp Hc. destruct (handle_put_ok _ _ _ _ _ Hp Hc) as (A & B & v & C & D).
  destruct (handle_get_ok s' h) as (c & E & F & _).
  { exists v, d. split; [exact C|]. unfold servable. tauto. }
  exists c. split; [exact E|]. split; [exact F|].
  destruct (content_eqb c d) eqn:Ecd; [left; apply content_eqb_eq; exact Ecd|right].
  split; [intros ->; rewrite content_eqb_refl in Ecd; discriminate|congruence].
Qed.

End P.

(* ------------------------------------------------------------------ *)
(* Prop-level specification over observations, and its boolean reflection *)

Definition ok (code : N) : Prop := code / 100 = 2.
Definition GoodCopy (dg : content -> string) (h : string) (x : copy) : Prop :=
  exists c, x = File c /\ dg c = h /\ clen c <= BlockSize.
Definition IntactSomewhere (dg : content -> string) (h : string) (ls : list (list (string * copy))) : Prop :=
  exists l x, In l ls /\ In (h, x) l /\ GoodCopy dg h x.

Definition SpecStep (dg : content -> string) (before : list (list (string * copy))) (o : op) (a : obs) : Prop :=
  match o with
  | Get h | Head h =>
      (ok (o_code a) -> exists b, o_body a = Some b /\ dg b = h /\ o_cl a = Some (clen b)) /\
      (ok (o_code a) <-> IntactSomewhere dg h before)
  | Put h d => ok (o_code a) -> dg d = h /\ IntactSomewhere dg h (o_after a)
  | PutShort h d n => ok (o_code a) -> dg d = h /\ IntactSomewhere dg h (o_after a)
  | PutCancel h d => ok (o_code a) -> dg d = h /\ IntactSomewhere dg h (o_after a)
  end.

Inductive SpecSteps (dg : content -> string) : list (list (string * copy)) -> list op -> list obs -> Prop :=
| SS_nil before : SpecSteps dg before [] []
| SS_cons before o a ops os : SpecStep dg before o a -> SpecSteps dg (o_after a) ops os ->
                              SpecSteps dg before (o :: ops) (a :: os).

Inductive KeepSteps (dg : content -> string) (names : list string) : list (list (string * copy)) -> list obs -> Prop :=
| KS_nil before : KeepSteps dg names before []
| KS_cons before a os :
    (forall h, In h names -> IntactSomewhere dg h before -> IntactSomewhere dg h (o_after a)) ->
    KeepSteps dg names (o_after a) os -> KeepSteps dg names before (a :: os).

Definition Spec (c : case) : Prop :=
  SpecSteps (digest c) (map (listing_of (c_names c)) (c_vols c)) (c_ops c) (c_obs c) /\
  KeepSteps (digest c) (c_names c) (map (listing_of (c_names c)) (c_vols c)) (c_obs c).

Lemma ok2_iff code : ok2 code = true <-> ok code.
Proof. unfold ok2, ok. apply N.eqb_eq. Qed.

Lemma good_copy_iff dg h x : good_copy dg h x = true <-> GoodCopy dg h x.
Proof.
  unfold good_copy, GoodCopy. destruct x as [|c|]; try (split; [discriminate|intros (c' & X & _); discriminate]).
  rewrite andb_true_iff, String.eqb_eq, N.leb_le. split.
  - intros [A B]. exists c. auto.
  - intros (c' & X & A & B). inversion X; subst. auto.
Qed.

Lemma holds_intact_iff dg h l : holds_intact dg h l = true <-> exists x, In (h, x) l /\ GoodCopy dg h x.
Proof.
  unfold holds_intact. rewrite existsb_exists. split.
  - intros ([k x] & A & B). cbn [fst snd] in B. apply andb_true_iff in B. destruct B as [B C].
    apply String.eqb_eq in B. subst k. exists x. split; [exact A|apply good_copy_iff; exact C].
  - intros (x & A & B). exists (h, x). split; [exact A|]. cbn [fst snd]. rewrite String.eqb_refl. cbn.
    apply good_copy_iff; exact B.
Qed.

Lemma intact_somewhere_iff dg h ls : intact_somewhere dg h ls = true <-> IntactSomewhere dg h ls.
Proof.
  unfold intact_somewhere, IntactSomewhere. rewrite existsb_exists. split.
  - intros (l & A & B). apply holds_intact_iff in B. destruct B as (x & B & C). exists l, x. auto.
  - intros (l & x & A & B & C). exists l. split; [exact A|]. apply holds_intact_iff. eauto.
Qed.

Lemma opt_N_eqb_iff a b : opt_N_eqb a b = true <-> a = b.
Proof.
  destruct a as [x|], b as [y|]; cbn; try (split; [discriminate|intros X; inversion X]); try tauto.
  rewrite N.eqb_eq. split; [intros ->; reflexivity|intros X; inversion X; reflexivity].
Qed.

Lemma eqb_true_iff_iff (a b : bool) (A B : Prop) :
  (a = true <-> A) -> (b = true <-> B) -> (Bool.eqb a b = true <-> (A <-> B)).
Proof. intros [X1 X2] [Y1 Y2]. destruct a, b; cbn; split; intros Z; try tauto; try discriminate;
  destruct Z as [Z1 Z2]; try (specialize (Z1 (X1 eq_refl)); apply Y2 in Z1; discriminate);
  try (specialize (Z2 (Y1 eq_refl)); apply X2 in Z2; discriminate). Qed.

Lemma spec_get_iff dg before h a :
  ((negb (ok2 (o_code a)) ||
       match o_body a with
       | Some b => String.eqb (dg b) h && opt_N_eqb (o_cl a) (Some (clen b))
       | None => false
       end) &&
    Bool.eqb (ok2 (o_code a)) (intact_somewhere dg h before)) = true <->
  ((ok (o_code a) -> exists b, o_body a = Some b /\ dg b = h /\ o_cl a = Some (clen b)) /\
   (ok (o_code a) <-> IntactSomewhere dg h before)).
Proof.
  rewrite andb_true_iff.
  rewrite (eqb_true_iff_iff _ _ _ _ (ok2_iff (o_code a)) (intact_somewhere_iff dg h before)).
  assert (X : (negb (ok2 (o_code a)) ||
       match o_body a with
       | Some b => String.eqb (dg b) h && opt_N_eqb (o_cl a) (Some (clen b))
       | None => false
       end) = true <-> (ok (o_code a) -> exists b, o_body a = Some b /\ dg b = h /\ o_cl a = Some (clen b))).
  { rewrite orb_true_iff, negb_true_iff. split.
    - intros [A|A] Hok; [apply ok2_iff in Hok; congruence|].
      destruct (o_body a) as [b|]; [|discriminate]. apply andb_true_iff in A. destruct A as [A B].
      apply String.eqb_eq in A. apply opt_N_eqb_iff in B. eauto.
    - intros Himp. destruct (ok2 (o_code a)) eqn:E; [right|left; reflexivity].
      destruct (Himp (proj1 (ok2_iff _) E)) as (b & A & B & C). rewrite A.
      apply andb_true_iff. split; [apply String.eqb_eq; exact B|apply opt_N_eqb_iff; exact C]. }
  tauto.
Qed.

Lemma spec_step_iff dg before o a : spec_step dg before o a = true <-> SpecStep dg before o a.
Proof.
  destruct o as [h|h|h d|h d n|h d]; cbn [spec_step SpecStep]; try apply spec_get_iff.
  all: rewrite orb_true_iff, negb_true_iff, andb_true_iff, String.eqb_eq, intact_somewhere_iff; split;
    [ intros [A|A] Hok; [apply ok2_iff in Hok; congruence|exact A]
    | intros Himp; destruct (ok2 (o_code a)) eqn:E; [right; apply Himp; apply ok2_iff; exact E|left; reflexivity] ].
Qed.

Lemma spec_steps_iff dg : forall ops before os, spec_steps dg before ops os = true <-> SpecSteps dg before ops os.
Proof.
  induction ops as [|o r IH]; intros before os; destruct os as [|a os']; cbn [spec_steps].
  - split; [constructor|reflexivity].
  - split; [discriminate|intros X; inversion X].
  - split; [discriminate|intros X; inversion X].
  - rewrite andb_true_iff, spec_step_iff, IH. split.
    + intros [A B]. constructor; assumption.
    + intros X; inversion X; subst; auto.
Qed.

Lemma keep_step_iff dg names before after :
  keep_step dg names before after = true <->
  (forall h, In h names -> IntactSomewhere dg h before -> IntactSomewhere dg h after).
Proof.
  unfold keep_step. rewrite forallb_forall. split.
  - intros A h Hin Hb. specialize (A h Hin). apply orb_true_iff in A. destruct A as [A|A].
    + apply negb_true_iff in A. apply intact_somewhere_iff in Hb. congruence.
    + apply intact_somewhere_iff. exact A.
  - intros A h Hin. destruct (intact_somewhere dg h before) eqn:E; [|reflexivity]. cbn [negb orb].
    apply intact_somewhere_iff. apply A; [exact Hin|apply intact_somewhere_iff; exact E].
Qed.
Lemma keep_steps_iff dg names : forall os before, keep_steps dg names before os = true <-> KeepSteps dg names before os.
Proof.
  induction os as [|a r IH]; intros before; cbn [keep_steps]; [split; [constructor|reflexivity]|].
  rewrite andb_true_iff, keep_step_iff, IH. split.
  - intros [A B]. constructor; assumption.
  - intros X. inversion X; subst. auto.
Qed.

Lemma spec_b_iff c : spec_b c = true <-> Spec c.
Proof. unfold spec_b, Spec. rewrite andb_true_iff, spec_steps_iff, keep_steps_iff. tauto. Qed.

(* ------------------------------------------------------------------ *)
(* the model's own trace satisfies the specification: for every digest function, every set of
   volumes, every request list (block names used by the requests must be among the listed names) *)

Definition op_name (o : op) : string := match o with Get h | Head h | Put h _ | PutShort h _ _ | PutCancel h _ => h end.

Section M.
Variable H : content -> string.

Lemma servable_listing names vs h :
  In h names ->
  ((exists v c, In v vs /\ servable H h v c) <-> IntactSomewhere H h (map (listing_of names) vs)).
Proof.
  intros Hn. unfold IntactSomewhere. split.
  - intros (v & c & A & B & C & D). exists (listing_of names v), (File c). split; [apply in_map; exact A|].
    split.
    + unfold listing_of. apply in_map_iff. exists h. rewrite B. auto.
    + exists c. auto.
  - intros (l & x & A & B & c & -> & C & D). apply in_map_iff in A. destruct A as (v & <- & A).
    unfold listing_of in B. apply in_map_iff in B. destruct B as (h' & B & _). inversion B; subst h'.
    exists v, c. unfold servable. auto.
Qed.

Lemma model_step_spec names s o : In (op_name o) names ->
  SpecStep H (map (listing_of names) (vols s)) o (obs_of names (handle H s o)).
Proof.
  intros Hn. destruct o as [h|h|h d|h d n|h d]; cbn [op_name] in Hn; cbn [handle SpecStep obs_of fst snd].
  5: { cbn [o_code]. intros Hok. exfalso. unfold handle_put_short in Hok.
       destruct (BlockSize <? clen d); [vm_compute in Hok; discriminate|].
       destruct (writable (vols s)); vm_compute in Hok; discriminate. }
  4: { (* a PUT whose body does not arrive completely is never acknowledged *)
       cbn [o_code]. intros Hok. exfalso. unfold handle_put_short in Hok.
       destruct (BlockSize <? n); [vm_compute in Hok; discriminate|].
       destruct (writable (vols s)); vm_compute in Hok; discriminate. }
  1,2: (destruct (servable_listing names (vols s) h Hn) as [S1 S2]; split;
    [ intros Hok; unfold handle_get in *; destruct (get_block H (vols s) h 404) as [c|e] eqn:Eg; cbn [code body clength o_code o_body o_cl] in *;
      [ exists c; destruct (get_sound _ _ _ _ _ Eg) as (v & _ & _ & _ & X); auto
      | exfalso; assert (Hall : forall v c, In v (vols s) -> ~ servable H h v c)
          by (intros v c A B; destruct (get_complete H (vols s) h 404) as (c' & X & _); [eauto|congruence]);
        destruct (get_error_otherwise H _ h 404 Hall) as (e' & X & [Y|Y]); rewrite Eg in X; inversion X; subst; unfold ok in Hok;
        [ vm_compute in Hok; discriminate | vm_compute in Hok; discriminate ] ]
    | split;
      [ intros Hok; apply S1; unfold handle_get in Hok; destruct (get_block H (vols s) h 404) as [c|e] eqn:Eg;
        [ destruct (get_sound _ _ _ _ _ Eg) as (v & A & B); eauto
        | exfalso; cbn [code o_code] in Hok;
          assert (Hall : forall v c, In v (vols s) -> ~ servable H h v c)
            by (intros v c A B; destruct (get_complete H (vols s) h 404) as (c' & X & _); [eauto|congruence]);
          destruct (get_error_otherwise H _ h 404 Hall) as (e' & X & [Y|Y]); rewrite Eg in X; inversion X; subst; unfold ok in Hok;
          [ vm_compute in Hok; discriminate | vm_compute in Hok; discriminate ] ]
      | intros Hi; apply S2 in Hi; destruct (handle_get_ok H s h Hi) as (c & E & _); rewrite E; reflexivity ] ]).
  destruct (handle_put H s h d) as [r s'] eqn:Ep. cbn [fst snd o_code o_after]. intros Hok.
  assert (Hc : code r = 200).
  { unfold handle_put in Ep. destruct (BlockSize <? clen d); [inversion Ep; subst; vm_compute in Hok; discriminate|].
    destruct (writable (vols s)); [inversion Ep; subst; vm_compute in Hok; discriminate|].
    destruct (put_block H s h d) as [c s1] eqn:Epb. inversion Ep; subst. cbn [code] in *.
    unfold put_block in Epb. destruct (negb (intact H h d)); [inversion Epb; subst; vm_compute in Hok; discriminate|].
    destruct (compare_and_touch H (writable (vols s)) h d); [inversion Epb; reflexivity|inversion Epb; subst; vm_compute in Hok; discriminate|].
    destruct (writable (vols s)) as [|w0 ws]; [inversion Epb; subst; vm_compute in Hok; discriminate|].
    destruct (write_vol _ h d); [inversion Epb; reflexivity| |];
    (destruct (put_loop (w0 :: ws) 0 h d true) as [i v'|[|]]; inversion Epb; subst; [reflexivity|vm_compute in Hok; discriminate|vm_compute in Hok; discriminate]). }
  destruct (handle_put_ok H _ _ _ _ _ Ep Hc) as (A & B & v & C & D). split; [exact A|].
  apply (servable_listing names (vols s') h Hn). exists v, d. unfold servable. auto.
Qed.


(* ---- no request takes an intact copy away ---- *)
Definition stepR (h : string) (d : content) (v v' : vol) : Prop := v' = v \/ (v' = set_file v h d /\ H d = h).
Lemma F2_stepR_refl h d vs : Forall2 (stepR h d) vs vs.
Proof. induction vs; constructor; [left; reflexivity|assumption]. Qed.
Lemma write_vol_is_set v h d v' : write_vol v h d = WOk v' -> v' = set_file v h d.
Proof.
  unfold write_vol. destruct (full v); [discriminate|]. destruct (bad v h); [discriminate|].
  destruct (assoc (files v) h); intros X; inversion X; reflexivity.
Qed.
Lemma set_writable_R h d (Hd : H d = h) : forall vs k w, nth_error (writable vs) k = Some w ->
  Forall2 (stepR h d) vs (set_writable vs k (set_file w h d)).
Proof.
  induction vs as [|v r IH]; intros k w Hk; cbn [set_writable]; [constructor|].
  cbn [writable filter] in Hk. destruct (ro v) eqn:Er; cbn [negb] in Hk.
  - constructor; [left; reflexivity|apply IH; exact Hk].
  - destruct k as [|k]; cbn [nth_error] in Hk.
    + inversion Hk; subst. constructor; [right; auto|apply F2_stepR_refl].
    + constructor; [left; reflexivity|apply IH; exact Hk].
Qed.
Lemma nth_nth_error {A} (l : list A) k d0 : (k < List.length l)%nat -> nth_error l k = Some (nth k l d0).
Proof. revert k. induction l as [|a l IH]; intros [|k] Hk; cbn in *; try lia; [reflexivity|apply IH; lia]. Qed.

Lemma put_block_R s h d c s' : put_block H s h d = (c, s') -> Forall2 (stepR h d) (vols s) (vols s').
Proof.
  unfold put_block. destruct (intact H h d) eqn:Ei; cbn [negb]; [|intros X; inversion X; apply F2_stepR_refl].
  apply intact_true in Ei.
  destruct (compare_and_touch H (writable (vols s)) h d); try (intros X; inversion X; apply F2_stepR_refl).
  destruct (writable (vols s)) as [|w0 ws] eqn:Ew; [intros X; inversion X; apply F2_stepR_refl|].
  set (k := N.to_nat (((counter s + 1) mod 4294967296) mod N.of_nat (List.length (w0 :: ws)))).
  assert (Hk : (k < List.length (w0 :: ws))%nat).
  { subst k. cbn [List.length]. pose proof (N.mod_upper_bound ((counter s + 1) mod 4294967296) (N.of_nat (S (List.length ws)))). lia. }
  destruct (write_vol (nth k (w0 :: ws) w0) h d) as [v'| |] eqn:Ewv.
  - intros X; injection X as <- <-. cbn [vols]. apply write_vol_is_set in Ewv. subst v'.
    apply (set_writable_R h d Ei). rewrite Ew. apply nth_nth_error. exact Hk.
  - destruct (put_loop (w0 :: ws) 0 h d true) as [i v'|[|]] eqn:El; intros X; injection X as <- <-; cbn [vols]; try apply F2_stepR_refl.
    destruct (put_loop_ok _ _ _ _ _ _ _ El) as (w & A & B & _ & _). rewrite Nat.sub_0_r in A.
    apply write_vol_is_set in B. subst v'. apply (set_writable_R h d Ei). rewrite Ew. exact A.
  - destruct (put_loop (w0 :: ws) 0 h d true) as [i v'|[|]] eqn:El; intros X; injection X as <- <-; cbn [vols]; try apply F2_stepR_refl.
    destruct (put_loop_ok _ _ _ _ _ _ _ El) as (w & A & B & _ & _). rewrite Nat.sub_0_r in A.
    apply write_vol_is_set in B. subst v'. apply (set_writable_R h d Ei). rewrite Ew. exact A.
Qed.

Lemma lookup_set_file_other v h d h' : h' <> h -> lookup (set_file v h d) h' = lookup v h'.
Proof.
  intros Hn. unfold lookup. assert (E : bad (set_file v h d) h' = bad v h') by reflexivity. rewrite E.
  destruct (bad v h'); [reflexivity|]. cbn [set_file files assoc].
  destruct (String.eqb_spec h h'); [congruence|reflexivity].
Qed.

Lemma stepR_servable h d (Hlen : clen d <= BlockSize) h' : forall vs vs', Forall2 (stepR h d) vs vs' ->
  (exists v x, In v vs /\ servable H h' v x) -> exists v x, In v vs' /\ servable H h' v x.
Proof.
  induction 1 as [|v v' r r' HR _ IH]; intros (u & x & Hin & Hs); [destruct Hin|].
  destruct Hin as [->|Hin].
  - destruct HR as [->|[-> Hd]]; [exists u, x; split; [left; reflexivity|exact Hs]|].
    destruct (String.eqb_spec h' h) as [->|Hn].
    + destruct Hs as (A & _ & _). exists (set_file u h d), d. split; [left; reflexivity|].
      split; [|auto]. apply lookup_set_file_same. unfold lookup in A. destruct (bad u h); [discriminate|reflexivity].
    + exists (set_file u h d), x. split; [left; reflexivity|]. destruct Hs as (A & B & D).
      split; [rewrite lookup_set_file_other by exact Hn; exact A|auto].
  - destruct IH as (v2 & x2 & A & B); [eauto|]. exists v2, x2. split; [right; exact A|exact B].
Qed.

Lemma handle_keeps s o h' :
  (exists v x, In v (vols s) /\ servable H h' v x) -> exists v x, In v (vols (snd (handle H s o))) /\ servable H h' v x.
Proof.
  intros Hs. destruct o as [h|h|h d|h d n|h d]; cbn [handle snd]; try exact Hs.
  unfold handle_put. destruct (BlockSize <? clen d) eqn:El; [exact Hs|]. apply N.ltb_ge in El.
  destruct (writable (vols s)); [exact Hs|].
  destruct (put_block H s h d) as [c s'] eqn:Ep. cbn [snd].
  eapply stepR_servable; [exact El|eapply put_block_R; exact Ep|exact Hs].
Qed.

(* the model's own trace keeps every intact copy retrievable, for every digest function, volume set
   and request list *)
Theorem model_keeps names : forall ops s,
  KeepSteps H names (map (listing_of names) (vols s)) (map (obs_of names) (run H s ops)).
Proof.
  induction ops as [|o r IH]; intros s; cbn [run map]; [constructor|].
  destruct (handle H s o) as [a s'] eqn:Eh. cbn [map]. constructor.
  - intros h Hin Hb. cbn [obs_of o_after snd].
    apply (servable_listing names (vols s') h Hin). apply (servable_listing names (vols s) h Hin) in Hb.
    replace s' with (snd (handle H s o)) by (rewrite Eh; reflexivity). apply handle_keeps. exact Hb.
  - cbn [obs_of o_after snd]. apply IH.
Qed.

Theorem model_meets_spec names : forall ops s,
  (forall o, In o ops -> In (op_name o) names) ->
  SpecSteps H (map (listing_of names) (vols s)) ops (map (obs_of names) (run H s ops)).
Proof.
  induction ops as [|o r IH]; intros s Hn; cbn [run map]; [constructor|].
  destruct (handle H s o) as [a s'] eqn:Eh. cbn [map]. constructor.
  - rewrite <- Eh. apply model_step_spec. apply Hn. left; reflexivity.
  - cbn [obs_of o_after snd]. apply IH. intros o' A. apply Hn. right; exact A.
Qed.
End M.

(* the hypotheses of the theorems are satisfiable: a corrupt copy on a read-only first volume, an
   intact copy on the second, then a PUT to a third (empty) writable volume *)
Local Open Scope string_scope.
Definition ex_H (c : content) : string := if (cid c =? 1)%N then "aaa1" else if (cid c =? 2)%N then "bbb2" else "zzz".
Definition ex_vols : list vol :=
  [ {| ro := true; full := false; badpfx := []; files := [("aaa1", File {| cid := 9; clen := 3 |})] |};
    {| ro := false; full := false; badpfx := []; files := [("aaa1", File {| cid := 1; clen := 4 |})] |};
    {| ro := false; full := false; badpfx := []; files := [] |} ].
Example ex_get_passes_over_corrupt :
  handle_get ex_H {| vols := ex_vols; counter := 0 |} "aaa1" =
  {| code := 200; body := Some {| cid := 1; clen := 4 |}; clength := Some 4 |}.
Proof. vm_compute. reflexivity. Qed.
Example ex_put_acknowledged :
  code (fst (handle_put ex_H {| vols := ex_vols; counter := 0 |} "bbb2" {| cid := 2; clen := 7 |})) = 200.
Proof. vm_compute. reflexivity. Qed.
