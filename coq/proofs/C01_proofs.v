(* C01 — proofs about model/C01_model.v (all parametric in the digest function H). *)
From Coq Require Import NArith List String Bool Lia.
From AV Require Import lib.Str model.C01_model.
Import ListNotations.
Local Open Scope N_scope.

Section P.
Variable H : content -> string.

Lemma put_block_ok_hash s h d s' : put_block H s h d = (200, s') -> H d = h.
Proof.
  unfold put_block. destruct (intact H h d) eqn:E; cbn [negb].
  - intros _. unfold intact in E. apply String.eqb_eq in E. exact E.
  - intros X. inversion X.
Qed.
End P.
