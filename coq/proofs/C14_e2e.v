(* C14 / C15 — the judge of the end-to-end event log reflects its Prop-level statement. *)
From Coq Require Import List ZArith Bool NArith Lia.
From AV Require Import model.C14_e2e_run.
Import ListNotations.
Local Open Scope Z_scope.

Definition after (s : jst) (pre : list xev) : jst := fold_left (fun s e => step_j e s) pre s.

Lemma judge_reflects_gen log : forall s,
  judge s log = true <->
  (forall pre t vm u b post, log = pre ++ XStartBegin t vm u b :: post -> start_ok (after s pre) t vm u b = true).
Proof.
  induction log as [|e r IH]; intros s; cbn [judge].
  - split; [|reflexivity]. intros _ pre t vm u b post E. destruct pre; discriminate.
  - rewrite andb_true_iff, IH. split.
    + intros [H1 H2] pre t vm u b post E. destruct pre as [|x pre]; cbn [app] in E.
      * injection E as -> ->. exact H1.
      * injection E as -> ->. cbn [after fold_left]. apply (H2 pre t vm u b post). reflexivity.
    + intros H. split.
      * destruct e; try reflexivity. apply (H [] t vm u vm_booting r). reflexivity.
      * intros pre t vm u b post E. apply (H (e :: pre) t vm u b post). cbn [app]. rewrite E. reflexivity.
Qed.

Theorem judge_reflects log : judge j0 log = true <-> E2ESpec log.
Proof. unfold E2ESpec, state_after. apply judge_reflects_gen. Qed.

(* the clauses of start_ok, spelled out *)
Lemma memN_spec x l : memN x l = true <-> In x l.
Proof.
  unfold memN. rewrite existsb_exists. split.
  - intros (y & Hy & E). apply N.eqb_eq in E. subst. exact Hy.
  - intros H. exists x. split; [exact H|apply N.eqb_refl].
Qed.
Theorem start_ok_spec s t vm u b :
  start_ok s t vm u b = true <->
  (* mutual exclusion *)
  ~ In u (map snd (j_live s)) /\ ~ In u (map snd (j_infl s)) /\
  (* locked by this dispatcher, not cancelled for longer than the grace period *)
  In u (j_locked s) /\ (forall tc, lookZ u (j_cancelled s) = Some tc -> t <= tc + grace) /\
  (* not on a booting VM, not on one seen held / draining / shut down for longer than the grace period *)
  b = false /\ (forall tb, lookZ vm (j_bad s) = Some tb -> t <= tb + grace).
Proof.
  unfold start_ok. rewrite !andb_true_iff, !negb_true_iff.
  assert (Hn : forall x l, memN x l = false <-> ~ In x l).
  { intros x l. rewrite <- memN_spec. destruct (memN x l); split; intros; congruence. }
  rewrite !Hn, memN_spec. split.
  - intros (((((A & B) & C) & D) & E) & F). repeat split; auto.
    + intros tc Hc. rewrite Hc in D. apply Z.leb_le. exact D.
    + intros tb Hb. rewrite Hb in F. apply Z.leb_le. exact F.
  - intros (A & B & C & D & E & F). repeat split; auto.
    + destruct (lookZ u (j_cancelled s)) as [tc|]; [apply Z.leb_le; apply D; reflexivity|reflexivity].
    + destruct (lookZ vm (j_bad s)) as [tb|]; [apply Z.leb_le; apply F; reflexivity|reflexivity].
Qed.

(* the judge accepts a clean run and rejects a double start / a start without lock *)
Example judge_accepts :
  judge j0 [XLock 1 7; XStartBegin 2 1 7 false; XStartEnd 3 1 7 true; XList 9 1 []; XUnlock 10 7; XLock 11 7;
            XStartBegin 12 2 7 false; XStartEnd 13 2 7 true] = true.
Proof. vm_compute. reflexivity. Qed.
Example judge_rejects_double :
  judge j0 [XLock 1 7; XStartBegin 2 1 7 false; XStartEnd 3 1 7 true; XStartBegin 12 2 7 false] = false.
Proof. vm_compute. reflexivity. Qed.
Example judge_rejects_unlocked :
  judge j0 [XLock 1 7; XUnlock 2 7; XStartBegin 3 1 7 false] = false.
Proof. vm_compute. reflexivity. Qed.
Example judge_rejects_booting :
  judge j0 [XLock 1 7; XStartBegin 3 1 7 true] = false.
Proof. vm_compute. reflexivity. Qed.
Example judge_rejects_drained :
  judge j0 [XLock 1 7; XInst 5 1 2 2; XStartBegin 5000 1 7 false] = false.
Proof. vm_compute. reflexivity. Qed.

(* the pattern of the former finding F21 (the dispatcher unlocks a container it has just re-locked and is
   starting) is a violation for the judge *)
Example judge_rejects_f21_pattern :
  judge j0 [XLock 1 7; XUnlock 50 7; XLock 52 7; XUnlock 53 7; XStartBegin 54 1 7 false] = false.
Proof. vm_compute. reflexivity. Qed.
