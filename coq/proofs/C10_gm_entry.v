(* C10 — the remaining public entry points of sdk/go/manifest: Manifest.BlockIterWithDuplicates (+ Manifest.Err) and
   Manifest.FileSegmentIterByName.
     - malformed_rejected for BlockIterWithDuplicates, for EVERY input string: an error flag once set is never cleared,
       and "no error reported" implies that every non-blank line is structurally well-formed, whichever line it is;
     - no panic;
     - on every valid manifest text: no error and exactly the block tokens of the text in order; and for every
       canonical path the delivered non-empty segments are the reference denotation of the path.
   The statements are phrased with the clauses of the boolean specification (GM.robust_op / GM.valid_op). *)
From Coq Require Import NArith Lia List Bool Ascii String Arith ZifyBool ZifyN.
From AV Require Import lib.Str model.C10_manifest model.C10_ranges model.C10_fs model.C10_gomanifest model.C10_run
  proofs.C10_ranges_proofs proofs.C10_bytes_proofs proofs.C10_pdh_proofs proofs.C10_gm_proofs proofs.C10_text_lines proofs.C10_text_fs proofs.C10_text_gm.
Import ListNotations.
Local Open Scope string_scope.
Local Open Scope list_scope.

Lemma flat_map_nil' {A B} (g : A -> list B) : forall l, (forall y, In y l -> g y = []) -> flat_map g l = [].
Proof. induction l as [|x l IH]; intros H; [reflexivity|]. cbn. rewrite (H x (or_introl eq_refl)), IH; [reflexivity|]. intros y Hy. apply H. right. exact Hy. Qed.

(* ---------- BlockIterWithDuplicates, every input ---------- *)
Lemma blocks_lines_sticky : forall ls l e, blocks_lines ls true = Ok (l, e) -> e = true.
Proof.
  induction ls as [|x ls IH]; intros l e H; cbn [blocks_lines] in H.
  - injection H as _ <-. reflexivity.
  - destruct (gm_parse_stream x); [|eapply IH; exact H|discriminate].
    destruct (blocks_lines ls true) as [[bs e']| | |] eqn:E; try discriminate. injection H as _ <-. eapply IH. reflexivity.
Qed.
Lemma blocks_lines_wf : forall ls err l, blocks_lines ls err = Ok (l, false) ->
  Forall (fun x => String.eqb x "" = false) ls -> err = false /\ forallb wf_line ls = true.
Proof.
  induction ls as [|x ls IH]; intros err l H Hne; cbn [blocks_lines] in H.
  - injection H as _ ->. split; reflexivity.
  - inversion Hne as [|? ? Hx Hrest]; subst.
    destruct (gm_parse_stream x) as [s| |] eqn:Ep; [| |discriminate].
    + destruct (blocks_lines ls err) as [[bs e']| | |] eqn:E; try discriminate. injection H as _ ->.
      destruct (IH _ _ E Hrest) as [He Hw]. split; [exact He|]. cbn [forallb]. rewrite (gm_parse_wf _ _ Ep Hx), Hw. reflexivity.
    + apply blocks_lines_sticky in H. discriminate.
Qed.
Lemma gm_lines_nonblank txt : Forall (fun x => String.eqb x "" = false) (gm_lines txt).
Proof.
  unfold gm_lines. apply Forall_forall. intros l Hin. apply filter_In in Hin. destruct Hin as [_ Hl].
  destruct (String.eqb l ""); [discriminate|reflexivity].
Qed.
Theorem gm_blocks_malformed : forall txt l e, gm_blocks txt = Ok (l, e) -> forallb wf_line (gm_lines txt) = false -> e = true.
Proof.
  intros txt l e H Hw. destruct e; [reflexivity|]. unfold gm_blocks in H.
  destruct (blocks_lines_wf _ _ _ H (gm_lines_nonblank txt)) as [_ Hw']. congruence.
Qed.
Lemma blocks_lines_no_panic : forall ls err, blocks_lines ls err <> Panic.
Proof.
  induction ls as [|x ls IH]; intros err; cbn [blocks_lines]; [discriminate|].
  destruct (gm_parse_stream x); [|apply IH|discriminate].
  pose proof (IH err) as H. destruct (blocks_lines ls err) as [[bs e]| | |]; try discriminate. congruence.
Qed.
(* the clause of spec_b, for every input string *)
Theorem gm_blocks_robust : forall txt,
  match gm_blocks txt with
  | Ok (l, e) => GM.robust_op (forallb wf_line (gm_lines txt)) (GM.OpBlocks, GM.ObsBlocks l e) = true
  | Err | Panic => False
  | Unmodelled => True
  end.
Proof.
  intros txt. destruct (gm_blocks txt) as [[l e]| | |] eqn:E; [| |exact (blocks_lines_no_panic _ _ E)|exact I].
  - unfold GM.robust_op. cbn. destruct (forallb wf_line (gm_lines txt)) eqn:Hw; [reflexivity|].
    cbn. eapply gm_blocks_malformed; eauto.
  - unfold gm_blocks in E. revert E. generalize false. induction (gm_lines txt) as [|x ls IH]; intros b E; cbn [blocks_lines] in E; [discriminate|].
    destruct (gm_parse_stream x); [|eapply IH; exact E|discriminate].
    destruct (blocks_lines ls b) as [[bs e]| | |] eqn:E'; try discriminate. eapply IH. exact E'.
Qed.

(* ---------- BlockIterWithDuplicates, valid manifests ---------- *)
Lemma lower_lhex h : all_chars is_lhex h = true -> lower h = h.
Proof.
  induction h as [|a r IH]; [reflexivity|]. cbn [all_chars lower]. intros H. apply andb_prop in H. destruct H as [Ha Hr].
  rewrite (IH Hr). f_equal. unfold lower_char. destruct (in_range 65 90 a) eqn:Eu; [|reflexivity]. exfalso.
  unfold is_lhex, is_digit, in_range in *. lia.
Qed.
Lemma take_app_length a b : take (String.length a) (a ++ b) = a.
Proof. induction a as [|x a IH]; cbn; [destruct b; reflexivity|rewrite IH; reflexivity]. Qed.
Lemma digest_key_locator tok : is_locator tok = true -> digest_key tok = loc_hash tok.
Proof.
  unfold is_locator, locator_with, digest_key, loc_hash. intros H.
  rewrite <- (join_split c_plus tok). destruct (split_on c_plus tok) as [|h [|sz hints]]; try discriminate.
  apply andb_prop in H. destruct H as [H _]. apply andb_prop in H. destruct H as [H _]. apply andb_prop in H. destruct H as [Hlen Hhex].
  apply Nat.eqb_eq in Hlen. rewrite join_cons. rewrite <- Hlen, take_app_length. apply lower_lhex. exact Hhex.
Qed.
Definition blocks_ok (m : manifest) (l : list (string * N * string)) : bool :=
  forall2b (fun x b => let '(d, n, _) := x in String.eqb d (loc_hash b) && (n =? loc_size b)%N) l (flat_map s_blocks m).
Lemma forall2b_app {A B} (f : A -> B -> bool) a b c d : forall2b f a b = true -> forall2b f c d = true -> forall2b f (a ++ c) (b ++ d) = true.
Proof.
  revert b. induction a as [|x a IH]; intros [|y b] H1 H2; cbn in *; try discriminate; [exact H2|].
  apply andb_prop in H1. destruct H1 as [H H1]. rewrite H, (IH _ H1 H2). reflexivity.
Qed.
Lemma blocks_obs_ok : forall bl, Forall (fun t => is_locator t = true) bl ->
  forall2b (fun x b => let '(d, n, _) := x in String.eqb d (loc_hash b) && (n =? loc_size b)%N) (map block_obs bl) bl = true.
Proof.
  induction 1 as [|b bl Hb _ IH]; [reflexivity|]. cbn [map forall2b]. rewrite IH. unfold block_obs at 1.
  rewrite (digest_key_locator _ Hb), String.eqb_refl, N.eqb_refl. reflexivity.
Qed.
Lemma blocks_lines_ok : forall ls m, lines_ok ls m -> Forall small_stream m ->
  exists l, blocks_lines ls false = Ok (l, false) /\ blocks_ok m l = true.
Proof.
  intros ls m Hok. induction Hok as [|line s ls m (name & fts & Hok) _ IH]; intros Hsm.
  - exists []. split; reflexivity.
  - inversion Hsm as [|? ? Hs Hsm']; subst. destruct (IH Hsm') as (l & Hl & Hb).
    cbn [blocks_lines]. rewrite (gm_parse_ok _ _ _ _ Hok Hs), Hl. eexists. split; [reflexivity|].
    unfold blocks_ok. cbn [flat_map gs_of g_blocks]. apply forall2b_app; [|exact Hb].
    apply blocks_obs_ok. exact (so_locs _ _ _ _ Hok).
Qed.
Theorem gm_blocks_text_agrees : forall txt m,
  valid_manifest txt = true -> parse_manifest txt = Some m -> small_manifest m = true ->
  exists l, gm_blocks txt = Ok (l, false) /\ GM.valid_op m (GM.OpBlocks, GM.ObsBlocks l false) = true.
Proof.
  intros txt m Hv Hp Hsm. destruct (valid_manifest_inv _ Hv) as (ls & m' & Hls & Hmo & Hp' & Hvl & Hnc).
  rewrite Hp in Hp'. injection Hp' as <-. apply small_manifest_spec in Hsm.
  pose proof (valid_lines_ok _ _ Hvl Hmo) as Hok.
  unfold gm_blocks. rewrite (gm_lines_valid _ _ _ Hls Hok).
  destruct (blocks_lines_ok _ _ Hok Hsm) as (l & Hl & Hb). exists l. split; [exact Hl|]. exact Hb.
Qed.

(* ---------- Manifest.FileSegmentIterByName, valid manifests, canonical paths ---------- *)
Lemma has_prefix_app p q : has_prefix p (p ++ q) = true.
Proof. induction p as [|a p IH]; [reflexivity|]. cbn. rewrite Ascii.eqb_refl. exact IH. Qed.
Lemma canonical_fix p : valid_stream_name_u p = true -> fix_stream_name p = p.
Proof.
  intros H. destruct (valid_stream_name_inv _ H) as (ds & Hc & Hds).
  rewrite (fix_stream_name_path p ds []); [apply path_string_of_comps; exact Hc|rewrite app_nil_r; exact Hc|exact Hds|auto].
Qed.
Lemma sel_no_prefix s T : has_prefix (s_name s ++ "/") T = false -> flat_map (sel T) (stream_entries s) = [].
Proof.
  intros Hn. unfold stream_entries. rewrite flat_map_map. apply flat_map_nil'. intros f _.
  unfold sel, entry_of. cbn [e_path e_segs]. destruct (String.eqb (path_of (s_name s) (ft_name f)) T) eqn:E; [|reflexivity].
  apply String.eqb_eq in E. subst T. unfold path_of in Hn.
  replace (s_name s ++ "/" ++ ft_name f)%string with ((s_name s ++ "/") ++ ft_name f)%string in Hn by (rewrite <- append_assoc; reflexivity).
  rewrite has_prefix_app in Hn. discriminate.
Qed.
Lemma file_segs_lines_ok T : fix_stream_name T = T -> forall ls m, lines_ok ls m -> Forall small_stream m ->
  exists l, file_segs_lines ls T = Ok l /\ filter seg_nonempty l = denote m T.
Proof.
  intros HT ls m Hok. induction Hok as [|line s ls m (name & fts & Hok) _ IH]; intros Hsm.
  - exists []. split; reflexivity.
  - inversion Hsm as [|? ? Hs Hsm']; subst. destruct (IH Hsm') as (l2 & Hl2 & Hd2).
    cbn [file_segs_lines]. rewrite (gm_parse_ok _ _ _ _ Hok Hs). change (g_name (gs_of s)) with (s_name s).
    cbn [denote flat_map]. rewrite stream_segs_entries.
    destruct (has_prefix (s_name s ++ "/") T) eqn:Epre.
    + unfold send_segs. rewrite HT. change (g_fts (gs_of s)) with (map gtok (s_ftoks s)).
      destruct (send_fts_ok s T Hs (s_ftoks s) (stream_tok_in _ _ _ _ Hok)) as (l1 & Hl1 & Hf1).
      rewrite Hl1, Hl2. exists (l1 ++ l2). split; [reflexivity|]. rewrite filter_app, Hf1, Hd2. reflexivity.
    + rewrite Hl2. exists l2. split; [reflexivity|]. rewrite (sel_no_prefix _ _ Epre). exact Hd2.
Qed.
Lemma seg_eqb_refl l : list_eqb seg_eqb l l = true.
Proof.
  induction l as [|[[a o] n] l IH]; [reflexivity|]. cbn. rewrite String.eqb_refl, !N.eqb_refl, IH. reflexivity.
Qed.
Theorem gm_file_segs_text_agrees : forall txt m path,
  valid_manifest txt = true -> parse_manifest txt = Some m -> small_manifest m = true -> valid_stream_name_u path = true ->
  exists l, gm_file_segs txt path = Ok l /\ filter seg_nonempty l = denote m path /\
            GM.valid_op m (GM.OpFileSegs path, GM.ObsSegs l) = true.
Proof.
  intros txt m path Hv Hp Hsm Hc. destruct (valid_manifest_inv _ Hv) as (ls & m' & Hls & Hmo & Hp' & Hvl & Hnc).
  rewrite Hp in Hp'. injection Hp' as <-. apply small_manifest_spec in Hsm.
  pose proof (valid_lines_ok _ _ Hvl Hmo) as Hok.
  unfold gm_file_segs. rewrite (gm_lines_valid _ _ _ Hls Hok), (canonical_fix _ Hc).
  destruct (file_segs_lines_ok path (canonical_fix _ Hc) _ _ Hok Hsm) as (l & Hl & Hd).
  exists l. split; [exact Hl|]. split; [exact Hd|]. unfold GM.valid_op. cbn [fst snd]. rewrite Hc, Hd. apply seg_eqb_refl.
Qed.
