(* C18: CollectionGet by portable data hash (acceptance, provenance, error classes, every arrival
   order) and the only-signatures-rewritten relation. *)
From Coq Require Import NArith List Ascii String Bool Lia Arith Permutation.
From AV Require Import lib.Str lib.Md5 lib.TokSplit lib.ManifestTok model.C18_model proofs.C18_scan.
Import ListNotations.
Local Open Scope string_scope.

(* ---------- rewriting a valid manifest ---------- *)
Lemma wf_hint_rw r h : all_chars is_hintchar r = true -> wf_hint h = true -> wf_hint (rw_hint r h) = true.
Proof.
  intros R W. destruct h as [|c t]; [discriminate|]. cbn [rw_hint]. destruct (Ascii.eqb c "A"); [|exact W].
  cbn [wf_hint] in W. apply andb_true_iff in W. destruct W as [_ A].
  cbn [append wf_hint]. rewrite !all_chars_app. cbn [all_chars]. rewrite R, A. reflexivity.
Qed.
Lemma wf_loc_rw r l : all_chars is_hintchar r = true -> wf_loc l = true -> wf_loc (rw_loc r l) = true.
Proof.
  intros R. unfold wf_loc. cbn [rw_loc l_hash l_size l_hints]. rewrite !andb_true_iff. intros [[[[A B] C] D] E].
  repeat split; try assumption. rewrite forallb_forall in *. intros h Hh. apply in_map_iff in Hh. destruct Hh as (h0 & <- & H0).
  apply wf_hint_rw; [exact R|apply E; exact H0].
Qed.
Lemma wf_stream_rw r s : all_chars is_hintchar r = true -> wf_stream s = true -> wf_stream (rw_stream r s) = true.
Proof.
  intros R. unfold wf_stream. cbn [rw_stream s_name s_locs s_files]. rewrite !andb_true_iff. intros [[[[A B] C] D] E].
  repeat split; try assumption.
  - destruct (s_locs s); [discriminate|reflexivity].
  - rewrite forallb_forall in *. intros l Hl. apply in_map_iff in Hl. destruct Hl as (l0 & <- & H0). apply wf_loc_rw; [exact R|apply C; exact H0].
Qed.
Lemma wf_streams_rw r ss : all_chars is_hintchar r = true -> forallb wf_stream ss = true -> forallb wf_stream (map (rw_stream r) ss) = true.
Proof.
  intros R W. rewrite forallb_forall in *. intros s Hs. apply in_map_iff in Hs. destruct Hs as (s0 & <- & H0).
  apply wf_stream_rw; [exact R|apply W; exact H0].
Qed.
Lemma strip_rw r ss : map strip_stream (map (rw_stream r) ss) = map strip_stream ss.
Proof.
  rewrite map_map. apply map_ext. intros s. unfold strip_stream, rw_stream. cbn [s_name s_locs s_files]. f_equal.
  rewrite map_map. apply map_ext. intros l. reflexivity.
Qed.

(* the portable data hash does not see the rewriting *)
Theorem pdh_rewrite_valid m r ss : parse m = Some ss -> all_chars is_hintchar r = true ->
  pdh (rewrite_manifest m r) = pdh m.
Proof.
  intros P R. destruct (parse_sound m ss P) as [W <-]. unfold pdh.
  rewrite (rw_valid r ss W). rewrite (pdh_text_valid _ (wf_streams_rw r ss R W)), (pdh_text_valid ss W), strip_rw. reflexivity.
Qed.

Theorem rewrite_only_signatures m r : valid_manifest m = true ->
  exists ss, parse m = Some ss /\ forallb wf_stream ss = true /\ render ss = m /\
             rewrite_manifest m r = render (map (rw_stream r) ss).
Proof.
  unfold valid_manifest. destruct (parse m) as [ss|] eqn:P; [|discriminate]. intros _. exists ss.
  destruct (parse_sound m ss P) as [W E]. split; [reflexivity|]. split; [exact W|]. split; [exact E|].
  rewrite <- E. apply rw_valid. exact W.
Qed.
(* ... and rw_stream touches nothing but hints that begin with the letter A *)
Theorem rw_stream_only_hints r s :
  s_name (rw_stream r s) = s_name s /\ s_files (rw_stream r s) = s_files s /\
  map l_hash (s_locs (rw_stream r s)) = map l_hash (s_locs s) /\
  map l_size (s_locs (rw_stream r s)) = map l_size (s_locs s) /\
  map l_hints (s_locs (rw_stream r s)) = map (fun l => map (rw_hint r) (l_hints l)) (s_locs s).
Proof. cbn [rw_stream s_name s_files s_locs]. rewrite !map_map. repeat split. Qed.
Theorem rw_hint_spec r :
  (forall t, rw_hint r (String "A" t) = "R" ++ r ++ "-" ++ t) /\
  (forall h, (forall t, h <> String "A" t) -> rw_hint r h = h).
Proof.
  split; [reflexivity|]. intros h H. destruct h as [|c t]; [reflexivity|]. cbn [rw_hint].
  destruct (Ascii.eqb_spec c "A") as [->|]; [exfalso; apply (H t); reflexivity|reflexivity].
Qed.

(* ---------- CollectionGet ---------- *)
Definition relay (r m : string) : string := if r =? "" then m else rewrite_manifest m r.

Lemma try1_ok req r a m' : try1 r (judge req a) = ROk m' ->
  exists m, a = ACol m /\ accept req m = true /\ m' = relay r m.
Proof.
  destruct a as [m|c|]; cbn [judge try1]; try discriminate. destruct (accept req m) eqn:A; [|discriminate].
  intros E. injection E as <-. exists m. auto.
Qed.
Lemma try1_accept req r m : accept req m = true -> try1 r (judge req (ACol m)) = ROk (relay r m).
Proof. intros A. cbn [judge try1]. rewrite A. reflexivity. Qed.
Lemma try1_reject req r a : (forall m, a = ACol m -> accept req m = false) ->
  try1 r (judge req a) = RErr (match a with ACol _ => 502 | AErr c => c | AHang => 500 end)%N.
Proof. intros H. destruct a as [m|c|]; cbn [judge try1]; [rewrite (H m eq_refl)|..]; reflexivity. Qed.

Definition jmap (req : string) (arr : list (string * answer)) := map (fun ra => (fst ra, judge req (snd ra))) arr.

Lemma first_ok_ok req arr : forall b m', first_ok (jmap req arr) b = ROk m' ->
  exists r a, In (r, a) arr /\ try1 r (judge req a) = ROk m'.
Proof.
  induction arr as [|[r a] arr IH]; intros b m' H; cbn [jmap map first_ok fst snd] in H.
  - destruct b; discriminate.
  - destruct (try1 r (judge req a)) as [m|c] eqn:T.
    + injection H as <-. exists r, a. split; [left; reflexivity|exact T].
    + destruct (IH _ _ H) as (r' & a' & I & T'). exists r', a'. split; [right; exact I|exact T'].
Qed.
Lemma first_ok_some req arr : (exists r a m', In (r, a) arr /\ try1 r (judge req a) = ROk m') ->
  forall b, exists m', first_ok (jmap req arr) b = ROk m'.
Proof.
  induction arr as [|[r a] arr IH]; intros (r0 & a0 & m0 & I & T) b; [destruct I|].
  cbn [jmap map first_ok fst snd]. destruct (try1 r (judge req a)) as [m|c] eqn:T1; [exists m; reflexivity|].
  destruct I as [E|I]; [injection E as -> ->; congruence|]. apply IH. exists r0, a0, m0. auto.
Qed.
Definition is404 (ra : string * answer) : bool := match snd ra with AErr c => N.eqb c 404 | _ => false end.
Lemma first_ok_none req arr : (forall r m, In (r, ACol m) arr -> accept req m = false) ->
  forall b, first_ok (jmap req arr) b = RErr (if b && forallb is404 arr then 404 else 502)%N.
Proof.
  induction arr as [|[r a] arr IH]; intros H b; cbn [jmap map first_ok fst snd forallb].
  - rewrite andb_true_r. destruct b; reflexivity.
  - rewrite (try1_reject req r a) by (intros m ->; apply (H r m); left; reflexivity).
    fold (jmap req arr). rewrite IH by (intros r' m' I; apply (H r' m'); right; exact I).
    unfold is404 at 2. cbn [snd]. destruct a as [m|c|]; cbn; rewrite ?andb_false_r; try reflexivity.
    rewrite andb_assoc. reflexivity.
Qed.

(* accepted_matches_pdh: whatever is handed out is an answer that really hashes to the requested value,
   relayed unchanged (local) or rewritten for its cluster (remote) *)
Theorem accepted_matches_pdh req fwd local arrivals m' :
  collection_get_pdh req fwd local arrivals = ROk m' ->
  exists r m, In (r, ACol m) (("", local) :: arrivals) /\ accept req m = true /\ m' = relay r m.
Proof.
  unfold collection_get_pdh, collection_get_j. destruct (try1 "" (judge req local)) as [m|c] eqn:T.
  - intros E. injection E as <-. destruct (try1_ok req "" local m T) as (m0 & -> & A & ->). exists "", m0. split; [left; reflexivity|auto].
  - destruct (negb (N.eqb c 404) || negb (fwd =? "")); [discriminate|]. intros H.
    destruct (first_ok_ok req arrivals _ _ H) as (r & a & I & T'). destruct (try1_ok req r a m' T') as (m0 & -> & A & ->).
    exists r, m0. split; [right; exact I|auto].
Qed.
(* for a valid manifest the relayed text still hashes to the requested value *)
Theorem relayed_still_matches req r m : valid_manifest m = true -> all_chars is_hintchar r = true ->
  accept req m = true -> accept req (relay r m) = true.
Proof.
  unfold valid_manifest. destruct (parse m) as [ss|] eqn:P; [|discriminate]. intros _ R A. unfold relay.
  destruct (r =? ""); [exact A|]. unfold accept in *. rewrite (pdh_rewrite_valid m r ss P R). exact A.
Qed.

(* bad_remote_never_wins: if no answer verifies, the call fails, in every arrival order *)
Theorem bad_remote_never_wins req fwd local arrivals :
  (forall r m, In (r, ACol m) (("", local) :: arrivals) -> accept req m = false) ->
  exists c, collection_get_pdh req fwd local arrivals = RErr c.
Proof.
  intros H. destruct (collection_get_pdh req fwd local arrivals) as [m'|c] eqn:E; [|exists c; reflexivity].
  destruct (accepted_matches_pdh _ _ _ _ _ E) as (r & m & I & A & _). rewrite (H r m I) in A. discriminate.
Qed.

(* honest_remote_wins: local 404, request not forwarded, one remote with a verifying answer: success in
   every arrival order (and by accepted_matches_pdh the winner is a verifying answer) *)
Theorem honest_remote_wins req arrivals r m :
  In (r, ACol m) arrivals -> accept req m = true ->
  forall arrivals', Permutation arrivals arrivals' ->
  exists m', collection_get_pdh req "" (AErr 404) arrivals' = ROk m'.
Proof.
  intros I A arr' P. unfold collection_get_pdh, collection_get_j. cbn [judge try1 N.eqb Pos.eqb negb orb String.eqb].
  apply first_ok_some. exists r, (ACol m), (relay r m). split; [apply (Permutation_in _ P I)|apply try1_accept; exact A].
Qed.

(* error_classes *)
Theorem error_classes req arrivals :
  (forall r m, In (r, ACol m) arrivals -> accept req m = false) ->
  collection_get_pdh req "" (AErr 404) arrivals = RErr (if forallb is404 arrivals then 404 else 502)%N.
Proof.
  intros H. unfold collection_get_pdh, collection_get_j. cbn [judge try1 N.eqb Pos.eqb negb orb String.eqb].
  fold (jmap req arrivals). rewrite (first_ok_none req arrivals H true). reflexivity.
Qed.
Theorem local_first req fwd m arrivals : accept req m = true ->
  collection_get_pdh req fwd (ACol m) arrivals = ROk m /\ remotes_asked fwd (judge req (ACol m)) = false.
Proof. intros A. unfold collection_get_pdh, collection_get_j, remotes_asked. cbn [judge try1]. rewrite A. split; reflexivity. Qed.
Theorem local_error_is_final req fwd local arrivals c :
  try1 "" (judge req local) = RErr c -> c <> 404%N \/ fwd <> "" ->
  collection_get_pdh req fwd local arrivals = RErr c /\ remotes_asked fwd (judge req local) = false.
Proof.
  intros T H. unfold collection_get_pdh, collection_get_j, remotes_asked. rewrite T.
  destruct H as [H|H].
  - apply N.eqb_neq in H. rewrite H. split; reflexivity.
  - apply String.eqb_neq in H. rewrite H. rewrite orb_true_r, andb_false_r. split; reflexivity.
Qed.
