(* The saved manifest of a collection loads back to exactly the tree it was saved from. *)
From Coq Require Import List Arith Lia Bool Ascii String NArith Sorted.
Import ListNotations.
From AV Require Import lib.Str lib.Path model.CFS_file model.CFS_tree model.CFS_inst model.C08_run model.CFS_bg model.CFS_tload model.CFS_run
  proofs.CFS_file_proofs proofs.CFS_refine proofs.CFS_prov proofs.CFS_tree_proofs proofs.CFS_bg_proofs proofs.CFS_escape_proofs
  proofs.CFS_text_lemmas proofs.CFS_range_proofs proofs.CFS_stream_proofs proofs.CFS_rt_defs proofs.CFS_line_proofs proofs.CFS_ents_inv proofs.CFS_tree_rt proofs.CFS_hist_proofs.
Notation length := List.length.
Notation byte := CFS_file.byte.
Local Open Scope string_scope.
Local Open Scope list_scope.

Section RT.
Variable mb : nat.
Notation C := (Conc mb).

(* the byte tree below inode id, cut at depth fuel (a directory at the cut shows as empty) *)
Fixpoint extract (fuel : nat) (s : fs C) (id : nat) {struct fuel} : T :=
  match i_node C (get_ino C s id) with
  | IFile f => TF (content f)
  | IDir ents => match fuel with
                 | O => TD []
                 | S f' => TD (map (fun e => (fst e, extract f' s (snd e))) ents)
                 end
  end.

Lemma extract_file fuel s id f : i_node C (get_ino C s id) = IFile f -> extract fuel s id = TF (content f).
Proof. intros E. destruct fuel; cbn [extract]; rewrite E; reflexivity. Qed.
Lemma extract_dir_S fuel s id : is_dir C s id = true ->
  extract (S fuel) s id = TD (map (fun e => (fst e, extract fuel s (snd e))) (dir_ents C s id)).
Proof. unfold is_dir, dir_ents. cbn [extract]. destruct (i_node C (get_ino C s id)); [discriminate|reflexivity]. Qed.
Lemma extract_nondir fuel s id : is_dir C s id = false -> exists b, extract fuel s id = TF b.
Proof. unfold is_dir. destruct (i_node C (get_ino C s id)) eqn:E; [|discriminate]. intros _. eexists. apply (extract_file fuel s id f E). Qed.
Lemma extract_dir_is fuel s id : is_dir C s id = true -> exists ents, extract fuel s id = TD ents.
Proof. unfold is_dir. destruct fuel; cbn [extract]; destruct (i_node C (get_ino C s id)); try discriminate; intros _; eexists; reflexivity. Qed.

(* the listing the checks compare is the listing of the extracted tree *)
Lemma listing_extract : forall fuel s d prefix,
  listing (Conc mb) content fuel s d prefix = listing_T prefix (extract fuel s d).
Proof.
  induction fuel as [|fuel IH]; intros s d prefix.
  - cbn [listing extract]. destruct (i_node C (get_ino C s d)); reflexivity.
  - cbn [listing extract]. unfold dir_ents. destruct (i_node C (get_ino C s d)) as [f|ents]; [reflexivity|].
    cbn [listing_T]. induction ents as [|e ents IHe]; [reflexivity|]. cbn [flat_map map fst snd].
    rewrite IHe. f_equal.
    destruct (i_node C (get_ino C s (snd e))) as [f|ce] eqn:E.
    + rewrite (extract_file fuel s (snd e) f E). reflexivity.
    + rewrite IH. assert (Hd : is_dir C s (snd e) = true) by (unfold is_dir; rewrite E; reflexivity).
      destruct (extract_dir_is fuel s (snd e) Hd) as (ce' & ->). reflexivity.
Qed.

(* sorted, valid entry names carry over *)
Lemma twf_extract s : EntsOK C s -> forall fuel id, twf (extract fuel s id).
Proof.
  intros HE. induction fuel as [|fuel IH]; intros id; cbn [extract].
  - destruct (i_node C (get_ino C s id)); [constructor|]. constructor; [split; constructor|constructor].
  - pose proof (HE id) as Hid. unfold dir_ents in Hid. destruct (i_node C (get_ino C s id)) as [f|ents]; [constructor|].
    constructor.
    + unfold ents_ok in *. rewrite map_map. cbn [fst]. exact Hid.
    + rewrite Forall_forall. intros e He. apply in_map_iff in He. destruct He as (e0 & <- & _). cbn [snd]. apply IH.
Qed.

(* files and sub-directories of an extracted directory *)
Lemma files_of_extract fuel s ents :
  files_of (map (fun e => (fst e, extract fuel s (snd e))) ents) =
  map (fun e => (fst e, flat_map sbytes (file_segs mb s (snd e)))) (filter (fun e => negb (is_dir C s (snd e))) ents).
Proof.
  unfold files_of. induction ents as [|e ents IH]; [reflexivity|]. cbn [map flat_map filter fst snd]. rewrite IH.
  destruct (is_dir C s (snd e)) eqn:Hd; cbn [negb].
  - destruct (extract_dir_is fuel s (snd e) Hd) as (ce' & ->). reflexivity.
  - unfold is_dir in Hd. destruct (i_node C (get_ino C s (snd e))) as [f|ce] eqn:E; [|discriminate].
    rewrite (extract_file fuel s (snd e) f E). cbn [map app fst snd]. rewrite (file_segs_file mb s (snd e) f E). reflexivity.
Qed.
Lemma dirs_of_extract fuel s prefix ents :
  flat_map (fun e => match snd e with TD _ => records_T (prefix ++ "/" ++ fst e) (snd e) | TF _ => [] end)
           (map (fun e => (fst e, extract fuel s (snd e))) ents) =
  flat_map (fun e => records_T (prefix ++ "/" ++ fst e) (extract fuel s (snd e))) (filter (fun e => is_dir C s (snd e)) ents).
Proof.
  induction ents as [|e ents IH]; [reflexivity|]. cbn [map flat_map filter fst snd]. rewrite IH.
  destruct (is_dir C s (snd e)) eqn:Hd.
  - cbn [flat_map]. destruct (extract_dir_is fuel s (snd e) Hd) as (ce' & E). rewrite E. reflexivity.
  - destruct (extract_nondir fuel s (snd e) Hd) as (b & E). rewrite E. reflexivity.
Qed.

(* ---------- small facts about the text and the record lists ---------- *)
Definition unlines (l : list string) : string := String.concat "" (map (fun x => (x ++ String nl "")%string) l).

Lemma str_app_nil_r (a : string) : (a ++ "")%string = a.
Proof. induction a as [|c a IH]; cbn [append]; [reflexivity|]. rewrite IH. reflexivity. Qed.
Lemma concat_empty_cons (x : string) l : String.concat "" (x :: l) = (x ++ String.concat "" l)%string.
Proof. destruct l; cbn [String.concat]; [rewrite str_app_nil_r; reflexivity|reflexivity]. Qed.
Lemma unlines_cons x l : unlines (x :: l) = ((x ++ String nl "") ++ unlines l)%string.
Proof. unfold unlines. cbn [map]. apply concat_empty_cons. Qed.
Lemma unlines_app a b : unlines (a ++ b) = (unlines a ++ unlines b)%string.
Proof.
  induction a as [|x a IH]; [reflexivity|]. cbn [app]. rewrite !unlines_cons, IH, !str_app_assoc. reflexivity.
Qed.

Lemma split_acc_line c l r : has_char c l = false -> forall k,
  split_acc c (l ++ String c r) k = k l :: split_acc c r (fun x => x).
Proof. intros H k. apply split_acc_app. exact H. Qed.
Lemma split_unlines lines : Forall (fun l => has_char nl l = false) lines ->
  split_char nl (unlines lines) = lines ++ [""].
Proof.
  unfold split_char. induction lines as [|l lines IH]; intros H; [reflexivity|]. inversion H; subst.
  rewrite unlines_cons. rewrite str_app_assoc. cbn [append]. rewrite split_acc_app by assumption. cbn [app]. f_equal. apply IH. assumption.
Qed.

Lemma obind_assoc {A B D} (o : option A) (f : A -> option B) (g : B -> option D) :
  obind (obind o f) g = obind o (fun x => obind (f x) g).
Proof. destruct o; reflexivity. Qed.
Lemma tins_all_app t r1 r2 : tins_all t (r1 ++ r2) = obind (tins_all t r1) (fun t' => tins_all t' r2).
Proof.
  revert t. induction r1 as [|r r1 IH]; intros t; [reflexivity|]. cbn [app tins_all].
  destruct (tins_rec t r) as [t'|]; cbn [obind]; [apply IH|reflexivity].
Qed.
Lemma obind_some {A} (o : option A) : obind o (fun x => Some x) = o.
Proof. destruct o; reflexivity. Qed.

Definition nonl (l : string) : Prop := has_char nl l = false.

(* what it means for a list of lines to be read back as a list of records *)
Definition loads_as (tab : list (list byte * string)) (lines : list string) (recs : list srec) : Prop :=
  forall rest t, t_load_streams tab (lines ++ rest) t = obind (tins_all t recs) (fun t' => t_load_streams tab rest t').

Lemma loads_as_nil tab : loads_as tab [] [].
Proof. intros rest t. reflexivity. Qed.
Lemma loads_as_app tab l1 r1 l2 r2 : loads_as tab l1 r1 -> loads_as tab l2 r2 -> loads_as tab (l1 ++ l2) (r1 ++ r2).
Proof.
  intros H1 H2 rest t. rewrite <- app_assoc, H1, tins_all_app, obind_assoc.
  destruct (tins_all t r1) as [t'|]; cbn [obind]; [apply H2|reflexivity].
Qed.

Lemma marshal_dir_S fuel tab st d prefix :
  marshal_dir mb (S fuel) tab st d prefix =
    let s := fsys mb st in
    let ents := dir_ents C s d in
    match ents with
    | [] => if String.eqb prefix "." then ""
            else (manifest_escape prefix ++ " " ++ empty_block_loc ++ " 0:0:\056" ++ String (ascii_of_N 10) "")%string
    | _ =>
      let files := filter (fun e => negb (is_dir C s (snd e))) ents in
      let dirs := filter (fun e => is_dir C s (snd e)) ents in
      let '(blks, parts, _) :=
          fold_left (fun acc e =>
                       let '(bl, ps, sl) := acc in
                       match file_segs mb s (snd e) with
                       | [] => (bl, ps ++ [{| fp_name := fst e; fp_off := 0; fp_len := 0 |}], sl)
                       | l => stream_segs tab (blocks mb st) (fst e) l bl ps sl
                       end) files ([], [], 0) in
      let own :=
          match parts with
          | [] => ""
          | _ => (manifest_escape prefix ++ " " ++ join_with " " (match blks with [] => [empty_block_loc] | _ => blks end)
                  ++ " " ++ join_with " " (map part_text parts) ++ String (ascii_of_N 10) "")%string
          end in
      (own ++ String.concat "" (map (fun e => marshal_dir mb fuel tab st (snd e) (prefix ++ "/" ++ fst e)%string) dirs))%string
    end.
Proof. reflexivity. Qed.

Section Main.
Variable tab : list (list byte * string).
Hypothesis Htab : TabOK tab.
Variable st : bst mb.
Notation s := (fsys mb st).
Hypothesis HIn : InTab tab (blocks mb st).
Hypothesis HB : BInv mb st.
Hypothesis HE : EntsOK C s.

Lemma ents_names_nodup {A} (l : list (string * A)) : ents_ok l -> NoDup (map fst l).
Proof.
  intros [Hs _]. induction Hs as [|a l0 Hs IH Ha]; constructor; [|exact IH].
  intros Hin. rewrite Forall_forall in Ha. specialize (Ha a Hin). unfold name_lt in Ha. rewrite str_ltb_irrefl in Ha. discriminate.
Qed.
Lemma NoDup_map_filter {A B} (f : A -> B) (p : A -> bool) l : NoDup (map f l) -> NoDup (map f (filter p l)).
Proof.
  induction l as [|x l IH]; intros H; [constructor|]. cbn [map filter] in *. inversion H; subst.
  destruct (p x); [|apply IH; assumption]. cbn [map]. constructor; [|apply IH; assumption].
  intros Hin. apply in_map_iff in Hin. destruct Hin as (y & Ey & Hy). apply filter_In in Hy. destruct Hy as [Hy _].
  match goal with Hn : ~ In (f x) _ |- _ => apply Hn end. rewrite <- Ey. apply in_map. exact Hy.
Qed.

Lemma forallb_is_sto_nomem l : forallb is_sto l = true -> forall b t, ~ In (Mem b t) l.
Proof. intros H b t Hin. rewrite forallb_forall in H. specialize (H _ Hin). discriminate. Qed.

Lemma file_stored id : forallb is_sto (file_segs mb s id) = true -> segs_stored (blocks mb st) (file_segs mb s id).
Proof.
  intros Hs. destruct HB as ((HInv & _) & _ & _ & HS). split; [apply HS|]. split; [apply forallb_is_sto_nomem; exact Hs|].
  unfold file_segs. destruct (i_node C (get_ino C s id)) as [f|] eqn:E; [|constructor].
  destruct HInv as [Hwf _]. destruct (Hwf id f E) as [_ Hpos]. exact Hpos.
Qed.

(* the marker line of an empty directory *)
Lemma marker_line prefix : prefix <> "" ->
  (manifest_escape prefix ++ " " ++ empty_block_loc ++ " 0:0:\056" ++ String (ascii_of_N 10) "")%string
    = unlines [line_of prefix [empty_block_loc; "0:0:\056"]] /\
  nonl (line_of prefix [empty_block_loc; "0:0:\056"]) /\
  loads_as tab [line_of prefix [empty_block_loc; "0:0:\056"]] [RMarker prefix].
Proof.
  intros Hp.
  assert (Hclean : Forall tok_clean [empty_block_loc; "0:0:\056"]).
  { constructor; [apply empty_loc_clean|]. constructor; [split; reflexivity|constructor]. }
  split; [|split].
  - unfold unlines, line_of. cbn [map String.concat join_with]. rewrite !str_app_assoc. reflexivity.
  - apply line_no_nl. exact Hclean.
  - intros rest t. cbn [app t_load_streams]. rewrite (line_split prefix _ Hclean). rewrite unescape_escape.
    rewrite (load_marker_tokens tab Htab prefix t). cbn [tins_all tins_rec].
    destruct (tins_marker t prefix) as [t'|]; cbn [obind]; [|reflexivity].
    destruct (String.eqb_spec prefix ""); [contradiction|]. reflexivity.
Qed.

(* the line of a directory's own files *)
Lemma own_line prefix (ents : list (string * nat)) : prefix <> "" -> ents_ok ents ->
  let files := filter (fun e => negb (is_dir C s (snd e))) ents in
  (forall e, In e files -> forallb is_sto (file_segs mb s (snd e)) = true) ->
  let '(bl, parts, _) := fold_left (file_step tab (blocks mb st) (file_segs mb s)) files ([], [], 0) in
  let fl := map (fun e => (fst e, flat_map sbytes (file_segs mb s (snd e)))) files in
  (parts = [] <-> files = []) /\
  (parts <> [] ->
   exists line,
    (manifest_escape prefix ++ " " ++ join_with " " (match bl with [] => [empty_block_loc] | _ => bl end)
       ++ " " ++ join_with " " (map part_text parts) ++ String (ascii_of_N 10) "")%string = unlines [line] /\
    nonl line /\ loads_as tab [line] [RFiles prefix fl]).
Proof.
  intros Hp Hok files Hsto.
  assert (Hnd : NoDup (map fst ([] : list (string * list byte)) ++ map fst files)).
  { cbn [map app]. apply NoDup_map_filter. apply ents_names_nodup. exact Hok. }
  assert (Hvalid : forall e, In e files -> valid_name (fst e)).
  { intros e He. apply filter_In in He. destruct He as [He _]. destruct Hok as [_ Hv]. rewrite Forall_forall in Hv. apply Hv. apply in_map. exact He. }
  pose proof (stream_fold_ok tab (blocks mb st) (fun d d' => loc_text_inj tab Htab (blocks mb st) d d' HIn) (file_segs mb s) files [] [] [] 0 []
                (fun e He => file_stored (snd e) (Hsto e He)) Hnd (SInv_init tab (blocks mb st)) Grouped_init) as Hfold.
  destruct (fold_left (file_step tab (blocks mb st) (file_segs mb s)) files ([], [], 0)) as [[bl parts] sl].
  destruct Hfold as (BD & [I1 I2 I3 I4] & (gs & Eg & H2)). cbn [app] in H2.
  set (fl := map (fun e => (fst e, flat_map sbytes (file_segs mb s (snd e)))) files) in *.
  assert (Hempty : parts = [] <-> files = []).
  { split.
    - intros ->. destruct gs as [|g gs]; [inversion H2; subst; destruct files; [reflexivity|discriminate]|].
      inversion H2 as [|? ? ? ? (Hne & _) _]; subst. cbn [List.concat] in Eg. symmetry in Eg. apply app_eq_nil in Eg. destruct Eg; contradiction.
    - intros E. unfold fl in H2. rewrite E in H2. inversion H2; subst. reflexivity. }
  split; [exact Hempty|]. intros Hpne.
  (* chunks delivered by the parts, grouped by file *)
  set (SS := List.concat BD) in *.
  set (groups := map (fun g => (match g with p :: _ => fp_name p | [] => "" end, map (fun p => slice SS (fp_off p) (fp_len p)) g)) gs).
  assert (Hchunks : map (chunk SS) parts = chunks_of groups).
  { rewrite Eg. unfold groups, chunks_of. clear -H2. induction H2 as [|f g fl0 gl (Hne & Hn & Hb) H2 IH]; [reflexivity|].
    cbn [List.concat map flat_map fst snd]. rewrite map_app, IH. f_equal.
    destruct g as [|p0 g]; [contradiction|]. rewrite map_map.
    apply map_ext_in. intros p Hin. unfold chunk. f_equal.
    rewrite Forall_forall in Hn. rewrite (Hn p Hin). symmetry. apply Hn. left. reflexivity. }
  assert (Hwhole : whole_of groups = fl).
  { unfold groups, whole_of. clear -H2. induction H2 as [|f g fl0 gl (Hne & Hn & Hb) H2 IH]; [reflexivity|].
    cbn [map fst snd]. rewrite IH. f_equal. destruct f as [n c]. cbn [fst snd] in *. rewrite Hb. f_equal.
    destruct g as [|p0 g]; [contradiction|]. inversion Hn; subst. assumption. }
  assert (Hgne : Forall (fun g : string * list (list byte) => snd g <> []) groups).
  { unfold groups. clear -H2. induction H2 as [|f g fl0 gl (Hne & Hn & Hb) H2 IH]; constructor; [|exact IH].
    cbn [snd]. destruct g; [contradiction|discriminate]. }
  assert (Hpvalid : Forall (fun p => valid_name (fp_name p)) parts).
  { rewrite Forall_forall. intros p Hin.
    assert (Hn : In (fp_name p) (map fst fl)) by (eapply Grouped_names; [exists gs; split; [exact Eg|exact H2]|exact Hin]).
    unfold fl in Hn. rewrite map_map in Hn. cbn [fst] in Hn. apply in_map_iff in Hn. destruct Hn as (e & <- & He). apply Hvalid. exact He. }
  destruct (load_own_tokens tab Htab (blocks mb st) HIn prefix (TD []) BD parts I2 I4 Hpne Hpvalid) as (n0 & _ & _).
  set (bl' := match bl with [] => [empty_block_loc] | _ => bl end).
  assert (Hblne : bl' <> []) by (unfold bl'; destruct bl; discriminate).
  assert (Hclean : Forall tok_clean (bl' ++ map part_text parts)).
  { apply Forall_app. split.
    - unfold bl'. destruct bl as [|b0 bl0]; [constructor; [apply empty_loc_clean|constructor]|]. cbv iota. rewrite I1.
      destruct (block_tokens tab Htab (blocks mb st) HIn BD I2) as (_ & _ & _ & _ & _ & Hc). exact Hc.
    - rewrite Forall_forall. intros x Hx. apply in_map_iff in Hx. destruct Hx as (p & <- & _). apply part_text_clean. }
  exists (line_of prefix (bl' ++ map part_text parts)). split; [|split].
  - assert (Hmp : map part_text parts <> []) by (destruct parts; [contradiction|discriminate]).
    rewrite <- (own_line_text prefix bl' (map part_text parts) Hblne Hmp).
    unfold unlines. cbn [map String.concat]. rewrite !str_app_assoc. reflexivity.
  - apply line_no_nl. exact Hclean.
  - intros rest t. cbn [app t_load_streams]. rewrite (line_split prefix _ Hclean). rewrite unescape_escape.
    destruct (load_own_tokens tab Htab (blocks mb st) HIn prefix t BD parts I2 I4 Hpne Hpvalid) as (n & Hn & El).
    unfold bl'. rewrite I1. rewrite El. fold SS. rewrite Hchunks, (tins_parts_group t prefix groups Hgne), Hwhole.
    cbn [tins_all tins_rec]. destruct (tins_parts t prefix fl) as [t'|]; cbn [obind]; [|reflexivity].
    destruct (String.eqb_spec prefix ""); [contradiction|]. destruct n; [lia|]. reflexivity.
Qed.

(* the fold in marshal_dir is the fold the stream lemmas are stated for *)
Lemma marshal_fold_eq files :
  fold_left (fun acc e =>
               let '(bl, ps, sl) := acc in
               match file_segs mb s (snd e) with
               | [] => (bl, ps ++ [{| fp_name := fst e; fp_off := 0; fp_len := 0 |}], sl)
               | l => stream_segs tab (blocks mb st) (fst e) l bl ps sl
               end) files ([], [], 0)
  = fold_left (file_step tab (blocks mb st) (file_segs mb s)) files ([], [], 0).
Proof. reflexivity. Qed.

Lemma ready_S fuel d : ready mb (S fuel) s d = true ->
  forall e, In e (dir_ents C s d) ->
    if is_dir C s (snd e) then ready mb fuel s (snd e) = true else forallb is_sto (file_segs mb s (snd e)) = true.
Proof.
  cbn [ready]. intros H e He. rewrite forallb_forall in H. specialize (H e He). destruct (is_dir C s (snd e)); exact H.
Qed.

Theorem marshal_dir_loads : forall fuel d prefix, prefix <> "" -> is_dir C s d = true -> ready mb fuel s d = true ->
  exists lines, marshal_dir mb fuel tab st d prefix = unlines lines /\ Forall nonl lines /\
                loads_as tab lines (records_T prefix (extract fuel s d)).
Proof.
  induction fuel as [|fuel IH]; intros d prefix Hp Hd Hr; [discriminate|].
  rewrite marshal_dir_S. cbv zeta. rewrite (extract_dir_S fuel s d Hd).
  pose proof (ready_S fuel d Hr) as Hch. pose proof (HE d) as Hok.
  destruct (dir_ents C s d) as [|e0 ents0] eqn:Eents.
  - cbn [map records_T]. destruct (String.eqb prefix ".").
    + exists []. split; [reflexivity|]. split; [constructor|apply loads_as_nil].
    + destruct (marker_line prefix Hp) as (E1 & E2 & E3). eexists. split; [exact E1|]. split; [constructor; [exact E2|constructor]|exact E3].
  - set (ents := e0 :: ents0) in *.
    assert (Hrec : records_T prefix (TD (map (fun e => (fst e, extract fuel s (snd e))) ents)) =
                   (match files_of (map (fun e => (fst e, extract fuel s (snd e))) ents) with [] => [] | fl => [RFiles prefix fl] end) ++
                   flat_map (fun e => records_T (prefix ++ "/" ++ fst e) (extract fuel s (snd e))) (filter (fun e => is_dir C s (snd e)) ents)).
    { unfold ents at 1. cbn [map]. cbn [records_T]. fold ents.
      change ((fst e0, extract fuel s (snd e0)) :: map (fun e => (fst e, extract fuel s (snd e))) ents0)
        with (map (fun e => (fst e, extract fuel s (snd e))) ents).
      rewrite dirs_of_extract. reflexivity. }
    rewrite Hrec. rewrite files_of_extract. clear Hrec.
    (* sub-directories *)
    assert (Hsub : forall ds, (forall e, In e ds -> In e ents /\ is_dir C s (snd e) = true) ->
              exists lines, String.concat "" (map (fun e => marshal_dir mb fuel tab st (snd e) (prefix ++ "/" ++ fst e)%string) ds) = unlines lines /\
                Forall nonl lines /\
                loads_as tab lines (flat_map (fun e => records_T (prefix ++ "/" ++ fst e) (extract fuel s (snd e))) ds)).
    { induction ds as [|e ds IHds]; intros Hds.
      - exists []. split; [reflexivity|]. split; [constructor|apply loads_as_nil].
      - destruct (Hds e (or_introl eq_refl)) as [Hin Hde].
        pose proof (Hch e Hin) as Hre. rewrite Hde in Hre.
        destruct (IH (snd e) (prefix ++ "/" ++ fst e)%string) as (l1 & E1 & N1 & L1); [destruct prefix; [contradiction|discriminate]|exact Hde|exact Hre|].
        destruct IHds as (l2 & E2 & N2 & L2); [intros e' He'; apply Hds; right; exact He'|].
        exists (l1 ++ l2). cbn [map flat_map]. rewrite concat_empty_cons, E1, E2, unlines_app.
        split; [reflexivity|]. split; [apply Forall_app; split; assumption|apply loads_as_app; assumption]. }
    destruct (Hsub (filter (fun e => is_dir C s (snd e)) ents)) as (ldirs & Edirs & Ndirs & Ldirs).
    { intros e He. apply filter_In in He. exact He. }
    rewrite Edirs.
    (* own files *)
    pose proof (own_line prefix ents Hp Hok) as Hown. cbv zeta in Hown.
    rewrite marshal_fold_eq.
    assert (Hsto : forall e, In e (filter (fun e => negb (is_dir C s (snd e))) ents) -> forallb is_sto (file_segs mb s (snd e)) = true).
    { intros e He. apply filter_In in He. destruct He as [He Hnd]. pose proof (Hch e He) as H1.
      destruct (is_dir C s (snd e)); [discriminate|exact H1]. }
    specialize (Hown Hsto).
    destruct (fold_left (file_step tab (blocks mb st) (file_segs mb s)) (filter (fun e => negb (is_dir C s (snd e))) ents) ([], [], 0)) as [[bl parts] sl].
    destruct Hown as [Hempty Hline].
    destruct parts as [|p0 parts0].
    + assert (Hf : filter (fun e => negb (is_dir C s (snd e))) ents = []) by (apply Hempty; reflexivity).
      rewrite Hf. cbn [map app]. exists ldirs. cbn [append]. split; [reflexivity|]. split; assumption.
    + destruct (Hline ltac:(discriminate)) as (line & Eline & Nline & Lline).
      set (fl := map (fun e => (fst e, flat_map sbytes (file_segs mb s (snd e)))) (filter (fun e => negb (is_dir C s (snd e))) ents)) in *.
      assert (Hflne : fl <> []).
      { unfold fl. intros E. apply map_eq_nil in E. apply Hempty in E. discriminate. }
      destruct fl as [|f0 fl0] eqn:Efl; [contradiction|]. 
      exists ([line] ++ ldirs). rewrite Eline, unlines_app. split; [reflexivity|]. split; [constructor; assumption|].
      apply (loads_as_app tab [line] [RFiles prefix (f0 :: fl0)] ldirs _ Lline Ldirs).
Qed.

End Main.

(* ---------- the saved text loads back ---------- *)
Theorem marshal_text_loads_back tab st :
  TabOK tab -> InTab tab (blocks mb st) -> BInv mb st -> EntsOK C (fsys mb st) ->
  let s := fsys mb st in
  let fuel := length (inodes C s) in
  ready mb fuel s root_id = true ->
  exists t, t_load tab (marshal_dir mb fuel tab st root_id ".") = Some t /\
            listing_T "." t = tree_listing C content s.
Proof.
  intros Htab HIn HB HE s fuel Hr. unfold tree_listing. fold s. fold fuel. rewrite listing_extract.
  destruct (is_dir C s root_id) eqn:Hd.
  - destruct (marshal_dir_loads tab Htab st HIn HB HE fuel root_id "." ltac:(discriminate) Hd Hr) as (lines & Et & Nl & Ll).
    fold s in Ll. rewrite Et. unfold t_load. change (ascii_of_N 10) with nl. rewrite (split_unlines lines Nl). rewrite last_last, removelast_last. cbn [String.eqb negb].
    specialize (Ll [] (TD [])). rewrite app_nil_r in Ll. rewrite Ll. cbn [t_load_streams]. rewrite obind_some.
    destruct (extract_dir_is fuel s root_id Hd) as (ents & Ee). rewrite Ee.
    pose proof (twf_extract s HE fuel root_id) as Hw. rewrite Ee in Hw.
    rewrite (records_roundtrip ents Hw). exists (TD ents). split; reflexivity.
  - destruct fuel as [|f]; [discriminate|]. rewrite marshal_dir_S. cbv zeta.
    assert (He : dir_ents C (fsys mb st) root_id = []).
    { unfold dir_ents. unfold is_dir in Hd. fold s. destruct (i_node C (get_ino C s root_id)); [reflexivity|discriminate]. }
    rewrite He. cbn [String.eqb Ascii.eqb Bool.eqb]. exists (TD []). split; [reflexivity|].
    destruct (extract_nondir (S f) s root_id Hd) as (b & ->). reflexivity.
Qed.

(* the plain-filesystem view of the same listing *)
Lemma listing_abs : forall fuel (s : fs C) d prefix,
  listing Spec (fun b => b) fuel (abs mb s) d prefix = listing C content fuel s d prefix.
Proof.
  induction fuel as [|fuel IH]; intros s d prefix; [reflexivity|]. cbn [listing]. rewrite dir_ents_abs.
  apply flat_map_ext. intros e. rewrite get_ino_abs. unfold abs_ino. cbn [i_node].
  destruct (i_node C (get_ino C s (snd e))); cbn [abs_node]; [reflexivity|]. rewrite IH. reflexivity.
Qed.
Lemma tree_listing_abs (s : fs C) : tree_listing Spec (fun b => b) (abs mb s) = tree_listing C content s.
Proof. unfold tree_listing. rewrite length_inodes_abs. apply listing_abs. Qed.

(* MarshalManifest as a whole: whenever it returns a text, that text loads back to exactly the tree the
   plain filesystem holds - the same tree as before the call, since saving changes no content *)
Theorem b_marshal_round_trip (Hmb : 1 <= mb) tab st st1 txt :
  TabOK tab -> BInv mb st -> EntsOK C (fsys mb st) ->
  b_marshal mb tab st = (st1, Ok txt) ->
  InTab tab (blocks mb st1) ->
  ready mb (length (inodes C (fsys mb st1))) (fsys mb st1) root_id = true ->
  exists t, t_load tab txt = Some t /\
            listing_T "." t = tree_listing Spec (fun b => b) (abs mb (fsys mb st)).
Proof.
  intros Htab HB HE Em HIn Hr.
  pose proof (b_marshal_quiet mb Hmb tab st HB) as [Habs HB1]. rewrite Em in Habs, HB1. cbn [fst] in Habs, HB1.
  pose proof (b_marshal_EntsOK mb tab st HE) as HE1. rewrite Em in HE1. cbn [fst] in HE1.
  assert (Hlen : length (inodes C (fsys mb st1)) = length (inodes C (fsys mb st))).
  { rewrite <- !(length_inodes_abs mb). rewrite Habs. reflexivity. }
  unfold b_marshal in Em.
  destruct (flush_dir mb (length (inodes C (fsys mb st))) true true true st root_id) as [st1' ok] eqn:Ef.
  destruct ok; [|inversion Em]. inversion Em; subst st1' txt. clear Em.
  rewrite <- Habs, tree_listing_abs. rewrite <- Hlen.
  exact (marshal_text_loads_back tab st1 Htab HIn HB1 HE1 Hr).
Qed.

(* the plain filesystem's state after a history is the one reached by its foreground operations alone *)
Theorem bg_history_state (Hmb : 1 <= mb) tab es : forall st, BInv mb st ->
  abs mb (fsys mb (bfinal mb tab st es)) = fg_final Spec (abs mb (fsys mb st)) (fg_ops es).
Proof.
  induction es as [|e r IH]; intros st HB; cbn [bfinal fg_ops flat_map]; [reflexivity|].
  pose proof (bexec_ok mb Hmb tab st e HB) as H. destruct (bexec mb tab st e) as [st' o]. destruct H as [HB' Hsp]. cbn [fst].
  rewrite (IH st' HB'). destruct e as [op v|p sh v|v|d|m]; cbn [spec_effect] in Hsp.
  - destruct Hsp as (v0 & _ & Hst). cbn [app fg_final]. rewrite Hst. reflexivity.
  - cbn [app]. rewrite Hsp. reflexivity.
  - cbn [app]. rewrite Hsp. reflexivity.
  - cbn [app]. rewrite Hsp. reflexivity.
  - cbn [app]. rewrite Hsp. reflexivity.
Qed.

End RT.
