(* C14 / C15 — the worker stage (model/C14_wp_run.v): what its specification says, and that the pool model
   satisfies every clause of it that does not refer to the environment's process list:
   StateShutdown is terminal for every pool operation, StartContainer never picks such an instance, a failed
   Create leaves Unallocated() unchanged. *)
From Coq Require Import List ZArith Bool NArith Lia.
From AV Require Import model.C16_runq model.C14_pool model.C14_wp_run proofs.C16_runq proofs.C14_pool proofs.C14_sys proofs.C14_thms.
Import ListNotations.
Local Open Scope Z_scope.

(* ================= 1. shutdown is terminal ================= *)
(* w' is the same instance as w and, if w was shut down, so is w' *)
Definition sk (w w' : wkr) : Prop := w_id w' = w_id w /\ (w_st w = WShutdown -> w_st w' = WShutdown).

Lemma sk_refl w : sk w w.
Proof. split; auto. Qed.
Lemma sk_trans a b c : sk a b -> sk b c -> sk a c.
Proof. intros [A1 A2] [B1 B2]. split; [congruence|auto]. Qed.
Lemma sk_same w w' : w_id w' = w_id w -> w_st w' = w_st w -> sk w w'.
Proof. intros A B. split; [exact A|congruence]. Qed.

Lemma F2_refl ws : Forall2 sk ws ws.
Proof. induction ws; constructor; auto using sk_refl. Qed.

Lemma F2_put id ws w w' : find_w id ws = Some w -> sk w w' -> Forall2 sk ws (put_w w' ws).
Proof.
  intros Hf Hs. pose proof (find_w_id _ _ _ Hf) as Hi. pose proof Hs as (Hid & _).
  induction ws as [|x r IH]; cbn [find_w put_w] in *; [constructor|].
  rewrite Hid, Hi. destruct (N.eqb (w_id x) id) eqn:E.
  - injection Hf as ->. constructor; [exact Hs|apply F2_refl].
  - constructor; [apply sk_refl|apply IH; exact Hf].
Qed.

Lemma F2_ids ws ws' : Forall2 sk ws ws' -> map w_id ws' = map w_id ws.
Proof. induction 1 as [|x y r r' [Hid _] _ IH]; cbn; [reflexivity|]. rewrite Hid, IH. reflexivity. Qed.

Lemma F2_in ws ws' w' : Forall2 sk ws ws' -> In w' ws' -> exists w, In w ws /\ sk w w'.
Proof.
  induction 1 as [|x y r r' Hxy _ IH]; intros Hin; [destruct Hin|].
  destruct Hin as [<-|Hin]; [exists x; split; [left; reflexivity|exact Hxy]|].
  destruct (IH Hin) as (w & Hw & Hs). exists w. split; [right; exact Hw|exact Hs].
Qed.

(* ---- single-worker operations ---- *)
Lemma w_shutdown_sk now w : sk w (w_shutdown now w).
Proof. split; [reflexivity|intros _; reflexivity]. Qed.

Lemma shutdown_if_idle_sk c w clock w' clock' b : shutdown_if_idle c w clock = (w', clock', b) -> sk w w'.
Proof.
  unfold shutdown_if_idle. destruct (eligible_shutdown c (clock + 1) w); intros H; injection H as <- <- <-;
    [apply w_shutdown_sk|apply sk_refl].
Qed.

Lemma set_idle_behavior_sk c w b clock w' clock' : set_idle_behavior c w b clock = (w', clock') -> sk w w'.
Proof.
  unfold set_idle_behavior. destruct (shutdown_if_idle c (with_ib w b) clock) as [[w1 c1] b1] eqn:E.
  intros H; injection H as <- <-. apply shutdown_if_idle_sk in E.
  eapply sk_trans; [|exact E]. apply sk_same; reflexivity.
Qed.

Lemma shutdown_if_broken_sk c dur w clock w' clock' : shutdown_if_broken c dur w clock = (w', clock') -> sk w w'.
Proof.
  unfold shutdown_if_broken. destruct (w_ib w).
  - destruct (dur <? _); intros H; injection H as <- <-; [apply sk_refl|apply w_shutdown_sk].
  - intros H; injection H as <- <-; apply sk_refl.
  - destruct (dur <? _); intros H; injection H as <- <-; [apply sk_refl|apply w_shutdown_sk].
Qed.

Lemma close_runner_sk u w ex clock w' ex' clock' : close_runner u w ex clock = (w', ex', clock') -> sk w w'.
Proof.
  unfold close_runner. destruct (negb (has_run u (w_running w))); intros H; injection H as <- _ _; [apply sk_refl|].
  split.
  - destruct (_ && _); reflexivity.
  - intros Hs. cbn. rewrite Hs. cbn. exact Hs.
Qed.

Lemma add_alive_st uuids : forall w ch w' ch', add_alive uuids w ch = (w', ch') -> w_id w' = w_id w /\ w_st w' = w_st w.
Proof.
  induction uuids as [|u r IH]; intros w ch w' ch'; cbn [add_alive]; [intros H; injection H as <- _; auto|].
  destruct (has_run u (w_running w)); [apply IH|].
  destruct (get_run u (w_starting w)); intros H; apply IH in H; cbn in H; exact H.
Qed.

Lemma close_dead_sk dead : forall w ex clock w' ex' clock', close_dead dead w ex clock = (w', ex', clock') -> sk w w'.
Proof.
  induction dead as [|u r IH]; intros w ex clock w' ex' clock'; cbn [close_dead]; [intros H; injection H as <- _ _; apply sk_refl|].
  destruct (close_runner u w ex clock) as [[w1 e1] c1] eqn:E. intros H. apply close_runner_sk in E. apply IH in H.
  eapply sk_trans; eassumption.
Qed.

Lemma update_running_sk uuids w ex clock w' ex' clock' ch :
  update_running uuids w ex clock = (w', ex', clock', ch) -> sk w w'.
Proof.
  unfold update_running. destruct (add_alive uuids w false) as [w1 ch1] eqn:E1.
  destruct (close_dead _ w1 ex clock) as [[w2 ex2] clock2] eqn:E2. intros H; injection H as <- _ _ _.
  apply add_alive_st in E1. apply close_dead_sk in E2. destruct E1 as [A B].
  eapply sk_trans; [apply sk_same; eassumption|exact E2].
Qed.

Lemma first_boot_sk (b : bool) w :
  sk w (if b && (wstate_eqb (w_st w) WUnknown || wstate_eqb (w_st w) WBooting) then with_st w WIdle else w).
Proof.
  split; [destruct (_ && _); reflexivity|]. intros Hs. rewrite Hs. cbn. rewrite andb_false_r. exact Hs.
Qed.

Lemma idle_run_sk w :
  sk w (if wstate_eqb (w_st w) WIdle && negb (Nat.eqb (nrun w) 0) then with_st w WRunning
        else if wstate_eqb (w_st w) WRunning && Nat.eqb (nrun w) 0 then with_st w WIdle else w).
Proof.
  split; [destruct (_ && _); [reflexivity|destruct (_ && _); reflexivity]|]. intros Hs. rewrite Hs. cbn. exact Hs.
Qed.

(* ---- pool operations that keep the worker list in place ---- *)
Lemma probe_end_F2 c pb r p : Forall2 sk (p_workers p) (p_workers (probe_end c pb r p)).
Proof.
  unfold probe_end. destruct (find_w (pb_id pb) (p_workers p)) as [w|] eqn:Ef; [|apply F2_refl].
  cbv zeta.
  destruct (if probe_lists pb r && pr_list_ok r then (if negb (pr_stale r) then _ else _) else _) as [[w0 clock0] bs] eqn:E0.
  assert (S0 : sk w w0).
  { destruct (probe_lists pb r && pr_list_ok r); [|injection E0 as <- _ _; apply sk_refl].
    destruct (negb (pr_stale r)); [injection E0 as <- _ _; apply sk_same; reflexivity|].
    destruct (w_stale w =? 0); injection E0 as <- _ _; [apply sk_same; reflexivity|apply sk_refl]. }
  clear E0.
  destruct (if _ && ibeh_eqb (w_ib w0) IRun then set_idle_behavior c w0 IDrain clock0 else (w0, clock0)) as [w1 clock1] eqn:E1.
  assert (S1 : sk w w1).
  { destruct (_ && ibeh_eqb (w_ib w0) IRun).
    - apply set_idle_behavior_sk in E1. eapply sk_trans; eassumption.
    - injection E1 as <- _. exact S0. }
  clear E1 S0.
  match goal with |- context [if ?X then _ else _] => destruct X end.
  - destruct (wstate_eqb (w_st w1) WShutdown && _).
    + cbn [p_workers]. eapply F2_put; eassumption.
    + destruct (shutdown_if_broken c _ w1 clock1) as [w2 clock2] eqn:E2. cbn [p_workers].
      apply shutdown_if_broken_sk in E2. eapply F2_put; [exact Ef|eapply sk_trans; eassumption].
  - destruct (negb (pb_updated pb =? _)).
    + cbn [p_workers]. eapply F2_put; [exact Ef|]. eapply sk_trans; [exact S1|apply sk_same; reflexivity].
    + match goal with |- context [update_running ?a ?b ?cc ?d] => destruct (update_running a b cc d) as [[[w4 ex4] clock4] ch0] eqn:E4 end.
      apply update_running_sk in E4.
      assert (S4 : sk w w4).
      { eapply sk_trans; [exact S1|]. eapply sk_trans; [|exact E4].
        destruct (if probe_lists pb r && pr_list_ok r then pr_uuids r else []); [destruct (w_running _)|]; apply sk_same; reflexivity. }
      clear E4.
      set (booted := probe_booted pb r).
      pose proof (first_boot_sk booted w4) as S5.
      match goal with |- context [if negb ?X then _ else _] => destruct (negb X) end; cbn [p_workers].
      * eapply F2_put; [exact Ef|]. eapply sk_trans; [exact S4|exact S5].
      * eapply F2_put; [exact Ef|]. eapply sk_trans; [exact S4|]. eapply sk_trans; [exact S5|].
        eapply sk_trans; [apply idle_run_sk|]. apply sk_same; reflexivity.
Qed.

Lemma pool_start_F2 it u p :
  NoDup (map w_id (p_workers p)) -> Forall2 sk (p_workers p) (p_workers (snd (pool_start it u p))).
Proof.
  intros Hn. unfold pool_start. destruct (pick_latest it (p_workers p) None) as [w|] eqn:E; cbn [snd p_workers set_workers]; [|apply F2_refl].
  destruct (pick_latest_in _ _ _ _ E) as [[Hin Hc]|Hb]; [|discriminate].
  pose proof (in_find_w _ _ Hn Hin) as Hf.
  eapply F2_put; [exact Hf|]. split; [reflexivity|].
  intros Hs. unfold start_candidate in Hc. rewrite Hs in Hc. cbn in Hc. rewrite andb_false_r in Hc. discriminate.
Qed.

Lemma start_lands_F2 id u p : Forall2 sk (p_workers p) (p_workers (start_lands id u p)).
Proof.
  unfold start_lands. destruct (find_w id (p_workers p)) as [w|] eqn:Ef; [|apply F2_refl].
  cbn [tick p_workers set_workers]. eapply F2_put; [exact Ef|]. apply sk_same; reflexivity.
Qed.

Lemma kill_in_F2 u ws : forall b ws', kill_in u ws = (b, ws') -> Forall2 sk ws ws'.
Proof.
  induction ws as [|w r IH]; intros b ws'; cbn [kill_in]; [intros H; injection H as _ <-; constructor|].
  destruct (has_run u (w_running w)); [intros H; injection H as _ <-; constructor; [apply sk_same; reflexivity|apply F2_refl]|].
  destruct (has_run u (w_starting w)); [intros H; injection H as _ <-; constructor; [apply sk_same; reflexivity|apply F2_refl]|].
  destruct (kill_in u r) as [b' r'] eqn:E. intros H; injection H as _ <-. constructor; [apply sk_refl|eapply IH; reflexivity].
Qed.

Lemma pool_kill_F2 u p : Forall2 sk (p_workers p) (p_workers (snd (pool_kill u p))).
Proof.
  unfold pool_kill. destruct (kill_in u (p_workers p)) as [b ws] eqn:E. cbn. eapply kill_in_F2; exact E.
Qed.

Lemma kill_delivered_F2 id u p : Forall2 sk (p_workers p) (p_workers (kill_delivered id u p)).
Proof.
  unfold kill_delivered. destruct (find_w id (p_workers p)) as [w|] eqn:Ef; [|apply F2_refl].
  destruct (close_runner u w (p_exited p) (p_clock p)) as [[w' ex] clock] eqn:E. cbn [p_workers].
  apply close_runner_sk in E. eapply F2_put; eassumption.
Qed.

Lemma give_up_F2 c id u p : Forall2 sk (p_workers p) (p_workers (give_up c id u p)).
Proof.
  unfold give_up. destruct (find_w id (p_workers p)) as [w|] eqn:Ef; [|apply F2_refl].
  set (w1 := with_runs w _ _). assert (S1 : sk w w1) by (apply sk_same; reflexivity).
  destruct (w_ib w1).
  - destruct (set_idle_behavior c w1 IDrain (p_clock p)) as [w2 clock] eqn:E. cbn [p_workers].
    apply set_idle_behavior_sk in E. eapply F2_put; [exact Ef|eapply sk_trans; [exact S1|exact E]].
  - cbn [p_workers set_workers]. eapply F2_put; [exact Ef|exact S1].
  - destruct (set_idle_behavior c w1 IDrain (p_clock p)) as [w2 clock] eqn:E. cbn [p_workers].
    apply set_idle_behavior_sk in E. eapply F2_put; [exact Ef|eapply sk_trans; [exact S1|exact E]].
Qed.

Lemma pool_set_ib_F2 c id b p : Forall2 sk (p_workers p) (p_workers (pool_set_ib c id b p)).
Proof.
  unfold pool_set_ib. destruct (find_w id (p_workers p)) as [w|] eqn:Ef; [|apply F2_refl].
  destruct (set_idle_behavior c w b (p_clock p)) as [w' clock] eqn:E. cbn [p_workers].
  apply set_idle_behavior_sk in E. eapply F2_put; eassumption.
Qed.

Lemma pool_shutdown_F2 it ch p : Forall2 sk (p_workers p) (p_workers (snd (pool_shutdown it ch p))).
Proof.
  unfold pool_shutdown. destruct (shutdown_candidates it p); [apply F2_refl|].
  destruct (find_w ch (p_workers p)) as [w|] eqn:Ef; [|apply F2_refl].
  destruct (shut_ok it _ w); [|apply F2_refl].
  cbn [tick snd p_workers set_workers]. eapply F2_put; [exact Ef|apply w_shutdown_sk].
Qed.

Lemma sweep_idle_F2 c ws : forall clock ws' clock', sweep_idle c ws clock = (ws', clock') -> Forall2 sk ws ws'.
Proof.
  induction ws as [|w r IH]; intros clock ws' clock'; cbn [sweep_idle]; [intros H; injection H as <- _; constructor|].
  destruct (wstate_eqb (w_st w) WShutdown).
  - destruct (sweep_idle c r clock) as [r' k] eqn:E. intros H; injection H as <- _.
    constructor; [apply sk_refl|eapply IH; exact E].
  - destruct (shutdown_if_idle c w clock) as [[w' c1] b] eqn:E1. destruct (sweep_idle c r c1) as [r' k] eqn:E.
    intros H; injection H as <- _. constructor; [eapply shutdown_if_idle_sk; exact E1|eapply IH; exact E].
Qed.

Lemma pool_sweep_F2 c p : Forall2 sk (p_workers p) (p_workers (pool_sweep c p)).
Proof.
  unfold pool_sweep. destruct (sweep_idle c (p_workers p) (p_clock p)) as [ws clock] eqn:E. cbn. eapply sweep_idle_F2; exact E.
Qed.

(* ---- operations that add or drop workers: every worker afterwards descends from one before, or its
   instance id was not there before ---- *)
Definition SKP (ws ws' : list wkr) : Prop :=
  forall w', In w' ws' -> (exists w, In w ws /\ sk w w') \/ ~ In (w_id w') (map w_id ws).

Lemma F2_SKP ws ws' : Forall2 sk ws ws' -> SKP ws ws'.
Proof. intros H w' Hin. left. eapply F2_in; eassumption. Qed.

Lemma sync_listed_SKP c ws0 listed : forall ws clock ws1 clock1,
  SKP ws0 ws -> incl (map w_id ws0) (map w_id ws) ->
  sync_listed c listed ws clock = (ws1, clock1) -> SKP ws0 ws1.
Proof.
  induction listed as [|[[id it] ib] r IH]; intros ws clock ws1 clock1 HS Hincl; cbn [sync_listed].
  - intros H; injection H as <- _. exact HS.
  - destruct (find_w id ws) as [w|] eqn:Ef.
    + assert (Hput : forall w', sk w w' -> SKP ws0 (put_w w' ws) /\ incl (map w_id ws0) (map w_id (put_w w' ws))).
      { intros w' Hs. split; [|rewrite put_w_ids; exact Hincl].
        intros x Hx. apply in_put in Hx. destruct Hx as [->|Hx]; [|apply HS; exact Hx].
        destruct (HS w (find_w_in _ _ _ Ef)) as [(w0 & Hw0 & Hs0)|Hn].
        - left. exists w0. split; [exact Hw0|eapply sk_trans; eassumption].
        - right. destruct Hs as [Hid _]. rewrite Hid. exact Hn. }
      destruct (wstate_eqb _ _ && _); intros H.
      * destruct (Hput (w_shutdown (clock + 1 + 1) (with_updated w (clock + 1)))) as [A B];
          [eapply sk_trans; [|apply w_shutdown_sk]; apply sk_same; reflexivity|].
        eapply IH; [exact A|exact B|exact H].
      * destruct (Hput (with_updated w (clock + 1))) as [A B]; [apply sk_same; reflexivity|].
        eapply IH; [exact A|exact B|exact H].
    + intros H. eapply IH; [| |exact H].
      * intros x Hx. apply in_app_or in Hx. destruct Hx as [Hx|[<-|[]]]; [apply HS; exact Hx|].
        right. cbn [new_worker w_id]. intros Hin. apply Hincl in Hin. apply find_w_none in Ef. contradiction.
      * rewrite map_app. apply incl_appl. exact Hincl.
Qed.

Lemma pool_sync_is_sync_at c listed p : pool_sync c listed p = pool_sync_at c (fst (tick p)) listed (snd (tick p)).
Proof. reflexivity. Qed.

Lemma pool_sync_at_SKP c th listed p : SKP (p_workers p) (p_workers (pool_sync_at c th listed p)).
Proof.
  unfold pool_sync_at.
  destruct (sync_listed c listed (p_workers p) (p_clock p)) as [ws clock] eqn:E. cbn [p_workers].
  intros w' Hin. apply filter_In in Hin. destruct Hin as [Hin _].
  eapply (sync_listed_SKP c (p_workers p)); [apply F2_SKP; apply F2_refl|apply incl_refl|exact E|exact Hin].
Qed.

Lemma pool_sync_at_nodup c th listed p :
  NoDup (map w_id (p_workers p)) -> NoDup (map w_id (p_workers (pool_sync_at c th listed p))).
Proof.
  unfold pool_sync_at.
  destruct (sync_listed c listed (p_workers p) (p_clock p)) as [ws clock] eqn:E. cbn [p_workers].
  intros Hn. apply NoDup_map_filter. eapply sync_listed_nodup; eassumption.
Qed.

Lemma pool_sync_SKP c listed p : SKP (p_workers p) (p_workers (pool_sync c listed p)).
Proof. rewrite pool_sync_is_sync_at. apply (pool_sync_at_SKP c _ listed (snd (tick p))). Qed.

Lemma pool_sync_nodup c listed p : NoDup (map w_id (p_workers p)) -> NoDup (map w_id (p_workers (pool_sync c listed p))).
Proof. rewrite pool_sync_is_sync_at. apply (pool_sync_at_nodup c _ listed (snd (tick p))). Qed.

(* a sync never drops a worker that was updated after its threshold: the answer of the cloud is a snapshot from
   when the list request was issued, and whatever the pool has learnt since then wins *)
Lemma in_put_keep w w' ws : In w ws -> In w (put_w w' ws) \/ (w_id w = w_id w' /\ In w' (put_w w' ws)).
Proof.
  induction ws as [|x r IH]; intros Hin; [destruct Hin|]. cbn [put_w].
  destruct (N.eqb (w_id x) (w_id w')) eqn:E.
  - destruct Hin as [->|Hin]; [right; split; [apply N.eqb_eq; exact E|left; reflexivity]|left; right; exact Hin].
  - destruct Hin as [->|Hin]; [left; left; reflexivity|].
    destruct (IH Hin) as [H|[H1 H2]]; [left; right; exact H|right; split; [exact H1|right; exact H2]].
Qed.

Lemma sync_listed_keeps_fresh c th i listed : forall ws clock ws1 clock1,
  th <= clock -> (exists w, In w ws /\ w_id w = i /\ th < w_updated w) ->
  sync_listed c listed ws clock = (ws1, clock1) -> exists w, In w ws1 /\ w_id w = i /\ th < w_updated w.
Proof.
  induction listed as [|[[id it] ib] r IH]; intros ws clock ws1 clock1 Hth (w & Hin & Hid & Hup); cbn [sync_listed].
  - intros H; injection H as <- _. eauto.
  - destruct (find_w id ws) as [w0|] eqn:Ef.
    + destruct (wstate_eqb _ _ && _); intros H.
      * eapply IH; [| |exact H]; [lia|].
        destruct (in_put_keep w (w_shutdown (clock + 1 + 1) (with_updated w0 (clock + 1))) ws Hin) as [Hk|[He Hk]].
        -- exists w. auto.
        -- eexists. split; [exact Hk|]. split; [cbn in *; congruence|cbn; lia].
      * eapply IH; [| |exact H]; [lia|].
        destruct (in_put_keep w (with_updated w0 (clock + 1)) ws Hin) as [Hk|[He Hk]].
        -- exists w. auto.
        -- eexists. split; [exact Hk|]. split; [cbn in *; congruence|cbn; lia].
    + intros H. eapply IH; [| |exact H]; [lia|]. exists w. split; [apply in_or_app; left; exact Hin|auto].
Qed.

Theorem sync_at_keeps_fresh c th listed p w :
  th <= p_clock p -> In w (p_workers p) -> th < w_updated w ->
  In (w_id w) (ids (pool_sync_at c th listed p)).
Proof.
  intros Hth Hin Hup. unfold ids, pool_sync_at.
  destruct (sync_listed c listed (p_workers p) (p_clock p)) as [ws clock] eqn:E. cbn [p_workers].
  destruct (sync_listed_keeps_fresh c th (w_id w) listed _ _ _ _ Hth (ex_intro _ w (conj Hin (conj eq_refl Hup))) E)
    as (w' & Hin' & Hid' & Hup').
  rewrite <- Hid'. apply in_map. apply filter_In. split; [exact Hin'|]. apply Z.ltb_lt. exact Hup'.
Qed.

(* an instance created by the pool carries a stamp later than everything before *)
Lemma create_is_fresh it newid p p' :
  pool_create it newid 0 p = (true, p') -> p_quota p = false ->
  exists w, In w (p_workers p') /\ w_id w = newid /\ p_clock p < w_updated w.
Proof.
  unfold pool_create. intros H Hq. rewrite Hq in H. cbn in H. injection H as <-. cbn [p_workers set_workers].
  eexists. split; [apply in_or_app; right; left; reflexivity|]. split; [reflexivity|]. cbn. lia.
Qed.

Lemma pool_create_workers it newid oc p :
  p_workers (snd (pool_create it newid oc p)) = p_workers p \/
  (oc = 0%N /\ exists now, p_workers (snd (pool_create it newid oc p)) = p_workers p ++ [new_worker newid it WBooting IRun now]).
Proof.
  unfold pool_create. destruct (p_quota p); [left; reflexivity|]. cbn [tick].
  destruct oc as [|[q|q|]]; cbn; try (left; reflexivity). right. split; [reflexivity|]. eexists. reflexivity.
Qed.

(* ---- all operations of the worker stage ---- *)
Lemma F2_both ws ws' : Forall2 sk ws ws' -> SKP ws ws' /\ (NoDup (map w_id ws) -> NoDup (map w_id ws')).
Proof. intros H. split; [apply F2_SKP; exact H|]. rewrite (F2_ids _ _ H). auto. Qed.

Lemma apply_op_SKP c o m :
  o <> ORestart -> fresh_create o (ms_pool m) -> NoDup (ids (ms_pool m)) ->
  SKP (p_workers (ms_pool m)) (p_workers (ms_pool (snd (apply_op c o m)))) /\
  (NoDup (ids (ms_pool m)) -> NoDup (ids (ms_pool (snd (apply_op c o m))))).
Proof.
  intros Hr Hf Hnd. unfold ids in *. set (p := ms_pool m) in *.
  assert (Ht : p_workers (snd (tick p)) = p_workers p) by reflexivity.
  destruct o; unfold apply_op; fold p; cbn [fresh_create] in Hf.
  - (* OSync *) cbn [snd ms_pool]. split.
    + pose proof (pool_sync_SKP c listed (snd (tick p))) as H. rewrite Ht in H. exact H.
    + pose proof (pool_sync_nodup c listed (snd (tick p))) as H. rewrite Ht in H. exact H.
  - (* OCreate *)
    destruct (pool_create it newid outcome (snd (tick p))) as [b p'] eqn:E. cbn [snd ms_pool].
    pose proof (pool_create_workers it newid outcome (snd (tick p))) as H. rewrite E, Ht in H. cbn [snd] in H.
    destruct H as [->|(_ & now & ->)]; [apply F2_both; apply F2_refl|]. split.
    + intros x Hx. apply in_app_or in Hx. destruct Hx as [Hx|[<-|[]]].
      * left. exists x. split; [exact Hx|apply sk_refl].
      * right. exact Hf.
    + intros Hn. rewrite map_app. apply NoDup_app_iff. split; [exact Hn|]. split; [repeat constructor; intros []|].
      intros x Hx [<-|[]]. apply Hf. exact Hx.
  - (* OProbe *)
    destruct (probe_begin id (snd (tick p))) as [[pb|] p'] eqn:E; cbn [snd ms_pool].
    + assert (Hw : p_workers p' = p_workers p).
      { unfold probe_begin in E. rewrite Ht in E. destruct (find_w id (p_workers p)); [|discriminate].
        destruct (w_st w); try discriminate; injection E as _ <-; reflexivity. }
      pose proof (probe_end_F2 c pb r p') as H. rewrite Hw in H. apply F2_both. exact H.
    + assert (Hw : p_workers p' = p_workers p).
      { unfold probe_begin in E. rewrite Ht in E. destruct (find_w id (p_workers p)); [|injection E as <-; reflexivity].
        destruct (w_st w); try discriminate; injection E as <-; reflexivity. }
      rewrite Hw. apply F2_both. apply F2_refl.
  - (* OProbeBegin *)
    destruct (probe_begin id (snd (tick p))) as [[pb|] p'] eqn:E.
    + assert (Hw : p_workers p' = p_workers p).
      { unfold probe_begin in E. rewrite Ht in E. destruct (find_w id (p_workers p)); [|discriminate].
        destruct (w_st w); try discriminate; injection E as _ <-; reflexivity. }
      destruct (probe_lists pb r); cbn [snd ms_pool].
      * rewrite Hw. apply F2_both. apply F2_refl.
      * pose proof (probe_end_F2 c pb r p') as H. rewrite Hw in H. apply F2_both. exact H.
    + assert (Hw : p_workers p' = p_workers p).
      { unfold probe_begin in E. rewrite Ht in E. destruct (find_w id (p_workers p)); [|injection E as <-; reflexivity].
        destruct (w_st w); try discriminate; injection E as <-; reflexivity. }
      cbn [snd ms_pool]. rewrite Hw. apply F2_both. apply F2_refl.
  - (* OProbeEnd *)
    destruct (filter _ (ms_pending m)) as [|[pb r] rest]; cbn [snd ms_pool].
    + apply F2_both. apply F2_refl.
    + pose proof (probe_end_F2 c pb r (snd (tick p))) as H. rewrite Ht in H. apply F2_both. exact H.
  - (* OStart *)
    pose proof (pool_start_F2 it u (snd (tick p)) Hnd) as H. rewrite Ht in H.
    destruct (pool_start it u (snd (tick p))) as [r p']. cbn [snd ms_pool] in *. apply F2_both. exact H.
  - (* OLands *) cbn [snd ms_pool]. pose proof (start_lands_F2 id u (snd (tick p))) as H. rewrite Ht in H. apply F2_both. exact H.
  - (* OKill *)
    pose proof (pool_kill_F2 u (snd (tick p))) as H. rewrite Ht in H.
    destruct (pool_kill u (snd (tick p))) as [b p']. cbn [snd ms_pool] in *. apply F2_both. exact H.
  - cbn [snd ms_pool]. pose proof (kill_delivered_F2 id u (snd (tick p))) as H. rewrite Ht in H. apply F2_both. exact H.
  - cbn [snd ms_pool]. pose proof (give_up_F2 c id u (snd (tick p))) as H. rewrite Ht in H. apply F2_both. exact H.
  - cbn [snd ms_pool]. apply F2_both. apply F2_refl.
  - cbn [snd ms_pool]. pose proof (pool_set_ib_F2 c id b (snd (tick p))) as H. rewrite Ht in H. apply F2_both. exact H.
  - pose proof (pool_shutdown_F2 it chosen (snd (tick p))) as H. rewrite Ht in H.
    destruct (pool_shutdown it chosen (snd (tick p))) as [b p']. cbn [snd ms_pool] in *. apply F2_both. exact H.
  - cbn [snd ms_pool]. pose proof (pool_sweep_F2 c (snd (tick p))) as H. rewrite Ht in H. apply F2_both. exact H.
  - cbn [snd ms_pool]. apply F2_both. apply F2_refl.
  - contradiction.
  - cbn [snd ms_pool]. apply F2_both. apply F2_refl.
  - (* OSyncBegin *) cbn [tick snd ms_pool p_workers]. apply F2_both. apply F2_refl.
  - (* OSyncEnd *)
    destruct (ms_sync m) as [[th l]|]; cbn [snd ms_pool]; [|apply F2_both; apply F2_refl]. split.
    + pose proof (pool_sync_at_SKP c th l (snd (tick p))) as H. rewrite Ht in H. exact H.
    + pose proof (pool_sync_at_nodup c th l (snd (tick p))) as H. rewrite Ht in H. exact H.
Qed.

Lemma op_restart_dec (o : op) : o = ORestart \/ o <> ORestart.
Proof. destruct o; try (right; discriminate). left; reflexivity. Qed.

Lemma nodup_id_inj ws w1 w2 : NoDup (map w_id ws) -> In w1 ws -> In w2 ws -> w_id w1 = w_id w2 -> w1 = w2.
Proof.
  intros Hn H1 H2 E. pose proof (in_find_w _ _ Hn H1) as F1. pose proof (in_find_w _ _ Hn H2) as F2.
  rewrite E in F1. congruence.
Qed.

(* StateShutdown is terminal: whatever the pool does (short of being replaced by a new pool), an instance it has
   shut down is never shown in another state again, as long as the pool knows it *)
Theorem shutdown_is_terminal c o m i :
  o <> ORestart -> fresh_create o (ms_pool m) -> NoDup (ids (ms_pool m)) ->
  shut_id i (ms_pool m) -> only_shut i (ms_pool (snd (apply_op c o m))).
Proof.
  intros Hr Hf Hn (w0 & Hin0 & Hid0 & Hst0) w' Hin' Hid'.
  destruct (apply_op_SKP c o m Hr Hf Hn) as [HS _].
  destruct (HS w' Hin') as [(w & Hin & Hid & Hst)|Hnew].
  - assert (w = w0) by (eapply nodup_id_inj; try eassumption; congruence). subst w. auto.
  - exfalso. apply Hnew. rewrite Hid', <- Hid0. apply in_map. exact Hin0.
Qed.

(* ================= 2. the specification of the stage is what it says ================= *)
Lemma nodup_uuid_spec l : nodup_uuid l = true <-> NoDup (map snd l).
Proof.
  induction l as [|x r IH]; cbn [nodup_uuid map]; [split; [constructor|reflexivity]|].
  rewrite andb_true_iff, negb_true_iff, IH, NoDup_cons_iff. split; intros [A B]; (split; [|exact B]).
  - intros Hin. apply in_map_iff in Hin. destruct Hin as (y & Hy & Hin).
    assert (existsb (fun y => N.eqb (snd x) (snd y)) r = true); [|congruence].
    apply existsb_exists. exists y. split; [exact Hin|]. rewrite Hy. apply N.eqb_refl.
  - destruct (existsb _ r) eqn:E; [|reflexivity]. exfalso. apply A.
    apply existsb_exists in E. destruct E as (y & Hin & Hy). apply N.eqb_eq in Hy. rewrite Hy. apply in_map. exact Hin.
Qed.

Lemma list_eqb_pairNZ a : forall b, list_eqb pairNZ_eqb a b = true <-> a = b.
Proof.
  induction a as [|[x1 x2] r IH]; intros [|[y1 y2] s]; cbn [list_eqb]; try (split; [discriminate|discriminate]); [split; reflexivity|].
  unfold pairNZ_eqb at 1. cbn [fst snd]. rewrite !andb_true_iff, N.eqb_eq, Z.eqb_eq, IH.
  split; [intros [[-> ->] ->]; reflexivity|intros H; injection H as -> -> ->; auto].
Qed.

Lemma list_eqb_inst a : forall b, list_eqb inst_eqb a b = true <-> a = b.
Proof.
  induction a as [|[[[[x1 x2] x3] x4] x5] r IH]; intros [|[[[[y1 y2] y3] y4] y5] s]; cbn [list_eqb];
    try (split; [discriminate|discriminate]); [split; reflexivity|].
  unfold inst_eqb at 1. rewrite !andb_true_iff, !N.eqb_eq, IH.
  split; [intros [[[[[-> ->] ->] ->] ->] ->]; reflexivity|intros H; injection H as -> -> -> -> -> ->; tauto].
Qed.

Lemma in_live_on disc ob v u : In (v, u) (live_on disc ob) <-> In v disc /\ In (v, u) (ob_live ob).
Proof. unfold live_on. rewrite filter_In. cbn [fst]. rewrite memN_In. tauto. Qed.

Theorem wp_step_ok_spec shut disc sb prev o ob : C14_wp_run.step_ok shut disc sb prev o ob = true <-> step_P shut disc sb prev o ob.
Proof.
  unfold C14_wp_run.step_ok, step_P. rewrite andb_true_iff, nodup_uuid_spec.
  assert (forall A B C : Prop, (A <-> B) -> (A /\ C <-> B /\ C)) as Hc by tauto. apply Hc. clear Hc.
  destruct o; try (split; auto; fail).
  - (* OCreate *) rewrite orb_true_iff, N.eqb_eq, list_eqb_pairNZ. tauto.
  - (* OStart *)
    rewrite orb_true_iff, N.eqb_eq, !andb_true_iff, !negb_true_iff.
    assert (forall x l, memN x l = false <-> ~ In x l) as Hm.
    { intros x l. rewrite <- memN_In. destruct (memN x l); split; congruence. }
    rewrite !Hm.
    destruct (find_inst (ob_ret ob - 1) (ob_inst prev)) as [[st ib]|].
    + rewrite andb_true_iff, !N.eqb_eq. split.
      * intros [H|[[[-> ->] H2] H3]]; [left; exact H|right; auto].
      * intros [H|[H1 [H2 H3]]]; [left; exact H|right]. injection H1 as -> ->. auto.
    + split; [intros [H|[[H _] _]]; [left; exact H|discriminate]|intros [H|[H _]]; [left; exact H|discriminate]].
  - (* OSyncEnd *)
    destruct sb as [b|]; [|split; [intros _ b' Hb; discriminate|reflexivity]].
    rewrite forallb_forall. split.
    + intros H b' Hb i Hi Hn. injection Hb as <-. specialize (H i Hi). apply orb_true_iff in H.
      destruct H as [H|H]; apply memN_In in H; [contradiction|exact H].
    + intros H i Hi. apply orb_true_iff. destruct (memN i b) eqn:E; [left; reflexivity|right].
      apply memN_In. apply (H b eq_refl i Hi). intros Hin. apply memN_In in Hin. congruence.
Qed.

Theorem wp_spec_steps_spec steps : forall shut disc sb prev, spec_steps shut disc sb prev steps = true <-> spec_P shut disc sb prev steps.
Proof.
  induction steps as [|[o ob] r IH]; intros shut disc sb prev; cbn [spec_steps spec_P]; [tauto|].
  rewrite andb_true_iff, wp_step_ok_spec, IH. tauto.
Qed.

(* which instances are carried as "shut down" / "discovered" *)
Lemma in_shut_now i ob : In i (shut_now ob) <-> exists ib la de, In (i, 4%N, ib, la, de) (ob_inst ob).
Proof.
  unfold shut_now. rewrite in_flat_map. split.
  - intros ([[[[j st] ib] la] de] & Hin & H). destruct (N.eqb st 4) eqn:E; [|destruct H].
    apply N.eqb_eq in E. destruct H as [<-|[]]. subst st. eauto.
  - intros (ib & la & de & Hin). exists (i, 4%N, ib, la, de). split; [exact Hin|]. cbn. left. reflexivity.
Qed.

Lemma in_inst_ids i ob : In i (inst_ids ob) <-> exists st ib la de, In (i, st, ib, la, de) (ob_inst ob).
Proof.
  unfold inst_ids. rewrite in_map_iff. split.
  - intros ([[[[j st] ib] la] de] & <- & Hin). eauto.
  - intros (st & ib & la & de & Hin). exists (i, st, ib, la, de). split; [reflexivity|exact Hin].
Qed.

Theorem wp_next_shut_spec shut o ob i :
  In i (next_shut shut o ob) <->
  o <> ORestart /\ ((exists ib la de, In (i, 4%N, ib, la, de) (ob_inst ob)) \/ (In i shut /\ In i (inst_ids ob))).
Proof.
  unfold next_shut. destruct o; try (rewrite in_app_iff, filter_In, memN_In, in_shut_now; split; [intros H; split; [discriminate|tauto]|tauto]).
  cbn. split; [intros []|intros [H _]; apply H; reflexivity].
Qed.

(* ================= 3. the pool model satisfies the clauses that are about the pool ================= *)
Definition entry (w : wkr) : N * N * N * N * N := (w_id w, st_code (w_st w), ib_code (w_ib w), w_last w, w_destroys w).
Definition key5 (x : N * N * N * N * N) : N := match x with (id, _, _, _, _) => id end.

Lemma in_ins_by {A} (key : A -> N) x y l : In y (ins_by key x l) <-> y = x \/ In y l.
Proof.
  induction l as [|z r IH]; cbn [ins_by]; [cbn; intuition|].
  destruct (key x <=? key z)%N; cbn [In]; [intuition|]. rewrite IH. cbn. intuition.
Qed.
Lemma in_sort_by {A} (key : A -> N) y l : In y (sort_by key l) <-> In y l.
Proof.
  induction l as [|x r IH]; cbn [sort_by fold_right]; [tauto|].
  fold (sort_by key r). rewrite in_ins_by, IH. cbn. intuition.
Qed.

Lemma ob_inst_project ret p : ob_inst (project ret p) = sort_by key5 (map entry (p_workers p)).
Proof. reflexivity. Qed.

Lemma in_proj_inst x p : In x (sort_by key5 (map entry (p_workers p))) <-> exists w, In w (p_workers p) /\ entry w = x.
Proof. rewrite in_sort_by, in_map_iff. split; intros (w & A & B); exists w; auto. Qed.

Lemma st_code_4 s : st_code s = 4%N -> s = WShutdown.
Proof. destruct s; cbn; congruence. Qed.

Lemma find_inst_first i l st ib :
  (exists la de, In (i, st, ib, la, de) l) ->
  (forall st' ib' la de, In (i, st', ib', la, de) l -> st' = st /\ ib' = ib) ->
  find_inst i l = Some (st, ib).
Proof.
  induction l as [|[[[[j s] b] la] de] r IH]; intros (la0 & de0 & Hin) Hu; [destruct Hin|]. cbn [find_inst].
  destruct (N.eqb j i) eqn:E.
  - apply N.eqb_eq in E. subst j. destruct (Hu s b la de (or_introl eq_refl)) as [-> ->]. reflexivity.
  - apply IH.
    + destruct Hin as [Hin|Hin]; [injection Hin as -> _ _ _ _; rewrite N.eqb_refl in E; discriminate|eauto].
    + intros st' ib' la' de' H. apply (Hu st' ib' la' de'). right. exact H.
Qed.

(* what the stage's invariant says about the observation before a step and the model state *)
Definition agrees (prev : obs) (p : wpool) : Prop :=
  ob_inst prev = sort_by key5 (map entry (p_workers p)) /\ ob_unalloc prev = sort_by fst (pool_unallocated p).
Definition K (shut : list N) (prev : obs) (p : wpool) : Prop :=
  NoDup (ids p) /\ agrees prev p /\ forall i, In i shut -> shut_id i p.

Lemma obs_eqb_fields a b : obs_eqb a b = true -> ob_ret a = ob_ret b /\ ob_unalloc a = ob_unalloc b /\ ob_inst a = ob_inst b.
Proof.
  unfold obs_eqb. rewrite !andb_true_iff, N.eqb_eq, list_eqb_pairNZ, list_eqb_inst. tauto.
Qed.

Lemma ids_agree prev p i : agrees prev p -> (In i (inst_ids prev) <-> In i (ids p)).
Proof.
  intros [A _]. rewrite in_inst_ids, A. unfold ids. rewrite in_map_iff. split.
  - intros (st & ib & la & de & Hin). apply in_proj_inst in Hin. destruct Hin as (w & Hw & E).
    exists w. split; [|exact Hw]. unfold entry in E. congruence.
  - intros (w & <- & Hw). exists (st_code (w_st w)), (ib_code (w_ib w)), (w_last w), (w_destroys w).
    apply in_proj_inst. exists w. split; [exact Hw|reflexivity].
Qed.

Lemma pool_unallocated_workers p p' : p_workers p' = p_workers p -> pool_unallocated p' = pool_unallocated p.
Proof. unfold pool_unallocated. intros ->. reflexivity. Qed.

(* ---- stamps: whatever is later than a threshold stays later; what appears is later ---- *)
Definition fr (th : Z) (w w' : wkr) : Prop := w_id w' = w_id w /\ (th < w_updated w -> th < w_updated w').
Definition FRP (th : Z) (ws ws' : list wkr) : Prop :=
  forall w', In w' ws' -> (exists w, In w ws /\ fr th w w') \/ th < w_updated w'.
Definition FR (th : Z) (p p' : wpool) : Prop := p_clock p <= p_clock p' /\ FRP th (p_workers p) (p_workers p').

Lemma fr_refl th w : fr th w w.
Proof. split; auto. Qed.
Lemma fr_trans th a b c : fr th a b -> fr th b c -> fr th a c.
Proof. intros [A1 A2] [B1 B2]. split; [congruence|auto]. Qed.
Lemma fr_same th w w' : w_id w' = w_id w -> w_updated w' = w_updated w -> fr th w w'.
Proof. intros A B. split; [exact A|rewrite B; auto]. Qed.
Lemma fr_new th w w' : w_id w' = w_id w -> th < w_updated w' -> fr th w w'.
Proof. intros A B. split; auto. Qed.
Lemma fr_disj th c w w' : th <= c -> w_id w' = w_id w -> (w_updated w' = w_updated w \/ c < w_updated w') -> fr th w w'.
Proof. intros Hc A [B|B]; [apply fr_same; assumption|apply fr_new; [assumption|lia]]. Qed.
Lemma wframe_fr th c w w' : th <= c -> wframe c w w' -> fr th w w'.
Proof. intros Hc (A & _ & _ & _ & B). eapply fr_disj; eassumption. Qed.

Lemma FRP_refl th ws : FRP th ws ws.
Proof. intros w Hin. left. exists w. split; [exact Hin|apply fr_refl]. Qed.
Lemma FRP_trans th a b c : FRP th a b -> FRP th b c -> FRP th a c.
Proof.
  intros H1 H2 w'' Hin. destruct (H2 w'' Hin) as [(w' & Hw' & F2)|Hnew]; [|right; exact Hnew].
  destruct (H1 w' Hw') as [(w & Hw & F1)|Hnew]; [left; exists w; split; [exact Hw|eapply fr_trans; eassumption]|].
  right. apply F2. exact Hnew.
Qed.
Lemma FR_refl th p : FR th p p.
Proof. split; [lia|apply FRP_refl]. Qed.
Lemma FR_trans th a b c : FR th a b -> FR th b c -> FR th a c.
Proof. intros [A1 A2] [B1 B2]. split; [lia|eapply FRP_trans; eassumption]. Qed.
Lemma FR_same_workers th p p' : p_clock p <= p_clock p' -> p_workers p' = p_workers p -> FR th p p'.
Proof. intros Hc Hw. split; [exact Hc|rewrite Hw; apply FRP_refl]. Qed.

Lemma FRP_put th id ws w w' : find_w id ws = Some w -> fr th w w' -> FRP th ws (put_w w' ws).
Proof.
  intros Hf Hs x Hx. apply in_put in Hx. destruct Hx as [->|Hx].
  - left. exists w. split; [eapply find_w_in; exact Hf|exact Hs].
  - left. exists x. split; [exact Hx|apply fr_refl].
Qed.

Lemma pframe_FR th p p' : th <= p_clock p -> pframe p p' -> FR th p p'.
Proof.
  intros Hth (Hc & HF & _). split; [exact Hc|]. intros w' Hin.
  destruct (frame_in _ _ _ _ HF Hin) as (w & Hw & Hfr). left. exists w. split; [exact Hw|eapply wframe_fr; eassumption].
Qed.

Lemma probe_begin_FR th id p : FR th p (snd (probe_begin id p)).
Proof.
  unfold probe_begin. destruct (find_w id (p_workers p)); [|apply FR_refl].
  destruct (w_st w); try apply FR_refl; cbn [tick snd]; apply FR_same_workers; cbn; try lia; reflexivity.
Qed.

Lemma probe_end_FR c pb r p th : th <= p_clock p -> FR th p (probe_end c pb r p).
Proof.
  intros Hth. unfold probe_end. destruct (find_w (pb_id pb) (p_workers p)) as [w|] eqn:Ef; [|apply FR_refl].
  cbv zeta.
  destruct (if probe_lists pb r && pr_list_ok r then (if negb (pr_stale r) then _ else _) else _) as [[w0 clock0] bs] eqn:E0.
  assert (S0 : fr th w w0 /\ p_clock p <= clock0).
  { destruct (probe_lists pb r && pr_list_ok r); [|injection E0 as <- <- _; split; [apply fr_refl|lia]].
    destruct (negb (pr_stale r)); [injection E0 as <- <- _; split; [apply fr_same; reflexivity|lia]|].
    destruct (w_stale w =? 0); injection E0 as <- <- _; (split; [try apply fr_refl; apply fr_same; reflexivity|lia]). }
  clear E0. destruct S0 as [S0 C0].
  destruct (if _ && ibeh_eqb (w_ib w0) IRun then set_idle_behavior c w0 IDrain clock0 else (w0, clock0)) as [w1 clock1] eqn:E1.
  assert (S1 : fr th w w1 /\ clock0 <= clock1).
  { destruct (_ && ibeh_eqb (w_ib w0) IRun).
    - apply set_idle_behavior_frame in E1. destruct E1 as (F & L & _). split; [|exact L].
      eapply fr_trans; [exact S0|]. eapply wframe_fr; [|exact F]. lia.
    - injection E1 as <- <-. split; [exact S0|lia]. }
  clear E1 S0. destruct S1 as [S1 C1].
  match goal with |- context [if ?X then _ else _] => destruct X end.
  - destruct (wstate_eqb (w_st w1) WShutdown && _).
    + split; [cbn [p_clock]; lia|cbn [p_workers]; eapply FRP_put; eassumption].
    + destruct (shutdown_if_broken c _ w1 clock1) as [w2 clock2] eqn:E2.
      apply shutdown_if_broken_view in E2. destruct E2 as (A & _ & _ & L & _ & D & _).
      split; [cbn [p_clock]; lia|cbn [p_workers]]. eapply FRP_put; [exact Ef|].
      eapply fr_trans; [exact S1|]. eapply (fr_disj th clock1); [lia|exact A|exact D].
  - destruct (negb (pb_updated pb =? _)).
    + split; [cbn [p_clock]; lia|cbn [p_workers]]. eapply FRP_put; [exact Ef|].
      eapply fr_trans; [exact S1|apply fr_same; reflexivity].
    + match goal with |- context [update_running ?a ?b ?cc ?d] => destruct (update_running a b cc d) as [[[w4 ex4] clock4] ch0] eqn:E4 end.
      apply update_running_view in E4. destruct E4 as (A & _ & _ & L & _ & D & _).
      assert (S4 : fr th w w4).
      { eapply fr_trans; [exact S1|]. eapply fr_trans; [|eapply (fr_disj th (clock1 + 1)); [lia|exact A|exact D]].
        destruct (if probe_lists pb r && pr_list_ok r then pr_uuids r else []); [destruct (w_running _)|]; apply fr_same; reflexivity. }
      match goal with |- context [if negb ?X then _ else _] => destruct (negb X) end.
      * split; [cbn [p_clock]; lia|cbn [p_workers]]. eapply FRP_put; [exact Ef|]. eapply fr_trans; [exact S4|].
        assert (Hb : forall b : bool, fr th w4 (if b then with_st w4 WIdle else w4)) by (intros []; apply fr_same; reflexivity).
        apply Hb.
      * split; [cbn [p_clock]; lia|cbn [p_workers]]. eapply FRP_put; [exact Ef|].
        apply fr_new; [|cbn; lia].
        destruct S4 as [S4 _]. rewrite <- S4.
        repeat match goal with |- context [if ?X then _ else _] => destruct X end; reflexivity.
Qed.

Lemma pool_start_FR th it u p : NoDup (map w_id (p_workers p)) -> FR th p (snd (pool_start it u p)).
Proof.
  intros Hn. unfold pool_start. destruct (pick_latest it (p_workers p) None) as [w|] eqn:E; cbn [snd]; [|apply FR_refl].
  destruct (pick_latest_in _ _ _ _ E) as [[Hin _]|Hb]; [|discriminate].
  split; [cbn; lia|cbn [p_workers set_workers]]. eapply FRP_put; [apply in_find_w; eassumption|apply fr_same; reflexivity].
Qed.

Lemma start_lands_FR th id u p : th <= p_clock p -> FR th p (start_lands id u p).
Proof.
  intros Hth. unfold start_lands. destruct (find_w id (p_workers p)) as [w|] eqn:Ef; [|apply FR_refl].
  cbn [tick]. split; [cbn; lia|cbn [p_workers set_workers]]. eapply FRP_put; [exact Ef|apply fr_new; [reflexivity|cbn; lia]].
Qed.

Lemma kill_delivered_FR th id u p : th <= p_clock p -> FR th p (kill_delivered id u p).
Proof.
  intros Hth. unfold kill_delivered. destruct (find_w id (p_workers p)) as [w|] eqn:Ef; [|apply FR_refl].
  destruct (close_runner u w (p_exited p) (p_clock p)) as [[w' ex] clock] eqn:E.
  apply close_runner_view in E. destruct E as (A & _ & _ & _ & L & D & _).
  split; [cbn; lia|cbn [p_workers]]. eapply FRP_put; [exact Ef|eapply fr_disj; eassumption].
Qed.

Lemma sync_listed_FRP c th ws0 listed : forall ws clock ws1 clock1,
  th <= clock -> FRP th ws0 ws -> sync_listed c listed ws clock = (ws1, clock1) -> FRP th ws0 ws1 /\ clock <= clock1.
Proof.
  induction listed as [|[[id it] ib] r IH]; intros ws clock ws1 clock1 Hth HF; cbn [sync_listed].
  - intros H; injection H as <- <-. split; [exact HF|lia].
  - assert (Hput : forall w', th < w_updated w' -> FRP th ws0 (put_w w' ws)).
    { intros w' Hw x Hx. apply in_put in Hx. destruct Hx as [->|Hx]; [right; exact Hw|apply HF; exact Hx]. }
    destruct (find_w id ws) as [w|] eqn:Ef.
    + destruct (wstate_eqb _ _ && _); intros H.
      * assert (H1 : th <= clock + 1 + 1) by lia.
        assert (H2 : th < w_updated (w_shutdown (clock + 1 + 1) (with_updated w (clock + 1)))) by (cbn; lia).
        destruct (IH _ _ _ _ H1 (Hput _ H2) H) as [A B]. split; [exact A|lia].
      * assert (H1 : th <= clock + 1) by lia.
        assert (H2 : th < w_updated (with_updated w (clock + 1))) by (cbn; lia).
        destruct (IH _ _ _ _ H1 (Hput _ H2) H) as [A B]. split; [exact A|lia].
    + intros H.
      assert (HF' : FRP th ws0 (ws ++ [new_worker id it WUnknown ib (clock + 1)])).
      { intros x Hx. apply in_app_or in Hx. destruct Hx as [Hx|[<-|[]]]; [apply HF; exact Hx|right; cbn; lia]. }
      assert (H1 : th <= clock + 1) by lia.
      destruct (IH _ _ _ _ H1 HF' H) as [A B]. split; [exact A|lia].
Qed.

Lemma pool_sync_at_FR c th t listed p : th <= p_clock p -> FR th p (pool_sync_at c t listed p).
Proof.
  intros Hth. unfold pool_sync_at. destruct (sync_listed c listed (p_workers p) (p_clock p)) as [ws clock] eqn:E.
  destruct (sync_listed_FRP c th (p_workers p) listed _ _ _ _ Hth (FRP_refl th _) E) as [A B].
  split; [cbn; exact B|cbn [p_workers]]. intros x Hx. apply filter_In in Hx. apply A. apply Hx.
Qed.

Lemma pool_create_FR th it newid oc p : th <= p_clock p -> FR th p (snd (pool_create it newid oc p)).
Proof.
  intros Hth. unfold pool_create. destruct (p_quota p); [apply FR_refl|]. cbn [tick].
  destruct oc as [|[q|q|]]; cbn [snd]; try (apply FR_same_workers; cbn; [lia|reflexivity]).
  split; [cbn; lia|cbn [p_workers set_workers]]. intros x Hx. apply in_app_or in Hx.
  destruct Hx as [Hx|[<-|[]]]; [left; exists x; split; [exact Hx|apply fr_refl]|right; cbn; lia].
Qed.

Lemma tick_FR th p : FR th p (snd (tick p)).
Proof. apply FR_same_workers; cbn; [lia|reflexivity]. Qed.

(* every operation of the stage *)
Lemma apply_op_FR c o m th :
  NoDup (ids (ms_pool m)) -> th <= p_clock (ms_pool m) -> FR th (ms_pool m) (ms_pool (snd (apply_op c o m))).
Proof.
  intros Hn Hth. set (p := ms_pool m) in *.
  assert (Ht : FR th p (snd (tick p))) by apply tick_FR.
  assert (Hth' : th <= p_clock (snd (tick p))) by (cbn; lia).
  assert (Hn' : NoDup (map w_id (p_workers (snd (tick p))))) by exact Hn.
  eapply FR_trans; [exact Ht|]. unfold apply_op. fold p.
  destruct o.
  - cbn [snd ms_pool]. rewrite pool_sync_is_sync_at. eapply FR_trans; [apply tick_FR|]. apply pool_sync_at_FR. cbn; lia.
  - pose proof (pool_create_FR th it newid outcome (snd (tick p)) Hth') as H.
    destruct (pool_create it newid outcome (snd (tick p))) as [b p']. exact H.
  - pose proof (probe_begin_FR th id (snd (tick p))) as H.
    destruct (probe_begin id (snd (tick p))) as [[pb|] p']; cbn [snd ms_pool] in *; [|exact H].
    eapply FR_trans; [exact H|]. apply probe_end_FR. destruct H as [H _]. lia.
  - pose proof (probe_begin_FR th id (snd (tick p))) as H.
    destruct (probe_begin id (snd (tick p))) as [[pb|] p']; cbn [snd ms_pool] in *; [|exact H].
    destruct (probe_lists pb r); cbn [snd ms_pool]; [exact H|].
    eapply FR_trans; [exact H|]. apply probe_end_FR. destruct H as [H _]. lia.
  - destruct (filter _ (ms_pending m)) as [|[pb r] rest]; cbn [snd ms_pool]; [apply FR_refl|apply probe_end_FR; exact Hth'].
  - pose proof (pool_start_FR th it u (snd (tick p)) Hn') as H.
    destruct (pool_start it u (snd (tick p))) as [r p']. exact H.
  - cbn [snd ms_pool]. apply start_lands_FR. exact Hth'.
  - pose proof (pframe_FR th _ _ Hth' (pool_kill_frame u (snd (tick p)))) as H.
    destruct (pool_kill u (snd (tick p))) as [b p']. exact H.
  - cbn [snd ms_pool]. apply kill_delivered_FR. exact Hth'.
  - cbn [snd ms_pool]. apply pframe_FR; [exact Hth'|apply give_up_frame].
  - cbn [snd ms_pool]. apply pframe_FR; [exact Hth'|apply pool_forget_frame].
  - cbn [snd ms_pool]. apply pframe_FR; [exact Hth'|apply pool_set_ib_frame].
  - pose proof (pframe_FR th _ _ Hth' (pool_shutdown_frame it chosen (snd (tick p)))) as H.
    destruct (pool_shutdown it chosen (snd (tick p))) as [b p']. exact H.
  - cbn [snd ms_pool]. apply pframe_FR; [exact Hth'|apply pool_sweep_frame].
  - cbn [snd ms_pool]. apply FR_refl.
  - cbn [snd ms_pool]. split; [cbn; lia|intros x []].
  - cbn [snd ms_pool]. apply FR_refl.
  - cbn [tick snd ms_pool]. apply FR_same_workers; cbn; [lia|reflexivity].
  - destruct (ms_sync m) as [[t l]|]; cbn [snd ms_pool]; [apply pool_sync_at_FR; exact Hth'|apply FR_refl].
Qed.

(* the list request in flight, as the model and as the judge carry it *)
Definition SI (sb : option (list N)) (m : mstate) : Prop :=
  match ms_sync m, sb with
  | Some (th, _), Some b =>
      th <= p_clock (ms_pool m) /\ forall w, In w (p_workers (ms_pool m)) -> ~ In (w_id w) b -> th < w_updated w
  | None, None => True
  | _, _ => False
  end.

Lemma ms_sync_apply c o m :
  match o with
  | OSyncBegin _ | OSyncEnd | ORestart => True
  | _ => ms_sync (snd (apply_op c o m)) = ms_sync m
  end.
Proof.
  destruct o; try exact I; unfold apply_op;
    repeat match goal with
           | |- context [let (_, _) := ?X in _] => destruct X
           | |- context [match ?X with _ => _ end] => destruct X
           end; reflexivity.
Qed.

Lemma model_step c o ob m shut sb prev :
  K shut prev (ms_pool m) -> SI sb m -> fresh_obs o prev ->
  (match o with OStuck _ => false | _ => true end) = true ->
  obs_eqb (project (fst (apply_op c o m)) (ms_pool (snd (apply_op c o m)))) ob = true ->
  K (next_shut shut o ob) ob (ms_pool (snd (apply_op c o m))) /\ SI (next_sb sb o ob) (snd (apply_op c o m)) /\
  pool_clause shut sb prev o ob.
Proof.
  intros (Hn & Hag & Hsh) HSI Hfr Hns Heq.
  apply obs_eqb_fields in Heq. destruct Heq as (Eret & Eun & Einst).
  rewrite ob_inst_project in Einst. cbn [project ob_ret ob_unalloc] in Eret, Eun.
  assert (Hag' : agrees ob (ms_pool (snd (apply_op c o m)))) by (split; symmetry; assumption).
  split; [|split].
  - (* the invariant *)
    destruct (op_restart_dec o) as [->|Hr].
    + cbn. split; [constructor|]. split; [exact Hag'|intros i []].
    + assert (Hfc : fresh_create o (ms_pool m)).
      { destruct o; cbn in *; auto. intros Hin. apply Hfr. eapply ids_agree; eassumption. }
      destruct (apply_op_SKP c o m Hr Hfc Hn) as [_ Hn'].
      split; [apply Hn'; exact Hn|]. split; [exact Hag'|].
      intros i Hi. apply wp_next_shut_spec in Hi. destruct Hi as [_ [(ib & la & de & Hin)|[Hi Hpres]]].
      * rewrite <- Einst in Hin. apply in_proj_inst in Hin. destruct Hin as (w & Hw & E).
        exists w. split; [exact Hw|]. unfold entry in E. injection E as E1 E2 _ _ _.
        split; [exact E1|apply st_code_4; exact E2].
      * pose proof (shutdown_is_terminal c o m i Hr Hfc Hn (Hsh i Hi)) as Ho.
        apply (ids_agree _ _ i Hag') in Hpres. unfold ids in Hpres. apply in_map_iff in Hpres.
        destruct Hpres as (w & E & Hw). exists w. split; [exact Hw|]. split; [exact E|apply Ho; assumption].
  - (* the list request in flight *)
    assert (Hgen : ms_sync (snd (apply_op c o m)) = ms_sync m -> next_sb sb o ob = sb ->
                   SI (next_sb sb o ob) (snd (apply_op c o m))).
    { intros E1 E2. unfold SI in *. rewrite E1, E2. destruct (ms_sync m) as [[th l]|]; [|exact HSI].
      destruct sb as [b|]; [|exact HSI]. destruct HSI as [Hth Hall].
      destruct (apply_op_FR c o m th Hn Hth) as [Hc HF]. split; [lia|].
      intros w' Hw' Hnb. destruct (HF w' Hw') as [(w & Hw & Hid & Hup)|Hnew]; [|exact Hnew].
      apply Hup. apply Hall; [exact Hw|]. rewrite <- Hid. exact Hnb. }
    pose proof (ms_sync_apply c o m) as Hms.
    destruct o; try (apply Hgen; [exact Hms|reflexivity]).
    + (* ORestart *) cbn. exact I.
    + (* OSyncBegin *)
      unfold SI. cbn [apply_op]. unfold apply_op. cbn [tick snd ms_sync ms_pool next_sb p_clock p_workers].
      split; [lia|]. intros w Hw Hnb. exfalso. apply Hnb.
      apply (ids_agree _ _ (w_id w) Hag'). unfold ids. unfold apply_op. cbn [tick snd ms_pool p_workers].
      apply in_map. exact Hw.
    + (* OSyncEnd *)
      unfold SI, apply_op. destruct (ms_sync m) as [[th l]|]; cbn; exact I.
  - (* the clauses *)
    destruct o; cbn [pool_clause]; auto.
    + (* OCreate *)
      destruct (N.eq_dec outcome 0) as [->|Hoc]; [left; reflexivity|right].
      rewrite <- Eun. destruct Hag as [_ ->]. f_equal. apply pool_unallocated_workers.
      unfold apply_op.
      destruct (pool_create it newid outcome (snd (tick (ms_pool m)))) as [b p'] eqn:E. cbn [snd ms_pool].
      pose proof (pool_create_workers it newid outcome (snd (tick (ms_pool m)))) as H. rewrite E in H. cbn [snd] in H.
      destruct H as [H|(H & _)]; [exact H|contradiction].
    + (* OStart *)
      revert Eret. unfold apply_op.
      destruct (pool_start it u (snd (tick (ms_pool m)))) as [[id|] p'] eqn:E; cbn [fst]; intros Eret; [|left; auto].
      right. rewrite <- Eret. replace (id + 1 - 1)%N with id by lia.
      destruct (start_only_idle_run_workers _ _ _ _ _ E) as (w & Hw & Hid & Hst & Hib & _).
      change (p_workers (snd (tick (ms_pool m)))) with (p_workers (ms_pool m)) in Hw.
      split.
      * destruct Hag as [-> _]. apply find_inst_first.
        -- exists (w_last w), (w_destroys w). apply in_proj_inst. exists w. split; [exact Hw|].
           unfold entry. rewrite Hid, Hst, Hib. reflexivity.
        -- intros st' ib' la de Hin. apply in_proj_inst in Hin. destruct Hin as (w' & Hw' & E').
           unfold entry in E'. injection E' as E1 E2 E3 _ _.
           assert (w' = w) by (eapply nodup_id_inj; try eassumption; congruence). subst w'.
           rewrite Hst in E2. rewrite Hib in E3. cbn in E2, E3. auto.
      * intros Hi. destruct (Hsh id Hi) as (w0 & Hw0 & Hid0 & Hst0).
        assert (w0 = w) by (eapply nodup_id_inj; try eassumption; congruence). subst w0. congruence.
    + (* OSyncEnd: what has appeared since the request was issued carries a later stamp, and the sync keeps it *)
      intros b -> i Hi Hnb. unfold SI in HSI. destruct (ms_sync m) as [[th l]|] eqn:Es; [|contradiction].
      destruct HSI as [Hth Hall].
      apply (ids_agree _ _ i Hag) in Hi. unfold ids in Hi. apply in_map_iff in Hi. destruct Hi as (w & Hid & Hw).
      apply (ids_agree _ _ i Hag'). unfold apply_op. rewrite Es. cbn [snd ms_pool]. rewrite <- Hid.
      apply sync_at_keeps_fresh; [cbn; lia|exact Hw|apply Hall; [exact Hw|rewrite Hid; exact Hnb]].
Qed.

Lemma model_steps c steps : forall m shut sb prev,
  K shut prev (ms_pool m) -> SI sb m -> fresh_ids prev steps -> run_steps c steps m = true -> pool_clauses shut sb prev steps.
Proof.
  induction steps as [|[o ob] r IH]; intros m shut sb prev HK HSI Hfr Hrun; cbn [pool_clauses]; [exact I|].
  cbn [run_steps] in Hrun. destruct (apply_op c o m) as [ret m'] eqn:E.
  rewrite !andb_true_iff in Hrun. destruct Hrun as [[[Hns _] Heq] Hrest]. destruct Hfr as [Hf Hfr].
  pose proof (model_step c o ob m shut sb prev HK HSI Hf Hns) as H. rewrite E in H. cbn [fst snd] in H.
  destruct (H Heq) as (HK' & HSI' & Hcl). split; [exact Hcl|]. eapply IH; eassumption.
Qed.

(* a case on which implementation and model agree satisfies every pool clause of the specification: a verdict
   "specification violated, model agrees" can only come from the process clauses (the environment's list of
   live processes), which the transition system of proofs/C14_sys.v covers *)
Theorem wp_model_satisfies_pool_clauses cs :
  fresh_ids empty_obs (wc_steps cs) -> model_b cs = true -> pool_clauses [] None empty_obs (wc_steps cs).
Proof.
  intros Hf Hm. unfold model_b in Hm. eapply model_steps; [| |exact Hf|exact Hm].
  - split; [constructor|]. split; [split; reflexivity|intros i []].
  - exact I.
Qed.

(* and the full specification implies them *)
Theorem wp_spec_implies_pool_clauses steps : forall shut disc sb prev,
  spec_P shut disc sb prev steps -> pool_clauses shut sb prev steps.
Proof.
  induction steps as [|[o ob] r IH]; intros shut disc sb prev; cbn [spec_P pool_clauses]; [auto|].
  intros [[Hs _] Hr]. split; [|eapply IH; exact Hr].
  destruct o; cbn [pool_clause]; auto. destruct Hs as [H|(A & B & _)]; [left; exact H|right; auto].
Qed.
