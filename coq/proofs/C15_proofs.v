(* C15 — lifecycle facts of the worker-pool model (all states), fixStaleLocks, and the bounded convergence
   sweep of the healthy round. *)
From Coq Require Import List ZArith Bool NArith Lia.
From AV Require Import model.C16_runq model.C14_sync model.C14_pool model.C14_sys model.C15_model
                       proofs.C16_runq proofs.C14_sync proofs.C14_pool proofs.C14_sys proofs.C14_thms.
Import ListNotations.
Local Open Scope Z_scope.

(* ---------------- broken / draining / booting instances get no work ---------------- *)
Theorem not_candidate it w : (w_st w <> WIdle \/ w_ib w <> IRun) -> start_candidate it w = false.
Proof.
  unfold start_candidate. intros [H|H].
  - destruct (w_st w); try (exfalso; apply H; reflexivity); cbn; rewrite ?andb_false_r; reflexivity.
  - destruct (w_ib w); try (exfalso; apply H; reflexivity); cbn; rewrite ?andb_false_r; reflexivity.
Qed.

(* setIdleBehavior(drain) drains (and shuts the worker down at once if nothing keeps it) *)
Lemma set_idle_behavior_ib c w b clock w' clock' : set_idle_behavior c w b clock = (w', clock') -> w_ib w' = b.
Proof.
  unfold set_idle_behavior, shutdown_if_idle. destruct (eligible_shutdown c (clock + 1) (with_ib w b));
    intros H; injection H as <- <-; reflexivity.
Qed.

(* the Kill loop giving up on an unkillable container drains the worker (unless it is held) *)
Theorem unkillable_drains c id u p w :
  find_w id (p_workers p) = Some w -> w_ib w <> IHold ->
  exists w', find_w id (p_workers (give_up c id u p)) = Some w' /\ w_ib w' = IDrain.
Proof.
  intros Hf Hh. unfold give_up. rewrite Hf.
  set (w1 := with_runs w (mark_given u (w_starting w)) (mark_given u (w_running w))).
  assert (Hib : w_ib w1 = w_ib w) by reflexivity. pose proof (find_w_id _ _ _ Hf) as Hid.
  assert (Hgo : forall w2 clock, set_idle_behavior c w1 IDrain (p_clock p) = (w2, clock) ->
            exists w', find_w id (p_workers (mkp (put_w w2 (p_workers p)) (p_exited p) clock (p_quota p) (p_loaded p))) = Some w' /\ w_ib w' = IDrain).
  { intros w2 clock E2. exists w2. split; [|eapply set_idle_behavior_ib; eauto]. cbn [p_workers].
    assert (Hid2 : w_id w2 = id) by (destruct (set_idle_behavior_frame _ _ _ _ _ _ E2) as ((A & _) & _); rewrite A; exact Hid).
    rewrite <- Hid2. apply (find_put_eq (w_id w2) _ w w2); [rewrite Hid2; exact Hf|reflexivity]. }
  destruct (w_ib w1) eqn:E1.
  - destruct (set_idle_behavior c w1 IDrain (p_clock p)) as [w2 clock] eqn:E2. exact (Hgo _ _ eq_refl).
  - exfalso. apply Hh. congruence.
  - destruct (set_idle_behavior c w1 IDrain (p_clock p)) as [w2 clock] eqn:E2. exact (Hgo _ _ eq_refl).
Qed.

(* ---------------- timeouts ---------------- *)
(* shutdownIfBroken: an instance that has not answered for the boot/probe timeout is shut down and
   Destroy is called, unless it is held *)
Theorem unresponsive_is_shut_down c dur w clock w' clock' :
  shutdown_if_broken c dur w clock = (w', clock') -> w_ib w <> IHold ->
  (match w_st w with WUnknown | WBooting => t_boot c | _ => t_probe c end) <= dur ->
  w_st w' = WShutdown /\ w_destroys w' = (w_destroys w + 1)%N.
Proof.
  unfold shutdown_if_broken. intros H Hh Hd.
  destruct (w_ib w); try (exfalso; apply Hh; reflexivity);
    (destruct (dur <? _) eqn:E; [apply Z.ltb_lt in E; lia|]); injection H as <- <-; split; reflexivity.
Qed.

(* eligibleForShutdown *)
Theorem idle_timeout_eligible c now w :
  w_st w = WIdle -> w_ib w <> IHold -> t_idle c <= now - w_busy w -> eligible_shutdown c now w = true.
Proof.
  unfold eligible_shutdown. intros Hs Hh Ht. rewrite Hs.
  apply Z.leb_le in Ht. destruct (w_ib w); try (exfalso; apply Hh; reflexivity); cbn; rewrite ?Ht; reflexivity.
Qed.
Theorem draining_idle_eligible c now w :
  w_ib w = IDrain -> (w_st w = WIdle \/ w_st w = WBooting) -> eligible_shutdown c now w = true.
Proof. unfold eligible_shutdown. intros -> [-> | ->]; reflexivity. Qed.
Theorem draining_running_eligible c now w :
  w_ib w = IDrain -> w_st w = WRunning -> forallb rgiven (w_running w) = true -> forallb rgiven (w_starting w) = true ->
  eligible_shutdown c now w = true.
Proof. unfold eligible_shutdown. intros -> -> -> ->. reflexivity. Qed.
Theorem held_never_shut_down c now w : w_ib w = IHold -> eligible_shutdown c now w = false.
Proof. unfold eligible_shutdown. intros ->. reflexivity. Qed.

Theorem eligible_is_shut_down c w clock w' clock' b :
  shutdown_if_idle c w clock = (w', clock', b) -> eligible_shutdown c (clock + 1) w = true ->
  w_st w' = WShutdown /\ w_destroys w' = (w_destroys w + 1)%N /\ b = true.
Proof. unfold shutdown_if_idle. intros H E. rewrite E in H. injection H as <- <- <-. repeat split. Qed.

(* ---------------- the cloud listing: retry Destroy, forget instances that are gone ---------------- *)
Lemma sync_listed_other c id listed : forall ws clock ws1 clock1,
  ~ In id (map fst3 listed) -> sync_listed c listed ws clock = (ws1, clock1) -> find_w id ws1 = find_w id ws.
Proof.
  induction listed as [|[[i it] ib] r IH]; intros ws clock ws1 clock1 Hn; cbn [sync_listed].
  - intros H; injection H as <- <-. reflexivity.
  - assert (Hi : id <> i) by (intros ->; apply Hn; left; reflexivity).
    assert (Hr : ~ In id (map fst3 r)) by (intros Hin; apply Hn; right; exact Hin).
    destruct (find_w i ws) as [w|] eqn:Ef.
    + pose proof (find_w_id _ _ _ Ef) as Hid.
      destruct (wstate_eqb _ _ && _); intros H; rewrite (IH _ _ _ _ Hr H); apply find_put_neq; cbn; rewrite Hid; exact Hi.
    + intros H. rewrite (IH _ _ _ _ Hr H). rewrite find_app. destruct (find_w id ws); [reflexivity|].
      cbn [find_w new_worker w_id]. destruct (N.eqb i id) eqn:E; [apply N.eqb_eq in E; congruence|reflexivity].
Qed.

Lemma find_filter_none (keep : wkr -> bool) id ws :
  (forall w, In w ws -> w_id w = id -> keep w = false) -> find_w id (filter keep ws) = None.
Proof.
  intros H. apply find_w_none. intros Hin. apply in_map_iff in Hin. destruct Hin as (w & Hid & Hw).
  apply filter_In in Hw. destruct Hw as [Hw Hk]. rewrite (H w Hw Hid) in Hk. discriminate.
Qed.

(* an instance that is no longer listed is dropped from the pool at the next sync (its bookkeeping and
   its containers' "running" status go with it) *)
Theorem gone_instance_dropped c listed p id :
  NoDup (map w_id (p_workers p)) -> stamps_ok p -> ~ In id (map fst3 listed) ->
  find_w id (p_workers (pool_sync c listed p)) = None.
Proof.
  intros Hn Hs Hl. unfold pool_sync. cbn [tick p_workers p_clock].
  destruct (sync_listed c listed (p_workers p) (p_clock p + 1)) as [ws1 clock1] eqn:Es. cbn [p_workers].
  apply find_filter_none. intros w Hw Hid.
  pose proof (sync_listed_other _ _ _ _ _ _ _ Hl Es) as Hsame.
  pose proof (sync_listed_nodup _ _ _ _ _ _ Hn Es) as Hn1.
  rewrite <- Hid in Hsame. rewrite (in_find_w _ _ Hn1 Hw) in Hsame.
  symmetry in Hsame. apply find_w_in in Hsame. specialize (Hs w Hsame). apply Z.ltb_ge. lia.
Qed.

(* an instance still listed after timeoutShutdown gets another Destroy call *)
Theorem destroy_retried c id it ib ws clock w :
  find_w id ws = Some w -> w_st w = WShutdown -> t_shutdown c < clock + 1 + 1 - w_destroyed w ->
  exists w', find_w id (fst (sync_listed c [(id, it, ib)] ws clock)) = Some w' /\
             w_st w' = WShutdown /\ w_destroys w' = (w_destroys w + 1)%N.
Proof.
  intros Hf Hs Ht. cbn [sync_listed]. rewrite Hf. cbn [with_updated w_st w_destroyed]. rewrite Hs. cbn [wstate_eqb andb].
  apply Z.ltb_lt in Ht. rewrite Ht. cbn [fst].
  set (w2 := w_shutdown (clock + 1 + 1) (with_updated w (clock + 1))). exists w2.
  pose proof (find_w_id _ _ _ Hf) as Hid. assert (Hid2 : w_id w2 = id) by exact Hid.
  split; [rewrite <- Hid2; apply (find_put_eq (w_id w2) _ w w2); [rewrite Hid2; exact Hf|reflexivity]|]. split; reflexivity.
Qed.

(* ---------------- dead processes ---------------- *)
(* (sync: proofs/C14_sync.v dead_running_cancelled, dead_locked_requeued) *)

(* ---------------- fixStaleLocks ---------------- *)
Theorem fsl_sound snaps : forall stale u,
  In u (fix_stale_locks snaps stale) ->
  In u stale \/ exists unknown running ents, In (unknown, running, ents) snaps /\ In u (stale_locks ents running).
Proof.
  induction snaps as [|[[unknown running] ents] r IH]; intros stale u; cbn [fix_stale_locks]; [auto|].
  destruct unknown; cbn [negb]; [|intros H; apply filter_In in H; left; tauto].
  destruct (stale_locks ents running) as [|x st] eqn:E; [intros []|].
  intros H. destruct (IH _ _ H) as [Hin|(a & b & c & Hin & Hu)].
  - right. exists true, running, ents. split; [left; reflexivity|]. rewrite E. exact Hin.
  - right. exists a, b, c. split; [right; exact Hin|exact Hu].
Qed.
(* F24 fixed: nothing that pool.Running() reports when the last unknown worker has become known is unlocked *)
Theorem fsl_skips_running snaps : forall stale u,
  In u (fix_stale_locks snaps stale) ->
  forall pre running ents rest, snaps = pre ++ (false, running, ents) :: rest ->
  Forall (fun sn => fst (fst sn) = true) pre -> rlook u running = None.
Proof.
  induction snaps as [|[[unknown running0] ents0] r IH]; intros stale u H pre running ents rest E Hpre.
  - destruct pre; discriminate.
  - destruct pre as [|p0 pre]; cbn [app] in E.
    + injection E as -> -> -> ->. cbn [fix_stale_locks negb] in H. apply filter_In in H. destruct H as [_ H].
      unfold not_running in H. destruct (rlook u running); [discriminate|reflexivity].
    + injection E as <- E. apply Forall_cons_iff in Hpre. destruct Hpre as [Hp Hpre]. cbn [fst] in Hp. subst unknown.
      cbn [fix_stale_locks negb] in H. destruct (stale_locks ents0 running0) as [|x st]; [destruct H|].
      exact (IH _ _ H pre running ents rest E Hpre).
Qed.
Theorem stale_locks_spec ents running u :
  In u (stale_locks ents running) <->
  exists e, In e ents /\ e_uuid e = u /\ e_state e = Locked /\ rlook u running = None.
Proof.
  unfold stale_locks. rewrite in_map_iff. split.
  - intros (e & <- & He). apply filter_In in He. destruct He as [He Hc]. apply andb_true_iff in Hc. destruct Hc as [H1 H2].
    exists e. split; [exact He|]. split; [reflexivity|]. split; [apply cstate_eqb_spec; exact H1|].
    destruct (rlook (e_uuid e) running); [discriminate|reflexivity].
  - intros (e & He & <- & Hs & Hr). exists e. split; [reflexivity|]. apply filter_In. split; [exact He|].
    rewrite Hs, Hr. reflexivity.
Qed.
Theorem fsl_sound_spec snaps u :
  In u (fix_stale_locks snaps []) ->
  exists unknown running ents, In (unknown, running, ents) snaps /\
    exists e, In e ents /\ e_uuid e = u /\ e_state e = Locked /\ rlook u running = None.
Proof.
  intros H. destruct (fsl_sound snaps [] u H) as [[]|(a & b & c & Hin & Hu)].
  exists a, b, c. split; [exact Hin|]. apply stale_locks_spec. exact Hu.
Qed.
(* nothing is unlocked when every worker is already known at the first look *)
Theorem fsl_all_known running ents rest : fix_stale_locks ((false, running, ents) :: rest) [] = [].
Proof. reflexivity. Qed.
(* when the timer fires while workers are still unknown, the locks found stale at the last look are released *)
Theorem fsl_timeout running ents x st :
  stale_locks ents running = x :: st -> fix_stale_locks [(true, running, ents)] [] = x :: st.
Proof. intros H. cbn [fix_stale_locks negb]. rewrite H. reflexivity. Qed.
(* the corner that used to be finding F24: the last unknown worker becomes known between two looks and
   reports container 7 running: it is no longer unlocked ... *)
Example fsl_recovered_not_unlocked :
  fix_stale_locks [(true, [], [mkent 7 Locked 5 0]); (false, [(7%N, 0)], [mkent 7 Locked 5 0])] [] = [].
Proof. reflexivity. Qed.
(* ... whereas the code before commit 05ee31b did (regression witness about the OLD model) *)
Example fsl_old_unlocked_outdated_list :
  fix_stale_locks_old [(true, [], [mkent 7 Locked 5 0]); (false, [(7%N, 0)], [mkent 7 Locked 5 0])] [] = [7%N].
Proof. reflexivity. Qed.

(* ---------------- bounded convergence of the healthy round ---------------- *)
Definition cfgL : cfg := mkcfg 500 500 200 50 500.
Definition quantumL : Z := 1000.
Definition startL : lsys := mkl [mkent 1 Queued 5 0; mkent 2 Locked 9 0] (init_sys (repeat 0%N 60)).
Definition alphabetL : list fop :=
  [FSched; FProbe 1; FProbeDown 1; FProbeBroken 1; FLand true; FLand false; FCrash; FComplete; FRestart;
   FPoolSync; FVMGone 1; FCancel 1; FDrain 1; FQuota; FTick].
Definition basesL : list (list fop) :=
  [[]; [FSched; FSched]; [FSched; FSched; FProbe 1; FProbe 2; FSched]; [FSched; FSched; FProbe 1; FProbe 2; FSched; FLand true]].

(* every extension of l by at most n fault operations is finished and released after at most B healthy rounds *)
Fixpoint all_ext (n B : nat) (l : lsys) : bool :=
  match converge_in cfgL quantumL B l with
  | None => false
  | Some _ => match n with
              | O => true
              | S k => forallb (fun a => all_ext k B (apply_fop cfgL quantumL a l)) alphabetL
              end
  end.

Lemma converge_in_sound c q B : forall l r, converge_in c q B l = Some r ->
  (r <= B)%nat /\ finished (rounds c q r l) = true /\ released (rounds c q r l) = true.
Proof.
  induction B as [|B IH]; intros l r; cbn [converge_in].
  - destruct (finished l && released l) eqn:E; [|discriminate]. intros H; injection H as <-.
    apply andb_true_iff in E. cbn [rounds]. split; [lia|exact E].
  - destruct (finished l && released l) eqn:E.
    + intros H; injection H as <-. apply andb_true_iff in E. cbn [rounds]. split; [lia|exact E].
    + destruct (converge_in c q B (round c q l)) as [r0|] eqn:E0; [|discriminate]. intros H; injection H as <-.
      destruct (IH _ _ E0) as (L & F & R). cbn [rounds]. split; [lia|]. split; assumption.
Qed.

Lemma all_ext_sound n B : forall l, all_ext n B l = true ->
  forall fs, (List.length fs <= n)%nat -> Forall (fun f => In f alphabetL) fs ->
  exists r, (r <= B)%nat /\ finished (rounds cfgL quantumL r (apply_fops cfgL quantumL fs l)) = true /\
            released (rounds cfgL quantumL r (apply_fops cfgL quantumL fs l)) = true.
Proof.
  induction n as [|n IH]; intros l H fs Hlen Hall; cbn [all_ext] in H.
  - destruct fs; [|cbn in Hlen; lia]. destruct (converge_in cfgL quantumL B l) as [r|] eqn:E; [|discriminate].
    exists r. exact (converge_in_sound _ _ _ _ _ E).
  - destruct (converge_in cfgL quantumL B l) as [r|] eqn:E; [|discriminate].
    destruct fs as [|f fs]; [exists r; exact (converge_in_sound _ _ _ _ _ E)|].
    apply Forall_cons_iff in Hall. destruct Hall as [Hf Hall]. rewrite forallb_forall in H.
    cbn [apply_fops fold_left]. apply (IH _ (H f Hf) fs); [cbn in Hlen; lia|exact Hall].
Qed.

(* the undisturbed run needs 4 rounds: lock, create and boot, start and complete, release *)
Example round_example : converge_in cfgL quantumL 12 startL = Some 4%nat.
Proof. vm_compute. reflexivity. Qed.

Lemma sweep_ok3 : forallb (fun b => all_ext 3 12 (apply_fops cfgL quantumL b startL)) basesL = true.
Proof. vm_compute. reflexivity. Qed.
Definition baseL4 : list fop := [FSched; FSched; FProbe 1; FProbe 2; FSched; FLand true].
Lemma sweep_ok4 : all_ext 4 12 (apply_fops cfgL quantumL baseL4 startL) = true.
Proof. vm_compute. reflexivity. Qed.

(* keep the unifier from evaluating the closed sweeps again *)
Opaque all_ext converge_in rounds round apply_fop.

(* C15 (partial, bounded): from each of the four base states (nothing started; both containers locked;
   two instances booted and both containers being started; both crunch-run processes alive), after ANY
   sequence of at most 3 fault operations of [alphabetL] (crashes, unreachable and broken instances, lost
   start commands, quota errors, a vanished instance, a cancellation, a drain, a dispatcher restart, long
   pauses), at most 12 healthy rounds finish every container and release every instance *)
Theorem converges_bounded_partial :
  forall b fs, In b basesL -> (List.length fs <= 3)%nat -> Forall (fun f => In f alphabetL) fs ->
  exists r, (r <= 12)%nat /\
            finished (rounds cfgL quantumL r (apply_fops cfgL quantumL (b ++ fs) startL)) = true /\
            released (rounds cfgL quantumL r (apply_fops cfgL quantumL (b ++ fs) startL)) = true.
Proof.
  intros b fs Hb Hlen Hall. pose proof sweep_ok3 as H. rewrite forallb_forall in H. specialize (H b Hb).
  unfold apply_fops. rewrite fold_left_app. apply (all_ext_sound 3 12 _ H fs Hlen Hall).
Qed.
(* ... and up to 4 fault operations from the state in which both crunch-run processes are alive *)
Theorem converges_bounded_partial_running :
  forall fs, (List.length fs <= 4)%nat -> Forall (fun f => In f alphabetL) fs ->
  exists r, (r <= 12)%nat /\
            finished (rounds cfgL quantumL r (apply_fops cfgL quantumL (baseL4 ++ fs) startL)) = true /\
            released (rounds cfgL quantumL r (apply_fops cfgL quantumL (baseL4 ++ fs) startL)) = true.
Proof.
  intros fs Hlen Hall. unfold apply_fops. rewrite fold_left_app. apply (all_ext_sound 4 12 _ sweep_ok4 fs Hlen Hall).
Qed.

