(* Provenance of segments through the file-level operations: whatever filenode.Write / truncate do
   to the segment list, every memSegment that still carries a flushing token is an old one whose
   buffer was at most shortened, and every storedSegment is a slice of an old storedSegment of the
   same block.  (Tokens never move onto different data; stored references never change block.) *)
From Coq Require Import List Arith Lia Bool.
Import ListNotations.
From AV Require Import model.CFS_file proofs.CFS_file_proofs.

Definition is_slice (b : list byte) (o : nat) (b0 : list byte) : Prop := b = firstn (length b) (skipn o b0).

Lemma is_slice_refl b : is_slice b 0 b.
Proof. unfold is_slice. cbn [skipn]. rewrite firstn_all. reflexivity. Qed.

Lemma firstn_firstn_le {A} (l : list A) n m : n <= m -> firstn n (firstn m l) = firstn n l.
Proof. intros H. rewrite firstn_firstn. f_equal. lia. Qed.

Lemma skipn_firstn_comm' {A} (l : list A) : forall o n, skipn o (firstn n l) = firstn (n - o) (skipn o l).
Proof.
  induction l as [|x l IH]; intros o n.
  - rewrite firstn_nil, !skipn_nil, firstn_nil. reflexivity.
  - destruct n; [rewrite skipn_nil; reflexivity|]. destruct o; [reflexivity|]. cbn. apply IH.
Qed.

Lemma is_slice_trans b o b1 o1 b0 : is_slice b o b1 -> is_slice b1 o1 b0 -> is_slice b (o1 + o) b0.
Proof.
  unfold is_slice. intros H H1.
  assert (Hlen : length b <= length b1 - o).
  { rewrite H at 1. rewrite firstn_length, skipn_length. lia. }
  rewrite H at 1. rewrite H1 at 1. rewrite skipn_firstn_comm', my_skipn_skipn.
  apply firstn_firstn_le. exact Hlen.
Qed.

Lemma is_slice_firstn n o b : is_slice (firstn n (skipn o b)) o b.
Proof.
  unfold is_slice. rewrite firstn_length.
  destruct (Nat.le_gt_cases n (length (skipn o b))).
  - rewrite Nat.min_l by lia. reflexivity.
  - rewrite Nat.min_r by lia. rewrite firstn_all. apply firstn_all2. lia.
Qed.
Lemma is_slice_skipn o b : is_slice (skipn o b) o b.
Proof. unfold is_slice. rewrite firstn_all. reflexivity. Qed.

(* s' descends from s *)
Definition seg_from (s' s : seg) : Prop :=
  match s' with
  | Mem b (Some t) => exists b0, s = Mem b0 (Some t) /\ is_slice b 0 b0
  | Mem _ None => True
  | Sto b loc bsz boff => exists b0 boff0 o, s = Sto b0 loc bsz boff0 /\ boff = boff0 + o /\ is_slice b o b0
  end.
Definition fresh_seg (s : seg) : Prop := match s with Mem _ None => True | _ => False end.
Definition prov (l' l : list seg) : Prop := forall s', In s' l' -> fresh_seg s' \/ exists s, In s l /\ seg_from s' s.

Lemma seg_from_refl s : fresh_seg s \/ seg_from s s.
Proof.
  destruct s as [b [t|]|b loc bsz boff]; cbn.
  - right. exists b. split; [reflexivity|apply is_slice_refl].
  - left. exact I.
  - right. exists b, boff, 0. split; [reflexivity|]. split; [lia|apply is_slice_refl].
Qed.
Lemma prov_refl l : prov l l.
Proof. intros s Hs. destruct (seg_from_refl s) as [H|H]; [left; exact H|right; exists s; auto]. Qed.

Lemma seg_from_trans s2 s1 s0 : seg_from s2 s1 -> seg_from s1 s0 -> seg_from s2 s0.
Proof.
  destruct s2 as [b [t|]|b loc bsz boff]; cbn; [| auto |].
  - intros (b1 & -> & H1). cbn. intros (b0 & -> & H0). exists b0. split; [reflexivity|].
    change 0 with (0 + 0). eapply is_slice_trans; eassumption.
  - intros (b1 & boff1 & o & -> & -> & H1). cbn. intros (b0 & boff0 & o0 & -> & -> & H0).
    exists b0, boff0, (o0 + o). split; [reflexivity|]. split; [lia|]. eapply is_slice_trans; eassumption.
Qed.
Lemma prov_trans l2 l1 l0 : prov l2 l1 -> prov l1 l0 -> prov l2 l0.
Proof.
  intros H21 H10 s Hs. destruct (H21 s Hs) as [F|(s1 & Hs1 & F1)]; [left; exact F|].
  destruct (H10 s1 Hs1) as [F0|(s0 & Hs0 & F0)].
  - (* s1 fresh: then s (derived from a fresh segment) must itself be fresh *)
    destruct s1 as [b1 [t1|]|]; cbn in F0; try contradiction.
    destruct s as [b [t|]|b loc bsz boff]; cbn in F1.
    + destruct F1 as (? & E & _); discriminate.
    + left; exact I.
    + destruct F1 as (? & ? & ? & E & _); discriminate.
  - right. exists s0. split; [exact Hs0|]. eapply seg_from_trans; eassumption.
Qed.

(* building blocks *)
Lemma In_firstn {A} (x : A) n l : In x (firstn n l) -> In x l.
Proof. revert l; induction n; intros [|y l]; cbn; try tauto. intros [->|H]; auto. Qed.
Lemma In_skipn {A} (x : A) n l : In x (skipn n l) -> In x l.
Proof. revert l; induction n; intros [|y l]; cbn; try tauto. intros H; right; auto. Qed.

Lemma prov_sub l' l : (forall s, In s l' -> In s l) -> prov l' l.
Proof. intros H s Hs. destruct (seg_from_refl s) as [F|F]; [left; exact F|right; exists s; split; auto]. Qed.
Lemma prov_app l1 l2 l : prov l1 l -> prov l2 l -> prov (l1 ++ l2) l.
Proof. intros H1 H2 s Hs. apply in_app_or in Hs. destruct Hs; auto. Qed.
Lemma prov_cons s l' l : (fresh_seg s \/ exists s0, In s0 l /\ seg_from s s0) -> prov l' l -> prov (s :: l') l.
Proof. intros H1 H2 x [<-|Hx]; auto. Qed.
Lemma prov_firstn n l : prov (firstn n l) l.
Proof. apply prov_sub. intros s. apply In_firstn. Qed.
Lemma prov_skipn n l : prov (skipn n l) l.
Proof. apply prov_sub. intros s. apply In_skipn. Qed.
Lemma prov_nil l : prov [] l.
Proof. intros s []. Qed.
Lemma prov_mono l' l0 l : prov l' l0 -> (forall s, In s l0 -> In s l) -> prov l' l.
Proof. intros H Hsub s Hs. destruct (H s Hs) as [F|(s0 & H0 & F)]; [left; exact F|right; exists s0; auto]. Qed.

Lemma slice_from s o n : fresh_seg (slice s o n) \/ seg_from (slice s o n) s.
Proof.
  destruct s as [b tok|b loc bsz boff]; cbn [slice sbytes]; [left; exact I|right].
  cbn. exists b, boff, o. split; [reflexivity|]. split; [reflexivity|].
  destruct n; [apply is_slice_firstn|apply is_slice_skipn].
Qed.
Lemma nthseg_In_or_default l i : In (nthseg l i) l \/ nthseg l i = Mem [] None.
Proof. unfold nthseg. destruct (nth_in_or_default i l (Mem [] None)); auto. Qed.
Lemma slice_nth_from l i o n : fresh_seg (slice (nthseg l i) o n) \/ exists s0, In s0 l /\ seg_from (slice (nthseg l i) o n) s0.
Proof.
  destruct (nthseg_In_or_default l i) as [H|H].
  - destruct (slice_from (nthseg l i) o n) as [F|F]; [left; exact F|right; eauto].
  - rewrite H. left. exact I.
Qed.
Lemma prov_set_nth l i s : (fresh_seg s \/ exists s0, In s0 l /\ seg_from s s0) -> prov (set_nth l i s) l.
Proof.
  intros H. unfold set_nth. apply prov_app; [apply prov_firstn|]. apply prov_cons; [exact H|apply prov_skipn].
Qed.

Lemma prov_set_nth' l1 l i s : (forall x, In x l1 -> In x l) ->
  (fresh_seg s \/ exists s0, In s0 l /\ seg_from s s0) -> prov (set_nth l1 i s) l.
Proof.
  intros Hsub H. unfold set_nth. apply prov_app.
  - apply prov_sub. intros x Hx. apply Hsub. eapply In_firstn; exact Hx.
  - apply prov_cons; [exact H|]. apply prov_sub. intros x Hx. apply Hsub. eapply In_skipn; exact Hx.
Qed.

Section WithMb.
Variable mb : nat.

Lemma adjust_cur_prov fn cur cando : let '(_, l1, _) := adjust_cur fn cur cando in prov l1 (segs fn).
Proof.
  unfold adjust_cur. destruct (cur =? length (segs fn)); [apply prov_refl|].
  destruct (slen (nthseg (segs fn) cur) <=? length cando).
  - apply prov_app; [apply prov_firstn|apply prov_skipn].
  - apply prov_set_nth. apply slice_nth_from.
Qed.

Lemma write_step_prov fn p data : let '(fn', _, _) := write_step mb fn p data in prov (segs fn') (segs fn).
Proof.
  unfold write_step.
  destruct ((0 <? soff p) && negb (cur_writable fn p)).
  - unfold ws_split.
    destruct (slen (nthseg (segs fn) (idx p)) - soff p <=? length (firstn mb data)); cbn [segs].
    + apply prov_app; [apply prov_firstn|]. apply prov_app; [|apply prov_skipn].
      apply prov_cons; [apply slice_nth_from|]. apply prov_cons; [left; exact I|apply prov_nil].
    + apply prov_app; [apply prov_firstn|]. apply prov_app; [|apply prov_skipn].
      apply prov_cons; [apply slice_nth_from|]. apply prov_cons; [left; exact I|].
      apply prov_cons; [apply slice_nth_from|apply prov_nil].
  - destruct (cur_writable fn p).
    + unfold ws_inplace. cbn [segs]. apply prov_set_nth. left. exact I.
    + destruct (prev_appendable mb (segs fn) (idx p)).
      * unfold ws_grow_prev.
        pose proof (adjust_cur_prov fn (idx p) (firstn (mb - slen (nthseg (segs fn) (Nat.pred (idx p)))) (firstn mb data))) as H.
        destruct (adjust_cur fn (idx p) _) as [[c l1] sz]. cbn [segs].
        eapply prov_trans; [|exact H]. apply prov_set_nth. left. exact I.
      * unfold ws_insert.
        pose proof (adjust_cur_prov fn (idx p) (firstn mb data)) as H.
        destruct (adjust_cur fn (idx p) (firstn mb data)) as [[c l1] sz]. cbn [segs].
        eapply prov_trans; [|exact H]. apply prov_app; [apply prov_firstn|]. apply prov_cons; [left; exact I|apply prov_skipn].
Qed.

Lemma write_loop_prov fuel : forall fn p data, let '(fn', _) := write_loop mb fuel fn p data in prov (segs fn') (segs fn).
Proof.
  induction fuel as [|fuel IH]; intros fn p data; cbn [write_loop].
  - destruct data; apply prov_refl.
  - destruct data as [|x data]; [apply prov_refl|].
    pose proof (write_step_prov fn p (x :: data)) as H.
    destruct (write_step mb fn p (x :: data)) as [[fn1 p1] n].
    specialize (IH fn1 p1 (skipn n (x :: data))).
    destruct (write_loop mb fuel fn1 p1 (skipn n (x :: data))) as [fn2 p2].
    eapply prov_trans; eassumption.
Qed.

Lemma grow_prov fuel : forall l sz want, let '(l', _) := grow mb fuel l sz want in prov l' l.
Proof.
  induction fuel as [|fuel IH]; intros l sz want; cbn [grow]; [apply prov_refl|].
  destruct (want <=? sz); [apply prov_refl|].
  destruct (rev l) as [|[b tok|b loc bsz boff] r] eqn:Er.
  - specialize (IH (l ++ [Mem (mem_resize [] (Nat.min (want - sz) mb)) None]) (sz + Nat.min (want - sz) mb) want).
    destruct (grow mb fuel _ _ want) as [l' sz']. eapply prov_trans; [exact IH|].
    apply prov_app; [apply prov_refl|]. apply prov_cons; [left; exact I|apply prov_nil].
  - assert (Hl : l = rev r ++ [Mem b tok]) by (rewrite <- (rev_involutive l), Er; reflexivity).
    destruct (length b <? mb).
    + specialize (IH (rev r ++ [Mem (mem_resize b (length b + Nat.min (want - sz) (mb - length b))) None]) (sz + Nat.min (want - sz) (mb - length b)) want).
      destruct (grow mb fuel _ _ want) as [l' sz']. eapply prov_trans; [exact IH|].
      apply prov_app; [|apply prov_cons; [left; exact I|apply prov_nil]].
      apply prov_sub. intros s Hs. rewrite Hl. apply in_or_app. left. exact Hs.
    + specialize (IH (l ++ [Mem (mem_resize [] (Nat.min (want - sz) mb)) None]) (sz + Nat.min (want - sz) mb) want).
      destruct (grow mb fuel _ _ want) as [l' sz']. eapply prov_trans; [exact IH|].
      apply prov_app; [apply prov_refl|]. apply prov_cons; [left; exact I|apply prov_nil].
  - specialize (IH (l ++ [Mem (mem_resize [] (Nat.min (want - sz) mb)) None]) (sz + Nat.min (want - sz) mb) want).
    destruct (grow mb fuel _ _ want) as [l' sz']. eapply prov_trans; [exact IH|].
    apply prov_app; [apply prov_refl|]. apply prov_cons; [left; exact I|apply prov_nil].
Qed.

Lemma mem_resize_slice b n : n <= length b -> is_slice (mem_resize b n) 0 b.
Proof.
  intros H. unfold mem_resize. replace (n - length b) with 0 by lia. cbn [repeat]. rewrite app_nil_r.
  change (firstn n b) with (firstn n (skipn 0 b)). apply is_slice_firstn.
Qed.

Lemma truncate_prov fn want : WF fn -> prov (segs (fn_truncate mb fn want)) (segs fn).
Proof.
  intros Hwf. unfold fn_truncate. destruct (want =? size fn); [apply prov_refl|].
  destruct (Nat.ltb_spec want (size fn)) as [Hlt|Hge].
  - set (p := seek _ _). cbn [segs]. destruct (soff p =? 0) eqn:E0; [apply prov_firstn|].
    assert (Hsub : forall s, In s (firstn (S (idx p)) (segs fn)) -> In s (segs fn)) by (intros s; apply In_firstn).
    destruct (nthseg (segs fn) (idx p)) as [b tok|b loc bsz boff] eqn:En.
    + (* the shortened memSegment keeps its token: it is a prefix of the old buffer *)
      assert (Hv : valid {| segs := segs fn; size := size fn; repacked := S (repacked fn) |} p /\ off p = want).
      { apply seek_valid; [exact Hwf|cbn; lia|cbn; discriminate]. }
      destruct Hv as [[Ho Hc] _]. cbn [segs] in Hc.
      assert (Hs : soff p <= length b).
      { destruct Hc as [[_ Hc]|[_ Hc]]; [rewrite En in Hc; cbn in Hc; lia|lia]. }
      apply prov_set_nth'; [exact Hsub|].
      destruct tok as [t|]; [|left; exact I]. right. exists (Mem b (Some t)). split.
      * destruct (nthseg_In_or_default (segs fn) (idx p)) as [H|H]; rewrite En in H; [exact H|discriminate].
      * cbn. exists b. split; [reflexivity|apply mem_resize_slice; exact Hs].
    + apply prov_set_nth'; [exact Hsub|].
      right. exists (Sto b loc bsz boff). split.
      * destruct (nthseg_In_or_default (segs fn) (idx p)) as [H|H]; rewrite En in H; [exact H|discriminate].
      * destruct (slice_from (Sto b loc bsz boff) 0 (Some (soff p))) as [F|F]; [cbn in F; contradiction|exact F].
  - pose proof (grow_prov (S (want - size fn)) (segs fn) (size fn) want) as H.
    destruct (grow mb (S (want - size fn)) (segs fn) (size fn) want) as [l' sz']. cbn [segs]. exact H.
Qed.

Lemma fn_write_prov fn p0 data : WF fn -> let '(fn', _) := fn_write mb fn p0 data in prov (segs fn') (segs fn).
Proof.
  intros Hwf. unfold fn_write.
  set (fn1 := if size fn <? off p0 then fn_truncate mb fn (off p0) else fn).
  assert (H1 : prov (segs fn1) (segs fn)).
  { unfold fn1. destruct (size fn <? off p0); [apply truncate_prov; exact Hwf|apply prov_refl]. }
  pose proof (write_loop_prov (length data + length (segs fn1) + 1) fn1 (seek fn1 p0) data) as H2.
  destruct (write_loop mb _ fn1 (seek fn1 p0) data) as [fn' p']. eapply prov_trans; eassumption.
Qed.

End WithMb.
