(* C16 — the boolean specifications used by the evaluators reflect the Prop-level specifications, and
   the models meet them for all inputs. *)
From Coq Require Import List ZArith Bool String Ascii NArith Lia Permutation Sorted.
From AV Require Import model.C16_model model.C16_run proofs.C16_choose.
Import ListNotations.
Local Open Scope Z_scope.

Lemma impl_b a b : negb a || b = true <-> (a = true -> b = true).
Proof. destruct a, b; cbn; intuition congruence. Qed.

(* ================= ChooseInstanceType ================= *)

Lemma satisfies_b_spec r c t : satisfies_b r c t = true <-> satisfies r c t.
Proof.
  unfold satisfies_b, satisfies. rewrite !andb_true_iff, !Z.leb_le, Z.ltb_lt, eqb_true_iff. tauto.
Qed.
Lemma satisfies_b_false r c t : satisfies_b r c t = false <-> ~ satisfies r c t.
Proof.
  rewrite <- satisfies_b_spec. destruct (satisfies_b r c t); split; intros H; congruence.
Qed.

Lemma in_range_b_spec r ts c : in_range_b r ts c = true <-> in_range r ts c.
Proof.
  unfold in_range_b, in_range. rewrite !andb_true_iff, !Z.leb_le, !Z.ltb_lt, !forallb_forall, !Forall_forall.
  split.
  - intros (((((((A & B) & C) & D) & E) & F) & G) & H). repeat split; auto.
    + intros m Hm. apply Z.leb_le. apply E. exact Hm.
    + specialize (H x H0). apply andb_true_iff in H. destruct H as [H _]. apply Z.leb_le. exact H.
    + specialize (H x H0). apply andb_true_iff in H. destruct H as [_ H]. apply Z.leb_le. exact H.
  - intros (A & B & C & D & E & F & G & H). repeat split; auto.
    + intros m Hm. apply Z.leb_le. apply E. exact Hm.
    + intros t Ht. destruct (H t Ht) as [H1 H2]. apply andb_true_iff. split; apply Z.leb_le; assumption.
Qed.

Lemma Neqb_true_iff a b : N.eqb a b = true <-> a = b.
Proof. apply N.eqb_eq. Qed.

Lemma kind_guard k n (b : bool) : negb (N.eqb k n) || b = true <-> (k = n -> b = true).
Proof. rewrite impl_b, N.eqb_eq. tauto. Qed.

Theorem choose_spec_reflects c : spec_b c = true <-> Spec c.
Proof.
  unfold spec_b, Spec. cbn zeta.
  rewrite !andb_true_iff, negb_true_iff, N.eqb_neq.
  rewrite !kind_guard. rewrite impl_b, in_range_b_spec. rewrite andb_true_iff, !kind_guard.
  split.
  - intros (((A & B) & C) & D). split; [exact A|]. split.
    { intros K. specialize (B K). destruct (find_it (o_id c) (k_types c)) as [t|]; [eauto|discriminate]. }
    split.
    { intros K. specialize (C K). destruct (k_types c); [reflexivity|discriminate]. }
    intros R. destruct (D R) as [D1 D2]. split.
    + intros K. specialize (D1 K). destruct (find_it (o_id c) (k_types c)) as [t|]; [|discriminate].
      apply andb_true_iff in D1. destruct D1 as [S1 S2]. exists t. split; [reflexivity|].
      split; [apply satisfies_b_spec; exact S1|].
      intros x Hx Sx. rewrite forallb_forall in S2. specialize (S2 x Hx). rewrite impl_b in S2.
      apply Z.leb_le. apply S2. apply satisfies_b_spec. exact Sx.
    + intros K. specialize (D2 K). rewrite !andb_true_iff in D2. destruct D2 as (((E1 & E2) & E3) & E4).
      split; [destruct (k_types c); [discriminate|discriminate]|].
      split; [|split; assumption].
      intros x Hx. rewrite forallb_forall in E2. specialize (E2 x Hx). apply negb_true_iff in E2.
      apply satisfies_b_false. exact E2.
  - intros (A & B & C & D). split; [split; [split|]|].
    + exact A.
    + intros K. destruct (B K) as [t ->]. reflexivity.
    + intros K. rewrite (C K). reflexivity.
    + intros R. destruct (D R) as [D1 D2]. split.
      * intros K. destruct (D1 K) as (t & -> & S1 & S2). apply andb_true_iff. split; [apply satisfies_b_spec; exact S1|].
        apply forallb_forall. intros x Hx. apply impl_b. intros Sx. apply Z.leb_le. apply S2; [exact Hx|apply satisfies_b_spec; exact Sx].
      * intros K. destruct (D2 K) as (E1 & E2 & E3 & E4). rewrite !andb_true_iff. split; [split; [split|]|]; auto.
        -- destruct (k_types c); [congruence|reflexivity].
        -- apply forallb_forall. intros x Hx. apply negb_true_iff. apply satisfies_b_false. apply E2. exact Hx.
Qed.

(* inside the range the code's test (with its int64 arithmetic) is the mathematical one *)
Lemma adequate_iff_satisfies r ts c t :
  in_range r ts c -> (adequate (need_of r c) t = true <-> satisfies r c t).
Proof.
  intros (A & B & C & D & E & F & G & H). rewrite adequate_spec. unfold need_of, satisfies. cbn [n_ram n_vcpus n_scratch n_preempt].
  rewrite (ram_threshold _ _ _ (ram t) A B C D).
  rewrite (scratch_formula c E F G). tauto.
Qed.

Lemma in_range_sane r ts c : in_range r ts c -> all_sane ts.
Proof.
  intros (_ & _ & _ & _ & _ & _ & _ & H) t Ht. rewrite Forall_forall in H. apply sane_spec. apply H. exact Ht.
Qed.

Lemma find_it_in ts : forall t, NoDup (map it_id ts) -> In t ts -> find_it (it_id t) ts = Some t.
Proof.
  induction ts as [|x r IH]; intros t Hnd Hin; [destruct Hin|]. cbn [find_it].
  cbn in Hnd. apply NoDup_cons_iff in Hnd. destruct Hnd as [Hn Hnd].
  destruct Hin as [->|Hin]; [rewrite N.eqb_refl; reflexivity|].
  destruct (N.eqb (it_id x) (it_id t)) eqn:E; [|apply IH; assumption].
  apply N.eqb_eq in E. exfalso. apply Hn. rewrite E. apply in_map. exact Hin.
Qed.

Lemma countN_perm a b x : Permutation a b -> countN x a = countN x b.
Proof. induction 1; cbn [countN]; lia. Qed.
Lemma permN_b_of_perm a b : Permutation a b -> permN_b a b = true.
Proof.
  intros H. unfold permN_b. apply forallb_forall. intros x _. apply Nat.eqb_eq. apply countN_perm. exact H.
Qed.

Lemma nondecr_of_sorted ts av :
  NoDup (map it_id ts) -> (forall t, In t av -> In t ts) -> StronglySorted price_le av ->
  nondecr_b (map (price_of ts) (map it_id av)) = true.
Proof.
  intros Hnd Hsub Hs. induction av as [|a r IH]; [reflexivity|].
  apply StronglySorted_inv in Hs. destruct Hs as [Hr Ha].
  destruct r as [|b r']; [reflexivity|].
  cbn [map nondecr_b]. apply andb_true_iff. split.
  - unfold price_of. rewrite (find_it_in ts a Hnd (Hsub a (or_introl eq_refl))).
    rewrite (find_it_in ts b Hnd (Hsub b (or_intror (or_introl eq_refl)))).
    apply Z.leb_le. rewrite Forall_forall in Ha. apply (Ha b). left; reflexivity.
  - apply IH; [intros t Ht; apply Hsub; right; exact Ht|exact Hr].
Qed.

(* the observation the model itself would produce *)
Definition model_case (ts : list itype) (reserve : Z) (c : ctr) : case :=
  let ch := choose reserve ts c in
  mkcase ts reserve c (kind_of ch)
         (match ch with Chosen t => it_id t | _ => 0%N end)
         (match ch with ErrUnsat av => map it_id av | _ => [] end)
         (estimate_scratch c).

(* C16, first half, for ALL tables, reserves and containers: the model's answer satisfies the
   specification (chosen type satisfies every constraint and none cheaper does; unsatisfiable => error
   listing all types by price; never an arbitrary type) *)
Theorem choose_meets_spec ts reserve c : NoDup (map it_id ts) -> Spec (model_case ts reserve c).
Proof.
  intros Hnd. unfold Spec, model_case. cbn [k_types k_reserve k_ctr o_kind o_id o_avail]. unfold choose.
  set (n := need_of reserve c).
  destruct (choose_need n ts) as [t| |av] eqn:Ech; cbn [kind_of].
  - split; [discriminate|]. split.
    { intros _. exists t. apply find_it_in; [exact Hnd|exact (choose_in_table _ _ _ Ech)]. }
    split; [discriminate|]. intros R. split; [|discriminate].
    intros _. exists t. split; [apply find_it_in; [exact Hnd|exact (choose_in_table _ _ _ Ech)]|].
    split; [apply (adequate_iff_satisfies _ _ _ _ R); exact (choose_adequate _ _ _ Ech)|].
    intros x Hx Sx. apply (choose_cheapest n ts t x (in_range_sane _ _ _ R) Ech Hx).
    apply (adequate_iff_satisfies _ _ _ _ R). exact Sx.
  - split; [discriminate|]. split; [discriminate|]. split.
    { intros _. apply (choose_no_types n ts). exact Ech. }
    intros R. split; discriminate.
  - split; [discriminate|]. split; [discriminate|]. split; [discriminate|].
    intros R. split; [discriminate|]. intros _.
    assert (Hne : ts <> []) by (intros ->; cbn in Ech; discriminate).
    split; [exact Hne|].
    destruct (choose_error_lists_all _ _ _ Ech) as [Hp Hs].
    split; [|split].
    + intros x Hx Sx. apply (adequate_iff_satisfies _ _ _ _ R) in Sx.
      pose proof (proj1 (choose_error_iff_none n ts (in_range_sane _ _ _ R) Hne) (ex_intro _ av Ech) x Hx) as Hf.
      change (adequate n x = true) in Sx. congruence.
    + apply permN_b_of_perm. apply Permutation_map. exact Hp.
    + apply nondecr_of_sorted; [exact Hnd| |exact Hs]. intros t Ht. exact (Permutation_in _ Hp Ht).
Qed.

(* the specification is satisfiable in both directions (a chosen type; an unsatisfiable container) *)
Example spec_example_chosen :
  let ts := [T 0 4 1000 2 0 false; T 1 2 1000 2 0 false; T 2 1 900 2 0 false] in
  let c := mkctr 900 50 2 [] EmptyString false in
  in_range_b 0 ts c = true /\ choose 0 ts c = Chosen (T 1 2 1000 2 0 false) /\ spec_b (model_case ts 0 c) = true.
Proof. vm_compute. repeat split. Qed.
Example spec_example_unsat :
  let ts := [T 0 4 1000 2 0 false; T 1 2 1000 2 0 false] in
  let c := mkctr 900 51 2 [] EmptyString false in
  in_range_b 0 ts c = true /\ kind_of (choose 0 ts c) = 2%N /\ spec_b (model_case ts 0 c) = true.
Proof. vm_compute. repeat split. Qed.

(* ================= runQueue ================= *)
From AV Require Import model.C16_runq model.C16_runq_run proofs.C16_runq.

Lemma ev_eqb_spec a b : ev_eqb a b = true <-> a = b.
Proof.
  destruct a, b; cbn [ev_eqb]; try (split; intros; discriminate);
    rewrite ?andb_true_iff, ?N.eqb_eq, ?eqb_true_iff; split; intros H; try (injection H; intros; subst); intuition congruence.
Qed.
Lemma in_log_spec x log : in_log x log = true <-> In x log.
Proof.
  unfold in_log. rewrite existsb_exists. split.
  - intros (y & Hy & E). apply ev_eqb_spec in E. subst. exact Hy.
  - intros H. exists x. split; [exact H|apply ev_eqb_spec; reflexivity].
Qed.
Lemma cstate_eqb_spec a b : cstate_eqb a b = true <-> a = b.
Proof. destruct a, b; cbn; split; intros; congruence. Qed.

Definition rq_spec_b (ents : list ent) (run : list N) (log : list ev) (lk : list N) : bool :=
  spec_b (mkrq ents run [] (mkstub [] [] [] []) log lk []).

Lemma spec_b_rq c : C16_runq_run.spec_b c = rq_spec_b (q_ents c) (q_running c) (o_log c) (o_locks c).
Proof. reflexivity. Qed.

Theorem rq_spec_reflects ents run log lk : rq_spec_b ents run log lk = true <-> RqSpec ents run log lk.
Proof.
  unfold rq_spec_b, C16_runq_run.spec_b. cbn [q_ents q_running o_log o_locks].
  rewrite !andb_true_iff. split.
  - intros ((((A & B) & C) & D) & E). rewrite forallb_forall in A, C, D, E. constructor.
    + intros it u r Hin. specialize (A _ Hin). cbn in A. apply existsb_exists in A. destruct A as (e & He & A).
      rewrite !andb_true_iff, !N.eqb_eq, cstate_eqb_spec in A. destruct A as (((A1 & A2) & A3) & A4).
      exists e. auto.
    + apply latch_b_reflects. exact B.
    + intros v u r Hv Hu Hit Hp Hl He Hin. specialize (C v Hv). rewrite forallb_forall in C. specialize (C u Hu).
      rewrite !orb_true_iff in C. destruct C as [[[C|C]|C]|C].
      * exfalso. apply negb_true_iff in C. rewrite !andb_false_iff in C.
        destruct C as [[[[C|C]|C]|C]|C].
        -- apply N.eqb_neq in C. auto.
        -- apply Z.ltb_ge in C. lia.
        -- rewrite Hl in C. discriminate.
        -- rewrite He in C. discriminate.
        -- apply orb_false_iff in C. destruct C as [C1 C2].
           destruct r; [rewrite (proj2 (in_log_spec _ _) Hin) in C1|rewrite (proj2 (in_log_spec _ _) Hin) in C2]; discriminate.
      * left. apply in_log_spec. exact C.
      * right; left. apply in_log_spec. exact C.
      * right; right. apply in_log_spec. exact C.
    + intros u v Hu Hv Hp Hl Hin. specialize (D u Hu). rewrite forallb_forall in D. specialize (D v Hv).
      apply orb_true_iff in D. destruct D as [D|D]; [|apply in_log_spec; exact D].
      exfalso. apply negb_true_iff in D. rewrite !andb_false_iff in D. destruct D as [[D|D]|D].
      * apply Z.ltb_ge in D. lia.
      * rewrite Hl in D. discriminate.
      * rewrite (proj2 (in_log_spec _ _) Hin) in D. discriminate.
    + intros uu Hin. specialize (A _ Hin). cbn in A. apply existsb_exists in A. destruct A as (e & He & A).
      rewrite !andb_true_iff, !N.eqb_eq, cstate_eqb_spec in A. destruct A as (A1 & A2). exists e. auto.
    + intros uu Hin. specialize (E _ Hin). apply existsb_exists in E. destruct E as (e & He & E).
      rewrite !andb_true_iff, !N.eqb_eq, cstate_eqb_spec in E. destruct E as ((E1 & E2) & E3). exists e. auto.
  - intros [S1 S2 S3 S4 S5 S6]. split; [split; [split; [split|]|]|].
    + apply forallb_forall. intros x Hx. destruct x as [u r|it r|it u r|u]; try reflexivity.
      * destruct (S1 _ _ _ Hx) as (e & A & B & C & D & E). apply existsb_exists. exists e. split; [exact A|].
        rewrite !andb_true_iff, !N.eqb_eq, cstate_eqb_spec. auto.
      * destruct (S5 _ Hx) as (e & A & B & C). apply existsb_exists. exists e. split; [exact A|].
        rewrite !andb_true_iff, !N.eqb_eq, cstate_eqb_spec. auto.
    + apply latch_b_reflects. exact S2.
    + apply forallb_forall. intros v Hv. apply forallb_forall. intros u Hu.
      destruct (N.eqb (e_it u) (e_it v) && (e_prio u <? e_prio v) && cstate_eqb (e_state v) Locked && elig run v &&
                (in_log (EStart (e_it u) (e_uuid u) true) log || in_log (EStart (e_it u) (e_uuid u) false) log)) eqn:G;
        cbn [negb orb]; [|reflexivity].
      rewrite !andb_true_iff, N.eqb_eq, Z.ltb_lt, cstate_eqb_spec, orb_true_iff in G.
      destruct G as ((((G1 & G2) & G3) & G4) & G5).
      assert (exists r, In (EStart (e_it u) (e_uuid u) r) log) as [r Hr].
      { destruct G5 as [G5|G5]; apply in_log_spec in G5; eauto. }
      destruct (S3 v u r Hv Hu G1 G2 G3 G4 Hr) as [O|[O|O]]; apply in_log_spec in O; rewrite O; rewrite ?orb_true_r; reflexivity.
    + apply forallb_forall. intros u Hu. apply forallb_forall. intros v Hv.
      destruct ((e_prio v <? e_prio u) && cstate_eqb (e_state v) Locked && in_log (EUnlock (e_uuid u)) log) eqn:G;
        cbn [negb orb]; [|reflexivity].
      rewrite !andb_true_iff, Z.ltb_lt, cstate_eqb_spec, in_log_spec in G. destruct G as ((G1 & G2) & G3).
      apply in_log_spec. exact (S4 u v Hu Hv G1 G2 G3).
    + apply forallb_forall. intros uu Hin. destruct (S6 _ Hin) as (e & A & B & C & D).
      apply existsb_exists. exists e. split; [exact A|]. rewrite !andb_true_iff, !N.eqb_eq, cstate_eqb_spec. auto.
Qed.

Lemma perm_uuids a b : Permutation a b -> Permutation (uuids a) (uuids b).
Proof. apply Permutation_map. Qed.

(* C16, second half, for EVERY pool behaviour, queue snapshot and outcome of the unstable sort: the
   call log of a runQueue pass satisfies the ordering specification *)
Theorem run_queue_meets_spec
  (P : Type) (p_quota : P -> bool * P) (p_kill p_create : N -> P -> bool * P) (p_start : N -> N -> P -> bool * P)
  (running : list N) (ents sorted : list ent) (u0 : umap) (p : P) :
  Permutation sorted ents -> StronglySorted prio_ge sorted -> NoDup (uuids ents) ->
  let res := run_queue_sorted P p_quota p_kill p_create p_start running sorted u0 p in
  RqSpec ents running (r_log res) (r_locks res).
Proof.
  intros Hp Hs Hnd res.
  assert (Hnd' : NoDup (uuids sorted)).
  { apply (Permutation_NoDup (perm_uuids _ _ (Permutation_sym Hp))). exact Hnd. }
  assert (Hin : forall e, In e sorted <-> In e ents).
  { intros e. split; [apply Permutation_in; exact Hp|apply Permutation_in; apply Permutation_sym; exact Hp]. }
  constructor.
  - intros it u r H. destruct (rq_start_only_locked_positive _ _ _ _ _ _ _ _ _ _ _ _ H) as (e & A & B & C & D & E & F).
    exists e. split; [apply Hin; exact A|]. split; [exact B|]. split; [exact C|]. split; [exact D|].
    unfold elig, eligible. rewrite B, F. cbn [negb andb]. apply Z.leb_le. exact E.
  - apply latch_b_reflects. apply rq_dontstart_latch.
  - intros v u r Hv Hu Hit Hpr Hl He H.
    exact (rq_no_overtake _ _ _ _ _ _ _ _ _ _ _ _ Hs Hnd' (proj2 (Hin v) Hv) (proj2 (Hin u) Hu) Hit Hpr Hl He H).
  - intros u v Hu Hv Hpr Hl H.
    exact (rq_overquota_tail _ _ _ _ _ _ _ _ _ _ _ Hs Hnd' (proj2 (Hin u) Hu) (proj2 (Hin v) Hv) Hpr Hl H).
  - intros uu H. destruct (rq_unlock_only_locked _ _ _ _ _ _ _ _ _ _ H) as (e & A & B & C).
    exists e. split; [apply Hin; exact A|]. auto.
  - intros uu H. destruct (rq_lock_only_queued _ _ _ _ _ _ _ _ _ _ H) as (e & A & B & C & D & E & _).
    exists e. split; [apply Hin; exact A|]. split; [exact B|]. split; [exact C|].
    unfold elig, eligible. rewrite B, E. cbn [negb andb]. apply Z.leb_le. exact D.
Qed.

(* in particular for the executable model (stable sort of the snapshot) *)
Corollary run_queue_psort_meets_spec
  (P : Type) (p_quota : P -> bool * P) (p_kill p_create : N -> P -> bool * P) (p_start : N -> N -> P -> bool * P)
  (running : list N) (ents : list ent) (u0 : umap) (p : P) :
  NoDup (uuids ents) ->
  let res := run_queue P p_quota p_kill p_create p_start running ents u0 p in
  RqSpec ents running (r_log res) (r_locks res).
Proof.
  intros Hnd. apply run_queue_meets_spec; [apply psort_perm|apply psort_sorted|exact Hnd].
Qed.

(* hypotheses are satisfiable and the clauses are not vacuous: a pass that starts the high-priority
   container, fails on the next one, and therefore does not try the third *)
Example rq_example :
  let ents := [E 1 1 5 0; E 2 1 9 0; E 3 1 7 0] in
  let res := run_queue_stub (psort ents) [] [(0%N, 3)] (mkstub [false] [] [] [(0%N, 1)]) in
  r_log res = [EKill 2 false; EStart 0 2 true; EKill 3 false; EStart 0 3 false] /\
  rq_spec_b ents [] (r_log res) (r_locks res) = true.
Proof. vm_compute. split; reflexivity. Qed.
(* ... and an observation that breaks the order is rejected by the specification *)
Example rq_example_rejected :
  let ents := [E 1 1 5 0; E 2 1 9 0] in
  rq_spec_b ents [] [EKill 1 false; EStart 0 1 true] [] = false.
Proof. vm_compute. reflexivity. Qed.
