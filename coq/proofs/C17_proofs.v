(* C17 — proofs about the copier model: failures are sticky; links that leave every mount, special files and every
   closed set of links (cycles of any length, and chains longer than the budget) end in the error outcome; concrete
   witnesses for the findings F11, F16, F17, F18, F19. *)
From Coq Require Import NArith Lia List Bool Ascii String Arith.
From AV Require Import lib.Str model.C10_manifest model.C10_ranges model.C10_fs model.C10_gomanifest model.C17_model
  proofs.C10_gm_proofs.
Import ListNotations.
Local Open Scope string_scope.

(* ---------- errors are sticky ---------- *)
Lemma bind_not_ok (r : wres) f : snd r <> SOk -> bind r f = r.
Proof. destruct r as [st []]; cbn; congruence. Qed.
Lemma fold_bind_not_ok {A} (g : wstate -> A -> wres) (l : list A) : forall r, snd r <> SOk ->
  fold_left (fun r x => bind r (fun st => g st x)) l r = r.
Proof.
  induction l as [|x l IH]; intros r H; [reflexivity|]. cbn [fold_left].
  rewrite bind_not_ok by exact H. apply IH. exact H.
Qed.

(* ---------- unfolding of the nested fixpoint ---------- *)
Definition no_mounts_below (cf : config) (src : string) : Prop :=
  forall rm, In rm (c_mounts cf) -> has_prefix (src ++ "/") (fst rm) = false.
Lemma walk_mounts_below_none cf wm st dest src :
  no_mounts_below cf src -> walk_mounts_below cf wm st dest src = ok st.
Proof.
  unfold walk_mounts_below, no_mounts_below. intros H.
  induction (c_mounts cf) as [|rm l IH] in H, st |- *; [reflexivity|].
  cbn [fold_left]. unfold bind at 2. cbn [ok]. rewrite (H rm (or_introl eq_refl)).
  apply IH. intros rm' Hin. apply H. right. exact Hin.
Qed.

(* walkMount on a path that is in no mount and under no secret: "cannot output file: not in any mount" *)
Theorem escaping_path_fails : forall cf b d st dest src below,
  find_mount cf src = None -> under_secret cf src 0 = false ->
  snd (walk cf b (S d) st dest src true below) = SErr.
Proof.
  intros cf b d st dest src below H1 H2. destruct b; cbn [walk]; rewrite H1, H2; reflexivity.
Qed.

(* the conditions under which walkHostFS(dest, src) looks at the host entry for src *)
Record host_entry (cf : config) (src : string) (pos : list string) (n : node) : Prop := {
  he_inside : has_prefix_dir (c_ctr cf) src = true;
  he_lstat : host_lstat cf (drop (String.length (c_ctr cf)) src) = LNode pos n;
  he_below : no_mounts_below cf src
}.
(* walkMount(dest, src) goes to the host walk: innermost mount is a non-excluded "tmp" mount, no secret in between *)
Definition to_host (cf : config) (src : string) : Prop :=
  exists rm, find_mount cf src = Some rm /\ under_secret cf src (String.length (fst rm)) = false /\
             m_exclude (snd rm) = false /\ String.eqb (m_kind (snd rm)) "tmp" = true.

(* special_file_fails *)
Theorem special_file_fails : forall cf b d st dest src below pos,
  host_entry cf src pos Special ->
  snd (walk cf b (S d) st dest src false below) = SErr.
Proof.
  intros cf b d st dest src below pos [H1 H4 H5].
  destruct b; cbn [walk]; destruct below; rewrite ?walk_mounts_below_none by exact H5; cbn [bind ok];
    rewrite H1, H4; reflexivity.
Qed.

(* escaping_link_fails: a symlink whose (lexically computed) target is in no mount and under no secret *)
Definition lexical (src target : string) : string := if is_abs target then path_clean target else fp_join [fp_dir src; target].
Theorem escaping_link_fails : forall cf b d st dest src below pos target,
  host_entry cf src pos (Link target) ->
  find_mount cf (lexical src target) = None -> under_secret cf (lexical src target) 0 = false ->
  snd (walk cf b (S d) st dest src false below) = SErr.
Proof.
  intros cf b d st dest src below pos target [H1 H4 H5] Hm Hs.
  assert (Hfuel : exists k, depth_fuel cf = S k) by (unfold depth_fuel; exists (height 64 (c_host cf) + 3)%nat; lia).
  destruct Hfuel as [k Hk].
  destruct b as [|b']; cbn [walk]; destruct below; rewrite ?walk_mounts_below_none by exact H5; cbn [bind ok];
    rewrite H1, H4; try reflexivity.
  all: fold (lexical src target); rewrite Hk; apply escaping_path_fails; assumption.
Qed.

(* cycle_fails, general form: a set of container paths, each of which is a symlink in the output tree whose target
   (as the copier computes it) is again in the set.  Whatever the budget, the walk of any member fails — and it
   terminates because the budget is the structural argument.  Covers self-links, cycles of any length, and (taking
   the set of all links of an over-long chain... ) *)
Definition link_closed (cf : config) (S : string -> Prop) : Prop :=
  forall src, S src -> to_host cf src /\ exists pos target, host_entry cf src pos (Link target) /\ S (lexical src target).

Theorem cycle_fails : forall cf (S : string -> Prop), link_closed cf S ->
  forall b d st dest src below, S src -> snd (walk cf b (Datatypes.S (Datatypes.S d)) st dest src true below) = SErr.
Proof.
  intros cf S Hc. induction b as [|b IH]; intros d st dest src below HS;
    destruct (Hc src HS) as [(rm & Hf & Hu & He & Hk) (pos & target & [H1 H4 H5] & HS')].
  - cbn [walk]. rewrite Hf, Hu, He, Hk. cbn [negb andb].
    destruct below; rewrite ?walk_mounts_below_none by exact H5; cbn [bind ok]; rewrite H1, H4; reflexivity.
  - assert (Hfuel : depth_fuel cf = Datatypes.S (Datatypes.S (height 64 (c_host cf) + 2))) by (unfold depth_fuel; lia).
    cbn [walk]. rewrite Hf, Hu, He, Hk. cbn [negb andb].
    destruct below; rewrite ?walk_mounts_below_none by exact H5; cbn [bind ok]; rewrite H1, H4.
    all: fold (lexical src target); rewrite Hfuel; apply IH; exact HS'.
Qed.

(* a chain of links is followed at most 11 times: with budget b, a chain of b+1 links in a row fails even if it
   ends in a regular file (the code's bound limitFollowSymlinks = 10) *)
Fixpoint chain (cf : config) (n : nat) (src : string) : Prop :=
  match n with
  | O => True
  | Datatypes.S n' => to_host cf src /\ exists pos target, host_entry cf src pos (Link target) /\ chain cf n' (lexical src target)
  end.
Theorem chain_too_long_fails : forall cf b d st dest src below,
  chain cf (Datatypes.S b) src -> snd (walk cf b (Datatypes.S (Datatypes.S d)) st dest src true below) = SErr.
Proof.
  intros cf. induction b as [|b IH]; intros d st dest src below
    [(rm & Hf & Hu & He & Hk) (pos & target & [H1 H4 H5] & Hrest)].
  - cbn [walk]. rewrite Hf, Hu, He, Hk. cbn [negb andb].
    destruct below; rewrite ?walk_mounts_below_none by exact H5; cbn [bind ok]; rewrite H1, H4; reflexivity.
  - assert (Hfuel : depth_fuel cf = Datatypes.S (Datatypes.S (height 64 (c_host cf) + 2))) by (unfold depth_fuel; lia).
    cbn [walk]. rewrite Hf, Hu, He, Hk. cbn [negb andb].
    destruct below; rewrite ?walk_mounts_below_none by exact H5; cbn [bind ok]; rewrite H1, H4.
    all: fold (lexical src target); rewrite Hfuel; apply IH; exact Hrest.
Qed.

(* secrets: walkMount on a path at or below a secret mount adds nothing and succeeds *)
Theorem secret_target_omitted : forall cf b d st dest src below rm,
  find_mount cf src = Some rm -> under_secret cf src (String.length (fst rm)) = true ->
  walk cf b (S d) st dest src true below = ok st.
Proof. intros cf b d st dest src below rm H1 H2. destruct b; cbn [walk]; rewrite H1, H2; reflexivity. Qed.
Theorem secret_target_omitted' : forall cf b d st dest src below,
  find_mount cf src = None -> under_secret cf src 0 = true ->
  walk cf b (S d) st dest src true below = ok st.
Proof. intros cf b d st dest src below H1 H2. destruct b; cbn [walk]; rewrite H1, H2; reflexivity. Qed.

(* ---------- witnesses ---------- *)
Definition tmpm : mount := {| m_kind := "tmp"; m_text := ""; m_path := ""; m_writable := false; m_exclude := false |}.
Definition mk (out : node) (mounts : list (string * mount)) (secrets : list string) : config :=
  {| c_host := Dir [("h1", Dir [("h2", Dir [("out", out)])])]; c_hout := ["h1"; "h2"; "out"]; c_ctr := "/ctr/outdir";
     c_mounts := ("/ctr/outdir", tmpm) :: mounts; c_secrets := secrets |}.
Definition nostore : store := fun _ => "".

(* F11: a well-formed tree (the kernel inside the container reads l = "hello") whose copy fails *)
Definition f11_cfg : config :=
  mk (Dir [("a", Link "/ctr/outdir/b"); ("b", Dir [("x", File "hello")]); ("l", Link "a/x")]) [] [].
Lemma f11_witness :
  resolve f11_cfg nostore = SpecOk [("./a", true, ""); ("./a/x", false, "hello"); ("./b", true, "");
                                    ("./b/x", false, "hello"); ("./l", false, "hello")] /\
  fst (copy_model f11_cfg nostore) = RErr /\ w_f11 (snd (copy_model f11_cfg nostore)) = true.
Proof. repeat split; vm_compute; reflexivity. Qed.

(* F16: the copy succeeds with the wrong bytes for l *)
Definition f16_cfg : config :=
  mk (Dir [("d", Link "s/real"); ("f2", File "A-top"); ("l", Link "d/../f2");
           ("s", Dir [("f2", File "B-inner"); ("real", Dir [])])]) [] [].
Lemma f16_witness :
  (exists l, resolve f16_cfg nostore = SpecOk l /\ In ("./l", false, "B-inner") l) /\
  (exists l, fst (copy_model f16_cfg nostore) = ROk l /\ In ("./l", false, "A-top") l) /\
  w_f16 (snd (copy_model f16_cfg nostore)) = true.
Proof.
  split; [|split].
  - eexists. split; [vm_compute; reflexivity|]. cbn. tauto.
  - eexists. split; [vm_compute; reflexivity|]. cbn. tauto.
  - vm_compute. reflexivity.
Qed.

(* the input of the former finding F17 (commit d81649d): a link into a second tmp mount now fails cleanly *)
Definition f17_cfg : config := mk (Dir [("l", Link "/tmp/x")]) [("/tmp", tmpm)] [].
Lemma f17_repaired : fst (copy_model f17_cfg nostore) = RErr /\ resolve f17_cfg nostore = SpecFail.
Proof. split; vm_compute; reflexivity. Qed.

(* F18: a link to a file that is a json mount inside the output directory *)
Definition jsonm : mount := {| m_kind := "json"; m_text := ""; m_path := ""; m_writable := false; m_exclude := false |}.
Definition f18_cfg : config := mk (Dir [("j.json", File "{}"); ("l", Link "j.json")]) [("/ctr/outdir/j.json", jsonm)] [].
Lemma f18_witness :
  resolve f18_cfg nostore = SpecOk [("./j.json", false, "{}"); ("./l", false, "{}")] /\
  fst (copy_model f18_cfg nostore) = RErr.
Proof. split; vm_compute; reflexivity. Qed.

(* the input of the former finding F19 (commit 05c563f): the unclean absolute target is cleaned, the secret omitted *)
Definition f19_cfg : config :=
  mk (Dir [("l", Link "/ctr/outdir/./sec1"); ("sec1", File "TOP-SECRET")]) [] ["/ctr/outdir/sec1"].
Lemma f19_repaired : resolve f19_cfg nostore = SpecOk [] /\ fst (copy_model f19_cfg nostore) = ROk [].
Proof. split; vm_compute; reflexivity. Qed.

(* F16, secret form: the secret is reached through a symlinked directory; the copier's string test does not see it *)
Definition f16s_cfg : config :=
  mk (Dir [("d", Link "sub"); ("l", Link "d/sec"); ("sub", Dir [("sec", File "TOP-SECRET")])]) [] ["/ctr/outdir/sub/sec"].
Lemma f16_secret_witness :
  (exists l, resolve f16s_cfg nostore = SpecOk l /\ forall e, In e l -> snd e <> "TOP-SECRET") /\
  (exists l, fst (copy_model f16s_cfg nostore) = ROk l /\ In ("./l", false, "TOP-SECRET") l) /\
  w_f16 (snd (copy_model f16s_cfg nostore)) = true.
Proof.
  split; [|split].
  - eexists. split; [vm_compute; reflexivity|]. intros e Hin. cbn in Hin.
    repeat (destruct Hin as [<-|Hin]; [cbn; discriminate|]). contradiction.
  - eexists. split; [vm_compute; reflexivity|]. cbn. tauto.
  - vm_compute. reflexivity.
Qed.

(* the hypotheses of cycle_fails are satisfiable: the two-link cycle a -> b, b -> a *)
Definition cyc_cfg : config := mk (Dir [("a", Link "b"); ("b", Link "a")]) [] [].
Definition cyc_set (s : string) : Prop := s = "/ctr/outdir/a" \/ s = "/ctr/outdir/b".
Lemma cyc_closed : link_closed cyc_cfg cyc_set.
Proof.
  intros src [->| ->].
  - split.
    + exists ("/ctr/outdir", tmpm). repeat split; vm_compute; reflexivity.
    + exists ["h1"; "h2"; "out"; "a"], "b". split; [|right; vm_compute; reflexivity].
      constructor; try (vm_compute; reflexivity).
      intros rm [<-|[]]. vm_compute. reflexivity.
  - split.
    + exists ("/ctr/outdir", tmpm). repeat split; vm_compute; reflexivity.
    + exists ["h1"; "h2"; "out"; "b"], "a". split; [|left; vm_compute; reflexivity].
      constructor; try (vm_compute; reflexivity).
      intros rm [<-|[]]. vm_compute. reflexivity.
Qed.
Lemma cyc_copy_fails : fst (copy_model cyc_cfg nostore) = RErr.
Proof. vm_compute. reflexivity. Qed.

(* ---------- the copier never panics (this was refuted by finding F17 until commit d81649d; the Extract panic of
   C10's finding F14 is excluded by gm_extract_no_panic) ---------- *)
Lemma bind_np (r : wres) f : snd r <> SPanic -> (forall st, snd (f st) <> SPanic) -> snd (bind r f) <> SPanic.
Proof. destruct r as [st []]; cbn; auto. Qed.
Lemma fold_np {A} (g : wstate -> A -> wres) : (forall st x, snd (g st x) <> SPanic) ->
  forall l r, snd r <> SPanic -> snd (fold_left (fun r x => bind r (fun st => g st x)) l r) <> SPanic.
Proof.
  intros Hg. induction l as [|x l IH]; intros r Hr; [exact Hr|]. cbn [fold_left].
  apply IH. apply bind_np; [exact Hr|]. intros st. apply Hg.
Qed.
Lemma walk_mount_static_np cf st dest src rm : snd (walk_mount_static cf st dest src rm) <> SPanic.
Proof.
  unfold walk_mount_static. destruct rm as [root m].
  destruct (m_exclude m); [discriminate|].
  destruct (negb (String.eqb (m_kind m) "collection")); [discriminate|].
  destruct (negb (m_writable m)); [|discriminate].
  pose proof (gm_extract_no_panic (m_text m) (fp_join ["."; m_path m; drop (String.length root) src]) dest) as H.
  destruct (gm_extract _ _ _); try discriminate. congruence.
Qed.
Lemma walk_mounts_below_np cf wm st dest src : (forall st d m, snd (wm st d m) <> SPanic) ->
  snd (walk_mounts_below cf wm st dest src) <> SPanic.
Proof.
  intros Hwm. unfold walk_mounts_below.
  apply (fold_np (fun st rm => if has_prefix (src ++ "/") (fst rm)
                               then if copy_regular (snd rm) then ok st
                                    else wm st (dest ++ drop (String.length src) (fst rm)) (fst rm)
                               else ok st)); [|discriminate].
  intros st' rm. destruct (has_prefix _ _); [|discriminate]. destruct (copy_regular _); [discriminate|apply Hwm].
Qed.


(* ---------- the copier never panics ----------
   (refuted by finding F17 until commit d81649d; the Extract panic of C10's finding F14 is excluded by
   gm_extract_no_panic).  [walk_body] is the body of the nested fixpoint with its two recursive calls abstracted;
   [walk_unfold] shows by computation that it is the same function. *)
Section Body.
  Variable cf : config.
  Variable rec_d : wstate -> string -> string -> bool -> bool -> wres.                 (* same budget, depth - 1 *)
  Variable rec_b : option (wstate -> string -> string -> bool -> bool -> wres).        (* budget - 1, full depth *)
  Definition walk_body (st : wstate) (dest src : string) (via below : bool) : wres :=
    let wm_static := fun st dest' mnt =>
      match find_mount cf mnt with
      | None => (st, SErr)
      | Some rm =>
          if under_secret cf mnt (String.length (fst rm)) then ok st
          else if negb (m_exclude (snd rm)) && String.eqb (m_kind (snd rm)) "tmp"
               then (st, SUnmodelled)
               else walk_mount_static cf st dest' mnt rm
      end in
    if via then
      match find_mount cf src with
      | None => if under_secret cf src O then ok st else (st, SErr)
      | Some rm =>
          if under_secret cf src (String.length (fst rm)) then ok st
          else
            if negb (m_exclude (snd rm)) && String.eqb (m_kind (snd rm)) "tmp"
            then rec_d st dest src false below
            else bind (walk_mount_static cf st dest src rm)
                      (fun st => if below then walk_mounts_below cf wm_static st dest src else ok st)
      end
    else
      bind (if below then walk_mounts_below cf wm_static st dest src else ok st) (fun st =>
        if negb (has_prefix_dir (c_ctr cf) src) then (st, SErr)
        else
          let suffix := drop (String.length (c_ctr cf)) src in
          match host_lstat cf suffix with
          | LErr => (st, SErr)
          | LAbs => (set_flags st true false, SErr)
          | LUnknown => (st, SUnmodelled)
          | LNode pos (Link target) =>
              match rec_b with
              | None => (st, SErr)
              | Some f =>
                  let lexical := if is_abs target then path_clean target else fp_join [fp_dir src; target] in
                  let st := set_flags st false (lexical_differs cf pos target lexical) in
                  f st dest lexical true true
              end
          | LNode pos (Dir ents) =>
              let st := if String.eqb dest "" then st else add_dirp st dest in
              match sorted_names ents with
              | [] => ok (if String.eqb dest "" then st else add_filep st (dest ++ "/.keep") "")
              | names =>
                  fold_left (fun r name =>
                    bind r (fun st =>
                      let dest' := dest ++ "/" ++ name in
                      let src' := src ++ "/" ++ name in
                      if existsb (String.eqb src') (c_secrets cf) then ok st
                      else match assoc_get src' (c_mounts cf) with
                           | Some m => if copy_regular m then rec_d st dest' src' false false else ok st
                           | None => rec_d st dest' src' false false
                           end)) names (ok st)
              end
          | LNode pos (File data) => ok (add_filep st dest data)
          | LNode pos Special => (st, SErr)
          end).

  Hypothesis rec_d_np : forall st dest src via below, snd (rec_d st dest src via below) <> SPanic.
  Hypothesis rec_b_np : forall f, rec_b = Some f -> forall st dest src via below, snd (f st dest src via below) <> SPanic.

  Lemma wm_static_np st dest' mnt :
    snd (match find_mount cf mnt with
         | None => (st, SErr)
         | Some rm =>
             if under_secret cf mnt (String.length (fst rm)) then ok st
             else if negb (m_exclude (snd rm)) && String.eqb (m_kind (snd rm)) "tmp"
                  then (st, SUnmodelled)
                  else walk_mount_static cf st dest' mnt rm
         end) <> SPanic.
  Proof.
    destruct (find_mount cf mnt) as [rm|]; [|discriminate].
    destruct (under_secret cf mnt _); [discriminate|].
    destruct (negb _ && _); [discriminate|apply walk_mount_static_np].
  Qed.

  Lemma walk_body_np st dest src via below : snd (walk_body st dest src via below) <> SPanic.
  Proof.
    unfold walk_body. destruct via.
    - destruct (find_mount cf src) as [rm|]; [|destruct (under_secret cf src 0); discriminate].
      destruct (under_secret cf src _); [discriminate|].
      destruct (negb _ && _); [apply rec_d_np|].
      apply bind_np; [apply walk_mount_static_np|]. intros st'. destruct below; [|discriminate].
      apply walk_mounts_below_np. intros. apply wm_static_np.
    - apply bind_np.
      + destruct below; [|discriminate]. apply walk_mounts_below_np. intros. apply wm_static_np.
      + intros st'. destruct (negb (has_prefix_dir (c_ctr cf) src)); [discriminate|].
        destruct (host_lstat cf _) as [pos n| | |]; try discriminate.
        destruct n as [data|ents|target|]; try discriminate.
        * destruct (sorted_names ents) as [|n0 names]; [discriminate|].
          apply (fold_np (fun st name =>
                   if existsb (String.eqb (src ++ "/" ++ name)) (c_secrets cf) then ok st
                   else match assoc_get (src ++ "/" ++ name) (c_mounts cf) with
                        | Some m => if copy_regular m then rec_d st (dest ++ "/" ++ name) (src ++ "/" ++ name) false false else ok st
                        | None => rec_d st (dest ++ "/" ++ name) (src ++ "/" ++ name) false false
                        end)); [|discriminate].
          intros st2 name. destruct (existsb _ _); [discriminate|].
          destruct (assoc_get _ _) as [m|]; [destruct (copy_regular m); [apply rec_d_np|discriminate]|apply rec_d_np].
        * destruct rec_b as [f|] eqn:E; [|discriminate]. apply (rec_b_np f eq_refl).
  Qed.
End Body.

Lemma walk_unfold cf b d st dest src via below :
  walk cf b (S d) st dest src via below =
  walk_body cf (walk cf b d) (match b with O => None | S b' => Some (walk cf b' (depth_fuel cf)) end) st dest src via below.
Proof. destruct b; reflexivity. Qed.
Lemma walk_0 cf b st dest src via below : walk cf b O st dest src via below = (st, SUnmodelled).
Proof. destruct b; reflexivity. Qed.

Theorem walk_no_panic : forall cf b depth st dest src via below, snd (walk cf b depth st dest src via below) <> SPanic.
Proof.
  intros cf. induction b as [|b IHb]; induction depth as [|d IHd]; intros st dest src via below.
  - rewrite walk_0. discriminate.
  - rewrite walk_unfold. apply walk_body_np; [exact IHd|]. intros f Hf. discriminate.
  - rewrite walk_0. discriminate.
  - rewrite walk_unfold. apply walk_body_np; [exact IHd|]. intros f Hf. injection Hf as <-. apply IHb.
Qed.

Theorem copy_no_panic : forall cf st, fst (copy_model cf st) <> RPanic.
Proof.
  intros cf st. unfold copy_model, walk_all.
  pose proof (walk_no_panic cf 11 (depth_fuel cf) empty_state "" (c_ctr cf) true true) as H.
  destruct (walk cf 11 (depth_fuel cf) empty_state "" (c_ctr cf) true true) as [w []]; cbn [fst snd] in *; try discriminate; [|congruence].
  destruct (fs_load (w_manifest w)); [|discriminate].
  destruct (fold_opt do_mkdir _ _); [|discriminate].
  destruct (fold_opt (do_write st) _ _); discriminate.
Qed.
