(* C05 — witnesses (decided by vm_compute on the model; each was observed on the real balanceBlock
   by the harness, see known_findings.txt F1, F10, F12, F8) and examples showing that the hypotheses
   of the _partial theorems are satisfiable with non-trivial outcomes. *)
From Coq Require Import List Arith Bool Lia NArith.
From AV Require Import model.C05_model model.C05_old_model model.C05_run.
Import ListNotations.

Definition mkcase dflt raw sro repl desired rank devrank : case :=
  {| c_dflt := dflt; c_raw := raw; c_sro := sro; c_repl := repl; c_desired := desired; c_rank := rank;
     c_devrank := devrank; c_min := 100; o_trash := []; o_pull := []; o_lost := false |}.
Definition m_trash (c : case) := trashes (fst (m_out_old c)).
Definition m_lost (c : case) := snd (m_out_old c).
Definition eff_of (c : case) := setup (c_raw c) (c_sro c).
Definition before_of (c : case) k := phys_repl (c_dflt c) k (eff_of c) (held (eff_of c) (c_repl c)).
Definition after_of (c : case) k := phys_repl (c_dflt c) k (eff_of c) (after (eff_of c) (c_repl c) (m_trash c)).

(* F1: services 0..3 in rendezvous order; mount 1 (service 0) is empty with Replication 2; mounts 2 and 3
   are one device (id 2) on services 1 and 2, both showing the replica (mtime 40); mount 4 holds
   another old replica. Desired default:2. *)
Definition w_f1 : case :=
  mkcase 1 [mkm 1 0 1 false 2 []; mkm 2 1 2 false 1 []; mkm 3 2 2 false 1 []; mkm 4 3 3 false 1 []] []
         [(2, 40); (3, 40); (4, 60)] [(1, 2)] [0; 1; 2; 3] [0; 1; 2; 3].
Lemma w_f1_facts : m_trash w_f1 = [(4, 60)] /\ before_of w_f1 1 = 2 /\ after_of w_f1 1 = 1.
Proof. vm_compute. auto. Qed.

(* F1, second shape (harness case c05#8): the two views of the shared device report different mtimes;
   desired 1; the only physical copy is trashed through the worse-ranked view. *)
Definition w_f1b : case :=
  mkcase 1 [mkm 1 2 1 false 1 []; mkm 2 0 2 false 1 []; mkm 3 1 2 false 1 []] []
         [(2, 38); (3, 40)] [(1, 1)] [1; 2; 0] [2; 0; 1].
Lemma w_f1b_facts : m_trash w_f1b = [(3, 40)] /\ before_of w_f1b 1 = 1 /\ after_of w_f1b 1 = 0.
Proof. vm_compute. auto. Qed.

(* F10 (harness case c05#666): service 0 has two mounts of class 0 ("archive") holding old replicas,
   service 1 (better rank) one default mount holding a replica; Desired archive:2. No shared device. *)
Definition w_f10 : case :=
  mkcase 1 [mkm 1 0 1 false 1 [0]; mkm 2 0 2 false 1 [0]; mkm 3 1 3 false 2 []] []
         [(1, 10); (2, 11); (3, 21)] [(0, 2)] [1; 0] [3; 0; 1; 2].
Lemma w_f10_facts : m_trash w_f10 = [(2, 11)] /\ before_of w_f10 0 = 2 /\ after_of w_f10 0 = 1 /\
  nodupb (map mid (eff_of w_f10)) = true /\ nodupb (filter nz (map dev (eff_of w_f10))) = true.
Proof. vm_compute. auto 10. Qed.

(* F12 (harness case c05x#1935): Desired special:1 (class 2), every mount is default only *)
Definition w_f12 : case :=
  mkcase 1 [mkm 1 0 1 true 1 []; mkm 2 1 2 false 1 []] [] [(1, 10); (2, 11)] [(1, 0); (2, 1)] [0; 1] [2; 1; 0].
Lemma w_f12_facts : m_trash w_f12 = [(2, 11)] /\ before_of w_f12 2 = 0 /\
  mem 2 (classes_of 1 (eff_of w_f12)) = false.
Proof. vm_compute. auto. Qed.

(* F8 (harness case c05x#2097): referenced block, no replica, every mount read-only *)
Definition w_f8 : case :=
  mkcase 1 [mkm 1 0 1 true 1 []; mkm 2 1 2 true 1 [2]; mkm 3 1 3 true 1 [2]] [] [] [(1, 1); (2, 1)] [0; 1] [3; 2; 1; 0].
Lemma w_f8_facts : m_lost w_f8 = false /\ c_repl w_f8 = [] /\ lookup (c_desired w_f8) 1 = 1 /\
  mem 1 (classes_of 1 (eff_of w_f8)) = true /\ existsb (fun m => negb (mro m)) (eff_of w_f8) = false.
Proof. vm_compute. auto 10. Qed.

(* the hypotheses of the _partial theorems are satisfiable, with trash, pull and lost outcomes *)
Definition ex_ok1 : case :=   (* over-replicated: 3 old replicas, desired 2 -> the worst-ranked one is trashed *)
  mkcase 1 [mkm 1 0 1 false 1 []; mkm 2 1 2 false 1 []; mkm 3 2 3 false 1 []] []
         [(1, 10); (2, 11); (3, 12)] [(1, 2)] [0; 1; 2] [0; 1; 2; 3].
Definition ex_ok2 : case :=   (* under-replicated: one replica, desired 2 -> pull to the best empty writable mount *)
  mkcase 1 [mkm 1 0 1 false 1 []; mkm 2 1 2 false 1 []; mkm 3 2 3 true 1 []] []
         [(2, 11)] [(1, 2)] [0; 1; 2] [0; 1; 2; 3].
Definition ex_ok3 : case :=   (* lost *)
  mkcase 1 [mkm 1 0 1 false 1 []; mkm 2 1 2 true 1 []] [] [] [(1, 2)] [0; 1] [0; 1; 2].
Lemma ex_ok_facts :
  hyp_b ex_ok1 = true /\ m_trash ex_ok1 = [(3, 12)] /\
  hyp_b ex_ok2 = true /\ pulls (fst (m_out_old ex_ok2)) = [(1, 1)] /\ m_trash ex_ok2 = [] /\
  hyp_b ex_ok3 = true /\ m_lost ex_ok3 = true.
Proof. vm_compute. auto 10. Qed.
