(* C14 — the transition system of model/C14_sys.v: inductive invariant (bookkeeping covers processes,
   mutual exclusion) over arbitrary step sequences. *)
From Coq Require Import List ZArith Bool NArith Lia Permutation.
From AV Require Import model.C16_runq model.C14_pool model.C14_sys proofs.C16_runq proofs.C14_pool.
Import ListNotations.
Local Open Scope Z_scope.

Definition starting_all (p : wpool) : list N := flat_map sids (p_workers p).

(* the part of the invariant that concerns the pool, relative to the VMs and the probes in flight *)
Record PInv (vms : list vm) (probes : list (probe0 * presp)) (e : penv) : Prop := {
  pi_wnodup : NoDup (map w_id (p_workers (pe_pool e)));
  pi_wfresh : forall w, In w (p_workers (pe_pool e)) -> (w_id w < pe_next e)%N;
  pi_vfresh : forall v, In v vms -> (v_id v < pe_next e)%N;
  (* bookkeeping covers processes: a live process on a VM whose worker has been discovered is in
     starting or running of that worker *)
  pi_cov : forall v, In v vms ->
           match find_w (v_id v) (p_workers (pe_pool e)) with
           | None => True
           | Some w => unk w = true \/ incl (v_procs v) (sids w ++ rids w)
           end;
  (* mutual exclusion: no uuid has two live processes / start commands in flight *)
  pi_mutex : NoDup (flat_map v_procs vms ++ starting_all (pe_pool e));
  (* a probe in flight whose stamp is still current has listed every process of its VM *)
  pi_probe : forall pb r, In (pb, r) probes ->
             pb_updated pb <= p_clock (pe_pool e) /\
             forall w v, find_w (pb_id pb) (p_workers (pe_pool e)) = Some w -> find_vm (pb_id pb) vms = Some v ->
                         w_updated w = pb_updated pb -> incl (v_procs v) (pr_uuids r);
  pi_stamps : stamps_ok (pe_pool e)
}.

Definition Inv (s : sys) : Prop := NoDup (map v_id (s_vms s)) /\ PInv (s_vms s) (s_probes s) (s_env s).

(* ---------------- frame steps ---------------- *)
Lemma frame_ids c ws ws' : Forall2 (wframe c) ws ws' -> map w_id ws' = map w_id ws.
Proof. induction 1 as [|x y r r' (Hid & _) _ IH]; cbn [map]; [reflexivity|]. rewrite Hid, IH. reflexivity. Qed.
Lemma frame_starting c ws ws' : Forall2 (wframe c) ws ws' -> flat_map sids ws' = flat_map sids ws.
Proof. induction 1 as [|x y r r' (_ & Hs & _) _ IH]; cbn [flat_map]; [reflexivity|]. rewrite Hs, IH. reflexivity. Qed.
Lemma frame_in c ws ws' w' : Forall2 (wframe c) ws ws' -> In w' ws' -> exists w, In w ws /\ wframe c w w'.
Proof.
  induction 1 as [|x y r r' Hxy _ IH]; intros Hin; [destruct Hin|].
  destruct Hin as [<-|Hin]; [exists x; split; [left; reflexivity|exact Hxy]|].
  destruct (IH Hin) as (w & Hw & Hf). exists w. split; [right; exact Hw|exact Hf].
Qed.

Lemma PInv_frame vms probes p p' n cr :
  PInv vms probes (mkpe p n cr) -> pframe p p' -> PInv vms probes (mkpe p' n cr).
Proof.
  intros [A B C D E F G] (L & Fr & S). cbn [pe_pool pe_next] in *. constructor; cbn [pe_pool pe_next].
  - rewrite (frame_ids _ _ _ Fr). exact A.
  - intros w' Hw'. destruct (frame_in _ _ _ _ Fr Hw') as (w & Hw & (Hid & _)). rewrite Hid. apply B. exact Hw.
  - exact C.
  - intros v Hv. specialize (D v Hv). pose proof (frame_find _ _ _ (v_id v) Fr) as Hf.
    destruct (find_w (v_id v) (p_workers p)) as [w|], (find_w (v_id v) (p_workers p')) as [w'|]; try contradiction; [|exact I].
    destruct Hf as (_ & Hs & Hr & Hu & _). rewrite Hs, Hr, Hu. exact D.
  - unfold starting_all in *. rewrite (frame_starting _ _ _ Fr). exact E.
  - intros pb r Hin. destruct (F pb r Hin) as [F1 F2]. split; [lia|].
    intros w' v Hw' Hv Hst. pose proof (frame_find _ _ _ (pb_id pb) Fr) as Hf. rewrite Hw' in Hf.
    destruct (find_w (pb_id pb) (p_workers p)) as [w|] eqn:Ew; [|contradiction].
    destruct Hf as (_ & _ & _ & _ & [Hu|Hu]); [|lia]. apply (F2 w v eq_refl Hv). congruence.
  - apply S. exact G.
Qed.

Lemma Inv_frame s p' : Inv s -> pframe (spool s) p' -> Inv (set_pool s p').
Proof.
  intros [Hn HP] Hf. split; [exact Hn|]. unfold set_pool. cbn [s_vms s_probes s_env].
  destruct s as [[p n cr] vms probes]. cbn in *. eapply PInv_frame; eauto.
Qed.
