(* C14 — the transition system of model/C14_sys.v: inductive invariant (bookkeeping covers processes,
   mutual exclusion) over arbitrary step sequences. *)
From Coq Require Import List ZArith Bool NArith Lia Permutation.
From AV Require Import model.C16_runq model.C14_pool model.C14_sys proofs.C16_runq proofs.C14_pool.
Import ListNotations.
Local Open Scope Z_scope.

Definition starting_all (p : wpool) : list N := flat_map sids (p_workers p).

(* the part of the invariant that concerns the pool, relative to the VMs and the probes in flight *)
Record PInv (vms : list vm) (probes : list (probe0 * presp)) (e : penv) : Prop := {
  pi_wnodup : NoDup (map w_id (p_workers (pe_pool e)));
  pi_wfresh : forall w, In w (p_workers (pe_pool e)) -> (w_id w < pe_next e)%N;
  pi_vfresh : forall v, In v vms -> (v_id v < pe_next e)%N;
  (* bookkeeping covers processes: a live process on a VM whose worker has been discovered is in
     starting or running of that worker *)
  pi_cov : forall v, In v vms ->
           match find_w (v_id v) (p_workers (pe_pool e)) with
           | None => True
           | Some w => unk w = true \/ incl (v_procs v) (sids w ++ rids w)
           end;
  (* mutual exclusion: no uuid has two live processes / start commands in flight *)
  pi_mutex : NoDup (flat_map v_procs vms ++ starting_all (pe_pool e));
  (* a probe in flight whose stamp is still current has listed every process of its VM *)
  pi_probe : forall pb r, In (pb, r) probes ->
             pb_updated pb <= p_clock (pe_pool e) /\
             forall w v, find_w (pb_id pb) (p_workers (pe_pool e)) = Some w -> find_vm (pb_id pb) vms = Some v ->
                         w_updated w = pb_updated pb -> incl (v_procs v) (pr_uuids r);
  pi_stamps : stamps_ok (pe_pool e)
}.

Definition Inv (s : sys) : Prop := NoDup (map v_id (s_vms s)) /\ PInv (s_vms s) (s_probes s) (s_env s).

(* ---------------- frame steps ---------------- *)
Lemma frame_ids c ws ws' : Forall2 (wframe c) ws ws' -> map w_id ws' = map w_id ws.
Proof. induction 1 as [|x y r r' (Hid & _) _ IH]; cbn [map]; [reflexivity|]. rewrite Hid, IH. reflexivity. Qed.
Lemma frame_starting c ws ws' : Forall2 (wframe c) ws ws' -> flat_map sids ws' = flat_map sids ws.
Proof. induction 1 as [|x y r r' (_ & Hs & _) _ IH]; cbn [flat_map]; [reflexivity|]. rewrite Hs, IH. reflexivity. Qed.
Lemma frame_in c ws ws' w' : Forall2 (wframe c) ws ws' -> In w' ws' -> exists w, In w ws /\ wframe c w w'.
Proof.
  induction 1 as [|x y r r' Hxy _ IH]; intros Hin; [destruct Hin|].
  destruct Hin as [<-|Hin]; [exists x; split; [left; reflexivity|exact Hxy]|].
  destruct (IH Hin) as (w & Hw & Hf). exists w. split; [right; exact Hw|exact Hf].
Qed.

Lemma PInv_frame vms probes p p' n cr :
  PInv vms probes (mkpe p n cr) -> pframe p p' -> PInv vms probes (mkpe p' n cr).
Proof.
  intros [A B C D E F G] (L & Fr & S). cbn [pe_pool pe_next] in *. constructor; cbn [pe_pool pe_next].
  - rewrite (frame_ids _ _ _ Fr). exact A.
  - intros w' Hw'. destruct (frame_in _ _ _ _ Fr Hw') as (w & Hw & (Hid & _)). rewrite Hid. apply B. exact Hw.
  - exact C.
  - intros v Hv. specialize (D v Hv). pose proof (frame_find _ _ _ (v_id v) Fr) as Hf.
    destruct (find_w (v_id v) (p_workers p)) as [w|], (find_w (v_id v) (p_workers p')) as [w'|]; try contradiction; [|exact I].
    destruct Hf as (_ & Hs & Hr & Hu & _). rewrite Hs, Hr, Hu. exact D.
  - unfold starting_all in *. rewrite (frame_starting _ _ _ Fr). exact E.
  - intros pb r Hin. destruct (F pb r Hin) as [F1 F2]. split; [lia|].
    intros w' v Hw' Hv Hst. pose proof (frame_find _ _ _ (pb_id pb) Fr) as Hf. rewrite Hw' in Hf.
    destruct (find_w (pb_id pb) (p_workers p)) as [w|] eqn:Ew; [|contradiction].
    destruct Hf as (_ & _ & _ & _ & [Hu|Hu]); [|lia]. apply (F2 w v eq_refl Hv). congruence.
  - apply S. exact G.
Qed.

Lemma Inv_frame s p' : Inv s -> pframe (spool s) p' -> Inv (set_pool s p').
Proof.
  intros [Hn HP] Hf. split; [exact Hn|]. unfold set_pool. cbn [s_vms s_probes s_env].
  destruct s as [[p n cr] vms probes]. cbn in *. eapply PInv_frame; eauto.
Qed.

(* ---------------- list plumbing ---------------- *)
Lemma NoDup_app_iff {A} (a b : list A) : NoDup (a ++ b) <-> NoDup a /\ NoDup b /\ (forall x, In x a -> ~ In x b).
Proof.
  induction a as [|x r IH]; cbn [app].
  - split; [intros H; split; [constructor|split; [exact H|intros x []]]|intros (_ & H & _); exact H].
  - rewrite !NoDup_cons_iff, IH, in_app_iff. split.
    + intros (Hn & Hr & Hb & Hd). split; [split; [tauto|exact Hr]|]. split; [exact Hb|].
      intros y [<-|Hy]; [tauto|apply Hd; exact Hy].
    + intros ((Hn & Hr) & Hb & Hd). split; [intros [H|H]; [tauto|exact (Hd x (or_introl eq_refl) H)]|].
      split; [exact Hr|]. split; [exact Hb|]. intros y Hy. apply Hd. right; exact Hy.
Qed.

(* replacing a middle segment by a duplicate-free part of it keeps the whole duplicate-free *)
Lemma NoDup_shrink_mid {A} (x p p' y : list A) :
  NoDup (x ++ p ++ y) -> NoDup p' -> incl p' p -> NoDup (x ++ p' ++ y).
Proof.
  rewrite !NoDup_app_iff. intros (Hx & (Hp & Hy & Hpy) & Hxpy) Hp' Hi.
  split; [exact Hx|]. split; [split; [exact Hp'|split; [exact Hy|intros z Hz; apply Hpy; apply Hi; exact Hz]]|].
  intros z Hz Hin. apply (Hxpy z Hz). apply in_app_iff. apply in_app_iff in Hin. destruct Hin as [Hin|Hin]; [left; apply Hi; exact Hin|right; exact Hin].
Qed.

Lemma remove_one_incl u l : incl (remove_one u l) l.
Proof.
  induction l as [|x r IH]; cbn [remove_one]; [intros y []|].
  destruct (N.eqb x u); [intros y Hy; right; exact Hy|intros y [<-|Hy]; [left; reflexivity|right; apply IH; exact Hy]].
Qed.
Lemma remove_one_nodup u l : NoDup l -> NoDup (remove_one u l).
Proof.
  induction l as [|x r IH]; cbn [remove_one]; [auto|]. intros H. apply NoDup_cons_iff in H. destruct H as [Hn Hr].
  destruct (N.eqb x u); [exact Hr|]. constructor; [intros Hin; apply Hn; apply (remove_one_incl u r); exact Hin|apply IH; exact Hr].
Qed.

(* ---------------- VM plumbing ---------------- *)
Lemma find_vm_id id l v : find_vm id l = Some v -> v_id v = id.
Proof.
  induction l as [|x r IH]; cbn [find_vm]; [discriminate|].
  destruct (N.eqb (v_id x) id) eqn:E; [intros H; injection H as <-; apply N.eqb_eq; exact E|exact IH].
Qed.
Lemma find_vm_split id l v : find_vm id l = Some v -> exists a b, l = a ++ v :: b /\ find_vm id a = None.
Proof.
  induction l as [|x r IH]; cbn [find_vm]; [discriminate|].
  destruct (N.eqb (v_id x) id) eqn:E.
  - intros H; injection H as <-. exists [], r. split; reflexivity.
  - intros H. destruct (IH H) as (a & b & -> & Ha). exists (x :: a), b. split; [reflexivity|]. cbn [find_vm]. rewrite E. exact Ha.
Qed.
Lemma put_vm_split id a v b v' : find_vm id a = None -> v_id v = id -> v_id v' = id ->
  put_vm v' (a ++ v :: b) = a ++ v' :: b.
Proof.
  intros Ha Hv Hv'. induction a as [|x r IH]; cbn [app put_vm find_vm] in *.
  - rewrite Hv, Hv', N.eqb_refl. reflexivity.
  - destruct (N.eqb (v_id x) id) eqn:E; [discriminate|]. rewrite Hv', E. rewrite IH; [reflexivity|exact Ha].
Qed.
Lemma find_vm_app id a b : find_vm id (a ++ b) = match find_vm id a with Some x => Some x | None => find_vm id b end.
Proof. induction a as [|x r IH]; cbn [app find_vm]; [reflexivity|]. destruct (N.eqb (v_id x) id); [reflexivity|exact IH]. Qed.

Lemma set_procs_split id f l v : find_vm id l = Some v ->
  exists a b, l = a ++ v :: b /\ find_vm id a = None /\
              set_procs id f l = a ++ mkvm (v_id v) (v_it v) (f (v_procs v)) :: b.
Proof.
  intros H. unfold set_procs. rewrite H. destruct (find_vm_split _ _ _ H) as (a & b & -> & Ha).
  exists a, b. split; [reflexivity|]. split; [exact Ha|].
  apply (put_vm_split id); [exact Ha|eapply find_vm_id; eauto|cbn; eapply find_vm_id; eauto].
Qed.
Lemma set_procs_none id f l : find_vm id l = None -> set_procs id f l = l.
Proof. intros H. unfold set_procs. rewrite H. reflexivity. Qed.
Lemma find_vm_in id l v : find_vm id l = Some v -> In v l.
Proof. intros H. destruct (find_vm_split _ _ _ H) as (a & b & -> & _). apply in_or_app. right; left; reflexivity. Qed.

Lemma in_find_vm l v : NoDup (map v_id l) -> In v l -> find_vm (v_id v) l = Some v.
Proof.
  induction l as [|x r IH]; intros Hn Hin; [destruct Hin|]. cbn [find_vm map] in *.
  apply NoDup_cons_iff in Hn. destruct Hn as [Hx Hr]. destruct Hin as [->|Hin]; [rewrite N.eqb_refl; reflexivity|].
  destruct (N.eqb (v_id x) (v_id v)) eqn:E; [|apply IH; assumption].
  apply N.eqb_eq in E. exfalso. apply Hx. rewrite E. apply in_map. exact Hin.
Qed.

(* find_vm in the list with one VM's processes replaced *)
Lemma find_vm_replaced id a v b v' id' :
  find_vm id a = None -> v_id v = id -> v_id v' = id ->
  find_vm id' (a ++ v' :: b) = if N.eqb id' id then Some v' else find_vm id' (a ++ v :: b).
Proof.
  intros Ha Hv Hv'. rewrite !find_vm_app. cbn [find_vm]. rewrite Hv, Hv'.
  destruct (N.eqb id' id) eqn:E.
  - apply N.eqb_eq in E. subst id'. rewrite Ha, N.eqb_refl. reflexivity.
  - rewrite (N.eqb_sym id id'). rewrite E. reflexivity.
Qed.

Lemma set_procs_ids id f l : map v_id (set_procs id f l) = map v_id l.
Proof.
  destruct (find_vm id l) as [v|] eqn:Ev; [|rewrite (set_procs_none _ _ _ Ev); reflexivity].
  destruct (set_procs_split id f l v Ev) as (a & b & Hl & Ha & Hs). rewrite Hs, Hl, !map_app. reflexivity.
Qed.
Lemma set_procs_in id f l v : NoDup (map v_id l) -> In v (set_procs id f l) -> v_id v = id ->
  exists v0, find_vm id l = Some v0 /\ v_procs v = f (v_procs v0).
Proof.
  intros Hn Hin Hid. destruct (find_vm id l) as [v0|] eqn:Ev.
  - exists v0. split; [reflexivity|].
    destruct (set_procs_split id f l v0 Ev) as (a & b & Hl & Ha & Hs).
    assert (Hn' : NoDup (map v_id (set_procs id f l))) by (rewrite set_procs_ids; exact Hn).
    pose proof (in_find_vm _ v Hn' Hin) as Hf. rewrite Hid, Hs, find_vm_app, Ha in Hf. cbn [find_vm v_id] in Hf.
    rewrite (find_vm_id _ _ _ Ev), N.eqb_refl in Hf. injection Hf as <-. reflexivity.
  - rewrite (set_procs_none _ _ _ Ev) in Hin. apply (in_find_vm _ v Hn) in Hin. congruence.
Qed.

(* a VM's process list is replaced by a duplicate-free part of it: what the invariant needs *)
Lemma set_procs_shrink vms probes e id f :
  NoDup (map v_id vms) -> PInv vms probes e ->
  (forall l, NoDup l -> NoDup (f l)) -> (forall l, incl (f l) l) ->
  NoDup (map v_id (set_procs id f vms)) /\ PInv (set_procs id f vms) probes e.
Proof.
  intros Hn [A B C D E F G] Hf1 Hf2.
  destruct (find_vm id vms) as [v|] eqn:Ev; [|rewrite (set_procs_none _ _ _ Ev); split; [exact Hn|constructor; assumption]].
  destruct (set_procs_split id f vms v Ev) as (a & b & Hl & Ha & Hs). rewrite Hs.
  pose proof (find_vm_id _ _ _ Ev) as Hvid.
  set (v' := mkvm (v_id v) (v_it v) (f (v_procs v))).
  assert (Hids : map v_id (a ++ v' :: b) = map v_id vms).
  { rewrite Hl, !map_app. reflexivity. }
  split; [rewrite Hids; exact Hn|].
  assert (Hin : forall x, In x (a ++ v' :: b) -> x = v' \/ In x vms).
  { intros x Hx. apply in_app_or in Hx. rewrite Hl.
    destruct Hx as [Hx|[<-|Hx]]; [right; apply in_or_app; left; exact Hx|left; reflexivity|right; apply in_or_app; right; right; exact Hx]. }
  constructor; try assumption.
  - intros x Hx. destruct (Hin x Hx) as [->|Hx']; [|apply C; exact Hx'].
    cbn [v_id v']. apply C. eapply find_vm_in; eauto.
  - intros x Hx. destruct (Hin x Hx) as [->|Hx']; [|apply D; exact Hx'].
    cbn [v' v_id v_procs]. specialize (D v (find_vm_in _ _ _ Ev)).
    destruct (find_w (v_id v) (p_workers (pe_pool e))); [|exact I].
    destruct D as [D|D]; [left; exact D|right]. intros y Hy. apply D. apply (Hf2 _ y Hy).
  - rewrite Hl in E. rewrite !flat_map_app in *. cbn [flat_map] in *. rewrite <- !app_assoc in *.
    cbn [v' v_procs]. apply (NoDup_shrink_mid _ (v_procs v)); [exact E| |apply Hf2].
    apply Hf1. apply NoDup_app_iff in E. destruct E as (_ & E & _). apply NoDup_app_iff in E. tauto.
  - intros pb r Hp. destruct (F pb r Hp) as [F1 F2]. split; [exact F1|].
    intros w x Hw Hx Hst.
    rewrite (find_vm_replaced id a v b v' (pb_id pb) Ha Hvid Hvid) in Hx. rewrite <- Hl in Hx.
    destruct (N.eqb (pb_id pb) id) eqn:Eq.
    + injection Hx as <-. apply N.eqb_eq in Eq. cbn [v' v_procs]. intros y Hy.
      apply (F2 w v Hw); [rewrite Eq; exact Ev|exact Hst|apply (Hf2 _ y Hy)].
    + apply (F2 w x Hw Hx Hst).
Qed.

(* ---------------- steps that only reframe the pool ---------------- *)
Lemma spool_set_pool s p : spool (set_pool s p) = p.
Proof. reflexivity. Qed.

(* ---------------- LProcExit ---------------- *)
Lemma step_procexit c id u s s' : Inv s -> step c (LProcExit id u) s = Some s' -> Inv s'.
Proof.
  intros [Hn HP] H. cbn [step] in H. injection H as <-. unfold Inv. cbn [s_vms s_probes s_env].
  apply set_procs_shrink; auto; [intros l; apply remove_one_nodup|intros l; apply remove_one_incl].
Qed.

(* ---------------- LVMGone ---------------- *)
Lemma find_vm_filter_ne id gone l : id <> gone ->
  find_vm id (filter (fun v => negb (N.eqb (v_id v) gone)) l) = find_vm id l.
Proof.
  intros Hne. induction l as [|x r IH]; cbn [filter find_vm]; [reflexivity|].
  destruct (N.eqb (v_id x) gone) eqn:E; cbn [negb find_vm].
  - apply N.eqb_eq in E. assert (N.eqb (v_id x) id = false) by (apply N.eqb_neq; congruence). rewrite H. exact IH.
  - destruct (N.eqb (v_id x) id); [reflexivity|exact IH].
Qed.
Lemma find_vm_filter_eq gone l : find_vm gone (filter (fun v => negb (N.eqb (v_id v) gone)) l) = None.
Proof.
  induction l as [|x r IH]; cbn [filter find_vm]; [reflexivity|].
  destruct (N.eqb (v_id x) gone) eqn:E; cbn [negb find_vm]; [exact IH|rewrite E; exact IH].
Qed.
Lemma NoDup_flat_filter {A B} (f : A -> list B) (g : A -> bool) l y :
  NoDup (flat_map f l ++ y) -> NoDup (flat_map f (filter g l) ++ y).
Proof.
  induction l as [|x r IH]; cbn [flat_map filter]; [auto|]. intros H. rewrite <- app_assoc in H.
  destruct (g x); cbn [flat_map].
  - rewrite <- app_assoc. apply NoDup_app_iff in H. destruct H as (H1 & H2 & H3). apply NoDup_app_iff.
    split; [exact H1|]. split; [apply IH; exact H2|]. intros z Hz Hin. apply (H3 z Hz).
    apply in_app_iff in Hin. apply in_app_iff. destruct Hin as [Hin|Hin]; [left|right; exact Hin].
    apply in_flat_map in Hin. destruct Hin as (a & Ha & Hza). apply in_flat_map. exists a. apply filter_In in Ha. tauto.
  - apply IH. apply NoDup_app_iff in H. tauto.
Qed.
Lemma NoDup_map_filter {A B} (f : A -> B) (g : A -> bool) l : NoDup (map f l) -> NoDup (map f (filter g l)).
Proof.
  induction l as [|x r IH]; cbn [map filter]; [auto|]. intros H. apply NoDup_cons_iff in H. destruct H as [Hx Hr].
  destruct (g x); cbn [map]; [|auto]. constructor; [|auto]. intros Hin. apply Hx.
  apply in_map_iff in Hin. destruct Hin as (a & <- & Ha). apply in_map. apply filter_In in Ha. tauto.
Qed.

Lemma step_vmgone c id s s' : Inv s -> step c (LVMGone id) s = Some s' -> Inv s'.
Proof.
  intros [Hn [A B C D E F G]] H. cbn [step] in H. injection H as <-. unfold Inv. cbn [s_vms s_probes s_env].
  split; [apply NoDup_map_filter; exact Hn|]. constructor; try assumption.
  - intros v Hv. apply C. apply filter_In in Hv. tauto.
  - intros v Hv. apply D. apply filter_In in Hv. tauto.
  - apply NoDup_flat_filter. exact E.
  - intros pb r Hp. destruct (F pb r Hp) as [F1 F2]. split; [exact F1|]. intros w v Hw Hv Hst.
    destruct (N.eq_dec (pb_id pb) id) as [Heq|Hne]; [rewrite Heq in Hv; rewrite find_vm_filter_eq in Hv; discriminate|].
    rewrite find_vm_filter_ne in Hv by exact Hne. exact (F2 w v Hw Hv Hst).
Qed.

(* ---------------- LRestart ---------------- *)
Lemma step_restart c s s' : Inv s -> step c LRestart s = Some s' -> Inv s'.
Proof.
  intros [Hn [A B C D E F G]] H. cbn [step] in H. injection H as <-. unfold Inv. cbn [s_vms s_probes s_env].
  split; [exact Hn|]. constructor; cbn [pe_pool pe_next empty_pool p_workers p_clock map].
  - constructor.
  - intros w [].
  - exact C.
  - intros v Hv. cbn [find_w]. exact I.
  - unfold starting_all. cbn [p_workers flat_map]. rewrite app_nil_r. apply NoDup_app_iff in E. tauto.
  - intros pb r [].
  - intros w [].
Qed.

(* ---------------- the pure reframing steps ---------------- *)
Lemma step_frame_labels c l s s' :
  match l with LKill _ | LGiveUp _ _ | LForget _ | LSetIB _ _ | LShutdownType _ _ | LSweep => True | _ => False end ->
  Inv s -> step c l s = Some s' -> Inv s'.
Proof.
  intros Hl HI H. destruct l; try contradiction; cbn [step] in H; injection H as <-; apply Inv_frame; auto.
  - apply pool_kill_frame.
  - apply give_up_frame.
  - apply pool_forget_frame.
  - apply pool_set_ib_frame.
  - apply pool_shutdown_frame.
  - apply pool_sweep_frame.
Qed.

(* ---------------- replacing one worker ---------------- *)
Lemma find_w_split id ws w : find_w id ws = Some w -> exists a b, ws = a ++ w :: b /\ find_w id a = None.
Proof.
  induction ws as [|x r IH]; cbn [find_w]; [discriminate|].
  destruct (N.eqb (w_id x) id) eqn:E.
  - intros H; injection H as <-. exists [], r. split; reflexivity.
  - intros H. destruct (IH H) as (a & b & -> & Ha). exists (x :: a), b. split; [reflexivity|]. cbn [find_w]. rewrite E. exact Ha.
Qed.
Lemma put_w_split a w b w' : find_w (w_id w) a = None -> w_id w' = w_id w -> put_w w' (a ++ w :: b) = a ++ w' :: b.
Proof.
  intros Ha Hid. induction a as [|x r IH]; cbn [app put_w find_w] in *.
  - rewrite Hid, N.eqb_refl. reflexivity.
  - destruct (N.eqb (w_id x) (w_id w)) eqn:E; [discriminate|]. rewrite Hid, E. rewrite IH; [reflexivity|exact Ha].
Qed.

Lemma PInv_put vms probes p n cr w w' ex' clock' (f : N -> bool) :
  PInv vms probes (mkpe p n cr) ->
  find_w (w_id w) (p_workers p) = Some w ->
  w_id w' = w_id w ->
  sids w' = filter f (sids w) ->
  (forall v, In v vms -> v_id v = w_id w -> unk w' = true \/ incl (v_procs v) (sids w' ++ rids w')) ->
  (w_updated w' = w_updated w \/ p_clock p < w_updated w') -> w_updated w' <= clock' -> p_clock p <= clock' ->
  PInv vms probes (mkpe (mkp (put_w w' (p_workers p)) ex' clock' (p_quota p) (p_loaded p)) n cr).
Proof.
  intros [A B C D E F G] Hf Hid Hs Hcov Hst Hu Hc. cbn [pe_pool pe_next] in *.
  constructor; cbn [pe_pool pe_next p_workers p_clock].
  - rewrite put_w_ids. exact A.
  - intros x Hx. apply in_put in Hx. destruct Hx as [->|Hx]; [rewrite Hid; apply B; eapply find_w_in; eauto|apply B; exact Hx].
  - exact C.
  - intros v Hv. destruct (N.eq_dec (v_id v) (w_id w)) as [Heq|Hne].
    + rewrite Heq. rewrite <- Hid. rewrite (find_put_eq (w_id w') _ w w'); [|rewrite Hid; exact Hf|reflexivity].
      apply Hcov; assumption.
    + rewrite find_put_neq by (rewrite Hid; exact Hne). apply D. exact Hv.
  - destruct (find_w_split _ _ _ Hf) as (a & b & Hl & Ha). unfold starting_all in *.
    rewrite Hl in E |- *. rewrite (put_w_split a w b w' Ha Hid).
    assert (H1 : flat_map sids (a ++ w' :: b) = flat_map sids a ++ filter f (sids w) ++ flat_map sids b).
    { rewrite flat_map_app. cbn [flat_map]. rewrite Hs. reflexivity. }
    assert (H0 : flat_map sids (a ++ w :: b) = flat_map sids a ++ sids w ++ flat_map sids b).
    { rewrite flat_map_app. cbn [flat_map]. reflexivity. }
    cbn [p_workers]. rewrite H1. rewrite H0 in E. rewrite app_assoc in E |- *.
    apply (NoDup_shrink_mid _ (sids w)); [exact E| |intros y Hy; apply filter_In in Hy; tauto].
    apply NoDup_filter. apply NoDup_app_iff in E. destruct E as (_ & E & _). apply NoDup_app_iff in E. tauto.
  - intros pb r Hp. destruct (F pb r Hp) as [F1 F2]. split; [lia|]. intros x v Hx Hv Hstamp.
    destruct (N.eq_dec (pb_id pb) (w_id w)) as [Heq|Hne].
    + rewrite Heq in Hx. rewrite <- Hid in Hx. rewrite (find_put_eq (w_id w') _ w w') in Hx; [|rewrite Hid; exact Hf|reflexivity].
      injection Hx as <-. destruct Hst as [Hst|Hst]; [|lia].
      apply (F2 w v); [rewrite Heq; exact Hf|exact Hv|congruence].
    + rewrite find_put_neq in Hx by (rewrite Hid; exact Hne). apply (F2 x v Hx Hv Hstamp).
  - intros x Hx. cbn [p_workers p_clock] in *. apply in_put in Hx. destruct Hx as [->|Hx]; [exact Hu|].
    specialize (G x Hx). lia.
Qed.

(* ---------------- closeRunner / onKilled ---------------- *)
Lemma del_run_ids u l : map ru (del_run u l) = filter (fun x => negb (N.eqb x u)) (map ru l).
Proof.
  unfold del_run. induction l as [|r t IH]; cbn [filter map]; [reflexivity|].
  destruct (N.eqb (ru r) u); cbn [negb map]; [exact IH|rewrite IH; reflexivity].
Qed.
Lemma has_run_in u l : has_run u l = true <-> In u (map ru l).
Proof.
  unfold has_run. rewrite existsb_exists. split.
  - intros (r & Hr & E). apply N.eqb_eq in E. subst. apply in_map. exact Hr.
  - intros H. apply in_map_iff in H. destruct H as (r & <- & Hr). exists r. split; [exact Hr|apply N.eqb_refl].
Qed.
Lemma filter_ne_notin u l : ~ In u l -> filter (fun x => negb (N.eqb x u)) l = l.
Proof.
  induction l as [|x r IH]; cbn [filter]; [reflexivity|]. intros H.
  destruct (N.eqb x u) eqn:E; [apply N.eqb_eq in E; subst; exfalso; apply H; left; reflexivity|].
  cbn [negb]. rewrite IH; [reflexivity|intros Hin; apply H; right; exact Hin].
Qed.

Lemma close_runner_view u w ex clock w' ex' clock' :
  close_runner u w ex clock = (w', ex', clock') ->
  w_id w' = w_id w /\ sids w' = sids w /\ rids w' = filter (fun x => negb (N.eqb x u)) (rids w) /\ unk w' = unk w /\
  clock <= clock' /\ (w_updated w' = w_updated w \/ clock < w_updated w') /\ (w_updated w <= clock -> w_updated w' <= clock').
Proof.
  unfold close_runner. destruct (has_run u (w_running w)) eqn:Eh; cbn [negb].
  - cbv zeta. intros H. injection H as <- <- <-.
    match goal with |- context [if ?c then _ else _] => destruct c eqn:Ec end.
    + apply andb_true_iff in Ec. destruct Ec as [Ec _]. unfold sids, rids, unk. cbn in *. rewrite del_run_ids.
      repeat split; auto; try lia. destruct (w_st w); cbn in *; try discriminate; reflexivity.
    + unfold sids, rids, unk. cbn. rewrite del_run_ids. repeat split; auto; lia.
  - intros H. injection H as <- <- <-. assert (~ In u (rids w)).
    { intros Hin. apply has_run_in in Hin. congruence. }
    rewrite (filter_ne_notin u (rids w) H). repeat split; auto; lia.
Qed.

Lemma step_killdelivered c id u s s' : Inv s -> step c (LKillDelivered id u) s = Some s' -> Inv s'.
Proof.
  intros [Hn HP] H. cbn [step] in H. injection H as <-. unfold Inv. cbn [s_vms s_probes s_env].
  set (f := fun l : list N => filter (fun x => negb (N.eqb x u)) l).
  destruct (set_procs_shrink (s_vms s) (s_probes s) (s_env s) id f Hn HP) as [Hn' HP'].
  { intros l Hl. apply NoDup_filter. exact Hl. }
  { intros l y Hy. apply filter_In in Hy. tauto. }
  split; [exact Hn'|].
  destruct s as [[p n cr] vms probes]. cbn [spool s_env s_vms s_probes pe_pool pe_next pe_create] in *.
  unfold kill_delivered. destruct (find_w id (p_workers p)) as [w|] eqn:Ef; [|destruct p; exact HP'].
  destruct (close_runner u w (p_exited p) (p_clock p)) as [[w' ex'] clock'] eqn:Ec.
  destruct (close_runner_view _ _ _ _ _ _ _ Ec) as (A & B & C & D & L & St & U).
  pose proof (find_w_id _ _ _ Ef) as Hid. rewrite <- Hid in Ef.
  apply (PInv_put _ _ p n cr w w' ex' clock' (fun _ => true) HP' Ef A).
  - rewrite B. clear. induction (sids w) as [|x r IH]; cbn [filter]; [reflexivity|]. rewrite <- IH. reflexivity.
  - intros v Hv Hvid. pose proof (pi_cov _ _ _ HP' v Hv) as Dv. cbn [pe_pool] in Dv. rewrite Hvid, Ef in Dv.
    destruct Dv as [Dv|Dv]; [left; congruence|right].
    (* the modified VM has no process u any more *)
    assert (Hnu : ~ In u (v_procs v)).
    { destruct (set_procs_in id f vms v Hn Hv) as (v0 & _ & Hp); [congruence|]. rewrite Hp. unfold f. intros Hin.
      apply filter_In in Hin. destruct Hin as [_ Hin]. rewrite N.eqb_refl in Hin. discriminate. }
    intros y Hy. specialize (Dv y Hy). rewrite B, C. apply in_app_iff in Dv. apply in_app_iff.
    destruct Dv as [Dv|Dv]; [left; exact Dv|right]. apply filter_In. split; [exact Dv|].
    destruct (N.eqb y u) eqn:E; [apply N.eqb_eq in E; subst; contradiction|reflexivity].
  - exact St.
  - apply U. apply (pi_stamps _ _ _ HP'). cbn [pe_pool]. eapply find_w_in; eauto.
  - exact L.
Qed.

(* ---------------- a start command returns ---------------- *)
Lemma NoDup_insert_mid {A} (x y : list A) u : NoDup (x ++ y) -> ~ In u (x ++ y) -> NoDup (x ++ u :: y).
Proof.
  intros H Hn. apply (Permutation_NoDup (Permutation_middle x y u)). constructor; assumption.
Qed.

Lemma set_procs_grow vms probes e id u :
  NoDup (map v_id vms) -> PInv vms probes e ->
  ~ In u (flat_map v_procs vms ++ starting_all (pe_pool e)) ->
  (forall w, find_w id (p_workers (pe_pool e)) = Some w -> In u (sids w ++ rids w)) ->
  (forall pb r, In (pb, r) probes -> pb_id pb = id ->
                forall w, find_w id (p_workers (pe_pool e)) = Some w -> w_updated w <> pb_updated pb) ->
  NoDup (map v_id (set_procs id (cons u) vms)) /\ PInv (set_procs id (cons u) vms) probes e.
Proof.
  intros Hn [A B C D E F G] Hnu Hbook Hstale.
  split; [rewrite set_procs_ids; exact Hn|].
  destruct (find_vm id vms) as [v|] eqn:Ev; [|rewrite (set_procs_none _ _ _ Ev); constructor; assumption].
  destruct (set_procs_split id (cons u) vms v Ev) as (a & b & Hl & Ha & Hs). rewrite Hs.
  pose proof (find_vm_id _ _ _ Ev) as Hvid.
  set (v' := mkvm (v_id v) (v_it v) (u :: v_procs v)).
  assert (Hin : forall x, In x (a ++ v' :: b) -> x = v' \/ In x vms).
  { intros x Hx. apply in_app_or in Hx. rewrite Hl.
    destruct Hx as [Hx|[<-|Hx]]; [right; apply in_or_app; left; exact Hx|left; reflexivity|right; apply in_or_app; right; right; exact Hx]. }
  constructor; try assumption.
  - intros x Hx. destruct (Hin x Hx) as [->|Hx']; [|apply C; exact Hx']. cbn [v_id v']. apply C. eapply find_vm_in; eauto.
  - intros x Hx. destruct (Hin x Hx) as [->|Hx']; [|apply D; exact Hx'].
    cbn [v' v_id v_procs]. specialize (D v (find_vm_in _ _ _ Ev)). rewrite Hvid in *.
    destruct (find_w id (p_workers (pe_pool e))) as [w|] eqn:Ew; [|exact I].
    destruct D as [D|D]; [left; exact D|right]. intros y [<-|Hy]; [apply Hbook; reflexivity|apply D; exact Hy].
  - rewrite Hl in E, Hnu. rewrite !flat_map_app in *. cbn [flat_map v' v_procs] in *. rewrite <- !app_assoc in *.
    cbn [app]. apply NoDup_insert_mid; assumption.
  - intros pb r Hp. destruct (F pb r Hp) as [F1 F2]. split; [exact F1|]. intros w x Hw Hx Hst.
    rewrite (find_vm_replaced id a v b v' (pb_id pb) Ha Hvid Hvid) in Hx. rewrite <- Hl in Hx.
    destruct (N.eqb (pb_id pb) id) eqn:Eq.
    + apply N.eqb_eq in Eq. exfalso. rewrite Eq in Hw. exact (Hstale pb r Hp Eq w Hw Hst).
    + exact (F2 w x Hw Hx Hst).
Qed.

Lemma get_run_ru u l r : get_run u l = Some r -> ru r = u.
Proof.
  induction l as [|x t IH]; cbn [get_run]; [discriminate|].
  destruct (N.eqb (ru x) u) eqn:E; [intros H; injection H as <-; apply N.eqb_eq; exact E|exact IH].
Qed.

Lemma start_lands_view id u p w :
  find_w id (p_workers p) = Some w ->
  exists w', start_lands id u p = mkp (put_w w' (p_workers p)) (p_exited p) (p_clock p + 1) (p_quota p) (p_loaded p) /\
             w_id w' = w_id w /\ sids w' = filter (fun x => negb (N.eqb x u)) (sids w) /\
             In u (rids w') /\ incl (rids w) (rids w') /\ unk w' = unk w /\ w_updated w' = p_clock p + 1.
Proof.
  intros Hf. unfold start_lands. rewrite Hf. cbn [tick].
  match goal with |- context [put_w ?x _] => exists x end.
  split; [reflexivity|]. unfold sids, rids, unk. cbn. rewrite del_run_ids.
  repeat split; auto.
  - destruct (has_run u (w_running w)) eqn:Eh; [apply has_run_in; exact Eh|]. rewrite map_app. apply in_or_app. right.
    destruct (get_run u (w_starting w)) as [r|] eqn:Eg; [left; apply (get_run_ru _ _ _ Eg)|left; reflexivity].
  - destruct (has_run u (w_running w)); [apply incl_refl|]. rewrite map_app. apply incl_appl, incl_refl.
Qed.

Lemma step_lands c id u ok s s' : Inv s -> step c (LLands id u ok) s = Some s' -> Inv s'.
Proof.
  intros [Hn HP] H. cbn [step] in H.
  destruct (find_w id (p_workers (spool s))) as [w|] eqn:Ef; [|discriminate].
  destruct (memN u (map ru (w_starting w))) eqn:Em; cbn [negb] in H; [|discriminate].
  injection H as <-. apply memN_In in Em. fold (sids w) in Em.
  destruct s as [[p n cr] vms probes]. cbn [spool s_env s_vms s_probes pe_pool pe_next pe_create] in *.
  destruct (start_lands_view id u p w Ef) as (w' & -> & A & B & C & Ci & D & Eu).
  pose proof (find_w_id _ _ _ Ef) as Hid. rewrite <- Hid in Ef.
  assert (HP1 : PInv vms probes (mkpe (mkp (put_w w' (p_workers p)) (p_exited p) (p_clock p + 1) (p_quota p) (p_loaded p)) n cr)).
  { apply (PInv_put _ _ p n cr w w' (p_exited p) (p_clock p + 1) (fun x => negb (N.eqb x u)) HP Ef A B); try lia.
    intros v Hv Hvid. pose proof (pi_cov _ _ _ HP v Hv) as Dv. cbn [pe_pool] in Dv. rewrite Hvid, Ef in Dv.
    destruct Dv as [Dv|Dv]; [left; congruence|right]. intros y Hy. specialize (Dv y Hy).
    apply in_app_iff. destruct (N.eqb y u) eqn:E; [apply N.eqb_eq in E; subst; right; exact C|].
    apply in_app_iff in Dv. destruct Dv as [Dv|Dv]; [left; rewrite B; apply filter_In; split; [exact Dv|rewrite E; reflexivity]|right; apply Ci; exact Dv]. }
  unfold Inv. cbn [s_vms s_probes s_env]. destruct ok; [|split; assumption].
  apply set_procs_grow; auto; cbn [pe_pool p_workers].
  - (* u occurred exactly once: in starting of w *)
    pose proof (pi_mutex _ _ _ HP) as E. cbn [pe_pool] in E. unfold starting_all in *.
    destruct (find_w_split _ _ _ Ef) as (a & b & Hl & Ha). rewrite Hl in E |- *. rewrite (put_w_split a w b w' Ha A).
    assert (H1 : flat_map sids (a ++ w' :: b) = flat_map sids a ++ filter (fun x => negb (N.eqb x u)) (sids w) ++ flat_map sids b).
    { rewrite flat_map_app. cbn [flat_map]. rewrite B. reflexivity. }
    assert (H0 : flat_map sids (a ++ w :: b) = flat_map sids a ++ sids w ++ flat_map sids b).
    { rewrite flat_map_app. cbn [flat_map]. reflexivity. }
    cbn [p_workers]. rewrite H1. rewrite H0 in E.
    apply NoDup_app_iff in E. destruct E as (E1 & E2 & E3).
    apply NoDup_app_iff in E2. destruct E2 as (E4 & E5 & E6). apply NoDup_app_iff in E5. destruct E5 as (E7 & E8 & E9).
    intros Hin. apply in_app_iff in Hin. destruct Hin as [Hin|Hin].
    + apply (E3 u Hin). apply in_or_app. right. apply in_or_app. left. exact Em.
    + apply in_app_iff in Hin. destruct Hin as [Hin|Hin]; [apply (E6 u Hin); apply in_or_app; left; exact Em|].
      apply in_app_iff in Hin. destruct Hin as [Hin|Hin].
      * apply filter_In in Hin. destruct Hin as [_ Hin]. rewrite N.eqb_refl in Hin. discriminate.
      * exact (E9 u Em Hin).
  - intros x Hx. rewrite <- Hid, <- A in Hx. rewrite (find_put_eq (w_id w') _ w w') in Hx; [|rewrite A; exact Ef|reflexivity].
    injection Hx as <-. apply in_or_app. right; exact C.
  - intros pb r Hp Hpid x Hx. rewrite <- Hid, <- A in Hx. rewrite (find_put_eq (w_id w') _ w w') in Hx; [|rewrite A; exact Ef|reflexivity].
    injection Hx as <-. destruct (pi_probe _ _ _ HP pb r Hp) as [F1 _]. cbn [pe_pool] in F1. lia.
Qed.

(* ---------------- a probe starts ---------------- *)
Lemma probe_begin_cases id p o p' :
  probe_begin id p = (o, p') ->
  (o = None /\ p' = p) \/
  (exists w, find_w id (p_workers p) = Some w /\ o = Some (mkpb id (w_updated w) (w_st w) (p_clock p + 1)) /\ p' = snd (tick p)).
Proof.
  unfold probe_begin. destruct (find_w id (p_workers p)) as [w|] eqn:Ef.
  - destruct (w_st w) eqn:Es; unfold tick; intros H; injection H as <- <-.
    1-4: right; exists w; split; [reflexivity|split; [rewrite ?Es; reflexivity|reflexivity]].
    left; split; reflexivity.
  - intros H; injection H as <- <-. left; split; reflexivity.
Qed.

Lemma step_probebegin c id b1 b2 b3 b4 s s' : Inv s -> step c (LProbeBegin id b1 b2 b3 b4) s = Some s' -> Inv s'.
Proof.
  intros [Hn HP] H. cbn [step] in H. destruct (find_vm id (s_vms s)) as [v|] eqn:Ev; [|discriminate].
  destruct (existsb (fun x => N.eqb (pb_id (fst x)) id) (s_probes s)); [discriminate|].
  destruct (probe_begin id (spool s)) as [o p'] eqn:Eb.
  destruct (probe_begin_cases _ _ _ _ Eb) as [[-> ->]|(w & Ef & -> & ->)].
  - injection H as <-. apply Inv_frame; [split; assumption|apply pframe_refl].
  - injection H as <-. unfold Inv. cbn [s_vms s_probes s_env]. split; [exact Hn|].
    destruct s as [[p n cr] vms probes]. cbn [spool s_env s_vms s_probes pe_pool pe_next pe_create] in *.
    pose proof (PInv_frame _ _ _ _ _ _ HP (tick_frame p)) as HP'. destruct HP' as [A B C D E F G].
    constructor; try assumption.
    intros pb r [Heq|Hin]; [|apply F; exact Hin]. injection Heq as <- <-. cbn [pb_updated pb_id pr_uuids].
    cbn [pe_pool tick snd p_clock p_workers] in *. split.
    + pose proof (pi_stamps _ _ _ HP w (find_w_in _ _ _ Ef)) as S. cbn [pe_pool] in S. lia.
    + intros w' v' Hw' Hv' _. rewrite Ev in Hv'. injection Hv' as <-. apply incl_refl.
Qed.

(* ---------------- updateRunning ---------------- *)
Lemma filter_filter {A} (f g : A -> bool) l : filter g (filter f l) = filter (fun x => f x && g x) l.
Proof.
  induction l as [|x r IH]; cbn [filter]; [reflexivity|].
  destruct (f x); cbn [filter andb]; [destruct (g x); rewrite IH; reflexivity|exact IH].
Qed.

Lemma add_alive_view uuids : forall w ch w' ch',
  add_alive uuids w ch = (w', ch') ->
  w_id w' = w_id w /\ w_st w' = w_st w /\ w_ib w' = w_ib w /\ w_updated w' = w_updated w /\ w_probed w' = w_probed w /\
  (exists f, sids w' = filter f (sids w)) /\ incl (rids w) (rids w') /\ (forall u, In u uuids -> In u (rids w')).
Proof.
  induction uuids as [|u r IH]; intros w ch w' ch'; cbn [add_alive].
  - intros H; injection H as <- <-. repeat split; auto; [exists (fun _ => true)|apply incl_refl|intros u []].
    clear. induction (sids w) as [|x t IH]; cbn [filter]; [reflexivity|rewrite <- IH; reflexivity].
  - destruct (has_run u (w_running w)) eqn:Eh.
    + intros H. destruct (IH _ _ _ _ H) as (A & B & C & D & Pb & Fs & Ir & Al). repeat split; auto.
      intros y [<-|Hy]; [apply Ir; apply has_run_in; exact Eh|apply Al; exact Hy].
    + destruct (get_run u (w_starting w)) as [rr|] eqn:Eg; intros H; destruct (IH _ _ _ _ H) as (A & B & C & D & Pb & (f & Fs) & Ir & Al).
      * unfold sids, rids in *. cbn in *. rewrite del_run_ids in Fs. rewrite filter_filter in Fs.
        repeat split; auto; [eexists; exact Fs|intros y Hy; apply Ir; rewrite map_app; apply in_or_app; left; exact Hy|].
        intros y [<-|Hy]; [apply Ir; rewrite map_app; apply in_or_app; right; left; apply (get_run_ru _ _ _ Eg)|apply Al; exact Hy].
      * unfold sids, rids in *. cbn in *.
        repeat split; auto; [eexists; exact Fs|intros y Hy; apply Ir; rewrite map_app; apply in_or_app; left; exact Hy|].
        intros y [<-|Hy]; [apply Ir; rewrite map_app; apply in_or_app; right; left; reflexivity|apply Al; exact Hy].
Qed.

Lemma close_dead_view dead : forall w ex clock w' ex' clock',
  close_dead dead w ex clock = (w', ex', clock') ->
  w_id w' = w_id w /\ sids w' = sids w /\ unk w' = unk w /\ clock <= clock' /\
  (forall y, In y (rids w) -> ~ In y dead -> In y (rids w')) /\
  (w_updated w' = w_updated w \/ clock < w_updated w') /\ (w_updated w <= clock -> w_updated w' <= clock').
Proof.
  induction dead as [|u r IH]; intros w ex clock w' ex' clock'; cbn [close_dead].
  - intros H; injection H as <- <- <-. repeat split; auto; lia.
  - destruct (close_runner u w ex clock) as [[w1 ex1] c1] eqn:Ec. intros H.
    destruct (close_runner_view _ _ _ _ _ _ _ Ec) as (A & B & C & D & L & St & U).
    destruct (IH _ _ _ _ _ _ H) as (A' & B' & D' & L' & K' & St' & U').
    split; [congruence|]. split; [congruence|]. split; [congruence|]. split; [lia|]. split; [|split].
    + intros y Hy Hn. apply K'; [|intros Hin; apply Hn; right; exact Hin]. rewrite C. apply filter_In. split; [exact Hy|].
      destruct (N.eqb y u) eqn:E; [apply N.eqb_eq in E; subst; exfalso; apply Hn; left; reflexivity|reflexivity].
    + destruct St' as [St'|St']; [|right; lia]. destruct St as [St|St]; [left; congruence|right; lia].
    + intros Hu. apply U'. specialize (U Hu). lia.
Qed.

Lemma update_running_view uuids w ex clock w' ex' clock' ch :
  update_running uuids w ex clock = (w', ex', clock', ch) ->
  w_id w' = w_id w /\ (exists f, sids w' = filter f (sids w)) /\ unk w' = unk w /\ clock <= clock' /\
  (forall u, In u uuids -> In u (rids w')) /\
  (w_updated w' = w_updated w \/ clock < w_updated w') /\ (w_updated w <= clock -> w_updated w' <= clock').
Proof.
  unfold update_running. destruct (add_alive uuids w false) as [w1 ch1] eqn:Ea.
  destruct (close_dead (filter (fun u => negb (memN u uuids)) (map ru (w_running w1))) w1 ex clock) as [[w2 ex2] c2] eqn:Ec.
  intros H; injection H as <- <- <- <-.
  destruct (add_alive_view _ _ _ _ _ Ea) as (A & B & C & D & Pb & (f & Fs) & Ir & Al).
  destruct (close_dead_view _ _ _ _ _ _ _ Ec) as (A' & B' & D' & L' & K' & St' & U').
  split; [congruence|]. split; [exists f; congruence|]. split; [unfold unk in *; congruence|]. split; [exact L'|].
  split; [|split].
  - intros u Hu. apply K'; [apply Al; exact Hu|]. intros Hin. apply filter_In in Hin. destruct Hin as [_ Hin].
    apply negb_true_iff in Hin. assert (memN u uuids = true) by (apply memN_In; exact Hu). congruence.
  - rewrite <- D. exact St'.
  - rewrite <- D. exact U'.
Qed.

(* ---------------- a probe is applied ---------------- *)
Lemma shutdown_if_broken_view c dur w clock w' clock' :
  shutdown_if_broken c dur w clock = (w', clock') ->
  w_id w' = w_id w /\ sids w' = sids w /\ rids w' = rids w /\ clock <= clock' /\
  (unk w' = unk w \/ w_st w' = WShutdown) /\
  (w_updated w' = w_updated w \/ clock < w_updated w') /\ (w_updated w <= clock -> w_updated w' <= clock').
Proof.
  unfold shutdown_if_broken. destruct (w_ib w); try (intros H; injection H as <- <-; repeat split; auto; lia).
  - destruct (dur <? _); intros H; injection H as <- <-; unfold sids, rids, unk; cbn; repeat split; auto; try lia.
  - destruct (dur <? _); intros H; injection H as <- <-; unfold sids, rids, unk; cbn; repeat split; auto; try lia.
Qed.

Lemma probe_end_view c pb r p w :
  find_w (pb_id pb) (p_workers p) = Some w -> w_updated w <= p_clock p -> pb_updated pb <= p_clock p ->
  exists w' ex' clock',
    probe_end c pb r p = mkp (put_w w' (p_workers p)) ex' clock' (p_quota p) (p_loaded p) /\
    w_id w' = w_id w /\ p_clock p <= clock' /\
    (exists f, sids w' = filter f (sids w)) /\
    (w_updated w' = w_updated w \/ p_clock p < w_updated w') /\ w_updated w' <= clock' /\
    ((sids w' = sids w /\ rids w' = rids w /\ (unk w' = unk w \/ (unk w = true /\ w_st w' = WShutdown))) \/
     (w_updated w = pb_updated pb /\ forall y, In y (pr_uuids r) -> In y (rids w'))).
Proof.
  intros Hf Hst Hpb. unfold probe_end. rewrite Hf.
  set (booted := probe_booted pb r). set (listed := probe_lists pb r). set (ok := listed && pr_list_ok r).
  set (uuids := if ok then pr_uuids r else []).
  (* the stale-run-lock bookkeeping changes only w_stale and the clock *)
  assert (H0 : exists w0 clock0 bs,
     (if ok then
        if negb (pr_stale r) then (with_stale w 0, p_clock p, false)
        else if w_stale w =? 0 then (with_stale w (p_clock p + 1), p_clock p + 1, false)
        else (w, p_clock p + 1, t_stale c <? p_clock p + 1 - w_stale w)
      else (w, p_clock p, false)) = (w0, clock0, bs) /\
     w_id w0 = w_id w /\ sids w0 = sids w /\ rids w0 = rids w /\ unk w0 = unk w /\ w_st w0 = w_st w /\ w_updated w0 = w_updated w /\
     p_clock p <= clock0).
  { destruct ok; [destruct (negb (pr_stale r)); [|destruct (w_stale w =? 0)]|];
      eexists _, _, _; (split; [reflexivity|]); unfold sids, rids, unk; cbn; repeat split; auto; lia. }
  destruct H0 as (w0 & clock0 & bs & -> & I0 & S0 & R0 & U0 & T0 & D0 & L0).
  set (broken := ok && (pr_broken r || bs)).
  assert (H1 : exists w1 clock1,
     (if broken && ibeh_eqb (w_ib w0) IRun then set_idle_behavior c w0 IDrain clock0 else (w0, clock0)) = (w1, clock1) /\
     w_id w1 = w_id w /\ sids w1 = sids w /\ rids w1 = rids w /\ unk w1 = unk w /\
     (w_updated w1 = w_updated w \/ clock0 < w_updated w1) /\ w_updated w1 <= clock1 /\ clock0 <= clock1).
  { destruct (broken && ibeh_eqb (w_ib w0) IRun).
    - destruct (set_idle_behavior c w0 IDrain clock0) as [w1 clock1] eqn:E1. exists w1, clock1. split; [reflexivity|].
      destruct (set_idle_behavior_frame _ _ _ _ _ _ E1) as ((A & B & C & D & E) & L & U).
      split; [congruence|]. split; [congruence|]. split; [congruence|]. split; [congruence|]. split; [rewrite <- D0; exact E|].
      split; [apply U; lia|exact L].
    - exists w0, clock0. split; [reflexivity|]. repeat split; auto; lia. }
  destruct H1 as (w1 & clock1 & -> & I1 & S1 & R1 & U1 & D1 & B1 & L1).
  destruct (negb ok || (negb booted && match uuids with [] => true | _ => false end && match w_running w1 with [] => true | _ => false end)) eqn:Hbr.
  - (* the probe failed: boot/probe timeout handling only *)
    destruct (wstate_eqb (w_st w1) WShutdown && (pb_updated pb <? w_updated w1)).
    + exists w1, (p_exited p), clock1. split; [reflexivity|]. split; [exact I1|]. split; [lia|].
      split; [exists (fun _ => true); rewrite S1; clear; induction (sids w) as [|x t IH]; cbn [filter]; [reflexivity|rewrite <- IH; reflexivity]|].
      split; [destruct D1 as [D1|D1]; [left; exact D1|right; lia]|]. split; [exact B1|].
      left. split; [exact S1|]. split; [exact R1|]. left; exact U1.
    + destruct (shutdown_if_broken c (pb_start pb - w_probed w1) w1 clock1) as [w2 clock2] eqn:E2.
      destruct (shutdown_if_broken_view _ _ _ _ _ _ E2) as (A & B & C & L & Uk & St & U).
      exists w2, (p_exited p), clock2. split; [reflexivity|]. split; [congruence|]. split; [lia|].
      split; [exists (fun _ => true); rewrite B, S1; clear; induction (sids w) as [|x t IH]; cbn [filter]; [reflexivity|rewrite <- IH; reflexivity]|].
      split; [destruct St as [St|St]; [destruct D1 as [D1|D1]; [left; congruence|right; lia]|right; lia]|]. split; [apply U; exact B1|].
      left. split; [congruence|]. split; [congruence|].
      destruct Uk as [Uk|Uk]; [left; congruence|]. destruct (unk w) eqn:Euw; [right; split; [reflexivity|exact Uk]|left].
      rewrite <- U1 in Euw. unfold unk in *. rewrite Uk. reflexivity.
  - (* the probe succeeded *)
    set (update_time := clock1 + 1).
    destruct (negb (pb_updated pb =? w_updated (with_probed w1 update_time))) eqn:Estale.
    + (* stale: only `probed` changes *)
      exists (with_probed w1 update_time), (p_exited p), update_time. split; [reflexivity|]. split; [exact I1|]. split; [unfold update_time; lia|].
      split; [exists (fun _ => true); unfold sids in *; cbn; rewrite S1; clear; induction (map ru (w_starting w)) as [|x t IH]; cbn [filter]; [reflexivity|rewrite <- IH; reflexivity]|].
      split; [cbn; destruct D1 as [D1|D1]; [left; exact D1|right; lia]|]. split; [cbn; unfold update_time; lia|].
      left. unfold sids, rids, unk in *. cbn. split; [exact S1|]. split; [exact R1|]. left; exact U1.
    + apply negb_false_iff in Estale. apply Z.eqb_eq in Estale. cbn [w_updated with_probed] in Estale.
      assert (Hfresh : w_updated w = pb_updated pb).
      { destruct D1 as [D1|D1]; [congruence|]. exfalso. lia. }
      assert (Hok : ok = true).
      { destruct ok; [reflexivity|]. cbn in Hbr. discriminate. }
      assert (Hu : uuids = pr_uuids r) by (unfold uuids; rewrite Hok; reflexivity).
      set (w2 := with_probed w1 update_time).
      set (w3 := match uuids with
                 | u :: _ => with_last (with_busy w2 update_time) u
                 | [] => match w_running w2 with [] => w2 | _ => with_busy w2 update_time end
                 end).
      assert (V3 : w_id w3 = w_id w /\ sids w3 = sids w /\ rids w3 = rids w /\ unk w3 = unk w /\ w_updated w3 = w_updated w1).
      { unfold w3, w2. destruct uuids; [destruct (w_running (with_probed w1 update_time))|];
          unfold sids, rids, unk in *; cbn; repeat split; auto. }
      destruct V3 as (I3 & S3 & R3 & U3 & D3).
      destruct (update_running uuids w3 (p_exited p) update_time) as [[[w4 ex4] clock4] changed0] eqn:Eu.
      destruct (update_running_view _ _ _ _ _ _ _ _ Eu) as (I4 & (f & S4) & U4 & L4 & Al4 & St4 & Ub4).
      set (first_boot := booted && (wstate_eqb (w_st w4) WUnknown || wstate_eqb (w_st w4) WBooting)).
      set (w5 := if first_boot then with_st w4 WIdle else w4).
      assert (V5 : w_id w5 = w_id w4 /\ sids w5 = sids w4 /\ rids w5 = rids w4 /\ w_updated w5 = w_updated w4).
      { unfold w5. destruct first_boot; unfold sids, rids; cbn; auto. }
      destruct V5 as (I5 & S5 & R5 & D5).
      assert (Hw3u : w_updated w3 <= update_time) by (unfold update_time; lia).
      destruct (negb (changed0 || first_boot)).
      * exists w5, ex4, clock4. split; [reflexivity|]. split; [congruence|]. split; [unfold update_time in *; lia|].
        split; [exists f; congruence|].
        split; [rewrite D5; destruct St4 as [St4|St4]; [destruct D1 as [D1|D1]; [left; congruence|right; lia]|right; unfold update_time in *; lia]|].
        split; [rewrite D5; apply Ub4; exact Hw3u|].
        right. split; [exact Hfresh|]. intros y Hy. rewrite R5. apply Al4. rewrite Hu. exact Hy.
      * set (w6 := if wstate_eqb (w_st w5) WIdle && negb (Nat.eqb (nrun w5) 0) then with_st w5 WRunning
                   else if wstate_eqb (w_st w5) WRunning && Nat.eqb (nrun w5) 0 then with_st w5 WIdle else w5).
        assert (V6 : w_id w6 = w_id w5 /\ sids w6 = sids w5 /\ rids w6 = rids w5).
        { unfold w6. destruct (wstate_eqb (w_st w5) WIdle && negb (Nat.eqb (nrun w5) 0)); [unfold sids, rids; cbn; auto|].
          destruct (wstate_eqb (w_st w5) WRunning && Nat.eqb (nrun w5) 0); unfold sids, rids; cbn; auto. }
        destruct V6 as (I6 & S6 & R6).
        exists (with_updated w6 update_time), ex4, clock4. split; [reflexivity|].
        unfold sids, rids in *. cbn. split; [congruence|]. split; [unfold update_time in *; lia|].
        split; [exists f; congruence|]. split; [right; unfold update_time; lia|]. split; [lia|].
        right. split; [exact Hfresh|]. intros y Hy. rewrite R6, R5. apply Al4. rewrite Hu. exact Hy.
Qed.

Lemma filter_true_id {A} (l : list A) : filter (fun _ => true) l = l.
Proof. induction l as [|x r IH]; cbn [filter]; [reflexivity|rewrite IH; reflexivity]. Qed.

Lemma step_probeend c id s s' : Inv s -> step c (LProbeEnd id) s = Some s' -> Inv s'.
Proof.
  intros [Hn HP] H. cbn [step] in H.
  destruct (filter (fun x => N.eqb (pb_id (fst x)) id) (s_probes s)) as [|[pb r] rest0] eqn:Efl; [discriminate|].
  assert (Hin : In (pb, r) (s_probes s) /\ pb_id pb = id).
  { assert (In (pb, r) (filter (fun x => N.eqb (pb_id (fst x)) id) (s_probes s))) by (rewrite Efl; left; reflexivity).
    apply filter_In in H0. destruct H0 as [H0 H1]. apply N.eqb_eq in H1. auto. }
  destruct Hin as [Hin Hpid].
  set (p := spool s) in *. set (p' := probe_end c pb r p) in *.
  set (rest := filter (fun x => negb (N.eqb (pb_id (fst x)) id)) (s_probes s)) in *.
  match type of H with (if ?b then _ else _) = _ => destruct b eqn:Ebad end; [discriminate|].
  injection H as <-. unfold Inv. cbn [s_vms s_probes s_env]. split; [exact Hn|].
  destruct s as [[p0 n cr] vms probes]. cbn [spool s_env s_vms s_probes pe_pool pe_next pe_create] in *. subst p.
  (* the remaining probes are a subset *)
  assert (HPr : PInv vms rest (mkpe p0 n cr)).
  { destruct HP as [A B C D E F G]. constructor; try assumption. intros pb' r' Hin'. apply F.
    unfold rest in Hin'. apply filter_In in Hin'. tauto. }
  destruct (find_w (pb_id pb) (p_workers p0)) as [w|] eqn:Ef.
  2:{ (* the worker is gone: the probe has no effect *)
      unfold p', probe_end. rewrite Ef. destruct p0; exact HPr. }
  destruct (pi_probe _ _ _ HP pb r Hin) as [F1 F2]. cbn [pe_pool] in F1, F2.
  pose proof (pi_stamps _ _ _ HP w (find_w_in _ _ _ Ef)) as Hst. cbn [pe_pool] in Hst.
  destruct (probe_end_view c pb r p0 w Ef Hst F1) as (w' & ex' & clock' & Hpe & A & L & (f & Fs) & St & Ub & Hcase).
  unfold p' in *. rewrite Hpe in *.
  pose proof (find_w_id _ _ _ Ef) as Hid. rewrite <- Hid in Ef.
  apply (PInv_put _ _ p0 n cr w w' ex' clock' f HPr Ef A Fs); auto.
  intros v Hv Hvid. pose proof (pi_cov _ _ _ HP v Hv) as Dv. cbn [pe_pool] in Dv. rewrite Hvid, Ef in Dv.
  destruct Hcase as [(S1 & R1 & Uk)|(Hfresh & Hall)].
  - rewrite S1, R1. destruct Uk as [Uk|[Uk Hsh]]; [destruct Dv as [Dv|Dv]; [left; congruence|right; exact Dv]|].
    (* an Unknown worker was given up: guard A3 *)
    right. rewrite Hpid in *. rewrite Hid in Ef.
    cbn [p_workers] in Ebad. rewrite Ef in Ebad.
    rewrite <- Hid, <- A in Ebad. rewrite (find_put_eq (w_id w') _ w w') in Ebad; [|rewrite A, Hid; exact Ef|reflexivity].
    assert (Hfv : find_vm id vms = Some v).
    { rewrite <- Hid, <- Hvid. apply in_find_vm; assumption. }
    rewrite A, Hid, Hfv in Ebad. unfold unk in Uk. rewrite Uk in Ebad. rewrite Hsh in Ebad. cbn [wstate_eqb andb] in Ebad.
    apply negb_false_iff in Ebad. rewrite forallb_forall in Ebad. intros y Hy. specialize (Ebad y Hy).
    apply memN_In in Ebad. unfold wbook in Ebad. fold (sids w') in Ebad. fold (rids w') in Ebad. rewrite S1, R1 in Ebad. exact Ebad.
  - right. assert (Hfv : find_vm (pb_id pb) vms = Some v).
    { rewrite Hid in Hvid. rewrite <- Hvid. apply in_find_vm; assumption. }
    rewrite Hid in Ef. intros y Hy. apply in_or_app. right. apply Hall. apply (F2 w v Ef Hfv Hfresh). exact Hy.
Qed.

(* ---------------- Pool.sync ---------------- *)
Definition isnew (c0 : Z) (w : wkr) : Prop := sids w = [] /\ rids w = [] /\ unk w = true /\ c0 < w_updated w.
(* ws1 consists of reframed versions of the workers of ws0 followed by newly appeared (Unknown) workers *)
Definition SR (c0 : Z) (ws0 ws1 : list wkr) : Prop :=
  exists olds news, ws1 = olds ++ news /\ Forall2 (wframe c0) ws0 olds /\ Forall (isnew c0) news.

Lemma put_w_app w' a b :
  put_w w' (a ++ b) = match find_w (w_id w') a with Some _ => put_w w' a ++ b | None => a ++ put_w w' b end.
Proof.
  induction a as [|x r IH]; cbn [app put_w find_w]; [reflexivity|].
  destruct (N.eqb (w_id x) (w_id w')) eqn:E; [reflexivity|]. rewrite IH.
  destruct (find_w (w_id w') r); reflexivity.
Qed.

Lemma Forall2_frame_put c0 ws0 olds w w' :
  Forall2 (wframe c0) ws0 olds -> find_w (w_id w') olds = Some w -> wframe c0 w w' ->
  Forall2 (wframe c0) ws0 (put_w w' olds).
Proof.
  intros F. revert w. induction F as [|x y r r' Hxy Hr IH]; intros w Hf Hw; cbn [put_w find_w] in *; [constructor|].
  destruct (N.eqb (w_id y) (w_id w')) eqn:E.
  - injection Hf as ->. constructor; [eapply wframe_trans; eauto|exact Hr].
  - constructor; [exact Hxy|eapply IH; eauto].
Qed.
Lemma Forall_new_put c0 news w w' :
  Forall (isnew c0) news -> find_w (w_id w') news = Some w -> wframe c0 w w' -> Forall (isnew c0) (put_w w' news).
Proof.
  induction 1 as [|y r Hy Hr IH]; intros Hf Hw; cbn [put_w find_w] in *; [constructor|].
  destruct (N.eqb (w_id y) (w_id w')) eqn:E.
  - injection Hf as ->. constructor; [|exact Hr]. destruct Hy as (A & B & C & D). destruct Hw as (_ & A' & B' & C' & D').
    unfold isnew. split; [congruence|]. split; [congruence|]. split; [congruence|]. destruct D' as [D'|D']; lia.
  - constructor; [exact Hy|apply IH; assumption].
Qed.

Lemma SR_put c0 ws0 ws w w' :
  SR c0 ws0 ws -> find_w (w_id w') ws = Some w -> wframe c0 w w' -> SR c0 ws0 (put_w w' ws).
Proof.
  intros (olds & news & -> & Fo & Fn) Hf Hw. rewrite put_w_app. rewrite find_app in Hf.
  destruct (find_w (w_id w') olds) as [x|] eqn:Eo.
  - injection Hf as ->. exists (put_w w' olds), news. split; [reflexivity|]. split; [eapply Forall2_frame_put; eauto|exact Fn].
  - exists olds, (put_w w' news). split; [reflexivity|]. split; [exact Fo|eapply Forall_new_put; eauto].
Qed.
Lemma SR_add c0 ws0 ws w : SR c0 ws0 ws -> isnew c0 w -> SR c0 ws0 (ws ++ [w]).
Proof.
  intros (olds & news & -> & Fo & Fn) Hw. exists olds, (news ++ [w]). split; [rewrite app_assoc; reflexivity|].
  split; [exact Fo|]. apply Forall_app. split; [exact Fn|constructor; [exact Hw|constructor]].
Qed.

Definition fst3 (x : N * N * ibeh) : N := fst (fst x).

Lemma sync_listed_SR c c0 ws0 listed : forall ws clock ws1 clock1,
  c0 <= clock -> SR c0 ws0 ws -> (forall w, In w ws -> w_updated w <= clock) ->
  sync_listed c listed ws clock = (ws1, clock1) ->
  SR c0 ws0 ws1 /\ clock <= clock1 /\ (forall w, In w ws1 -> w_updated w <= clock1) /\
  (forall id, In id (map fst3 listed) -> exists w, find_w id ws1 = Some w /\ c0 < w_updated w) /\
  (forall id w0, find_w id ws = Some w0 -> c0 < w_updated w0 -> exists w, find_w id ws1 = Some w /\ c0 < w_updated w) /\
  (forall id, find_w id ws1 <> None -> find_w id ws <> None \/ In id (map fst3 listed)).
Proof.
  induction listed as [|[[id it] ib] r IH]; intros ws clock ws1 clock1 Hc HS Hst; cbn [sync_listed].
  - intros H; injection H as <- <-. split; [exact HS|]. split; [lia|]. split; [exact Hst|].
    split; [intros x []|]. split; [intros x w0 Hf Hu; eauto|intros x Hx; left; exact Hx].
  - destruct (find_w id ws) as [w|] eqn:Ef.
    + pose proof (find_w_id _ _ _ Ef) as Hid.
      set (w1 := with_updated w (clock + 1)).
      assert (F1 : wframe c0 w w1) by (unfold wframe, w1, sids, rids, unk; cbn; intuition lia).
      destruct (wstate_eqb (w_st w1) WShutdown && (t_shutdown c <? clock + 1 + 1 - w_destroyed w1)) eqn:Eret; intros H.
      * set (w2 := w_shutdown (clock + 1 + 1) w1) in *.
        assert (F2 : wframe c0 w w2).
        { apply andb_true_iff in Eret. destruct Eret as [Es _]. unfold wframe, w2, w1, sids, rids, unk in *; cbn in *.
          destruct (w_st w); cbn in *; try discriminate. intuition lia. }
        assert (Hid2 : w_id w2 = id) by (unfold w2, w1; cbn; exact Hid).
        assert (HS' : SR c0 ws0 (put_w w2 ws)) by (apply (SR_put c0 ws0 ws w w2 HS); [rewrite Hid2; exact Ef|exact F2]).
        assert (Hst' : forall x, In x (put_w w2 ws) -> w_updated x <= clock + 1 + 1).
        { intros x Hx. apply in_put in Hx. destruct Hx as [->|Hx]; [unfold w2; cbn; lia|specialize (Hst x Hx); lia]. }
        assert (Hc2 : c0 <= clock + 1 + 1) by lia.
        destruct (IH _ _ _ _ Hc2 HS' Hst' H) as (R1 & R2 & R3 & R4 & R5 & R6).
        split; [exact R1|]. split; [lia|]. split; [exact R3|]. split; [|split].
        -- intros x [<-|Hx]; [|apply R4; exact Hx]. cbn [fst3 fst].
           apply (R5 id w2); [rewrite <- Hid2; apply (find_put_eq (w_id w2) ws w w2); [rewrite Hid2; exact Ef|reflexivity]|unfold w2; cbn; lia].
        -- intros x w0 Hf0 Hu0. destruct (N.eq_dec x id) as [->|Hne].
           ++ apply (R5 id w2); [rewrite <- Hid2; apply (find_put_eq (w_id w2) ws w w2); [rewrite Hid2; exact Ef|reflexivity]|unfold w2; cbn; lia].
           ++ apply (R5 x w0); [rewrite find_put_neq; [exact Hf0|rewrite Hid2; exact Hne]|exact Hu0].
        -- intros x Hx. destruct (R6 x Hx) as [Hy|Hy]; [|right; right; exact Hy].
           destruct (N.eq_dec x id) as [->|Hne]; [left; rewrite Ef; discriminate|]. left. rewrite find_put_neq in Hy; [exact Hy|rewrite Hid2; exact Hne].
      * assert (Hid1 : w_id w1 = id) by (unfold w1; cbn; exact Hid).
        assert (HS' : SR c0 ws0 (put_w w1 ws)) by (apply (SR_put c0 ws0 ws w w1 HS); [rewrite Hid1; exact Ef|exact F1]).
        assert (Hst' : forall x, In x (put_w w1 ws) -> w_updated x <= clock + 1).
        { intros x Hx. apply in_put in Hx. destruct Hx as [->|Hx]; [unfold w1; cbn; lia|specialize (Hst x Hx); lia]. }
        assert (Hc2 : c0 <= clock + 1) by lia.
        destruct (IH _ _ _ _ Hc2 HS' Hst' H) as (R1 & R2 & R3 & R4 & R5 & R6).
        split; [exact R1|]. split; [lia|]. split; [exact R3|]. split; [|split].
        -- intros x [<-|Hx]; [|apply R4; exact Hx]. cbn [fst3 fst].
           apply (R5 id w1); [rewrite <- Hid1; apply (find_put_eq (w_id w1) ws w w1); [rewrite Hid1; exact Ef|reflexivity]|unfold w1; cbn; lia].
        -- intros x w0 Hf0 Hu0. destruct (N.eq_dec x id) as [->|Hne].
           ++ apply (R5 id w1); [rewrite <- Hid1; apply (find_put_eq (w_id w1) ws w w1); [rewrite Hid1; exact Ef|reflexivity]|unfold w1; cbn; lia].
           ++ apply (R5 x w0); [rewrite find_put_neq; [exact Hf0|rewrite Hid1; exact Hne]|exact Hu0].
        -- intros x Hx. destruct (R6 x Hx) as [Hy|Hy]; [|right; right; exact Hy].
           destruct (N.eq_dec x id) as [->|Hne]; [left; rewrite Ef; discriminate|]. left. rewrite find_put_neq in Hy; [exact Hy|rewrite Hid1; exact Hne].
    + intros H. set (wn := new_worker id it WUnknown ib (clock + 1)) in *.
      assert (Hn : isnew c0 wn) by (unfold isnew, wn, sids, rids, unk; cbn; intuition lia).
      assert (HS' : SR c0 ws0 (ws ++ [wn])) by (apply SR_add; assumption).
      assert (Hst' : forall x, In x (ws ++ [wn]) -> w_updated x <= clock + 1).
      { intros x Hx. apply in_app_or in Hx. destruct Hx as [Hx|[<-|[]]]; [specialize (Hst x Hx); lia|unfold wn; cbn; lia]. }
      assert (Hc2 : c0 <= clock + 1) by lia.
      destruct (IH _ _ _ _ Hc2 HS' Hst' H) as (R1 & R2 & R3 & R4 & R5 & R6).
      assert (Hfn : find_w id (ws ++ [wn]) = Some wn).
      { rewrite find_app, Ef. cbn [find_w]. unfold wn at 1. cbn [w_id new_worker]. rewrite N.eqb_refl. reflexivity. }
      split; [exact R1|]. split; [lia|]. split; [exact R3|]. split; [|split].
      * intros x [<-|Hx]; [|apply R4; exact Hx]. cbn [fst3 fst]. apply (R5 id wn Hfn). unfold wn; cbn; lia.
      * intros x w0 Hf0 Hu0. apply (R5 x w0); [rewrite find_app, Hf0; reflexivity|exact Hu0].
      * intros x Hx. destruct (R6 x Hx) as [Hy|Hy]; [|right; right; exact Hy].
        rewrite find_app in Hy. destruct (find_w x ws) eqn:Ex; [left; discriminate|].
        cbn [find_w] in Hy. destruct (N.eqb (w_id wn) x) eqn:E; [|contradiction].
        apply N.eqb_eq in E. right. left. cbn [fst3 fst]. unfold wn in E. cbn in E. exact E.
Qed.

Lemma sync_listed_nodup c listed : forall ws clock ws1 clock1,
  NoDup (map w_id ws) -> sync_listed c listed ws clock = (ws1, clock1) -> NoDup (map w_id ws1).
Proof.
  induction listed as [|[[id it] ib] r IH]; intros ws clock ws1 clock1 Hn; cbn [sync_listed].
  - intros H; injection H as <- <-. exact Hn.
  - destruct (find_w id ws) as [w|] eqn:Ef.
    + destruct (wstate_eqb _ _ && _); intros H; eapply IH; try exact H; rewrite put_w_ids; exact Hn.
    + intros H. eapply IH; [|exact H]. rewrite map_app. cbn [map new_worker w_id].
      apply NoDup_app_iff. split; [exact Hn|]. split; [repeat constructor; intros []|].
      intros x Hx [<-|[]]. apply find_w_none in Ef. contradiction.
Qed.

Lemma find_filter_keep (keep : wkr -> bool) id ws w :
  find_w id ws = Some w -> keep w = true -> find_w id (filter keep ws) = Some w.
Proof.
  induction ws as [|x r IH]; cbn [find_w filter]; [discriminate|].
  destruct (N.eqb (w_id x) id) eqn:E.
  - intros H Hk; injection H as ->. rewrite Hk. cbn [find_w]. rewrite E. reflexivity.
  - intros H Hk. destruct (keep x); cbn [find_w]; [rewrite E|]; apply IH; assumption.
Qed.

Lemma map_fst_combine {A B} (l : list A) (l' : list B) : (List.length l <= List.length l')%nat -> map fst (combine l l') = l.
Proof.
  revert l'. induction l as [|x r IH]; intros l' H; [reflexivity|]. destruct l' as [|y r']; cbn in H; [lia|].
  cbn [combine map fst]. rewrite IH; [reflexivity|lia].
Qed.

Lemma step_poolsync c tags s s' : Inv s -> step c (LPoolSync tags) s = Some s' -> Inv s'.
Proof.
  intros [Hn HP] H. cbn [step] in H. injection H as <-. unfold Inv. cbn [s_vms s_probes s_env]. split; [exact Hn|].
  destruct s as [[p n cr] vms probes]. cbn [spool s_env s_vms s_probes pe_pool pe_next pe_create] in *.
  set (listed := map (fun vt => (v_id (fst vt), v_it (fst vt), snd vt)) (combine vms (tags ++ repeat IRun (List.length vms)))).
  assert (Hlisted : map fst3 listed = map v_id vms).
  { unfold listed. rewrite map_map. cbn [fst3 fst]. rewrite <- (map_map fst v_id). rewrite map_fst_combine; [reflexivity|].
    rewrite app_length, repeat_length. lia. }
  unfold pool_sync. cbn [tick p_workers p_clock p_exited p_quota p_loaded].
  destruct (sync_listed c listed (p_workers p) (p_clock p + 1)) as [ws1 clock1] eqn:Es.
  destruct HP as [A B C D E F G]. cbn [pe_pool pe_next] in *.
  set (c0 := p_clock p + 1) in *.
  assert (HS0 : SR c0 (p_workers p) (p_workers p)).
  { exists (p_workers p), []. split; [rewrite app_nil_r; reflexivity|]. split; [apply Forall2_refl_frame|constructor]. }
  assert (Hst0 : forall w, In w (p_workers p) -> w_updated w <= c0) by (intros w Hw; specialize (G w Hw); unfold c0; lia).
  destruct (sync_listed_SR c c0 (p_workers p) listed _ _ _ _ (Z.le_refl _) HS0 Hst0 Es) as ((olds & news & Hws & Fo & Fn) & L & St & R4 & R5 & R6).
  pose proof (sync_listed_nodup _ _ _ _ _ _ A Es) as Hnd.
  set (keep := fun w => c0 <? w_updated w).
  unfold set_pool. cbn [s_env s_vms s_probes pe_pool pe_next pe_create].
  constructor; cbn [pe_pool pe_next p_workers p_clock].
  - apply NoDup_map_filter. exact Hnd.
  - intros w Hw. apply filter_In in Hw. destruct Hw as [Hw _].
    destruct (in_find _ _ Hw) as (w' & Hf).
    destruct (R6 (w_id w) ltac:(rewrite Hf; discriminate)) as [Ho|Hl].
    + destruct (find_w (w_id w) (p_workers p)) as [w0|] eqn:E0; [|contradiction].
      rewrite <- (find_w_id _ _ _ E0). apply B. eapply find_w_in; eauto.
    + rewrite Hlisted in Hl. apply in_map_iff in Hl. destruct Hl as (v & <- & Hv). apply C. exact Hv.
  - exact C.
  - intros v Hv. assert (Hl : In (v_id v) (map fst3 listed)) by (rewrite Hlisted; apply in_map; exact Hv).
    destruct (R4 _ Hl) as (w & Hf & Hu).
    rewrite (find_filter_keep keep _ _ _ Hf) by (unfold keep; apply Z.ltb_lt; exact Hu).
    rewrite Hws, find_app in Hf. pose proof (frame_find _ _ _ (v_id v) Fo) as Hff.
    destruct (find_w (v_id v) olds) as [wo|] eqn:Eo.
    + injection Hf as ->. specialize (D v Hv). destruct (find_w (v_id v) (p_workers p)) as [w0|]; [|contradiction].
      destruct Hff as (_ & Hs & Hr & Huk & _). rewrite Hs, Hr, Huk. exact D.
    + left. apply find_w_in in Hf. rewrite Forall_forall in Fn. exact (proj1 (proj2 (proj2 (Fn w Hf)))).
  - unfold starting_all in *. cbn [p_workers]. rewrite Hws, filter_app, flat_map_app.
    assert (Hnews : flat_map sids (filter keep news) = []).
    { clear -Fn. induction news as [|x r IH]; cbn [filter flat_map]; [reflexivity|].
      apply Forall_cons_iff in Fn. destruct Fn as [(Hx & _) Fr]. destruct (keep x); cbn [flat_map]; [rewrite Hx|]; apply IH; exact Fr. }
    rewrite Hnews, app_nil_r. rewrite <- (frame_starting _ _ _ Fo) in E.
    apply NoDup_app_iff in E. destruct E as (E1 & E2 & E3). apply NoDup_app_iff. split; [exact E1|]. split.
    + pose proof (NoDup_flat_filter sids keep olds [] ltac:(rewrite app_nil_r; exact E2)) as X. rewrite app_nil_r in X. exact X.
    + intros x Hx Hin. apply (E3 x Hx). apply in_flat_map in Hin. destruct Hin as (w & Hw & Hxw). apply in_flat_map.
      exists w. apply filter_In in Hw. tauto.
  - intros pb r Hp. destruct (F pb r Hp) as [F1 F2]. split; [lia|]. intros w v Hw Hv Hstamp. exfalso.
    apply find_w_in in Hw. apply filter_In in Hw. destruct Hw as [_ Hk]. unfold keep in Hk. apply Z.ltb_lt in Hk. unfold c0 in *. lia.
  - intros w Hw. apply filter_In in Hw. destruct Hw as [Hw _]. apply St. exact Hw.
Qed.

(* ---------------- a scheduling pass ---------------- *)
Lemma kill_in_false u ws ws' : kill_in u ws = (false, ws') ->
  ws' = ws /\ forall w, In w ws -> ~ In u (sids w) /\ ~ In u (rids w).
Proof.
  revert ws'. induction ws as [|w r IH]; intros ws'; cbn [kill_in].
  - intros H; injection H as <-. split; [reflexivity|intros w []].
  - destruct (has_run u (w_running w)) eqn:E1; [discriminate|].
    destruct (has_run u (w_starting w)) eqn:E2; [discriminate|].
    destruct (kill_in u r) as [b r'] eqn:Ek. intros H; injection H as -> <-.
    destruct (IH _ eq_refl) as [-> Hall]. split; [reflexivity|].
    intros x [<-|Hx]; [|apply Hall; exact Hx]. split; intros Hin; apply has_run_in in Hin; congruence.
Qed.

Lemma pick_latest_in it ws : forall best w,
  pick_latest it ws best = Some w -> (In w ws /\ start_candidate it w = true) \/ best = Some w.
Proof.
  induction ws as [|x r IH]; intros best w; cbn [pick_latest]; [intros ->; right; reflexivity|].
  destruct (start_candidate it x) eqn:Ec.
  - destruct best as [b|].
    + destruct (w_busy b <? w_busy x); intros H; destruct (IH _ _ H) as [[Hi Hc]|Hb].
      * left; split; [right; exact Hi|exact Hc].
      * injection Hb as <-. left; split; [left; reflexivity|exact Ec].
      * left; split; [right; exact Hi|exact Hc].
      * right; exact Hb.
    + intros H; destruct (IH _ _ H) as [[Hi Hc]|Hb]; [left; split; [right; exact Hi|exact Hc]|].
      injection Hb as <-. left; split; [left; reflexivity|exact Ec].
  - intros H; destruct (IH _ _ H) as [[Hi Hc]|Hb]; [left; split; [right; exact Hi|exact Hc]|right; exact Hb].
Qed.

Lemma in_find_w ws w : NoDup (map w_id ws) -> In w ws -> find_w (w_id w) ws = Some w.
Proof.
  induction ws as [|x r IH]; intros Hn Hin; [destruct Hin|]. cbn [find_w map] in *.
  apply NoDup_cons_iff in Hn. destruct Hn as [Hx Hr]. destruct Hin as [->|Hin]; [rewrite N.eqb_refl; reflexivity|].
  destruct (N.eqb (w_id x) (w_id w)) eqn:E; [|apply IH; assumption].
  apply N.eqb_eq in E. exfalso. apply Hx. rewrite E. apply in_map. exact Hin.
Qed.

(* is the VM's worker absent or still Unknown? *)
Definition uoa (ws : list wkr) (v : vm) : bool :=
  match find_w (v_id v) ws with None => true | Some w => unk w end.

(* what a pass maintains, relative to the state it started from *)
Record RInv (vms : list vm) (probes : list (probe0 * presp)) (ws0 : list wkr) (next0 : N) (e : penv) : Prop := {
  ri_inv : PInv vms probes e;
  ri_uoa : forall v, In v vms -> uoa (p_workers (pe_pool e)) v = uoa ws0 v;
  ri_new : forall w, In w (p_workers (pe_pool e)) -> find_w (w_id w) ws0 <> None \/ (next0 <= w_id w)%N;
  ri_next : (next0 <= pe_next e)%N
}.

Lemma RInv_frame vms probes ws0 next0 p p' n cr :
  RInv vms probes ws0 next0 (mkpe p n cr) -> pframe p p' -> RInv vms probes ws0 next0 (mkpe p' n cr).
Proof.
  intros [A B C D] Hf. constructor; cbn [pe_pool pe_next] in *.
  - eapply PInv_frame; eauto.
  - intros v Hv. rewrite <- (B v Hv). unfold uoa. destruct Hf as (_ & Fr & _).
    pose proof (frame_find _ _ _ (v_id v) Fr) as X.
    destruct (find_w (v_id v) (p_workers p)), (find_w (v_id v) (p_workers p')); try contradiction; [|reflexivity].
    destruct X as (_ & _ & _ & Hu & _). exact Hu.
  - intros w' Hw'. destruct Hf as (_ & Fr & _). destruct (frame_in _ _ _ _ Fr Hw') as (w & Hw & (Hid & _)). rewrite Hid. apply C. exact Hw.
  - exact D.
Qed.

Lemma RInv_create vms probes ws0 next0 it e :
  RInv vms probes ws0 next0 e -> RInv vms probes ws0 next0 (snd (pe_create_it it e)).
Proof.
  intros [HP B C D]. destruct e as [p n cr]. unfold pe_create_it. cbn [pe_pool pe_next pe_create] in *.
  set (outcome := match cr with [] => 2%N | o :: _ => o end). set (rest := match cr with [] => [] | _ :: r => r end).
  unfold pool_create. destruct (p_quota p) eqn:Eq.
  { cbn [snd]. constructor; cbn [pe_pool pe_next]; auto; [|lia].
    destruct HP as [A1 A2 A3 A4 A5 A6 A7]. constructor; cbn [pe_pool pe_next] in *; auto; intros x Hx; [specialize (A2 x Hx)|specialize (A3 x Hx)]; lia. }
  cbn [tick].
  assert (Hbump : forall p', pframe p p' -> RInv vms probes ws0 next0 (mkpe p' (n + 1) rest)).
  { intros p' Hf. pose proof (RInv_frame vms probes ws0 next0 p p' n cr (Build_RInv _ _ _ _ _ HP B C D) Hf) as [[A1 A2 A3 A4 A5 A6 A7] B' C' D'].
    constructor; cbn [pe_pool pe_next] in *; auto; [|lia].
    constructor; cbn [pe_pool pe_next] in *; auto; intros x Hx; [specialize (A2 x Hx)|specialize (A3 x Hx)]; lia. }
  destruct outcome as [|[o|o|]] eqn:Eo; cbn [snd].
  - (* instance created *)
    unfold set_workers. cbn [p_workers p_exited p_clock p_quota p_loaded].
    set (p1 := mkp (p_workers p) (p_exited p) (p_clock p + 1 + 1) (p_quota p) (p_loaded p)).
    assert (Hf1 : pframe p p1).
    { unfold p1. split; [cbn; lia|]. split; [cbn; apply Forall2_refl_frame|]. intros S x Hx. cbn in *. specialize (S x Hx). lia. }
    pose proof (RInv_frame vms probes ws0 next0 p p1 n cr (Build_RInv _ _ _ _ _ HP B C D) Hf1) as [[A1 A2 A3 A4 A5 A6 A7] B' C' D'].
    cbn [pe_pool pe_next p1 p_workers p_clock] in *.
    set (wn := new_worker n it WBooting IRun (p_clock p + 1 + 1)).
    assert (Hnone : find_w n (p_workers p) = None).
    { apply find_w_none. intros Hin. apply in_map_iff in Hin. destruct Hin as (x & Hx & Hin). specialize (A2 x Hin). lia. }
    assert (Hfind : forall id, id <> n -> find_w id (p_workers p ++ [wn]) = find_w id (p_workers p)).
    { intros id Hne. rewrite find_app. destruct (find_w id (p_workers p)); [reflexivity|]. cbn [find_w wn new_worker w_id].
      destruct (N.eqb n id) eqn:E; [apply N.eqb_eq in E; congruence|reflexivity]. }
    constructor; cbn [pe_pool pe_next set_workers p_workers p_clock].
    + constructor; cbn [pe_pool pe_next set_workers p_workers p_clock].
      * rewrite map_app. cbn [map wn new_worker w_id]. apply NoDup_app_iff. split; [exact A1|]. split; [repeat constructor; intros []|].
        intros x Hx [<-|[]]. apply in_map_iff in Hx. destruct Hx as (y & Hy & Hin). specialize (A2 y Hin). lia.
      * intros x Hx. apply in_app_or in Hx. destruct Hx as [Hx|[<-|[]]]; [specialize (A2 x Hx); lia|cbn; lia].
      * intros x Hx. specialize (A3 x Hx). lia.
      * intros v Hv. rewrite Hfind; [apply A4; exact Hv|]. specialize (A3 v Hv). lia.
      * unfold starting_all in *. cbn [p_workers pe_pool]. rewrite flat_map_app. cbn [flat_map wn new_worker sids w_starting map app]. rewrite app_nil_r. exact A5.
      * intros pb r Hp. destruct (A6 pb r Hp) as [F1 F2]. split; [exact F1|]. intros w v Hw Hv Hst.
        destruct (N.eq_dec (pb_id pb) n) as [Heq|Hne].
        -- exfalso. pose proof (find_vm_in _ _ _ Hv) as Hin. specialize (A3 v Hin). rewrite (find_vm_id _ _ _ Hv) in A3. lia.
        -- rewrite Hfind in Hw by exact Hne. exact (F2 w v Hw Hv Hst).
      * intros x Hx. cbn [p_workers p_clock] in *. apply in_app_or in Hx. destruct Hx as [Hx|[<-|[]]]; [apply A7; exact Hx|cbn; lia].
    + intros v Hv. rewrite <- (B' v Hv). unfold uoa. rewrite Hfind; [reflexivity|]. specialize (A3 v Hv). lia.
    + intros x Hx. apply in_app_or in Hx. destruct Hx as [Hx|[<-|[]]]; [apply C'; exact Hx|right; cbn; lia].
    + lia.
  - cbn [p_workers p_exited p_clock p_quota p_loaded]. apply Hbump.
    split; [cbn; lia|]. split; [cbn; apply Forall2_refl_frame|]. intros S x Hx. cbn in *. specialize (S x Hx). lia.
  - cbn [p_workers p_exited p_clock p_quota p_loaded]. apply Hbump.
    split; [cbn; lia|]. split; [cbn; apply Forall2_refl_frame|]. intros S x Hx. cbn in *. specialize (S x Hx). lia.
  - cbn [p_workers p_exited p_clock p_quota p_loaded]. apply Hbump.
    split; [cbn; lia|]. split; [cbn; apply Forall2_refl_frame|]. intros S x Hx. cbn in *. specialize (S x Hx). lia.
Qed.

Lemma undiscovered_false vms ws0 u :
  existsb (fun v => memN u (v_procs v) && match find_w (v_id v) ws0 with None => true | Some w => wstate_eqb (w_st w) WUnknown end) vms = false ->
  forall v, In v vms -> In u (v_procs v) -> uoa ws0 v = false.
Proof.
  intros H v Hv Hu. destruct (uoa ws0 v) eqn:E; [|reflexivity]. exfalso.
  assert (existsb (fun v => memN u (v_procs v) && match find_w (v_id v) ws0 with None => true | Some w => wstate_eqb (w_st w) WUnknown end) vms = true).
  { apply existsb_exists. exists v. split; [exact Hv|]. apply andb_true_iff. split; [apply memN_In; exact Hu|exact E]. }
  congruence.
Qed.

Lemma RInv_start vms probes ws0 next0 it u e :
  RInv vms probes ws0 next0 e -> fst (pe_kill u e) = false ->
  (fst (pe_start it u (snd (pe_kill u e))) = true -> forall v, In v vms -> In u (v_procs v) -> uoa ws0 v = false) ->
  RInv vms probes ws0 next0 (snd (pe_start it u (snd (pe_kill u e)))).
Proof.
  intros HR Hk HH. destruct e as [p n cr]. unfold pe_kill, pe_start in *. cbn [pe_pool pe_next pe_create] in *.
  unfold pool_kill in *. destruct (kill_in u (p_workers p)) as [b ws'] eqn:Ek. cbn [fst snd] in *. subst b.
  destruct (kill_in_false _ _ _ Ek) as [-> Hfree]. cbn [pe_pool pe_next pe_create].
  assert (Hsame : set_workers p (p_workers p) = p) by (destruct p; reflexivity). rewrite Hsame in *.
  unfold pool_start in *. destruct (pick_latest it (p_workers p) None) as [w|] eqn:Epick; cbn [fst snd] in *; [|exact HR].
  destruct HR as [[A1 A2 A3 A4 A5 A6 A7] B C D]. cbn [pe_pool pe_next] in *.
  destruct (pick_latest_in _ _ _ _ Epick) as [[Hin Hcand]|Hb]; [|discriminate].
  pose proof (in_find_w _ _ A1 Hin) as Hf.
  assert (Hunk : unk w = false).
  { unfold start_candidate in Hcand. rewrite !andb_true_iff in Hcand. destruct Hcand as [[_ Hs] _]. unfold unk.
    destruct (w_st w); cbn in *; congruence. }
  set (w' := start_container u w).
  assert (V : w_id w' = w_id w /\ sids w' = sids w ++ [u] /\ rids w' = rids w /\ unk w' = false /\ w_updated w' = w_updated w).
  { unfold w', start_container, sids, rids, unk. cbn. rewrite map_app. auto. }
  destruct V as (Vi & Vs & Vr & Vu & Vd).
  (* u has no live process anywhere *)
  assert (Hnoproc : forall v, In v vms -> ~ In u (v_procs v)).
  { intros v Hv Hu. assert (Hknown : uoa ws0 v = false).
    { apply HH; [|exact Hv|exact Hu]. clear HH. cbn [pe_pool]. rewrite ?Hsame. unfold pool_start. rewrite Epick. reflexivity. }
    rewrite <- (B v Hv) in Hknown. unfold uoa in Hknown.
    specialize (A4 v Hv). destruct (find_w (v_id v) (p_workers p)) as [wv|] eqn:Ev; [|discriminate].
    destruct A4 as [A4|A4]; [congruence|]. specialize (A4 u Hu). apply in_app_iff in A4.
    destruct (Hfree wv (find_w_in _ _ _ Ev)) as [H1 H2]. tauto. }
  unfold set_workers. constructor; cbn [pe_pool pe_next p_workers p_clock].
  - constructor; cbn [pe_pool pe_next p_workers p_clock].
    + rewrite put_w_ids. exact A1.
    + intros x Hx. apply in_put in Hx. destruct Hx as [->|Hx]; [rewrite Vi; apply A2; exact Hin|apply A2; exact Hx].
    + exact A3.
    + intros v Hv. destruct (N.eq_dec (v_id v) (w_id w)) as [Heq|Hne].
      * rewrite Heq, <- Vi. rewrite (find_put_eq (w_id w') _ w w'); [|rewrite Vi; exact Hf|reflexivity].
        specialize (A4 v Hv). rewrite Heq, Hf in A4. destruct A4 as [A4|A4]; [congruence|]. right.
        intros y Hy. specialize (A4 y Hy). rewrite Vs, Vr. apply in_app_iff in A4. apply in_app_iff.
        destruct A4 as [A4|A4]; [left; apply in_or_app; left; exact A4|right; exact A4].
      * rewrite find_put_neq by (rewrite Vi; exact Hne). apply A4. exact Hv.
    + destruct (find_w_split _ _ _ Hf) as (a & b & Hl & Ha). unfold starting_all in *. cbn [p_workers]. rewrite Hl in A5 |- *.
      rewrite (put_w_split a w b w' Ha Vi).
      assert (H1 : flat_map sids (a ++ w' :: b) = (flat_map sids a ++ sids w) ++ u :: flat_map sids b).
      { rewrite flat_map_app. cbn [flat_map]. rewrite Vs, <- !app_assoc. reflexivity. }
      assert (H0 : flat_map sids (a ++ w :: b) = (flat_map sids a ++ sids w) ++ flat_map sids b).
      { rewrite flat_map_app. cbn [flat_map]. rewrite <- !app_assoc. reflexivity. }
      rewrite H1. rewrite H0 in A5. rewrite app_assoc in A5 |- *. apply NoDup_insert_mid; [exact A5|].
      intros Hu. rewrite <- app_assoc, <- H0 in Hu. apply in_app_iff in Hu. destruct Hu as [Hu|Hu].
      * apply in_flat_map in Hu. destruct Hu as (v & Hv & Huv). exact (Hnoproc v Hv Huv).
      * apply in_flat_map in Hu. destruct Hu as (x & Hx & Hux). rewrite <- Hl in Hx. destruct (Hfree x Hx) as [H2 _]. contradiction.
    + intros pb r Hp. destruct (A6 pb r Hp) as [F1 F2]. split; [exact F1|]. intros x v Hx Hv Hst.
      destruct (N.eq_dec (pb_id pb) (w_id w)) as [Heq|Hne].
      * rewrite Heq, <- Vi in Hx. rewrite (find_put_eq (w_id w') _ w w') in Hx; [|rewrite Vi; exact Hf|reflexivity].
        injection Hx as <-. apply (F2 w v); [rewrite Heq; exact Hf|exact Hv|congruence].
      * rewrite find_put_neq in Hx by (rewrite Vi; exact Hne). exact (F2 x v Hx Hv Hst).
    + intros x Hx. cbn [p_workers p_clock] in *. apply in_put in Hx. destruct Hx as [->|Hx]; [rewrite Vd; apply A7; exact Hin|apply A7; exact Hx].
  - intros v Hv. rewrite <- (B v Hv). unfold uoa. destruct (N.eq_dec (v_id v) (w_id w)) as [Heq|Hne].
    + rewrite Heq, <- Vi. rewrite (find_put_eq (w_id w') _ w w'); [|rewrite Vi; exact Hf|reflexivity]. rewrite Vi, Hf. congruence.
    + rewrite find_put_neq by (rewrite Vi; exact Hne). reflexivity.
  - intros x Hx. apply in_put in Hx. destruct Hx as [->|Hx]; [rewrite Vi; apply C; exact Hin|apply C; exact Hx].
  - exact D.
Qed.

Lemma find_vm_app_none id a b : find_vm id a = None -> find_vm id (a ++ b) = find_vm id b.
Proof. intros H. rewrite find_vm_app, H. reflexivity. Qed.

Lemma step_sched c sorted s s' : Inv s -> step c (LSched sorted) s = Some s' -> Inv s'.
Proof.
  intros [Hn HP] H. cbn [step] in H.
  set (res := sched_pass sorted (s_env s)) in *.
  destruct (existsb (undiscovered s) (started_uuids (r_log res))) eqn:Eg; [discriminate|]. injection H as <-.
  destruct s as [e0 vms probes]. cbn [s_env s_vms s_probes spool] in *.
  set (ws0 := p_workers (pe_pool e0)) in *. set (next0 := pe_next e0).
  assert (HR0 : RInv vms probes ws0 next0 e0).
  { constructor; [exact HP|reflexivity| |unfold next0; lia].
    intros w Hw. left. destruct (in_find _ _ Hw) as (w' & Hf'). unfold ws0. rewrite Hf'. discriminate. }
  assert (HR : RInv vms probes ws0 next0 (r_pool res)).
  { unfold res, sched_pass.
    apply (rq_pool_inv penv pe_quota pe_kill pe_create_it pe_start _ (RInv vms probes ws0 next0)
             (fun u => forall v, In v vms -> In u (v_procs v) -> uoa ws0 v = false)).
    - intros e He. exact He.
    - intros u e He. destruct e as [p n cr]. unfold pe_kill. cbn [pe_pool pe_next pe_create].
      pose proof (pool_kill_frame u p) as Hf. destruct (pool_kill u p) as [b p'] eqn:Ek. cbn [snd] in *.
      eapply RInv_frame; eauto.
    - intros it e He. apply RInv_create. exact He.
    - intros it u e He Hk HH. apply RInv_start; assumption.
    - exact HR0.
    - intros it u Hin. apply undiscovered_false. fold res in Hin.
      assert (Hu : In u (started_uuids (r_log res))).
      { unfold started_uuids. apply in_flat_map. exists (EStart it u true). split; [exact Hin|left; reflexivity]. }
      rewrite <- not_true_iff_false in Eg. destruct (existsb _ vms) eqn:Ex; [|reflexivity]. exfalso. apply Eg.
      apply existsb_exists. exists u. split; [exact Hu|]. unfold undiscovered. cbn [s_vms spool s_env]. exact Ex. }
  destruct HR as [[A1 A2 A3 A4 A5 A6 A7] B C D].
  set (e' := r_pool res) in *.
  unfold Inv. cbn [s_vms s_probes s_env].
  match goal with |- context [vms ++ ?x] => set (newvms := x) in * end.
  assert (Hnew_ge : forall v, In v newvms -> (next0 <= v_id v)%N /\ (v_id v < pe_next e')%N /\ v_procs v = []).
  { intros v Hv. apply in_map_iff in Hv. destruct Hv as (w & <- & Hw). apply filter_In in Hw. destruct Hw as [Hw Hnw].
    cbn [v_id v_procs]. split; [|split; [apply A2; exact Hw|reflexivity]].
    destruct (C w Hw) as [Hc|Hc]; [|exact Hc]. unfold ws0 in Hc. cbn beta in Hnw.
    unfold spool in Hnw. cbn [s_env] in Hnw.
    destruct (find_w (w_id w) (p_workers (pe_pool e0))); [discriminate|contradiction]. }
  assert (Hold_lt : forall v, In v vms -> (v_id v < next0)%N) by (intros v Hv; apply (pi_vfresh _ _ _ HP); exact Hv).
  split.
  - rewrite map_app. apply NoDup_app_iff. split; [exact Hn|]. split.
    + unfold newvms. rewrite map_map. cbn [v_id]. apply NoDup_map_filter. exact A1.
    + intros x Hx Hx'. apply in_map_iff in Hx. destruct Hx as (v & <- & Hv). apply in_map_iff in Hx'. destruct Hx' as (v' & Heq & Hv').
      destruct (Hnew_ge v' Hv') as [Hge _]. specialize (Hold_lt v Hv). lia.
  - assert (Hprocs : flat_map v_procs newvms = []).
    { clear -Hnew_ge. induction newvms as [|x r IH]; cbn [flat_map]; [reflexivity|].
      rewrite (proj2 (proj2 (Hnew_ge x (or_introl eq_refl)))). apply IH. intros v Hv. apply Hnew_ge. right; exact Hv. }
    constructor; try assumption.
    + intros v Hv. apply in_app_or in Hv. destruct Hv as [Hv|Hv]; [apply A3; exact Hv|apply (Hnew_ge v Hv)].
    + intros v Hv. apply in_app_or in Hv. destruct Hv as [Hv|Hv]; [apply A4; exact Hv|].
      destruct (find_w (v_id v) (p_workers (pe_pool e'))); [|exact I]. right. rewrite (proj2 (proj2 (Hnew_ge v Hv))). intros y [].
    + rewrite flat_map_app, Hprocs, app_nil_r. exact A5.
    + intros pb r Hp. destruct (A6 pb r Hp) as [F1 F2]. split; [exact F1|]. intros w v Hw Hv Hst.
      rewrite find_vm_app in Hv. destruct (find_vm (pb_id pb) vms) as [v0|] eqn:E0.
      * injection Hv as <-. exact (F2 w v0 Hw eq_refl Hst).
      * apply find_vm_in in Hv. rewrite (proj2 (proj2 (Hnew_ge v Hv))). intros y [].
Qed.

(* ---------------- the invariant holds in every reachable state ---------------- *)
Theorem step_inv c l s s' : Inv s -> step c l s = Some s' -> Inv s'.
Proof.
  intros HI H. destruct l.
  - eapply step_sched; eauto.
  - eapply step_lands; eauto.
  - eapply step_probebegin; eauto.
  - eapply step_probeend; eauto.
  - eapply step_procexit; eauto.
  - eapply (step_frame_labels c (LKill u)); eauto; exact I.
  - eapply step_killdelivered; eauto.
  - eapply (step_frame_labels c (LGiveUp id u)); eauto; exact I.
  - eapply (step_frame_labels c (LForget u)); eauto; exact I.
  - eapply (step_frame_labels c (LSetIB id b)); eauto; exact I.
  - eapply (step_frame_labels c (LShutdownType it chosen)); eauto; exact I.
  - eapply (step_frame_labels c LSweep); eauto; exact I.
  - eapply step_poolsync; eauto.
  - eapply step_vmgone; eauto.
  - eapply step_restart; eauto.
Qed.

Lemma init_inv create : Inv (init_sys create).
Proof.
  unfold Inv, init_sys. cbn [s_vms s_probes s_env map]. split; [constructor|].
  constructor; cbn [pe_pool pe_next empty_pool p_workers p_clock map flat_map app].
  - constructor.
  - intros w [].
  - intros v [].
  - intros v [].
  - unfold starting_all. cbn. constructor.
  - intros pb r [].
  - intros w [].
Qed.

Theorem run_inv c ls : forall s s', Inv s -> run c ls s = Some s' -> Inv s'.
Proof.
  induction ls as [|l r IH]; intros s s' HI H; cbn [run] in H.
  - injection H as <-. exact HI.
  - destruct (step c l s) as [s1|] eqn:Es; [|discriminate]. eapply IH; [eapply step_inv; eauto|exact H].
Qed.

(* C14: in every state reachable by ANY sequence of steps (scheduler passes on arbitrary queue contents,
   probes, process exits, kills, cloud listings, instances vanishing, dispatcher restarts, ...) no
   container has two crunch-run processes (started or being started), on one instance or on several *)
Theorem mutual_exclusion c create ls s :
  run c ls (init_sys create) = Some s -> NoDup (all_procs s).
Proof.
  intros H. destruct (run_inv c ls _ _ (init_inv create) H) as [_ HP]. exact (pi_mutex _ _ _ HP).
Qed.

(* C14: ... and every live process on an instance whose worker is known and not Unknown is in that
   worker's starting/running bookkeeping (so Pool.Running() reports it) *)
Theorem bookkeeping_covers_processes c create ls s v w u :
  run c ls (init_sys create) = Some s ->
  In v (s_vms s) -> find_w (v_id v) (p_workers (spool s)) = Some w -> w_st w <> WUnknown ->
  In u (v_procs v) -> In u (wbook w).
Proof.
  intros H Hv Hw Hst Hu. destruct (run_inv c ls _ _ (init_inv create) H) as [_ HP].
  pose proof (pi_cov _ _ _ HP v Hv) as D. unfold spool in Hw. rewrite Hw in D. destruct D as [D|D].
  - exfalso. unfold unk in D. destruct (w_st w); cbn in D; try discriminate. apply Hst. reflexivity.
  - apply D. exact Hu.
Qed.
