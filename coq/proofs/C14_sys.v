(* C14 — the transition system of model/C14_sys.v: inductive invariant (bookkeeping covers processes,
   mutual exclusion) over arbitrary step sequences. *)
From Coq Require Import List ZArith Bool NArith Lia Permutation.
From AV Require Import model.C16_runq model.C14_pool model.C14_sys proofs.C16_runq proofs.C14_pool.
Import ListNotations.
Local Open Scope Z_scope.

Definition starting_all (p : wpool) : list N := flat_map sids (p_workers p).

(* the part of the invariant that concerns the pool, relative to the VMs and the probes in flight *)
Record PInv (vms : list vm) (probes : list (probe0 * presp)) (e : penv) : Prop := {
  pi_wnodup : NoDup (map w_id (p_workers (pe_pool e)));
  pi_wfresh : forall w, In w (p_workers (pe_pool e)) -> (w_id w < pe_next e)%N;
  pi_vfresh : forall v, In v vms -> (v_id v < pe_next e)%N;
  (* bookkeeping covers processes: a live process on a VM whose worker has been discovered is in
     starting or running of that worker *)
  pi_cov : forall v, In v vms ->
           match find_w (v_id v) (p_workers (pe_pool e)) with
           | None => True
           | Some w => unk w = true \/ incl (v_procs v) (sids w ++ rids w)
           end;
  (* mutual exclusion: no uuid has two live processes / start commands in flight *)
  pi_mutex : NoDup (flat_map v_procs vms ++ starting_all (pe_pool e));
  (* a probe in flight whose stamp is still current has listed every process of its VM *)
  pi_probe : forall pb r, In (pb, r) probes ->
             pb_updated pb <= p_clock (pe_pool e) /\
             forall w v, find_w (pb_id pb) (p_workers (pe_pool e)) = Some w -> find_vm (pb_id pb) vms = Some v ->
                         w_updated w = pb_updated pb -> incl (v_procs v) (pr_uuids r);
  pi_stamps : stamps_ok (pe_pool e)
}.

Definition Inv (s : sys) : Prop := NoDup (map v_id (s_vms s)) /\ PInv (s_vms s) (s_probes s) (s_env s).

(* ---------------- frame steps ---------------- *)
Lemma frame_ids c ws ws' : Forall2 (wframe c) ws ws' -> map w_id ws' = map w_id ws.
Proof. induction 1 as [|x y r r' (Hid & _) _ IH]; cbn [map]; [reflexivity|]. rewrite Hid, IH. reflexivity. Qed.
Lemma frame_starting c ws ws' : Forall2 (wframe c) ws ws' -> flat_map sids ws' = flat_map sids ws.
Proof. induction 1 as [|x y r r' (_ & Hs & _) _ IH]; cbn [flat_map]; [reflexivity|]. rewrite Hs, IH. reflexivity. Qed.
Lemma frame_in c ws ws' w' : Forall2 (wframe c) ws ws' -> In w' ws' -> exists w, In w ws /\ wframe c w w'.
Proof.
  induction 1 as [|x y r r' Hxy _ IH]; intros Hin; [destruct Hin|].
  destruct Hin as [<-|Hin]; [exists x; split; [left; reflexivity|exact Hxy]|].
  destruct (IH Hin) as (w & Hw & Hf). exists w. split; [right; exact Hw|exact Hf].
Qed.

Lemma PInv_frame vms probes p p' n cr :
  PInv vms probes (mkpe p n cr) -> pframe p p' -> PInv vms probes (mkpe p' n cr).
Proof.
  intros [A B C D E F G] (L & Fr & S). cbn [pe_pool pe_next] in *. constructor; cbn [pe_pool pe_next].
  - rewrite (frame_ids _ _ _ Fr). exact A.
  - intros w' Hw'. destruct (frame_in _ _ _ _ Fr Hw') as (w & Hw & (Hid & _)). rewrite Hid. apply B. exact Hw.
  - exact C.
  - intros v Hv. specialize (D v Hv). pose proof (frame_find _ _ _ (v_id v) Fr) as Hf.
    destruct (find_w (v_id v) (p_workers p)) as [w|], (find_w (v_id v) (p_workers p')) as [w'|]; try contradiction; [|exact I].
    destruct Hf as (_ & Hs & Hr & Hu & _). rewrite Hs, Hr, Hu. exact D.
  - unfold starting_all in *. rewrite (frame_starting _ _ _ Fr). exact E.
  - intros pb r Hin. destruct (F pb r Hin) as [F1 F2]. split; [lia|].
    intros w' v Hw' Hv Hst. pose proof (frame_find _ _ _ (pb_id pb) Fr) as Hf. rewrite Hw' in Hf.
    destruct (find_w (pb_id pb) (p_workers p)) as [w|] eqn:Ew; [|contradiction].
    destruct Hf as (_ & _ & _ & _ & [Hu|Hu]); [|lia]. apply (F2 w v eq_refl Hv). congruence.
  - apply S. exact G.
Qed.

Lemma Inv_frame s p' : Inv s -> pframe (spool s) p' -> Inv (set_pool s p').
Proof.
  intros [Hn HP] Hf. split; [exact Hn|]. unfold set_pool. cbn [s_vms s_probes s_env].
  destruct s as [[p n cr] vms probes]. cbn in *. eapply PInv_frame; eauto.
Qed.

(* ---------------- list plumbing ---------------- *)
Lemma NoDup_app_iff {A} (a b : list A) : NoDup (a ++ b) <-> NoDup a /\ NoDup b /\ (forall x, In x a -> ~ In x b).
Proof.
  induction a as [|x r IH]; cbn [app].
  - split; [intros H; split; [constructor|split; [exact H|intros x []]]|intros (_ & H & _); exact H].
  - rewrite !NoDup_cons_iff, IH, in_app_iff. split.
    + intros (Hn & Hr & Hb & Hd). split; [split; [tauto|exact Hr]|]. split; [exact Hb|].
      intros y [<-|Hy]; [tauto|apply Hd; exact Hy].
    + intros ((Hn & Hr) & Hb & Hd). split; [intros [H|H]; [tauto|exact (Hd x (or_introl eq_refl) H)]|].
      split; [exact Hr|]. split; [exact Hb|]. intros y Hy. apply Hd. right; exact Hy.
Qed.

(* replacing a middle segment by a duplicate-free part of it keeps the whole duplicate-free *)
Lemma NoDup_shrink_mid {A} (x p p' y : list A) :
  NoDup (x ++ p ++ y) -> NoDup p' -> incl p' p -> NoDup (x ++ p' ++ y).
Proof.
  rewrite !NoDup_app_iff. intros (Hx & (Hp & Hy & Hpy) & Hxpy) Hp' Hi.
  split; [exact Hx|]. split; [split; [exact Hp'|split; [exact Hy|intros z Hz; apply Hpy; apply Hi; exact Hz]]|].
  intros z Hz Hin. apply (Hxpy z Hz). apply in_app_iff. apply in_app_iff in Hin. destruct Hin as [Hin|Hin]; [left; apply Hi; exact Hin|right; exact Hin].
Qed.

Lemma remove_one_incl u l : incl (remove_one u l) l.
Proof.
  induction l as [|x r IH]; cbn [remove_one]; [intros y []|].
  destruct (N.eqb x u); [intros y Hy; right; exact Hy|intros y [<-|Hy]; [left; reflexivity|right; apply IH; exact Hy]].
Qed.
Lemma remove_one_nodup u l : NoDup l -> NoDup (remove_one u l).
Proof.
  induction l as [|x r IH]; cbn [remove_one]; [auto|]. intros H. apply NoDup_cons_iff in H. destruct H as [Hn Hr].
  destruct (N.eqb x u); [exact Hr|]. constructor; [intros Hin; apply Hn; apply (remove_one_incl u r); exact Hin|apply IH; exact Hr].
Qed.

(* ---------------- VM plumbing ---------------- *)
Lemma find_vm_id id l v : find_vm id l = Some v -> v_id v = id.
Proof.
  induction l as [|x r IH]; cbn [find_vm]; [discriminate|].
  destruct (N.eqb (v_id x) id) eqn:E; [intros H; injection H as <-; apply N.eqb_eq; exact E|exact IH].
Qed.
Lemma find_vm_split id l v : find_vm id l = Some v -> exists a b, l = a ++ v :: b /\ find_vm id a = None.
Proof.
  induction l as [|x r IH]; cbn [find_vm]; [discriminate|].
  destruct (N.eqb (v_id x) id) eqn:E.
  - intros H; injection H as <-. exists [], r. split; reflexivity.
  - intros H. destruct (IH H) as (a & b & -> & Ha). exists (x :: a), b. split; [reflexivity|]. cbn [find_vm]. rewrite E. exact Ha.
Qed.
Lemma put_vm_split id a v b v' : find_vm id a = None -> v_id v = id -> v_id v' = id ->
  put_vm v' (a ++ v :: b) = a ++ v' :: b.
Proof.
  intros Ha Hv Hv'. induction a as [|x r IH]; cbn [app put_vm find_vm] in *.
  - rewrite Hv, Hv', N.eqb_refl. reflexivity.
  - destruct (N.eqb (v_id x) id) eqn:E; [discriminate|]. rewrite Hv', E. rewrite IH; [reflexivity|exact Ha].
Qed.
Lemma find_vm_app id a b : find_vm id (a ++ b) = match find_vm id a with Some x => Some x | None => find_vm id b end.
Proof. induction a as [|x r IH]; cbn [app find_vm]; [reflexivity|]. destruct (N.eqb (v_id x) id); [reflexivity|exact IH]. Qed.

Lemma set_procs_split id f l v : find_vm id l = Some v ->
  exists a b, l = a ++ v :: b /\ find_vm id a = None /\
              set_procs id f l = a ++ mkvm (v_id v) (v_it v) (f (v_procs v)) :: b.
Proof.
  intros H. unfold set_procs. rewrite H. destruct (find_vm_split _ _ _ H) as (a & b & -> & Ha).
  exists a, b. split; [reflexivity|]. split; [exact Ha|].
  apply (put_vm_split id); [exact Ha|eapply find_vm_id; eauto|cbn; eapply find_vm_id; eauto].
Qed.
Lemma set_procs_none id f l : find_vm id l = None -> set_procs id f l = l.
Proof. intros H. unfold set_procs. rewrite H. reflexivity. Qed.
Lemma find_vm_in id l v : find_vm id l = Some v -> In v l.
Proof. intros H. destruct (find_vm_split _ _ _ H) as (a & b & -> & _). apply in_or_app. right; left; reflexivity. Qed.

(* find_vm in the list with one VM's processes replaced *)
Lemma find_vm_replaced id a v b v' id' :
  find_vm id a = None -> v_id v = id -> v_id v' = id ->
  find_vm id' (a ++ v' :: b) = if N.eqb id' id then Some v' else find_vm id' (a ++ v :: b).
Proof.
  intros Ha Hv Hv'. rewrite !find_vm_app. cbn [find_vm]. rewrite Hv, Hv'.
  destruct (N.eqb id' id) eqn:E.
  - apply N.eqb_eq in E. subst id'. rewrite Ha, N.eqb_refl. reflexivity.
  - rewrite (N.eqb_sym id id'). rewrite E. reflexivity.
Qed.

(* a VM's process list is replaced by a duplicate-free part of it: what the invariant needs *)
Lemma set_procs_shrink vms probes e id f :
  NoDup (map v_id vms) -> PInv vms probes e ->
  (forall l, NoDup l -> NoDup (f l)) -> (forall l, incl (f l) l) ->
  NoDup (map v_id (set_procs id f vms)) /\ PInv (set_procs id f vms) probes e.
Proof.
  intros Hn [A B C D E F G] Hf1 Hf2.
  destruct (find_vm id vms) as [v|] eqn:Ev; [|rewrite (set_procs_none _ _ _ Ev); split; [exact Hn|constructor; assumption]].
  destruct (set_procs_split id f vms v Ev) as (a & b & Hl & Ha & Hs). rewrite Hs.
  pose proof (find_vm_id _ _ _ Ev) as Hvid.
  set (v' := mkvm (v_id v) (v_it v) (f (v_procs v))).
  assert (Hids : map v_id (a ++ v' :: b) = map v_id vms).
  { rewrite Hl, !map_app. reflexivity. }
  split; [rewrite Hids; exact Hn|].
  assert (Hin : forall x, In x (a ++ v' :: b) -> x = v' \/ In x vms).
  { intros x Hx. apply in_app_or in Hx. rewrite Hl.
    destruct Hx as [Hx|[<-|Hx]]; [right; apply in_or_app; left; exact Hx|left; reflexivity|right; apply in_or_app; right; right; exact Hx]. }
  constructor; try assumption.
  - intros x Hx. destruct (Hin x Hx) as [->|Hx']; [|apply C; exact Hx'].
    cbn [v_id v']. apply C. eapply find_vm_in; eauto.
  - intros x Hx. destruct (Hin x Hx) as [->|Hx']; [|apply D; exact Hx'].
    cbn [v' v_id v_procs]. specialize (D v (find_vm_in _ _ _ Ev)).
    destruct (find_w (v_id v) (p_workers (pe_pool e))); [|exact I].
    destruct D as [D|D]; [left; exact D|right]. intros y Hy. apply D. apply (Hf2 _ y Hy).
  - rewrite Hl in E. rewrite !flat_map_app in *. cbn [flat_map] in *. rewrite <- !app_assoc in *.
    cbn [v' v_procs]. apply (NoDup_shrink_mid _ (v_procs v)); [exact E| |apply Hf2].
    apply Hf1. apply NoDup_app_iff in E. destruct E as (_ & E & _). apply NoDup_app_iff in E. tauto.
  - intros pb r Hp. destruct (F pb r Hp) as [F1 F2]. split; [exact F1|].
    intros w x Hw Hx Hst.
    rewrite (find_vm_replaced id a v b v' (pb_id pb) Ha Hvid Hvid) in Hx. rewrite <- Hl in Hx.
    destruct (N.eqb (pb_id pb) id) eqn:Eq.
    + injection Hx as <-. apply N.eqb_eq in Eq. cbn [v' v_procs]. intros y Hy.
      apply (F2 w v Hw); [rewrite Eq; exact Ev|exact Hst|apply (Hf2 _ y Hy)].
    + apply (F2 w x Hw Hx Hst).
Qed.

(* ---------------- steps that only reframe the pool ---------------- *)
Lemma spool_set_pool s p : spool (set_pool s p) = p.
Proof. reflexivity. Qed.

(* ---------------- LProcExit ---------------- *)
Lemma step_procexit c id u s s' : Inv s -> step c (LProcExit id u) s = Some s' -> Inv s'.
Proof.
  intros [Hn HP] H. cbn [step] in H. injection H as <-. unfold Inv. cbn [s_vms s_probes s_env].
  apply set_procs_shrink; auto; [intros l; apply remove_one_nodup|intros l; apply remove_one_incl].
Qed.

(* ---------------- LVMGone ---------------- *)
Lemma find_vm_filter_ne id gone l : id <> gone ->
  find_vm id (filter (fun v => negb (N.eqb (v_id v) gone)) l) = find_vm id l.
Proof.
  intros Hne. induction l as [|x r IH]; cbn [filter find_vm]; [reflexivity|].
  destruct (N.eqb (v_id x) gone) eqn:E; cbn [negb find_vm].
  - apply N.eqb_eq in E. assert (N.eqb (v_id x) id = false) by (apply N.eqb_neq; congruence). rewrite H. exact IH.
  - destruct (N.eqb (v_id x) id); [reflexivity|exact IH].
Qed.
Lemma find_vm_filter_eq gone l : find_vm gone (filter (fun v => negb (N.eqb (v_id v) gone)) l) = None.
Proof.
  induction l as [|x r IH]; cbn [filter find_vm]; [reflexivity|].
  destruct (N.eqb (v_id x) gone) eqn:E; cbn [negb find_vm]; [exact IH|rewrite E; exact IH].
Qed.
Lemma NoDup_flat_filter {A B} (f : A -> list B) (g : A -> bool) l y :
  NoDup (flat_map f l ++ y) -> NoDup (flat_map f (filter g l) ++ y).
Proof.
  induction l as [|x r IH]; cbn [flat_map filter]; [auto|]. intros H. rewrite <- app_assoc in H.
  destruct (g x); cbn [flat_map].
  - rewrite <- app_assoc. apply NoDup_app_iff in H. destruct H as (H1 & H2 & H3). apply NoDup_app_iff.
    split; [exact H1|]. split; [apply IH; exact H2|]. intros z Hz Hin. apply (H3 z Hz).
    apply in_app_iff in Hin. apply in_app_iff. destruct Hin as [Hin|Hin]; [left|right; exact Hin].
    apply in_flat_map in Hin. destruct Hin as (a & Ha & Hza). apply in_flat_map. exists a. apply filter_In in Ha. tauto.
  - apply IH. apply NoDup_app_iff in H. tauto.
Qed.
Lemma NoDup_map_filter {A B} (f : A -> B) (g : A -> bool) l : NoDup (map f l) -> NoDup (map f (filter g l)).
Proof.
  induction l as [|x r IH]; cbn [map filter]; [auto|]. intros H. apply NoDup_cons_iff in H. destruct H as [Hx Hr].
  destruct (g x); cbn [map]; [|auto]. constructor; [|auto]. intros Hin. apply Hx.
  apply in_map_iff in Hin. destruct Hin as (a & <- & Ha). apply in_map. apply filter_In in Ha. tauto.
Qed.

Lemma step_vmgone c id s s' : Inv s -> step c (LVMGone id) s = Some s' -> Inv s'.
Proof.
  intros [Hn [A B C D E F G]] H. cbn [step] in H. injection H as <-. unfold Inv. cbn [s_vms s_probes s_env].
  split; [apply NoDup_map_filter; exact Hn|]. constructor; try assumption.
  - intros v Hv. apply C. apply filter_In in Hv. tauto.
  - intros v Hv. apply D. apply filter_In in Hv. tauto.
  - apply NoDup_flat_filter. exact E.
  - intros pb r Hp. destruct (F pb r Hp) as [F1 F2]. split; [exact F1|]. intros w v Hw Hv Hst.
    destruct (N.eq_dec (pb_id pb) id) as [Heq|Hne]; [rewrite Heq in Hv; rewrite find_vm_filter_eq in Hv; discriminate|].
    rewrite find_vm_filter_ne in Hv by exact Hne. exact (F2 w v Hw Hv Hst).
Qed.

(* ---------------- LRestart ---------------- *)
Lemma step_restart c s s' : Inv s -> step c LRestart s = Some s' -> Inv s'.
Proof.
  intros [Hn [A B C D E F G]] H. cbn [step] in H. injection H as <-. unfold Inv. cbn [s_vms s_probes s_env].
  split; [exact Hn|]. constructor; cbn [pe_pool pe_next empty_pool p_workers p_clock map].
  - constructor.
  - intros w [].
  - exact C.
  - intros v Hv. cbn [find_w]. exact I.
  - unfold starting_all. cbn [p_workers flat_map]. rewrite app_nil_r. apply NoDup_app_iff in E. tauto.
  - intros pb r [].
  - intros w [].
Qed.

(* ---------------- the pure reframing steps ---------------- *)
Lemma step_frame_labels c l s s' :
  match l with LKill _ | LGiveUp _ _ | LForget _ | LSetIB _ _ | LShutdownType _ _ | LSweep => True | _ => False end ->
  Inv s -> step c l s = Some s' -> Inv s'.
Proof.
  intros Hl HI H. destruct l; try contradiction; cbn [step] in H; injection H as <-; apply Inv_frame; auto.
  - apply pool_kill_frame.
  - apply give_up_frame.
  - apply pool_forget_frame.
  - apply pool_set_ib_frame.
  - apply pool_shutdown_frame.
  - apply pool_sweep_frame.
Qed.

(* ---------------- replacing one worker ---------------- *)
Lemma find_w_split id ws w : find_w id ws = Some w -> exists a b, ws = a ++ w :: b /\ find_w id a = None.
Proof.
  induction ws as [|x r IH]; cbn [find_w]; [discriminate|].
  destruct (N.eqb (w_id x) id) eqn:E.
  - intros H; injection H as <-. exists [], r. split; reflexivity.
  - intros H. destruct (IH H) as (a & b & -> & Ha). exists (x :: a), b. split; [reflexivity|]. cbn [find_w]. rewrite E. exact Ha.
Qed.
Lemma put_w_split a w b w' : find_w (w_id w) a = None -> w_id w' = w_id w -> put_w w' (a ++ w :: b) = a ++ w' :: b.
Proof.
  intros Ha Hid. induction a as [|x r IH]; cbn [app put_w find_w] in *.
  - rewrite Hid, N.eqb_refl. reflexivity.
  - destruct (N.eqb (w_id x) (w_id w)) eqn:E; [discriminate|]. rewrite Hid, E. rewrite IH; [reflexivity|exact Ha].
Qed.

Lemma PInv_put vms probes p n cr w w' ex' clock' (f : N -> bool) :
  PInv vms probes (mkpe p n cr) ->
  find_w (w_id w) (p_workers p) = Some w ->
  w_id w' = w_id w ->
  sids w' = filter f (sids w) ->
  (forall v, In v vms -> v_id v = w_id w -> unk w' = true \/ incl (v_procs v) (sids w' ++ rids w')) ->
  (w_updated w' = w_updated w \/ p_clock p < w_updated w') -> w_updated w' <= clock' -> p_clock p <= clock' ->
  PInv vms probes (mkpe (mkp (put_w w' (p_workers p)) ex' clock' (p_quota p) (p_loaded p)) n cr).
Proof.
  intros [A B C D E F G] Hf Hid Hs Hcov Hst Hu Hc. cbn [pe_pool pe_next] in *.
  constructor; cbn [pe_pool pe_next p_workers p_clock].
  - rewrite put_w_ids. exact A.
  - intros x Hx. apply in_put in Hx. destruct Hx as [->|Hx]; [rewrite Hid; apply B; eapply find_w_in; eauto|apply B; exact Hx].
  - exact C.
  - intros v Hv. destruct (N.eq_dec (v_id v) (w_id w)) as [Heq|Hne].
    + rewrite Heq. rewrite <- Hid. rewrite (find_put_eq (w_id w') _ w w'); [|rewrite Hid; exact Hf|reflexivity].
      apply Hcov; assumption.
    + rewrite find_put_neq by (rewrite Hid; exact Hne). apply D. exact Hv.
  - destruct (find_w_split _ _ _ Hf) as (a & b & Hl & Ha). unfold starting_all in *.
    rewrite Hl in E |- *. rewrite (put_w_split a w b w' Ha Hid).
    assert (H1 : flat_map sids (a ++ w' :: b) = flat_map sids a ++ filter f (sids w) ++ flat_map sids b).
    { rewrite flat_map_app. cbn [flat_map]. rewrite Hs. reflexivity. }
    assert (H0 : flat_map sids (a ++ w :: b) = flat_map sids a ++ sids w ++ flat_map sids b).
    { rewrite flat_map_app. cbn [flat_map]. reflexivity. }
    cbn [p_workers]. rewrite H1. rewrite H0 in E. rewrite app_assoc in E |- *.
    apply (NoDup_shrink_mid _ (sids w)); [exact E| |intros y Hy; apply filter_In in Hy; tauto].
    apply NoDup_filter. apply NoDup_app_iff in E. destruct E as (_ & E & _). apply NoDup_app_iff in E. tauto.
  - intros pb r Hp. destruct (F pb r Hp) as [F1 F2]. split; [lia|]. intros x v Hx Hv Hstamp.
    destruct (N.eq_dec (pb_id pb) (w_id w)) as [Heq|Hne].
    + rewrite Heq in Hx. rewrite <- Hid in Hx. rewrite (find_put_eq (w_id w') _ w w') in Hx; [|rewrite Hid; exact Hf|reflexivity].
      injection Hx as <-. destruct Hst as [Hst|Hst]; [|lia].
      apply (F2 w v); [rewrite Heq; exact Hf|exact Hv|congruence].
    + rewrite find_put_neq in Hx by (rewrite Hid; exact Hne). apply (F2 x v Hx Hv Hstamp).
  - intros x Hx. cbn [p_workers p_clock] in *. apply in_put in Hx. destruct Hx as [->|Hx]; [exact Hu|].
    specialize (G x Hx). lia.
Qed.

(* ---------------- closeRunner / onKilled ---------------- *)
Lemma del_run_ids u l : map ru (del_run u l) = filter (fun x => negb (N.eqb x u)) (map ru l).
Proof.
  unfold del_run. induction l as [|r t IH]; cbn [filter map]; [reflexivity|].
  destruct (N.eqb (ru r) u); cbn [negb map]; [exact IH|rewrite IH; reflexivity].
Qed.
Lemma has_run_in u l : has_run u l = true <-> In u (map ru l).
Proof.
  unfold has_run. rewrite existsb_exists. split.
  - intros (r & Hr & E). apply N.eqb_eq in E. subst. apply in_map. exact Hr.
  - intros H. apply in_map_iff in H. destruct H as (r & <- & Hr). exists r. split; [exact Hr|apply N.eqb_refl].
Qed.
Lemma filter_ne_notin u l : ~ In u l -> filter (fun x => negb (N.eqb x u)) l = l.
Proof.
  induction l as [|x r IH]; cbn [filter]; [reflexivity|]. intros H.
  destruct (N.eqb x u) eqn:E; [apply N.eqb_eq in E; subst; exfalso; apply H; left; reflexivity|].
  cbn [negb]. rewrite IH; [reflexivity|intros Hin; apply H; right; exact Hin].
Qed.

Lemma close_runner_view u w ex clock w' ex' clock' :
  close_runner u w ex clock = (w', ex', clock') ->
  w_id w' = w_id w /\ sids w' = sids w /\ rids w' = filter (fun x => negb (N.eqb x u)) (rids w) /\ unk w' = unk w /\
  clock <= clock' /\ (w_updated w' = w_updated w \/ clock < w_updated w') /\ (w_updated w <= clock -> w_updated w' <= clock').
Proof.
  unfold close_runner. destruct (has_run u (w_running w)) eqn:Eh; cbn [negb].
  - set (w1 := with_updated (with_runs w (w_starting w) (del_run u (w_running w))) (clock + 1)).
    intros H. injection H as <- <- <-.
    assert (Hw1 : w_id w1 = w_id w /\ sids w1 = sids w /\ rids w1 = filter (fun x => negb (N.eqb x u)) (rids w) /\ unk w1 = unk w /\ w_updated w1 = clock + 1).
    { unfold w1, sids, rids, unk. cbn. rewrite del_run_ids. auto. }
    destruct Hw1 as (A & B & C & D & E).
    destruct (wstate_eqb (w_st w1) WRunning && Nat.eqb (nrun w1) 0) eqn:Ec.
    + apply andb_true_iff in Ec. destruct Ec as [Ec _].
      unfold sids, rids, unk in *. cbn. split; [exact A|]. split; [exact B|]. split; [exact C|].
      split; [|split; [lia|split; [right; cbn in E; lia|intros _; cbn in E; lia]]].
      rewrite <- D. unfold w1 in *. cbn in *. destruct (w_st w); cbn in *; try discriminate; reflexivity.
    + split; [exact A|]. split; [exact B|]. split; [exact C|]. split; [exact D|]. split; [lia|]. split; [right; lia|intros _; lia].
  - intros H. injection H as <- <- <-. assert (~ In u (rids w)).
    { intros Hin. apply has_run_in in Hin. congruence. }
    rewrite (filter_ne_notin u (rids w) H). repeat split; auto; lia.
Qed.

Lemma step_killdelivered c id u s s' : Inv s -> step c (LKillDelivered id u) s = Some s' -> Inv s'.
Proof.
  intros [Hn HP] H. cbn [step] in H. injection H as <-. unfold Inv. cbn [s_vms s_probes s_env].
  set (f := fun l : list N => filter (fun x => negb (N.eqb x u)) l).
  destruct (set_procs_shrink (s_vms s) (s_probes s) (s_env s) id f Hn HP) as [Hn' HP'].
  { intros l Hl. apply NoDup_filter. exact Hl. }
  { intros l y Hy. apply filter_In in Hy. tauto. }
  split; [exact Hn'|].
  destruct s as [[p n cr] vms probes]. cbn [spool s_env s_vms s_probes pe_pool pe_next pe_create] in *.
  unfold kill_delivered. destruct (find_w id (p_workers p)) as [w|] eqn:Ef; [|destruct p; exact HP'].
  destruct (close_runner u w (p_exited p) (p_clock p)) as [[w' ex'] clock'] eqn:Ec.
  destruct (close_runner_view _ _ _ _ _ _ _ Ec) as (A & B & C & D & L & St & U).
  pose proof (find_w_id _ _ _ Ef) as Hid. rewrite <- Hid in Ef.
  apply (PInv_put _ _ p n cr w w' ex' clock' (fun _ => true) HP' Ef A).
  - rewrite B. clear. induction (sids w) as [|x r IH]; cbn [filter]; [reflexivity|]. rewrite <- IH. reflexivity.
  - intros v Hv Hvid. pose proof (pi_cov _ _ _ HP' v Hv) as Dv. cbn [pe_pool] in Dv. rewrite Hvid, Ef in Dv.
    destruct Dv as [Dv|Dv]; [left; congruence|right].
    (* the modified VM has no process u any more *)
    assert (Hnu : ~ In u (v_procs v)).
    { rewrite Hid in Hvid. subst id.
      destruct (find_vm (v_id v) vms) as [v0|] eqn:Ev0.
      - destruct (set_procs_split (v_id v) f vms v0 Ev0) as (a & b & Hl & Ha & Hs).
        assert (Hfind : find_vm (v_id v) (set_procs (v_id v) f vms) = Some (mkvm (v_id v0) (v_it v0) (f (v_procs v0)))).
        { rewrite Hs. rewrite find_vm_app, Ha. cbn [find_vm v_id]. rewrite (find_vm_id _ _ _ Ev0), N.eqb_refl. reflexivity. }
        rewrite (in_find_vm _ v Hn' Hv) in Hfind. injection Hfind as ->. cbn [v_procs]. unfold f. intros Hin.
        apply filter_In in Hin. destruct Hin as [_ Hin]. rewrite N.eqb_refl in Hin. discriminate.
      - rewrite (set_procs_none _ _ _ Ev0) in Hv. exfalso.
        apply (in_find_vm _ v Hn) in Hv. congruence. }
    intros y Hy. specialize (Dv y Hy). rewrite B, C. apply in_app_iff in Dv. apply in_app_iff.
    destruct Dv as [Dv|Dv]; [left; exact Dv|right]. apply filter_In. split; [exact Dv|].
    destruct (N.eqb y u) eqn:E; [apply N.eqb_eq in E; subst; contradiction|reflexivity].
  - exact St.
  - apply U. apply (pi_stamps _ _ _ HP'). cbn [pe_pool]. eapply find_w_in; eauto.
  - exact L.
Qed.
