(* C02 — the boolean specification of model/C02_run.v reflects a Prop-level specification, and the
   model's own outcome (after any crash point, any source behaviour) satisfies it. *)
From Coq Require Import NArith Arith List String Bool Lia.
From AV Require Import lib.Str model.C02_model model.C02_run proofs.C02_proofs.
Import ListNotations.
Local Open Scope N_scope.

Definition Spec (c : case) : Prop :=
  (c_get c / 100 = 2 -> c_get_good c = true /\ c_get_len c = c_L c) /\
  (forall e, In e (c_index c) -> In e (c_index0 c) \/ (fst e = c_hash c /\ snd e = c_L c)) /\
  (forall e, In e (c_index c) -> is_block_name (fst e) = true) /\
  (c_acked c = Some true -> c_get c = 200 /\ c_get_good c = true).

Lemma entry_eqb_eq a b : entry_eqb a b = true <-> a = b.
Proof.
  destruct a as [x n], b as [y m]. unfold entry_eqb. cbn [fst snd]. rewrite andb_true_iff, String.eqb_eq, N.eqb_eq.
  split; [intros [-> ->]; reflexivity|intros X; inversion X; auto].
Qed.

Theorem spec_b_iff c : spec_b c = true <-> Spec c.
Proof.
  unfold spec_b, Spec. rewrite !andb_true_iff, !forallb_forall. split.
  - intros [[[A B] C] D]. split; [|split; [|split]].
    + intros Hg. apply N.eqb_eq in Hg. rewrite Hg in A. cbn in A. apply andb_true_iff in A. destruct A as [A1 A2].
      apply N.eqb_eq in A2. auto.
    + intros e He. specialize (B e He). apply orb_true_iff in B. destruct B as [B|B].
      * left. apply existsb_exists in B. destruct B as (x & X1 & X2). apply entry_eqb_eq in X2. subst. exact X1.
      * right. apply andb_true_iff in B. destruct B as [B1 B2]. apply String.eqb_eq in B1. apply N.eqb_eq in B2. auto.
    + exact C.
    + intros Ha. rewrite Ha in D. apply andb_true_iff in D. destruct D as [D1 D2]. apply N.eqb_eq in D1. auto.
  - intros (A & B & C & D). split; [split; [split|]|].
    + destruct (c_get c / 100 =? 2) eqn:E; [|reflexivity]. apply N.eqb_eq in E. destruct (A E) as [A1 A2].
      cbn. rewrite A1, A2, N.eqb_refl. reflexivity.
    + intros e He. apply orb_true_iff. destruct (B e He) as [X|[X Y]].
      * left. apply existsb_exists. exists e. split; [exact X|apply entry_eqb_eq; reflexivity].
      * right. rewrite X, Y, String.eqb_refl, N.eqb_refl. reflexivity.
    + exact C.
    + destruct (c_acked c) as [[|]|]; try reflexivity. destruct (D eq_refl) as [D1 D2]. rewrite D1, D2. reflexivity.
Qed.

(* what a restarted server reports from the disk the model predicts *)
Definition model_case (h : string) (L : N) (vs : list vold) (src : source) (k : nat) : case :=
  let after := crash vs L src k in
  {| c_hash := h; c_L := L; c_vols := vs; c_index0 := map (fun n => (h, n)) (index L vs);
     c_mode := Kill k; c_src := src; c_trace := firstn (S k) (map fst (fst (put_prog vs L src)));
     c_acked := None; c_after := after;
     c_get := match get_block after 404 with GData => 200 | GErr e => e end;
     c_get_good := match get_block after 404 with GData => true | GErr _ => false end;
     c_get_len := match get_block after 404 with GData => L | GErr _ => 0 end;
     c_index := map (fun n => (h, n)) (index L after) |}.

Lemma get_block_err_code : forall vs e, (e = 404 \/ e = 500) -> forall c, get_block vs e = GErr c -> c = 404 \/ c = 500.
Proof.
  induction vs as [|v r IH]; intros e He c; cbn [get_block]; [intros X; inversion X; subst; exact He|].
  destruct (d_blk v) as [[|n]|]; [discriminate|apply IH; auto|apply IH; exact He].
Qed.

(* for every body length, volume set, prior state, source behaviour and crash point, the disk the
   model predicts satisfies the specification that judges the implementation *)
Theorem model_meets_spec h L vs src k : is_block_name h = true -> Spec (model_case h L vs src k).
Proof.
  intros Hh. unfold Spec, model_case. cbn [c_get c_get_good c_get_len c_L c_index c_index0 c_hash c_acked].
  split; [|split; [|split]].
  - destruct (get_block (crash vs L src k) 404) as [|e] eqn:E; [auto|].
    intros X. exfalso. destruct (get_block_err_code _ 404 (or_introl eq_refl) e E) as [-> | ->]; vm_compute in X; discriminate.
  - intros e He. apply in_map_iff in He. destruct He as (n & <- & Hn). destruct (crash_index _ _ _ _ _ Hn) as [X|X].
    + left. apply in_map. exact X.
    + right. cbn. auto.
  - intros e He. apply in_map_iff in He. destruct He as (n & <- & _). exact Hh.
  - discriminate.
Qed.

(* after a run that was acknowledged, a restarted server serves the block *)
Theorem model_ack_then_get vs L src : snd (put_prog vs L src) = true -> get_block (finish vs L src) 404 = GData.
Proof. apply put_ack_durable. Qed.
