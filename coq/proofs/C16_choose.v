(* C16 — proofs about the ChooseInstanceType model (model/C16_model.v). *)
From Coq Require Import List ZArith Bool String Ascii NArith Lia Permutation Sorted.
From AV Require Import model.C16_model.
Import ListNotations.
Local Open Scope Z_scope.

(* ------------------------------------------------------------------ *)
(* the switch, with cases 2-5 folded into [adequate]                   *)

Lemma step_alt n ok best t :
  step n (ok, best) t =
  if ok && (price best <? price t) then (ok, best)
  else if negb (adequate n t) then (ok, best)
  else if (price t =? price best) && ((ram t <? ram best) || (vcpus t <? vcpus best)) then (ok, best)
  else (true, t).
Proof.
  unfold step, adequate.
  rewrite (Z.ltb_antisym (n_scratch n) (scratch t)), (Z.ltb_antisym (n_ram n) (ram t)),
          (Z.ltb_antisym (n_vcpus n) (vcpus t)).
  destruct (ok && (price best <? price t)); [reflexivity|].
  destruct (n_scratch n <=? scratch t); cbn [negb andb]; [|reflexivity].
  destruct (n_ram n <=? ram t); cbn [negb andb]; [|reflexivity].
  destruct (n_vcpus n <=? vcpus t); cbn [negb andb]; [|reflexivity].
  destruct (Bool.eqb (preempt t) (n_preempt n)); cbn [negb]; reflexivity.
Qed.

Definition all_sane (ts : list itype) : Prop := forall t, In t ts -> sane t = true.

Lemma sane_spec t : sane t = true <-> 0 <= ram t /\ 0 <= vcpus t.
Proof. unfold sane. rewrite andb_true_iff, !Z.leb_le. tauto. Qed.

(* what one iteration can do *)
Lemma step_cases n ok best t :
  (step n (ok, best) t = (ok, best) /\
     ((ok = true /\ price best < price t) \/ adequate n t = false \/
      (price t = price best /\ (ram t < ram best \/ vcpus t < vcpus best)))) \/
  (step n (ok, best) t = (true, t) /\ adequate n t = true /\
     (ok = false \/ price t <= price best) /\
     ~ (price t = price best /\ (ram t < ram best \/ vcpus t < vcpus best))).
Proof.
  rewrite step_alt.
  destruct (ok && (price best <? price t)) eqn:E1.
  { left. split; [reflexivity|]. left. apply andb_true_iff in E1. destruct E1 as [-> E]. apply Z.ltb_lt in E. auto. }
  destruct (adequate n t) eqn:Ea; cbn [negb].
  2:{ left. split; [reflexivity|]. right; left; reflexivity. }
  destruct ((price t =? price best) && ((ram t <? ram best) || (vcpus t <? vcpus best))) eqn:E3.
  { left. split; [reflexivity|]. right; right.
    apply andb_true_iff in E3. destruct E3 as [Ep Er]. apply Z.eqb_eq in Ep. apply orb_true_iff in Er.
    rewrite !Z.ltb_lt in Er. auto. }
  right. split; [reflexivity|]. split; [reflexivity|]. split.
  - apply andb_false_iff in E1. destruct E1 as [E1|E1]; [left; exact E1|right; apply Z.ltb_ge in E1; exact E1].
  - intros [Ep Er]. apply andb_false_iff in E3. destruct E3 as [E3|E3].
    + apply Z.eqb_neq in E3. auto.
    + apply orb_false_iff in E3. rewrite !Z.ltb_ge in E3. lia.
Qed.

(* ------------------------------------------------------------------ *)
(* invariant that needs no hypothesis on the table                     *)

Definition inv0 (n : need) (seen : list itype) (st : bool * itype) : Prop :=
  (fst st = true -> In (snd st) seen /\ adequate n (snd st) = true) /\
  (fst st = false -> snd st = zero_it).

Lemma fold_inv0 n ts : forall seen st, inv0 n seen st -> inv0 n (seen ++ ts) (fold_left (step n) ts st).
Proof.
  induction ts as [|t ts IH]; intros seen st H; cbn [fold_left].
  - rewrite app_nil_r. exact H.
  - replace (seen ++ t :: ts) with ((seen ++ [t]) ++ ts) by (rewrite <- app_assoc; reflexivity).
    apply IH. destruct st as [ok best]. destruct H as [H1 H2]. cbn [fst snd] in *.
    destruct (step_cases n ok best t) as [[-> _]|[-> [Ha _]]]; split; cbn [fst snd]; intros E.
    + destruct (H1 E) as [Hin Had]. split; [apply in_or_app; left; exact Hin|exact Had].
    + auto.
    + split; [apply in_or_app; right; left; reflexivity|exact Ha].
    + discriminate.
Qed.

Lemma choose_loop_inv0 n ts : inv0 n ts (choose_loop n ts).
Proof.
  unfold choose_loop. apply (fold_inv0 n ts [] (false, zero_it)).
  split; cbn [fst snd]; [discriminate|reflexivity].
Qed.

Lemma choose_need_chosen n ts r : choose_need n ts = Chosen r -> choose_loop n ts = (true, r).
Proof.
  unfold choose_need. destruct ts as [|t ts]; [discriminate|].
  destruct (choose_loop n (t :: ts)) as [ok best]. destruct ok; [|discriminate].
  intros H. injection H as <-. reflexivity.
Qed.

Theorem choose_adequate n ts r : choose_need n ts = Chosen r -> adequate n r = true.
Proof.
  intros H. apply choose_need_chosen in H. pose proof (choose_loop_inv0 n ts) as [H1 _].
  rewrite H in H1. cbn [fst snd] in H1. apply H1. reflexivity.
Qed.

Theorem choose_in_table n ts r : choose_need n ts = Chosen r -> In r ts.
Proof.
  intros H. apply choose_need_chosen in H. pose proof (choose_loop_inv0 n ts) as [H1 _].
  rewrite H in H1. cbn [fst snd] in H1. apply H1. reflexivity.
Qed.

(* ------------------------------------------------------------------ *)
(* full invariant (tables with non-negative RAM/VCPUs)                 *)

Definition dom (t r : itype) : Prop :=
  ram r <= ram t /\ vcpus r <= vcpus t /\ (ram r < ram t \/ vcpus r < vcpus t).
Lemma dominates_spec t r : dominates t r = true <-> dom t r.
Proof.
  unfold dominates, dom. rewrite !andb_true_iff, orb_true_iff, !Z.leb_le, !Z.ltb_lt. tauto.
Qed.

Definition inv1 (n : need) (seen : list itype) (st : bool * itype) : Prop :=
  (fst st = true ->
     forall x, In x seen -> adequate n x = true ->
       price (snd st) <= price x /\ (price x = price (snd st) -> ~ dom x (snd st))) /\
  (fst st = false -> snd st = zero_it /\ forall x, In x seen -> adequate n x = false).

Lemma fold_inv1 n ts : forall seen st, all_sane ts -> inv1 n seen st ->
  inv1 n (seen ++ ts) (fold_left (step n) ts st).
Proof.
  induction ts as [|t ts IH]; intros seen st Hs H; cbn [fold_left].
  - rewrite app_nil_r. exact H.
  - replace (seen ++ t :: ts) with ((seen ++ [t]) ++ ts) by (rewrite <- app_assoc; reflexivity).
    apply IH; [intros x Hx; apply Hs; right; exact Hx|].
    assert (Hst : 0 <= ram t /\ 0 <= vcpus t) by (apply sane_spec, Hs; left; reflexivity).
    destruct st as [ok best]. destruct H as [H1 H2]. cbn [fst snd] in *.
    destruct (step_cases n ok best t) as [[-> Hwhy]|[-> [Ha [Hle Hnw]]]]; split; cbn [fst snd]; intros E.
    + (* skipped, ok = true *)
      subst ok. intros x Hx Hax. apply in_app_or in Hx. destruct Hx as [Hx|[<-|[]]]; [apply H1; auto|].
      destruct Hwhy as [[_ Hp]|[Hna|[Hp Hw]]].
      * split; [lia|]. intros Heq. lia.
      * congruence.
      * split; [lia|]. intros _ [D1 [D2 _]]. lia.
    + (* skipped, ok = false *)
      subst ok. destruct (H2 eq_refl) as [Hz Hall]. split; [exact Hz|].
      intros x Hx. apply in_app_or in Hx. destruct Hx as [Hx|[<-|[]]]; [apply Hall; exact Hx|].
      destruct Hwhy as [[Hf _]|[Hna|[Hp Hw]]]; [discriminate|exact Hna|].
      subst best. cbn [ram vcpus zero_it] in Hw. lia.
    + (* taken *)
      intros x Hx Hax. apply in_app_or in Hx. destruct Hx as [Hx|[<-|[]]].
      * destruct ok.
        -- destruct (H1 eq_refl x Hx Hax) as [Hpx Hdx].
           destruct Hle as [Hf|Hle]; [discriminate|]. split; [lia|].
           intros Heq [D1 [D2 D3]].
           assert (Hpb : price x = price best) by lia.
           apply (Hdx Hpb). unfold dom.
           assert (Hpt : price t = price best) by lia.
           assert (ram best <= ram t /\ vcpus best <= vcpus t) by lia. lia.
        -- destruct (H2 eq_refl) as [_ Hall]. rewrite (Hall x Hx) in Hax. discriminate.
      * split; [lia|]. intros _ [_ [_ D3]]. lia.
    + discriminate.
Qed.

Lemma choose_loop_inv1 n ts : all_sane ts -> inv1 n ts (choose_loop n ts).
Proof.
  intros Hs. unfold choose_loop. apply (fold_inv1 n ts [] (false, zero_it) Hs).
  split; cbn [fst snd]; [discriminate|]. intros _. split; [reflexivity|intros x []].
Qed.

Theorem choose_cheapest n ts r x :
  all_sane ts -> choose_need n ts = Chosen r -> In x ts -> adequate n x = true -> price r <= price x.
Proof.
  intros Hs H Hx Ha. apply choose_need_chosen in H. pose proof (choose_loop_inv1 n ts Hs) as [H1 _].
  rewrite H in H1. cbn [fst snd] in H1. apply (H1 eq_refl x Hx Ha).
Qed.

Theorem choose_pareto n ts r x :
  all_sane ts -> choose_need n ts = Chosen r -> In x ts -> adequate n x = true -> price x = price r -> ~ dom x r.
Proof.
  intros Hs H Hx Ha. apply choose_need_chosen in H. pose proof (choose_loop_inv1 n ts Hs) as [H1 _].
  rewrite H in H1. cbn [fst snd] in H1. apply (H1 eq_refl x Hx Ha).
Qed.

(* error exactly when the table is empty or no type is adequate *)
Theorem choose_no_types n ts : choose_need n ts = ErrNoTypes <-> ts = [].
Proof.
  unfold choose_need. destruct ts as [|t ts]; [tauto|]. destruct (choose_loop n (t :: ts)) as [[|] b]; split; discriminate.
Qed.

Theorem choose_error_iff_none n ts :
  all_sane ts -> ts <> [] ->
  ((exists av, choose_need n ts = ErrUnsat av) <-> forall x, In x ts -> adequate n x = false).
Proof.
  intros Hs Hne. split.
  - intros [av H]. unfold choose_need in H. destruct ts as [|t ts]; [discriminate|].
    pose proof (choose_loop_inv1 n (t :: ts) Hs) as [_ H2].
    destruct (choose_loop n (t :: ts)) as [ok best]. destruct ok; [discriminate|].
    apply (H2 eq_refl).
  - intros Hall. unfold choose_need. destruct ts as [|t ts]; [congruence|].
    pose proof (choose_loop_inv0 n (t :: ts)) as [H1 _].
    destruct (choose_loop n (t :: ts)) as [ok best]. destruct ok; [|eexists; reflexivity].
    cbn [fst snd] in H1. destruct (H1 eq_refl) as [Hin Ha]. rewrite (Hall best Hin) in Ha. discriminate.
Qed.

(* the error lists every configured type, ordered by price *)
Lemma ins_price_perm x l : Permutation (ins_price x l) (x :: l).
Proof.
  induction l as [|y r IH]; cbn [ins_price]; [reflexivity|].
  destruct (price x <? price y); [reflexivity|]. rewrite IH. apply perm_swap.
Qed.
Lemma sort_price_perm l : Permutation (sort_price l) l.
Proof.
  induction l as [|x r IH]; cbn [sort_price fold_right]; [constructor|].
  fold (sort_price r). rewrite ins_price_perm. constructor. exact IH.
Qed.
Definition price_le (a b : itype) : Prop := price a <= price b.
Lemma ins_price_sorted x l : StronglySorted price_le l -> StronglySorted price_le (ins_price x l).
Proof.
  induction l as [|y r IH]; intros H; cbn [ins_price].
  - repeat constructor.
  - apply StronglySorted_inv in H. destruct H as [Hr Hy].
    destruct (price x <? price y) eqn:E.
    + apply Z.ltb_lt in E. constructor; [constructor; auto|].
      constructor; [unfold price_le; lia|].
      rewrite Forall_forall in *. intros z Hz. specialize (Hy z Hz). unfold price_le in *. lia.
    + apply Z.ltb_ge in E. constructor; [apply IH; exact Hr|].
      rewrite Forall_forall in *. intros z Hz.
      apply (Permutation_in _ (ins_price_perm x r)) in Hz. destruct Hz as [<-|Hz]; [exact E|apply Hy; exact Hz].
Qed.
Lemma sort_price_sorted l : StronglySorted price_le (sort_price l).
Proof.
  induction l as [|x r IH]; cbn [sort_price fold_right]; [constructor|]. apply ins_price_sorted. exact IH.
Qed.
Theorem choose_error_lists_all n ts av :
  choose_need n ts = ErrUnsat av -> Permutation av ts /\ StronglySorted price_le av.
Proof.
  unfold choose_need. destruct ts as [|t ts]; [discriminate|].
  destruct (choose_loop n (t :: ts)) as [[|] b]; [discriminate|].
  intros H. injection H as <-. split; [exact (sort_price_perm (t :: ts))|exact (sort_price_sorted (t :: ts))].
Qed.

(* ------------------------------------------------------------------ *)
(* independence of the (map-iteration) order of the table             *)

Lemma all_sane_perm ts ts' : Permutation ts ts' -> all_sane ts -> all_sane ts'.
Proof. intros Hp Hs t Ht. apply Hs. apply (Permutation_in _ (Permutation_sym Hp)). exact Ht. Qed.

Definition same_outcome (a b : choice) : Prop :=
  match a, b with
  | Chosen x, Chosen y => price x = price y
  | ErrNoTypes, ErrNoTypes => True
  | ErrUnsat _, ErrUnsat _ => True
  | _, _ => False
  end.

Lemma chosen_or_error n ts :
  (exists r, choose_need n ts = Chosen r) \/ choose_need n ts = ErrNoTypes \/ (exists av, choose_need n ts = ErrUnsat av).
Proof. destruct (choose_need n ts); eauto. Qed.

Theorem choose_price_order_independent n ts ts' :
  all_sane ts -> Permutation ts ts' -> same_outcome (choose_need n ts) (choose_need n ts').
Proof.
  intros Hs Hp. pose proof (all_sane_perm _ _ Hp Hs) as Hs'.
  destruct ts as [|t0 ts0] eqn:Ets.
  { apply Permutation_nil in Hp. subst ts'. cbn. exact I. }
  rewrite <- Ets in *. assert (Hne : ts <> []) by (rewrite Ets; discriminate).
  assert (Hne' : ts' <> []).
  { intros ->. apply Permutation_sym, Permutation_nil in Hp. auto. }
  destruct (chosen_or_error n ts) as [[r Hr]|[Hr|[av Hr]]].
  - destruct (chosen_or_error n ts') as [[r' Hr']|[Hr'|[av' Hr']]].
    + rewrite Hr, Hr'. cbn.
      pose proof (choose_cheapest n ts r r' Hs Hr (Permutation_in _ (Permutation_sym Hp) (choose_in_table _ _ _ Hr')) (choose_adequate _ _ _ Hr')).
      pose proof (choose_cheapest n ts' r' r Hs' Hr' (Permutation_in _ Hp (choose_in_table _ _ _ Hr)) (choose_adequate _ _ _ Hr)).
      lia.
    + apply choose_no_types in Hr'. contradiction.
    + exfalso. pose proof (proj1 (choose_error_iff_none n ts' Hs' Hne') (ex_intro _ av' Hr')) as Hall.
      pose proof (choose_adequate _ _ _ Hr). pose proof (Hall r (Permutation_in _ Hp (choose_in_table _ _ _ Hr))). congruence.
  - apply choose_no_types in Hr. contradiction.
  - pose proof (proj1 (choose_error_iff_none n ts Hs Hne) (ex_intro _ av Hr)) as Hall.
    assert (Hall' : forall x, In x ts' -> adequate n x = false).
    { intros x Hx. apply Hall. apply (Permutation_in _ (Permutation_sym Hp)). exact Hx. }
    destruct (proj2 (choose_error_iff_none n ts' Hs' Hne') Hall') as [av' Hr']. rewrite Hr, Hr'. exact I.
Qed.

(* the order-independent characterisation used by the evaluator *)
Theorem choose_is_candidate n ts r : all_sane ts -> choose_need n ts = Chosen r -> candidate n ts r = true.
Proof.
  intros Hs H. unfold candidate. rewrite (choose_adequate _ _ _ H). cbn [andb].
  apply forallb_forall. intros t Ht. destruct (adequate n t) eqn:Ea; cbn [negb orb]; [|reflexivity].
  pose proof (choose_cheapest n ts r t Hs H Ht Ea) as Hc. apply andb_true_iff. split; [apply Z.leb_le; exact Hc|].
  destruct (price t =? price r) eqn:Ep; cbn [andb negb]; [|reflexivity].
  apply Z.eqb_eq in Ep. destruct (dominates t r) eqn:Ed; [|reflexivity].
  apply dominates_spec in Ed. exfalso. exact (choose_pareto n ts r t Hs H Ht Ea Ep Ed).
Qed.

(* the hypothesis all_sane is necessary: a free type with negative RAM is skipped by case 6 of the
   switch while ok == false (best is the zero InstanceType) *)
Example choose_needs_sane :
  let n := {| n_ram := -5; n_vcpus := 0; n_scratch := 0; n_preempt := false |} in
  let t := mkit 1 0 (-1) 1 0 false in
  adequate n t = true /\ choose_need n [t] = ErrUnsat [t].
Proof. vm_compute. split; reflexivity. Qed.

(* ------------------------------------------------------------------ *)
(* arithmetic                                                          *)

Lemma wrap64_id z : in64 z -> wrap64 z = z.
Proof.
  unfold in64, wrap64, two63, two64. intros H. rewrite Z.mod_small; lia.
Qed.
Lemma wrap64_range z : in64 (wrap64 z).
Proof.
  unfold in64, wrap64. pose proof (Z.mod_pos_bound (z + two63) two64 ltac:(reflexivity)).
  unfold two63, two64 in *. lia.
Qed.

(* inside the range the 100/95 scaling is the mathematical one *)
Theorem no_overflow_range r kc res :
  0 <= r -> 0 <= kc -> 0 <= res -> (r + kc + res) * 100 < two63 ->
  need_ram r kc res = (r + kc + res) * 100 / 95.
Proof.
  intros H1 H2 H3 H4. unfold need_ram, two63 in *.
  rewrite (wrap64_id (r + kc)) by (unfold in64, two63; lia).
  rewrite (wrap64_id (r + kc + res)) by (unfold in64, two63; lia).
  rewrite (wrap64_id ((r + kc + res) * 100)) by (unfold in64, two63; lia).
  apply Z.quot_div_nonneg; lia.
Qed.

Lemma ram_threshold_div (x cap : Z) : 0 <= x -> (x * 100 / 95 <= cap <-> x * 100 < (cap + 1) * 95).
Proof.
  intros Hx. pose proof (Z.div_mod (x * 100) 95 ltac:(lia)). pose proof (Z.mod_pos_bound (x * 100) 95 ltac:(lia)). lia.
Qed.

(* an instance type has enough RAM iff 95% of (RAM+1) exceeds the request: the 5% discount, exactly *)
Theorem ram_threshold r kc res cap :
  0 <= r -> 0 <= kc -> 0 <= res -> (r + kc + res) * 100 < two63 ->
  (need_ram r kc res <= cap <-> (r + kc + res) * 100 < (cap + 1) * 95).
Proof.
  intros H1 H2 H3 H4. rewrite no_overflow_range by assumption. apply ram_threshold_div. lia.
Qed.

(* beyond the range the model (like the code) wraps: a concrete witness, replayed by the harness *)
Example need_ram_wraps : need_ram 92233720368547759 0 0 < 0.
Proof. vm_compute. reflexivity. Qed.

Lemma tmp_sum_from_nowrap ms : forall a,
  0 <= a -> Forall (fun m => 0 <= snd m) ms ->
  a + fold_left (fun (s : Z) (m : bool * Z) => if fst m then s + snd m else s) ms 0 < two63 ->
  fold_left (fun (a : Z) (m : bool * Z) => if fst m then wrap64 (a + snd m) else a) ms a =
  a + fold_left (fun (s : Z) (m : bool * Z) => if fst m then s + snd m else s) ms 0.
Proof.
  assert (Hshift : forall ms b, fold_left (fun (s : Z) (m : bool * Z) => if fst m then s + snd m else s) ms b =
                                b + fold_left (fun (s : Z) (m : bool * Z) => if fst m then s + snd m else s) ms 0).
  { clear. induction ms as [|m ms IH]; intros b; cbn [fold_left]; [lia|].
    rewrite IH. rewrite (IH (if fst m then 0 + snd m else 0)). destruct (fst m); lia. }
  assert (Hnn : forall ms, Forall (fun m : bool * Z => 0 <= snd m) ms ->
                           0 <= fold_left (fun (s : Z) (m : bool * Z) => if fst m then s + snd m else s) ms 0).
  { clear -Hshift. induction ms as [|m ms IH]; intros H; cbn [fold_left]; [lia|].
    apply Forall_cons_iff in H. destruct H as [Hm Hr]. rewrite Hshift. specialize (IH Hr). destruct (fst m); lia. }
  unfold two63. induction ms as [|m ms IH]; intros a Ha Hall Hb; cbn [fold_left] in *; [lia|].
  apply Forall_cons_iff in Hall. destruct Hall as [Hm Hr].
  rewrite Hshift in Hb. pose proof (Hnn ms Hr) as Hge.
  rewrite (Hshift ms (if fst m then 0 + snd m else 0)).
  destruct (fst m).
  - rewrite wrap64_id by (unfold in64, two63 in *; lia). rewrite IH; [lia|lia|exact Hr|lia].
  - rewrite IH; [lia|lia|exact Hr|lia].
Qed.

(* EstimateScratchSpace without overflow: max(sum of tmp capacities, image) + image *)
Theorem scratch_formula c :
  Forall (fun m => 0 <= snd m) (c_mounts c) ->
  0 <= estimate_image (c_image c) ->
  Z.max (tmp_total (c_mounts c)) (estimate_image (c_image c)) + estimate_image (c_image c) < two63 ->
  estimate_scratch c = Z.max (tmp_total (c_mounts c)) (estimate_image (c_image c)) + estimate_image (c_image c).
Proof.
  intros Hm Hi Hb. unfold estimate_scratch, tmp_sum.
  assert (Ht : 0 <= tmp_total (c_mounts c)).
  { unfold tmp_total. clear -Hm. induction (c_mounts c) as [|m ms IH]; cbn [fold_left]; [lia|].
    apply Forall_cons_iff in Hm. destruct Hm as [Hm Hr].
    assert (Hshift : forall ms b, fold_left (fun (s : Z) (m : bool * Z) => if fst m then s + snd m else s) ms b =
                                b + fold_left (fun (s : Z) (m : bool * Z) => if fst m then s + snd m else s) ms 0).
    { clear. induction ms as [|m ms IH]; intros b; cbn [fold_left]; [lia|].
      rewrite IH. rewrite (IH (if fst m then 0 + snd m else 0)). destruct (fst m); lia. }
    rewrite Hshift. specialize (IH Hr). destruct (fst m); lia. }
  rewrite (tmp_sum_from_nowrap (c_mounts c) 0 ltac:(lia) Hm) by (fold (tmp_total (c_mounts c)); lia).
  fold (tmp_total (c_mounts c)). rewrite Z.add_0_l.
  destruct (tmp_total (c_mounts c) <? estimate_image (c_image c)) eqn:E.
  - apply Z.ltb_lt in E. rewrite Z.max_r in * by lia. apply wrap64_id. unfold in64, two63 in *. lia.
  - apply Z.ltb_ge in E. rewrite Z.max_l in * by lia. apply wrap64_id. unfold in64, two63 in *. lia.
Qed.

(* the image estimate: (n - 80) / 42 blocks of 64 MiB for a manifest of n >= 122 bytes *)
Theorem image_formula pdh n :
  pdh_size pdh = Some n -> 122 <= n -> ((n - 80) / 42) * mib64 < two63 ->
  estimate_image pdh = ((n - 80) / 42) * mib64.
Proof.
  intros H H1 H2. unfold estimate_image. rewrite H.
  assert (n <= max_int64).
  { unfold max_int64, two63, mib64 in *.
    assert (n < 9223372036854775808 \/ 9223372036854775808 <= n) as [|Hbig] by lia; [lia|].
    exfalso. assert (219604096115589000 <= (n - 80) / 42) by (apply Z.div_le_lower_bound; lia). lia. }
  destruct (max_int64 <? n) eqn:E; [apply Z.ltb_lt in E; lia|].
  destruct (n <? 122) eqn:E2; [apply Z.ltb_lt in E2; lia|].
  apply wrap64_id. unfold in64, two63, mib64 in *.
  assert (0 <= (n - 80) / 42) by (apply Z.div_pos; lia). lia.
Qed.
Theorem image_small pdh : (forall n, pdh_size pdh = Some n -> n < 122) -> estimate_image pdh = 0.
Proof.
  intros H. unfold estimate_image. destruct (pdh_size pdh) as [n|]; [|reflexivity].
  specialize (H n eq_refl). destruct (max_int64 <? n); [reflexivity|].
  destruct (n <? 122) eqn:E; [reflexivity|]. apply Z.ltb_ge in E. lia.
Qed.

(* adequate = the four constraints of the property text *)
Theorem adequate_spec n t :
  adequate n t = true <->
  n_scratch n <= scratch t /\ n_ram n <= ram t /\ n_vcpus n <= vcpus t /\ preempt t = n_preempt n.
Proof.
  unfold adequate. rewrite !andb_true_iff, !Z.leb_le, eqb_true_iff. tauto.
Qed.
