(* C04 — the volume manager's reading of the cluster configuration (model/C04_conf.v) against the
   specification's reading (model/C04_conf_run.v), and what follows for histories: a volume that is not
   writable for this server is never changed. *)
From Coq Require Import ZArith NArith List String Bool Lia.
From AV Require Import lib.Str model.C04_model model.C04_run model.C04_conf model.C04_conf_run
  proofs.C04_proofs proofs.C04_frame_proofs proofs.C04_spec_proofs.
Import ListNotations.
Local Open Scope Z_scope.

(* ---- Prop-level reading of the configuration ---- *)
Definition Accessible (host : string) (cv : cvol) : Prop :=
  cv_access cv = [] \/ exists r, In (host, r) (cv_access cv).
Definition ReadOnlyHere (host : string) (cv : cvol) : Prop :=
  cv_ro cv = true \/ In (host, true) (cv_access cv).
Definition WritableHere (host : string) (cv : cvol) : Prop := Accessible host cv /\ ~ ReadOnlyHere host cv.
(* AccessViaHosts is a map: one entry per server URL *)
Definition MapLike (cv : cvol) : Prop := NoDup (map fst (cv_access cv)).

Lemma has_entry_iff host r acc : has_entry host r acc = true <-> In (host, r) acc.
Proof.
  unfold has_entry. rewrite existsb_exists. split.
  - intros ([u x] & Hin & H). cbn [fst snd] in H. apply andb_true_iff in H. destruct H as [H1 H2].
    apply String.eqb_eq in H1. apply Bool.eqb_prop in H2. subst. exact Hin.
  - intros Hin. exists (host, r). split; [exact Hin|]. cbn [fst snd]. rewrite String.eqb_refl, Bool.eqb_reflx. reflexivity.
Qed.

Lemma accessible_b_iff host cv : accessible_b host cv = true <-> Accessible host cv.
Proof.
  unfold accessible_b, Accessible. destruct (cv_access cv) as [|e acc] eqn:E.
  - split; [intros _; left; reflexivity|reflexivity].
  - rewrite orb_true_iff, !has_entry_iff. split.
    + intros [H|H]; right; eexists; exact H.
    + intros [H|[r H]]; [discriminate|]. destruct r; [left|right]; exact H.
Qed.
Lemma read_only_here_b_iff host cv : read_only_here_b host cv = true <-> ReadOnlyHere host cv.
Proof. unfold read_only_here_b, ReadOnlyHere. rewrite orb_true_iff, has_entry_iff. tauto. Qed.
Lemma writable_here_b_iff host cv : writable_here_b host cv = true <-> WritableHere host cv.
Proof.
  unfold writable_here_b, WritableHere. rewrite andb_true_iff, negb_true_iff, accessible_b_iff.
  rewrite <- read_only_here_b_iff. destruct (read_only_here_b host cv); intuition congruence.
Qed.

(* ---- the map lookup ---- *)
Lemma host_entry_some host : forall acc r, host_entry host acc = Some r -> In (host, r) acc.
Proof.
  induction acc as [|[u x] acc IH]; intros r H; cbn [host_entry] in H; [discriminate|].
  destruct (String.eqb_spec u host) as [->|Ne].
  - injection H as ->. left. reflexivity.
  - right. apply IH. exact H.
Qed.
Lemma host_entry_none host : forall acc, host_entry host acc = None -> forall r, ~ In (host, r) acc.
Proof.
  induction acc as [|[u x] acc IH]; intros H r Hin; cbn [host_entry] in H; [exact Hin|].
  destruct (String.eqb_spec u host) as [->|Ne]; [discriminate|].
  destruct Hin as [E|Hin]; [injection E as E1 E2; congruence|exact (IH H r Hin)].
Qed.
Lemma nodup_functional (host : string) : forall (acc : list (string * bool)) r r', NoDup (map fst acc) -> In (host, r) acc -> In (host, r') acc -> r = r'.
Proof.
  induction acc as [|[u x] acc IH]; intros r r' Hnd H1 H2; [destruct H1|].
  cbn [map fst] in Hnd. inversion Hnd as [|? ? Hnot Hnd']; subst.
  destruct H1 as [E1|H1], H2 as [E2|H2].
  - congruence.
  - injection E1 as -> ->. exfalso. apply Hnot. apply (in_map fst) in H2. exact H2.
  - injection E2 as -> ->. exfalso. apply Hnot. apply (in_map fst) in H1. exact H1.
  - exact (IH r r' Hnd' H1 H2).
Qed.

(* ---- one volume: the manager's mount = the specification's reading ---- *)
Definition spec_mount (host : string) (cv : cvol) : mount :=
  {| m_uuid := cv_uuid cv; m_ro := negb (writable_here_b host cv) |}.

Lemma mount_of_spec host cv : MapLike cv ->
  mount_of host cv = if accessible_b host cv then Some (spec_mount host cv) else None.
Proof.
  intros Hml. unfold mount_of, spec_mount, writable_here_b, read_only_here_b.
  destruct (host_entry host (cv_access cv)) as [r|] eqn:E.
  - pose proof (host_entry_some _ _ _ E) as Hin.
    assert (Ha : accessible_b host cv = true) by (apply accessible_b_iff; right; exists r; exact Hin).
    rewrite Ha. cbn [andb]. rewrite negb_involutive. f_equal. f_equal. f_equal.
    destruct (has_entry host true (cv_access cv)) eqn:Eh.
    + apply has_entry_iff in Eh. exact (nodup_functional host _ _ _ Hml Hin Eh).
    + destruct r; [|reflexivity]. apply has_entry_iff in Hin. congruence.
  - destruct (cv_access cv) as [|e acc] eqn:Ea.
    + unfold accessible_b. rewrite Ea. cbn. rewrite negb_involutive, orb_false_r. reflexivity.
    + assert (Ha : accessible_b host cv = false).
      { destruct (accessible_b host cv) eqn:Hb; [|reflexivity]. apply accessible_b_iff in Hb.
        destruct Hb as [Hb|[r Hb]]; [congruence|]. rewrite Ea in Hb. exfalso. exact (host_entry_none _ _ E r Hb). }
      rewrite Ha. reflexivity.
Qed.

Lemma is_mounted_spec host cv : MapLike cv -> is_mounted host cv = accessible_b host cv.
Proof. intros H. unfold is_mounted. rewrite (mount_of_spec host cv H). destruct (accessible_b host cv); reflexivity. Qed.

(* ---- the whole manager ---- *)
Theorem make_mounts_spec host : forall cvs, Forall MapLike cvs ->
  make_mounts host cvs = map (spec_mount host) (filter (accessible_b host) cvs).
Proof.
  induction cvs as [|cv r IH]; intros H; [reflexivity|]. inversion H as [|? ? H1 H2]; subst.
  cbn [make_mounts filter]. rewrite (mount_of_spec host cv H1). destruct (accessible_b host cv); cbn [map]; rewrite (IH H2); reflexivity.
Qed.

Lemma restrict_map {A B} (f : A -> B) : forall keep xs, restrict keep (map f xs) = map f (restrict keep xs).
Proof. induction keep as [|k ks IH]; intros [|x r]; cbn; try reflexivity. destruct k; cbn; rewrite IH; reflexivity. Qed.
Lemma restrict_filter {A} (p : A -> bool) : forall xs, restrict (map p xs) xs = filter p xs.
Proof. induction xs as [|x r IH]; [reflexivity|]. cbn. destruct (p x); rewrite IH; reflexivity. Qed.

(* the flags the specification judges with, restricted to the volumes the server can reach, are the
   flags of the manager's mounts (so [to_case] and [hmodel_case] describe the same server) *)
Theorem model_flags_agree host cvs : Forall MapLike cvs ->
  map m_ro (make_mounts host cvs) = restrict (reach_flags host cvs) (guarded_flags host cvs) /\
  map m_uuid (make_mounts host cvs) = restrict (reach_flags host cvs) (map cv_uuid cvs) /\
  map (is_mounted host) cvs = reach_flags host cvs.
Proof.
  intros H. rewrite (make_mounts_spec host cvs H). unfold reach_flags, guarded_flags.
  rewrite !restrict_map, restrict_filter, !map_map. split; [reflexivity|split; [reflexivity|]].
  apply map_ext_in. intros cv Hin. apply is_mounted_spec. rewrite Forall_forall in H. exact (H cv Hin).
Qed.

Theorem guarded_flags_spec host cvs :
  Forall2 (fun cv ro => ro = false <-> WritableHere host cv) cvs (guarded_flags host cvs).
Proof.
  unfold guarded_flags. induction cvs as [|cv r IH]; cbn [map]; constructor; [|exact IH].
  rewrite <- writable_here_b_iff. destruct (writable_here_b host cv); cbn; intuition congruence.
Qed.
Theorem reach_flags_spec host cvs :
  Forall2 (fun cv k => k = true <-> Accessible host cv) cvs (reach_flags host cvs).
Proof.
  unfold reach_flags. induction cvs as [|cv r IH]; cbn [map]; constructor; [|exact IH]. apply accessible_b_iff.
Qed.

(* ---- histories ---- *)
Lemma F2_refl {A} (R : A -> A -> Prop) : (forall x, R x x) -> forall l, Forall2 R l l.
Proof. intros H. induction l; constructor; auto. Qed.
Lemma F2_trans_ro : forall (a b c : list vol),
  Forall2 (fun v v' => v_ro v = true -> v' = v) a b -> Forall2 (fun v v' => v_ro v = true -> v' = v) b c ->
  Forall2 (fun v v' => v_ro v = true -> v' = v) a c.
Proof.
  induction a as [|x a IH]; intros b c H1 H2; inversion H1; subst; inversion H2; subst; constructor.
  - intros Hro. match goal with [ A : v_ro x = true -> ?y = x, B : v_ro ?y = true -> ?z = ?y |- ?z = x ] =>
      pose proof (A Hro) as E; subst y; exact (B Hro) end.
  - eapply IH; eassumption.
Qed.

Theorem readonly_final c : forall hs s,
  Forall2 (fun v v' => v_ro v = true -> v' = v) (vols s) (vols (final c s hs)).
Proof.
  induction hs as [|[now o] r IH]; intros s; cbn [final].
  - apply F2_refl. auto.
  - eapply F2_trans_ro; [apply (readonly_unchanged c now s o)|apply IH].
Qed.

Lemma F2_nth {A B} (R : A -> B -> Prop) : forall l l' i x, Forall2 R l l' -> nth_error l i = Some x ->
  exists y, nth_error l' i = Some y /\ R x y.
Proof.
  induction l as [|a l IH]; intros l' i x H Hn; [destruct i; discriminate|]. inversion H; subst.
  destruct i as [|i]; cbn in *; [injection Hn as ->; eexists; split; [reflexivity|assumption]|].
  eapply IH; eassumption.
Qed.

Lemma mk_vols_nth : forall ros us ls i v, nth_error (mk_vols ros us ls) i = Some v ->
  nth_error ros i = Some (v_ro v) /\ nth_error us i = Some (v_uuid v).
Proof.
  induction ros as [|ro ros IH]; intros us ls i v H; [destruct i; discriminate|].
  destruct us as [|u us]; [destruct i; discriminate|]. destruct ls as [|l ls]; [destruct i; discriminate|].
  cbn [mk_vols] in H. destruct i as [|i]; cbn [nth_error] in *.
  - injection H as <-. cbn. split; reflexivity.
  - exact (IH us ls i v H).
Qed.

(* "only on writable volumes", from the configuration: the server built from ANY configuration (one
   AccessViaHosts entry per server URL), planted with any listings, after EVERY history of requests:
   the i-th volume it can reach, if the configuration does not make it writable for this server —
   read-only at volume level OR in this server's AccessViaHosts entry — holds exactly what it held *)
Theorem not_writable_here_unchanged host cvs c ls hs i cv v :
  Forall MapLike cvs ->
  nth_error (filter (accessible_b host) cvs) i = Some cv -> ~ WritableHere host cv ->
  nth_error (vols (conf_state host cvs ls)) i = Some v ->
  nth_error (vols (final c (conf_state host cvs ls) hs)) i = Some v.
Proof.
  intros Hml Hcv Hnw Hv.
  destruct (F2_nth _ _ _ i v (readonly_final c hs (conf_state host cvs ls)) Hv) as (v' & Hv' & Hro).
  rewrite Hv'. f_equal. apply Hro.
  unfold conf_state in Hv. cbn [vols] in Hv. apply mk_vols_nth in Hv. destruct Hv as [Hr _].
  rewrite (make_mounts_spec host cvs Hml), map_map in Hr. rewrite nth_error_map, Hcv in Hr. cbn in Hr.
  injection Hr as Hr. rewrite <- Hr.
  destruct (writable_here_b host cv) eqn:E; [|reflexivity]. apply writable_here_b_iff in E. contradiction.
Qed.

(* and the mounts are exactly the reachable volumes, each read-only iff the configuration says so *)
Theorem mounts_from_configuration host cvs : Forall MapLike cvs ->
  Forall2 (fun cv m => m_uuid m = cv_uuid cv /\ Accessible host cv /\ (m_ro m = false <-> WritableHere host cv))
          (filter (accessible_b host) cvs) (make_mounts host cvs).
Proof.
  intros H. rewrite (make_mounts_spec host cvs H).
  clear H.
  assert (G : forall l, (forall cv, In cv l -> accessible_b host cv = true) ->
     Forall2 (fun cv m => m_uuid m = cv_uuid cv /\ Accessible host cv /\ (m_ro m = false <-> WritableHere host cv)) l (map (spec_mount host) l)).
  { induction l as [|cv l IH]; intros Hl; cbn [map]; constructor.
    - split; [reflexivity|]. split; [apply accessible_b_iff; apply Hl; left; reflexivity|].
      cbn [spec_mount m_ro]. rewrite <- writable_here_b_iff. destruct (writable_here_b host cv); cbn; intuition congruence.
    - apply IH. intros cv' Hin. apply Hl. right. exact Hin. }
  apply G. intros cv Hin. apply filter_In in Hin. tauto.
Qed.

(* ---- the boolean oracle of the configuration-carrying cases is the Prop-level specification ---- *)
Definition HSpec (hc : hcase) : Prop :=
  StepsOk (hc_cfg hc) (guarded_flags (hc_host hc) (hc_conf hc)) (map cv_uuid (hc_conf hc)) (hc_init hc) (hc_steps hc) /\
  FreshOk (hc_cfg hc) false (map (restrict_step (reach_flags (hc_host hc) (hc_conf hc))) (hc_steps hc)).
Theorem hspec_b_iff hc : hspec_b hc = true <-> HSpec hc.
Proof.
  unfold hspec_b, HSpec, spec_nofresh_b, to_case. cbn [c_cfg c_ro c_uuid c_init c_steps].
  rewrite andb_true_iff, steps_ok_iff, fresh_ok_iff. tauto.
Qed.

(* a guarded volume's directory is the same before and after every step of an accepted history *)
Lemma vols_step_guarded c st : forall ros us bs as_, VolsStepOk c st ros us bs as_ ->
  forall i b a, nth_error ros i = Some true -> nth_error bs i = Some b -> nth_error as_ i = Some a -> ListingEq b a.
Proof.
  induction 1 as [|ro ros u us b bs a as_ Hv _ IH]; intros i b0 a0 Hr Hb Ha; [destruct i; discriminate|].
  destruct i as [|i]; cbn [nth_error] in *.
  - injection Hr as ->. injection Hb as ->. injection Ha as ->.
    destruct Hv as [[[[[X|X] _] _] _] _]; [discriminate|exact X].
  - exact (IH i b0 a0 Hr Hb Ha).
Qed.

Lemma last_cons {A} : forall (l : list A) x d, last (x :: l) d = last l x.
Proof.
  induction l as [|y l IH]; intros x d; [reflexivity|].
  change (last (x :: y :: l) d) with (last (y :: l) d). rewrite !IH. reflexivity.
Qed.

Theorem hspec_guarded_unchanged hc : HSpec hc ->
  forall i cv, nth_error (hc_conf hc) i = Some cv -> ~ WritableHere (hc_host hc) cv ->
  forall before st rest pre, hc_steps hc = pre ++ st :: rest ->
    before = last (map s_after pre) (hc_init hc) ->
    forall b a, nth_error before i = Some b -> nth_error (s_after st) i = Some a -> ListingEq b a.
Proof.
  intros [HS _] i cv Hcv Hnw.
  assert (Hro : nth_error (guarded_flags (hc_host hc) (hc_conf hc)) i = Some true).
  { unfold guarded_flags. rewrite nth_error_map, Hcv. cbn. f_equal.
    destruct (writable_here_b (hc_host hc) cv) eqn:E; [|reflexivity]. apply writable_here_b_iff in E. contradiction. }
  revert HS. generalize (hc_init hc) as init. generalize (hc_steps hc) as sts.
  intros sts init HS before st rest pre. revert sts init HS before.
  induction pre as [|p pre IH]; intros sts init HS before E Eb b a Hb Ha; subst sts.
  - cbn in Eb. subst before. inversion HS; subst. eapply vols_step_guarded; eassumption.
  - cbn [app] in HS. inversion HS; subst.
    cbn [map] in Hb. rewrite last_cons in Hb.
    eapply (IH (pre ++ st :: rest) (s_after p)); try eassumption; reflexivity.
Qed.

(* regression witness about a VARIANT manager only (the writable set taken from the volume-level flag
   alone, ignoring this server's AccessViaHosts entry): there a DELETE trashes an old block on a volume
   that is read-only for this server *)
Definition variant_state (host : string) (conf : list cvol) (ls : list listing) : state :=
  let ms := make_mounts host conf in
  let cfg_level := map cv_ro (filter (is_mounted host) conf) in
  {| vols := mk_vols cfg_level (map m_uuid ms) ls; counter := 0 |}.
Theorem variant_cfg_level_writables_refuted :
  exists host cvs c ls hs cv v,
    Forall MapLike cvs /\ nth_error (filter (accessible_b host) cvs) 0 = Some cv /\ ~ WritableHere host cv /\
    nth_error (vols (variant_state host cvs ls)) 0 = Some v /\
    nth_error (vols (final c (variant_state host cvs ls) hs)) 0 <> Some v.
Proof.
  exists "me"%string, [CV "u" false [("me"%string, true); ("other"%string, false)]],
         {| ttl := 10; life := 0; blob_trash := true |}, [([B "a" 0], [])], [(100, Delete "a")].
  eexists. eexists. split; [|split; [reflexivity|split; [|split; [reflexivity|]]]].
  - constructor; [|constructor]. unfold MapLike. cbn. constructor; [|constructor; [|constructor]].
    + intros [H|[]]. discriminate.
    + intros [].
  - intros [_ H]. apply H. right. left. reflexivity.
  - vm_compute. discriminate.
Qed.
