(* C10 — what a verdict of the case evaluator means: the boolean specification clauses imply Prop-level statements
   quantified over ALL block stores (they compare canonical segment forms, never one store's bytes). *)
From Coq Require Import NArith Lia List Bool Ascii String.
From AV Require Import lib.Str lib.Md5 model.C10_manifest model.C10_ranges model.C10_fs model.C10_gomanifest model.C10_python
  model.C10_run proofs.C10_bytes_proofs proofs.C10_pdh_proofs.
Import ListNotations.
Local Open Scope string_scope.

Lemma same_files_sound m' m paths : same_files m' m paths = true ->
  forall st p, In p paths -> file_bytes st m' p = file_bytes st m p.
Proof.
  unfold same_files. intros H st p Hin. rewrite forallb_forall in H. unfold file_bytes.
  apply canon_eqb_bytes. apply H. exact Hin.
Qed.

(* FS stage: when the evaluator accepts a case whose manifest is valid, the manifest that MarshalManifest produced is
   valid and denotes, for every block store, the same bytes for every file; and the observed portable data hash is the
   published one *)
Theorem fs_spec_valid_sound : forall c, FS.spec_valid c = true -> valid_manifest (FS.c_txt c) = true ->
  exists m out m',
    parse_manifest (FS.c_txt c) = Some m /\ FS.o_marshal c = Some out /\
    valid_manifest out = true /\ parse_manifest out = Some m' /\
    ref_files m' = ref_files m /\ ref_dirs m' = ref_dirs m /\
    (forall st p, In p (ref_files m) -> file_bytes st m' p = file_bytes st m p) /\
    FS.o_pdh c = md5hex (strip_manifest (FS.c_txt c)) ++ "+" ++ dec (slen (strip_manifest (FS.c_txt c))).
Proof.
  intros c H Hv. unfold FS.spec_valid, FS.spec_valid_with in H. rewrite Hv in H. cbn [negb] in H.
  destruct (parse_manifest (FS.c_txt c)) as [m|]; [|discriminate].
  repeat (apply andb_prop in H; destruct H as [H ?]).
  match goal with Hm : match FS.o_marshal c with Some _ => _ | None => false end = true |- _ => rename Hm into HM end.
  match goal with Hp : String.eqb (FS.o_pdh c) _ = true |- _ => rename Hp into HP end.
  destruct (FS.o_marshal c) as [out|]; [|discriminate].
  apply andb_prop in HM. destruct HM as [Hvo HM].
  destruct (parse_manifest out) as [m'|] eqn:Ep; [|discriminate].
  apply andb_prop in HM. destruct HM as [HM Hsame]. apply andb_prop in HM. destruct HM as [Hf Hd].
  exists m, out, m'.
  split; [reflexivity|]. split; [reflexivity|]. split; [exact Hvo|]. split; [exact Ep|].
  split; [apply (list_eqb_eq String.eqb); [intros x y; apply String.eqb_eq|exact Hf]|].
  split; [apply (list_eqb_eq String.eqb); [intros x y; apply String.eqb_eq|exact Hd]|].
  split; [apply same_files_sound; exact Hsame|].
  apply String.eqb_eq in HP. exact HP.
Qed.

(* GM stage: an accepted Extract result is a valid manifest in which every destination holds, for every block store,
   the bytes of its source *)
Theorem gm_extract_ok_sound : forall m src reloc out, GM.extract_ok m src reloc out = true ->
  extract_ref m src (GM.strip_slash reloc) (has_suffix_slash reloc) <> [] ->
  exists m', valid_manifest out = true /\ parse_manifest out = Some m' /\
    forall st d s, In (d, s) (extract_ref m src (GM.strip_slash reloc) (has_suffix_slash reloc)) ->
                   file_bytes st m' d = file_bytes st m s.
Proof.
  intros m src reloc out H Hne. unfold GM.extract_ok in H.
  destruct (extract_ref m src (GM.strip_slash reloc) (has_suffix_slash reloc)) as [|e E] eqn:EE; [congruence|].
  apply andb_prop in H. destruct H as [Hv H]. destruct (parse_manifest out) as [m'|] eqn:Ep; [|discriminate].
  apply andb_prop in H. destruct H as [_ H]. exists m'. split; [exact Hv|]. split; [reflexivity|].
  intros st d s Hin. rewrite forallb_forall in H. specialize (H (d, s) Hin). cbn in H.
  unfold file_bytes. apply canon_eqb_bytes. exact H.
Qed.

(* the shared-MD5 formulation of FS.check_case is the plain one *)
Theorem fs_check_case_eq : forall c,
  FS.check_case c = ((if FS.model_b c then 0 else 1) + (if FS.spec_b c then 0 else 2))%N.
Proof.
  intros c. unfold FS.check_case, FS.model_b, FS.spec_b, FS.spec_valid, pdh.
  destruct (String.eqb (strip_manifest (FS.c_txt c)) (pdh_text (FS.c_txt c))) eqn:E.
  - apply String.eqb_eq in E. rewrite E. reflexivity.
  - reflexivity.
Qed.
