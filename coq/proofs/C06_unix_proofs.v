(* C06 (c') - a Directory volume that could not list one of its block directories never yields a response
   that an index reader accepts (model/C06_unix.v). *)
From Coq Require Import List Arith Bool Ascii String.
From AV Require Import lib.Str model.C06_model model.C06_unix proofs.C06_index.
Import ListNotations.
Local Open Scope string_scope.

(* a root entry that IndexTo looks into was opened and listed to its end *)
Definition readable (k : ukind) : Prop := exists files, k = UDir files None.

Lemma dir_out_ok pfx k : snd (dir_out pfx k) = true <-> readable k.
Proof.
  destruct k as [files [n|]|]; simpl; split; try discriminate; try (intros (f & E); discriminate).
  - intros _. exists files. reflexivity.
  - reflexivity.
Qed.

(* IndexTo returns nil exactly when every block directory it had to look into was readable *)
Theorem unix_index_ok_iff pfx : forall ents,
  snd (unix_index pfx ents) = true <-> (forall e, In e ents -> dir_selected pfx e = true -> readable (e_kind e)).
Proof.
  induction ents as [|e r IH]; simpl.
  - split; [intros _ e []|reflexivity].
  - destruct (unix_index pfx r) as [es ok] eqn:U. simpl in IH. destruct (dir_selected pfx e) eqn:S.
    + destruct (dir_out pfx (e_kind e)) as [d dok] eqn:D. simpl. rewrite andb_true_iff, IH.
      assert (X : dok = true <-> readable (e_kind e)) by (rewrite <- (dir_out_ok pfx), D; reflexivity).
      rewrite X. split.
      * intros [A B] x [<-|Hx] Hs; auto.
      * intros H. split; [apply H; auto|intros x Hx Hs; apply H; auto].
    + simpl. rewrite IH. split.
      * intros H x [<-|Hx] Hs; [congruence|auto].
      * intros H x Hx Hs. apply H; auto.
Qed.

(* ... and then the entries it wrote contain every block file of every such directory *)
Theorem unix_index_complete pfx : forall ents,
  snd (unix_index pfx ents) = true ->
  forall e files f, In e ents -> dir_selected pfx e = true -> e_kind e = UDir files None ->
    In f files -> file_selected pfx f = true -> In (f_entry f) (fst (unix_index pfx ents)).
Proof.
  induction ents as [|e r IH]; simpl; intros Hok x files f Hx Hs Hk Hf Hfs; [contradiction|].
  destruct (unix_index pfx r) as [es ok] eqn:U. simpl in IH.
  destruct (dir_selected pfx e) eqn:S.
  - destruct (dir_out pfx (e_kind e)) as [d dok] eqn:D. simpl in *. apply andb_true_iff in Hok. destruct Hok as [H1 H2].
    apply in_or_app. destruct Hx as [<-|Hx].
    + left. rewrite Hk in D. simpl in D. injection D as <- _. apply in_map. apply filter_In. auto.
    + right. eapply IH; eauto.
  - simpl in *. destruct Hx as [<-|Hx]; [congruence|]. eapply IH; eauto.
Qed.

Lemma firstn_incl {A} (n : nat) : forall (l : list A) x, In x (firstn n l) -> In x l.
Proof. induction n as [|n IH]; intros [|y r] x H; simpl in *; try contradiction. destruct H as [H|H]; auto. Qed.

(* it never writes anything but lines of block files it saw *)
Theorem unix_index_sound pfx : forall ents x, In x (fst (unix_index pfx ents)) ->
  exists e files fa f, In e ents /\ dir_selected pfx e = true /\ e_kind e = UDir files fa /\ In f files /\
                       file_selected pfx f = true /\ f_entry f = x.
Proof.
  induction ents as [|e r IH]; simpl; intros x Hx; [contradiction|].
  destruct (unix_index pfx r) as [es ok] eqn:U. simpl in IH.
  destruct (dir_selected pfx e) eqn:S.
  - destruct (dir_out pfx (e_kind e)) as [d dok] eqn:D. simpl in Hx. apply in_app_or in Hx. destruct Hx as [Hx|Hx].
    + destruct (e_kind e) as [files [n|]|] eqn:K; simpl in D; injection D as <- _; [| |contradiction].
      * apply in_map_iff in Hx. destruct Hx as (f & <- & Hf). apply filter_In in Hf. destruct Hf as [Hf1 Hf2].
        exists e, files, (Some n), f. repeat split; auto. eapply firstn_incl; eauto.
      * apply in_map_iff in Hx. destruct Hx as (f & <- & Hf). apply filter_In in Hf. destruct Hf as [Hf1 Hf2].
        exists e, files, None, f. repeat split; auto.
    + destruct (IH x Hx) as (e' & files & fa & f & A & B1 & B2 & B3 & B4 & B5). exists e', files, fa, f. repeat split; auto.
  - simpl in Hx. destruct (IH x Hx) as (e' & files & fa & f & A & B1 & B2 & B3 & B4 & B5). exists e', files, fa, f. repeat split; auto.
Qed.

(* some block directory could not be opened or listed to its end: the response of the keepstore handler
   carries no end-of-index marker, both index readers reject it - whatever had been written before *)
Theorem unix_partial_index_rejected pfx ents e :
  In e ents -> dir_selected pfx e = true -> ~ readable (e_kind e) ->
  forallb wf_entry (fst (unix_index pfx ents)) = true ->
  (exists err, parse_index (unix_response pfx ents) = inl err) /\ get_index (unix_response pfx ents) = None.
Proof.
  intros Hin Hs Hn Hwf.
  assert (Ok : snd (unix_index pfx ents) = false).
  { destruct (snd (unix_index pfx ents)) eqn:E; [|reflexivity]. exfalso. apply Hn.
    apply (proj1 (unix_index_ok_iff pfx ents) E e Hin Hs). }
  unfold unix_response, unix_vol. rewrite Ok.
  apply (handle_index_truncated [] (fst (unix_index pfx ents)) (render_lines (fst (unix_index pfx ents))) "" []).
  - simpl. exact Hwf.
  - apply sapp_nil_r.
Qed.

(* every block directory readable: the response is the complete index of the entries written *)
Theorem unix_complete_index_response pfx ents :
  snd (unix_index pfx ents) = true -> unix_response pfx ents = render_index (fst (unix_index pfx ents)).
Proof.
  intros Ok. unfold unix_response, unix_vol. rewrite Ok. simpl. unfold render_index. reflexivity.
Qed.

(* regression witness: forgetting the remembered error when a later Close succeeds - a root entry "fff" that
   cannot be listed next to a healthy directory "abc": the variant's response is accepted as complete *)
Definition unix_index_forgetful (pfx : string) (ents : list uent) : list (string * string) * bool :=
  (fst (unix_index pfx ents), true).
Definition w_forget : list uent :=
  [ UE "fff" (UDir [] (Some 0));
    UE "abc" (UDir [UF "abc45678901234567890123456789012" "abc45678901234567890123456789012+3" "1500000000000000000"] None) ].
Lemma forgetful_variant_refuted :
  let body := handle_index [{| v_text := render_lines (fst (unix_index_forgetful "" w_forget)); v_ok := snd (unix_index_forgetful "" w_forget) |}] in
  get_index body <> None /\ snd (unix_index "" w_forget) = false /\ get_index (unix_response "" w_forget) = None.
Proof. vm_compute. repeat split; discriminate. Qed.
