(* C20 — theorems about a whole request (plan + one goroutine per cluster + merge). *)
From Coq Require Import NArith ZArith List Ascii String Bool Lia Permutation.
From AV Require Import lib.Str lib.SortPerm model.C20_model model.C20_run proofs.C20_proofs proofs.C20_plan.
Import ListNotations.
Local Open Scope string_scope.

Lemma flat_map_nil {A B} (f : A -> list B) l : (forall x, In x l -> f x = []) -> flat_map f l = [].
Proof.
  induction l as [|a l IH]; intros H; [reflexivity|]. cbn [flat_map]. rewrite H by (left; reflexivity).
  apply IH. intros x Hx. apply H. right. exact Hx.
Qed.

Section Main.
Variable cfg : config.
Variable page : string -> nat -> list string -> answer.

Definition split_runs (t : list string) : list (string * (trace * cstatus)) :=
  map (fun c => (c, crun cfg page c (todo_of c t))) (clusters t).

Lemma run_split o t :
  plan_of cfg o = PSplit (map (fun c => (c, todo_of c t)) (clusters t)) -> run cfg page o = OSplit (split_runs t).
Proof. intros H. unfold run. rewrite H. unfold split_runs. rewrite map_map. reflexivity. Qed.

Lemma crun_loop c todo : has_backend cfg c = true ->
  loop page c todo 0 (fst (crun cfg page c todo)) (snd (crun cfg page c todo)).
Proof. intros H. unfold crun. rewrite H. apply cloop_loop. lia. Qed.
Lemma crun_nobackend c todo : has_backend cfg c = false -> crun cfg page c todo = ([], CFail 404).
Proof. intros H. unfold crun. rewrite H. reflexivity. Qed.

(* any run of the model that splits comes from a plan *)
Lemma run_is_split o runs : run cfg page o = OSplit runs ->
  forall r, In r runs -> exists todo, r = (fst r, crun cfg page (fst r) todo).
Proof.
  unfold run. destruct (plan_of cfg o) as [code| | |gs]; try discriminate. intros H. injection H as <-.
  intros r Hr. apply in_map_iff in Hr. destruct Hr as (g & <- & _). exists (snd g). reflexivity.
Qed.

(* ---------- rejects_before_any_call ---------- *)
Theorem rejects_before_any_call o :
  federated o = true -> all_well_typed o = true -> remote_involved cfg o = true -> unsafe cfg o = true ->
  errs (run cfg page o) = [400%N] /\ n_calls (run cfg page o) = 0 /\ forall b, calls_to cfg o (run cfg page o) b = [].
Proof.
  intros F W R U. unfold run. rewrite (plan_reject cfg o F W R U). cbn. auto.
Qed.
Theorem bad_operand_rejected o :
  federated o = true -> all_well_typed o = false ->
  errs (run cfg page o) = [400%N] /\ n_calls (run cfg page o) = 0 /\ forall b, calls_to cfg o (run cfg page o) b = [].
Proof. intros F W. unfold run. rewrite (plan_bad_operand cfg o F W). cbn. auto. Qed.

(* ---------- unknown_cluster_fails ---------- *)
Lemma target_remote o u : is_target o u = true -> has_backend cfg (prefix u) = false -> remote_involved cfg o = true.
Proof.
  intros Hu Hb. unfold remote_involved. apply existsb_exists. exists u. split; [apply spec_targets_In; exact Hu|].
  unfold has_backend in Hb. apply orb_false_iff in Hb. destruct Hb as [Hb _]. rewrite Hb. reflexivity.
Qed.

Theorem unknown_cluster_fails o u :
  federated o = true -> all_well_typed o = true -> unsafe cfg o = false ->
  is_target o u = true -> has_backend cfg (prefix u) = false ->
  In 404%N (errs (run cfg page o)) /\ calls_to cfg o (run cfg page o) (prefix u) = [].
Proof.
  intros F W U Hu Hb. pose proof (target_remote o u Hu Hb) as R.
  destruct (plan_split cfg o F W R U) as (t & Hnd & Ht & Hp). rewrite (run_split o t Hp).
  assert (Hc : In (prefix u) (clusters t)) by (apply clusters_In; exists u; split; [apply Ht; exact Hu|reflexivity]).
  split.
  - cbn [errs]. apply in_flat_map. exists (prefix u, crun cfg page (prefix u) (todo_of (prefix u) t)). split.
    + unfold split_runs. apply in_map_iff. exists (prefix u). split; [reflexivity|exact Hc].
    + rewrite crun_nobackend by exact Hb. left. reflexivity.
  - cbn [calls_to]. apply flat_map_nil. intros r Hr. unfold split_runs in Hr. apply in_map_iff in Hr.
    destruct Hr as (c & <- & _). cbn [fst snd]. destruct (c =? prefix u) eqn:E; [|reflexivity].
    apply String.eqb_eq in E. subst c. rewrite crun_nobackend by exact Hb. reflexivity.
Qed.

(* ---------- error_propagates / no_progress_fails ---------- *)
Lemma split_status o runs c tr st : run cfg page o = OSplit runs -> In (c, (tr, st)) runs ->
  (tr = [] /\ st = CFail 404) \/ exists todo, loop page c todo 0 tr st.
Proof.
  intros H Hr. destruct (run_is_split o runs H _ Hr) as (todo & E). cbn [fst] in E.
  destruct (has_backend cfg c) eqn:Hb.
  - right. exists todo. pose proof (crun_loop c todo Hb) as L. injection E as E. rewrite <- E in L. exact L.
  - left. rewrite crun_nobackend in E by exact Hb. injection E as -> ->. auto.
Qed.
Lemma fail_in_errs runs c tr code : In (c, (tr, CFail code)) runs -> In code (errs (OSplit runs)).
Proof. intros H. cbn [errs]. apply in_flat_map. exists (c, (tr, CFail code)). split; [exact H|left; reflexivity]. Qed.

Theorem error_propagates o runs c tr st b code :
  run cfg page o = OSplit runs -> In (c, (tr, st)) runs -> In (b, AErr code) tr ->
  In 502%N (errs (run cfg page o)).
Proof.
  intros H Hr Hin. rewrite H. destruct (split_status o runs c tr st H Hr) as [[-> _]|(todo & L)]; [destruct Hin|].
  rewrite (loop_err page c todo 0 tr st L b code Hin) in Hr. eapply fail_in_errs; exact Hr.
Qed.
Theorem passthrough_error o rq code : run cfg page o = OPassed rq (AErr code) -> errs (run cfg page o) = [code].
Proof. intros ->. reflexivity. Qed.

Theorem no_progress_fails o runs c tr st b its :
  run cfg page o = OSplit runs -> In (c, (tr, st)) runs -> In (b, AItems its) tr ->
  its <> [] -> (forall x, In x (uuids its) -> ~ In x b) ->
  In 502%N (errs (run cfg page o)).
Proof.
  intros H Hr Hin Hne Hno. rewrite H. destruct (split_status o runs c tr st H Hr) as [[-> _]|(todo & L)]; [destruct Hin|].
  assert (Hs : existsb (fun u => mem u b) (uuids its) = false).
  { destruct (existsb (fun u => mem u b) (uuids its)) eqn:E; [|reflexivity]. apply existsb_exists in E.
    destruct E as (x & Hx & Hm). apply mem_In in Hm. exfalso. exact (Hno x Hx Hm). }
  rewrite (loop_stuck page c todo 0 tr st L b its Hin Hne Hs) in Hr. eapply fail_in_errs; exact Hr.
Qed.

(* every answer the model uses is the oracle's answer to that call, in order *)
Theorem answers_are_the_oracle's o runs c tr st k b a :
  run cfg page o = OSplit runs -> In (c, (tr, st)) runs -> nth_error tr k = Some (b, a) -> a = page c k b.
Proof.
  intros H Hr Hk. destruct (split_status o runs c tr st H Hr) as [[-> _]|(todo & L)]; [destruct k; discriminate|].
  apply (loop_oracle page c todo 0 tr st L k b a Hk).
Qed.

(* ---------- each backend is asked only for requested objects of its own prefix ---------- *)
Theorem asks_home_cluster_only o :
  federated o = true -> all_well_typed o = true -> remote_involved cfg o = true -> unsafe cfg o = false ->
  forall b rq, In rq (calls_to cfg o (run cfg page o) b) ->
  exists batch, rq = remote_opts cfg o batch /\ batch <> [] /\ forall u, In u batch -> is_target o u = true /\ prefix u = b.
Proof.
  intros F W R U b rq Hin. destruct (plan_split cfg o F W R U) as (t & Hnd & Ht & Hp). rewrite (run_split o t Hp) in Hin.
  cbn [calls_to] in Hin. apply in_flat_map in Hin. destruct Hin as (r & Hr & Hin).
  unfold split_runs in Hr. apply in_map_iff in Hr. destruct Hr as (c & <- & Hc). cbn [fst snd] in Hin.
  destruct (c =? b) eqn:E; [|destruct Hin]. apply String.eqb_eq in E. subst c.
  apply in_map_iff in Hin. destruct Hin as ([batch a] & <- & Hba). cbn [fst]. exists batch. split; [reflexivity|].
  destruct (has_backend cfg b) eqn:Hb; [|rewrite crun_nobackend in Hba by exact Hb; destruct Hba].
  destruct (loop_batches page b _ 0 _ _ (crun_loop b (todo_of b t) Hb) batch a Hba) as [A B]. split; [exact A|].
  intros u Hu. apply B in Hu. apply todo_of_In in Hu. destruct Hu as [Hu1 Hu2]. split; [apply Ht; exact Hu1|exact Hu2].
Qed.

(* no remote backend is contacted when every requested object is local *)
Theorem local_request_stays_local o :
  federated o = true -> all_well_typed o = true -> remote_involved cfg o = false ->
  forall b, b <> cf_local cfg -> calls_to cfg o (run cfg page o) b = [].
Proof.
  intros F W R b Hb. unfold run. destruct (plan_local cfg o F W R) as [-> | ->]; cbn [calls_to]; [|reflexivity].
  destruct (b =? cf_local cfg) eqn:E; [apply String.eqb_eq in E; contradiction|reflexivity].
Qed.

(* ---------- exactly once ---------- *)
Definition result_uuids (out : outcome) : list string := map (fun x => it_uuid (snd x)) (merged cfg out).

Lemma merged_perm out : Permutation (merged cfg out) (delivered cfg out).
Proof. unfold merged. destruct (Nat.leb 2 (nonempty_pages out)); [apply sort_perm|apply Permutation_refl]. Qed.

Lemma tr_uuids_map (tr : trace) :
  map (fun x : item => it_uuid x) (flat_map (fun ba : list string * answer => page_items (snd ba)) tr) = tr_uuids tr.
Proof.
  induction tr as [|e tr IH]; [reflexivity|]. cbn [flat_map]. rewrite map_app, IH. reflexivity.
Qed.
Lemma delivered_split_uuids t :
  map (fun x => it_uuid (snd x)) (delivered cfg (OSplit (split_runs t))) =
  flat_map (fun c => tr_uuids (fst (crun cfg page c (todo_of c t)))) (clusters t).
Proof.
  cbn [delivered]. unfold split_runs. generalize (clusters t). intros l.
  induction l as [|c l IH]; [reflexivity|]. cbn [map flat_map fst snd]. rewrite map_app, IH. f_equal.
  rewrite map_map. cbn [snd]. apply tr_uuids_map.
Qed.

Lemma count_flat_map_zero (f : string -> list string) (l : list string) (x : string) :
  (forall b, In b l -> count_occ string_dec (f b) x = 0) -> count_occ string_dec (flat_map f l) x = 0.
Proof.
  induction l as [|b l IH]; intros H; [reflexivity|]. cbn [flat_map]. rewrite count_occ_app.
  rewrite H by (left; reflexivity). rewrite IH; [reflexivity|]. intros b' Hb'. apply H. right. exact Hb'.
Qed.
Lemma count_flat_map_one (f : string -> list string) (l : list string) (x : string) (a : string) :
  NoDup l -> (forall b, In b l -> b <> a -> count_occ string_dec (f b) x = 0) ->
  count_occ string_dec (flat_map f l) x <= count_occ string_dec (f a) x.
Proof.
  induction l as [|b l IH]; intros Hnd H; cbn [flat_map]; [cbn; lia|].
  inversion Hnd as [|? ? Hn Hnd']; subst. rewrite count_occ_app.
  destruct (string_dec b a) as [E|E].
  - subst b. rewrite (count_flat_map_zero f l x); [lia|].
    intros b' Hb'. apply H; [right; exact Hb'|]. intros ->. contradiction.
  - rewrite (H b (or_introl eq_refl) E). cbn. apply IH; [exact Hnd'|]. intros b' Hb' Hne. apply H; [right; exact Hb'|exact Hne].
Qed.

Lemma crun_once o t c : (forall u, In u t <-> is_target o u = true) -> page_hyp page (is_target o) c ->
  forall x, is_target o x = true ->
    count_occ string_dec (tr_uuids (fst (crun cfg page c (todo_of c t)))) x <= 1 /\
    (In x (tr_uuids (fst (crun cfg page c (todo_of c t)))) -> prefix x = c).
Proof.
  intros Ht HH x Hx. destruct (has_backend cfg c) eqn:Hb.
  - destruct (loop_once page (is_target o) c _ 0 _ _ (crun_loop c (todo_of c t) Hb) HH x Hx) as [A B].
    split; [exact A|]. intros X. apply B in X. apply todo_of_In in X. tauto.
  - rewrite crun_nobackend by exact Hb. cbn. split; [lia|tauto].
Qed.

Theorem exactly_once_partial o :
  federated o = true -> all_well_typed o = true -> remote_involved cfg o = true -> unsafe cfg o = false ->
  (forall c, page_hyp page (is_target o) c) ->
  forall u, is_target o u = true ->
    count_occ string_dec (result_uuids (run cfg page o)) u <= 1 /\
    forall b i, In (b, i) (merged cfg (run cfg page o)) -> it_uuid i = u -> b = prefix u.
Proof.
  intros F W R U HH u Hu. destruct (plan_split cfg o F W R U) as (t & Hnd & Ht & Hp). rewrite (run_split o t Hp).
  split.
  - unfold result_uuids.
    rewrite (proj1 (Permutation_count_occ string_dec _ _)
                   (Permutation_map (fun x => it_uuid (snd x)) (merged_perm (OSplit (split_runs t)))) u).
    rewrite delivered_split_uuids.
    etransitivity; [apply (count_flat_map_one _ _ u (prefix u)); [apply dedup_NoDup|]|].
    + intros c Hc Hne. destruct (crun_once o t c Ht (HH c) u Hu) as [_ B].
      apply count_occ_not_In. intro X. apply B in X. congruence.
    + apply (crun_once o t (prefix u) Ht (HH _) u Hu).
  - intros b i Hin Hi. apply (Permutation_in _ (merged_perm _)) in Hin. cbn [delivered] in Hin.
    apply in_flat_map in Hin. destruct Hin as (r & Hr & Hin). unfold split_runs in Hr. apply in_map_iff in Hr.
    destruct Hr as (c & <- & Hc). cbn [fst snd] in Hin. apply in_map_iff in Hin. destruct Hin as (i' & E & Hi').
    injection E as Ec Ei. subst b i'. destruct (crun_once o t c Ht (HH c) u Hu) as [_ B]. symmetry. apply B.
    unfold tr_uuids. apply in_flat_map in Hi'. destruct Hi' as (e & He & Hi'). apply in_flat_map. exists e. split; [exact He|].
    unfold uuids. apply in_map_iff. exists i. split; [exact Hi|exact Hi'].
Qed.

(* ---------- honest backends: success and completeness ---------- *)
Theorem complete_when_honest o (E : string -> bool) :
  federated o = true -> all_well_typed o = true -> remote_involved cfg o = true -> unsafe cfg o = false ->
  (forall u, is_target o u = true -> has_backend cfg (prefix u) = true) ->
  (forall c, honest page E c) ->
  errs (run cfg page o) = [] /\
  forall u, In u (result_uuids (run cfg page o)) <-> is_target o u = true /\ E u = true.
Proof.
  intros F W R U Hb HH. destruct (plan_split cfg o F W R U) as (t & Hnd & Ht & Hp). rewrite (run_split o t Hp).
  assert (Hcl : forall c, In c (clusters t) ->
            let r := crun cfg page c (todo_of c t) in
            snd r = CDone /\ (forall x, In x (todo_of c t) -> E x = true -> In x (tr_uuids (fst r))) /\
            (forall x, In x (tr_uuids (fst r)) -> E x = true /\ In x (todo_of c t))).
  { intros c Hc. apply clusters_In in Hc. destruct Hc as (u & Hu & <-).
    assert (B : has_backend cfg (prefix u) = true) by (apply Hb; apply Ht; exact Hu).
    apply (loop_complete page E (prefix u) _ 0 _ _ (crun_loop _ _ B) (HH _)). }
  split.
  - cbn [errs]. apply flat_map_nil. intros r Hr. unfold split_runs in Hr. apply in_map_iff in Hr.
    destruct Hr as (c & <- & Hc). cbn [snd]. destruct (Hcl c Hc) as [-> _]. reflexivity.
  - intros u. unfold result_uuids.
    assert (P : Permutation (map (fun x => it_uuid (snd x)) (merged cfg (OSplit (split_runs t))))
                            (flat_map (fun c => tr_uuids (fst (crun cfg page c (todo_of c t)))) (clusters t))).
    { rewrite <- delivered_split_uuids. apply Permutation_map. apply merged_perm. }
    split.
    + intros Hin. apply (Permutation_in _ P) in Hin. apply in_flat_map in Hin. destruct Hin as (c & Hc & Hin).
      destruct (Hcl c Hc) as (_ & _ & C). destruct (C u Hin) as [C1 C2]. apply todo_of_In in C2. split; [apply Ht; tauto|exact C1].
    + intros [Hu Eu]. apply (Permutation_in _ (Permutation_sym P)). apply in_flat_map. exists (prefix u).
      assert (Hc : In (prefix u) (clusters t)) by (apply clusters_In; exists u; split; [apply Ht; exact Hu|reflexivity]).
      split; [exact Hc|]. destruct (Hcl _ Hc) as (_ & B & _). apply B; [|exact Eu]. apply todo_of_In. split; [apply Ht; exact Hu|reflexivity].
Qed.
End Main.

(* ---------- F9: without the page hypothesis "exactly once" fails ---------- *)
Definition f9_cfg : config := Cf "aaaaa" ["bbbbb"] 1000%Z.
Definition f9_b0 := "bbbbb-4zz18-000000000000000".
Definition f9_b1 := "bbbbb-4zz18-000000000000001".
Definition f9_opts : opts := Op false "" [Fl "uuid" "in" (OStrs [f9_b0; f9_b1])] "none" (-1)%Z 0%Z [] None.
(* remote bbbbb answers page 1 = [b0], page 2 = [b0, b1] *)
Definition f9_page (c : string) (n : nat) (batch : list string) : answer :=
  match n with O => AItems [It f9_b0 10] | _ => AItems [It f9_b0 11; It f9_b1 12] end.

Theorem exactly_once_refuted :
  federated f9_opts = true /\ all_well_typed f9_opts = true /\ remote_involved f9_cfg f9_opts = true /\
  unsafe f9_cfg f9_opts = false /\ is_target f9_opts f9_b0 = true /\
  errs (run f9_cfg f9_page f9_opts) = [] /\
  count_occ string_dec (result_uuids f9_cfg (run f9_cfg f9_page f9_opts)) f9_b0 = 2.
Proof. vm_compute. repeat split; reflexivity. Qed.

(* the hypotheses of exactly_once_partial / complete_when_honest are satisfiable: a backend that
   returns the first object of each batch, one per page *)
Definition ex_page (c : string) (n : nat) (batch : list string) : answer :=
  match batch with [] => AItems [] | u :: _ => AItems [It u (N.of_nat n)] end.
Example hypotheses_satisfiable :
  federated f9_opts = true /\ all_well_typed f9_opts = true /\ remote_involved f9_cfg f9_opts = true /\
  unsafe f9_cfg f9_opts = false /\
  (forall u, is_target f9_opts u = true -> has_backend f9_cfg (prefix u) = true) /\
  (forall c, page_hyp ex_page (is_target f9_opts) c) /\ (forall c, honest ex_page (fun _ => true) c) /\
  result_uuids f9_cfg (run f9_cfg ex_page f9_opts) = [f9_b1; f9_b0].
Proof.
  split; [reflexivity|]. split; [reflexivity|]. split; [reflexivity|]. split; [reflexivity|].
  split.
  { intros u Hu. apply spec_targets_In in Hu. vm_compute in Hu. destruct Hu as [<-|[<-|[]]]; reflexivity. }
  split.
  { intros c n b its H. unfold ex_page in H. destruct b as [|u b]; injection H as <-.
    - split; [constructor|intros x []].
    - split; [constructor; [intros []|constructor]|]. intros x [<-|[]]. left. left. reflexivity. }
  split.
  { intros c n b. unfold ex_page. destruct b as [|u b].
    - exists []. split; [reflexivity|]. split; [constructor|]. split; [intros x []|]. split; [intros x []|intros _ x []].
    - exists [It u (N.of_nat n)]. split; [reflexivity|]. split; [constructor; [intros []|constructor]|].
      split; [intros x [<-|[]]; left; reflexivity|]. split; [reflexivity|discriminate]. }
  vm_compute. reflexivity.
Qed.
