(* C18: the two scanners (rewriteManifest, PortableDataHash) on valid manifests.
     rw_valid        rewrite_manifest (render ss) r = render (map (rw_stream r) ss)
     pdh_text_valid  pdh_text (render ss)           = render (map strip_stream ss)
   for every list of well-formed streams ss. *)
From Coq Require Import NArith List Ascii String Bool Lia Arith.
From AV Require Import lib.Str lib.Md5 lib.TokSplit lib.ManifestTok model.C18_model.
Import ListNotations.
Local Open Scope string_scope.

(* ---------- joins as concatenations ---------- *)
Fixpoint cat_sp (l : list string) : string :=
  match l with [] => EmptyString | t :: r => String sp t ++ cat_sp r end.
Lemma join_sp_cat t ts : join sp (t :: ts) = t ++ cat_sp ts.
Proof.
  revert t. induction ts as [|u ts IH]; intros t; [cbn; rewrite app_nil_r_s; reflexivity|].
  rewrite join_cons, IH. reflexivity.
Qed.
Lemma join_plus_cat t ts : join plus (t :: ts) = t ++ concat_plus ts.
Proof.
  revert t. induction ts as [|u ts IH]; intros t; [cbn; rewrite app_nil_r_s; reflexivity|].
  rewrite join_cons, IH. reflexivity.
Qed.
Lemma cat_sp_app a b : cat_sp (a ++ b)%list = cat_sp a ++ cat_sp b.
Proof. induction a as [|t a IH]; [reflexivity|]. cbn [cat_sp app]. rewrite IH. cbn. rewrite app_assoc_s. reflexivity. Qed.

Lemma render_loc_eq l : render_loc l = l_hash l ++ String plus (l_size l ++ concat_plus (l_hints l)).
Proof. unfold render_loc. rewrite join_plus_cat. cbn [concat_plus]. reflexivity. Qed.
Lemma render_stream_eq s :
  render_stream s = s_name s ++ cat_sp (map render_loc (s_locs s)) ++ cat_sp (s_files s) ++ String nl "".
Proof.
  unfold render_stream, stream_tokens. rewrite join_sp_cat, cat_sp_app. rewrite ?app_assoc_s. reflexivity.
Qed.

(* ---------- character facts ---------- *)
Lemma eqb_false_of (p : ascii -> bool) c d : p c = true -> p d = false -> Ascii.eqb c d = false.
Proof. intros H1 H2. destruct (Ascii.eqb_spec c d) as [->|]; [congruence|reflexivity]. Qed.

Lemma lhex_not_sp c : is_lhex c = true -> Ascii.eqb c sp = false.
Proof. intros H. apply (eqb_false_of is_lhex); [exact H|reflexivity]. Qed.
Lemma lhex_not_plus c : is_lhex c = true -> Ascii.eqb c plus = false.
Proof. intros H. apply (eqb_false_of is_lhex); [exact H|reflexivity]. Qed.
Lemma digit_not_sp c : is_digit c = true -> Ascii.eqb c sp = false.
Proof. intros H. apply (eqb_false_of is_digit); [exact H|reflexivity]. Qed.
Lemma digit_not_plus c : is_digit c = true -> Ascii.eqb c plus = false.
Proof. intros H. apply (eqb_false_of is_digit); [exact H|reflexivity]. Qed.
Lemma digit_not_A c : is_digit c = true -> Ascii.eqb c "A" = false.
Proof. intros H. apply (eqb_false_of is_digit); [exact H|reflexivity]. Qed.
Lemma digit_lhex c : is_digit c = true -> is_lhex c = true.
Proof. unfold is_lhex. intros ->. reflexivity. Qed.
Lemma hintchar_not_sp c : is_hintchar c = true -> Ascii.eqb c sp = false.
Proof. intros H. apply (eqb_false_of is_hintchar); [exact H|reflexivity]. Qed.
Lemma hintchar_not_plus c : is_hintchar c = true -> Ascii.eqb c plus = false.
Proof. intros H. apply (eqb_false_of is_hintchar); [exact H|reflexivity]. Qed.
Lemma upper_hintchar c : is_upper c = true -> is_hintchar c = true.
Proof. unfold is_hintchar. intros ->. reflexivity. Qed.
Lemma plus_not_sp : Ascii.eqb plus sp = false. Proof. reflexivity. Qed.
Lemma nl_not_sp : Ascii.eqb nl sp = false. Proof. reflexivity. Qed.
Lemma plus_not_digit : is_digit plus = false. Proof. reflexivity. Qed.

Lemma all_chars_has_char p c s : (forall d, p d = true -> Ascii.eqb d c = false) -> all_chars p s = true -> has_char c s = false.
Proof.
  intros H. induction s as [|d s IH]; intros A; [reflexivity|]. cbn [all_chars has_char] in *.
  apply andb_true_iff in A. destruct A as [A1 A2]. rewrite (H d A1), (IH A2). reflexivity.
Qed.

(* ---------- prefixes ---------- *)
Lemma lhex_plus_app h y : all_chars is_lhex h = true -> lhex_plus (String.length h) (h ++ String plus y) = true.
Proof.
  induction h as [|c h IH]; intros A; [reflexivity|]. cbn [all_chars] in A. apply andb_true_iff in A. destruct A as [A1 A2].
  cbn [String.length append lhex_plus]. rewrite A1, (IH A2). reflexivity.
Qed.
Lemma loc_prefix_loc l x : wf_loc l = true -> loc_prefix (render_loc l ++ x) = true.
Proof.
  unfold wf_loc. rewrite !andb_true_iff. intros [[[[L H] _] _] _]. apply Nat.eqb_eq in L.
  unfold loc_prefix. rewrite <- L. rewrite render_loc_eq. rewrite app_assoc_s. cbn [append]. apply lhex_plus_app. exact H.
Qed.
Lemma digits_colon_no_prefix p y : all_chars is_digit p = true -> forall n, lhex_plus n (p ++ String colon y) = false.
Proof.
  induction p as [|c p IH]; intros A n.
  - cbn [append lhex_plus]. destruct n; reflexivity.
  - cbn [all_chars] in A. apply andb_true_iff in A. destruct A as [A1 A2]. cbn [append lhex_plus]. destruct n as [|n].
    + cbn [lhex_plus]. apply digit_not_plus. exact A1.
    + cbn [lhex_plus]. rewrite (IH A2). apply andb_false_r.
Qed.
Lemma file_shape f : wf_file f = true ->
  has_char sp f = false /\ exists p y, all_chars is_digit p = true /\ f = p ++ String colon y.
Proof.
  unfold wf_file, plain. rewrite !andb_true_iff. intros [[[_ S] _] H]. apply negb_true_iff in S. split; [exact S|].
  pose proof (join_split colon f) as J. destruct (split_on colon f) as [|p [|z [|n more]]]; try discriminate.
  rewrite !andb_true_iff in H. destruct H as [[[[_ P] _] _] _]. exists p, (join colon (z :: n :: more)).
  split; [exact P|]. rewrite <- J. rewrite join_cons. reflexivity.
Qed.
Lemma loc_prefix_file f x : wf_file f = true -> loc_prefix (f ++ x) = false.
Proof.
  intros W. destruct (file_shape f W) as [_ (p & y & P & ->)]. unfold loc_prefix. rewrite app_assoc_s. cbn [append].
  apply digits_colon_no_prefix. exact P.
Qed.

Lemma drop_app_len a b : drop (String.length a) (a ++ b) = b.
Proof. induction a as [|c a IH]; [reflexivity|]. cbn. exact IH. Qed.
Lemma blk_prefix_loc l x : wf_loc l = true -> blk_prefix (render_loc l ++ x) = true.
Proof.
  intros W. unfold blk_prefix. rewrite (loc_prefix_loc l x W). cbn [andb].
  unfold wf_loc in W. rewrite !andb_true_iff in W. destruct W as [[[[L _] N] D] _]. apply Nat.eqb_eq in L.
  rewrite render_loc_eq. rewrite app_assoc_s. cbn [append].
  replace 33 with (String.length (l_hash l ++ String plus "")).
  2:{ rewrite length_app. cbn. lia. }
  replace (l_hash l ++ String plus ((l_size l ++ concat_plus (l_hints l)) ++ x))
    with ((l_hash l ++ String plus "") ++ ((l_size l ++ concat_plus (l_hints l)) ++ x)).
  2:{ rewrite app_assoc_s. reflexivity. }
  rewrite drop_app_len. destruct (l_size l) as [|d z]; [discriminate|]. cbn [append all_chars] in *.
  apply andb_true_iff in D. tauto.
Qed.
Lemma blk_prefix_file f x : wf_file f = true -> blk_prefix (f ++ x) = false.
Proof. intros W. unfold blk_prefix. rewrite (loc_prefix_file f x W). reflexivity. Qed.

(* ================= rewriteManifest ================= *)
Section RW.
Variable r : string.

Lemma rw_space st x : rw r st (String sp x) = String sp (rw r (if loc_prefix x then RLoc else ROut) x).
Proof. reflexivity. Qed.
Lemma rw_out_plain s x : has_char sp s = false -> rw r ROut (s ++ x) = s ++ rw r ROut x.
Proof.
  induction s as [|c s IH]; intros H; [reflexivity|]. cbn [has_char] in H. apply orb_false_iff in H. destruct H as [H1 H2].
  cbn [append rw]. rewrite H1, (IH H2). reflexivity.
Qed.
Lemma rw_loc_plain s x : has_char sp s = false -> has_char plus s = false -> rw r RLoc (s ++ x) = s ++ rw r RLoc x.
Proof.
  induction s as [|c s IH]; intros H P; [reflexivity|]. cbn [has_char] in H, P.
  apply orb_false_iff in H. destruct H as [H1 H2]. apply orb_false_iff in P. destruct P as [P1 P2].
  cbn [append rw]. rewrite H1, P1, (IH H2 P2). reflexivity.
Qed.
Lemma hintchars_plain t : all_chars is_hintchar t = true -> has_char sp t = false /\ has_char plus t = false.
Proof.
  intros A. split; apply (all_chars_has_char is_hintchar); try exact A; intros d Hd; [apply hintchar_not_sp|apply hintchar_not_plus]; exact Hd.
Qed.
Lemma rw_hint_step h x : wf_hint h = true ->
  rw r RLoc (String plus h ++ x) = String plus (rw_hint r h) ++ rw r RLoc x.
Proof.
  destruct h as [|c t]; [discriminate|]. cbn [wf_hint]. intros W. apply andb_true_iff in W. destruct W as [U A].
  destruct (hintchars_plain t A) as [S P].
  cbn [append rw]. rewrite plus_not_sp. cbn [rw]. rewrite Ascii.eqb_refl.
  rewrite (hintchar_not_sp c (upper_hintchar c U)). cbn [rw_hint].
  destruct (Ascii.eqb c "A") eqn:E.
  - rewrite (rw_loc_plain t x S P). rewrite ?app_assoc_s. reflexivity.
  - rewrite (hintchar_not_plus c (upper_hintchar c U)). rewrite (rw_loc_plain t x S P). reflexivity.
Qed.
Lemma rw_hints hs x : forallb wf_hint hs = true ->
  rw r RLoc (concat_plus hs ++ x) = concat_plus (map (rw_hint r) hs) ++ rw r RLoc x.
Proof.
  induction hs as [|h hs IH]; intros W; [reflexivity|]. cbn [forallb] in W. apply andb_true_iff in W. destruct W as [W1 W2].
  cbn [concat_plus map]. rewrite app_assoc_s. rewrite (rw_hint_step h _ W1), (IH W2). rewrite app_assoc_s. reflexivity.
Qed.
Lemma rw_size z x : nonempty z = true -> all_chars is_digit z = true ->
  rw r RLoc (String plus z ++ x) = String plus z ++ rw r RLoc x.
Proof.
  destruct z as [|d z]; [discriminate|]. intros _ A. cbn [all_chars] in A. apply andb_true_iff in A. destruct A as [D A].
  assert (S : has_char sp z = false) by (apply (all_chars_has_char is_digit); [intros; apply digit_not_sp; assumption|exact A]).
  assert (P : has_char plus z = false) by (apply (all_chars_has_char is_digit); [intros; apply digit_not_plus; assumption|exact A]).
  cbn [append rw]. rewrite plus_not_sp. cbn [rw]. rewrite Ascii.eqb_refl.
  rewrite (digit_not_sp d D), (digit_not_A d D), (digit_not_plus d D). rewrite (rw_loc_plain z x S P). reflexivity.
Qed.
Lemma rw_one_loc l x : wf_loc l = true -> rw r RLoc (render_loc l ++ x) = render_loc (rw_loc r l) ++ rw r RLoc x.
Proof.
  intros W. unfold wf_loc in W. rewrite !andb_true_iff in W. destruct W as [[[[_ H] N] D] Hs].
  assert (S : has_char sp (l_hash l) = false) by (apply (all_chars_has_char is_lhex); [intros; apply lhex_not_sp; assumption|exact H]).
  assert (P : has_char plus (l_hash l) = false) by (apply (all_chars_has_char is_lhex); [intros; apply lhex_not_plus; assumption|exact H]).
  rewrite !render_loc_eq. cbn [rw_loc l_hash l_size l_hints]. rewrite ?app_assoc_s.
  rewrite (rw_loc_plain _ _ S P). f_equal.
  change (String plus ((l_size l ++ concat_plus (l_hints l)) ++ x)) with (String plus (l_size l ++ concat_plus (l_hints l)) ++ x).
  replace (String plus (l_size l ++ concat_plus (l_hints l)) ++ x) with (String plus (l_size l) ++ (concat_plus (l_hints l) ++ x)).
  2:{ cbn [append]. rewrite app_assoc_s. reflexivity. }
  rewrite (rw_size _ _ N D), (rw_hints _ _ Hs). cbn [append]. rewrite ?app_assoc_s. reflexivity.
Qed.
(* the locators of a stream; what follows begins with a space (there is at least one file token) *)
Lemma rw_locs ls y : forallb wf_loc ls = true -> forall st,
  rw r st (cat_sp (map render_loc ls) ++ String sp y) =
  cat_sp (map render_loc (map (rw_loc r) ls)) ++ rw r ROut (String sp y).
Proof.
  induction ls as [|l ls IH]; intros W st; [reflexivity|]. cbn [forallb] in W. apply andb_true_iff in W. destruct W as [W1 W2].
  cbn [map cat_sp]. rewrite ?app_assoc_s. cbn [append]. rewrite rw_space.
  rewrite (loc_prefix_loc l _ W1). rewrite (rw_one_loc l _ W1). rewrite (IH W2 RLoc). rewrite ?app_assoc_s. reflexivity.
Qed.
Lemma rw_files fs x : forallb wf_file fs = true ->
  rw r ROut (cat_sp fs ++ String nl x) = cat_sp fs ++ String nl (rw r ROut x).
Proof.
  induction fs as [|f fs IH]; intros W.
  - cbn [cat_sp append rw]. rewrite nl_not_sp. reflexivity.
  - cbn [forallb] in W. apply andb_true_iff in W. destruct W as [W1 W2].
    cbn [cat_sp]. rewrite ?app_assoc_s. cbn [append]. rewrite rw_space.
    rewrite (loc_prefix_file f _ W1). destruct (file_shape f W1) as [S _].
    rewrite (rw_out_plain f _ S), (IH W2). reflexivity.
Qed.
Lemma rw_one_stream s x : wf_stream s = true ->
  rw r ROut (render_stream s ++ x) = render_stream (rw_stream r s) ++ rw r ROut x.
Proof.
  unfold wf_stream, plain. rewrite !andb_true_iff. intros [[[[[[_ S] _] _] L] F] Fs]. apply negb_true_iff in S.
  rewrite !render_stream_eq. cbn [rw_stream s_name s_locs s_files]. rewrite ?app_assoc_s.
  rewrite (rw_out_plain _ _ S). f_equal.
  destruct (s_files s) as [|f fs]; [discriminate|].
  cbn [cat_sp]. rewrite ?app_assoc_s. cbn [append].
  rewrite (rw_locs _ _ L ROut). f_equal.
  change (String sp (f ++ cat_sp fs ++ String nl x)) with (String sp f ++ (cat_sp fs ++ String nl x)).
  replace (String sp f ++ cat_sp fs ++ String nl x) with (cat_sp (f :: fs) ++ String nl x).
  2:{ cbn [cat_sp]. rewrite ?app_assoc_s. reflexivity. }
  rewrite (rw_files _ _ Fs). cbn [cat_sp]. rewrite ?app_assoc_s. reflexivity.
Qed.
Theorem rw_render ss : forallb wf_stream ss = true -> rw r ROut (render ss) = render (map (rw_stream r) ss).
Proof.
  induction ss as [|s ss IH]; intros W; [reflexivity|]. cbn [forallb] in W. apply andb_true_iff in W. destruct W as [W1 W2].
  cbn [render map]. rewrite (rw_one_stream s _ W1), (IH W2). reflexivity.
Qed.
End RW.

Theorem rw_valid r ss : forallb wf_stream ss = true ->
  rewrite_manifest (render ss) r = render (map (rw_stream r) ss).
Proof. apply rw_render. Qed.

(* ================= PortableDataHash ================= *)
Lemma pdh_space st x : pdh_scan st (String sp x) = String sp (pdh_scan (if blk_prefix x then PHead 32 else PNorm) x).
Proof. reflexivity. Qed.
Lemma pdh_norm_plain s x : has_char sp s = false -> pdh_scan PNorm (s ++ x) = s ++ pdh_scan PNorm x.
Proof.
  induction s as [|c s IH]; intros H; [reflexivity|]. cbn [has_char] in H. apply orb_false_iff in H. destruct H as [H1 H2].
  cbn [append pdh_scan]. rewrite H1, (IH H2). reflexivity.
Qed.
Lemma pdh_skip s y : has_char sp s = false -> pdh_scan PSkip (s ++ String sp y) = pdh_scan PSkip (String sp y).
Proof.
  induction s as [|c s IH]; intros H; [reflexivity|]. cbn [has_char] in H. apply orb_false_iff in H. destruct H as [H1 H2].
  cbn [append]. cbn [pdh_scan]. rewrite H1. apply IH. exact H2.
Qed.
Lemma pdh_head h x : has_char sp h = false ->
  pdh_scan (PHead (String.length h)) (h ++ String plus x) = h ++ String plus (pdh_scan PDigits x).
Proof.
  induction h as [|c h IH]; intros H.
  - cbn [String.length append pdh_scan]. rewrite plus_not_sp. reflexivity.
  - cbn [has_char] in H. apply orb_false_iff in H. destruct H as [H1 H2].
    cbn [String.length append pdh_scan]. rewrite H1, (IH H2). reflexivity.
Qed.
Lemma pdh_digits z x : all_chars is_digit z = true -> pdh_scan PDigits (z ++ x) = z ++ pdh_scan PDigits x.
Proof.
  induction z as [|c z IH]; intros A; [reflexivity|]. cbn [all_chars] in A. apply andb_true_iff in A. destruct A as [A1 A2].
  cbn [append pdh_scan]. rewrite (digit_not_sp c A1), A1, (IH A2). reflexivity.
Qed.
Lemma hints_plain hs : forallb wf_hint hs = true -> has_char sp (concat_plus hs) = false.
Proof.
  induction hs as [|h hs IH]; intros W; [reflexivity|]. cbn [forallb] in W. apply andb_true_iff in W. destruct W as [W1 W2].
  cbn [concat_plus append has_char]. rewrite plus_not_sp. cbn [orb]. rewrite has_char_app, (IH W2).
  destruct h as [|c t]; [discriminate|]. cbn [wf_hint] in W1. apply andb_true_iff in W1. destruct W1 as [U A].
  cbn [has_char]. rewrite (hintchar_not_sp c (upper_hintchar c U)). destruct (hintchars_plain t A) as [-> _]. reflexivity.
Qed.
Lemma pdh_one_loc l y : wf_loc l = true ->
  pdh_scan (PHead 32) (render_loc l ++ String sp y) = render_loc (strip_loc l) ++ pdh_scan PNorm (String sp y).
Proof.
  intros W. unfold wf_loc in W. rewrite !andb_true_iff in W. destruct W as [[[[L H] N] D] Hs]. apply Nat.eqb_eq in L.
  assert (S : has_char sp (l_hash l) = false) by (apply (all_chars_has_char is_lhex); [intros; apply lhex_not_sp; assumption|exact H]).
  rewrite !render_loc_eq. cbn [strip_loc l_hash l_size l_hints concat_plus]. rewrite <- L. rewrite ?app_assoc_s. cbn [append].
  rewrite (pdh_head _ _ S). f_equal. f_equal. rewrite ?app_assoc_s. rewrite (pdh_digits _ _ D). f_equal. cbn [append].
  pose proof (hints_plain _ Hs) as P.
  destruct (l_hints l) as [|h hs].
  - cbn [concat_plus append]. rewrite !pdh_space. reflexivity.
  - cbn [concat_plus append] in *. cbn [has_char] in P. rewrite plus_not_sp in P. cbn [orb] in P.
    cbn [pdh_scan]. rewrite plus_not_sp, plus_not_digit.
    rewrite (pdh_skip _ _ P). rewrite !pdh_space. reflexivity.
Qed.
Lemma pdh_locs ls y : forallb wf_loc ls = true -> forall st,
  pdh_scan st (cat_sp (map render_loc ls) ++ String sp y) =
  cat_sp (map render_loc (map strip_loc ls)) ++ pdh_scan PNorm (String sp y).
Proof.
  induction ls as [|l ls IH]; intros W st; [cbn [map cat_sp append]; rewrite !pdh_space; reflexivity|].
  cbn [forallb] in W. apply andb_true_iff in W. destruct W as [W1 W2].
  cbn [map cat_sp]. rewrite ?app_assoc_s. cbn [append]. rewrite pdh_space.
  rewrite (blk_prefix_loc l _ W1).
  destruct ls as [|l2 ls].
  - cbn [map cat_sp append]. rewrite (pdh_one_loc l y W1). reflexivity.
  - cbn [map cat_sp]. rewrite ?app_assoc_s. cbn [append].
    rewrite (pdh_one_loc l _ W1).
    specialize (IH W2 PNorm). cbn [map cat_sp] in IH. rewrite ?app_assoc_s in IH. cbn [append] in IH. rewrite IH.
    rewrite ?app_assoc_s. reflexivity.
Qed.
Lemma pdh_files fs x : forallb wf_file fs = true ->
  pdh_scan PNorm (cat_sp fs ++ String nl x) = cat_sp fs ++ String nl (pdh_scan PNorm x).
Proof.
  induction fs as [|f fs IH]; intros W.
  - cbn [cat_sp append pdh_scan]. rewrite nl_not_sp. reflexivity.
  - cbn [forallb] in W. apply andb_true_iff in W. destruct W as [W1 W2].
    cbn [cat_sp]. rewrite ?app_assoc_s. cbn [append]. rewrite pdh_space.
    rewrite (blk_prefix_file f _ W1). destruct (file_shape f W1) as [S _].
    rewrite (pdh_norm_plain f _ S), (IH W2). reflexivity.
Qed.
Lemma pdh_one_stream s x : wf_stream s = true ->
  pdh_scan PNorm (render_stream s ++ x) = render_stream (strip_stream s) ++ pdh_scan PNorm x.
Proof.
  unfold wf_stream, plain. rewrite !andb_true_iff. intros [[[[[[_ S] _] _] L] F] Fs]. apply negb_true_iff in S.
  rewrite !render_stream_eq. cbn [strip_stream s_name s_locs s_files]. rewrite ?app_assoc_s.
  rewrite (pdh_norm_plain _ _ S). f_equal.
  destruct (s_files s) as [|f fs]; [discriminate|].
  cbn [cat_sp]. rewrite ?app_assoc_s. cbn [append].
  rewrite (pdh_locs _ _ L PNorm). f_equal.
  replace (String sp (f ++ cat_sp fs ++ String nl x)) with (cat_sp (f :: fs) ++ String nl x).
  2:{ cbn [cat_sp]. rewrite ?app_assoc_s. reflexivity. }
  rewrite (pdh_files _ _ Fs). cbn [cat_sp]. rewrite ?app_assoc_s. reflexivity.
Qed.
Theorem pdh_text_valid ss : forallb wf_stream ss = true -> pdh_text (render ss) = render (map strip_stream ss).
Proof.
  unfold pdh_text. induction ss as [|s ss IH]; intros W; [reflexivity|]. cbn [forallb] in W. apply andb_true_iff in W. destruct W as [W1 W2].
  cbn [render map]. rewrite (pdh_one_stream s _ W1), (IH W2). reflexivity.
Qed.
