(* C03 — the client-level machine of model/C03_run.v (one KeepClient with its block cache, a sequence of
   Get / ReadAt / concurrent ReadAt / file reads): the cache never holds unverified data, an error entry is
   never served, and every result the model produces satisfies the boolean specification [op_ok] that is
   used to judge the implementation — for every script of service behaviours and every operation sequence. *)
From Coq Require Import Arith NArith List Ascii String Bool Lia.
From AV Require Import lib.Str model.C03_model model.C03_run proofs.C03_proofs.
Import ListNotations.
Local Open Scope nat_scope.

Lemma lookup_filter_ne (c : cache) k k' : k <> k' ->
  lookup (filter (fun p => negb (String.eqb (fst p) k)) c) k' = lookup c k'.
Proof.
  intros Hne. induction c as [|[k1 e1] c IH]; cbn [filter lookup fst]; [reflexivity|].
  destruct (String.eqb_spec k1 k) as [E|E]; cbn [negb].
  - subst k1. destruct (String.eqb_spec k k'); [contradiction|exact IH].
  - cbn [lookup]. destruct (String.eqb k1 k'); [reflexivity|exact IH].
Qed.

Lemma lookup_store c k e k' : lookup (store c k e) k' = if String.eqb k k' then Some e else lookup c k'.
Proof.
  unfold store. cbn [lookup]. destruct (String.eqb_spec k k') as [E|E]; [reflexivity|]. apply lookup_filter_ne. exact E.
Qed.

(* an error entry is replaced, never served: the cache after a fetch does not depend on it *)
Lemma store_forgets (c : cache) k e e0 :
  store ((k, e0) :: c) k e = store c k e.
Proof. unfold store. cbn [filter fst]. rewrite String.eqb_refl. reflexivity. Qed.

Lemma nth_error_blk {A} (l : list A) n d x : nth_error l n = Some x -> nth n l d = x.
Proof. revert n. induction l as [|a l IH]; intros [|n] E; cbn in *; try discriminate; [congruence|apply IH; exact E]. Qed.

Section R.
Variable i : cin.
Let H := H_of i.

(* a block whose locator really stands for its content, with no digest collision on that content *)
Record Cons (bl : blockin) : Prop := {
  cs_hash : H (b_content bl) = loc_hash (b_loc bl);
  cs_size : forall n, size_hint (b_loc bl) = Some n -> slen (b_content bl) = n;
  cs_nocoll : forall s, H s = H (b_content bl) -> s = b_content bl;
  cs_empty : empty_block_loc (b_loc bl) = true -> b_content bl = EmptyString
}.
Hypothesis Hcons : forall bl, In bl (i_blocks i) -> Cons bl.

Definition block_at (b : nat) (bl : blockin) : Prop := nth_error (i_blocks i) b = Some bl.
Lemma block_at_in b bl : block_at b bl -> In bl (i_blocks i) /\ blk_of i b = bl.
Proof. intros E. split; [eapply nth_error_In; exact E|apply nth_error_blk; exact E]. Qed.

(* DESIGN cache_never_serves_error, invariant part: every data entry is the content its key stands for *)
Definition CacheGood (c : cache) : Prop :=
  forall bl d, In bl (i_blocks i) -> lookup c (loc_hash (b_loc bl)) = Some (EData d) -> d = b_content bl.

Lemma get_rounds_noempty oracle tries : forall round servers ns expect c404 log lg,
  get_rounds oracle tries round servers ns expect c404 log <> {| g_res := GEmpty; g_log := lg |}.
Proof.
  induction tries as [|t IH]; intros round servers ns expect c404 log lg E; cbn [get_rounds] in E; [discriminate|].
  destruct (try_servers oracle servers round expect c404 [] log) as [[[r c'] rt] lg'] eqn:Et. destruct r as [r|].
  - injection E as -> _. eapply try_servers_noempty. exact Et.
  - eapply IH. exact E.
Qed.

Lemma get_or_head_empty oracle retries order loc lg :
  get_or_head oracle retries order loc = {| g_res := GEmpty; g_log := lg |} -> empty_block_loc loc = true.
Proof.
  unfold get_or_head. destruct (empty_block_loc loc); [reflexivity|]. intros E. exfalso. eapply get_rounds_noempty. exact E.
Qed.

Lemma gout_eta g : g = {| g_res := g_res g; g_log := g_log g |}.
Proof. destruct g; reflexivity. Qed.

(* the size announced for a consistent block is its length, and a clean stream with the right digest is the content *)
Lemma size_is_len oracle bl x rd size st :
  Cons bl -> from_200 oracle (size_hint (b_loc bl)) x rd size st ->
  s_term st = TEOF -> H (s_bytes st) = loc_hash (b_loc bl) -> s_bytes st = b_content bl /\ size = slen (b_content bl).
Proof.
  intros C (declared & body & cut & Eo & Est & Hd & He & Hn) T Hh.
  assert (Eb : s_bytes st = b_content bl) by (apply (cs_nocoll _ C); rewrite Hh; symmetry; apply (cs_hash _ C)).
  split; [exact Eb|]. rewrite <- Eb. subst st. symmetry. apply (sized_eof_len _ _ T).
Qed.

Lemma fetch_data_is_content oracle retries bl d :
  Cons bl ->
  fetch_entry H (b_loc bl) (g_res (get_or_head oracle retries (b_order bl) (b_loc bl))) = EData d -> d = b_content bl.
Proof.
  intros C E. destruct (get_or_head oracle retries (b_order bl) (b_loc bl)) as [r lg] eqn:G. cbn [g_res] in E.
  destruct r as [x rd size st| |e].
  - pose proof (get_or_head_ok oracle _ _ _ _ _ _ _ _ G) as F.
    apply cache_ok_sound in E. destruct E as (T & Hh & Hle & ->).
    destruct (size_is_len oracle bl x rd size st C F T Hh) as [Eb Es]. rewrite Eb, Es. apply take_all. lia.
  - cbn in E. injection E as <-. symmetry. apply (cs_empty _ C). eapply get_or_head_empty. exact G.
  - discriminate.
Qed.

Lemma read_full_err st check n b e r' : hcr_read_full H (fresh st check) n = (b, e, r') -> e = ENil \/ e = EUEOF \/ e = EBadChecksum \/ e = EBadSize \/
  (e = EEOF /\ s_bytes st = EmptyString /\ s_term st = TEOF /\ H (s_bytes st) = check /\ 0 < n).
Proof.
  unfold hcr_read_full, fresh. cbn [h_st h_pos h_check]. rewrite drop_0. destruct (n <=? slen (s_bytes st)) eqn:En.
  - intros [= _ <- _]. auto.
  - apply Nat.leb_gt in En. destruct (s_term st); [|intros [= _ <- _]; auto|intros [= _ <- _]; auto 6].
    destruct (hash_ok H check (s_bytes st)) eqn:Eh; [|intros [= _ <- _]; auto].
    destruct (slen (s_bytes st) =? 0) eqn:E0; intros [= _ <- _]; [|auto].
    right. right. right. right. apply Nat.eqb_eq in E0. split; [reflexivity|]. split; [destruct (s_bytes st); [reflexivity|discriminate]|].
    split; [reflexivity|]. split; [apply hash_ok_eq; exact Eh|lia].
Qed.

Lemma close_err r : hcr_close H r = ENil \/ hcr_close H r = EUEOF \/ hcr_close H r = EBadChecksum \/ hcr_close H r = EBadSize.
Proof. unfold hcr_close. destruct (s_term (h_st r)); [destruct (hash_ok H (h_check r) (s_bytes (h_st r)))| |]; auto. Qed.

(* a failed fetch leaves an error that is neither nil nor (for a consistent block) io.EOF *)
Lemma fetch_err_class oracle retries bl e :
  Cons bl ->
  fetch_entry H (b_loc bl) (g_res (get_or_head oracle retries (b_order bl) (b_loc bl))) = EErr e -> e <> ENil /\ e <> EEOF.
Proof.
  intros C E. destruct (get_or_head oracle retries (b_order bl) (b_loc bl)) as [r lg] eqn:G. cbn [g_res] in E.
  destruct r as [x rd size st| |e0].
  - pose proof (get_or_head_ok oracle _ _ _ _ _ _ _ _ G) as F.
    unfold fetch_entry in E. fold (fresh st (loc_hash (b_loc bl))) in E.
    destruct (hcr_read_full H (fresh st (loc_hash (b_loc bl))) size) as [[b e1] r'] eqn:Er.
    destruct (read_full_err _ _ _ _ _ _ Er) as [X|[X|[X|[X|(X & Eb & T & Hh & Hpos)]]]]; subst e1.
    + destruct (close_err r') as [X|[X|[X|X]]]; rewrite X in E; [discriminate|injection E as <-; split; discriminate|injection E as <-; split; discriminate|injection E as <-; split; discriminate].
    + injection E as <-. split; discriminate.
    + injection E as <-. split; discriminate.
    + injection E as <-. split; discriminate.
    + exfalso. destruct (size_is_len oracle bl x rd size st C F T Hh) as [Ec Es]. rewrite <- Ec, Eb in Es. cbn in Es. lia.
  - discriminate.
  - cbn in E. injection E as <-. destruct (not_found_classes oracle _ _ _ _ _ G) as [->|[->|[->|[->| ->]]]]; split; discriminate.
Qed.

Lemma cache_get_good st b bl :
  block_at b bl -> CacheGood (cs_cache st) ->
  CacheGood (cs_cache (snd (cache_get i st b))) /\
  (forall d, fst (cache_get i st b) = EData d -> d = b_content bl) /\
  (forall x, fst (cache_get i st b) = EErr x -> x <> ENil /\ x <> EEOF).
Proof.
  intros Hb G. destruct (block_at_in b bl Hb) as [Hin Eb]. pose proof (Hcons bl Hin) as C.
  unfold cache_get. rewrite Eb.
  destruct (lookup (cs_cache st) (loc_hash (b_loc bl))) as [[d|e0]|] eqn:El.
  - cbn [fst snd]. split; [exact G|]. split; [intros d' [= <-]; apply (G bl d Hin El)|discriminate].
  - unfold do_get. rewrite Eb. cbn [fst snd cs_cache cs_log].
    set (g := get_or_head (oracle_at i st b) (i_retries i) (b_order bl) (b_loc bl)).
    split; [|split].
    + intros bl' d' Hin' Hl. rewrite lookup_store in Hl.
      destruct (String.eqb_spec (loc_hash (b_loc bl)) (loc_hash (b_loc bl'))) as [Ek|Ek].
      * injection Hl as Hl. apply (fetch_data_is_content _ _ _ _ C) in Hl. rewrite Hl.
        apply (cs_nocoll _ (Hcons bl' Hin')). rewrite (cs_hash _ C), (cs_hash _ (Hcons bl' Hin')). exact Ek.
      * apply (G bl' d' Hin' Hl).
    + intros d' E. apply (fetch_data_is_content _ _ _ _ C E).
    + intros x E. apply (fetch_err_class _ _ _ _ C E).
  - unfold do_get. rewrite Eb. cbn [fst snd cs_cache cs_log].
    split; [|split].
    + intros bl' d' Hin' Hl. rewrite lookup_store in Hl.
      destruct (String.eqb_spec (loc_hash (b_loc bl)) (loc_hash (b_loc bl'))) as [Ek|Ek].
      * injection Hl as Hl. apply (fetch_data_is_content _ _ _ _ C) in Hl. rewrite Hl.
        apply (cs_nocoll _ (Hcons bl' Hin')). rewrite (cs_hash _ C), (cs_hash _ (Hcons bl' Hin')). exact Ek.
      * apply (G bl' d' Hin' Hl).
    + intros d' E. apply (fetch_data_is_content _ _ _ _ C E).
    + intros x E. apply (fetch_err_class _ _ _ _ C E).
Qed.

(* DESIGN cache_never_serves_error, behavioural part: with an error entry for the key the cache behaves exactly
   as with no entry at all (the fetch is repeated and its result replaces the entry) *)
Theorem cache_never_serves_error c lg b e0 :
  let k := loc_hash (b_loc (blk_of i b)) in
  cache_get i {| cs_cache := (k, EErr e0) :: c; cs_log := lg |} b =
  cache_get i {| cs_cache := filter (fun p => negb (String.eqb (fst p) k)) c; cs_log := lg |} b.
Proof.
  cbn zeta. unfold cache_get. cbn [cs_cache lookup]. rewrite String.eqb_refl.
  set (k := loc_hash (b_loc (blk_of i b))).
  assert (Hl : lookup (filter (fun p => negb (String.eqb (fst p) k)) c) k = None).
  { induction c as [|[k1 e1] c IH]; cbn [filter fst]; [reflexivity|].
    destruct (String.eqb_spec k1 k); cbn [negb]; [exact IH|]. cbn [lookup]. destruct (String.eqb_spec k1 k); [contradiction|exact IH]. }
  rewrite Hl. unfold do_get, oracle_at. cbn [cs_cache cs_log]. f_equal. f_equal.
  unfold store. cbn [filter fst]. fold k. rewrite String.eqb_refl. cbn [negb]. f_equal.
  clear. induction c as [|[k1 e1] c IH]; cbn [filter fst]; [reflexivity|].
  destruct (String.eqb k1 k) eqn:E; cbn [negb filter fst]; [exact IH|]. rewrite E. cbn [negb]. f_equal. exact IH.
Qed.

(* ---- every operation's result satisfies op_ok ---- *)
Lemma rd_ok_entry bl e n off :
  (forall d, e = EData d -> d = b_content bl) -> (forall x, e = EErr x -> x <> ENil /\ x <> EEOF) ->
  rd_ok (b_content bl) n off (entry_read_at e n off) = true.
Proof.
  intros Hd He. destruct e as [d|x].
  - rewrite (Hd d eq_refl). unfold rd_ok, entry_read_at. destruct (slen (b_content bl) <? off) eqn:E; cbn [snd fst]; [reflexivity|].
    unfold slice_ok. apply Nat.ltb_ge in E. apply andb_true_iff. split; [apply Nat.leb_le; exact E|apply String.eqb_refl].
  - unfold rd_ok, entry_read_at. cbn [snd]. destruct (He x eq_refl) as [A _]. destruct x; try reflexivity. contradiction.
Qed.

Definition seg_ok (s : nat * nat * nat) : Prop :=
  exists bl, block_at (fst (fst s)) bl /\ snd (fst s) + snd s <= slen (b_content bl).

Lemma file_read_good segs : forall st off acc,
  Forall seg_ok segs -> CacheGood (cs_cache st) ->
  CacheGood (cs_cache (snd (file_read i st segs off acc))) /\
  (snd (fst (file_read i st segs off acc)) = ENil -> fst (fst (file_read i st segs off acc)) = (acc ++ file_bytes i segs off)%string).
Proof.
  induction segs as [|[[b o] l] rest IH]; intros st off acc Hs G; cbn [file_read file_bytes].
  - cbn [fst snd]. split; [exact G|]. intros _. rewrite append_nil_r. reflexivity.
  - inversion Hs as [|? ? (bl & Hb & Hbound) Hrest]; subst. cbn [fst snd] in Hb, Hbound.
    destruct (l <=? off) eqn:El; [apply IH; assumption|]. apply Nat.leb_gt in El.
    destruct (block_at_in b bl Hb) as [Hin Eb].
    pose proof (cache_get_good st b bl Hb G) as (G' & Hd & He).
    destruct (cache_get i st b) as [e st'] eqn:Ec. cbn [fst snd] in G', Hd, He.
    destruct e as [d|x].
    + rewrite (Hd d eq_refl).
      destruct (seg_read_at_slice (b_content bl) {| sg_loc := b_loc (blk_of i b); sg_offset := o; sg_length := l |} (l - off) off) as [_ Hin2];
        [cbn [sg_offset sg_length]; lia|].
      destruct (Hin2 ltac:(cbn [sg_length]; lia)) as [Eq Hlen]. cbn [sg_offset sg_length] in Eq, Hlen.
      rewrite Eq. rewrite Nat.ltb_irrefl. rewrite Nat.min_id in *. rewrite Hlen, Nat.eqb_refl.
      specialize (IH st' 0 (acc ++ take (l - off) (drop (o + off) (b_content bl)))%string Hrest G').
      destruct IH as [A B]. split; [exact A|]. intros E. rewrite (B E). rewrite Eb, append_assoc. reflexivity.
    + destruct (He x eq_refl) as [Hn1 Hn2].
      unfold seg_read_at. cbn [sg_length sg_offset].
      assert (E1 : (l <? off) = false) by (apply Nat.ltb_ge; lia). rewrite E1, Nat.ltb_irrefl.
      cbn [entry_read_at]. destruct x; try contradiction; cbn [fst snd]; (split; [exact G'|discriminate]).
Qed.

Definition op_wf (o : op) : Prop :=
  match o with
  | OGet b _ | OReadAt b _ _ | OGroup _ b _ _ => exists bl, block_at b bl
  | OFile segs _ => Forall seg_ok segs
  end.

Lemma read_all_err r : snd (hcr_read_all H r) = EEOF \/ snd (hcr_read_all H r) = EBadChecksum \/ snd (hcr_read_all H r) = EUEOF \/
  snd (hcr_read_all H r) = EBadSize.
Proof. unfold hcr_read_all. cbn [snd]. destruct (s_term (h_st r)); [destruct (hash_ok H (h_check r) (s_bytes (h_st r)))| |]; auto. Qed.

Lemma use_reader_ok st b bl m :
  block_at b bl ->
  op_ok i (OGet b m) (use_reader i (g_res (fst (do_get i st b))) (b_loc bl) m) = true.
Proof.
  intros Hb. destruct (block_at_in b bl Hb) as [Hin Eb]. pose proof (Hcons bl Hin) as C.
  unfold do_get. rewrite Eb. cbn [fst].
  destruct (get_or_head (oracle_at i st b) (i_retries i) (b_order bl) (b_loc bl)) as [r lg] eqn:G. cbn [g_res].
  destruct r as [x rd size s| |e].
  - pose proof (get_or_head_ok _ _ _ _ _ _ _ _ _ G) as F.
    assert (Hsize : match size_hint (b_loc bl) with Some n => size =? n | None => true end = true).
    { destruct F as (declared & body & cut & _ & _ & _ & He & _). destruct (size_hint (b_loc bl)) as [n|]; [|reflexivity].
      apply Nat.eqb_eq. symmetry. apply He. reflexivity. }
    assert (Hk : hash_ok H (loc_hash (b_loc bl)) (b_content bl) = true) by (apply hash_ok_eq; apply (cs_hash _ C)).
    unfold use_reader. fold H. fold (fresh s (loc_hash (b_loc bl))). destruct m as [|k| |].
    + destruct (hcr_read_all H (fresh s (loc_hash (b_loc bl)))) as [bb e] eqn:Er.
      cbn [op_ok]. rewrite Eb. apply orb_true_iff. right. rewrite Hsize. cbn [andb].
      destruct (read_all_err (fresh s (loc_hash (b_loc bl)))) as [X|[X|[X|X]]]; rewrite Er in X; cbn [snd] in X; subst e.
      * destruct (read_all_sound H _ _ _ Er) as (Hbb & T & Hh).
        assert (Ebb : bb = b_content bl) by (apply (cs_nocoll _ C); rewrite Hh; symmetry; apply (cs_hash _ C)).
        rewrite Ebb, String.eqb_refl. cbn [andb].
        unfold hcr_close, fresh. cbn [h_st h_check]. rewrite T. rewrite <- Hbb, Ebb, Hk. reflexivity.
      * reflexivity.
      * reflexivity.
      * reflexivity.
    + destruct (hcr_read_full H (fresh s (loc_hash (b_loc bl))) k) as [[bb e] r'] eqn:Er.
      cbn [op_ok]. rewrite Eb. apply orb_true_iff. right. rewrite Hsize. cbn [andb].
      destruct e; try (rewrite andb_true_r; reflexivity); try reflexivity.
      destruct (hcr_close H r') eqn:Ecl; try reflexivity.
      destruct (read_full_close_sound H _ _ _ _ _ Er Ecl) as (Hbb & Hle & T & Hh).
      assert (Ebb : s_bytes s = b_content bl) by (apply (cs_nocoll _ C); rewrite Hh; symmetry; apply (cs_hash _ C)).
      rewrite <- Ebb, Hbb, String.eqb_refl. apply Nat.leb_le in Hle. rewrite Hle. reflexivity.
    + destruct (hcr_write_to H (fresh s (loc_hash (b_loc bl)))) as [bb e] eqn:Er.
      cbn [op_ok]. rewrite Eb. apply orb_true_iff. right. rewrite Hsize. cbn [andb].
      destruct e; try reflexivity.
      destruct (write_to_sound H _ _ _ Er) as (Hbb & T & Hh).
      assert (Ebb : bb = b_content bl) by (apply (cs_nocoll _ C); rewrite Hh; symmetry; apply (cs_hash _ C)).
      rewrite Ebb, String.eqb_refl. cbn [andb].
      unfold hcr_close, fresh. cbn [h_st h_check]. rewrite T. rewrite <- Hbb, Ebb, Hk. reflexivity.
    + cbn [op_ok]. rewrite Eb. apply orb_true_iff. right. rewrite Hsize. reflexivity.
  - assert (He : empty_block_loc (b_loc bl) = true) by (eapply get_or_head_empty; exact G).
    pose proof (cs_empty _ C He) as Ec.
    assert (Hsize : match size_hint (b_loc bl) with Some n => 0 =? n | None => true end = true).
    { destruct (size_hint (b_loc bl)) as [n|] eqn:Eh; [|reflexivity]. apply Nat.eqb_eq. rewrite <- (cs_size _ C n Eh), Ec. reflexivity. }
    unfold use_reader. destruct m as [|[|k]| |]; cbn [op_ok]; rewrite Eb; apply orb_true_iff; right; rewrite Hsize, ?Ec; reflexivity.
  - unfold use_reader. cbn [op_ok]. rewrite Eb. apply orb_true_iff. right.
    destruct (not_found_classes _ _ _ _ _ _ G) as [->|[->|[->|[->| ->]]]]; reflexivity.
Qed.

Lemma do_op_ok st o :
  op_wf o -> CacheGood (cs_cache st) ->
  op_ok i o (fst (do_op i st o)) = true /\ CacheGood (cs_cache (snd (do_op i st o))).
Proof.
  intros Hw G. destruct o as [b m|b n off|k b n off|segs off]; cbn [op_wf] in Hw.
  - destruct Hw as (bl & Hb). destruct (block_at_in b bl Hb) as [_ Eb]. cbn [do_op].
    pose proof (use_reader_ok st b bl m Hb) as U.
    destruct (do_get i st b) as [g st'] eqn:Eg. cbn [fst snd] in *. rewrite Eb. split; [exact U|].
    unfold do_get in Eg. injection Eg as _ <-. exact G.
  - destruct Hw as (bl & Hb). destruct (block_at_in b bl Hb) as [_ Eb]. cbn [do_op]. unfold read_at.
    pose proof (cache_get_good st b bl Hb G) as (G' & Hd & He).
    destruct (cache_get i st b) as [e st'] eqn:Ec. cbn [fst snd] in *. split; [|exact G'].
    unfold op_ok. rewrite Eb. apply orb_true_iff. right.
    rewrite <- surjective_pairing. apply rd_ok_entry; assumption.
  - destruct Hw as (bl & Hb). destruct (block_at_in b bl Hb) as [_ Eb]. cbn [do_op]. unfold read_at.
    pose proof (cache_get_good st b bl Hb G) as (G' & Hd & He).
    destruct (cache_get i st b) as [e st'] eqn:Ec. cbn [fst snd] in *. split; [|exact G'].
    unfold op_ok. rewrite Eb, repeat_length, Nat.eqb_refl. cbn [andb]. apply orb_true_iff. right.
    apply forallb_forall. intros r Hr. apply repeat_spec in Hr. subst r. apply rd_ok_entry; assumption.
  - cbn [do_op]. pose proof (file_read_good segs st off EmptyString Hw G) as [G' Hf].
    destruct (file_read i st segs off "") as [[bytes e] st'] eqn:Ef. cbn [fst snd] in *. split; [|exact G'].
    unfold op_ok. apply orb_true_iff. right. destruct e; try reflexivity. rewrite (Hf eq_refl). apply String.eqb_refl.
Qed.

Lemma do_ops_ok ops : forall st,
  Forall op_wf ops -> CacheGood (cs_cache st) -> ops_ok i ops (fst (do_ops i st ops)) = true.
Proof.
  induction ops as [|o ops IH]; intros st Hw G; cbn [do_ops ops_ok]; [reflexivity|].
  inversion Hw as [|? ? Ho Hrest]; subst.
  destruct (do_op_ok st o Ho G) as [A B].
  destruct (do_op i st o) as [x st'] eqn:Eo. cbn [fst snd] in *.
  specialize (IH st' Hrest B). destruct (do_ops i st' ops) as [xs st''] eqn:Es. cbn [fst ops_ok] in *.
  rewrite A, IH. reflexivity.
Qed.

(* The model never delivers wrong bytes: for every script of service behaviours and every sequence of
   operations over consistent blocks, all results of the model's run pass the specification that is used to
   judge the implementation. *)
Theorem model_ops_ok : Forall op_wf (i_ops i) -> ops_ok i (i_ops i) (fst (run_model i)) = true.
Proof.
  intros Hw. unfold run_model. apply do_ops_ok; [exact Hw|]. intros bl d _ Hl. discriminate.
Qed.
End R.

(* ------------------------------------------------------------------ further run-level facts *)
Section R2.
Variable i : cin.
Let H := H_of i.
Hypothesis Hcons : forall bl, In bl (i_blocks i) -> Cons i bl.

Lemma do_ops_good ops : forall st,
  Forall (op_wf i) ops -> CacheGood i (cs_cache st) -> CacheGood i (cs_cache (snd (do_ops i st ops))).
Proof.
  induction ops as [|o ops IH]; intros st Hw G; cbn [do_ops]; [exact G|].
  inversion Hw as [|? ? Ho Hrest]; subst.
  destruct (do_op_ok i Hcons st o Ho G) as [_ B].
  destruct (do_op i st o) as [x st'] eqn:Eo. cbn [snd] in B.
  specialize (IH st' Hrest B). destruct (do_ops i st' ops) as [xs st''] eqn:Es. exact IH.
Qed.

(* after any sequence of operations every data entry of the cache is the content its key stands for *)
Theorem cache_holds_only_content : Forall (op_wf i) (i_ops i) -> CacheGood i (cs_cache (snd (run_model i))).
Proof. intros Hw. unfold run_model. apply do_ops_good; [exact Hw|]. intros bl d _ Hl. discriminate. Qed.
End R2.

(* not_found_classes at the client level: when every service answers 404 to the first request, Get and ReadAt
   report BlockNotFound *)
Lemma first404_all bl : first404 bl = true ->
  empty_block_loc (b_loc bl) = false /\
  forall x, In x (b_order bl) -> is404 (nth 0 (nth x (b_script bl) []) ConnErr).
Proof.
  unfold first404. rewrite andb_true_iff, negb_true_iff, forallb_forall. intros [A B]. split; [exact A|].
  intros x Hx. specialize (B x Hx). destruct (nth 0 (nth x (b_script bl) []) ConnErr) as [st d b c|]; [|discriminate].
  apply N.eqb_eq in B. subst st. exists d, b, c. reflexivity.
Qed.

Theorem model_notfound_ok i : notfound_ok i (fst (run_model i)) = true.
Proof.
  unfold notfound_ok, run_model. destruct (i_ops i) as [|o ops]; [reflexivity|].
  cbn [do_ops]. set (s0 := {| cs_cache := []; cs_log := [] |}).
  destruct o as [b m|b n off|k b n off|segs off]; cbn [do_op].
  - destruct (first404 (blk_of i b)) eqn:E4.
    + destruct (first404_all _ E4) as [He Hall].
      unfold do_get. cbn [cs_log cs_cache].
      assert (G : get_or_head (oracle_at i s0 b) (i_retries i) (b_order (blk_of i b)) (b_loc (blk_of i b)) =
                  {| g_res := GErr ENotFound; g_log := map (fun x => (x, 0)) (b_order (blk_of i b)) |}).
      { apply all_404_not_found; [exact He|]. intros x Hx. unfold oracle_at, s0. cbn [cs_log count_log Nat.add]. apply Hall. exact Hx. }
      rewrite G. cbn [g_res use_reader].
      match goal with |- context [do_ops i ?st ops] => destruct (do_ops i st ops) as [xs st''] end. reflexivity.
    + destruct (do_get i s0 b) as [g st']. destruct (use_reader i (g_res g) (b_loc (blk_of i b)) m); destruct (do_ops i st' ops); reflexivity.
  - destruct (first404 (blk_of i b)) eqn:E4.
    + destruct (first404_all _ E4) as [He Hall].
      unfold read_at, cache_get. cbn [cs_cache lookup s0]. unfold do_get. cbn [cs_log cs_cache]. fold s0.
      assert (G : get_or_head (oracle_at i s0 b) (i_retries i) (b_order (blk_of i b)) (b_loc (blk_of i b)) =
                  {| g_res := GErr ENotFound; g_log := map (fun x => (x, 0)) (b_order (blk_of i b)) |}).
      { apply all_404_not_found; [exact He|]. intros x Hx. unfold oracle_at, s0. cbn [cs_log count_log Nat.add]. apply Hall. exact Hx. }
      rewrite G. cbn [g_res fetch_entry entry_read_at fst snd].
      match goal with |- context [do_ops i ?st ops] => destruct (do_ops i st ops) as [xs st''] end. reflexivity.
    + destruct (read_at i s0 b n off) as [r st']. destruct (do_ops i st' ops). cbn. reflexivity.
  - destruct (read_at i s0 b n off) as [r st']. destruct (do_ops i st' ops). reflexivity.
  - destruct (file_read i s0 segs off "") as [r st']. destruct (do_ops i st' ops). reflexivity.
Qed.

(* (model_meets_spec, the model's run passes the whole boolean specification, is in proofs/C03_loc_proofs.v:
   it needs the locator clauses proved there) *)

(* the hypotheses are satisfiable: one service, one block "hello", first a flipped answer, then the right one *)
Definition ex_block : blockin :=
  {| b_loc := "5d41402abc4b2a76b9719d911017c592+5"; b_content := "hello"; b_consistent := true; b_order := [0];
     b_script := [[Resp 200 (Some 5) "hellp" false; Resp 200 (Some 5) "hello" false]] |}.
Definition ex_in : cin :=
  {| i_retries := 0; i_blocks := [ex_block]; i_htab := [("hello"%string, "5d41402abc4b2a76b9719d911017c592"%string)];
     i_ops := [OReadAt 0 3 1; OReadAt 0 3 1; OReadAt 0 9 0] |}.

Lemma tab_single_nocoll k v s : v <> "?"%string -> tab_lookup [(k, v)] s = tab_lookup [(k, v)] k -> s = k.
Proof.
  cbn. rewrite String.eqb_refl. destruct (String.eqb_spec k s) as [E|E]; [intros _ _; symmetry; exact E|]. intros Hv Hq. congruence.
Qed.

Example hypotheses_satisfiable :
  (forall bl, In bl (i_blocks ex_in) -> Cons ex_in bl) /\ Forall (op_wf ex_in) (i_ops ex_in) /\
  fst (run_model ex_in) = [RRead "" EBadChecksum; RRead "ell" ENil; RRead "hello" ENil].
Proof.
  split; [|split].
  - intros bl [<-|[]]. constructor.
    + reflexivity.
    + intros n. vm_compute. intros [= <-]. reflexivity.
    + intros s. apply tab_single_nocoll. discriminate.
    + vm_compute. discriminate.
  - repeat constructor; cbn; try (exists ex_block; reflexivity).
  - vm_compute. reflexivity.
Qed.

(* ------------------------------------------------------------------ statements in the form used by props/C03.v *)
Lemma transport_rule n body cut :
  (n <= slen body -> transport (Some n) body cut = {| s_bytes := take n body; s_term := TEOF |}) /\
  (slen body < n -> transport (Some n) body cut = {| s_bytes := body; s_term := TUEOF |}) /\
  transport None body cut = {| s_bytes := body; s_term := if cut then TUEOF else TEOF |}.
Proof.
  unfold transport. split; [|split]; [intros Hl|intros Hl|reflexivity].
  - apply Nat.leb_le in Hl. rewrite Hl. reflexivity.
  - apply Nat.leb_gt in Hl. rewrite Hl. reflexivity.
Qed.

Lemma writeto_close_sound H st check :
  (forall b, hcr_write_to H (fresh st check) = (b, ENil) -> b = s_bytes st /\ s_term st = TEOF /\ H b = check) /\
  (hcr_close H (fresh st check) = ENil -> s_term st = TEOF /\ H (s_bytes st) = check) /\
  (forall k b r', hcr_read_full H (fresh st check) k = (b, ENil, r') -> hcr_close H r' = ENil ->
     b = take k (s_bytes st) /\ k <= slen (s_bytes st) /\ s_term st = TEOF /\ H (s_bytes st) = check).
Proof.
  split; [|split].
  - intros b. apply write_to_sound.
  - intros E. apply (close_sound H (fresh st check) E).
  - intros k b r'. apply read_full_close_sound.
Qed.

Lemma cache_ok_sound_full H loc x rd size st d :
  fetch_entry H loc (GOk x rd size st) = EData d ->
  s_term st = TEOF /\ H (s_bytes st) = loc_hash loc /\ size <= slen (s_bytes st) /\ d = take size (s_bytes st) /\
  (forall c, H c = loc_hash loc -> slen c = size -> d = c \/ (s_bytes st <> c /\ H (s_bytes st) = H c)).
Proof.
  intros E. destruct (cache_ok_sound H _ _ _ _ _ _ E) as (A & B & C & D). repeat (split; [assumption|]).
  intros c Hc Hs. apply (cache_ok_content H _ _ _ _ _ _ c E Hc Hs).
Qed.

Lemma file_read_concat i :
  (forall bl, In bl (i_blocks i) -> Cons i bl) ->
  forall segs st off, Forall (seg_ok i) segs -> CacheGood i (cs_cache st) ->
  snd (fst (file_read i st segs off "")) = ENil -> fst (fst (file_read i st segs off "")) = file_bytes i segs off.
Proof.
  intros Hc segs st off Hs G E. destruct (file_read_good i Hc segs st off EmptyString Hs G) as [_ F]. apply F. exact E.
Qed.

Lemma not_found_classes_full oracle retries order loc :
  (empty_block_loc loc = false -> (forall x, In x order -> exists d b c, oracle x 0 = Resp 404 d b c) ->
     get_or_head oracle retries order loc = {| g_res := GErr ENotFound; g_log := map (fun x => (x, 0)) order |}) /\
  (forall e lg, get_or_head oracle retries order loc = {| g_res := GErr e; g_log := lg |} ->
     e = ENotFound \/ e = ETemp \/ e = EPerm \/ e = ESizeMismatch \/ e = ENoSize).
Proof.
  split; [intros He Hall; apply all_404_not_found; assumption|intros e lg; apply not_found_classes].
Qed.

Lemma spec_readat_meaning i b n off bytes :
  b_consistent (blk_of i b) = true ->
  op_ok i (OReadAt b n off) (RRead bytes ENil) = true ->
  off <= slen (b_content (blk_of i b)) /\ bytes = take n (drop off (b_content (blk_of i b))).
Proof.
  intros Hc. cbn [op_ok]. rewrite Hc. cbn [negb orb]. unfold rd_ok, slice_ok. cbn [snd fst].
  rewrite andb_true_iff, Nat.leb_le, String.eqb_eq. tauto.
Qed.
