(* C05 — basic facts about the model of balanceBlock (model/C05_model.v):
   what a slot keeps through sorting, the passes and the final widening; what emission means. *)
From Coq Require Import List Arith Bool Lia Permutation.
From AV Require Import model.C05_model model.C05_old_model.
Import ListNotations.

(* ---------- small list facts ---------- *)
Lemma mem_In x l : mem x l = true <-> In x l.
Proof.
  unfold mem. rewrite existsb_exists. split.
  - intros (y & Hy & E). apply Nat.eqb_eq in E. subst; auto.
  - intros H. exists x. split; auto. apply Nat.eqb_refl.
Qed.
Lemma mem_false x l : mem x l = false <-> ~ In x l.
Proof. rewrite <- mem_In. destruct (mem x l); split; intros; try congruence; tauto. Qed.
Lemma add_In y x l : In y (add x l) <-> y = x \/ In y l.
Proof.
  unfold add. destruct (mem x l) eqn:E; simpl; [|intuition].
  apply mem_In in E. split; [auto|]. intros [->|H]; auto.
Qed.
Lemma add_incl x l : incl l (add x l).
Proof. intros y H. apply add_In; auto. Qed.

(* ---------- what the steps keep: mount and replica of a slot; want only grows ---------- *)
Definition core (s : slot) : mnt * option nat := (smnt s, srepl s).
(* s' is s, possibly with want set *)
Definition wle (s s' : slot) : Prop := s' = s \/ s' = set_want s.
(* predicates that survive setting want *)
Definition wclosed (P : slot -> Prop) : Prop := forall s, P s -> P (set_want s).

Lemma wle_refl s : wle s s. Proof. left; reflexivity. Qed.
Lemma wle_core s s' : wle s s' -> core s' = core s.
Proof. intros [->| ->]; reflexivity. Qed.
Lemma wle_P P s s' : wclosed P -> wle s s' -> P s -> P s'.
Proof. intros Hc [->| ->] H; auto. Qed.
Lemma wle_want s s' : wle s s' -> swant s = true -> swant s' = true.
Proof. intros [->| ->] H; auto. Qed.

Lemma try_slot_wle d a s a' s' dn : try_slot_old d a s = (a', s', dn) -> wle s s'.
Proof.
  unfold try_slot_old. intros H.
  destruct (mem (mid (smnt s)) (wantMnt a) || negb (dev (smnt s) =? 0) && mem (dev (smnt s)) (wantDev a)).
  - injection H as _ <- _. apply wle_refl.
  - match type of H with (if ?c then _ else _) = _ => destruct c end; injection H as _ <- _.
    + right; reflexivity.
    + apply wle_refl.
Qed.

Lemma pass_wle dist d : forall l a dn a' dn' l',
  pass_old dist d a dn l = (a', dn', l') -> Forall2 wle l l'.
Proof.
  induction l as [|s r IH]; intros a dn a' dn' l' H; simpl in H.
  - injection H as _ _ <-. constructor.
  - destruct dn.
    + injection H as _ _ <-. clear. induction (s :: r); constructor; auto using wle_refl.
    + destruct (dist && mem (msrv (smnt s)) (wantSrv a)).
      * destruct (pass_old dist d a false r) as [[a1 d1] r1] eqn:E. injection H as _ _ <-.
        constructor; [apply wle_refl|eapply IH; eauto].
      * destruct (try_slot_old d a s) as [[a1 s1] d1] eqn:Et.
        destruct (pass_old dist d a1 d1 r) as [[a2 d2] r2] eqn:E. injection H as _ _ <-.
        constructor; [eapply try_slot_wle; eauto|eapply IH; eauto].
Qed.

Lemma Forall2_wle_Forall P l l' : wclosed P -> Forall2 wle l l' -> Forall P l -> Forall P l'.
Proof.
  intros Hc H. induction H; intros HF; [constructor|].
  inversion HF; subst. constructor; [eapply wle_P; eauto|auto].
Qed.
Lemma Forall2_wle_Exists Q l l' : wclosed Q -> Forall2 wle l l' -> Exists Q l -> Exists Q l'.
Proof.
  intros Hc H. induction H; intros HE; inversion HE; subst.
  - left. eapply wle_P; eauto.
  - right; auto.
Qed.
Lemma Forall2_wle_core l l' : Forall2 wle l l' -> map core l' = map core l.
Proof. induction 1; simpl; [reflexivity|]. f_equal; auto using wle_core. Qed.

(* ---------- the sort is a permutation ---------- *)
Lemma insert_perm dflt rank devrank c x l : Permutation (insert dflt rank devrank c x l) (x :: l).
Proof.
  induction l as [|y r IH]; simpl; [reflexivity|].
  destruct (less dflt rank devrank c y x).
  - rewrite IH. apply perm_swap.
  - destruct (less dflt rank devrank c x y); [reflexivity|]. rewrite IH. apply perm_swap.
Qed.
Lemma isort_perm dflt rank devrank c l : Permutation (isort dflt rank devrank c l) l.
Proof. induction l as [|x r IH]; simpl; [reflexivity|]. rewrite insert_perm. constructor; exact IH. Qed.

(* ---------- one class ---------- *)
(* (slots, unsafe, under) after the class: slots are a want-widened permutation; unsafe and under only grow *)
Lemma protect_wanted_incl wd l uns : incl uns (protect_wanted_devs wd l uns).
Proof.
  unfold protect_wanted_devs. revert uns. induction l as [|s r IH]; intros uns; simpl; [apply incl_refl|].
  eapply incl_tran; [|apply IH].
  destruct (srepl s); [|apply incl_refl].
  destruct (negb (dev (smnt s) =? 0) && mem (dev (smnt s)) wd); [apply add_incl|apply incl_refl].
Qed.

Lemma try_slot_unsafe d a s a' s' dn : try_slot_old d a s = (a', s', dn) -> incl (unsafe a) (unsafe a').
Proof.
  unfold try_slot_old. intros H.
  destruct (mem (mid (smnt s)) (wantMnt a) || negb (dev (smnt s) =? 0) && mem (dev (smnt s)) (wantDev a)).
  - injection H as <- _ _. apply incl_refl.
  - set (a1 := match srepl s with
               | Some mt => if (replProt a <? d) && negb (mem (mid (smnt s)) (protMnt a)) then _ else a
               | None => a end) in H.
    assert (I1 : incl (unsafe a) (unsafe a1)).
    { subst a1. destruct (srepl s); [|apply incl_refl].
      destruct ((replProt a <? d) && negb (mem (mid (smnt s)) (protMnt a))); simpl; [apply add_incl|apply incl_refl]. }
    match type of H with (if ?c then _ else _) = _ => destruct c end; injection H as <- _ _; exact I1.
Qed.
Lemma pass_unsafe dist d : forall l a dn a' dn' l',
  pass_old dist d a dn l = (a', dn', l') -> incl (unsafe a) (unsafe a').
Proof.
  induction l as [|s r IH]; intros a dn a' dn' l' H; simpl in H.
  - injection H as <- _ _. apply incl_refl.
  - destruct dn; [injection H as <- _ _; apply incl_refl|].
    destruct (dist && mem (msrv (smnt s)) (wantSrv a)).
    + destruct (pass_old dist d a false r) as [[a1 d1] r1] eqn:E. injection H as <- _ _. eapply IH; eauto.
    + destruct (try_slot_old d a s) as [[a1 s1] d1] eqn:Et.
      destruct (pass_old dist d a1 d1 r) as [[a2 d2] r2] eqn:E. injection H as <- _ _.
      eapply incl_tran; [eapply try_slot_unsafe; eauto|eapply IH; eauto].
Qed.

(* the result of one class, unfolded *)
Lemma do_class_unfold dflt rank devrank c d sl uns under :
  d <> 0 ->
  exists a1 d1 l1 a2 d2 l2,
    pass_old true d (acc0 uns) false (isort dflt rank devrank c sl) = (a1, d1, l1) /\
    pass_old false d a1 d1 l1 = (a2, d2, l2) /\
    do_class_old dflt rank devrank c d (sl, uns, under) =
      (l2, protect_wanted_devs (wantDev a2) l2 (unsafe a2),
       if under then true else safe_count_old dflt c d l2 0 <? d).
Proof.
  intros Hd. unfold do_class_old. destruct (d =? 0) eqn:E; [apply Nat.eqb_eq in E; contradiction|].
  destruct (pass_old true d (acc0 uns) false (isort dflt rank devrank c sl)) as [[a1 d1] l1] eqn:E1.
  destruct (pass_old false d a1 d1 l1) as [[a2 d2] l2] eqn:E2.
  exists a1, d1, l1, a2, d2, l2. auto.
Qed.

Record evolves (st st' : cstate) : Prop := {
  ev_perm : exists l0, Permutation (fst (fst st)) l0 /\ Forall2 wle l0 (fst (fst st'));
  ev_uns : incl (snd (fst st)) (snd (fst st'));
  ev_under : snd st = true -> snd st' = true }.

Lemma evolves_refl st : evolves st st.
Proof.
  split; [|apply incl_refl|auto].
  exists (fst (fst st)). split; [reflexivity|]. induction (fst (fst st)); constructor; auto using wle_refl.
Qed.

Lemma do_class_evolves dflt rank devrank c d st : evolves st (do_class_old dflt rank devrank c d st).
Proof.
  destruct st as [[sl uns] under].
  destruct (Nat.eq_dec d 0) as [->|Hd]; [unfold do_class_old; simpl; apply evolves_refl|].
  destruct (do_class_unfold dflt rank devrank c d sl uns under Hd) as (a1 & d1 & l1 & a2 & d2 & l2 & E1 & E2 & ->).
  split; simpl.
  - exists (isort dflt rank devrank c sl). split; [symmetry; apply isort_perm|].
    pose proof (pass_wle _ _ _ _ _ _ _ _ E1) as W1. pose proof (pass_wle _ _ _ _ _ _ _ _ E2) as W2.
    clear - W1 W2. revert l2 W2. induction W1; intros l2 W2; inversion W2; subst; constructor.
    + destruct H as [->| ->]; auto. destruct H2 as [->| ->]; [right; reflexivity|right; reflexivity].
    + apply IHW1; auto.
  - eapply incl_tran; [|apply protect_wanted_incl].
    eapply incl_tran; [eapply pass_unsafe in E1; exact E1|eapply pass_unsafe; eauto].
  - intros ->. reflexivity.
Qed.

(* Forall / Exists of want-closed predicates and the multiset of cores survive *)
Lemma evolves_Forall P st st' : wclosed P -> evolves st st' -> Forall P (fst (fst st)) -> Forall P (fst (fst st')).
Proof.
  intros Hc [(l0 & Hp & Hw) _ _] HF. eapply Forall2_wle_Forall; eauto.
  rewrite Forall_forall in *. intros x Hx. apply HF. eapply Permutation_in; [symmetry; exact Hp|exact Hx].
Qed.
Lemma evolves_Exists Q st st' : wclosed Q -> evolves st st' -> Exists Q (fst (fst st)) -> Exists Q (fst (fst st')).
Proof.
  intros Hc [(l0 & Hp & Hw) _ _] HE. eapply Forall2_wle_Exists; eauto.
  rewrite Exists_exists in *. destruct HE as (x & Hx & Hq). exists x. split; auto. eapply Permutation_in; eauto.
Qed.
Lemma evolves_core st st' : evolves st st' -> Permutation (map core (fst (fst st'))) (map core (fst (fst st))).
Proof.
  intros [(l0 & Hp & Hw) _ _]. rewrite (Forall2_wle_core _ _ Hw). apply Permutation_map. symmetry; exact Hp.
Qed.

Lemma F2_cons {A B} (R : A -> B -> Prop) x l y l' : Forall2 R (x :: l) (y :: l') -> R x y /\ Forall2 R l l'.
Proof. intros H. inversion H; subst. auto. Qed.

Lemma evolves_trans s1 s2 s3 : evolves s1 s2 -> evolves s2 s3 -> evolves s1 s3.
Proof.
  intros [(l0 & Hp & Hw) U1 N1] [(l1 & Hp' & Hw') U2 N2]. split.
  - (* push the second permutation through the first widening *)
    assert (X : forall a b, Forall2 wle a b -> forall b', Permutation b b' -> exists a', Permutation a a' /\ Forall2 wle a' b').
    { clear. intros a b H b' Hp. revert a H. induction Hp; intros a H.
      - inversion H; subst. exists []. split; auto.
      - destruct a as [|xa ra]; [inversion H|]. apply F2_cons in H. destruct H as [Hh Ht].
        destruct (IHHp _ Ht) as (a' & Pa & Fa). exists (xa :: a'). split; [constructor; auto|constructor; auto].
      - destruct a as [|xa [|ya ra]]; [inversion H|apply F2_cons in H; destruct H as [_ H]; inversion H|].
        apply F2_cons in H. destruct H as [H1 H]. apply F2_cons in H. destruct H as [H2 H3].
        exists (ya :: xa :: ra). split; [apply perm_swap|constructor; [exact H2|constructor; [exact H1|exact H3]]].
      - destruct (IHHp1 _ H) as (a1 & P1 & F1). destruct (IHHp2 _ F1) as (a2 & P2 & F2).
        exists a2. split; [eapply perm_trans; eauto|auto]. }
    destruct (X _ _ Hw _ Hp') as (l0' & P0 & F0).
    exists l0'. split; [eapply perm_trans; eauto|].
    clear - F0 Hw'. revert Hw'. generalize (fst (fst s3)). induction F0; intros l3 H3; inversion H3; subst; constructor; auto.
    destruct H as [->| ->]; auto. destruct H2 as [->| ->]; right; reflexivity.
  - eapply incl_tran; eauto.
  - auto.
Qed.

Lemma run_classes_evolves dflt rank devrank desired classes : forall st,
  evolves st (fold_left (fun st c => do_class_old dflt rank devrank c (lookup desired c) st) classes st).
Proof.
  induction classes as [|c r IH]; intros st; simpl; [apply evolves_refl|].
  eapply evolves_trans; [apply do_class_evolves|apply IH].
Qed.

(* ---------- emission ---------- *)
Lemma emit_trash minMtime norepl from s m t :
  In (Trash m t) (emit minMtime norepl from s) <->
  m = mid (smnt s) /\ srepl s = Some t /\ swant s = false /\ t < minMtime.
Proof.
  unfold emit. destruct (srepl s) as [mt|].
  - destruct (swant s); simpl.
    + split; [tauto|]. intros (_ & _ & H & _); discriminate.
    + destruct (mt <? minMtime) eqn:E; simpl.
      * apply Nat.ltb_lt in E. split.
        -- intros [H|[]]. injection H as <- <-. auto.
        -- intros (-> & H & _ & _). injection H as ->. auto.
      * apply Nat.ltb_ge in E. split; [tauto|]. intros (_ & H & _ & L). injection H as ->. lia.
  - split.
    + destruct (swant s && negb norepl && negb (mro (smnt s))); simpl; [intros [H|[]]; discriminate|tauto].
    + intros (_ & H & _); discriminate.
Qed.
Lemma emit_pull minMtime norepl from s m f :
  In (Pull m f) (emit minMtime norepl from s) <->
  m = mid (smnt s) /\ f = from /\ srepl s = None /\ swant s = true /\ norepl = false /\ mro (smnt s) = false.
Proof.
  unfold emit. destruct (srepl s) as [mt|].
  - split.
    + destruct (negb (swant s) && (mt <? minMtime)); simpl; [intros [H|[]]; discriminate|tauto].
    + intros (_ & _ & H & _); discriminate.
  - destruct (swant s), norepl, (mro (smnt s)); simpl; split; try tauto;
      try (intros (_ & _ & _ & A & B & C); discriminate).
    + intros [H|[]]. injection H as <- <-. auto 10.
    + intros (-> & -> & _). auto.
Qed.

(* ---------- the slots at the end ---------- *)
(* invariant of a single slot that everything preserves *)
Definition slot_ok (mounts : list mnt) (replicas : list (nat * nat)) (s : slot) : Prop :=
  In (smnt s) mounts /\ srepl s = find_repl replicas (mid (smnt s)) None /\
  (has s = true -> mro (smnt s) = true -> swant s = true).
Lemma slot_ok_closed mounts replicas : wclosed (slot_ok mounts replicas).
Proof. intros s (A & B & C). repeat split; auto. Qed.
Lemma mkslot_ok mounts replicas m : In m mounts -> slot_ok mounts replicas (mkslot replicas m).
Proof.
  intros H. unfold slot_ok, mkslot, has; simpl. split; [exact H|]. split; [reflexivity|].
  destruct (find_repl replicas (mid m) None); auto; discriminate.
Qed.

Lemma widen_wle under uns s : wle s (widen under uns s).
Proof. unfold widen. destruct (srepl s); [|apply wle_refl]. destruct (under || mem n uns); [right; reflexivity|apply wle_refl]. Qed.

Lemma final_slots_Forall dflt rank devrank P mounts replicas classes desired :
  wclosed P -> Forall P (map (mkslot replicas) mounts) ->
  Forall P (final_slots_old dflt rank devrank mounts replicas classes desired).
Proof.
  intros Hc H0. unfold final_slots_old, run_classes_old.
  pose proof (run_classes_evolves dflt rank devrank desired classes (map (mkslot replicas) mounts, [], false)) as Ev.
  destruct (fold_left _ classes _) as [[sl uns] under].
  pose proof (evolves_Forall P _ _ Hc Ev H0) as H1. simpl in H1.
  rewrite Forall_forall in *. intros x Hx. apply in_map_iff in Hx. destruct Hx as (s & <- & Hs).
  eapply wle_P; [exact Hc|apply widen_wle|auto].
Qed.

Lemma final_slots_ok dflt rank devrank mounts replicas classes desired :
  Forall (slot_ok mounts replicas) (final_slots_old dflt rank devrank mounts replicas classes desired).
Proof.
  apply final_slots_Forall; [apply slot_ok_closed|].
  rewrite Forall_forall. intros s Hs. apply in_map_iff in Hs. destruct Hs as (m & <- & Hm). apply mkslot_ok; auto.
Qed.

Lemma find_repl_some replicas m : forall acc t,
  find_repl replicas m acc = Some t -> In (m, t) replicas \/ acc = Some t.
Proof.
  induction replicas as [|[i u] r IH]; intros acc t H; simpl in H; [auto|].
  destruct (IH _ _ H) as [X|X]; [left; right; exact X|].
  destruct (i =? m) eqn:E; [|auto]. apply Nat.eqb_eq in E. injection X as ->. subst. left; left; reflexivity.
Qed.
Lemma find_repl_acc_some replicas m : forall x, exists y, find_repl replicas m (Some x) = Some y.
Proof.
  induction replicas as [|[j v] r IH]; intros x; simpl; [eauto|].
  destruct (j =? m); apply IH.
Qed.
Lemma find_repl_none replicas m : forall acc,
  find_repl replicas m acc = None -> forall t, ~ In (m, t) replicas.
Proof.
  induction replicas as [|[i u] r IH]; intros acc H t; simpl in *; [tauto|].
  intros [E|X]; [|eapply IH; eauto].
  injection E as -> ->. rewrite Nat.eqb_refl in H.
  destruct (find_repl_acc_some r m t) as (y & Hy). congruence.
Qed.
