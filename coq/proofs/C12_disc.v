(* C12 — probe order of a client whose roots come from service discovery (model/KC_discover.v):
   a +K@uuid hint naming ANY listed service (read-only or not) is usable and is tried before the
   rendezvous order; the evaluator's discovery clause means the shared RootsSpec. *)
From Coq Require Import Arith NArith List Ascii String Bool Lia.
From AV Require Import lib.Str lib.Md5 lib.SortPerm model.KC_discover model.C12_model model.C12_run
  proofs.KC_discover_proofs proofs.C12_proofs.
Import ListNotations.
Local Open Scope string_scope.
Local Open Scope list_scope.

(* a uuid -> root map as the model's service list *)
Definition svcs_of (m : smap) : list svc := map (fun p => {| uuid := fst p; root := snd p |}) m.

Lemma lookup_svcs_of m u : lookup (svcs_of m) u = mget m u.
Proof.
  induction m as [|[k v] m IH]; cbn [svcs_of map lookup mget uuid root fst snd]; [reflexivity|].
  destruct (String.eqb k u); [reflexivity|exact IH].
Qed.

Lemma pairs_of_svcs_of m : pairs_of (svcs_of m) = m.
Proof.
  induction m as [|[k v] m IH]; cbn [svcs_of pairs_of map uuid root fst snd]; [reflexivity|].
  f_equal. exact IH.
Qed.

Lemma length_append a b : String.length (a ++ b)%string = String.length a + String.length b.
Proof. induction a as [|c a IH]; cbn [append String.length]; [reflexivity|rewrite IH; reflexivity]. Qed.

(* the 29-character hint "K@<uuid>" of a service with a 27-character uuid that the gateway map knows *)
Lemma hint_root_known gw u r :
  String.length u = 27 -> lookup gw u = Some r -> hint_root gw ("K@" ++ u)%string = [r].
Proof.
  intros Hl Hk. unfold hint_root.
  assert (L : String.length ("K@" ++ u)%string = 29) by (rewrite length_append, Hl; reflexivity).
  rewrite L. cbn [Nat.ltb Nat.leb Nat.eqb]. cbn [append take String.eqb Ascii.eqb Bool.eqb negb].
  cbn [drop]. rewrite Hk. reflexivity.
Qed.

(* after discovery from list l, a hint naming a listed service s contributes exactly s's URL *)
Theorem hint_to_listed_service l s :
  NoDup (map d_uuid l) -> In s (kept l) -> String.length (d_uuid s) = 27 ->
  hint_root (svcs_of (r_gateway (load_roots l))) ("K@" ++ d_uuid s)%string = [d_url s].
Proof.
  intros Hnd Hs Hl. apply hint_root_known; [exact Hl|]. rewrite lookup_svcs_of.
  apply gateway_has_every_listed; assumption.
Qed.

(* ... and the reader tries it before the rendezvous order of the local roots, whether or not s is read-only *)
Theorem listed_hint_tried_before_rendezvous l loc s :
  NoDup (map d_uuid l) -> In s (kept l) -> String.length (d_uuid s) = 27 ->
  In ("K@" ++ d_uuid s)%string (split_plus loc) ->
  exists pre post,
    get_sorted_roots (svcs_of (r_gateway (load_roots l))) (svcs_of (r_local (load_roots l))) loc =
    pre ++ d_url s :: post ++ sorted_roots (take 32 loc) (svcs_of (r_local (load_roots l))).
Proof.
  intros Hnd Hs Hl Hin. unfold get_sorted_roots.
  assert (Hh : In (d_url s) (hint_roots (svcs_of (r_gateway (load_roots l))) loc)).
  { unfold hint_roots. apply in_flat_map. exists ("K@" ++ d_uuid s)%string. split; [exact Hin|].
    rewrite (hint_to_listed_service l s Hnd Hs Hl). left. reflexivity. }
  apply in_split in Hh. destruct Hh as (pre & post & ->). exists pre, post. rewrite <- app_assoc. reflexivity.
Qed.

(* the local roots after discovery are the listed services: reads probe all of them (read-only ones included),
   writes only the writable ones *)
Theorem discovered_local_and_writable l : NoDup (map d_uuid l) ->
  svcs_of (r_local (load_roots l)) = map (fun s => {| uuid := d_uuid s; root := d_url s |}) (kept l) /\
  svcs_of (r_writable (load_roots l)) =
    map (fun s => {| uuid := d_uuid s; root := d_url s |}) (filter (fun s => negb (d_ro s)) (kept l)).
Proof.
  intros Hnd. destruct (load_roots_maps l Hnd) as (-> & -> & _). unfold svcs_of. rewrite !map_map. split; reflexivity.
Qed.

(* the evaluator's discovery clause is the shared specification of the last list *)
Theorem disc_spec_b_reflects c : c_lists c <> [] ->
  (disc_spec_b c = true <->
   (NoDup (map d_uuid (current_list (c_lists c))) ->
    RootsSpec (current_list (c_lists c)) (pairs_of (c_local c)) (pairs_of (mask (c_writable c) (c_local c))) (pairs_of (c_gw c)))).
Proof.
  intros Hne. unfold disc_spec_b. destruct (c_lists c) as [|l0 ls] eqn:E; [contradiction|]. apply roots_spec_b_reflects.
Qed.

(* and the model's own maps pass it after any history of lists *)
Theorem model_passes_disc_spec st ls : ls <> [] ->
  let m := k_roots (load_all st ls) in
  roots_spec_b (current_list ls) (r_local m) (r_writable m) (r_gateway m) = true.
Proof. exact (load_all_meets_roots_spec_b st ls). Qed.

Theorem disc_spec_b_written_out c : c_lists c <> [] ->
  (disc_spec_b c = true <->
   (NoDup (map d_uuid (current_list (c_lists c))) ->
    (forall p, In p (pairs_of (c_local c)) <-> exists s, In s (kept (current_list (c_lists c))) /\ p = root_entry s) /\
    (forall p, In p (pairs_of (mask (c_writable c) (c_local c))) <->
               exists s, In s (kept (current_list (c_lists c))) /\ d_ro s = false /\ p = root_entry s) /\
    (forall s, In s (kept (current_list (c_lists c))) -> In (root_entry s) (pairs_of (c_gw c))) /\
    (forall p, In p (pairs_of (c_gw c)) -> exists s, In s (current_list (c_lists c)) /\ p = root_entry s))).
Proof.
  intros Hne. rewrite (disc_spec_b_reflects c Hne). split; intros H Hnd; apply RootsSpec_written_out; apply H; exact Hnd.
Qed.
