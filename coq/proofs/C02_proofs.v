(* C02 — proofs about model/C02_model.v: the PUT write path as a step program; crash after any number
   of steps, cancellation at any point, durability once acknowledged.  All statements are for every
   body length L, every list of volumes and prior states, every crash point k. *)
From Coq Require Import NArith Arith List String Bool Lia Ascii.
From AV Require Import lib.Str model.C02_model model.C02_run.
Import ListNotations.
Local Open Scope N_scope.

(* ---- names ---- *)
Lemma tmp_not_block h suffix : is_block_name (tmp_name h suffix) = false.
Proof. unfold is_block_name, tmp_name. cbn. apply andb_false_r. Qed.

(* ---- per-volume view of the effects ---- *)
Definition veff (L : N) (e : eff) (j : nat) (v : vold) : vold :=
  match e with
  | ENone | ETouch _ => v
  | EMkdir i => if Nat.eqb i j then {| d_ro := d_ro v; d_dir := true; d_blk := d_blk v; d_tmp := d_tmp v; d_full := d_full v |} else v
  | ECreate i => if Nat.eqb i j then {| d_ro := d_ro v; d_dir := d_dir v; d_blk := d_blk v; d_tmp := Some 0; d_full := d_full v |} else v
  | EWrite i n => if Nat.eqb i j then {| d_ro := d_ro v; d_dir := d_dir v; d_blk := d_blk v; d_tmp := Some n; d_full := d_full v |} else v
  | ERename i => if Nat.eqb i j then
      {| d_ro := d_ro v; d_dir := d_dir v;
         d_blk := match d_tmp v with Some n => Some (if n =? L then KGood else KCorrupt n) | None => d_blk v end;
         d_tmp := None; d_full := d_full v |} else v
  | ERemoveTmp i => if Nat.eqb i j then {| d_ro := d_ro v; d_dir := d_dir v; d_blk := d_blk v; d_tmp := None; d_full := d_full v |} else v
  end.
Fixpoint vrun (L : N) (es : list (string * eff)) (j : nat) (v : vold) : vold :=
  match es with [] => v | (_, e) :: r => vrun L r j (veff L e j v) end.

Lemma nth_upd f : forall vs i j, nth_error (upd_nth vs i f) j =
  if Nat.eqb i j then option_map f (nth_error vs j) else nth_error vs j.
Proof.
  induction vs as [|v r IH]; intros i j.
  - destruct i, j; cbn; try reflexivity; destruct (Nat.eqb _ _); reflexivity.
  - destruct i, j; cbn [upd_nth nth_error Nat.eqb]; try reflexivity. apply IH.
Qed.

Lemma nth_apply_eff L e vs j : nth_error (apply_eff L e vs) j = option_map (veff L e j) (nth_error vs j).
Proof.
  destruct e; cbn [apply_eff]; unfold veff; try (destruct (nth_error vs j); reflexivity);
  rewrite nth_upd; destruct (Nat.eqb i j); destruct (nth_error vs j); reflexivity.
Qed.

Lemma nth_apply_all L es : forall vs j, nth_error (apply_all L es vs) j = option_map (vrun L es j) (nth_error vs j).
Proof.
  induction es as [|[l e] r IH]; intros vs j; cbn [apply_all vrun]; [destruct (nth_error vs j); reflexivity|].
  rewrite IH, nth_apply_eff. destruct (nth_error vs j); reflexivity.
Qed.

Lemma vrun_app L a : forall b j v, vrun L (a ++ b) j v = vrun L b j (vrun L a j v).
Proof. induction a as [|[l e] r IH]; intros b j v; cbn [vrun app]; [reflexivity|apply IH]. Qed.

(* steps that never rename leave the block file of every volume alone; d_ro never changes *)
Definition no_rename (es : list (string * eff)) : Prop := forall l i, ~ In (l, ERename i) es.
Lemma veff_ro L e j v : d_ro (veff L e j v) = d_ro v.
Proof. destruct e; cbn [veff]; try reflexivity; destruct (Nat.eqb i j); reflexivity. Qed.
Lemma vrun_ro L es : forall j v, d_ro (vrun L es j v) = d_ro v.
Proof. induction es as [|[l e] r IH]; intros j v; cbn [vrun]; [reflexivity|]. rewrite IH. apply veff_ro. Qed.
Lemma vrun_no_rename L es : no_rename es -> forall j v, d_blk (vrun L es j v) = d_blk v.
Proof.
  induction es as [|[l e] r IH]; intros Hn j v; cbn [vrun]; [reflexivity|].
  rewrite IH by (intros l' i' X; apply (Hn l' i'); right; exact X).
  destruct e; cbn [veff]; try reflexivity; try (destruct (Nat.eqb i j); reflexivity).
  exfalso. apply (Hn l i). left; reflexivity.
Qed.

(* steps without any effect *)
Definition inert (es : list (string * eff)) : Prop :=
  forall l e, In (l, e) es -> e = ENone \/ exists i, e = ETouch i.
Lemma vrun_inert L es : inert es -> forall j v, vrun L es j v = v.
Proof.
  induction es as [|[l e] r IH]; intros Hi j v; cbn [vrun]; [reflexivity|].
  rewrite IH by (intros l' e' X; apply (Hi l' e'); right; exact X).
  destruct (Hi l e (or_introl eq_refl)) as [->|[i ->]]; reflexivity.
Qed.
Lemma inert_app a b : inert a -> inert b -> inert (a ++ b).
Proof. intros Ha Hb l e X. apply in_app_or in X. destruct X; [eapply Ha|eapply Hb]; eassumption. Qed.
Lemma inert_no_rename es : inert es -> no_rename es.
Proof. intros Hi l i X. destruct (Hi _ _ X) as [Y|[k Y]]; discriminate. Qed.

Lemma inert_compare_present : inert compare_steps_present.
Proof. intros l e X. cbn in X. repeat (destruct X as [X|X]; [inversion X; auto|]). contradiction. Qed.
Lemma inert_touch i : inert (touch_steps i).
Proof. intros l e X. cbn in X. repeat (destruct X as [X|X]; [inversion X; eauto|]). contradiction. Qed.

Lemma inert_cat : forall vs i, inert (fst (compare_and_touch vs i)).
Proof.
  induction vs as [|v r IH]; intros i; cbn [compare_and_touch]; [intros l e []|].
  destruct (d_ro v); [apply IH|]. destruct (d_blk v) as [[|n]|].
  - cbn [fst]. apply inert_app; [apply inert_compare_present|apply inert_touch].
  - specialize (IH (S i)). destruct (compare_and_touch r (S i)) as [t ok]. cbn [fst] in *.
    apply inert_app; [apply inert_compare_present|exact IH].
  - specialize (IH (S i)). destruct (compare_and_touch r (S i)) as [t ok]. cbn [fst] in *.
    intros l e [X|X]; [inversion X; auto|eapply IH; exact X].
Qed.
Lemma inert_cut : forall vs nv, inert (compare_cut vs nv).
Proof.
  induction vs as [|v r IH]; intros nv; cbn [compare_cut]; [intros l e []|].
  destruct (d_ro v); [apply IH|].
  assert (Hh : inert (match d_blk v with None => [("stat:v.os.Stat"%string, ENone)] | Some _ => compare_steps_present end)).
  { destruct (d_blk v); [apply inert_compare_present|]. intros l e [X|[]]. inversion X; auto. }
  destruct nv; [exact Hh|apply inert_app; [exact Hh|apply IH]].
Qed.

(* ---- the write phase on the target volume ---- *)
Definition set_tmp (t : option N) (v : vold) : vold := {| d_ro := d_ro v; d_dir := d_dir v; d_blk := d_blk v; d_tmp := t; d_full := d_full v |}.

Lemma vrun_writes L i : forall n done v, (0 < n)%nat ->
  vrun L (write_steps i L done n) i v = set_tmp (Some (N.min L (N.of_nat (done + n) * CHUNK))) v.
Proof.
  induction n as [|n IH]; intros done v Hn; [lia|]. cbn [write_steps vrun veff]. rewrite Nat.eqb_refl.
  destruct n as [|n'].
  - cbn [write_steps vrun]. unfold set_tmp. cbn. replace (done + 1)%nat with (S done) by lia. reflexivity.
  - rewrite IH by lia. unfold set_tmp. cbn [d_ro d_dir d_blk d_tmp]. replace (S done + S n')%nat with (done + S (S n'))%nat by lia. reflexivity.
Qed.
Lemma writes_no_rename i L : forall n done, no_rename (write_steps i L done n).
Proof.
  induction n as [|n IH]; intros done l k X; cbn [write_steps] in X; [contradiction|].
  destruct X as [X|X]; [inversion X|eapply IH; exact X].
Qed.
Lemma writes_other L i j : i <> j -> forall n done v, vrun L (write_steps i L done n) j v = v.
Proof.
  intros Hij. induction n as [|n IH]; intros done v; cbn [write_steps vrun veff]; [reflexivity|].
  destruct (Nat.eqb_spec i j); [contradiction|]. apply IH.
Qed.

Lemma nwrites_covers L : (0 < nwrites L)%nat -> N.min L (N.of_nat (nwrites L) * CHUNK) = L.
Proof.
  intros _. unfold nwrites. rewrite N2Nat.id. apply N.min_l. unfold CHUNK.
  pose proof (N.div_mod (L + 32768 - 1) 32768 ltac:(lia)). pose proof (N.mod_lt (L + 32768 - 1) 32768 ltac:(lia)). lia.
Qed.
Lemma nwrites_zero L : nwrites L = O -> L = 0.
Proof.
  unfold nwrites, CHUNK. intros H. assert ((L + 32768 - 1) / 32768 = 0) by lia.
  apply N.div_small_iff in H0; lia.
Qed.

Lemma inert_lock ex : inert (lock_steps ex).
Proof. intros l e X. destruct ex; cbn in X; repeat (destruct X as [X|X]; [inversion X; auto|]); contradiction. Qed.
Lemma inert_unlock ex : inert (unlock_steps ex).
Proof. intros l e X. destruct ex; cbn in X; repeat (destruct X as [X|X]; [inversion X; auto|]); contradiction. Qed.

(* the write up to and including the rename, and the deferred calls after it *)
Definition write_body (i : nat) (L : N) (ex : bool) : list (string * eff) :=
  ([("WriteBlock:os.MkdirAll"%string, EMkdir i); ("WriteBlock:v.os.TempFile"%string, ECreate i)] ++ write_steps i L 0 (nwrites L) ++
   [("WriteBlock:tmpfile.Close"%string, ENone); ("WriteBlock:os.Chtimes"%string, ENone)] ++ lock_steps ex)%list.
Definition write_core (i : nat) (L : N) (ex : bool) : list (string * eff) :=
  (write_body i L ex ++ [("WriteBlock:v.os.Rename"%string, ERename i)])%list.
Lemma write_complete_split i L ex :
  fst (write_block i L Complete ex) = (write_core i L ex ++ unlock_steps ex)%list.
Proof. unfold write_core, write_body. cbn [write_block fst]. rewrite <- !app_assoc. reflexivity. Qed.

(* the complete write: the target volume ends with the block file = the body, no temp file *)
Lemma vrun_write_core L i ex v : d_blk (vrun L (write_core i L ex) i v) = Some KGood /\
                                  d_tmp (vrun L (write_core i L ex) i v) = None.
Proof.
  unfold write_core, write_body. rewrite !vrun_app. rewrite (vrun_inert L (lock_steps ex)) by apply inert_lock.
  cbn [vrun veff]. rewrite !Nat.eqb_refl.
  set (v1 := {| d_ro := d_ro _; d_dir := d_dir _; d_blk := d_blk _; d_tmp := Some 0; d_full := d_full _ |}).
  destruct (nwrites L) as [|n] eqn:En.
  - cbn [write_steps vrun]. subst v1. cbn. rewrite (nwrites_zero L En). split; reflexivity.
  - rewrite vrun_writes by lia. cbn [set_tmp d_tmp d_blk d_ro d_dir d_full]. rewrite Nat.add_0_l, <- En.
    rewrite nwrites_covers by lia. rewrite N.eqb_refl. split; reflexivity.
Qed.
Lemma vrun_write_complete L i ex v : d_blk (vrun L (fst (write_block i L Complete ex)) i v) = Some KGood /\
                                      d_tmp (vrun L (fst (write_block i L Complete ex)) i v) = None.
Proof. rewrite write_complete_split, vrun_app, (vrun_inert L (unlock_steps ex)) by apply inert_unlock. apply vrun_write_core. Qed.
Lemma vrun_write_other L i j src ex v : i <> j -> vrun L (fst (write_block i L src ex)) j v = v.
Proof.
  intros Hij. destruct src; cbn [write_block fst]; rewrite ?vrun_app; cbn [vrun veff];
  destruct (Nat.eqb_spec i j); try contradiction; rewrite ?writes_other by exact Hij;
  rewrite ?(vrun_inert L (lock_steps ex)) by apply inert_lock; rewrite ?(vrun_inert L (unlock_steps ex)) by apply inert_unlock;
  cbn [vrun veff]; destruct (Nat.eqb_spec i j); try contradiction; reflexivity.
Qed.
(* a write that fails (context cancelled): no rename, temp file removed *)
Lemma vrun_write_failed L i w ex v : d_blk (vrun L (fst (write_block i L (FailsAfter w) ex)) i v) = d_blk v /\
                                      d_tmp (vrun L (fst (write_block i L (FailsAfter w) ex)) i v) = None.
Proof.
  cbn [write_block fst]. rewrite !vrun_app. cbn [vrun veff]. rewrite !Nat.eqb_refl. cbn [d_blk d_tmp].
  split; [|reflexivity]. rewrite vrun_no_rename by apply writes_no_rename. reflexivity.
Qed.

(* every proper prefix of the complete write has no rename *)
Lemma firstn_mid_cases {A} (xs : list A) (x : A) (ts : list A) k :
  (exists m, firstn k ((xs ++ [x]) ++ ts) = (xs ++ [x]) ++ firstn m ts) \/ exists m, firstn k ((xs ++ [x]) ++ ts) = firstn m xs.
Proof.
  destruct (le_lt_dec (S (List.length xs)) k) as [H|H].
  - left. exists (k - S (List.length xs))%nat. rewrite firstn_app. rewrite firstn_all2 by (rewrite app_length; cbn; lia).
    rewrite app_length. cbn [List.length]. replace (List.length xs + 1)%nat with (S (List.length xs)) by lia. reflexivity.
  - right. exists k. rewrite <- app_assoc. rewrite firstn_app. replace (k - List.length xs)%nat with O by lia. cbn. apply app_nil_r.
Qed.
Lemma firstn_In {A} (l : list A) : forall k x, In x (firstn k l) -> In x l.
Proof. induction l as [|y r IH]; intros [|k] x H; cbn in *; try contradiction. destruct H; [left; assumption|right; eapply IH; eauto]. Qed.
Lemma no_rename_firstn es k : no_rename es -> no_rename (firstn k es).
Proof. intros Hn l i X. apply (Hn l i). eapply firstn_In; eauto. Qed.
Lemma no_rename_app a b : no_rename a -> no_rename b -> no_rename (a ++ b).
Proof. intros Ha Hb l i X. apply in_app_or in X. destruct X; [eapply Ha|eapply Hb]; eassumption. Qed.

Lemma write_body_no_rename i L ex : no_rename (write_body i L ex).
Proof.
  unfold write_body. apply no_rename_app; [|apply no_rename_app; [|apply no_rename_app]].
  - intros l k X. cbn in X. destruct X as [X|[X|[]]]; inversion X.
  - apply writes_no_rename.
  - intros l k X. cbn in X. destruct X as [X|[X|[]]]; inversion X.
  - apply inert_no_rename. apply inert_lock.
Qed.
Lemma write_failed_no_rename i L w ex : no_rename (fst (write_block i L (FailsAfter w) ex)).
Proof.
  cbn [write_block fst]. apply no_rename_app; [|apply no_rename_app].
  - intros l k X. cbn in X. destruct X as [X|[X|[]]]; inversion X.
  - apply writes_no_rename.
  - intros l k X. cbn in X. destruct X as [X|[X|[]]]; inversion X.
Qed.

(* ---- the whole program ---- *)
(* shape of put_prog: inert steps, then possibly one write_block on one in-range writable volume *)
Lemma nth_writable_lt : forall vs k i j, nth_writable vs k i = Some j -> (i <= j < i + List.length vs)%nat.
Proof.
  induction vs as [|v r IH]; intros k i j H; cbn [nth_writable] in H; [discriminate|]. cbn [List.length].
  destruct (d_ro v); [apply IH in H; lia|]. destruct k; [inversion H; lia|apply IH in H; lia].
Qed.
Lemma nth_writable_rw : forall vs k i j, nth_writable vs k i = Some j -> exists v, nth_error vs (j - i) = Some v /\ d_ro v = false.
Proof.
  induction vs as [|v r IH]; intros k i j H; cbn [nth_writable] in H; [discriminate|].
  destruct (d_ro v) eqn:Er.
  - pose proof (nth_writable_lt _ _ _ _ H). destruct (IH _ _ _ H) as (x & A & B). exists x.
    replace (j - i)%nat with (S (j - S i)) by lia. cbn. auto.
  - destruct k.
    + inversion H; subst. replace (j - j)%nat with O by lia. exists v. cbn. auto.
    + pose proof (nth_writable_lt _ _ _ _ H). destruct (IH _ _ _ H) as (x & A & B). exists x.
      replace (j - i)%nat with (S (j - S i)) by lia. cbn. auto.
Qed.

Inductive shape (vs : list vold) (L : N) (src : source) : list (string * eff) -> bool -> Prop :=
| sh_inert t ok : inert t -> (ok = true -> exists v, In v vs /\ d_ro v = false /\ d_blk v = Some KGood) ->
                  shape vs L src t ok
| sh_write t i ex : inert t -> (i < List.length vs)%nat -> (match src with CancelledIn _ => False | _ => True end) ->
                 shape vs L src (t ++ fst (write_block i L src ex)) (snd (write_block i L src ex)).

Lemma first_free_lt : forall vs i j, first_free vs i = Some j -> (i <= j < i + List.length vs)%nat.
Proof.
  induction vs as [|v r IH]; intros i j H; cbn [first_free] in H; [discriminate|]. cbn [List.length].
  destruct (d_ro v || d_full v); [apply IH in H; lia|inversion H; lia].
Qed.
Lemma put_target_lt vs n i : put_target vs n = Some i -> (i < List.length vs)%nat.
Proof.
  unfold put_target. destruct (nth_writable vs (1 mod n) 0) as [j|] eqn:E; [|discriminate].
  pose proof (nth_writable_lt _ _ _ _ E). destruct (vol_full vs j).
  - intros X. apply first_free_lt in X. lia.
  - intros X. inversion X; subst. lia.
Qed.

Lemma cat_ok_good : forall vs i, snd (compare_and_touch vs i) = true -> exists v, In v vs /\ d_ro v = false /\ d_blk v = Some KGood.
Proof.
  induction vs as [|v r IH]; intros i; cbn [compare_and_touch]; [discriminate|].
  destruct (d_ro v) eqn:Er.
  - intros X. destruct (IH _ X) as (x & A & B). exists x. split; [right; exact A|exact B].
  - destruct (d_blk v) as [[|n]|] eqn:Eb.
    + intros _. exists v. split; [left; reflexivity|auto].
    + destruct (compare_and_touch r (S i)) as [t ok] eqn:E. cbn [snd]. intros ->.
      destruct (IH (S i)) as (x & A & B); [rewrite E; reflexivity|]. exists x. split; [right; exact A|exact B].
    + destruct (compare_and_touch r (S i)) as [t ok] eqn:E. cbn [snd]. intros ->.
      destruct (IH (S i)) as (x & A & B); [rewrite E; reflexivity|]. exists x. split; [right; exact A|exact B].
Qed.

Lemma put_prog_shape vs L src : shape vs L src (fst (put_prog vs L src)) (snd (put_prog vs L src)).
Proof.
  unfold put_prog. destruct (nwritable vs) as [|n] eqn:En; [apply sh_inert; [intros l e []|discriminate]|].
  destruct src as [|w|nv].
  3:{ cbn [fst snd]. apply sh_inert; [apply inert_cut|discriminate]. }
  all: pose proof (inert_cat vs 0) as Hi; pose proof (cat_ok_good vs 0) as Hg;
       destruct (compare_and_touch vs 0) as [t ok]; cbn [fst snd] in *; destruct ok;
       [cbn [fst snd]; apply sh_inert; [exact Hi|intros _; apply Hg; reflexivity]|];
       destruct (put_target vs (S n)) as [i|] eqn:Ew; cbn [fst snd]; [|apply sh_inert; [exact Hi|discriminate]];
       pose proof (put_target_lt _ _ _ Ew);
       match goal with |- context [write_block ?i0 ?L0 ?src ?ex] =>
         destruct (write_block i0 L0 src ex) as [w' ok'] eqn:Eb; cbn [fst snd];
         replace w' with (fst (write_block i0 L0 src ex)) by (rewrite Eb; reflexivity);
         replace ok' with (snd (write_block i0 L0 src ex)) by (rewrite Eb; reflexivity);
         apply sh_write; [exact Hi|lia|exact I]
       end.
Qed.

(* ---- theorems ---- *)
Definition blk_ok (v v' : vold) : Prop := d_blk v' = d_blk v \/ d_blk v' = Some KGood.

Lemma Forall2_nth_intro {A} (P : A -> A -> Prop) (f : nat -> A -> A) : forall (a b : list A) (off : nat),
  (forall j, nth_error b j = option_map (f (off + j)%nat) (nth_error a j)) ->
  (forall j x, nth_error a j = Some x -> P x (f (off + j)%nat x)) -> Forall2 P a b.
Proof.
  induction a as [|x r IH]; intros b off Hn Hp.
  - destruct b as [|y b]; [constructor|]. specialize (Hn O). cbn in Hn. discriminate.
  - destruct b as [|y b]; [specialize (Hn O); cbn in Hn; discriminate|]. constructor.
    + pose proof (Hn O) as H0. cbn in H0. inversion H0; subst. apply (Hp O x). reflexivity.
    + apply (IH b (S off)).
      * intros j. specialize (Hn (S j)). cbn in Hn. rewrite Hn. replace (off + S j)%nat with (S off + j)%nat by lia. reflexivity.
      * intros j z Hz. specialize (Hp (S j) z Hz). replace (off + S j)%nat with (S off + j)%nat in Hp by lia. exact Hp.
Qed.

Lemma apply_all_F2 (P : vold -> vold -> Prop) L es vs :
  (forall j x, nth_error vs j = Some x -> P x (vrun L es j x)) -> Forall2 P vs (apply_all L es vs).
Proof.
  intros H. apply (Forall2_nth_intro P (fun j => vrun L es j) vs (apply_all L es vs) O).
  - intros j. apply nth_apply_all.
  - exact H.
Qed.

(* put_crash_atomic: whatever the crash point k (and whatever the source does), every volume's block
   file is what it was before, or the complete body — never anything else; read-only flags unchanged *)
Theorem put_crash_atomic vs L src k :
  Forall2 (fun v v' => (d_blk v' = d_blk v \/ d_blk v' = Some KGood) /\ d_ro v' = d_ro v) vs (crash vs L src k).
Proof.
  unfold crash. apply apply_all_F2. intros j x Hx. split; [|apply vrun_ro].
  pose proof (put_prog_shape vs L src) as Hs. inversion Hs as [t ok Hi Hg E1 E2|t i ex Hi Hlt Hsrc E1 E2].
  - left. apply vrun_no_rename. apply no_rename_firstn. apply inert_no_rename. exact Hi.
  - rewrite firstn_app, vrun_app.
    rewrite (vrun_inert L (firstn k t)) by (intros l e X; eapply Hi; eapply firstn_In; exact X).
    destruct src as [|w|nv]; [|left; apply vrun_no_rename; apply no_rename_firstn; apply write_failed_no_rename|contradiction].
    rewrite write_complete_split. unfold write_core.
    destruct (firstn_mid_cases (write_body i L ex) ("WriteBlock:v.os.Rename"%string, ERename i) (unlock_steps ex) (k - List.length t)) as [[m E]|[m E]]; rewrite E.
    + (* the rename has happened; what follows (deferred unlock/close) changes nothing *)
      rewrite vrun_app, (vrun_inert L (firstn m (unlock_steps ex))) by (intros l e X; eapply inert_unlock; eapply firstn_In; exact X).
      fold (write_core i L ex). destruct (Nat.eq_dec i j) as [->|Hij].
      * right. apply vrun_write_core.
      * left. pose proof (vrun_write_other L i j Complete ex x Hij) as O.
        rewrite write_complete_split, vrun_app, (vrun_inert L (unlock_steps ex)) in O by apply inert_unlock. rewrite O. reflexivity.
    + left. apply vrun_no_rename. apply no_rename_firstn. apply write_body_no_rename.
Qed.

Lemma get_block_good : forall vs e, (exists v, In v vs /\ d_blk v = Some KGood) -> get_block vs e = GData.
Proof.
  induction vs as [|v r IH]; intros e (x & Hin & Hx); [contradiction|]. cbn [get_block].
  destruct Hin as [->|Hin]; [rewrite Hx; reflexivity|].
  destruct (d_blk v) as [[|n]|]; [reflexivity|apply IH; eauto|apply IH; eauto].
Qed.

(* index entries after a crash: what was listed before, or the new block with its true size *)
Lemma index_entries L : forall vs vs', Forall2 (fun v v' => (d_blk v' = d_blk v \/ d_blk v' = Some KGood) /\ d_ro v' = d_ro v) vs vs' ->
  forall n, In n (index L vs') -> In n (index L vs) \/ n = L.
Proof.
  induction 1 as [|v v' r r' [[Hb|Hb] _] HF IH]; intros n Hin; cbn [index flat_map] in *; [contradiction| |].
  - apply in_app_or in Hin. destruct Hin as [Hin|Hin].
    + rewrite Hb in Hin. left. apply in_or_app. left. exact Hin.
    + destruct (IH n Hin) as [X|X]; [left; apply in_or_app; right; exact X|right; exact X].
  - apply in_app_or in Hin. destruct Hin as [Hin|Hin].
    + rewrite Hb in Hin. cbn in Hin. destruct Hin as [<-|[]]. right; reflexivity.
    + destruct (IH n Hin) as [X|X]; [left; apply in_or_app; right; exact X|right; exact X].
Qed.

Theorem crash_index vs L src k n : In n (index L (crash vs L src k)) -> In n (index L vs) \/ n = L.
Proof. apply index_entries. apply put_crash_atomic. Qed.

(* put_ack_durable: if the request is acknowledged, then on the disk it leaves behind (hence for any
   later process started on it) GET serves the complete block *)
Theorem put_ack_durable vs L src e : snd (put_prog vs L src) = true -> get_block (finish vs L src) e = GData.
Proof.
  intros Hok. apply get_block_good. unfold finish.
  pose proof (put_prog_shape vs L src) as Hs. inversion Hs as [t ok Hi Hg E1 E2|t i ex Hi Hlt Hsrc E1 E2].
  - destruct (Hg Hok) as (v & Hin & _ & Hb). apply In_nth_error in Hin. destruct Hin as [j Hj].
    exists (vrun L (fst (put_prog vs L src)) j v). split.
    + eapply nth_error_In. rewrite nth_apply_all, Hj. reflexivity.
    + rewrite vrun_inert by exact Hi. exact Hb.
  - rewrite <- E2 in Hok. destruct src as [|w|nv]; [|cbn in Hok; discriminate|contradiction].
    destruct (nth_error vs i) as [x|] eqn:Ex; [|apply nth_error_None in Ex; lia].
    exists (vrun L (t ++ fst (write_block i L Complete ex)) i x). split.
    + eapply nth_error_In. rewrite nth_apply_all, Ex. reflexivity.
    + rewrite vrun_app, (vrun_inert L t) by exact Hi. apply vrun_write_complete.
Qed.

(* put_cancel_safe: when the writer sees an error instead of EOF, or the context ends during
   CompareAndTouch, no block file changes and no temp file is left where there was none *)
Theorem put_cancel_safe vs L src :
  (match src with Complete => False | _ => True end) ->
  Forall2 (fun v v' => d_blk v' = d_blk v /\ (d_tmp v = None -> d_tmp v' = None)) vs (finish vs L src) /\
  snd (put_prog vs L src) = false \/ (exists v, In v vs /\ d_ro v = false /\ d_blk v = Some KGood).
Proof.
  intros Hsrc. pose proof (put_prog_shape vs L src) as Hs. inversion Hs as [t ok Hi Hg E1 E2|t i ex Hi Hlt Hs' E1 E2].
  - destruct ok; [right; apply Hg; symmetry; exact E2|left]. split; [|symmetry; exact E2].
    unfold finish. apply apply_all_F2. intros j x _. rewrite vrun_inert by exact Hi. auto.
  - left. destruct src as [|w|nv]; [contradiction| |contradiction]. split; [|reflexivity].
    unfold finish. rewrite <- E1. apply apply_all_F2. intros j x _. rewrite vrun_app, (vrun_inert L t) by exact Hi.
    destruct (Nat.eq_dec i j) as [->|Hij].
    + destruct (vrun_write_failed L j w ex x) as [A B]. split; [exact A|intros _; exact B].
    + rewrite vrun_write_other by exact Hij. auto.
Qed.

(* handler_ack_after_put: the locator is sent (200) only when an identical copy was found and touched,
   or the writer received the whole body *)
Theorem handler_ack_after_put vs L src : snd (put_prog vs L src) = true ->
  src = Complete \/ exists v, In v vs /\ d_ro v = false /\ d_blk v = Some KGood.
Proof.
  intros Hok. pose proof (put_prog_shape vs L src) as Hs. inversion Hs as [t ok Hi Hg E1 E2|t i ex Hi Hlt Hs' E1 E2].
  - right. apply Hg. exact Hok.
  - rewrite <- E2 in Hok. destruct src; [left; reflexivity|cbn in Hok; discriminate|contradiction].
Qed.

(* the model's outcome of every run satisfies the boolean specification that judges the
   implementation: GET after any crash is an error or the complete body *)
Lemma get_block_cases vs e : get_block vs e = GData \/ exists c, get_block vs e = GErr c.
Proof. destruct (get_block vs e); eauto. Qed.

(* examples: hypotheses are satisfiable *)
Example ex_prog : map fst (fst (put_prog [D false true (Some (KCorrupt 5)) None] 40000 Complete)) =
  ["stat:v.os.Stat"; "getFunc:v.os.Open"; "getFunc:defer:f.Close"; "WriteBlock:os.MkdirAll"; "WriteBlock:v.os.TempFile";
   "WriteBlock:write:tmpfile"; "WriteBlock:write:tmpfile"; "WriteBlock:tmpfile.Close"; "WriteBlock:os.Chtimes";
   "WriteBlock:v.os.OpenFile"; "WriteBlock:v.lockfile"; "WriteBlock:v.os.Rename";
   "WriteBlock:defer:v.unlockfile"; "WriteBlock:defer:old.Close"]%string.
Proof. vm_compute. reflexivity. Qed.
Example ex_crash_mid : crash [D false true (Some (KCorrupt 5)) None] 40000 Complete 10 = [D false true (Some (KCorrupt 5)) (Some 40000)].
Proof. vm_compute. reflexivity. Qed.
Example ex_finish : finish [D false true (Some (KCorrupt 5)) None] 40000 Complete = [D false true (Some KGood) None].
Proof. vm_compute. reflexivity. Qed.

(* ---- full volumes: the fallback loop of PutBlock ---- *)
Lemma nth_writable_some : forall vs k i, (k < nwritable vs)%nat -> exists j, nth_writable vs k i = Some j.
Proof.
  unfold nwritable. induction vs as [|v r IH]; intros k i H; cbn [filter List.length nth_writable] in *; [lia|].
  destruct (d_ro v); cbn [negb] in *; [apply IH; exact H|].
  destruct k as [|k]; [eexists; reflexivity|]. cbn [List.length] in H. apply IH. lia.
Qed.
Lemma first_free_some : forall vs i, (exists v, In v vs /\ d_ro v = false /\ d_full v = false) -> exists j, first_free vs i = Some j.
Proof.
  induction vs as [|v r IH]; intros i (x & Hin & A & B); [destruct Hin|]. cbn [first_free].
  destruct Hin as [->|Hin]; [rewrite A, B; eexists; reflexivity|].
  destruct (d_ro v || d_full v); [apply IH; eauto|eexists; reflexivity].
Qed.
Lemma first_free_none : forall vs i, (forall v, In v vs -> d_ro v = false -> d_full v = true) -> first_free vs i = None.
Proof.
  induction vs as [|v r IH]; intros i H; [reflexivity|]. cbn [first_free].
  destruct (d_ro v) eqn:Er; cbn [orb]; [apply IH; intros x Hx; apply H; right; exact Hx|].
  rewrite (H v (or_introl eq_refl) Er). apply IH. intros x Hx; apply H; right; exact Hx.
Qed.
Lemma nwritable_pos vs : (exists v, In v vs /\ d_ro v = false) -> (0 < nwritable vs)%nat.
Proof.
  unfold nwritable. intros (x & Hin & A). induction vs as [|v r IH]; [destruct Hin|]. cbn [filter].
  destruct Hin as [->|Hin]; [rewrite A; cbn; lia|]. destruct (negb (d_ro v)); cbn [List.length]; [lia|apply IH; exact Hin].
Qed.

(* a complete upload is acknowledged whenever SOME writable volume is not full, whichever volume the
   round-robin picked first (with put_ack_durable: and then the block is retrievable) *)
Theorem put_some_free_acked vs L :
  (exists v, In v vs /\ d_ro v = false /\ d_full v = false) -> snd (put_prog vs L Complete) = true.
Proof.
  intros Hfree. assert (Hw : (0 < nwritable vs)%nat) by (destruct Hfree as (x & A & B & _); apply nwritable_pos; eauto).
  unfold put_prog. destruct (nwritable vs) as [|n] eqn:En; [lia|].
  destruct (compare_and_touch vs 0) as [t ok]. destruct ok; [reflexivity|].
  assert (Hm : (1 mod S n < nwritable vs)%nat) by (rewrite En; apply Nat.mod_upper_bound; lia).
  destruct (nth_writable_some vs _ 0 Hm) as [j Ej]. unfold put_target. rewrite Ej.
  destruct (vol_full vs j).
  - destruct (first_free_some vs 0 Hfree) as [i Ei]. rewrite Ei. cbn [write_block]. reflexivity.
  - cbn [write_block]. reflexivity.
Qed.

(* when every writable volume is full and no identical copy can be touched, the request is refused and
   the write path takes no step beyond CompareAndTouch's: nothing on disk changes *)
Theorem put_all_full_refused vs L :
  (forall v, In v vs -> d_ro v = false -> d_full v = true) -> snd (compare_and_touch vs 0) = false ->
  snd (put_prog vs L Complete) = false /\ inert (fst (put_prog vs L Complete)).
Proof.
  intros Hall Hcat. unfold put_prog. destruct (nwritable vs) as [|n] eqn:En; [split; [reflexivity|intros l e []]|].
  pose proof (inert_cat vs 0) as Hi. destruct (compare_and_touch vs 0) as [t ok]. cbn [snd fst] in *. subst ok.
  unfold put_target. destruct (nth_writable vs (1 mod S n) 0) as [j|] eqn:Ej; [|split; [reflexivity|exact Hi]].
  destruct (nth_writable_rw _ _ _ _ Ej) as (x & Hx & Hro). rewrite Nat.sub_0_r in Hx.
  unfold vol_full. rewrite Hx. rewrite (Hall x (nth_error_In _ _ Hx) Hro).
  rewrite (first_free_none vs 0 Hall). split; [reflexivity|exact Hi].
Qed.

(* regression witness about a VARIANT only (PutBlock treats FullError from the round-robin volume as
   success): acknowledged, nothing written, GET on the restarted server finds no block *)
Definition put_prog_fullok (vs : list vold) (L : N) : list (string * eff) * bool :=
  let '(t, ok) := compare_and_touch vs 0 in
  if ok then (t, true)
  else match nth_writable vs (Nat.modulo 1 (nwritable vs)) 0 with
       | Some i => if vol_full vs i then (t, true) else let '(w, ok') := write_block i L Complete false in (t ++ w, ok')
       | None => (t, false)
       end.
Theorem variant_full_as_success_refuted :
  exists vs L, snd (put_prog_fullok vs L) = true /\ get_block (apply_all L (fst (put_prog_fullok vs L)) vs) 404 = GErr 404 /\
               snd (put_prog vs L Complete) = true /\ get_block (finish vs L Complete) 404 = GData.
Proof.
  exists [ {| d_ro := false; d_dir := false; d_blk := None; d_tmp := None; d_full := false |};
           {| d_ro := false; d_dir := false; d_blk := None; d_tmp := None; d_full := true |} ], 5.
  vm_compute. repeat split; reflexivity.
Qed.
