(* C10 — no_panic for the Go manifest package at full strength: for EVERY input string, every source path and every
   relocation, the model of Extract and of StreamIter + FileSegmentIterByName ends in Ok, Err or Unmodelled (block
   sizes summing to >= 2^63), never in Panic. *)
From Coq Require Import NArith Lia List Bool Ascii String ZifyBool ZifyN.
From AV Require Import lib.Str model.C10_manifest model.C10_ranges model.C10_fs model.C10_gomanifest
  proofs.C10_ranges_proofs.
Import ListNotations.
Local Open Scope string_scope.

Definition tok_ok (sizes : list N) (t : N * N * string) : Prop :=
  let '(p, n, _) := t in (p < 2 ^ 64)%N /\ (n < 2 ^ 64)%N /\ go_range_ok sizes p n = true.

Lemma parse_uint64_lt s v : parse_uint64 s = Some v -> (v < 2 ^ 64)%N.
Proof.
  unfold parse_uint64. destruct (all_digits s); [|discriminate].
  destruct (dec_val s <? 2 ^ 64)%N eqn:E; [|discriminate]. intros H. injection H as <-. lia.
Qed.
Lemma gm_parse_ftok_lt tok p n nm : gm_parse_ftok tok = Some (p, n, nm) -> (p < 2 ^ 64)%N /\ (n < 2 ^ 64)%N.
Proof.
  unfold gm_parse_ftok. destruct (splitn3 c_colon tok) as [|a [|b [|c [|? ?]]]]; try discriminate.
  destruct (parse_uint64 a) eqn:Ea; [|discriminate]. destruct (parse_uint64 b) eqn:Eb; [|discriminate].
  intros H. injection H as <- <- _. split; eapply parse_uint64_lt; eauto.
Qed.
Lemma map_opt_forall {A B} (f : A -> option B) (P : B -> Prop) : (forall x y, f x = Some y -> P y) ->
  forall l r, map_opt f l = Some r -> Forall P r.
Proof.
  intros Hf. induction l as [|x l IH]; intros r H; cbn in H.
  - injection H as <-. constructor.
  - destruct (f x) eqn:E; [|discriminate]. destruct (map_opt f l) eqn:E2; [|discriminate].
    injection H as <-. constructor; [eapply Hf; eauto|apply IH; reflexivity].
Qed.

(* what parseManifestStream guarantees about a stream without Err *)
Lemma gm_parse_ok line s : gm_parse_stream line = GpOk s -> Forall (tok_ok (g_sizes s)) (g_fts s).
Proof.
  unfold gm_parse_stream. destruct (split_on c_sp line) as [|t0 rest]; [discriminate|].
  destruct (negb (String.eqb (gm_unescape t0) "." || has_prefix "./" (gm_unescape t0))); [discriminate|].
  destruct (span_go_locators rest) as [blocks ftoks].
  destruct blocks as [|b0 blocks]; [discriminate|].
  destruct (negb (forallb (fun b => (loc_size b <? 2 ^ 63)%N) (b0 :: blocks))); [discriminate|].
  destruct (negb (small_total (sizes_of (b0 :: blocks)))); [discriminate|].
  destruct ftoks as [|f0 ftoks]; [discriminate|].
  destruct (map_opt gm_parse_ftok (f0 :: ftoks)) as [fts|] eqn:Em; [|discriminate].
  destruct (forallb (fun '(p, n, _) => go_range_ok (sizes_of (b0 :: blocks)) p n) fts) eqn:Er; [|discriminate].
  intros H. injection H as <-. cbn [g_fts g_sizes g_blocks].
  pose proof (map_opt_forall gm_parse_ftok (fun t => let '(p, n, _) := t in (p < 2 ^ 64)%N /\ (n < 2 ^ 64)%N)
                ltac:(intros x [[p n] nm] Hx; eapply gm_parse_ftok_lt; eauto) _ _ Em) as Hlt.
  rewrite forallb_forall in Er. rewrite Forall_forall. intros [[p n] nm] Hin.
  rewrite Forall_forall in Hlt. specialize (Hlt _ Hin). specialize (Er _ Hin). cbn in *. tauto.
Qed.

Lemma send_fts_some s target : forall fts, Forall (tok_ok (g_sizes s)) fts -> send_fts s target fts <> None.
Proof.
  induction fts as [|[[p n] nm] fts IH]; intros Hf; [discriminate|].
  inversion Hf as [|? ? Hhd Hrest]; subst. unfold tok_ok in Hhd. destruct Hhd as (Hp & Hn & Hok). specialize (IH Hrest).
  cbn [send_fts]. destruct (negb (String.eqb (g_name s ++ "/" ++ nm) target)); [exact IH|].
  destruct (send_fts s target fts) as [b|]; [|congruence].
  destruct (n =? 0)%N eqn:E0; [discriminate|].
  pose proof (go_map_no_panic (g_sizes s) p n ltac:(lia) Hp Hn Hok) as Hnp.
  destruct (go_map (g_sizes s) p n); [discriminate|congruence].
Qed.

Lemma segment_fts_some s sn : Forall (tok_ok (g_sizes s)) (g_fts s) ->
  forall fts seen files, segment_fts s sn fts seen files <> None.
Proof.
  intros Hok. induction fts as [|[[p n] nm] fts IH]; intros seen files; [discriminate|].
  cbn [segment_fts]. destruct (split_path (sn ++ "/" ++ nm)) as [streamname filename].
  destruct (mem_str (sn ++ "/" ++ nm) seen); [apply IH|].
  pose proof (send_fts_some s (fix_stream_name (sn ++ "/" ++ nm)) (g_fts s) Hok) as Hs.
  unfold send_segs. destruct (send_fts s (fix_stream_name (sn ++ "/" ++ nm)) (g_fts s)); [apply IH|congruence].
Qed.

Lemma segment_lines_no_panic : forall ls files, segment_lines ls files <> Panic.
Proof.
  induction ls as [|l ls IH]; intros files; cbn [segment_lines]; [discriminate|].
  destruct (gm_parse_stream l) as [s| |] eqn:E; try discriminate.
  pose proof (segment_fts_some s (if has_suffix_slash (g_name s) then drop_last (g_name s) else g_name s)
                (gm_parse_ok l s E) (g_fts s) [] files) as Hs.
  destruct (segment_fts s _ (g_fts s) [] files); [apply IH|congruence].
Qed.

(* no_panic_gomanifest: for EVERY input string *)
Theorem gm_extract_no_panic : forall txt src reloc, gm_extract txt src reloc <> Panic.
Proof.
  intros txt src reloc. unfold gm_extract, gm_segment.
  pose proof (segment_lines_no_panic (gm_lines txt) []) as H.
  destruct (segment_lines (gm_lines txt) []); try discriminate. congruence.
Qed.

Lemma iter_lines_no_panic : forall ls, iter_lines ls <> Panic.
Proof.
  induction ls as [|l ls IH]; cbn [iter_lines]; [discriminate|].
  destruct (gm_parse_stream l) as [s| |] eqn:E; [|exact IH|discriminate].
  pose proof (gm_parse_ok l s E) as Hok.
  assert (Hm : forall paths, map_opt (fun p => match send_segs s p with Some l0 => Some (p, l0) | None => None end) paths <> None).
  { induction paths as [|p paths IHp]; cbn; [discriminate|].
    pose proof (send_fts_some s (fix_stream_name p) (g_fts s) Hok) as Hs. unfold send_segs.
    destruct (send_fts s (fix_stream_name p) (g_fts s)); [|congruence].
    destruct (map_opt _ paths); [discriminate|congruence]. }
  specialize (Hm (map (fun '(_, _, nm) => g_name s ++ "/" ++ nm) (g_fts s))).
  destruct (map_opt _ _); [|congruence].
  destruct (iter_lines ls); try discriminate. congruence.
Qed.
Theorem gm_iter_no_panic : forall txt, gm_iter txt <> Panic.
Proof. intros txt. apply iter_lines_no_panic. Qed.
