(* C10 — no_panic for the Go manifest package at full strength: for EVERY input string, every source path and every
   relocation, the model of Extract and of StreamIter + FileSegmentIterByName ends in Ok, Err or Unmodelled (block
   sizes summing to >= 2^63), never in Panic. *)
From Coq Require Import NArith Lia List Bool Ascii String ZifyBool ZifyN.
From AV Require Import lib.Str model.C10_manifest model.C10_ranges model.C10_fs model.C10_gomanifest
  proofs.C10_ranges_proofs.
Import ListNotations.
Local Open Scope string_scope.

Definition tok_ok (sizes : list N) (t : N * N * string) : Prop :=
  let '(p, n, _) := t in (p < 2 ^ 64)%N /\ (n < 2 ^ 64)%N /\ go_range_ok sizes p n = true.

Lemma parse_uint64_lt s v : parse_uint64 s = Some v -> (v < 2 ^ 64)%N.
Proof.
  unfold parse_uint64. destruct (all_digits s); [|discriminate].
  destruct (dec_val s <? 2 ^ 64)%N eqn:E; [|discriminate]. intros H. injection H as <-. lia.
Qed.
Lemma gm_parse_ftok_lt tok p n nm : gm_parse_ftok tok = Some (p, n, nm) -> (p < 2 ^ 64)%N /\ (n < 2 ^ 64)%N.
Proof.
  unfold gm_parse_ftok. destruct (splitn3 c_colon tok) as [|a [|b [|c [|? ?]]]]; try discriminate.
  destruct (parse_uint64 a) eqn:Ea; [|discriminate]. destruct (parse_uint64 b) eqn:Eb; [|discriminate].
  intros H. injection H as <- <- _. split; eapply parse_uint64_lt; eauto.
Qed.
Lemma map_opt_forall {A B} (f : A -> option B) (P : B -> Prop) : (forall x y, f x = Some y -> P y) ->
  forall l r, map_opt f l = Some r -> Forall P r.
Proof.
  intros Hf. induction l as [|x l IH]; intros r H; cbn in H.
  - injection H as <-. constructor.
  - destruct (f x) eqn:E; [|discriminate]. destruct (map_opt f l) eqn:E2; [|discriminate].
    injection H as <-. constructor; [eapply Hf; eauto|apply IH; reflexivity].
Qed.

(* what parseManifestStream guarantees about a stream without Err *)
Lemma gm_parse_ok line s : gm_parse_stream line = GpOk s -> Forall (tok_ok (g_sizes s)) (g_fts s).
Proof.
  unfold gm_parse_stream. destruct (split_on c_sp line) as [|t0 rest]; [discriminate|].
  destruct (negb (String.eqb (gm_unescape t0) "." || has_prefix "./" (gm_unescape t0))); [discriminate|].
  destruct (span_go_locators rest) as [blocks ftoks].
  destruct blocks as [|b0 blocks]; [discriminate|].
  destruct (negb (forallb (fun b => (loc_size b <? 2 ^ 63)%N) (b0 :: blocks))); [discriminate|].
  destruct (negb (small_total (sizes_of (b0 :: blocks)))); [discriminate|].
  destruct ftoks as [|f0 ftoks]; [discriminate|].
  destruct (map_opt gm_parse_ftok (f0 :: ftoks)) as [fts|] eqn:Em; [|discriminate].
  destruct (forallb (fun '(p, n, _) => go_range_ok (sizes_of (b0 :: blocks)) p n) fts) eqn:Er; [|discriminate].
  intros H. injection H as <-. cbn [g_fts g_sizes g_blocks].
  pose proof (map_opt_forall gm_parse_ftok (fun t => let '(p, n, _) := t in (p < 2 ^ 64)%N /\ (n < 2 ^ 64)%N)
                ltac:(intros x [[p n] nm] Hx; eapply gm_parse_ftok_lt; eauto) _ _ Em) as Hlt.
  rewrite forallb_forall in Er. rewrite Forall_forall. intros [[p n] nm] Hin.
  rewrite Forall_forall in Hlt. specialize (Hlt _ Hin). specialize (Er _ Hin). cbn in *. tauto.
Qed.

Lemma send_fts_some s target : forall fts, Forall (tok_ok (g_sizes s)) fts -> send_fts s target fts <> None.
Proof.
  induction fts as [|[[p n] nm] fts IH]; intros Hf; [discriminate|].
  inversion Hf as [|? ? Hhd Hrest]; subst. unfold tok_ok in Hhd. destruct Hhd as (Hp & Hn & Hok). specialize (IH Hrest).
  cbn [send_fts]. destruct (negb (String.eqb (g_name s ++ "/" ++ nm) target)); [exact IH|].
  destruct (send_fts s target fts) as [b|]; [|congruence].
  destruct (n =? 0)%N eqn:E0; [discriminate|].
  pose proof (go_map_no_panic (g_sizes s) p n ltac:(lia) Hp Hn Hok) as Hnp.
  destruct (go_map (g_sizes s) p n); [discriminate|congruence].
Qed.

Lemma segment_fts_some s sn : Forall (tok_ok (g_sizes s)) (g_fts s) ->
  forall fts seen files, segment_fts s sn fts seen files <> None.
Proof.
  intros Hok. induction fts as [|[[p n] nm] fts IH]; intros seen files; [discriminate|].
  cbn [segment_fts]. destruct (split_path (sn ++ "/" ++ nm)) as [streamname filename].
  destruct (mem_str (sn ++ "/" ++ nm) seen); [apply IH|].
  pose proof (send_fts_some s (fix_stream_name (sn ++ "/" ++ nm)) (g_fts s) Hok) as Hs.
  unfold send_segs. destruct (send_fts s (fix_stream_name (sn ++ "/" ++ nm)) (g_fts s)); [apply IH|congruence].
Qed.

Lemma segment_lines_no_panic : forall ls files, segment_lines ls files <> Panic.
Proof.
  induction ls as [|l ls IH]; intros files; cbn [segment_lines]; [discriminate|].
  destruct (gm_parse_stream l) as [s| |] eqn:E; try discriminate.
  pose proof (segment_fts_some s (if has_suffix_slash (g_name s) then drop_last (g_name s) else g_name s)
                (gm_parse_ok l s E) (g_fts s) [] files) as Hs.
  destruct (segment_fts s _ (g_fts s) [] files); [apply IH|congruence].
Qed.

(* no_panic_gomanifest: for EVERY input string *)
Theorem gm_extract_no_panic : forall txt src reloc, gm_extract txt src reloc <> Panic.
Proof.
  intros txt src reloc. unfold gm_extract, gm_segment.
  pose proof (segment_lines_no_panic (gm_lines txt) []) as H.
  destruct (segment_lines (gm_lines txt) []); try discriminate. congruence.
Qed.

Lemma iter_lines_no_panic : forall ls, iter_lines ls <> Panic.
Proof.
  induction ls as [|l ls IH]; cbn [iter_lines]; [discriminate|].
  destruct (gm_parse_stream l) as [s| |] eqn:E; [|exact IH|discriminate].
  pose proof (gm_parse_ok l s E) as Hok.
  assert (Hm : forall paths, map_opt (fun p => match send_segs s p with Some l0 => Some (p, l0) | None => None end) paths <> None).
  { induction paths as [|p paths IHp]; cbn; [discriminate|].
    pose proof (send_fts_some s (fix_stream_name p) (g_fts s) Hok) as Hs. unfold send_segs.
    destruct (send_fts s (fix_stream_name p) (g_fts s)); [|congruence].
    destruct (map_opt _ paths); [discriminate|congruence]. }
  specialize (Hm (map (fun '(_, _, nm) => g_name s ++ "/" ++ nm) (g_fts s))).
  destruct (map_opt _ _); [|congruence].
  destruct (iter_lines ls); try discriminate. congruence.
Qed.
Theorem gm_iter_no_panic : forall txt, gm_iter txt <> Panic.
Proof. intros txt. apply iter_lines_no_panic. Qed.

(* ---------- malformed_rejected for the Go manifest package: if Extract reports no error (and the text is inside the
   model), every non-blank line is structurally well-formed ---------- *)
From AV Require Import proofs.C10_bytes_proofs proofs.C10_pdh_proofs.

Lemma go_locator_no_colon tok : go_locator tok = true -> contains_char c_colon tok = false.
Proof.
  unfold go_locator, locator_with. intros H. rewrite <- (join_split c_plus tok).
  destruct (split_on c_plus tok) as [|h [|sz hints]]; try discriminate.
  apply andb_prop in H. destruct H as [H Hhints]. apply andb_prop in H. destruct H as [H Hsz].
  apply andb_prop in H. destruct H as [_ Hhex].
  unfold all_digits in Hsz. apply andb_prop in Hsz. destruct Hsz as [_ Hd].
  rewrite join_cons. cbn [map sconcat]. rewrite !contains_app.
  rewrite (all_chars_no is_hex c_colon h eq_refl Hhex), (all_chars_no is_digit c_colon sz eq_refl Hd).
  cbn [sep1 contains_char orb]. replace (Ascii.eqb c_plus c_colon) with false by reflexivity. cbn [orb].
  induction hints as [|h1 hs IH]; [reflexivity|].
  cbn [forallb] in Hhints. apply andb_prop in Hhints. destruct Hhints as [H1 H2].
  cbn [map sconcat]. rewrite !contains_app. rewrite (IH H2), orb_false_r.
  cbn [sep1 contains_char]. replace (Ascii.eqb c_plus c_colon) with false by reflexivity. cbn [orb].
  unfold is_hint in H1. destruct h1 as [|a r]; [discriminate|]. apply andb_prop in H1. destruct H1 as [Ha Hr].
  cbn [contains_char]. rewrite (all_chars_no is_hintc c_colon r eq_refl Hr), orb_false_r.
  destruct (Ascii.eqb a c_colon) eqn:E; [|reflexivity]. apply Ascii.eqb_eq in E. subst a. discriminate.
Qed.
Lemma lenient_digits s : all_digits s = true -> lenient_num s = Some (dec_val s).
Proof.
  intros H. unfold lenient_num. destruct s as [|a r]; [discriminate|].
  assert (Hd : is_digit a = true) by (unfold all_digits in H; cbn in H; apply andb_prop in H; destruct H as [H _]; exact H).
  replace (Ascii.eqb a "+"%char) with false by (destruct (Ascii.eqb a "+"%char) eqn:E; [apply Ascii.eqb_eq in E; subst a; discriminate|reflexivity]).
  replace (Ascii.eqb a "-"%char) with false by (destruct (Ascii.eqb a "-"%char) eqn:E; [apply Ascii.eqb_eq in E; subst a; discriminate|reflexivity]).
  rewrite H. reflexivity.
Qed.
Lemma go_locator_wf tok : go_locator tok = true -> wf_locator tok = Some (loc_size tok).
Proof.
  unfold go_locator, locator_with, wf_locator, loc_size. intros H.
  destruct (split_on c_plus tok) as [|h [|sz hints]]; try discriminate.
  apply andb_prop in H. destruct H as [H _]. apply andb_prop in H. destruct H as [_ Hsz].
  apply lenient_digits. exact Hsz.
Qed.
Lemma gm_ftok_wf tok p n nm : gm_parse_ftok tok = Some (p, n, nm) ->
  wf_ftok tok = Some (p, n) /\ contains_char c_colon tok = true.
Proof.
  unfold gm_parse_ftok, wf_ftok, splitn3. intros H.
  destruct (cut_at c_colon tok) as [[a r]|] eqn:E1; [|discriminate].
  destruct (cut_at_spec _ _ _ _ E1) as [Htok _].
  split.
  - destruct (cut_at c_colon r) as [[b r']|]; [|discriminate].
    unfold parse_uint64 in H.
    destruct (all_digits a) eqn:Ea; [|discriminate]. destruct (dec_val a <? 2 ^ 64)%N; [|discriminate].
    destruct (all_digits b) eqn:Eb; [|discriminate]. destruct (dec_val b <? 2 ^ 64)%N; [|discriminate].
    injection H as <- <- _. rewrite (lenient_digits _ Ea), (lenient_digits _ Eb). reflexivity.
  - rewrite Htok, contains_app. cbn [contains_char]. rewrite Ascii.eqb_refl. cbn [orb]. apply orb_true_r.
Qed.

Lemma span_go_nocolon toks : forall blocks ftoks, span_go_locators toks = (blocks, ftoks) ->
  Forall (fun t => contains_char c_colon t = true) ftoks ->
  span_nocolon toks = (blocks, ftoks) /\ map_opt wf_locator blocks = Some (sizes_of blocks).
Proof.
  induction toks as [|t r IH]; intros blocks ftoks H Hf; cbn in H.
  - injection H as <- <-. split; reflexivity.
  - destruct (go_locator t) eqn:E.
    + destruct (span_go_locators r) as [a b] eqn:Er. injection H as <- <-.
      destruct (IH a b eq_refl Hf) as [Hs Hm].
      split.
      * cbn [span_nocolon]. rewrite (go_locator_no_colon _ E), Hs. reflexivity.
      * cbn [map_opt sizes_of map]. rewrite (go_locator_wf _ E). fold (sizes_of a). rewrite Hm. reflexivity.
    + injection H as <- <-. split; [|reflexivity].
      inversion Hf as [|? ? Hc _]; subst. cbn [span_nocolon]. rewrite Hc. reflexivity.
Qed.

Lemma gm_parse_wf line s : gm_parse_stream line = GpOk s -> String.eqb line "" = false -> wf_line line = true.
Proof.
  unfold gm_parse_stream, wf_line. intros H Hne.
  destruct (split_on c_sp line) as [|t0 rest] eqn:Es; [discriminate|].
  destruct (negb (String.eqb (gm_unescape t0) "." || has_prefix "./" (gm_unescape t0))) eqn:En; [discriminate|].
  assert (Ht0 : String.eqb t0 "" = false).
  { destruct (String.eqb t0 "") eqn:E; [|reflexivity]. apply String.eqb_eq in E. subst t0. cbn in En. discriminate. }
  rewrite Ht0. cbn [negb andb].
  destruct (span_go_locators rest) as [blocks ftoks] eqn:Esp.
  destruct blocks as [|b0 blocks]; [discriminate|].
  destruct (negb (forallb (fun b => (loc_size b <? 2 ^ 63)%N) (b0 :: blocks))); [discriminate|].
  destruct (negb (small_total (sizes_of (b0 :: blocks)))); [discriminate|].
  destruct ftoks as [|f0 ftoks]; [discriminate|].
  destruct (map_opt gm_parse_ftok (f0 :: ftoks)) as [fts|] eqn:Em; [|discriminate].
  destruct (forallb (fun '(p, n, _) => go_range_ok (sizes_of (b0 :: blocks)) p n) fts) eqn:Er; [|discriminate].
  clear H.
  (* every file token has a colon and is well-formed *)
  assert (Hall : Forall (fun t => contains_char c_colon t = true) (f0 :: ftoks) /\
                 map_opt wf_ftok (f0 :: ftoks) = Some (map (fun '(p, n, _) => (p, n)) fts)).
  { clear Er Esp. revert fts Em. induction (f0 :: ftoks) as [|t l IHl]; intros fts Em; cbn in Em.
    - injection Em as <-. split; [constructor|reflexivity].
    - destruct (gm_parse_ftok t) as [[[p n] nm]|] eqn:Et; [|discriminate].
      destruct (map_opt gm_parse_ftok l) as [fl|] eqn:El; [|discriminate]. injection Em as <-.
      destruct (gm_ftok_wf _ _ _ _ Et) as [Hw Hc]. destruct (IHl fl eq_refl) as [Hf Hm].
      split; [constructor; assumption|]. cbn [map_opt map]. rewrite Hw, Hm. reflexivity. }
  destruct Hall as [Hcol Hwf].
  destruct (span_go_nocolon rest _ _ Esp Hcol) as [Hsn Hml].
  rewrite Hsn, Hml, Hwf.
  apply forallb_forall. intros [p n] Hin. apply in_map_iff in Hin. destruct Hin as ([[p' n'] nm] & Heq & Hin).
  injection Heq as <- <-. rewrite forallb_forall in Er. specialize (Er _ Hin). cbn in Er.
  pose proof (map_opt_forall gm_parse_ftok (fun t => let '(p, n, _) := t in (p < 2 ^ 64)%N /\ (n < 2 ^ 64)%N)
                ltac:(intros x [[a b] c] Hx; eapply gm_parse_ftok_lt; eauto) _ _ Em) as Hlt.
  rewrite Forall_forall in Hlt. specialize (Hlt _ Hin). cbn in Hlt. destruct Hlt as [Hp Hn].
  destruct (go_range_ok_nowrap _ _ _ Hp Hn Er) as [_ Hle].
  apply orb_true_iff. right. apply N.leb_le. exact Hle.
Qed.

Lemma segment_lines_wf : forall ls files m, segment_lines ls files = Ok m ->
  Forall (fun l => String.eqb l "" = false) ls -> forallb wf_line ls = true.
Proof.
  induction ls as [|l ls IH]; intros files m H Hne; [reflexivity|]. cbn [segment_lines] in H.
  inversion Hne as [|? ? Hl Hrest]; subst.
  destruct (gm_parse_stream l) as [s| |] eqn:E; try discriminate.
  destruct (segment_fts s _ (g_fts s) [] files) as [files'|]; [|discriminate].
  cbn [forallb]. rewrite (gm_parse_wf _ _ E Hl), (IH _ _ H Hrest). reflexivity.
Qed.

(* malformed_rejected_gomanifest *)
Theorem gm_extract_wf : forall txt src reloc out, gm_extract txt src reloc = Ok out ->
  forallb wf_line (gm_lines txt) = true.
Proof.
  intros txt src reloc out H. unfold gm_extract, gm_segment in H.
  destruct (segment_lines (gm_lines txt) []) as [m| | |] eqn:E; try discriminate.
  eapply segment_lines_wf; [exact E|].
  unfold gm_lines. apply Forall_forall. intros l Hin. apply filter_In in Hin. destruct Hin as [_ Hl].
  destruct (String.eqb l ""); [discriminate|reflexivity].
Qed.
