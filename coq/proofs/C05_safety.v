(* C05 — the clauses that hold at full strength for every layout (block level):
   trash only old replicas on writable mounts, pull targets, no trash when `underreplicated` is
   set, lost reported when some mount is writable. *)
From Coq Require Import List Arith Bool Lia Permutation.
From AV Require Import model.C05_model model.C05_old_model proofs.C05_proofs.
Import ListNotations.

Lemma in_flat_map_emit minMtime norepl from sl ch :
  In ch (flat_map (emit minMtime norepl from) sl) <-> exists s, In s sl /\ In ch (emit minMtime norepl from s).
Proof. apply in_flat_map. Qed.

(* ---- trash ---- *)
Theorem block_trash_ok dflt rank devrank minMtime mounts allmounts replicas classes desired m t :
  In (Trash m t) (fst (balance_block_old dflt rank devrank minMtime mounts allmounts replicas classes desired)) ->
  t < minMtime /\ In (m, t) replicas /\ exists x, In x mounts /\ mid x = m /\ mro x = false.
Proof.
  unfold balance_block_old; simpl. intros H. apply in_flat_map in H. destruct H as (s & Hs & He).
  apply emit_trash in He. destruct He as (-> & Hr & Hw & Hlt).
  pose proof (final_slots_ok dflt rank devrank mounts replicas classes desired) as F.
  rewrite Forall_forall in F. destruct (F s Hs) as (A & B & C).
  split; [exact Hlt|]. split.
  - rewrite Hr in B. symmetry in B. apply find_repl_some in B. destruct B as [B|B]; [exact B|discriminate].
  - exists (smnt s). split; [exact A|]. split; [reflexivity|].
    destruct (mro (smnt s)) eqn:E; [|reflexivity].
    assert (swant s = true) by (apply C; auto; unfold has; rewrite Hr; reflexivity). congruence.
Qed.

(* ---- pull ---- *)
Theorem block_pull_ok dflt rank devrank minMtime mounts allmounts replicas classes desired m f :
  In (Pull m f) (fst (balance_block_old dflt rank devrank minMtime mounts allmounts replicas classes desired)) ->
  (exists x, In x mounts /\ mid x = m /\ mro x = false) /\
  (forall t, ~ In (m, t) replicas) /\
  exists m0 t0 rest, replicas = (m0, t0) :: rest /\
     f = match find (fun x => mid x =? m0) allmounts with Some x => msrv x | None => 0 end.
Proof.
  unfold balance_block_old; simpl. intros H. apply in_flat_map in H. destruct H as (s & Hs & He).
  apply emit_pull in He. destruct He as (-> & Hf & Hr & Hw & Hn & Hro).
  pose proof (final_slots_ok dflt rank devrank mounts replicas classes desired) as F.
  rewrite Forall_forall in F. destruct (F s Hs) as (A & B & C).
  split; [exists (smnt s); auto|]. split.
  - rewrite Hr in B. symmetry in B. eapply find_repl_none; eauto.
  - destruct replicas as [|[m0 t0] rest]; [discriminate|]. exists m0, t0, rest. auto.
Qed.

(* ---- nothing is trashed when balanceBlock's own `underreplicated` flag is set ---- *)
Theorem block_no_trash_when_flag dflt rank devrank minMtime mounts allmounts replicas classes desired m t :
  under_flag_old dflt rank devrank mounts replicas classes desired = true ->
  ~ In (Trash m t) (fst (balance_block_old dflt rank devrank minMtime mounts allmounts replicas classes desired)).
Proof.
  unfold under_flag_old, balance_block_old, final_slots_old; simpl. intros Hu H.
  destruct (run_classes_old dflt rank devrank classes desired (map (mkslot replicas) mounts)) as [[sl uns] under].
  simpl in Hu. subst under.
  apply in_flat_map in H. destruct H as (s & Hs & He).
  apply emit_trash in He. destruct He as (_ & Hr & Hw & _).
  apply in_map_iff in Hs. destruct Hs as (s0 & <- & _).
  unfold widen in *. destruct (srepl s0) eqn:E; simpl in *; [discriminate|congruence].
Qed.

(* ---- lost ---- *)
(* with no replica at all, the first pass of a class with desired > 0 wants the first writable slot *)
Definition fresh (a : acc) : Prop :=
  wantSrv a = [] /\ wantMnt a = [] /\ wantDev a = [] /\ replWant a = 0 /\ replProt a = 0.

Lemma pass_wants_writable dist d : 0 < d -> forall l a a' dn' l',
  fresh a -> Forall (fun s => srepl s = None) l ->
  Exists (fun s => mro (smnt s) = false) l ->
  pass_old dist d a false l = (a', dn', l') -> Exists (fun s => swant s = true) l'.
Proof.
  intros Hd. induction l as [|s r IH]; intros a a' dn' l' Hf Hn Hw H; [inversion Hw|].
  simpl in H. destruct Hf as (F1 & F2 & F3 & F4 & F5).
  rewrite F1 in H. simpl in H. rewrite andb_false_r in H.
  inversion Hn as [|? ? Hs Hn']; subst.
  destruct (try_slot_old d a s) as [[a1 s1] d1] eqn:Et.
  destruct (pass_old dist d a1 d1 r) as [[a2 d2] r2] eqn:E. injection H as _ _ <-.
  unfold try_slot_old in Et. rewrite F2, F3, Hs, F4 in Et. simpl in Et. rewrite andb_false_r in Et. simpl in Et.
  assert (L : (0 <? d) = true) by (apply Nat.ltb_lt; exact Hd). rewrite L in Et. unfold has in Et. rewrite Hs in Et. simpl in Et.
  destruct (mro (smnt s)) eqn:Ero; simpl in Et.
  - assert (L2 : (d <=? 0) = false) by (apply Nat.leb_gt; exact Hd). rewrite L2, andb_false_r in Et.
    injection Et as <- <- <-.
    right. eapply IH; [| exact Hn' | | exact E].
    + repeat split; auto.
    + inversion Hw; subst; [congruence|auto].
  - injection Et as _ <- _. left. reflexivity.
Qed.

Theorem block_lost_reported dflt rank devrank minMtime mounts allmounts classes desired c :
  In c classes -> 0 < lookup desired c ->
  (exists x, In x mounts /\ mro x = false) ->
  snd (balance_block_old dflt rank devrank minMtime mounts allmounts [] classes desired) = true.
Proof.
  intros Hc Hd (x & Hx & Hro).
  unfold balance_block_old; simpl. apply existsb_exists.
  (* all slots have no replica, at every stage *)
  set (Pn := fun s : slot => srepl s = None).
  assert (Cn : wclosed Pn) by (intros s H; exact H).
  set (Q := fun s : slot => swant s = true).
  assert (Cq : wclosed Q) by (intros s H; reflexivity).
  assert (F0 : Forall Pn (map (mkslot []) mounts)).
  { rewrite Forall_forall. intros s Hs. apply in_map_iff in Hs. destruct Hs as (m & <- & _). reflexivity. }
  assert (Fin : Forall Pn (final_slots_old dflt rank devrank mounts [] classes desired)) by (apply final_slots_Forall; auto).
  assert (Ex : Exists Q (final_slots_old dflt rank devrank mounts [] classes desired)).
  { unfold final_slots_old, run_classes_old.
    apply in_split in Hc. destruct Hc as (pre & post & ->). rewrite fold_left_app. simpl.
    pose proof (run_classes_evolves dflt rank devrank desired pre (map (mkslot []) mounts, [], false)) as Ev1.
    destruct (fold_left _ pre _) as [[sl1 u1] n1].
    pose proof (evolves_Forall Pn _ _ Cn Ev1 F0) as F1. simpl in F1.
    assert (W1 : Exists (fun s => mro (smnt s) = false) sl1).
    { pose proof (evolves_core _ _ Ev1) as Pc. simpl in Pc.
      assert (In (core (mkslot [] x)) (map core sl1)).
      { eapply Permutation_in; [symmetry; exact Pc|]. apply in_map. apply in_map. exact Hx. }
      apply in_map_iff in H. destruct H as (s & Es & Hs). apply Exists_exists. exists s. split; auto.
      unfold core in Es. simpl in Es. injection Es as E1 _. rewrite E1. exact Hro. }
    assert (Hd' : lookup desired c <> 0) by lia.
    destruct (do_class_unfold dflt rank devrank c _ sl1 u1 n1 Hd') as (a1 & d1 & l1 & a2 & d2 & l2 & E1 & E2 & Eq).
    rewrite Eq.
    assert (X1 : Exists Q l1).
    { eapply pass_wants_writable; [exact Hd| | | |exact E1].
      - repeat split; reflexivity.
      - rewrite Forall_forall in *. intros s Hs. apply F1. eapply Permutation_in; [apply isort_perm|exact Hs].
      - rewrite Exists_exists in *. destruct W1 as (s & Hs & Hw). exists s. split; auto.
        eapply Permutation_in; [symmetry; apply isort_perm|exact Hs]. }
    assert (X2 : Exists Q l2) by (eapply Forall2_wle_Exists; [exact Cq|eapply pass_wle; eauto|exact X1]).
    match goal with |- context [fold_left ?f post ?st] =>
      pose proof (run_classes_evolves dflt rank devrank desired post st) as Ev2; destruct (fold_left f post st) as [[sl3 u3] n3] end.
    pose proof (evolves_Exists Q _ _ Cq Ev2 X2) as X3. simpl in X3.
    rewrite Exists_exists in *. destruct X3 as (s & Hs & Hq). exists (widen n3 u3 s). split; [apply in_map; exact Hs|].
    eapply wle_P; [exact Cq|apply widen_wle|exact Hq]. }
  rewrite Exists_exists in Ex. destruct Ex as (s & Hs & Hq). exists s. split; [exact Hs|].
  rewrite Forall_forall in Fin. specialize (Fin s Hs). unfold Pn in Fin. unfold Q in Hq.
  unfold has. rewrite Fin, Hq. reflexivity.
Qed.
