(* C18, legacy request path seen from the client (model/C18_fan_model.v, model/C18_fan_run.v): whatever status
   and body the remotes answer with, only a status-200 answer that rewriteSignatures verified is relayed; the
   boolean specification of the evaluator is met by the model for all inputs and is read back at Prop level. *)
From Coq Require Import NArith List Ascii String Bool Lia Arith Permutation.
From AV Require Import lib.Str lib.Md5 lib.TokSplit lib.ManifestTok model.C18_model model.C18_fan_model model.C18_fan_run
  proofs.C18_scan proofs.C18_legacy.
Import ListNotations.
Local Open Scope string_scope.

(* ---------- rewriteSignatures on the manifests it can verify ---------- *)
Lemma legacy_rewrite_valid r e p ss :
  forallb wf_stream ss = true -> forallb legacy_stream ss = true ->
  legacy_rewrite r e p (render ss) =
  (let e' := if e =? "" then p else e in
   if negb (e' =? p) then LErr
   else if pdh (render ss) =? e' then LOk (render (map (rw_stream r) ss)) else LErr).
Proof.
  intros W L. unfold legacy_rewrite. rewrite (scan_lines_valid ss W L), (legacy_lines_valid r ss W L).
  cbv zeta. unfold pdh. rewrite (pdh_text_valid ss W). reflexivity.
Qed.

Lemma legacy_valid_spec m ss : legacy_valid m = Some ss ->
  parse m = Some ss /\ forallb legacy_stream ss = true /\ forallb wf_stream ss = true /\ render ss = m.
Proof.
  unfold legacy_valid. destruct (parse m) as [ss'|] eqn:P; [|discriminate].
  destruct (forallb legacy_stream ss') eqn:L; [|discriminate]. intros E. injection E as <-.
  destruct (parse_sound m ss' P) as [W R]. auto.
Qed.
Lemma legacy_valid_intro m ss : parse m = Some ss -> forallb legacy_stream ss = true -> legacy_valid m = Some ss.
Proof. intros P L. unfold legacy_valid. rewrite P, L. reflexivity. Qed.

(* a verified answer: the record carries the expected hash, the manifest hashes to it, and what is relayed is the
   manifest with only its A-hints rewritten *)
Theorem legacy_verified_means r e p m ss out :
  parse m = Some ss -> forallb legacy_stream ss = true ->
  legacy_rewrite r e p m = LOk out ->
  (e = "" \/ e = p) /\ pdh m = p /\ out = render (map (rw_stream r) ss).
Proof.
  intros P L. destruct (parse_sound m ss P) as [W R]. rewrite <- R at 1. rewrite (legacy_rewrite_valid r e p ss W L). cbv zeta.
  rewrite R. destruct (e =? "") eqn:E0.
  - apply String.eqb_eq in E0. rewrite String.eqb_refl. cbn [negb].
    destruct (pdh m =? p) eqn:E1; [|discriminate]. apply String.eqb_eq in E1. intros H. injection H as <-. auto.
  - destruct (e =? p) eqn:E2; cbn [negb]; [|discriminate]. apply String.eqb_eq in E2. subst p.
    destruct (pdh m =? e) eqn:E1; [|discriminate]. apply String.eqb_eq in E1. intros H. injection H as <-. auto.
Qed.
Theorem legacy_honest_verifies r e p m ss :
  parse m = Some ss -> forallb legacy_stream ss = true -> e = "" \/ e = p -> pdh m = p ->
  legacy_rewrite r e p m = LOk (render (map (rw_stream r) ss)).
Proof.
  intros P L E H. destruct (parse_sound m ss P) as [W R]. rewrite <- R at 1. rewrite (legacy_rewrite_valid r e p ss W L). cbv zeta.
  rewrite R. assert (X : (if e =? "" then p else e) = p).
  { destruct E as [->| ->]; [reflexivity|]. destruct (p =? ""); reflexivity. }
  rewrite X, String.eqb_refl. cbn [negb]. rewrite H, String.eqb_refl. reflexivity.
Qed.

(* ---------- one answer ---------- *)
Lemma fan_try_inv req r a out : fan_try req (r, a) = Some out ->
  exists b p m, a = HResp 200 b /\ body_col b = Some (p, m) /\ legacy_rewrite r req p m = LOk out.
Proof.
  unfold fan_try. cbn [fst snd]. destruct a as [c b| |]; try discriminate.
  destruct (N.eqb c 200) eqn:C; [|discriminate]. apply N.eqb_eq in C. subst c.
  destruct (body_col b) as [[p m]|] eqn:B; [|discriminate].
  destruct (legacy_rewrite r req p m) as [o|] eqn:LR; [|discriminate]. intros H. injection H as <-.
  exists b, p, m. auto.
Qed.
(* the clause a status other than 200 can never satisfy *)
Theorem fan_try_only_200 req r c b : c <> 200%N -> fan_try req (r, HResp c b) = None.
Proof.
  intros H. unfold fan_try. cbn [fst snd]. destruct (N.eqb c 200) eqn:C; [|reflexivity]. apply N.eqb_eq in C. contradiction.
Qed.
Lemma fan_try_other req r a : (forall b, a <> HResp 200 b) -> fan_try req (r, a) = None.
Proof.
  intros H. destruct (fan_try req (r, a)) as [out|] eqn:T; [|reflexivity].
  destruct (fan_try_inv req r a out T) as (b & _ & _ & E & _). destruct (H b E).
Qed.

Lemma vouches_of_verified r e p m b out :
  body_col b = Some (p, m) -> legacy_rewrite r e p m = LOk out -> vouches r e out (HResp 200 b) = true.
Proof.
  intros B LR. unfold vouches. cbn [N.eqb Pos.eqb andb]. rewrite B.
  destruct (legacy_valid m) as [ss|] eqn:V; [|reflexivity].
  destruct (legacy_valid_spec m ss V) as (P & L & _ & _).
  destruct (legacy_verified_means r e p m ss out P L LR) as (E & H & O).
  assert (X : (if e =? "" then p else e) = p).
  { destruct E as [->| ->]; [reflexivity|]. destruct (p =? ""); reflexivity. }
  rewrite X, H, O, !String.eqb_refl. reflexivity.
Qed.
Lemma fan_try_vouches req r a out : fan_try req (r, a) = Some out -> vouches r req out a = true.
Proof.
  intros T. destruct (fan_try_inv req r a out T) as (b & p & m & -> & B & LR). exact (vouches_of_verified r req p m b out B LR).
Qed.
Lemma honest_verifies r e a : honest e a = true ->
  exists b p m out, a = HResp 200 b /\ body_col b = Some (p, m) /\ legacy_rewrite r e p m = LOk out.
Proof.
  unfold honest. destruct a as [c b| |]; try discriminate. destruct b as [p m| |]; try discriminate.
  rewrite !andb_true_iff. intros [[C E] V]. apply N.eqb_eq in C. subst c. apply String.eqb_eq in E.
  destruct (legacy_valid m) as [ss|] eqn:LV; [|discriminate]. apply String.eqb_eq in V.
  destruct (legacy_valid_spec m ss LV) as (P & L & _ & _).
  exists (BCol p m), p, m, (render (map (rw_stream r) ss)). split; [reflexivity|]. split; [reflexivity|].
  apply (legacy_honest_verifies r e p m ss P L); [|exact V].
  destruct (e =? "") eqn:E0; [left; apply String.eqb_eq; exact E0|right; symmetry; exact E].
Qed.
Lemma honest_tries req r a : honest req a = true -> exists out, fan_try req (r, a) = Some out.
Proof.
  intros H. destruct (honest_verifies r req a H) as (b & p & m & out & -> & B & LR).
  exists out. unfold fan_try. cbn [fst snd N.eqb Pos.eqb]. rewrite B, LR. reflexivity.
Qed.

(* ---------- the search ---------- *)
Lemma fan_first_spec req arr : forall b,
  match fan_first req arr b with
  | FRes c (Some m') => c = 200%N /\ exists ra, In ra arr /\ fan_try req ra = Some m'
  | FRes c None => (forall ra, In ra arr -> fan_try req ra = None) /\
                   c = (if b && forallb (fun ra => h404 (snd ra)) arr then 404 else 502)%N
  end.
Proof.
  induction arr as [|ra arr IH]; intros b; cbn [fan_first forallb].
  - split; [intros ra []|]. rewrite andb_true_r. destruct b; reflexivity.
  - destruct (fan_try req ra) as [out|] eqn:T.
    + split; [reflexivity|]. exists ra. split; [left; reflexivity|exact T].
    + specialize (IH (b && h404 (snd ra))). destruct (fan_first req arr (b && h404 (snd ra))) as [c [m'|]].
      * destruct IH as [C (x & I & X)]. split; [exact C|]. exists x. split; [right; exact I|exact X].
      * destruct IH as [N C]. split.
        -- intros x [<-|I]; [exact T|apply N; exact I].
        -- rewrite C, andb_assoc. reflexivity.
Qed.
Lemma fan_first_some req arr : forall b, (exists ra out, In ra arr /\ fan_try req ra = Some out) ->
  exists out, fan_first req arr b = FRes 200 (Some out).
Proof.
  induction arr as [|ra arr IH]; intros b (x & out & I & T); [destruct I|]. cbn [fan_first].
  destruct (fan_try req ra) as [o|] eqn:T'; [exists o; reflexivity|].
  destruct I as [->|I]; [congruence|]. apply IH. exists x, out. auto.
Qed.

(* fan_only_verified_200_is_relayed: a manifest reaches the client only with status 200, and it is the output of
   rewriteSignatures for an answer that some remote gave with status 200 and that passed the check against the
   requested hash - whatever the other remotes, or this one, answered otherwise *)
Theorem fan_only_verified_200_is_relayed req lb arr c m' :
  fan_get req (HResp 404 lb) arr = FRes c (Some m') ->
  c = 200%N /\ exists r b p m, In (r, HResp 200 b) arr /\ body_col b = Some (p, m) /\ legacy_rewrite r req p m = LOk m'.
Proof.
  unfold fan_get. cbn [N.eqb Pos.eqb]. intros H. pose proof (fan_first_spec req arr true) as S. rewrite H in S.
  destruct S as [C ([r a] & I & T)]. split; [exact C|].
  destruct (fan_try_inv req r a m' T) as (b & p & m & -> & B & LR). exists r, b, p, m. auto.
Qed.
(* fan_unverified_yields_error: if no answer is a verified status-200 answer the client gets an error status:
   404 if every remote said 404, otherwise 502 - in every arrival order *)
Theorem fan_unverified_yields_error req lb arr :
  (forall ra, In ra arr -> fan_try req ra = None) ->
  fan_get req (HResp 404 lb) arr = FRes (if forallb (fun ra => h404 (snd ra)) arr then 404 else 502)%N None.
Proof.
  intros H. unfold fan_get. cbn [N.eqb Pos.eqb]. pose proof (fan_first_spec req arr true) as S.
  destruct (fan_first req arr true) as [c [m'|]].
  - destruct S as [_ (ra & I & T)]. rewrite (H ra I) in T. discriminate.
  - destruct S as [_ ->]. reflexivity.
Qed.
(* ... in particular when no remote answers with status 200, whatever the bodies are *)
Theorem fan_other_status_never_relayed req lb arr :
  (forall r c b, In (r, HResp c b) arr -> c <> 200%N) ->
  exists c, fan_get req (HResp 404 lb) arr = FRes c None /\ (c = 404 \/ c = 502)%N.
Proof.
  intros H. rewrite fan_unverified_yields_error.
  - destruct (forallb _ arr); eexists; split; try reflexivity; auto.
  - intros [r a] I. destruct a as [c b| |]; try reflexivity. apply fan_try_only_200. exact (H r c b I).
Qed.
(* fan_honest_remote_wins: a remote whose answer verifies makes the fetch succeed in every arrival order, whatever
   the others answer (and by the first theorem the winner is a verified status-200 answer) *)
Theorem fan_honest_remote_wins req lb arr ra out :
  In ra arr -> fan_try req ra = Some out ->
  forall arr', Permutation arr arr' -> exists out', fan_get req (HResp 404 lb) arr' = FRes 200 (Some out').
Proof.
  intros I T arr' P. unfold fan_get. cbn [N.eqb Pos.eqb]. apply fan_first_some. exists ra, out.
  split; [apply (Permutation_in _ P I)|exact T].
Qed.
Theorem fan_local_answer_final req c b arr : c <> 404%N ->
  fan_get req (HResp c b) arr = FRes c (body_manifest b) /\ fan_remotes_asked (HResp c b) = false.
Proof.
  intros H. unfold fan_get, fan_remotes_asked, h404. destruct (N.eqb c 404) eqn:C; [apply N.eqb_eq in C; contradiction|]. auto.
Qed.

(* ---------- the model meets the evaluator's specification ---------- *)
Theorem fan_model_meets_spec req local arr : spec_fget req local arr (fan_get req local arr) = true.
Proof.
  unfold spec_fget. destruct (h404 local) eqn:L; [|reflexivity].
  destruct local as [c lb| |]; try discriminate. cbn [h404] in L. unfold fan_get. rewrite L.
  pose proof (fan_first_spec req arr true) as S. destruct (fan_first req arr true) as [c' [m'|]].
  - destruct S as [-> ([r a] & I & T)]. cbn [N.eqb Pos.eqb andb]. apply existsb_exists. exists (r, a). split; [exact I|].
    cbn [fst snd]. apply (fan_try_vouches req r a m' T).
  - destruct S as [N ->]. apply andb_true_iff. split; [destruct (forallb _ arr); reflexivity|].
    apply negb_true_iff. destruct (existsb (fun ra => honest req (snd ra)) arr) eqn:E; [|reflexivity].
    apply existsb_exists in E. destruct E as ([r a] & I & H). cbn [snd] in H.
    destruct (honest_tries req r a H) as (out & T). rewrite (N (r, a) I) in T. discriminate.
Qed.
Theorem fan_uuid_meets_spec known r a : spec_fuuid r known a (fan_uuid known r a) = true.
Proof.
  unfold fan_uuid. destruct known; cbn [negb]; [|reflexivity].
  destruct a as [c b| |]; try reflexivity. destruct (N.eqb c 200) eqn:C.
  - apply N.eqb_eq in C. subst c. destruct (body_col b) as [[p m]|] eqn:B.
    + destruct (legacy_rewrite r "" p m) as [out|] eqn:LR.
      * cbn [spec_fuuid N.eqb Pos.eqb negb orb andb]. apply (vouches_of_verified r "" p m b out B LR).
      * cbn [spec_fuuid andb]. apply negb_true_iff. destruct (honest "" (HResp 200 b)) eqn:H; [|reflexivity].
        destruct (honest_verifies r "" _ H) as (b' & p' & m' & out & E & B' & LR'). injection E as <-.
        rewrite B in B'. injection B' as <- <-. rewrite LR in LR'. discriminate.
    + cbn [spec_fuuid andb]. destruct b; try discriminate; reflexivity.
  - destruct (body_manifest b) as [m'|]; cbn [spec_fuuid].
    + rewrite C. reflexivity.
    + cbn [andb]. unfold honest. destruct b; try reflexivity. rewrite C. reflexivity.
Qed.

(* ---------- what the boolean specification says, at Prop level ---------- *)
Theorem spec_fget_reads req lb arr c om : spec_fget req (HResp 404 lb) arr (FRes c om) = true ->
  match om with
  | Some m' =>
    (* a manifest reaches the client only with status 200 and only if some remote sent, with status 200, a
       collection record whose manifest - if it is a valid manifest with plain or properly signed locators -
       hashes to the requested value and differs from m' only in that A-hints have become R<remote>- hints *)
    c = 200%N /\
    exists r b p m, In (r, HResp 200 b) arr /\ body_col b = Some (p, m) /\
      forall ss, parse m = Some ss -> forallb legacy_stream ss = true ->
                 pdh m = (if req =? "" then p else req) /\ m' = render (map (rw_stream r) ss)
  | None =>
    (* otherwise the client gets an error status, and only if no remote gave an honest answer *)
    (400 <= c)%N /\
    forall r p m ss, In (r, HResp 200 (BCol p m)) arr -> p = (if req =? "" then p else req) ->
                     parse m = Some ss -> forallb legacy_stream ss = true -> pdh m <> p
  end.
Proof.
  unfold spec_fget. cbn [h404 N.eqb Pos.eqb]. destruct om as [m'|].
  - rewrite andb_true_iff. intros [C E]. apply N.eqb_eq in C. split; [exact C|].
    apply existsb_exists in E. destruct E as ([r a] & I & V). cbn [fst snd] in V. unfold vouches in V.
    destruct a as [c' b| |]; try discriminate. apply andb_true_iff in V. destruct V as [C' V]. apply N.eqb_eq in C'. subst c'.
    destruct (body_col b) as [[p m]|] eqn:B; [|discriminate]. exists r, b, p, m. split; [exact I|]. split; [exact B|].
    intros ss P L. rewrite (legacy_valid_intro m ss P L) in V. apply andb_true_iff in V. destruct V as [V1 V2].
    apply String.eqb_eq in V1. apply String.eqb_eq in V2. auto.
  - rewrite andb_true_iff. intros [C E]. apply N.leb_le in C. split; [exact C|]. apply negb_true_iff in E.
    intros r p m ss I EP P L H.
    assert (X : existsb (fun ra => honest req (snd ra)) arr = true); [|congruence].
    apply existsb_exists. exists (r, HResp 200 (BCol p m)). split; [exact I|]. cbn [snd honest N.eqb Pos.eqb andb].
    rewrite <- EP, String.eqb_refl, (legacy_valid_intro m ss P L), H, String.eqb_refl. reflexivity.
Qed.
Theorem spec_fuuid_reads r known a m' : spec_fuuid r known a (FRes 200 (Some m')) = true ->
  known = true /\ exists b p m, a = HResp 200 b /\ body_col b = Some (p, m) /\
    forall ss, parse m = Some ss -> forallb legacy_stream ss = true -> pdh m = p /\ m' = render (map (rw_stream r) ss).
Proof.
  cbn [spec_fuuid N.eqb Pos.eqb negb orb]. rewrite andb_true_iff. intros [K V]. split; [exact K|]. unfold vouches in V.
  destruct a as [c' b| |]; try discriminate. apply andb_true_iff in V. destruct V as [C' V]. apply N.eqb_eq in C'. subst c'.
  destruct (body_col b) as [[p m]|] eqn:B; [|discriminate]. exists b, p, m. split; [reflexivity|]. split; [exact B|].
  intros ss P L. rewrite (legacy_valid_intro m ss P L) in V. apply andb_true_iff in V. destruct V as [V1 V2].
  apply String.eqb_eq in V1. apply String.eqb_eq in V2. cbn in V1. auto.
Qed.

(* ---------- limited capacity (MaxRequestAmplification) ---------- *)
Lemma mask_nil arr : mask [] arr = arr.
Proof. unfold mask. cbn [existsb]. induction arr as [|[r a] arr IH]; [reflexivity|]. cbn [map]. rewrite IH. reflexivity. Qed.

(* the model, run on the remotes that were asked (the others count as silent), meets the specification with the
   availability clause, provided a remote is left unasked only when silent remotes can exhaust the capacity *)
Theorem fan_model_meets_spec2 amp req local arr unasked :
  unasked = [] \/ must_ask amp arr = false ->
  spec_fget2 amp req local arr unasked (fan_get req local (mask unasked arr)) = true.
Proof.
  intros H. pose proof (fan_model_meets_spec req local (mask unasked arr)) as S. unfold spec_fget2.
  destruct (fan_get req local (mask unasked arr)) as [c [m'|]]; [exact S|].
  destruct (must_ask amp arr) eqn:M; [|exact S]. destruct H as [->|H]; [|discriminate]. rewrite mask_nil in S. exact S.
Qed.
(* what the availability clause says: if the client gets no manifest although the silent remotes cannot exhaust
   the capacity, then no configured remote - asked or not - holds an honest answer *)
Theorem spec_fget2_availability amp req lb arr unasked c :
  spec_fget2 amp req (HResp 404 lb) arr unasked (FRes c None) = true -> must_ask amp arr = true ->
  forall r p m ss, In (r, HResp 200 (BCol p m)) arr -> p = (if req =? "" then p else req) ->
                   parse m = Some ss -> forallb legacy_stream ss = true -> pdh m <> p.
Proof.
  unfold spec_fget2. intros S M. rewrite M in S. exact (proj2 (spec_fget_reads req lb arr c None S)).
Qed.
