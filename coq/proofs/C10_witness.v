(* C10 — the inputs of the former findings F14 and F15 (repaired in /repo by commits b3717b9 and 44931b6): both
   malformed manifests are now rejected with an error. *)
From Coq Require Import NArith List String Bool.
From AV Require Import lib.Str model.C10_manifest model.C10_ranges model.C10_fs model.C10_gomanifest.
Import ListNotations.
Local Open Scope string_scope.

Definition f14_text : string := ". 37b51d194a7513e45b56f6524f2d51f2+3 18446744073709551615:1:f" ++ s_nl.
Definition f15_text : string := ". 37b51d194a7513e45b56f6524f2d51f2+3 9223372036854775807:1:f" ++ s_nl.

Lemma f14_rejected : wf_manifest f14_text = false /\ gm_extract f14_text "." "." = Err.
Proof. split; vm_compute; reflexivity. Qed.
Lemma f15_rejected : wf_manifest f15_text = false /\ fs_load f15_text = None.
Proof. split; vm_compute; reflexivity. Qed.
