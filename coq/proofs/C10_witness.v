(* C10 — concrete witnesses (closed computations on the executable models). *)
From Coq Require Import NArith List String Bool.
From AV Require Import lib.Str model.C10_manifest model.C10_ranges model.C10_fs model.C10_gomanifest.
Import ListNotations.
Local Open Scope string_scope.

Definition f14_text : string := ". 37b51d194a7513e45b56f6524f2d51f2+3 18446744073709551615:1:f" ++ s_nl.
Definition f15_text : string := ". 37b51d194a7513e45b56f6524f2d51f2+3 9223372036854775807:1:f" ++ s_nl.

(* F14: a malformed manifest (segment far past the 3-byte stream) makes Extract panic *)
Lemma f14_panics : wf_manifest f14_text = false /\ gm_extract f14_text "." "." = Panic.
Proof. split; vm_compute; reflexivity. Qed.
(* F15: a malformed manifest is loaded (with an empty file f) instead of being rejected *)
Lemma f15_accepted : wf_manifest f15_text = false /\
  fs_load f15_text = Some {| t_dirs := []; t_files := [(["f"], [])] |}.
Proof. split; vm_compute; reflexivity. Qed.
