(* C10 — pdh_spec: for every valid manifest the text digested by PortableDataHash (tokRe/blkRe replacement) is the
   manifest with every locator reduced to hash+size, so pdh = md5hex of that text, "+", its length. *)
From Coq Require Import NArith Lia List Bool Ascii String Arith.
From AV Require Import lib.Str lib.Md5 model.C10_manifest model.C10_ranges model.C10_fs proofs.C10_bytes_proofs.
Import ListNotations.
Local Open Scope string_scope.

(* ---------- split_on / join ---------- *)
Lemma split_on_nonempty c s : split_on c s <> [].
Proof.
  destruct s as [|a r]; cbn; [discriminate|].
  destruct (Ascii.eqb a c); [discriminate|]. destruct (split_on c r); discriminate.
Qed.
Lemma split_on_app_nosep c a : forall b, contains_char c a = false ->
  split_on c (a ++ b) = match split_on c b with h :: t => (a ++ h) :: t | [] => [a] end.
Proof.
  induction a as [|x a IH]; intros b H.
  - cbn. destruct (split_on c b) eqn:E; [exfalso; eapply split_on_nonempty; eauto|reflexivity].
  - cbn in H. apply orb_false_elim in H. destruct H as [Hx Ha].
    cbn [append split_on]. rewrite Hx, (IH b Ha).
    destruct (split_on c b) eqn:E; [exfalso; eapply split_on_nonempty; eauto|reflexivity].
Qed.
Lemma split_on_sep c a b : contains_char c a = false -> split_on c (a ++ String c b) = a :: split_on c b.
Proof.
  intros H. rewrite split_on_app_nosep by exact H. cbn [split_on]. rewrite Ascii.eqb_refl, append_nil_r. reflexivity.
Qed.
Lemma split_on_nosep c a : contains_char c a = false -> split_on c a = [a].
Proof.
  intros H. rewrite <- (append_nil_r a) at 1. rewrite split_on_app_nosep by exact H. cbn. rewrite append_nil_r. reflexivity.
Qed.
Lemma split_on_parts_nosep c s : Forall (fun t => contains_char c t = false) (split_on c s).
Proof.
  induction s as [|a r IH]; cbn; [constructor; [reflexivity|constructor]|].
  destruct (Ascii.eqb a c) eqn:E; [constructor; [reflexivity|exact IH]|].
  destruct (split_on c r) as [|h t]; [constructor; [cbn; rewrite E; reflexivity|constructor]|].
  inversion IH as [|? ? Hh Ht]; subst. constructor; [cbn; rewrite E, Hh; reflexivity|exact Ht].
Qed.
Definition sep1 (c : ascii) : string := String c "".
Lemma join_cons2 sep x y l : join sep (x :: y :: l) = x ++ sep ++ join sep (y :: l).
Proof. reflexivity. Qed.
Lemma join_cons sep x l : join sep (x :: l) = x ++ sconcat (map (fun t => sep ++ t) l).
Proof.
  revert x. induction l as [|y l IH]; intros x.
  - cbn. rewrite append_nil_r. reflexivity.
  - rewrite join_cons2, IH. cbn [map sconcat]. rewrite append_assoc. reflexivity.
Qed.
Lemma join_split c s : join (sep1 c) (split_on c s) = s.
Proof.
  induction s as [|a r IH]; [reflexivity|]. cbn [split_on].
  destruct (Ascii.eqb a c) eqn:E.
  - apply Ascii.eqb_eq in E. subst a.
    destruct (split_on c r) as [|h t] eqn:Es; [exfalso; eapply split_on_nonempty; eauto|].
    cbn [join]. cbn [join] in IH. rewrite IH. reflexivity.
  - destruct (split_on c r) as [|h t] eqn:Es; [exfalso; eapply split_on_nonempty; eauto|].
    rewrite join_cons in *. cbn [append]. rewrite IH. reflexivity.
Qed.
(* the pieces of (join of tokens) ++ X *)
Definition glue (a : string) (l : list string) : list string := match l with h :: t => (a ++ h) :: t | [] => [a] end.
Lemma split_on_join_app c : forall toks X, toks <> [] -> Forall (fun t => contains_char c t = false) toks ->
  split_on c (join (sep1 c) toks ++ X) = (removelast toks ++ glue (last toks "") (split_on c X))%list.
Proof.
  induction toks as [|t0 toks IH]; intros X Hne Hf; [congruence|].
  inversion Hf as [|? ? H0 Hrest]; subst.
  destruct toks as [|t1 toks'].
  - cbn [join removelast last app]. apply split_on_app_nosep. exact H0.
  - rewrite join_cons2. unfold sep1 at 1. rewrite !append_assoc. cbn [append].
    rewrite split_on_sep by exact H0.
    rewrite IH by (try discriminate; exact Hrest).
    reflexivity.
Qed.

(* ---------- the two token shapes ---------- *)
Lemma cut_at_spec c s a b : cut_at c s = Some (a, b) -> s = a ++ String c b /\ contains_char c a = false.
Proof.
  revert a b. induction s as [|x s IH]; intros a b H; cbn in H; [discriminate|].
  destruct (Ascii.eqb x c) eqn:E.
  - injection H as <- <-. apply Ascii.eqb_eq in E. subst x. split; reflexivity.
  - destruct (cut_at c s) as [[a' b']|]; [|discriminate]. injection H as <- <-.
    destruct (IH a' b' eq_refl) as [-> Hn]. split; [reflexivity|]. cbn. rewrite E, Hn. reflexivity.
Qed.
Lemma first_bad q : forall a x u b y v,
  a ++ String x u = b ++ String y v -> all_chars q a = true -> all_chars q b = true -> q x = false -> q y = false ->
  a = b /\ x = y /\ u = v.
Proof.
  induction a as [|a0 a IH]; intros x u b y v He Ha Hb Hx Hy.
  - destruct b as [|b0 b]; cbn in He.
    + injection He as -> ->. auto.
    + injection He as -> _. cbn in Hb. apply andb_prop in Hb. destruct Hb as [Hb _]. congruence.
  - destruct b as [|b0 b]; cbn in He.
    + injection He as -> _. cbn in Ha. apply andb_prop in Ha. destruct Ha as [Ha _]. congruence.
    + injection He as -> He. cbn in Ha, Hb. apply andb_prop in Ha. apply andb_prop in Hb.
      destruct (IH x u b y v He (proj2 Ha) (proj2 Hb) Hx Hy) as (-> & -> & ->). auto.
Qed.
Lemma take_drop n : forall s, take n s ++ drop n s = s.
Proof.
  induction n as [|n IH]; intros s; [rewrite take_0, drop_0; reflexivity|].
  destruct s as [|c s]; [reflexivity|]. cbn. rewrite IH. reflexivity.
Qed.
Lemma blk_prefix_shape piece b : blk_prefix piece = Some b ->
  exists h r, piece = h ++ String c_plus r /\ all_chars is_lhex h = true.
Proof.
  unfold blk_prefix. intros H.
  destruct (Nat.eqb (String.length (take 32 piece)) 32 && all_chars is_lhex (take 32 piece)) eqn:E; [|discriminate].
  apply andb_prop in E. destruct E as [_ E2].
  destruct (drop 32 piece) as [|a r] eqn:Ed; [discriminate|].
  destruct (Ascii.eqb a c_plus) eqn:Ea; [|discriminate]. apply Ascii.eqb_eq in Ea. subst a.
  exists (take 32 piece), r. split; [|exact E2]. rewrite <- Ed. symmetry. apply take_drop.
Qed.
Lemma digit_lhex a : is_digit a = true -> is_lhex a = true.
Proof. intros H. unfold is_lhex. rewrite H. reflexivity. Qed.
Lemma all_chars_impl (p q : ascii -> bool) s : (forall a, p a = true -> q a = true) -> all_chars p s = true -> all_chars q s = true.
Proof.
  intros Hi. induction s as [|a s IH]; intros H; [reflexivity|]. cbn in *. apply andb_prop in H. destruct H as [H1 H2].
  rewrite (Hi a H1), (IH H2). reflexivity.
Qed.

(* a file token (whatever follows it in the piece) is never taken for a block *)
Lemma blk_prefix_ftok tok f X : parse_ftok tok = Some f -> blk_prefix (tok ++ X) = None.
Proof.
  unfold parse_ftok, splitn3. intros H.
  destruct (cut_at c_colon tok) as [[p r]|] eqn:E1; [|discriminate].
  destruct (cut_at c_colon r) as [[s n]|] eqn:E2; [|discriminate].
  destruct (parse_dec p) eqn:Ep; [|discriminate].
  unfold parse_dec in Ep. destruct (all_digits p) eqn:Ed; [|discriminate].
  unfold all_digits in Ed. apply andb_prop in Ed. destruct Ed as [_ Ed].
  destruct (cut_at_spec _ _ _ _ E1) as [-> _].
  destruct (blk_prefix ((p ++ String c_colon r) ++ X)) eqn:B; [|reflexivity]. exfalso.
  destruct (blk_prefix_shape _ _ B) as (h & r' & He & Hh).
  rewrite append_assoc in He. cbn [append] in He.
  destruct (first_bad is_lhex p c_colon (r ++ X) h c_plus r' He (all_chars_impl _ _ _ digit_lhex Ed) Hh eq_refl eq_refl)
    as (_ & Hc & _). discriminate.
Qed.

Fixpoint take_while_app p (a : string) : forall b, all_chars p a = true ->
  (match b with String x _ => p x = false | EmptyString => True end) -> take_while p (a ++ b) = a.
Proof.
  destruct a as [|c a]; intros b Ha Hb.
  - destruct b as [|x b]; [reflexivity|]. cbn. rewrite Hb. reflexivity.
  - cbn in Ha. apply andb_prop in Ha. destruct Ha as [H1 H2]. cbn. rewrite H1, (take_while_app p a b H2 Hb). reflexivity.
Qed.

(* a locator is replaced by its hash+size *)
Lemma blk_prefix_locator tok : is_locator tok = true -> blk_prefix tok = Some (loc_strip tok).
Proof.
  unfold is_locator, locator_with, loc_strip. intros H.
  pose proof (join_split c_plus tok) as Hj. pose proof (split_on_parts_nosep c_plus tok) as Hp.
  destruct (split_on c_plus tok) as [|h [|sz hints]]; try discriminate.
  apply andb_prop in H. destruct H as [H Hhints]. apply andb_prop in H. destruct H as [H Hsz].
  apply andb_prop in H. destruct H as [Hlen Hhex]. apply Nat.eqb_eq in Hlen.
  rewrite join_cons in Hj. cbn [map sconcat] in Hj. unfold sep1 in Hj. cbn [append] in Hj.
  unfold blk_prefix. rewrite <- Hj.
  rewrite take_app, take_all by lia. rewrite Hlen. cbn [Nat.sub take]. rewrite append_nil_r, Hlen, Nat.eqb_refl, Hhex.
  cbn [andb]. rewrite drop_app, drop_all by lia. rewrite Hlen. cbn [Nat.sub drop append].
  rewrite Ascii.eqb_refl.
  unfold all_digits in Hsz. apply andb_prop in Hsz. destruct Hsz as [Hne Hd].
  match goal with |- context [take_while is_digit (sz ++ ?T)] =>
    rewrite (take_while_app is_digit sz T Hd) by (destruct hints as [|h1 hs]; cbn; [exact I|reflexivity]) end.
  destruct (String.eqb sz "") eqn:E; [cbn in Hne; discriminate|]. reflexivity.
Qed.

(* a locator contains no colon, so a file token (which has one) is not a locator *)
Lemma contains_app c a b : contains_char c (a ++ b) = contains_char c a || contains_char c b.
Proof. induction a as [|x a IH]; [reflexivity|]. cbn. rewrite IH, orb_assoc. reflexivity. Qed.
Lemma all_chars_no (p : ascii -> bool) c s : p c = false -> all_chars p s = true -> contains_char c s = false.
Proof.
  intros Hc. induction s as [|a s IH]; intros H; [reflexivity|]. cbn in *. apply andb_prop in H. destruct H as [H1 H2].
  rewrite (IH H2), orb_false_r. destruct (Ascii.eqb a c) eqn:E; [|reflexivity]. apply Ascii.eqb_eq in E. subst a. congruence.
Qed.
Lemma locator_no_colon tok : is_locator tok = true -> contains_char c_colon tok = false.
Proof.
  unfold is_locator, locator_with. intros H. rewrite <- (join_split c_plus tok).
  destruct (split_on c_plus tok) as [|h [|sz hints]]; try discriminate.
  apply andb_prop in H. destruct H as [H Hhints]. apply andb_prop in H. destruct H as [H Hsz].
  apply andb_prop in H. destruct H as [_ Hhex].
  unfold all_digits in Hsz. apply andb_prop in Hsz. destruct Hsz as [_ Hd].
  rewrite join_cons. cbn [map sconcat]. rewrite !contains_app.
  rewrite (all_chars_no is_lhex c_colon h eq_refl Hhex), (all_chars_no is_digit c_colon sz eq_refl Hd).
  cbn [sep1 contains_char orb]. replace (Ascii.eqb c_plus c_colon) with false by reflexivity. cbn [orb].
  induction hints as [|h1 hs IH]; [reflexivity|].
  cbn [forallb] in Hhints. apply andb_prop in Hhints. destruct Hhints as [H1 H2].
  cbn [map sconcat]. rewrite !contains_app. rewrite (IH H2), orb_false_r.
  cbn [sep1 contains_char]. replace (Ascii.eqb c_plus c_colon) with false by reflexivity. cbn [orb].
  unfold is_hint in H1. destruct h1 as [|a r]; [discriminate|]. apply andb_prop in H1. destruct H1 as [Ha Hr].
  cbn [contains_char]. rewrite (all_chars_no is_hintc c_colon r eq_refl Hr), orb_false_r.
  destruct (Ascii.eqb a c_colon) eqn:E; [|reflexivity]. apply Ascii.eqb_eq in E. subst a. discriminate.
Qed.
Lemma ftok_has_colon tok f : parse_ftok tok = Some f -> contains_char c_colon tok = true.
Proof.
  unfold parse_ftok, splitn3. intros H.
  destruct (cut_at c_colon tok) as [[p r]|] eqn:E1; [|discriminate].
  destruct (cut_at_spec _ _ _ _ E1) as [-> _]. rewrite contains_app. cbn [contains_char].
  rewrite Ascii.eqb_refl. cbn [orb]. apply orb_true_r.
Qed.
Lemma ftok_not_locator tok f : parse_ftok tok = Some f -> is_locator tok = false.
Proof.
  intros H. destruct (is_locator tok) eqn:E; [|reflexivity].
  pose proof (ftok_has_colon _ _ H) as Hc. rewrite (locator_no_colon _ E) in Hc. discriminate.
Qed.

(* ---------- one line ---------- *)
(* the token structure of a valid line *)
Record line_shape (line : string) (name : string) (locs fts : list string) : Prop := {
  ls_split : split_on c_sp line = name :: (locs ++ fts)%list;
  ls_locs : Forall (fun t => is_locator t = true) locs;
  ls_fts : Forall (fun t => exists f, parse_ftok t = Some f) fts;
  ls_fts_ne : fts <> []
}.
Lemma span_locators_spec toks : forall locs fts, span_locators toks = (locs, fts) ->
  toks = (locs ++ fts)%list /\ Forall (fun t => is_locator t = true) locs.
Proof.
  induction toks as [|t r IH]; intros locs fts H; cbn in H.
  - injection H as <- <-. split; [reflexivity|constructor].
  - destruct (is_locator t) eqn:E.
    + destruct (span_locators r) as [a b]. injection H as <- <-. destruct (IH a b eq_refl) as [-> Hf].
      split; [reflexivity|constructor; assumption].
    + injection H as <- <-. split; [reflexivity|constructor].
Qed.
Lemma map_opt_spec {A B} (f : A -> option B) l : forall r, map_opt f l = Some r -> Forall (fun x => exists y, f x = Some y) l.
Proof.
  induction l as [|x l IH]; intros r H; [constructor|]. cbn in H.
  destruct (f x) eqn:E; [|discriminate]. destruct (map_opt f l) eqn:E2; [|discriminate].
  constructor; [eauto|eapply IH; reflexivity].
Qed.
Lemma valid_stream_shape line : valid_stream line = true -> exists name locs fts, line_shape line name locs fts.
Proof.
  unfold valid_stream, parse_stream. intros H. apply andb_prop in H. destruct H as [_ H].
  destruct (split_on c_sp line) as [|name rest] eqn:Es; [discriminate|].
  destruct (span_locators rest) as [locs fts] eqn:Esp.
  destruct locs as [|l0 locs]; [discriminate|]. destruct fts as [|f0 fts]; [discriminate|].
  destruct (map_opt parse_ftok (f0 :: fts)) eqn:Em; [|discriminate].
  destruct (span_locators_spec _ _ _ Esp) as [-> Hl].
  exists name, (l0 :: locs), (f0 :: fts). constructor; auto.
  - eapply map_opt_spec; eauto.
  - discriminate.
Qed.

Definition spaced (l : list string) : string := sconcat (map (fun t => " " ++ t) l).
Lemma spaced_app a b : spaced (a ++ b) = spaced a ++ spaced b.
Proof. unfold spaced. rewrite map_app. apply sconcat_app. Qed.

Lemma pieces_locs locs : Forall (fun t => is_locator t = true) locs ->
  sconcat (map pdh_piece locs) = spaced (map strip_tok locs).
Proof.
  induction 1 as [|t l Ht _ IH]; [reflexivity|].
  cbn [map sconcat]. unfold spaced in *. cbn [map sconcat]. rewrite IH. f_equal.
  unfold pdh_piece, strip_tok. rewrite (blk_prefix_locator _ Ht), Ht. reflexivity.
Qed.
Lemma pieces_fts fts : Forall (fun t => exists f, parse_ftok t = Some f) fts ->
  sconcat (map pdh_piece fts) = spaced (map strip_tok fts).
Proof.
  induction 1 as [|t l [f Ht] _ IH]; [reflexivity|].
  cbn [map sconcat]. unfold spaced in *. cbn [map sconcat]. rewrite IH. f_equal.
  unfold pdh_piece, strip_tok. rewrite (ftok_not_locator _ _ Ht).
  pose proof (blk_prefix_ftok t f "" Ht) as B. rewrite append_nil_r in B. rewrite B. reflexivity.
Qed.

(* pdh_text and strip_manifest peel one valid line the same way *)
Lemma nl_nosp : contains_char c_sp s_nl = false. Proof. reflexivity. Qed.

Lemma pdh_text_step line rest name locs fts :
  line_shape line name locs fts ->
  pdh_text (line ++ s_nl ++ rest) = strip_line line ++ s_nl ++ pdh_text rest.
Proof.
  intros [Hs Hl Hf Hne].
  assert (Hline : line = join (sep1 c_sp) (name :: (locs ++ fts)%list)) by (rewrite <- Hs; symmetry; apply (join_split c_sp)).
  pose proof (split_on_parts_nosep c_sp line) as Hns. rewrite Hs in Hns.
  unfold strip_line. rewrite Hs.
  unfold pdh_text.
  rewrite Hline at 1.
  rewrite (split_on_join_app c_sp (name :: (locs ++ fts)%list) (s_nl ++ rest)) by (try discriminate; exact Hns).
  rewrite (split_on_app_nosep c_sp s_nl rest nl_nosp).
  destruct (split_on c_sp rest) as [|r0 rtail] eqn:Er; [exfalso; eapply split_on_nonempty; eauto|].
  (* the last token is the last file token *)
  destruct (exists_last Hne) as (fts' & flast & ->).
  assert (Hlast : last (name :: (locs ++ (fts' ++ [flast]))%list) "" = flast).
  { rewrite app_assoc. change (name :: ((locs ++ fts') ++ [flast])%list) with ((name :: (locs ++ fts'))%list ++ [flast])%list.
    apply last_last. }
  assert (Hrl : removelast (name :: (locs ++ (fts' ++ [flast]))%list) = name :: (locs ++ fts')%list).
  { rewrite app_assoc. change (name :: ((locs ++ fts') ++ [flast])%list) with ((name :: (locs ++ fts'))%list ++ [flast])%list.
    apply removelast_last. }
  rewrite Hlast, Hrl. cbn [app]. rewrite !map_app, !sconcat_app. cbn [map sconcat].
  apply Forall_app in Hf. destruct Hf as [Hf' Hfl]. inversion Hfl as [|? ? [fl Hfl'] _]; subst.
  rewrite (pieces_locs locs Hl), (pieces_fts fts' Hf').
  rewrite join_cons. fold (spaced (map strip_tok (locs ++ (fts' ++ [flast]))%list)).
  cbn [glue map sconcat].
  unfold pdh_piece at 1. rewrite (blk_prefix_ftok flast fl (s_nl ++ r0) Hfl').
  rewrite !map_app, !sconcat_app. cbn [map sconcat].
  replace (strip_tok flast) with flast by (unfold strip_tok; rewrite (ftok_not_locator _ _ Hfl'); reflexivity).
  unfold spaced. rewrite !append_assoc. cbn [append]. rewrite ?append_nil_r. reflexivity.
Qed.

Lemma contains_nl_line line (ls : list string) txt :
  split_on c_nl txt = (line :: ls)%list -> contains_char c_nl line = false.
Proof.
  intros H. pose proof (split_on_parts_nosep c_nl txt) as Hf. rewrite H in Hf. inversion Hf; assumption.
Qed.

(* pdh_spec *)
Theorem pdh_text_spec : forall txt, valid_manifest txt = true -> pdh_text txt = strip_manifest txt.
Proof.
  intros txt Hv. unfold valid_manifest in Hv.
  destruct (lines_of txt) as [ls|] eqn:El; [|discriminate].
  apply andb_prop in Hv. destruct Hv as [Hv _].
  unfold lines_of in El.
  destruct (rev (split_on c_nl txt)) as [|e r] eqn:Er; [discriminate|]. destruct e; [|discriminate].
  injection El as <-.
  assert (Hsplit : split_on c_nl txt = (rev r ++ [""])%list).
  { rewrite <- (rev_involutive (split_on c_nl txt)), Er. reflexivity. }
  assert (Htxt : txt = join s_nl (rev r ++ [""])%list) by (rewrite <- Hsplit; symmetry; apply (join_split c_nl)).
  pose proof (split_on_parts_nosep c_nl txt) as Hnn. rewrite Hsplit in Hnn. apply Forall_app in Hnn. destruct Hnn as [Hnn _].
  unfold strip_manifest. rewrite Hsplit. rewrite Htxt. clear Htxt Hsplit Er.
  induction (rev r) as [|line ls IH].
  - reflexivity.
  - cbn [forallb] in Hv. apply andb_prop in Hv. destruct Hv as [Hv1 Hv2].
    inversion Hnn as [|? ? Hn1 Hn2]; subst.
    destruct (valid_stream_shape line Hv1) as (name & locs & fts & Hsh).
    cbn [app map].
    assert (Hj : forall (x : string) (l : list string), l <> [] -> join s_nl (x :: l) = x ++ s_nl ++ join s_nl l).
    { intros x l Hl. destruct l; [congruence|reflexivity]. }
    assert (Hne : (ls ++ [""])%list <> []) by (destruct ls; discriminate).
    assert (Hne' : map strip_line (ls ++ [""])%list <> []) by (destruct ls; discriminate).
    rewrite (Hj line _ Hne), (Hj (strip_line line) _ Hne').
    rewrite (pdh_text_step line _ name locs fts Hsh). f_equal. f_equal.
    apply IH; assumption.
Qed.

Theorem pdh_spec : forall txt, valid_manifest txt = true ->
  pdh txt = md5hex (strip_manifest txt) ++ "+" ++ dec (slen (strip_manifest txt)).
Proof. intros txt H. unfold pdh. rewrite (pdh_text_spec txt H). reflexivity. Qed.
