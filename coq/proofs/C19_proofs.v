(* C19 — proofs about SaltToken, the salted token provider, keepstore's remoteClient and the legacy
   saltAuthToken. *)
From Coq Require Import NArith List Ascii String Bool Lia Arith.
From AV Require Import lib.Str lib.Sha1 lib.TokSplit lib.HexNum lib.Sha1Facts model.C19_model.
Import ListNotations.
Local Open Scope string_scope.

(* ---------- reading a token ---------- *)
(* token = v2/uuid/secret or v2/uuid/secret/more...: its first three '/'-separated fields *)
Definition v2_fields (token uuid secret : string) : Prop :=
  exists rest, split_on "/" token = "v2" :: uuid :: secret :: rest.
Definition not_v2 (token : string) : Prop := forall uuid secret, ~ v2_fields token uuid secret.

Lemma v2_fields_fun token u s u' s' : v2_fields token u s -> v2_fields token u' s' -> u = u' /\ s = s'.
Proof. intros [r H] [r' H']. rewrite H in H'. injection H' as -> -> _. auto. Qed.

Lemma v2_fields_nosep token u s : v2_fields token u s -> has_char "/" u = false /\ has_char "/" s = false.
Proof.
  intros [r H]. pose proof (split_fields_nosep "/" token) as F. rewrite H in F.
  inversion F as [|? ? _ F1]; subst. inversion F1 as [|? ? Hu F2]; subst. inversion F2 as [|? ? Hs _]; subst. auto.
Qed.

Lemma salt_not_v2 token remote :
  not_v2 token -> salt_token token remote = if is_obsolete token then ErrObsolete else ErrFormat.
Proof.
  intro Hn. unfold salt_token, salt_token_k. destruct (split_on "/" token) as [|v [|u [|s r]]] eqn:E; try reflexivity.
  destruct (String.eqb_spec v "v2") as [->|]; [|reflexivity]. exfalso. apply (Hn u s). exists r. exact E.
Qed.

(* ---------- SaltToken ---------- *)
Definition digest (secret remote : string) : string := hmac_sha1_hex secret remote.

Theorem salt_shape token remote uuid secret :
  v2_fields token uuid secret -> is_salted_secret secret = false ->
  salt_token token remote = Salted ("v2/" ++ uuid ++ "/" ++ digest secret remote) /\
  String.length (digest secret remote) = 40 /\ all_chars is_lhex (digest secret remote) = true.
Proof.
  intros [r H] Hs. split; [|split; [apply hmac_hex_length|apply hmac_hex_lhex]].
  unfold salt_token, salt_token_k. rewrite H. cbn [String.eqb Ascii.eqb Bool.eqb andb negb]. rewrite Hs. reflexivity.
Qed.

Theorem never_double_salted token remote uuid secret :
  v2_fields token uuid secret -> is_salted_secret secret = true ->
  salt_token token remote = if has_prefix remote uuid then Salted token else ErrSalted.
Proof.
  intros [r H] Hs. unfold salt_token, salt_token_k. rewrite H. cbn [String.eqb Ascii.eqb Bool.eqb andb negb]. rewrite Hs. reflexivity.
Qed.

Lemma digest_is_salted_secret secret remote : is_salted_secret (digest secret remote) = true.
Proof. unfold is_salted_secret, digest. rewrite hmac_hex_length, hmac_hex_lhex. reflexivity. Qed.

Lemma lhex_no_slash s : all_chars is_lhex s = true -> has_char "/" s = false.
Proof. apply all_chars_no_char. reflexivity. Qed.

Lemma split_v2 uuid x : has_char "/" uuid = false -> has_char "/" x = false ->
  split_on "/" ("v2/" ++ uuid ++ "/" ++ x) = ["v2"; uuid; x].
Proof.
  intros Hu Hx. change ("v2/" ++ uuid ++ "/" ++ x) with ("v2" ++ String "/" (uuid ++ String "/" x)).
  rewrite split_on_app by reflexivity. rewrite split_on_app by exact Hu. rewrite split_on_nosep by exact Hx. reflexivity.
Qed.

(* the result of salting is never salted again: presented for another remote it is refused, for a
   remote that owns the uuid it is returned as it is *)
Theorem salted_is_fixed_point token remote uuid secret remote' out :
  v2_fields token uuid secret -> is_salted_secret secret = false ->
  salt_token token remote = Salted out ->
  salt_token out remote' = if has_prefix remote' uuid then Salted out else ErrSalted.
Proof.
  intros Hv Hs Ho. destruct (salt_shape token remote uuid secret Hv Hs) as [E _]. rewrite E in Ho. injection Ho as <-.
  destruct (v2_fields_nosep _ _ _ Hv) as [Hu _].
  apply (never_double_salted _ remote' uuid (digest secret remote)); [|apply digest_is_salted_secret].
  exists []. apply split_v2; [exact Hu|]. apply lhex_no_slash, hmac_hex_lhex.
Qed.

Theorem salt_deterministic token remote : forall a b, salt_token token remote = a -> salt_token token remote = b -> a = b.
Proof. intros a b <- <-. reflexivity. Qed.

(* SaltToken never returns a token for something that is not v2/uuid/secret *)
Theorem salt_not_v2_is_error token remote :
  not_v2 token ->
  (is_obsolete token = true /\ salt_token token remote = ErrObsolete) \/
  (is_obsolete token = false /\ salt_token token remote = ErrFormat).
Proof. intro Hn. rewrite (salt_not_v2 _ _ Hn). destruct (is_obsolete token); auto. Qed.

(* a v2 token is never "obsolete": it contains '/' *)
Lemma classify_total token :
  not_v2 token \/ exists uuid secret, v2_fields token uuid secret.
Proof.
  destruct (split_on "/" token) as [|v [|u [|s r]]] eqn:E.
  - left. intros u s [r H]. congruence.
  - left. intros u s [r H]. congruence.
  - left. intros u' s [r H]. congruence.
  - destruct (String.eqb_spec v "v2") as [->|Hne].
    + right. exists u, s, r. exact E.
    + left. intros u' s' [r' H]. rewrite E in H. congruence.
Qed.

(* ---------- substring facts for non-disclosure ---------- *)
Lemma has_prefix_length p s : has_prefix p s = true -> String.length p <= String.length s.
Proof.
  revert s. induction p as [|a p IH]; intros s H; [cbn; lia|]. destruct s as [|b s]; [discriminate|].
  cbn [has_prefix] in H. apply andb_true_iff in H. destruct H as [_ H]. cbn [String.length]. specialize (IH s H). lia.
Qed.
Lemma contains_length sub s : contains sub s = true -> String.length sub <= String.length s.
Proof.
  induction s as [|c r IH]; cbn [contains]; intro H.
  - rewrite orb_false_r in H. apply has_prefix_length in H. exact H.
  - apply orb_true_iff in H. destruct H as [H|H]; [apply has_prefix_length in H; exact H|].
    specialize (IH H). cbn [String.length]. lia.
Qed.

(* a separator-free string that is a prefix of a ++ sep ++ b is a prefix of a *)
Lemma has_prefix_sep s sep a b : has_char sep s = false -> has_prefix s (a ++ String sep b) = true -> has_prefix s a = true.
Proof.
  revert s. induction a as [|x a IH]; intros s Hs H.
  - destruct s as [|c s]; [reflexivity|]. cbn [append has_prefix has_char] in *.
    apply orb_false_iff in Hs. destruct Hs as [Hc _]. apply andb_true_iff in H. destruct H as [H _].
    apply Ascii.eqb_eq in H. subst c. rewrite Ascii.eqb_refl in Hc. discriminate.
  - destruct s as [|c s]; [reflexivity|]. cbn [append has_prefix has_char] in *.
    apply orb_false_iff in Hs. destruct Hs as [_ Hs]. apply andb_true_iff in H. destruct H as [H1 H2].
    rewrite H1. cbn [andb]. apply IH; assumption.
Qed.
Lemma contains_sep s sep a b : has_char sep s = false ->
  contains s (a ++ String sep b) = true -> contains s a = true \/ contains s b = true.
Proof.
  intro Hs. induction a as [|x a IH]; intro H.
  - cbn [append contains] in H. apply orb_true_iff in H. destruct H as [H|H]; [|right; exact H].
    left. change (has_prefix s ("" ++ String sep b) = true) in H. apply has_prefix_sep in H; [|exact Hs].
    cbn [contains]. rewrite H. reflexivity.
  - cbn [append contains] in H. apply orb_true_iff in H. destruct H as [H|H].
    + left. change (has_prefix s ((String x a) ++ String sep b) = true) in H. apply has_prefix_sep in H; [|exact Hs].
      cbn [contains]. rewrite H. reflexivity.
    + destruct (IH H) as [H'|H']; [left; cbn [contains]; rewrite H'; apply orb_true_r|right; exact H'].
Qed.

(* the secret occurs in v2/uuid/H only if it occurs in "v2", in the uuid or in the digest; a secret
   longer than 40 characters occurs in it only if it occurs in the uuid *)
Theorem forwarded_has_no_secret uuid secret remote :
  has_char "/" secret = false ->
  let out := "v2/" ++ uuid ++ "/" ++ digest secret remote in
  (contains secret out = true ->
   contains secret "v2" = true \/ contains secret uuid = true \/ contains secret (digest secret remote) = true) /\
  (40 < String.length secret -> contains secret out = true -> contains secret uuid = true).
Proof.
  intros Hs out.
  assert (H1 : contains secret out = true ->
               contains secret "v2" = true \/ contains secret uuid = true \/ contains secret (digest secret remote) = true).
  { unfold out. change ("v2/" ++ uuid ++ "/" ++ digest secret remote) with ("v2" ++ String "/" (uuid ++ String "/" (digest secret remote))).
    intro H. apply contains_sep in H; [|exact Hs]. destruct H as [H|H]; [auto|].
    apply contains_sep in H; [|exact Hs]. tauto. }
  split; [exact H1|]. intros Hl H. destruct (H1 H) as [H2|[H2|H2]]; [|exact H2|].
  - apply contains_length in H2. cbn in H2. lia.
  - apply contains_length in H2. unfold digest in H2. rewrite hmac_hex_length in H2. lia.
Qed.

(* ---------- the salted token provider ---------- *)
Theorem provide_v2_unsalted local remote token uuid secret :
  v2_fields token uuid secret -> is_salted_secret secret = false ->
  provide_one local remote token = Some ("v2/" ++ uuid ++ "/" ++ digest secret remote).
Proof.
  intros Hv Hs. unfold provide_one, provide_one_k. fold (salt_token token remote).
  destruct (salt_shape token remote uuid secret Hv Hs) as [-> _]. reflexivity.
Qed.

Theorem provide_v2_salted local remote token uuid secret :
  v2_fields token uuid secret -> is_salted_secret secret = true -> provide_one local remote token = Some token.
Proof.
  intros Hv Hs. unfold provide_one, provide_one_k. fold (salt_token token remote).
  rewrite (never_double_salted token remote uuid secret Hv Hs). destruct (has_prefix remote uuid); reflexivity.
Qed.

Theorem provide_opaque local remote token :
  not_v2 token -> is_obsolete token = false -> provide_one local remote token = Some token.
Proof.
  intros Hn Ho. unfold provide_one, provide_one_k. fold (salt_token token remote). rewrite (salt_not_v2 _ _ Hn), Ho. reflexivity.
Qed.

Theorem provide_legacy local remote token :
  not_v2 token -> is_obsolete token = true ->
  provide_one local remote token =
  match local token with
  | AcaUnauthorized => Some token
  | AcaError => None
  | AcaOk uuid api =>
    if has_prefix remote uuid then Some token
    else match salt_token ("v2/" ++ uuid ++ "/" ++ api) remote with Salted t => Some t | _ => None end
  end.
Proof.
  intros Hn Ho. unfold provide_one, provide_one_k. fold (salt_token token remote). rewrite (salt_not_v2 _ _ Hn), Ho. reflexivity.
Qed.

(* a legacy token resolved locally to (uuid, api_token) of another cluster goes out as the salted form
   of v2/uuid/api_token *)
Corollary provide_legacy_resolved local remote token uuid api :
  not_v2 token -> is_obsolete token = true -> local token = AcaOk uuid api ->
  has_prefix remote uuid = false -> has_char "/" uuid = false -> has_char "/" api = false -> is_salted_secret api = false ->
  provide_one local remote token = Some ("v2/" ++ uuid ++ "/" ++ digest api remote).
Proof.
  intros Hn Ho Hl Hp Hu Ha Hs. rewrite (provide_legacy _ _ _ Hn Ho), Hl, Hp.
  destruct (salt_shape ("v2/" ++ uuid ++ "/" ++ api) remote uuid api) as [-> _]; [|exact Hs|reflexivity].
  exists []. apply split_v2; assumption.
Qed.

(* the provider is the token-wise map, failing as a whole when one token fails *)
Theorem provider_pointwise local remote tokens outs :
  provider local remote (Some tokens) = Some outs <->
  Forall2 (fun t o => provide_one local remote t = Some o) tokens outs.
Proof.
  unfold provider, provider_k. revert outs. induction tokens as [|t r IH]; intros outs; cbn [provide_all_k].
  - split; [intro H; injection H as <-; constructor|intro H; inversion H; reflexivity].
  - fold (provide_one local remote t). destruct (provide_one local remote t) as [o|] eqn:E.
    + destruct (provide_all_k hmac_sha1_hex local remote r) as [os|] eqn:E2.
      * split.
        -- intro H. injection H as <-. constructor; [exact E|]. apply IH. reflexivity.
        -- intro H. inversion H as [|? ? ? ? H1 H2]; subst. apply IH in H2. congruence.
      * split; [discriminate|]. intro H. inversion H as [|? ? ? ? H1 H2]; subst. apply IH in H2. discriminate.
    + split; [discriminate|]. intro H. inversion H as [|? ? ? ? H1 H2]; subst. congruence.
Qed.

Theorem provider_no_credentials local remote : provider local remote None = None.
Proof. reflexivity. Qed.

(* ---------- keepstore ---------- *)
Theorem remote_client_salted token remote out :
  remote_client token remote = Some out <-> salt_token token remote = Salted out.
Proof.
  unfold remote_client, remote_client_k. fold (salt_token token remote).
  destruct (salt_token token remote); split; intro H; try discriminate; congruence.
Qed.

Corollary remote_client_unsalted token remote uuid secret :
  v2_fields token uuid secret -> is_salted_secret secret = false ->
  remote_client token remote = Some ("v2/" ++ uuid ++ "/" ++ digest secret remote).
Proof. intros Hv Hs. apply remote_client_salted. apply (salt_shape token remote uuid secret Hv Hs). Qed.

Corollary remote_client_not_v2 token remote : not_v2 token -> remote_client token remote = None.
Proof.
  intro Hn. unfold remote_client, remote_client_k. fold (salt_token token remote). rewrite (salt_not_v2 _ _ Hn).
  destruct (is_obsolete token); reflexivity.
Qed.

(* ---------- legacy saltAuthToken ---------- *)
(* F6b: a token carried only in the urlencoded form body is forwarded as it is ... *)
Definition f6b_form_request : lreq :=
  {| l_auth := ANone; l_query := []; l_ctype := "application/x-www-form-urlencoded";
     l_form := [("api_token", "v2/aaaaa-gj3su-000000000000000/thisisthesecretpartofthetokenwhichislongerthan40chars"); ("foo", "bar")];
     l_cookie := None |}.
Theorem legacy_form_token_forwarded_unsalted :
  exists r', legacy (fun _ => DbError) f6b_form_request "bbbbb" = LFwd r' /\
             In "v2/aaaaa-gj3su-000000000000000/thisisthesecretpartofthetokenwhichislongerthan40chars" (carried r').
Proof. eexists. split; [vm_compute; reflexivity|]. vm_compute. auto. Qed.

(* ... and so is the arvados_api_token cookie, even when the header token is salted properly *)
Definition f6b_cookie_request : lreq :=
  {| l_auth := ABearer "v2/aaaaa-gj3su-000000000000000/thisisthesecretpartofthetokenwhichislongerthan40chars";
     l_query := []; l_ctype := ""; l_form := [];
     l_cookie := Some "v2/aaaaa-gj3su-000000000000000/thisisthesecretpartofthetokenwhichislongerthan40chars" |}.
Theorem legacy_cookie_token_forwarded_unsalted :
  exists r', legacy (fun _ => DbError) f6b_cookie_request "bbbbb" = LFwd r' /\
             In "v2/aaaaa-gj3su-000000000000000/thisisthesecretpartofthetokenwhichislongerthan40chars" (carried r').
Proof. eexists. split; [vm_compute; reflexivity|]. vm_compute. auto. Qed.

(* the general statement "a forwarded request carries only the salted form of its first token" fails *)
Definition legacy_forwards_only_salted : Prop :=
  forall db r remote r' t0 rest uuid secret,
    legacy db r remote = LFwd r' -> load_tokens r = t0 :: rest ->
    v2_fields t0 uuid secret -> is_salted_secret secret = false ->
    carried r' = ["v2/" ++ uuid ++ "/" ++ digest secret remote].
Theorem legacy_forwards_only_salted_refuted : ~ legacy_forwards_only_salted.
Proof.
  intro H. specialize (H (fun _ => DbError) f6b_cookie_request "bbbbb").
  remember (legacy (fun _ => DbError) f6b_cookie_request "bbbbb") as res eqn:E. vm_compute in E.
  destruct res as [|r']; [discriminate|]. injection E as ->.
  specialize (H _ "v2/aaaaa-gj3su-000000000000000/thisisthesecretpartofthetokenwhichislongerthan40chars"
                ["v2/aaaaa-gj3su-000000000000000/thisisthesecretpartofthetokenwhichislongerthan40chars"]
                "aaaaa-gj3su-000000000000000" "thisisthesecretpartofthetokenwhichislongerthan40chars" eq_refl eq_refl).
  assert (Hv : v2_fields "v2/aaaaa-gj3su-000000000000000/thisisthesecretpartofthetokenwhichislongerthan40chars"
                         "aaaaa-gj3su-000000000000000" "thisisthesecretpartofthetokenwhichislongerthan40chars")
    by (exists []; reflexivity).
  specialize (H Hv eq_refl). vm_compute in H. discriminate.
Qed.

Lemma values_without k ps : values k (without k ps) = [].
Proof.
  unfold values, without. induction ps as [|[a b] r IH]; [reflexivity|]. cbn [filter fst negb].
  destruct (String.eqb a k) eqn:E; cbn [negb]; [exact IH|]. cbn [filter fst]. rewrite E. exact IH.
Qed.

(* When the request has no api_token in its form body and no token cookie, the forwarded request
   carries exactly one token: the first one found (header, then basic-auth password, then query), in
   salted form.  Every other token the request carried is dropped. *)
Theorem legacy_forwards_only_salted_partial db r remote r' t0 rest uuid secret :
  values "api_token" (l_form r) = [] -> l_cookie r = None ->
  legacy db r remote = LFwd r' -> load_tokens r = t0 :: rest ->
  v2_fields t0 uuid secret -> is_salted_secret secret = false ->
  carried r' = ["v2/" ++ uuid ++ "/" ++ digest secret remote].
Proof.
  intros Hf Hc Hl Ht Hv Hs. unfold legacy, legacy_k in Hl. rewrite Ht in Hl. fold (salt_token t0 remote) in Hl.
  destruct (salt_shape t0 remote uuid secret Hv Hs) as [E _]. rewrite E in Hl. injection Hl as <-.
  unfold carried. cbn [l_auth l_query l_form l_cookie]. rewrite values_without, Hf, Hc. reflexivity.
Qed.

(* under the same hypothesis nothing but the outcome for the first token is ever carried *)
Theorem legacy_carries_one_token db r remote r' t0 rest :
  values "api_token" (l_form r) = [] -> l_cookie r = None ->
  legacy db r remote = LFwd r' -> load_tokens r = t0 :: rest ->
  exists out, carried r' = [out] /\
    (salt_token t0 remote = Salted out \/
     ((salt_token t0 remote = ErrObsolete \/ salt_token t0 remote = ErrFormat) /\
      (out = t0 \/ exists user auth_uuid secret, db t0 = DbFound user auth_uuid secret /\
                                                salt_token ("v2/" ++ auth_uuid ++ "/" ++ secret) remote = Salted out))).
Proof.
  intros Hf Hc Hl Ht. unfold legacy, legacy_k in Hl. rewrite Ht in Hl. fold (salt_token t0 remote) in Hl.
  assert (Hcar : forall t, carried {| l_auth := ABearer t; l_query := without "api_token" (l_query r); l_ctype := l_ctype r;
                                      l_form := l_form r; l_cookie := l_cookie r |} = [t]).
  { intro t. unfold carried. cbn [l_auth l_query l_form l_cookie]. rewrite values_without, Hf, Hc. reflexivity. }
  destruct (salt_token t0 remote) as [t| | |] eqn:E.
  - injection Hl as <-. exists t. split; [apply Hcar|left; reflexivity].
  - destruct (db t0) as [| |user au sec] eqn:Ed; [discriminate| |].
    + injection Hl as <-. exists t0. split; [apply Hcar|]. right. split; [auto|auto].
    + destruct (has_prefix remote user).
      * injection Hl as <-. exists t0. split; [apply Hcar|]. right. split; [auto|auto].
      * fold (salt_token ("v2/" ++ au ++ "/" ++ sec) remote) in Hl.
        destruct (salt_token ("v2/" ++ au ++ "/" ++ sec) remote) as [t| | |] eqn:E2; try discriminate.
        injection Hl as <-. exists t. split; [apply Hcar|]. right. split; [auto|]. right. exists user, au, sec. auto.
  - destruct (db t0) as [| |user au sec] eqn:Ed; [discriminate| |].
    + injection Hl as <-. exists t0. split; [apply Hcar|]. right. split; [auto|auto].
    + destruct (has_prefix remote user).
      * injection Hl as <-. exists t0. split; [apply Hcar|]. right. split; [auto|auto].
      * fold (salt_token ("v2/" ++ au ++ "/" ++ sec) remote) in Hl.
        destruct (salt_token ("v2/" ++ au ++ "/" ++ sec) remote) as [t| | |] eqn:E2; try discriminate.
        injection Hl as <-. exists t. split; [apply Hcar|]. right. split; [auto|]. right. exists user, au, sec. auto.
  - discriminate.
Qed.

(* Whatever else the request carries: when a token was found, the forwarded Authorization header is
   Bearer <outcome for the first token>, the forwarded query has no api_token, and the form body and
   the cookie are the incoming ones untouched.  So an unsalted secret can only leave through the form
   body or the cookie -- this is the trigger predicate of finding F6b. *)
Theorem legacy_leak_confined db r remote r' t0 rest :
  legacy db r remote = LFwd r' -> load_tokens r = t0 :: rest ->
  (exists out, l_auth r' = ABearer out /\
     (salt_token t0 remote = Salted out \/
      ((salt_token t0 remote = ErrObsolete \/ salt_token t0 remote = ErrFormat) /\
       (out = t0 \/ exists user auth_uuid secret, db t0 = DbFound user auth_uuid secret /\
                                                 salt_token ("v2/" ++ auth_uuid ++ "/" ++ secret) remote = Salted out)))) /\
  values "api_token" (l_query r') = [] /\ l_form r' = l_form r /\ l_cookie r' = l_cookie r.
Proof.
  intros Hl Ht. unfold legacy, legacy_k in Hl. rewrite Ht in Hl. fold (salt_token t0 remote) in Hl.
  destruct (salt_token t0 remote) as [t| | |] eqn:E.
  - injection Hl as <-. cbn [l_auth l_query l_form l_cookie]. rewrite values_without.
    split; [exists t; split; [reflexivity|left; reflexivity]|auto].
  - destruct (db t0) as [| |user au sec] eqn:Ed; [discriminate| |].
    + injection Hl as <-. cbn [l_auth l_query l_form l_cookie]. rewrite values_without.
      split; [exists t0; split; [reflexivity|right; auto]|auto].
    + destruct (has_prefix remote user).
      * injection Hl as <-. cbn [l_auth l_query l_form l_cookie]. rewrite values_without.
        split; [exists t0; split; [reflexivity|right; auto]|auto].
      * fold (salt_token ("v2/" ++ au ++ "/" ++ sec) remote) in Hl.
        destruct (salt_token ("v2/" ++ au ++ "/" ++ sec) remote) as [t| | |] eqn:E2; try discriminate.
        injection Hl as <-. cbn [l_auth l_query l_form l_cookie]. rewrite values_without.
        split; [exists t; split; [reflexivity|right; split; [auto|right; exists user, au, sec; auto]]|auto].
  - destruct (db t0) as [| |user au sec] eqn:Ed; [discriminate| |].
    + injection Hl as <-. cbn [l_auth l_query l_form l_cookie]. rewrite values_without.
      split; [exists t0; split; [reflexivity|right; auto]|auto].
    + destruct (has_prefix remote user).
      * injection Hl as <-. cbn [l_auth l_query l_form l_cookie]. rewrite values_without.
        split; [exists t0; split; [reflexivity|right; auto]|auto].
      * fold (salt_token ("v2/" ++ au ++ "/" ++ sec) remote) in Hl.
        destruct (salt_token ("v2/" ++ au ++ "/" ++ sec) remote) as [t| | |] eqn:E2; try discriminate.
        injection Hl as <-. cbn [l_auth l_query l_form l_cookie]. rewrite values_without.
        split; [exists t; split; [reflexivity|right; split; [auto|right; exists user, au, sec; auto]]|auto].
  - discriminate.
Qed.

(* and when no token is found in header, query or cookie, the request goes out as it came (the form
   branch is dead): this is the "token only in the form body" half of F6b *)
Theorem legacy_no_token_found db r remote :
  load_tokens r = [] -> l_ctype r <> "application/x-www-form-encoded" -> legacy db r remote = LFwd r.
Proof.
  intros Ht Hc. unfold legacy, legacy_k. rewrite Ht. destruct (String.eqb_spec (l_ctype r) "application/x-www-form-encoded"); [contradiction|reflexivity].
Qed.

(* the hypotheses of the partial theorems are satisfiable *)
Example legacy_partial_example :
  let r := {| l_auth := ABearer "v2/aaaaa-gj3su-000000000000000/thisisthesecretpartofthetokenwhichislongerthan40chars";
              l_query := [("api_token", "v2/aaaaa-gj3su-000000000000000/thisisthesecretpartofthetokenwhichislongerthan40chars"); ("limit", "1")];
              l_ctype := "application/x-www-form-urlencoded"; l_form := [("foo", "bar")]; l_cookie := None |} in
  values "api_token" (l_form r) = [] /\ l_cookie r = None /\
  exists r', legacy (fun _ => DbError) r "bbbbb" = LFwd r' /\
             carried r' = ["v2/aaaaa-gj3su-000000000000000/002f0c7aece57b9244af4922fc8e857b13422a62"].
Proof. cbv zeta. split; [reflexivity|]. split; [reflexivity|]. eexists. split; vm_compute; reflexivity. Qed.

(* ---------- Handler.remoteClusterRequest: what is put on the wire ---------- *)
Lemma lreq_eta s : {| l_auth := l_auth s; l_query := l_query s; l_ctype := l_ctype s; l_form := l_form s; l_cookie := l_cookie s |} = s.
Proof. destruct s; reflexivity. Qed.

(* the request put on the wire is the one saltAuthToken returned: in particular its query string *)
Theorem remote_request_is_salted_request db r remote : remote_request db r remote = legacy db r remote.
Proof.
  unfold remote_request, remote_request_k. fold (legacy db r remote).
  destruct (legacy db r remote) as [|s]; [reflexivity|]. rewrite lreq_eta. reflexivity.
Qed.

Theorem wire_leak_confined db r remote w t0 rest :
  remote_request db r remote = LFwd w -> load_tokens r = t0 :: rest ->
  (exists out, l_auth w = ABearer out /\
     (salt_token t0 remote = Salted out \/
      ((salt_token t0 remote = ErrObsolete \/ salt_token t0 remote = ErrFormat) /\
       (out = t0 \/ exists user auth_uuid secret, db t0 = DbFound user auth_uuid secret /\
                                                 salt_token ("v2/" ++ auth_uuid ++ "/" ++ secret) remote = Salted out)))) /\
  values "api_token" (l_query w) = [] /\ l_form w = l_form r /\ l_cookie w = l_cookie r.
Proof. rewrite remote_request_is_salted_request. apply legacy_leak_confined. Qed.

Theorem wire_carries_only_salted_partial db r remote w t0 rest uuid secret :
  values "api_token" (l_form r) = [] -> l_cookie r = None ->
  remote_request db r remote = LFwd w -> load_tokens r = t0 :: rest ->
  v2_fields t0 uuid secret -> is_salted_secret secret = false ->
  carried w = ["v2/" ++ uuid ++ "/" ++ hmac_sha1_hex secret remote].
Proof. rewrite remote_request_is_salted_request. apply legacy_forwards_only_salted_partial. Qed.

(* ---------- federation.Conn.ContainerRequestCreate ---------- *)
(* without an explicit runtime_token: a current token issued by this cluster is never what is forwarded;
   a fresh token is created for the current user instead *)
Theorem crc_local_token_minted local uuid api scopes user :
  has_prefix local uuid = true -> scope_all scopes = true ->
  crc_runtime_token local None (Some (uuid, api, scopes)) (Some user) = CrtMint user.
Proof. intros Hp Hs. unfold crc_runtime_token. rewrite Hs, Hp. reflexivity. Qed.

Theorem crc_current_token_only_if_foreign local aca user t :
  crc_runtime_token local None aca user = CrtCurrent t ->
  exists uuid api scopes, aca = Some (uuid, api, scopes) /\ has_prefix local uuid = false /\
                          scope_all scopes = true /\ t = "v2/" ++ uuid ++ "/" ++ api.
Proof.
  unfold crc_runtime_token. destruct aca as [[[uuid api] scopes]|]; [|discriminate].
  destruct user as [u|]; [|discriminate]. destruct (scope_all scopes) eqn:Hs; cbn [negb]; [|discriminate].
  destruct (has_prefix local uuid) eqn:Hp; [discriminate|]. intro H. injection H as <-.
  exists uuid, api, scopes. auto.
Qed.

Theorem crc_given_token_untouched local t aca user : crc_runtime_token local (Some t) aca user = CrtGiven t.
Proof. reflexivity. Qed.

(* the whole call: whatever the provider and the minting do, the runtime_token sent to the remote is the
   given one, a freshly created one, or the v2 form of a current token issued by another cluster *)
Theorem crc_sent_runtime_token lookup mint local remotes target creds rt aca user a t :
  crc lookup mint local remotes target creds rt aca user = CrcSent a t ->
  is_remote local remotes target = true /\
  (rt = Some t \/
   (rt = None /\ exists uuid api scopes, aca = Some (uuid, api, scopes) /\ scope_all scopes = true /\
      ((has_prefix local uuid = true /\ exists u, user = Some u /\ mint u = Some t) \/
       (has_prefix local uuid = false /\ t = "v2/" ++ uuid ++ "/" ++ api)))).
Proof.
  unfold crc, crc_k. destruct (is_remote local remotes target); cbn [negb]; [|discriminate]. intro H. split; [reflexivity|].
  set (dest := match cluster_of target with Some c => c | None => "" end) in *.
  assert (Hsend : forall x, match provider_k hmac_sha1_hex lookup dest (Some creds) with
                            | None => CrcErr | Some [] => CrcSent "Bearer -" x | Some (a0 :: _) => CrcSent ("Bearer " ++ a0) x end = CrcSent a t -> x = t).
  { intros x Hx. destruct (provider_k hmac_sha1_hex lookup dest (Some creds)) as [[|a0 l]|]; try discriminate; injection Hx; auto. }
  destruct rt as [g|].
  - cbn [crc_runtime_token] in H. apply Hsend in H. left. congruence.
  - right. split; [reflexivity|].
    destruct (crc_runtime_token local None aca user) as [g|u|c|] eqn:E; try discriminate.
    + unfold crc_runtime_token in E. destruct aca as [[[uuid api] scopes]|]; [|discriminate].
      destruct user; [|discriminate]. destruct (negb (scope_all scopes)); [discriminate|]. destruct (has_prefix local uuid); discriminate.
    + unfold crc_runtime_token in E. destruct aca as [[[uuid api] scopes]|]; [|discriminate].
      destruct user as [u'|]; [|discriminate]. destruct (scope_all scopes) eqn:Hs; cbn [negb] in E; [|discriminate].
      destruct (has_prefix local uuid) eqn:Hp; [|discriminate]. injection E as ->.
      exists uuid, api, scopes. split; [reflexivity|]. split; [exact Hs|]. left. split; [exact Hp|].
      exists u. split; [reflexivity|]. destruct (mint u) as [m|]; [|discriminate]. apply Hsend in H. congruence.
    + apply crc_current_token_only_if_foreign in E. destruct E as (uuid & api & scopes & -> & Hp & Hs & ->).
      apply Hsend in H. subst t. exists uuid, api, scopes. auto 6.
Qed.

(* ... and its Authorization header is the first token the salted token provider returns for that cluster *)
Theorem crc_sent_authorization lookup mint local remotes target creds rt aca user a t :
  crc lookup mint local remotes target creds rt aca user = CrcSent a t ->
  exists dest, cluster_of target = Some dest /\
    match provider lookup dest (Some creds) with
    | Some (x :: _) => a = "Bearer " ++ x
    | Some [] => a = "Bearer -"
    | None => False
    end.
Proof.
  unfold crc, crc_k, is_remote. intro H. destruct (cluster_of target) as [dest|]; cbn [negb] in H; [|discriminate].
  exists dest. split; [reflexivity|].
  destruct (negb (negb (dest =? local)%string && existsb (String.eqb dest) remotes)); [discriminate|].
  fold (provider lookup dest (Some creds)) in H.
  destruct (provider lookup dest (Some creds)) as [[|x l]|].
  - destruct (crc_runtime_token local rt aca user); try discriminate; try (injection H; auto).
    destruct (mint user0); [injection H; auto|discriminate].
  - destruct (crc_runtime_token local rt aca user); try discriminate; try (injection H; auto).
    destruct (mint user0); [injection H; auto|discriminate].
  - destruct (crc_runtime_token local rt aca user); try discriminate. destruct (mint user0); discriminate.
Qed.

(* ---------- repeated / empty api_token values, and a failing database query ---------- *)
(* every api_token value of the query string counts as a token, whatever precedes it (an empty value too) *)
Theorem query_tokens_all_count r v : In v (values "api_token" (l_query r)) -> In v (load_tokens r).
Proof. intro H. unfold load_tokens. rewrite !in_app_iff. right. left. exact H. Qed.

(* hence a request with any api_token parameter in its query string is never forwarded with one *)
Theorem query_token_never_forwarded db r remote w :
  values "api_token" (l_query r) <> [] -> remote_request db r remote = LFwd w -> values "api_token" (l_query w) = [].
Proof.
  intros Hq Hw. destruct (load_tokens r) as [|t0 rest] eqn:E.
  - exfalso. destruct (values "api_token" (l_query r)) as [|v vs] eqn:Ev; [apply Hq; reflexivity|].
    assert (Hin : In v (load_tokens r)) by (apply query_tokens_all_count; rewrite Ev; left; reflexivity).
    rewrite E in Hin. destruct Hin.
  - destruct (wire_leak_confined db r remote w t0 rest Hw E) as (_ & H & _). exact H.
Qed.

(* a database query that fails is not "token unknown here": nothing is forwarded *)
Theorem db_error_forwards_nothing db r remote t0 rest :
  load_tokens r = t0 :: rest ->
  (salt_token t0 remote = ErrObsolete \/ salt_token t0 remote = ErrFormat) -> db t0 = DbError ->
  legacy db r remote = LErr /\ remote_request db r remote = LErr.
Proof.
  intros Ht Hs Hd. assert (H : legacy db r remote = LErr).
  { unfold legacy, legacy_k. rewrite Ht. fold (salt_token t0 remote). destruct Hs as [-> | ->]; rewrite Hd; reflexivity. }
  split; [exact H|]. rewrite remote_request_is_salted_request. exact H.
Qed.
