(* C19 — proofs (first part). *)
From Coq Require Import NArith List Ascii String Bool Lia.
From AV Require Import lib.Str lib.Sha1 lib.TokSplit model.C19_model.
Import ListNotations.
Local Open Scope string_scope.

Lemma salt_deterministic token remote : forall a b, salt_token token remote = a -> salt_token token remote = b -> a = b.
Proof. intros a b <- <-. reflexivity. Qed.
