(* C04 (H) — what one request can change on one volume (frame theorems): trash only on a matching
   request, only on writable volumes with trashing enabled; trash entries leave only by untrash or by
   an empty-trash sweep after their deadline; deadlines are whole seconds = floor((now+lifetime)/1e9);
   untrash brings a trashed copy back as long as it has not been swept. *)
From Coq Require Import ZArith NArith List String Bool Lia.
From AV Require Import lib.Str model.C04_model model.C04_run proofs.C04_proofs.
Import ListNotations.
Local Open Scope Z_scope.

Lemma F2_compose {A} (P Q R : A -> A -> Prop) :
  (forall x y z, P x y -> Q y z -> R x z) ->
  forall a b d, Forall2 P a b -> Forall2 Q b d -> Forall2 R a d.
Proof.
  intros H a. induction a as [|x r IH]; intros b d H1 H2; inversion H1; subst; inversion H2; subst; constructor; eauto.
Qed.
Lemma F2_impl {A} (P Q : A -> A -> Prop) : (forall x y, P x y -> Q x y) -> forall a b, Forall2 P a b -> Forall2 Q a b.
Proof. intros H a b HF. induction HF; constructor; auto. Qed.
Lemma F2_refl {A} (P : A -> A -> Prop) : (forall x, P x x) -> forall a, Forall2 P a a.
Proof. intros H a. induction a; constructor; auto. Qed.
Lemma F2_map_r {A} (P : A -> A -> Prop) (f : A -> A) : (forall x, P x (f x)) -> forall a, Forall2 P a (map f a).
Proof. intros H a. induction a; cbn; constructor; auto. Qed.

Section Frame.
Variable c : cfg.
Variable now : Z.

(* ---- the possible changes of one volume ---- *)
Definition touched (h : string) (v v' : vol) : Prop :=
  v_ro v = false /\ v' = with_blocks v (set_block (v_blocks v) h now).
Definition trashed (h : string) (v v' : vol) : Prop :=
  exists m, find_block (v_blocks v) h = Some m /\ ttl c <= now - m /\ v_ro v = false /\ blob_trash c = true /\
            v' = (if life c =? 0 then with_blocks v (del_block (v_blocks v) h)
                  else with_both v (del_block (v_blocks v) h) (add_trash (v_trash v) h (deadline c now) m)).
Definition untrashed (h : string) (v v' : vol) : Prop :=
  v_ro v = false /\ find_block (v_blocks v) h = None /\ exists t, In t (v_trash v) /\ t_hash t = h /\
    v' = with_both v (set_block (v_blocks v) h (t_mtime t)) (filter (fun x => negb (same_trash h (t_dead t) x)) (v_trash v)).
Definition emptied (v v' : vol) : Prop := v_ro v = false /\ v' = vol_empty v now.

(* vol_trash either does nothing or trashes *)
Lemma vol_trash_shape v h : snd (vol_trash c v h now) = v \/ trashed h v (snd (vol_trash c v h now)).
Proof.
  unfold vol_trash. destruct (v_ro v) eqn:Er; cbn [orb]; [left; reflexivity|].
  destruct (blob_trash c) eqn:Eb; cbn [negb]; [|left; reflexivity].
  destruct (find_block (v_blocks v) h) as [m|] eqn:Ef; [|left; reflexivity].
  destruct (Z.ltb_spec (now - m) (ttl c)); [left; reflexivity|].
  right. exists m. repeat split; try assumption; try lia. destruct (life c =? 0); reflexivity.
Qed.

Lemma first_trash_in ts h : forall best t, first_trash ts h best = Some t -> best = Some t \/ (In t ts /\ t_hash t = h).
Proof.
  induction ts as [|x r IH]; intros best t; cbn [first_trash].
  - intros ->. left; reflexivity.
  - destruct (String.eqb_spec (t_hash x) h) as [E|E].
    + destruct best as [b|].
      * destruct (str_ltb (dec_dead x) (dec_dead b)).
        -- intros X. destruct (IH (Some x) t X) as [Y|[Y Z]]; [injection Y as <-; right; split; [left; reflexivity|exact E]|right; split; [right; exact Y|exact Z]].
        -- intros X. destruct (IH (Some b) t X) as [Y|[Y Z]]; [left; exact Y|right; split; [right; exact Y|exact Z]].
      * intros X. destruct (IH (Some x) t X) as [Y|[Y Z]]; [injection Y as <-; right; split; [left; reflexivity|exact E]|right; split; [right; exact Y|exact Z]].
    + intros X. destruct (IH best t X) as [Y|[Y Z]]; [left; exact Y|right; split; [right; exact Y|exact Z]].
Qed.

Lemma vol_untrash_shape v h : snd (vol_untrash v h) = v \/ untrashed h v (snd (vol_untrash v h)).
Proof.
  unfold vol_untrash. destruct (v_ro v) eqn:Er; [left; reflexivity|].
  destruct (first_trash (v_trash v) h None) as [t|] eqn:Ef; [|left; reflexivity].
  destruct (find_block (v_blocks v) h) eqn:Eb; [left; reflexivity|].
  right. split; [exact Er|]. split; [exact Eb|]. destruct (first_trash_in _ _ None t Ef) as [X|[X Y]]; [discriminate|].
  exists t. repeat split; assumption.
Qed.

(* a trashed copy exists => untrash finds one *)
Lemma first_trash_some ts h : forall best, (exists t, In t ts /\ t_hash t = h) -> exists t', first_trash ts h best = Some t'.
Proof.
  induction ts as [|x r IH]; intros best (t & Hin & Hh); [contradiction|]. cbn [first_trash].
  destruct (String.eqb_spec (t_hash x) h) as [E|E].
  - assert (G : forall b, exists t', first_trash r h (Some b) = Some t').
    { clear. induction r as [|y r IH]; intros b; cbn [first_trash]; [eauto|].
      destruct (String.eqb (t_hash y) h); [|apply IH]. destruct (str_ltb (dec_dead y) (dec_dead b)); apply IH. }
    destruct best as [b|]; [destruct (str_ltb (dec_dead x) (dec_dead b))|]; apply G.
  - destruct Hin as [->|Hin]; [contradiction|]. apply IH. eauto.
Qed.

(* ---- shape of one step, volume by volume ---- *)
Inductive tl_change : list item -> vol -> vol -> Prop :=
| tl_nil v : tl_change [] v v
| tl_skip it r v v' : tl_change r v v' -> tl_change (it :: r) v v'
| tl_hit it r v v1 v' :
    trashed (i_hash it) v v1 -> find_block (v_blocks v) (i_hash it) = Some (i_mtime it) ->
    ttl c <= now - i_mtime it -> (i_mount it = ""%string \/ i_mount it = v_uuid v) ->
    tl_change r v1 v' -> tl_change (it :: r) v v'.

Definition change (o : op) (v v' : vol) : Prop :=
  match o with
  | Put h => v' = v \/ touched h v v'
  | Touch h => v' = v \/ (touched h v v' /\ has_block v h = true)
  | Get _ => v' = v
  | TrashList its => tl_change its v v'
  | Delete h => v' = v \/ trashed h v v'
  | Untrash h => v' = v \/ untrashed h v v'
  | EmptyTrash => v' = v \/ emptied v v'
  end.

Lemma tl_change_refl its v : tl_change its v v.
Proof. induction its; [constructor|apply tl_skip; assumption]. Qed.
Lemma change_refl o v : change o v v.
Proof. destruct o; cbn [change]; auto. apply tl_change_refl. Qed.

Lemma touch_first_shape h : forall vs vs', touch_first vs h now = Some vs' ->
  Forall2 (fun v v' => v' = v \/ (touched h v v' /\ has_block v h = true)) vs vs'.
Proof.
  induction vs as [|v r IH]; intros vs'; cbn [touch_first]; [discriminate|].
  destruct (vol_touch v h now) as [v'|] eqn:Et.
  - intros X; inversion X; subst. constructor; [|apply F2_refl; auto].
    unfold vol_touch in Et. destruct (v_ro v) eqn:Er; [discriminate|]. unfold has_block.
    destruct (find_block (v_blocks v) h); [|discriminate]. inversion Et. right. split; [split; [exact Er|reflexivity]|reflexivity].
  - destruct (touch_first r h now) as [r'|]; [|discriminate]. intros X; inversion X; subst.
    constructor; [left; reflexivity|apply IH; reflexivity].
Qed.

Lemma write_at_shape h : forall vs k, Forall2 (fun v v' => v' = v \/ touched h v v') vs (write_at vs k h now).
Proof.
  induction vs as [|v r IH]; intros k; cbn [write_at]; [constructor|].
  destruct (v_ro v) eqn:Er; [constructor; [left; reflexivity|apply IH]|].
  destruct k; constructor; try (left; reflexivity); try apply IH; try (apply F2_refl; auto).
  right. split; [exact Er|reflexivity].
Qed.

Lemma trash_all_shape h : forall vs, Forall2 (fun v v' => v' = v \/ trashed h v v') vs (snd (trash_all c vs h now)).
Proof.
  induction vs as [|v r IH]; cbn [trash_all]; [constructor|].
  destruct (trash_all c r h now) as [n r'] eqn:E. cbn [snd] in IH.
  destruct (v_ro v); cbn [snd]; [constructor; [left; reflexivity|exact IH]|].
  pose proof (vol_trash_shape v h) as K. destruct (vol_trash c v h now) as [[| |] v']; cbn [snd] in *; constructor; try exact IH; exact K.
Qed.

Lemma untrash_all_shape h : forall vs, Forall2 (fun v v' => v' = v \/ untrashed h v v') vs (snd (untrash_all vs h)).
Proof.
  induction vs as [|v r IH]; cbn [untrash_all]; [constructor|].
  destruct (untrash_all r h) as [n r'] eqn:E. cbn [snd] in IH.
  destruct (v_ro v); cbn [snd]; [constructor; [left; reflexivity|exact IH]|].
  pose proof (vol_untrash_shape v h) as K. destruct (vol_untrash v h) as [[| |] v']; cbn [snd] in *; constructor; try exact IH; exact K.
Qed.

Lemma trash_item_vol_shape it v :
  trash_item_vol c it now v = v \/
  (trashed (i_hash it) v (trash_item_vol c it now v) /\ find_block (v_blocks v) (i_hash it) = Some (i_mtime it) /\
   (i_mount it = ""%string \/ i_mount it = v_uuid v)).
Proof.
  unfold trash_item_vol. destruct (v_ro v); [left; reflexivity|].
  destruct (String.eqb_spec (i_mount it) "") as [Em|Em]; cbn [orb negb].
  - destruct (find_block (v_blocks v) (i_hash it)) as [m|] eqn:Ef; [|left; reflexivity].
    destruct (Z.eqb_spec m (i_mtime it)) as [->|]; cbn [negb]; [|left; reflexivity].
    destruct (blob_trash c); cbn [negb]; [|left; reflexivity].
    destruct (vol_trash_shape v (i_hash it)) as [K|K]; [left; exact K|right; auto].
  - destruct (String.eqb_spec (i_mount it) (v_uuid v)) as [Eu|Eu]; cbn [negb]; [|left; reflexivity].
    destruct (find_block (v_blocks v) (i_hash it)) as [m|] eqn:Ef; [|left; reflexivity].
    destruct (Z.eqb_spec m (i_mtime it)) as [->|]; cbn [negb]; [|left; reflexivity].
    destruct (blob_trash c); cbn [negb]; [|left; reflexivity].
    destruct (vol_trash_shape v (i_hash it)) as [K|K]; [left; exact K|right; auto].
Qed.

Lemma trash_list_shape : forall its vs, Forall2 (tl_change its) vs (trash_list c vs its now).
Proof.
  unfold trash_list. induction its as [|it r IH]; intros vs; cbn [fold_left].
  - apply F2_refl. constructor.
  - eapply F2_compose; [| |apply IH].
    2:{ instantiate (1 := fun v v1 => v1 = v \/ (trashed (i_hash it) v v1 /\ find_block (v_blocks v) (i_hash it) = Some (i_mtime it) /\
                                               ttl c <= now - i_mtime it /\ (i_mount it = ""%string \/ i_mount it = v_uuid v))).
        unfold trash_item. destruct (Z.ltb_spec (now - i_mtime it) (ttl c)); [apply F2_refl; auto|].
        apply F2_map_r. intros v. destruct (trash_item_vol_shape it v) as [K|(K1 & K2 & K3)]; [left; exact K|right; auto]. }
    intros x y z [->|(A & B & D & E)] Hr; [apply tl_skip; exact Hr|eapply tl_hit; eassumption].
Qed.

Theorem step_shape s o : Forall2 (change o) (vols s) (vols (snd (step c s now o))).
Proof.
  destruct o as [h|h|h|its|h|h|]; cbn [step change].
  - unfold h_put. destruct (writable (vols s)); [apply F2_refl; intros; apply (change_refl (Put h))|].
    destruct (touch_first (vols s) h now) as [vs'|] eqn:Et; cbn [snd vols].
    + refine (F2_impl _ _ _ _ _ (touch_first_shape h _ _ Et)). intros x y [A|[A _]]; [left; exact A|right; exact A].
    + apply write_at_shape.
  - unfold h_touch. destruct (writable (vols s)); [apply F2_refl; intros; apply (change_refl (Touch h))|].
    destruct (touch_first (vols s) h now) as [vs'|] eqn:Et; cbn [snd vols]; [|apply F2_refl; intros; apply (change_refl (Touch h))].
    eapply touch_first_shape; exact Et.
  - apply F2_refl; intros; reflexivity.
  - cbn [snd vols]. apply trash_list_shape.
  - unfold h_delete. destruct (negb (blob_trash c)); [apply F2_refl; intros; apply (change_refl (Delete h))|].
    pose proof (trash_all_shape h (vols s)) as K. destruct (trash_all c (vols s) h now) as [n vs']. exact K.
  - unfold h_untrash. destruct (writable (vols s)); [apply F2_refl; intros; apply (change_refl (Untrash h))|].
    pose proof (untrash_all_shape h (vols s)) as K. destruct (untrash_all (vols s) h) as [n vs']. exact K.
  - cbn [snd vols]. unfold empty_trash. apply F2_map_r. intros v. destruct (v_ro v) eqn:Er; [left; reflexivity|right; split; [exact Er|reflexivity]].
Qed.

(* ---- consequences, per volume ---- *)
Lemma trashed_facts h v v' : trashed h v v' ->
  v_ro v' = v_ro v /\ v_uuid v' = v_uuid v /\ v_blocks v' = del_block (v_blocks v) h.
Proof. intros (m & _ & _ & _ & _ & ->). destruct (life c =? 0); cbn; auto. Qed.

Lemma tl_change_facts its v v' : tl_change its v v' ->
  v_ro v' = v_ro v /\ v_uuid v' = v_uuid v /\
  (forall h m, find_block (v_blocks v') h = Some m -> find_block (v_blocks v) h = Some m) /\
  (forall h m, find_block (v_blocks v) h = Some m -> find_block (v_blocks v') h = None ->
     v_ro v = false /\ blob_trash c = true /\ ttl c <= now - m /\
     exists it, In it its /\ i_hash it = h /\ i_mtime it = m /\ (i_mount it = ""%string \/ i_mount it = v_uuid v) /\
                ttl c <= now - i_mtime it).
Proof.
  induction 1 as [v|it r v v' Hr IH|it r v v1 v' Ht Hf Hl Hm Hr IH].
  - split; [reflexivity|]. split; [reflexivity|]. split; [auto|]. intros h m A B. congruence.
  - destruct IH as (A & B & D & E). split; [exact A|]. split; [exact B|]. split; [exact D|]. intros h m X Y.
    destruct (E h m X Y) as (E1 & E2 & E3 & it' & F1 & F2). split; [exact E1|]. split; [exact E2|]. split; [exact E3|].
    exists it'. split; [right; exact F1|exact F2].
  - destruct IH as (A & B & D & E). destruct (trashed_facts _ _ _ Ht) as (T1 & T2 & T3).
    assert (Mono : forall h m, find_block (v_blocks v1) h = Some m -> find_block (v_blocks v) h = Some m).
    { intros h m X. rewrite T3 in X. destruct (String.eqb_spec h (i_hash it)) as [->|Ne].
      - rewrite find_del_same in X. discriminate.
      - rewrite find_del_other in X by exact Ne. exact X. }
    split; [congruence|]. split; [congruence|]. split; [intros h m X; apply Mono; apply D; exact X|].
    intros h m X Y. destruct Ht as (m0 & Tf & Tl & Tr & Tb & _).
    destruct (find_block (v_blocks v1) h) as [m1|] eqn:E1.
    + assert (m1 = m) by (apply Mono in E1; congruence). subst m1.
      destruct (E h m E1 Y) as (G1 & G2 & G3 & it' & F1 & F2 & F3 & F4 & F5).
      split; [exact Tr|]. split; [exact G2|]. split; [exact G3|]. exists it'. split; [right; exact F1|].
      split; [exact F2|]. split; [exact F3|]. split; [rewrite <- T2; exact F4|exact F5].
    + assert (h = i_hash it).
      { destruct (String.eqb_spec h (i_hash it)) as [->|Ne]; [reflexivity|]. rewrite T3, find_del_other in E1 by exact Ne. congruence. }
      subst h. assert (m = i_mtime it) by congruence. subst m.
      split; [exact Tr|]. split; [exact Tb|]. split; [exact Hl|]. exists it. split; [left; reflexivity|].
      split; [reflexivity|]. split; [reflexivity|]. split; [exact Hm|exact Hl].
Qed.

(* trash_only_matching + trash_only_writable_enabled: a block file disappears from a volume only if
   the volume is writable, trashing is enabled, the copy is at least ttl old, and the request is a
   Delete of that hash or a trash list holding an entry with exactly the stored timestamp (itself at
   least ttl old) addressed to every mount or to this one *)
Theorem trash_only_matching s o :
  Forall2 (fun v v' => forall h m, find_block (v_blocks v) h = Some m -> find_block (v_blocks v') h = None ->
     v_ro v = false /\ blob_trash c = true /\ ttl c <= now - m /\
     (o = Delete h \/
      exists its it, o = TrashList its /\ In it its /\ i_hash it = h /\ i_mtime it = m /\
                     (i_mount it = ""%string \/ i_mount it = v_uuid v) /\ ttl c <= now - i_mtime it))
    (vols s) (vols (snd (step c s now o))).
Proof.
  eapply F2_impl; [|apply step_shape]. intros v v' Hc h m Hf Hn.
  destruct o as [h'|h'|h'|its|h'|h'|]; cbn [change] in Hc.
  - destruct Hc as [->|[_ ->]]; [congruence|]. cbn [with_blocks v_blocks] in Hn.
    destruct (String.eqb_spec h h') as [->|Ne]; [rewrite find_set_same in Hn; discriminate|rewrite find_set_other in Hn by exact Ne; congruence].
  - destruct Hc as [->|[[_ ->] _]]; [congruence|]. cbn [with_blocks v_blocks] in Hn.
    destruct (String.eqb_spec h h') as [->|Ne]; [rewrite find_set_same in Hn; discriminate|rewrite find_set_other in Hn by exact Ne; congruence].
  - subst v'. congruence.
  - destruct (tl_change_facts _ _ _ Hc) as (_ & _ & _ & E). destruct (E h m Hf Hn) as (E1 & E2 & E3 & it & F).
    repeat split; auto. right. exists its, it. tauto.
  - destruct Hc as [->|Ht]; [congruence|]. destruct (trashed_facts _ _ _ Ht) as (_ & _ & T3).
    destruct Ht as (m0 & Tf & Tl & Tr & Tb & _).
    destruct (String.eqb_spec h h') as [->|Ne].
    + assert (m0 = m) by congruence. subst. repeat split; auto.
    + rewrite T3, find_del_other in Hn by exact Ne. congruence.
  - destruct Hc as [->|[_ [_ (t & _ & _ & ->)]]]; [congruence|]. cbn [with_both v_blocks] in Hn.
    destruct (String.eqb_spec h h') as [->|Ne]; [rewrite find_set_same in Hn; discriminate|rewrite find_set_other in Hn by exact Ne; congruence].
  - destruct Hc as [->|[_ ->]]; [congruence|]. cbn in Hn. congruence.
Qed.

(* a read-only volume is never changed by any request *)
Theorem readonly_unchanged s o :
  Forall2 (fun v v' => v_ro v = true -> v' = v) (vols s) (vols (snd (step c s now o))).
Proof.
  eapply F2_impl; [|apply step_shape]. intros v v' Hc Hro.
  destruct o as [h'|h'|h'|its|h'|h'|]; cbn [change] in Hc.
  - destruct Hc as [->|[X _]]; [reflexivity|congruence].
  - destruct Hc as [->|[[X _] _]]; [reflexivity|congruence].
  - exact Hc.
  - induction Hc as [v|it r v v' Hr IH|it r v v1 v' Ht Hf Hl Hm Hr IH]; [reflexivity|apply IH; exact Hro|].
    destruct Ht as (m0 & _ & _ & X & _). congruence.
  - destruct Hc as [->|(m0 & _ & _ & X & _)]; [reflexivity|congruence].
  - destruct Hc as [->|[X _]]; [reflexivity|congruence].
  - destruct Hc as [->|[X _]]; [reflexivity|congruence].
Qed.

(* with trashing disabled, Delete and trash lists change nothing *)
Theorem trash_disabled_unchanged s o : blob_trash c = false ->
  (match o with Delete _ | TrashList _ => True | _ => False end) ->
  Forall2 (fun v v' => v' = v) (vols s) (vols (snd (step c s now o))).
Proof.
  intros Hb Ho. eapply F2_impl; [|apply step_shape]. intros v v' Hc.
  destruct o as [h'|h'|h'|its|h'|h'|]; try contradiction; cbn [change] in Hc.
  - induction Hc as [v|it r v v' Hr IH|it r v v1 v' Ht Hf Hl Hm Hr IH]; [reflexivity|exact IH|].
    destruct Ht as (m0 & _ & _ & _ & X & _). congruence.
  - destruct Hc as [->|(m0 & _ & _ & _ & X & _)]; [reflexivity|congruence].
Qed.

(* emptytrash_only_expired: the sweep leaves every block file alone, removes only trashed copies whose
   deadline (whole seconds) is not after now, and keeps every copy whose deadline is still ahead *)
Theorem emptytrash_only_expired s :
  Forall2 (fun v v' => v_blocks v' = v_blocks v /\
                       (forall t, In t (v_trash v') -> In t (v_trash v)) /\
                       (forall t, In t (v_trash v) -> ~ In t (v_trash v') -> t_dead t <= now / NS /\ v_ro v = false) /\
                       (forall t, In t (v_trash v) -> now / NS < t_dead t -> In t (v_trash v')))
    (vols s) (vols (snd (step c s now EmptyTrash))).
Proof.
  eapply F2_impl; [|apply step_shape]. intros v v' [->|[Hro ->]].
  - split; [reflexivity|]. split; [auto|]. split; [intros t A B; contradiction|auto].
  - cbn [vol_empty with_both v_blocks v_trash]. split; [reflexivity|]. split; [|split].
    + intros t A. apply filter_In in A. tauto.
    + intros t A B. split; [|exact Hro]. destruct (Z.ltb_spec (now / NS) (t_dead t)) as [L|L]; [|lia].
      exfalso. apply B. apply filter_In. split; [exact A|]. apply Z.ltb_lt. exact L.
    + intros t A B. apply filter_In. split; [exact A|apply Z.ltb_lt; exact B].
Qed.

(* deadline_whole_seconds: a trashed copy that appears during a request is named with the deadline
   floor((now + lifetime) / 10^9) and carries the timestamp the block file had *)
Lemma trashed_new_entry h v v' : trashed h v v' -> forall t, In t (v_trash v') -> ~ In t (v_trash v) ->
  t_hash t = h /\ t_dead t = (now + life c) / NS /\ find_block (v_blocks v) h = Some (t_mtime t).
Proof.
  intros (m & Tf & _ & _ & _ & ->) t Hin Hnot. destruct (life c =? 0); cbn [with_blocks with_both v_trash] in Hin; [contradiction|].
  unfold add_trash in Hin. destruct Hin as [<-|Hin]; [cbn; auto|]. apply filter_In in Hin. tauto.
Qed.

Theorem deadline_whole_seconds s o :
  Forall2 (fun v v' => forall t, In t (v_trash v') -> ~ In t (v_trash v) ->
             t_dead t = (now + life c) / NS /\ exists m, find_block (v_blocks v) (t_hash t) = Some m /\ t_mtime t = m)
    (vols s) (vols (snd (step c s now o))).
Proof.
  eapply F2_impl; [|apply step_shape]. intros v v' Hc t Hin Hnot.
  destruct o as [h'|h'|h'|its|h'|h'|]; cbn [change] in Hc.
  - destruct Hc as [->|[_ ->]]; contradiction.
  - destruct Hc as [->|[[_ ->] _]]; contradiction.
  - subst; contradiction.
  - revert t Hin Hnot. induction Hc as [v|it r v v' Hr IH|it r v v1 v' Ht Hf Hl Hm Hr IH]; intros t Hin Hnot; [contradiction|apply IH; assumption|].
    destruct (in_dec (fun a b : tr => ltac:(decide equality; try apply Z.eq_dec; apply string_dec)) t (v_trash v1)) as [I1|I1].
    + destruct (trashed_new_entry _ _ _ Ht t I1 Hnot) as (A & B & D). split; [exact B|]. rewrite A. eauto.
    + destruct (IH t Hin I1) as (A & m & B & D). split; [exact A|].
      destruct (trashed_facts _ _ _ Ht) as (_ & _ & T3). rewrite T3 in B.
      destruct (String.eqb_spec (t_hash t) (i_hash it)) as [E|E]; [rewrite E, find_del_same in B; discriminate|].
      rewrite find_del_other in B by exact E. eauto.
  - destruct Hc as [->|Ht]; [contradiction|]. destruct (trashed_new_entry _ _ _ Ht t Hin Hnot) as (A & B & D).
    split; [exact B|]. rewrite A. eauto.
  - destruct Hc as [->|[_ [_ (t0 & _ & _ & ->)]]]; [contradiction|]. cbn [with_both v_trash] in Hin. apply filter_In in Hin. tauto.
  - destruct Hc as [->|[_ ->]]; [contradiction|]. cbn in Hin. apply filter_In in Hin. tauto.
Qed.

End Frame.

(* ---- untrash_until_deadline ---- *)
(* position i of the volume list keeps its read-only flag; a trashed copy (h, D) on it stays through
   every request that is not an Untrash of h while the clock (in whole seconds) is before D; Untrash
   then restores the block file *)
Definition holds_trash (h : string) (d : Z) (v : vol) : Prop :=
  v_ro v = false /\ exists t, In t (v_trash v) /\ t_hash t = h /\ t_dead t = d.

Lemma add_trash_keeps ts h d h' d' m : (exists t, In t ts /\ t_hash t = h /\ t_dead t = d) ->
  exists t, In t (add_trash ts h' d' m) /\ t_hash t = h /\ t_dead t = d.
Proof.
  intros (t & A & B & D). unfold add_trash. destruct (same_trash h' d' t) eqn:E.
  - unfold same_trash in E. apply andb_true_iff in E. destruct E as [E1 E2]. apply String.eqb_eq in E1. apply Z.eqb_eq in E2.
    eexists. split; [left; reflexivity|]. cbn. split; congruence.
  - exists t. split; [right; apply filter_In; split; [exact A|rewrite E; reflexivity]|auto].
Qed.

Lemma change_keeps_trash c now o h d v v' : change c now o v v' -> now / NS < d -> o <> Untrash h ->
  holds_trash h d v -> holds_trash h d v'.
Proof.
  intros Hc Hn Ho (Hro & Hex). destruct o as [h'|h'|h'|its|h'|h'|]; cbn [change] in Hc.
  - destruct Hc as [->|[_ ->]]; split; auto.
  - destruct Hc as [->|[[_ ->] _]]; split; auto.
  - subst; split; auto.
  - clear Ho. revert Hro Hex. induction Hc as [v|it r v v' Hr IH|it r v v1 v' Ht Hf Hl Hm Hr IH]; intros Hro Hex; [split; auto|apply IH; auto|].
    destruct (trashed_facts _ _ _ _ _ Ht) as (T1 & _). apply IH; [congruence|].
    destruct Ht as (m & _ & _ & _ & _ & ->). destruct (life c =? 0); cbn [with_blocks with_both v_trash]; [exact Hex|].
    apply add_trash_keeps. exact Hex.
  - destruct Hc as [->|Ht]; [split; auto|]. destruct (trashed_facts _ _ _ _ _ Ht) as (T1 & _). split; [congruence|].
    destruct Ht as (m & _ & _ & _ & _ & ->). destruct (life c =? 0); cbn [with_blocks with_both v_trash]; [exact Hex|].
    apply add_trash_keeps. exact Hex.
  - destruct Hc as [->|[_ [_ (t0 & Hin0 & Hh0 & ->)]]]; [split; auto|]. split; [exact Hro|]. cbn [with_both v_trash].
    destruct Hex as (t & A & B & D). exists t. split; [|auto]. apply filter_In. split; [exact A|].
    unfold same_trash. destruct (String.eqb_spec (t_hash t) h'); [|reflexivity]. exfalso. apply Ho. congruence.
  - destruct Hc as [->|[_ ->]]; [split; auto|]. split; [exact Hro|]. destruct Hex as (t & A & B & D).
    exists t. split; [|auto]. cbn. apply filter_In. split; [exact A|]. apply Z.ltb_lt. lia.
Qed.

Lemma F2_nth {A} (P : A -> A -> Prop) a : forall b i x, Forall2 P a b -> nth_error a i = Some x ->
  exists y, nth_error b i = Some y /\ P x y.
Proof.
  induction a as [|z r IH]; intros b i x HF Hn; [destruct i; discriminate|].
  inversion HF; subst. destruct i; cbn in *; [inversion Hn; subst; eauto|eapply IH; eassumption].
Qed.

Lemma history_keeps_trash c h d i : forall hs s v,
  Forall (fun p => fst p / NS < d /\ snd p <> Untrash h) hs ->
  nth_error (vols s) i = Some v -> holds_trash h d v ->
  exists v', nth_error (vols (final c s hs)) i = Some v' /\ holds_trash h d v'.
Proof.
  induction hs as [|[now o] r IH]; intros s v HF Hn Hh; cbn [final]; [eauto|].
  inversion HF as [|x l [A B] HF']; subst. cbn [fst snd] in *.
  destruct (F2_nth _ _ _ _ _ (step_shape c now s o) Hn) as (v1 & N1 & C1).
  eapply IH; [exact HF'|exact N1|]. eapply change_keeps_trash; eassumption.
Qed.

Lemma untrash_all_restores h : forall vs i v, nth_error vs i = Some v ->
  (v_ro v = false /\ exists t, In t (v_trash v) /\ t_hash t = h) ->
  exists v', nth_error (snd (untrash_all vs h)) i = Some v' /\ has_block v' h = true /\ (0 < fst (untrash_all vs h))%nat.
Proof.
  induction vs as [|x r IH]; intros i v Hn Hex; [destruct i; discriminate|].
  cbn [untrash_all]. destruct (untrash_all r h) as [n r'] eqn:E. destruct i as [|i]; cbn [nth_error] in Hn.
  - inversion Hn; subst x. destruct Hex as (Hro & t & Hin & Hh). rewrite Hro.
    unfold vol_untrash. rewrite Hro. destruct (first_trash_some (v_trash v) h None) as (t' & Ft); [eauto|]. rewrite Ft.
    destruct (find_block (v_blocks v) h) eqn:Eb; cbn [fst snd nth_error]; eexists; (split; [reflexivity|]); (split; [|lia]).
    + unfold has_block. rewrite Eb. reflexivity.
    + unfold has_block. cbn [with_both v_blocks]. rewrite find_set_same. reflexivity.
  - destruct (IH i v Hn Hex) as (v' & A & B & D). try rewrite E in A. try rewrite E in D. cbn [fst snd] in A, D.
    destruct (v_ro x); cbn [fst snd nth_error].
    + exists v'. repeat split; auto.
    + destruct (vol_untrash x h) as [[| |] x']; cbn [fst snd nth_error]; exists v'; repeat split; auto; lia.
Qed.

(* untrash_until_deadline: a copy trashed with deadline D on a writable volume can be brought back by
   Untrash after any history of other requests, as long as the clock has not reached D when the last
   of them ran; the answer is 200 and the volume holds the block file again *)
Theorem untrash_until_deadline c h d i hs s v now :
  nth_error (vols s) i = Some v -> holds_trash h d v ->
  Forall (fun p => fst p / NS < d /\ snd p <> Untrash h) hs ->
  let s1 := final c s hs in
  fst (step c s1 now (Untrash h)) = 200%N /\
  exists v', nth_error (vols (snd (step c s1 now (Untrash h)))) i = Some v' /\ has_block v' h = true.
Proof.
  intros Hn Hh HF s1. destruct (history_keeps_trash c h d i hs s v HF Hn Hh) as (v1 & N1 & (Hro & t & Hin & Hth & _)).
  fold s1 in N1. cbn [step]. unfold h_untrash.
  assert (Hw : writable (vols s1) <> []).
  { intros X. assert (In v1 (writable (vols s1))) by (apply filter_In; split; [eapply nth_error_In; exact N1|rewrite Hro; reflexivity]).
    rewrite X in H. contradiction. }
  destruct (writable (vols s1)) as [|w ws]; [contradiction|].
  destruct (untrash_all_restores h (vols s1) i v1 N1) as (v' & A & B & D); [split; eauto|].
  destruct (untrash_all (vols s1) h) as [n vs']. cbn [fst snd vols] in *. split; [destruct n; [lia|reflexivity]|eauto].
Qed.
