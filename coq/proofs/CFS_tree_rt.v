(* Tree-level half of the marshal -> load round trip.
   T1 (tins_parts_group): a file delivered in several consecutive chunks = delivered once, for ANY tree and
      ANY directory string.
   T2 (records_roundtrip): loading the stream records of a well-formed tree into the empty tree rebuilds it.
   T3 (records_roundtrip_listing): corollary on listings. *)
From Coq Require Import List Arith Bool String Ascii Sorted Lia.
Import ListNotations.
From AV Require Import lib.Str lib.Path model.CFS_file model.CFS_tree model.CFS_inst model.CFS_bg model.CFS_tload proofs.CFS_text_lemmas proofs.CFS_rt_defs.
Local Open Scope string_scope.
Local Open Scope list_scope.
Notation length := List.length.

(* ------------------------------------------------------------------------------------------ *)
(* option bind                                                                                *)
(* ------------------------------------------------------------------------------------------ *)
Lemma obind_some {A} (o : option A) : obind o (fun x => Some x) = o.
Proof. destruct o; reflexivity. Qed.

Lemma obind_assoc {A B C} (o : option A) (f : A -> option B) (g : B -> option C) :
  obind (obind o f) g = obind o (fun x => obind (f x) g).
Proof. destruct o; reflexivity. Qed.

Lemma obind_ext {A B} (o : option A) (f g : A -> option B) :
  (forall x, f x = g x) -> obind o f = obind o g.
Proof. intros H. destruct o; cbn [obind]; [apply H|reflexivity]. Qed.

(* ------------------------------------------------------------------------------------------ *)
(* string equality helpers                                                                    *)
(* ------------------------------------------------------------------------------------------ *)
Lemma eqb_false_of_ltb a b : str_ltb a b = true -> String.eqb a b = false.
Proof.
  intros H. apply String.eqb_neq. intros E. subst b. rewrite str_ltb_irrefl in H. discriminate H.
Qed.

Lemma eqb_false_of_ltb' a b : str_ltb a b = true -> String.eqb b a = false.
Proof.
  intros H. apply String.eqb_neq. intros E. subst b. rewrite str_ltb_irrefl in H. discriminate H.
Qed.

Lemma str_ltb_asym a b : str_ltb a b = true -> str_ltb b a = false.
Proof.
  intros H. destruct (str_ltb b a) eqn:E; [|reflexivity].
  pose proof (str_ltb_trans _ _ _ H E) as H2. rewrite str_ltb_irrefl in H2. discriminate H2.
Qed.

(* ------------------------------------------------------------------------------------------ *)
(* tents_find / tents_put on arbitrary (not necessarily sorted) entry lists                   *)
(* ------------------------------------------------------------------------------------------ *)
Lemma find_put_same l n x : tents_find (tents_put l n x) n = Some x.
Proof.
  induction l as [|[k y] r IH]; cbn [tents_put tents_find].
  - rewrite String.eqb_refl. reflexivity.
  - destruct (String.eqb k n) eqn:Ekn.
    + cbn [tents_find]. rewrite String.eqb_refl. reflexivity.
    + destruct (str_ltb n k) eqn:Elt; cbn [tents_find].
      * rewrite String.eqb_refl. reflexivity.
      * rewrite Ekn. exact IH.
Qed.

Lemma put_put_same l n x y : tents_put (tents_put l n x) n y = tents_put l n y.
Proof.
  induction l as [|[k z] r IH]; cbn [tents_put].
  - rewrite String.eqb_refl. reflexivity.
  - destruct (String.eqb k n) eqn:Ekn.
    + cbn [tents_put]. rewrite String.eqb_refl. reflexivity.
    + destruct (str_ltb n k) eqn:Elt; cbn [tents_put].
      * rewrite String.eqb_refl. reflexivity.
      * rewrite Ekn, Elt, IH. reflexivity.
Qed.

Lemma find_put_other l m y n : m <> n -> tents_find (tents_put l m y) n = tents_find l n.
Proof.
  intros Hne. apply String.eqb_neq in Hne.
  induction l as [|[k z] r IH]; cbn [tents_put tents_find].
  - rewrite Hne. reflexivity.
  - destruct (String.eqb k m) eqn:Ekm.
    + apply String.eqb_eq in Ekm. subst k. cbn [tents_find]. rewrite Hne. reflexivity.
    + destruct (str_ltb m k) eqn:Elt; cbn [tents_find].
      * rewrite Hne. reflexivity.
      * rewrite IH. reflexivity.
Qed.

Lemma cons_neq_self {A} (a : A) (l : list A) : a :: l <> l.
Proof. intros H. apply (f_equal (@List.length A)) in H. cbn in H. lia. Qed.

(* a name whose re-insertion is the identity stays so when another name is inserted *)
Lemma put_other_stable l m y n c : m <> n ->
  tents_find l n = Some c -> tents_put l n c = l ->
  tents_put (tents_put l m y) n c = tents_put l m y.
Proof.
  intros Hne. pose proof Hne as Hmn. apply String.eqb_neq in Hmn.
  induction l as [|[k x] r IH]; intros Hf Hp; [discriminate Hf|].
  cbn [tents_find] in Hf. cbn [tents_put] in Hp. cbn [tents_put].
  destruct (String.eqb k n) eqn:Ekn.
  - apply String.eqb_eq in Ekn. subst k. injection Hf as ->.
    assert (Enm : String.eqb n m = false) by (apply String.eqb_neq; congruence).
    rewrite Enm. destruct (str_ltb m n) eqn:Elt; cbn [tents_put].
    + rewrite Hmn, (str_ltb_asym _ _ Elt), String.eqb_refl. reflexivity.
    + rewrite String.eqb_refl. reflexivity.
  - destruct (str_ltb n k) eqn:Enk; [exfalso; exact (cons_neq_self _ _ Hp)|].
    injection Hp as Hp.
    destruct (String.eqb k m) eqn:Ekm.
    + apply String.eqb_eq in Ekm. subst k. cbn [tents_put]. rewrite Hmn, Enk, Hp. reflexivity.
    + destruct (str_ltb m k) eqn:Emk; cbn [tents_put].
      * rewrite Hmn.
        destruct (str_ltb n m) eqn:Enm.
        { rewrite (str_ltb_trans _ _ _ Enm Emk) in Enk. discriminate Enk. }
        rewrite Ekn, Enk, Hp. reflexivity.
      * rewrite Ekn, Enk. rewrite (IH Hf Hp). reflexivity.
Qed.

(* ------------------------------------------------------------------------------------------ *)
(* tmod                                                                                        *)
(* ------------------------------------------------------------------------------------------ *)
Lemma tmod_ext t p : forall f g, (forall x, f x = g x) -> tmod t p f = tmod t p g.
Proof.
  revert t. induction p as [|n r IH]; intros t f g H; cbn [tmod]; [apply H|].
  destruct t as [b|ents]; [reflexivity|].
  destruct (tents_find ents n) as [c|]; [|reflexivity].
  rewrite (IH c f g H). reflexivity.
Qed.

Lemma tmod_app t p q f : tmod t (p ++ q) f = tmod t p (fun y => tmod y q f).
Proof.
  revert t. induction p as [|n r IH]; intros t; cbn [app tmod]; [reflexivity|].
  destruct t as [b|ents]; [reflexivity|].
  destruct (tents_find ents n) as [c|]; [|reflexivity].
  rewrite IH. reflexivity.
Qed.

(* walking the same path twice = walking it once with the composed function *)
Lemma tmod_seq t p f g :
  obind (tmod t p f) (fun t' => tmod t' p g) = tmod t p (fun x => obind (f x) g).
Proof.
  revert t. induction p as [|n r IH]; intros t; cbn [tmod]; [reflexivity|].
  destruct t as [b|ents]; [reflexivity|].
  destruct (tents_find ents n) as [c|] eqn:Ef; [|reflexivity].
  rewrite <- IH. destruct (tmod c r f) as [c'|]; cbn [obind]; [|reflexivity].
  cbn [tmod]. rewrite find_put_same.
  destruct (tmod c' r g) as [c''|]; [|reflexivity].
  rewrite put_put_same. reflexivity.
Qed.

(* ------------------------------------------------------------------------------------------ *)
(* the file token: create-if-missing then append                                              *)
(* ------------------------------------------------------------------------------------------ *)
Definition fput (n : string) (b : list byte) (x : T) : option T :=
  obind (ensure_file n x) (fun y => tmod y [n] (tappend b)).

Lemma fput_TD n b ents :
  fput n b (TD ents) =
  match tents_find ents n with
  | None => Some (TD (tents_put ents n (TF b)))
  | Some (TF b0) => Some (TD (tents_put ents n (TF (b0 ++ b))))
  | Some (TD _) => None
  end.
Proof.
  unfold fput. cbn [ensure_file].
  destruct (tents_find ents n) as [[b0|es]|] eqn:Ef; cbn [obind tmod].
  - rewrite Ef. cbn [tappend]. reflexivity.
  - reflexivity.
  - rewrite find_put_same. cbn [tappend app]. rewrite put_put_same. reflexivity.
Qed.

Lemma fput_seq n b1 b2 x : obind (fput n b1 x) (fput n b2) = fput n (b1 ++ b2) x.
Proof.
  destruct x as [b|ents]; [reflexivity|].
  rewrite !fput_TD.
  destruct (tents_find ents n) as [[b0|es]|] eqn:Ef; cbn [obind].
  - rewrite fput_TD, find_put_same, put_put_same, app_assoc. reflexivity.
  - reflexivity.
  - rewrite fput_TD, find_put_same, put_put_same. reflexivity.
Qed.

(* tins_part without strings: the directory walk, then one local rewrite of the final directory *)
Lemma tins_part_unfold t dir n b :
  tins_part t dir n b =
  let names := split_slash (dir ++ "/" ++ n) in
  let base := last names "" in
  match tmkdirs t [] (removelast names) with
  | None => None
  | Some (t1, cur) =>
      if String.eqb base "." then None
      else if special_name base then None
      else tmod t1 cur (fput base b)
  end.
Proof.
  unfold tins_part, tcreate. cbv zeta.
  destruct (tmkdirs t [] (removelast (split_slash (dir ++ "/" ++ n)))) as [[t1 cur]|]; [|reflexivity].
  destruct (String.eqb (last (split_slash (dir ++ "/" ++ n)) "") "."); [reflexivity|].
  destruct (special_name (last (split_slash (dir ++ "/" ++ n)) "")); [reflexivity|].
  unfold fput. rewrite <- tmod_seq.
  destruct (tmod t1 cur (ensure_file (last (split_slash (dir ++ "/" ++ n)) ""))) as [t2|]; cbn [obind]; [|reflexivity].
  rewrite tmod_app. reflexivity.
Qed.

(* ------------------------------------------------------------------------------------------ *)
(* "good t p n": re-running  tmod t p (ensure_dir n)  is the identity on t                      *)
(* ------------------------------------------------------------------------------------------ *)
Fixpoint good (t : T) (p : list string) (n : string) : Prop :=
  match p with
  | [] => match t with
          | TD ents => exists es, tents_find ents n = Some (TD es)
          | TF _ => False
          end
  | m :: r => match t with
              | TD ents => exists c, tents_find ents m = Some c /\ tents_put ents m c = ents /\ good c r n
              | TF _ => False
              end
  end.

(* local rewrites that leave a directory alone or add/replace one entry that was not a directory *)
Definition gentle (f : T -> option T) : Prop :=
  forall ents x', f (TD ents) = Some x' ->
    x' = TD ents \/
    exists m y, x' = TD (tents_put ents m y) /\ (forall es, tents_find ents m <> Some (TD es)).

Lemma gentle_ensure_dir n : gentle (ensure_dir n).
Proof.
  intros ents x' H. cbn [ensure_dir] in H.
  destruct (tents_find ents n) as [[b0|es]|] eqn:Ef.
  - discriminate H.
  - injection H as <-. left. reflexivity.
  - injection H as <-. right. exists n, (TD []). split; [reflexivity|]. intros es. rewrite Ef. discriminate.
Qed.

Lemma gentle_fput n b : gentle (fput n b).
Proof.
  intros ents x' H. rewrite fput_TD in H.
  destruct (tents_find ents n) as [[b0|es]|] eqn:Ef.
  - injection H as <-. right. exists n, (TF (b0 ++ b)). split; [reflexivity|]. intros es. rewrite Ef. discriminate.
  - discriminate H.
  - injection H as <-. right. exists n, (TF b). split; [reflexivity|]. intros es. rewrite Ef. discriminate.
Qed.

Lemma good_is_TD t p n : good t p n -> exists ents, t = TD ents.
Proof. destruct p, t as [b|ents]; cbn [good]; intros H; try contradiction; eexists; reflexivity. Qed.

Lemma tmod_TD f : gentle f -> forall q ents c', tmod (TD ents) q f = Some c' -> exists e', c' = TD e'.
Proof.
  intros Hg q ents c' H. destruct q as [|m q']; cbn [tmod] in H.
  - destruct (Hg _ _ H) as [->|(m & y & -> & _)]; eexists; reflexivity.
  - destruct (tents_find ents m) as [c|]; [|discriminate H].
    destruct (tmod c q' f) as [c2|]; [|discriminate H]. injection H as <-. eexists; reflexivity.
Qed.

Lemma good_gentle f : gentle f -> forall p t t' n, f t = Some t' -> good t p n -> good t' p n.
Proof.
  intros Hg p t t' n Hf Hgood.
  destruct (good_is_TD _ _ _ Hgood) as [ents ->].
  destruct (Hg _ _ Hf) as [->|(m & y & -> & Hm)]; [exact Hgood|].
  destruct p as [|m' r]; cbn [good] in *.
  - destruct Hgood as [es Hes]. exists es.
    destruct (String.eqb_spec m n) as [->|Hne]; [exfalso; exact (Hm _ Hes)|].
    rewrite find_put_other by exact Hne. exact Hes.
  - destruct Hgood as (c & Hc & Hst & Hr). exists c.
    destruct (String.eqb_spec m m') as [->|Hne].
    + destruct (good_is_TD _ _ _ Hr) as [ec ->]. exfalso. exact (Hm _ Hc).
    + split; [rewrite find_put_other by exact Hne; exact Hc|].
      split; [apply put_other_stable; assumption|exact Hr].
Qed.

Lemma tmod_good_pres f : gentle f -> forall q t t' p n,
  tmod t q f = Some t' -> good t p n -> good t' p n.
Proof.
  intros Hg q. induction q as [|m q' IH]; intros t t' p n Hmod Hgood.
  - cbn [tmod] in Hmod. eapply good_gentle; eassumption.
  - cbn [tmod] in Hmod. destruct t as [b|ents]; [discriminate Hmod|].
    destruct (tents_find ents m) as [c|] eqn:Ec; [|discriminate Hmod].
    destruct (tmod c q' f) as [c'|] eqn:Ec'; [|discriminate Hmod]. injection Hmod as <-.
    destruct p as [|m' p']; cbn [good] in *.
    + destruct Hgood as [es Hes].
      destruct (String.eqb_spec m n) as [->|Hne].
      * rewrite find_put_same. rewrite Ec in Hes. injection Hes as ->.
        destruct (tmod_TD f Hg _ _ _ Ec') as [e' ->]. exists e'. reflexivity.
      * exists es. rewrite find_put_other by exact Hne. exact Hes.
    + destruct Hgood as (c0 & Hc0 & Hst & Hr).
      destruct (String.eqb_spec m m') as [<-|Hne].
      * rewrite Ec in Hc0. injection Hc0 as <-. exists c'.
        split; [apply find_put_same|]. split; [apply put_put_same|].
        eapply IH; eassumption.
      * exists c0. split; [rewrite find_put_other by exact Hne; exact Hc0|].
        split; [apply put_other_stable; assumption|exact Hr].
Qed.

Lemma tmod_ensure_good cur : forall t t' n, tmod t cur (ensure_dir n) = Some t' -> good t' cur n.
Proof.
  induction cur as [|m r IH]; intros t t' n H; cbn [tmod] in H.
  - destruct t as [b|ents]; [discriminate H|]. cbn [ensure_dir] in H.
    destruct (tents_find ents n) as [[b0|es]|] eqn:Ef.
    + discriminate H.
    + injection H as <-. cbn [good]. exists es. exact Ef.
    + injection H as <-. cbn [good]. exists []. apply find_put_same.
  - destruct t as [b|ents]; [discriminate H|].
    destruct (tents_find ents m) as [c|] eqn:Ec; [|discriminate H].
    destruct (tmod c r (ensure_dir n)) as [c'|] eqn:Ec'; [|discriminate H]. injection H as <-.
    cbn [good]. exists c'. split; [apply find_put_same|]. split; [apply put_put_same|].
    eapply IH; eassumption.
Qed.

Lemma good_ensure_id cur : forall t n, good t cur n -> tmod t cur (ensure_dir n) = Some t.
Proof.
  induction cur as [|m r IH]; intros t n H; destruct t as [b|ents]; cbn [good] in H; try contradiction; cbn [tmod].
  - destruct H as [es Hes]. cbn [ensure_dir]. rewrite Hes. reflexivity.
  - destruct H as (c & Hc & Hst & Hr). rewrite Hc, (IH _ _ Hr), Hst. reflexivity.
Qed.

Lemma tmkdirs_good_pres names : forall t cur t1 c1 p n,
  tmkdirs t cur names = Some (t1, c1) -> good t p n -> good t1 p n.
Proof.
  induction names as [|name r IH]; intros t cur t1 c1 p n H Hgood; cbn [tmkdirs] in H.
  - injection H as <- _. exact Hgood.
  - destruct (String.eqb name "" || String.eqb name "."); [eapply IH; eassumption|].
    destruct (String.eqb name "..").
    + destruct cur as [|c0 cr]; [discriminate H|]. eapply IH; eassumption.
    + destruct (tmod t cur (ensure_dir name)) as [t'|] eqn:Et; [|discriminate H].
      eapply IH; [exact H|]. eapply tmod_good_pres; [apply gentle_ensure_dir|exact Et|exact Hgood].
Qed.

(* the walk that produced t1 is the identity on every tree that keeps t1's good paths *)
Lemma tmkdirs_again names : forall t0 cur t1 c1 t3,
  tmkdirs t0 cur names = Some (t1, c1) ->
  (forall p n, good t1 p n -> good t3 p n) ->
  tmkdirs t3 cur names = Some (t3, c1).
Proof.
  induction names as [|name r IH]; intros t0 cur t1 c1 t3 H Hk; cbn [tmkdirs] in H |- *.
  - injection H as _ <-. reflexivity.
  - destruct (String.eqb name "" || String.eqb name "."); [eapply IH; eassumption|].
    destruct (String.eqb name "..").
    + destruct cur as [|c0 cr]; [discriminate H|]. eapply IH; eassumption.
    + destruct (tmod t0 cur (ensure_dir name)) as [t'|] eqn:Et; [|discriminate H].
      assert (G : good t3 cur name).
      { apply Hk. eapply tmkdirs_good_pres; [exact H|]. eapply tmod_ensure_good; exact Et. }
      rewrite (good_ensure_id _ _ _ G). eapply IH; eassumption.
Qed.

(* ------------------------------------------------------------------------------------------ *)
(* T1                                                                                          *)
(* ------------------------------------------------------------------------------------------ *)
Lemma tins_part_seq t dir n b1 b2 :
  obind (tins_part t dir n b1) (fun t' => tins_part t' dir n b2) = tins_part t dir n (b1 ++ b2).
Proof.
  rewrite (tins_part_unfold t dir n b1), (tins_part_unfold t dir n (b1 ++ b2)). cbv zeta.
  set (names := split_slash (dir ++ "/" ++ n)).
  destruct (tmkdirs t [] (removelast names)) as [[t1 cur]|] eqn:Emk; [|reflexivity].
  destruct (String.eqb (last names "") ".") eqn:Edot; [reflexivity|].
  destruct (special_name (last names "")) eqn:Esp; [reflexivity|].
  pose proof (tmod_seq t1 cur (fput (last names "") b1) (fput (last names "") b2)) as Hseq.
  rewrite (tmod_ext t1 cur (fun x => obind (fput (last names "") b1 x) (fput (last names "") b2))
             (fput (last names "") (b1 ++ b2))) in Hseq by (intros x; apply fput_seq).
  rewrite <- Hseq.
  destruct (tmod t1 cur (fput (last names "") b1)) as [t3|] eqn:E3; cbn [obind]; [|reflexivity].
  rewrite tins_part_unfold. cbv zeta. fold names.
  assert (Hagain : tmkdirs t3 [] (removelast names) = Some (t3, cur)).
  { eapply tmkdirs_again; [exact Emk|]. intros p m Hg.
    eapply tmod_good_pres; [apply gentle_fput|exact E3|exact Hg]. }
  rewrite Hagain, Edot, Esp. reflexivity.
Qed.

Lemma tins_parts_app t dir l1 : forall t0 l2, t0 = t ->
  tins_parts t dir (l1 ++ l2) = obind (tins_parts t dir l1) (fun t' => tins_parts t' dir l2).
Proof.
  revert t. induction l1 as [|[n b] r IH]; intros t t0 l2 _; cbn [app tins_parts obind]; [reflexivity|].
  rewrite obind_assoc. apply obind_ext. intros x. apply (IH x x). reflexivity.
Qed.

Lemma tins_parts_chunks t dir n (bs : list (list byte)) : bs <> [] ->
  tins_parts t dir (map (fun b => (n, b)) bs) = tins_part t dir n (List.concat bs).
Proof.
  revert t. induction bs as [|b bs IH]; intros t Hne; [contradiction|].
  destruct bs as [|b' bs'].
  - cbn [map tins_parts List.concat]. rewrite app_nil_r. apply obind_some.
  - change (map (fun b0 => (n, b0)) (b :: b' :: bs')) with ((n, b) :: map (fun b0 => (n, b0)) (b' :: bs')).
    cbn [tins_parts].
    rewrite (obind_ext _ _ (fun t' => tins_part t' dir n (List.concat (b' :: bs')))).
    2:{ intros x. apply IH. discriminate. }
    rewrite tins_part_seq. reflexivity.
Qed.

Theorem tins_parts_group : forall t dir (groups : list (string * list (list byte))),
  Forall (fun g => snd g <> []) groups ->
  tins_parts t dir (chunks_of groups) = tins_parts t dir (whole_of groups).
Proof.
  intros t dir groups. revert t. induction groups as [|[n bs] gs IH]; intros t Hne; [reflexivity|].
  inversion Hne as [|? ? Hbs Hgs]; subst. cbn [snd] in Hbs.
  unfold chunks_of, whole_of in *. cbn [flat_map map fst snd].
  rewrite (tins_parts_app t dir _ t _ eq_refl). rewrite tins_parts_chunks by exact Hbs.
  cbn [tins_parts]. apply obind_ext. intros x. apply IH. exact Hgs.
Qed.

(* ------------------------------------------------------------------------------------------ *)
(* directory strings built from valid components                                              *)
(* ------------------------------------------------------------------------------------------ *)
Definition dirpath (comps : list string) : string := fold_left (fun acc n => (acc ++ "/" ++ n)%string) comps ".".

Lemma has_char_contains c s : has_char c s = str_contains c s.
Proof. induction s as [|x r IH]; cbn [has_char str_contains]; [reflexivity|]. rewrite IH. reflexivity. Qed.

Lemma join_cons2 sep a b l : join_with sep (a :: b :: l) = (a ++ sep ++ join_with sep (b :: l))%string.
Proof. reflexivity. Qed.

Lemma join_snoc sep l : forall a c, join_with sep (a :: l ++ [c]) = (join_with sep (a :: l) ++ sep ++ c)%string.
Proof.
  induction l as [|b l' IH]; intros a c.
  - reflexivity.
  - change (a :: (b :: l') ++ [c]) with (a :: b :: l' ++ [c]).
    rewrite !join_cons2, IH, !str_app_assoc. reflexivity.
Qed.

Lemma fold_join comps : forall a l,
  fold_left (fun acc n => (acc ++ "/" ++ n)%string) comps (join_with "/" (a :: l)) = join_with "/" (a :: l ++ comps).
Proof.
  induction comps as [|c comps IH]; intros a l; cbn [fold_left].
  - rewrite app_nil_r. reflexivity.
  - rewrite <- join_snoc, IH, <- app_assoc. reflexivity.
Qed.

Lemma dirpath_join comps : dirpath comps = join_with "/" ("." :: comps).
Proof. unfold dirpath. exact (fold_join comps "." []). Qed.

Lemma dirpath_snoc comps n : dirpath (comps ++ [n]) = (dirpath comps ++ "/" ++ n)%string.
Proof. unfold dirpath. rewrite fold_left_app. reflexivity. Qed.

Lemma split_dirpath comps n : Forall valid_name comps -> str_contains "/"%char n = false ->
  split_slash (dirpath comps ++ "/" ++ n) = "." :: comps ++ [n].
Proof.
  intros Hv Hn. rewrite dirpath_join, <- join_snoc. unfold split_slash.
  apply (split_join "/"%char ("." :: comps ++ [n])); [discriminate|].
  constructor; [reflexivity|]. apply Forall_app. split.
  - eapply Forall_impl; [|exact Hv]. intros a [_ Ha]. rewrite has_char_contains. exact Ha.
  - constructor; [|constructor]. rewrite has_char_contains. exact Hn.
Qed.

Lemma dirpath_snoc_not_dot comps n : String.eqb (dirpath (comps ++ [n])) "." = false.
Proof.
  apply String.eqb_neq. intros E.
  assert (H : has_char "/"%char (dirpath (comps ++ [n])) = true).
  { rewrite dirpath_snoc, has_char_app. cbn [append has_char]. rewrite Ascii.eqb_refl. apply orb_true_r. }
  rewrite E in H. discriminate H.
Qed.

Lemma valid_not_special n : valid_name n ->
  String.eqb n "" = false /\ String.eqb n "." = false /\ String.eqb n ".." = false.
Proof.
  intros [H _]. unfold special_name in H.
  apply orb_false_iff in H. destruct H as [H H3]. apply orb_false_iff in H. destruct H as [H1 H2]. auto.
Qed.

(* ------------------------------------------------------------------------------------------ *)
(* the loader steps as local rewrites: lins x p g = "mkdir -p p below x, then g on that directory" *)
(* ------------------------------------------------------------------------------------------ *)
Fixpoint lins (x : T) (p : list string) (g : T -> option T) : option T :=
  match p with
  | [] => g x
  | n :: r => obind (ensure_dir n x) (fun x1 => tmod x1 [n] (fun c => lins c r g))
  end.

Lemma tmkdirs_valid_cons t cur n r : valid_name n ->
  tmkdirs t cur (n :: r) =
  match tmod t cur (ensure_dir n) with Some t' => tmkdirs t' (cur ++ [n]) r | None => None end.
Proof.
  intros Hv. destruct (valid_not_special n Hv) as (H1 & H2 & H3).
  cbn [tmkdirs]. rewrite H1, H2, H3. reflexivity.
Qed.

Lemma tmkdirs_lins comps : Forall valid_name comps -> forall t cur g,
  match tmkdirs t cur comps with Some (t1, c1) => tmod t1 c1 g | None => None end =
  tmod t cur (fun x => lins x comps g).
Proof.
  induction 1 as [|n r Hn Hr IH]; intros t cur g.
  - reflexivity.
  - rewrite tmkdirs_valid_cons by exact Hn. cbn [lins]. rewrite <- tmod_seq.
    destruct (tmod t cur (ensure_dir n)) as [t'|]; cbn [obind]; [|reflexivity].
    rewrite IH, tmod_app. reflexivity.
Qed.

Lemma tmkdirs_snoc init : Forall valid_name init -> forall t cur last, valid_name last ->
  tmkdirs t cur (init ++ [last]) =
  match tmkdirs t cur init with
  | Some (t1, c1) => match tmod t1 c1 (ensure_dir last) with Some t2 => Some (t2, c1 ++ [last]) | None => None end
  | None => None
  end.
Proof.
  induction 1 as [|n r Hn Hr IH]; intros t cur last Hl.
  - cbn [app]. rewrite tmkdirs_valid_cons by exact Hl. reflexivity.
  - cbn [app]. rewrite !tmkdirs_valid_cons by exact Hn.
    destruct (tmod t cur (ensure_dir n)) as [t'|]; [|reflexivity]. apply IH. exact Hl.
Qed.

Lemma tins_part_lins t comps n b : Forall valid_name comps -> valid_name n ->
  tins_part t (dirpath comps) n b = lins t comps (fput n b).
Proof.
  intros Hv Hn. rewrite tins_part_unfold. cbv zeta.
  rewrite split_dirpath by (try exact Hv; apply Hn).
  change ("." :: comps ++ [n]) with (("." :: comps) ++ [n]). rewrite last_last, removelast_last.
  change (tmkdirs t [] ("." :: comps)) with (tmkdirs t [] comps).
  destruct (valid_not_special n Hn) as (_ & H2 & _). destruct Hn as [Hsp _]. rewrite H2, Hsp.
  exact (tmkdirs_lins comps Hv t [] (fput n b)).
Qed.

Lemma tins_marker_lins t init last : Forall valid_name init -> valid_name last ->
  tins_marker t (dirpath (init ++ [last])) = lins t init (ensure_dir last).
Proof.
  intros Hv Hl. unfold tins_marker, tcreate.
  rewrite split_dirpath; [|apply Forall_app; split; [exact Hv|constructor; [exact Hl|constructor]]|reflexivity].
  change ("." :: (init ++ [last]) ++ ["."]) with (("." :: init ++ [last]) ++ ["."]).
  rewrite last_last, removelast_last.
  change (tmkdirs t [] ("." :: init ++ [last])) with (tmkdirs t [] (init ++ [last])).
  rewrite tmkdirs_snoc by assumption.
  pose proof (tmkdirs_lins init Hv t [] (ensure_dir last)) as HL. cbn [tmod] in HL. rewrite <- HL.
  destruct (tmkdirs t [] init) as [[t1 c1]|]; [|reflexivity].
  destruct (tmod t1 c1 (ensure_dir last)) as [t2|]; reflexivity.
Qed.

(* ------------------------------------------------------------------------------------------ *)
(* induction on trees / inversion of twf                                                      *)
(* ------------------------------------------------------------------------------------------ *)
Section T_ind2.
  Variable P : T -> Prop.
  Hypothesis HF : forall b, P (TF b).
  Hypothesis HD : forall ents, Forall (fun e => P (snd e)) ents -> P (TD ents).
  Fixpoint T_ind2 (t : T) : P t :=
    match t with
    | TF b => HF b
    | TD ents =>
        HD ents ((fix go (l : list (string * T)) : Forall (fun e => P (snd e)) l :=
                    match l with
                    | [] => Forall_nil _
                    | e :: r => Forall_cons e (T_ind2 (snd e)) (go r)
                    end) ents)
    end.
End T_ind2.

Lemma twf_TD_inv ents : twf (TD ents) -> ents_ok ents /\ Forall (fun e => twf (snd e)) ents.
Proof. intros H. inversion H; subst. split; assumption. Qed.

(* ------------------------------------------------------------------------------------------ *)
(* the records of a tree as path + local operation                                            *)
(* ------------------------------------------------------------------------------------------ *)
Inductive aop := OpDir (n : string) | OpFile (n : string) (b : list byte).
Definition aop_fn (o : aop) : T -> option T :=
  match o with OpDir n => ensure_dir n | OpFile n b => fput n b end.
Definition arec := (list string * aop)%type.
Definition shift (n : string) (r : arec) : arec := (n :: fst r, snd r).
Definition pref (comps : list string) (r : arec) : arec := (comps ++ fst r, snd r).
Definition frecs (fl : list (string * list byte)) : list arec :=
  map (fun fb => ([], OpFile (fst fb) (snd fb))) fl.

(* records of the entry (n, t) of some directory, paths relative to that directory *)
Fixpoint erecs (n : string) (t : T) : list arec :=
  match t with
  | TF _ => []
  | TD es =>
      match es with
      | [] => [([], OpDir n)]
      | _ => map (shift n) (frecs (files_of es) ++ flat_map (fun e => erecs (fst e) (snd e)) es)
      end
  end.
(* records of a directory with entries es, paths relative to it *)
Definition rrecs (es : list (string * T)) : list arec :=
  frecs (files_of es) ++ flat_map (fun e => erecs (fst e) (snd e)) es.

Fixpoint ains (x : T) (rs : list arec) : option T :=
  match rs with
  | [] => Some x
  | r :: rest => obind (lins x (fst r) (aop_fn (snd r))) (fun x' => ains x' rest)
  end.

Lemma erecs_TD_nonempty n es : es <> [] -> erecs n (TD es) = map (shift n) (rrecs es).
Proof. destruct es; [contradiction|reflexivity]. Qed.

Lemma ains_app l1 : forall x l2, ains x (l1 ++ l2) = obind (ains x l1) (fun x' => ains x' l2).
Proof.
  induction l1 as [|r l1 IH]; intros x l2; cbn [app ains obind]; [reflexivity|].
  rewrite obind_assoc. apply obind_ext. intros y. apply IH.
Qed.

Lemma tins_all_app l1 : forall t l2, tins_all t (l1 ++ l2) = obind (tins_all t l1) (fun t' => tins_all t' l2).
Proof.
  induction l1 as [|r l1 IH]; intros t l2; cbn [app tins_all obind]; [reflexivity|].
  rewrite obind_assoc. apply obind_ext. intros y. apply IH.
Qed.

(* ---- bridge: string-level records = abstract records ---- *)
Lemma records_T_cons prefix es : es <> [] ->
  records_T prefix (TD es) =
  (match files_of es with [] => [] | fl => [RFiles prefix fl] end) ++
  flat_map (fun e => match snd e with
                     | TD _ => records_T (prefix ++ "/" ++ fst e) (snd e)
                     | TF _ => []
                     end) es.
Proof. destruct es; [contradiction|reflexivity]. Qed.

Lemma tins_parts_frecs comps fl : Forall valid_name comps ->
  Forall (fun fb => valid_name (fst fb)) fl ->
  forall t, tins_parts t (dirpath comps) fl = ains t (map (pref comps) (frecs fl)).
Proof.
  intros Hv. induction 1 as [|[n b] fl Hn Hfl IH]; intros t; [reflexivity|].
  cbn [tins_parts frecs map ains pref fst snd aop_fn]. cbn [fst] in Hn.
  rewrite tins_part_lins by assumption. rewrite app_nil_r.
  apply obind_ext. intros x. apply IH.
Qed.

Lemma files_of_valid es : Forall valid_name (map fst es) -> Forall (fun fb => valid_name (fst fb)) (files_of es).
Proof.
  induction es as [|[n s] es IH]; intros H; [constructor|].
  cbn [map fst] in H. inversion H as [|? ? Hn Hes]; subst.
  unfold files_of. cbn [flat_map snd fst]. destruct s as [b|em]; cbn [app].
  - constructor; [exact Hn|]. apply IH. exact Hes.
  - apply IH. exact Hes.
Qed.

Lemma pref_shift comps m (l : list arec) : map (pref comps) (map (shift m) l) = map (pref (comps ++ [m])) l.
Proof.
  rewrite map_map. apply map_ext. intros [p o]. unfold pref, shift. cbn [fst snd].
  rewrite <- app_assoc. reflexivity.
Qed.

Lemma bridge : forall s es comps, s = TD es -> es <> [] -> twf s -> Forall valid_name comps ->
  forall t0, tins_all t0 (records_T (dirpath comps) s) = ains t0 (map (pref comps) (rrecs es)).
Proof.
  intros s. induction s as [b|ents IH] using T_ind2; intros es comps E Hne Hwf Hv t0; [discriminate E|].
  injection E as <-. destruct (twf_TD_inv _ Hwf) as [[_ Hnames] Hsub].
  rewrite records_T_cons by exact Hne. unfold rrecs.
  rewrite tins_all_app, map_app, ains_app.
  assert (Hfiles : tins_all t0 (match files_of ents with [] => [] | fl => [RFiles (dirpath comps) fl] end) =
                   ains t0 (map (pref comps) (frecs (files_of ents)))).
  { rewrite <- tins_parts_frecs by (try exact Hv; apply files_of_valid; exact Hnames).
    destruct (files_of ents) as [|f fl]; [reflexivity|].
    cbn [tins_all tins_rec]. apply obind_some. }
  rewrite Hfiles. apply obind_ext. clear Hfiles t0 Hne Hwf.
  induction ents as [|[m s] l IHl]; intros t; [reflexivity|].
  cbn [map fst] in Hnames.
  inversion Hnames as [|? ? Hm Hl]; subst. inversion Hsub as [|? ? Hs Hsl]; subst.
  inversion IH as [|? ? IHs IHr]; subst. cbn [snd fst] in *.
  cbn [flat_map fst snd]. rewrite tins_all_app, map_app, ains_app.
  assert (Hone : forall t1, tins_all t1 (match s with
                                         | TF _ => []
                                         | TD _ => records_T (dirpath comps ++ "/" ++ m) s
                                         end) = ains t1 (map (pref comps) (erecs m s))).
  { intros t1. destruct s as [b|em]; [reflexivity|]. rewrite <- dirpath_snoc.
    destruct em as [|e0 em'].
    - cbn [records_T]. rewrite dirpath_snoc_not_dot. cbn [tins_all tins_rec erecs map pref ains fst snd aop_fn].
      rewrite tins_marker_lins by assumption. rewrite app_nil_r. reflexivity.
    - rewrite erecs_TD_nonempty by discriminate. rewrite pref_shift.
      apply (IHs (e0 :: em') (comps ++ [m])); [reflexivity|discriminate|exact Hs|].
      apply Forall_app. split; [exact Hv|]. constructor; [exact Hm|constructor]. }
  rewrite Hone. apply obind_ext. intros t1. apply IHl; assumption.
Qed.

(* ------------------------------------------------------------------------------------------ *)
(* running the abstract records                                                               *)
(* ------------------------------------------------------------------------------------------ *)
Lemma lins_shift ex n p g c0 :
  (tents_find ex n = None /\ c0 = TD []) \/ (tents_find ex n = Some c0 /\ exists ec, c0 = TD ec) ->
  lins (TD ex) (n :: p) g = obind (lins c0 p g) (fun c => Some (TD (tents_put ex n c))).
Proof.
  intros [[Hf ->]|[Hf [ec ->]]]; cbn [lins ensure_dir]; rewrite Hf; cbn [obind tmod].
  - rewrite find_put_same. destruct (lins (TD []) p g) as [c|]; cbn [obind]; [|reflexivity].
    rewrite put_put_same. reflexivity.
  - rewrite Hf. destruct (lins (TD ec) p g) as [c|]; reflexivity.
Qed.

Lemma aop_TD o e y : aop_fn o (TD e) = Some y -> exists e', y = TD e'.
Proof.
  intros H.
  assert (G : gentle (aop_fn o)) by (destruct o; [apply gentle_ensure_dir|apply gentle_fput]).
  destruct (G _ _ H) as [->|(m & z & -> & _)]; eexists; reflexivity.
Qed.

Lemma lins_TD p e g y : (forall e0 y0, g (TD e0) = Some y0 -> exists e', y0 = TD e') ->
  lins (TD e) p g = Some y -> exists e', y = TD e'.
Proof.
  intros Hg H. destruct p as [|n r]; [exact (Hg _ _ H)|].
  cbn [lins ensure_dir] in H.
  destruct (tents_find e n) as [[b0|es]|]; cbn [obind tmod] in H; [discriminate H| |].
  - destruct (tents_find e n) as [c|]; [|discriminate H].
    destruct (lins c r g) as [c'|]; [|discriminate H]. injection H as <-. eexists; reflexivity.
  - destruct (tents_find (tents_put e n (TD [])) n) as [c|]; [|discriminate H].
    destruct (lins c r g) as [c'|]; [|discriminate H]. injection H as <-. eexists; reflexivity.
Qed.

(* a non-empty batch of records below entry n = the batch run on that entry, result re-inserted *)
Lemma ains_shift n recs : forall r ex c0,
  (tents_find ex n = None /\ c0 = TD []) \/ (tents_find ex n = Some c0 /\ exists ec, c0 = TD ec) ->
  ains (TD ex) (map (shift n) (r :: recs)) =
  obind (ains c0 (r :: recs)) (fun c => Some (TD (tents_put ex n c))).
Proof.
  induction recs as [|r' recs IH]; intros r ex c0 Hc.
  - cbn [map ains shift fst snd]. rewrite (lins_shift ex n _ _ c0 Hc). rewrite !obind_assoc.
    apply obind_ext. intros c. reflexivity.
  - assert (Hc0 : exists e0, c0 = TD e0).
    { destruct Hc as [[_ ->]|[_ [ec ->]]]; eexists; reflexivity. }
    destruct Hc0 as [e0 He0].
    change (map (shift n) (r :: r' :: recs)) with (shift n r :: map (shift n) (r' :: recs)).
    cbn [ains]. unfold shift at 1 2. cbn [fst snd].
    rewrite (lins_shift ex n _ _ c0 Hc). rewrite !obind_assoc.
    destruct (lins c0 (fst r) (aop_fn (snd r))) as [c1|] eqn:E1; cbn [obind]; [|reflexivity].
    subst c0. destruct (lins_TD _ _ _ _ (aop_TD (snd r)) E1) as [e1 ->].
    rewrite (IH r' (tents_put ex n (TD e1)) (TD e1)).
    2:{ right. split; [apply find_put_same|eexists; reflexivity]. }
    change (obind (lins (TD e1) (fst r') (aop_fn (snd r'))) (fun x' => ains x' recs)) with (ains (TD e1) (r' :: recs)).
    apply obind_ext. intros c. rewrite put_put_same. reflexivity.
Qed.

(* ---- sorted entry lists ---- *)
Lemma Forall_filter {A} (P : A -> Prop) f l : Forall P l -> Forall P (filter f l).
Proof.
  intros H. apply Forall_forall. intros x Hx. apply filter_In in Hx. destruct Hx as [Hx _].
  rewrite Forall_forall in H. apply H. exact Hx.
Qed.

Lemma sorted_split (l1 : list (string * T)) e l2 :
  StronglySorted name_lt (map fst (l1 ++ e :: l2)) ->
  Forall (fun x => name_lt (fst x) (fst e)) l1 /\ Forall (fun x => name_lt (fst e) (fst x)) l2.
Proof.
  induction l1 as [|a l1 IH]; intros H.
  - cbn [app map] in H. apply StronglySorted_inv in H. destruct H as [_ H].
    split; [constructor|]. exact (proj1 (Forall_map fst (name_lt (fst e)) l2) H).
  - cbn [app map] in H. apply StronglySorted_inv in H. destruct H as [Hs Ha].
    destruct (IH Hs) as [H1 H2]. split; [|exact H2]. constructor; [|exact H1].
    rewrite map_app in Ha. apply Forall_app in Ha. destruct Ha as [_ Ha]. cbn [map] in Ha.
    inversion Ha; subst. assumption.
Qed.

Lemma put_mid l1 : forall l2 n s,
  Forall (fun x => name_lt (fst x) n) l1 -> Forall (fun x => name_lt n (fst x)) l2 ->
  tents_put (l1 ++ l2) n s = l1 ++ (n, s) :: l2.
Proof.
  induction l1 as [|[k x] l1 IH]; intros l2 n s H1 H2.
  - cbn [app]. destruct l2 as [|[k x] l2]; [reflexivity|].
    inversion H2 as [|? ? Hk _]; subst. cbn [fst] in Hk. unfold name_lt in Hk.
    cbn [tents_put]. rewrite (eqb_false_of_ltb' _ _ Hk), Hk. reflexivity.
  - inversion H1 as [|? ? Hk Hr]; subst. cbn [fst] in Hk. unfold name_lt in Hk.
    cbn [app tents_put]. rewrite (eqb_false_of_ltb _ _ Hk), (str_ltb_asym _ _ Hk), (IH l2 n s Hr H2). reflexivity.
Qed.

Lemma find_mid_none l1 : forall l2 n,
  Forall (fun x => name_lt (fst x) n) l1 -> Forall (fun x => name_lt n (fst x)) l2 ->
  tents_find (l1 ++ l2) n = None.
Proof.
  induction l1 as [|[k x] l1 IH]; intros l2 n H1 H2.
  - cbn [app]. induction l2 as [|[k x] l2 IH2]; [reflexivity|].
    inversion H2 as [|? ? Hk Hr]; subst. cbn [fst] in Hk. unfold name_lt in Hk.
    cbn [tents_find]. rewrite (eqb_false_of_ltb' _ _ Hk). apply IH2. exact Hr.
  - inversion H1 as [|? ? Hk Hr]; subst. cbn [fst] in Hk. unfold name_lt in Hk.
    cbn [app tents_find]. rewrite (eqb_false_of_ltb _ _ Hk). apply IH; assumption.
Qed.

Definition isfile (e : string * T) : bool := match snd e with TF _ => true | TD _ => false end.
Definition filesonly (l : list (string * T)) : list (string * T) := filter isfile l.

(* ---- phase 1: the files of a directory, into the (so far) files-only directory ---- *)
Lemma files_phase l2 : forall l1,
  StronglySorted name_lt (map fst (l1 ++ l2)) ->
  ains (TD (filesonly l1)) (frecs (files_of l2)) = Some (TD (filesonly l1 ++ filesonly l2)).
Proof.
  induction l2 as [|[n s] l2 IH]; intros l1 Hs.
  - cbn. rewrite app_nil_r. reflexivity.
  - assert (Hs' : StronglySorted name_lt (map fst ((l1 ++ [(n, s)]) ++ l2))) by (rewrite <- app_assoc; exact Hs).
    specialize (IH _ Hs'). unfold filesonly in IH |- *. rewrite filter_app in IH.
    unfold files_of in IH |- *. cbn [flat_map fst snd filter isfile].
    destruct s as [b|es]; cbn [filter isfile snd app] in IH |- *.
    + cbn [frecs map ains fst snd aop_fn lins]. fold (frecs (flat_map (fun e => match snd e with TF b0 => [(fst e, b0)] | TD _ => [] end) l2)).
      destruct (sorted_split _ _ _ Hs) as [Hlt _]. cbn [fst] in Hlt.
      pose proof (Forall_filter _ isfile _ Hlt) as Hlt'.
      rewrite fput_TD.
      pose proof (find_mid_none (filter isfile l1) [] n Hlt' (Forall_nil _)) as Hnone. rewrite app_nil_r in Hnone.
      rewrite Hnone. cbn [obind].
      pose proof (put_mid (filter isfile l1) [] n (TF b) Hlt' (Forall_nil _)) as Hput. rewrite app_nil_r in Hput.
      rewrite Hput, IH, <- app_assoc. reflexivity.
    + rewrite app_nil_r in IH. exact IH.
Qed.

(* ---- one subdirectory entry, given that its own records rebuild it from the empty directory ---- *)
Lemma rrecs_cons_nonempty e r :
  (forall n, match snd e with TD _ => erecs n (snd e) <> [] | TF _ => True end) -> rrecs (e :: r) <> [].
Proof.
  destruct e as [m s]. cbn [snd]. intros H. unfold rrecs, files_of. cbn [flat_map fst snd].
  destruct s as [b|em].
  - cbn [app frecs map]. discriminate.
  - specialize (H m). intros E. apply app_eq_nil in E. destruct E as [_ E].
    apply app_eq_nil in E. destruct E as [E _]. exact (H E).
Qed.

Lemma erecs_nonempty s : forall n, match s with TD _ => erecs n s <> [] | TF _ => True end.
Proof.
  induction s as [b|ents IH] using T_ind2; intros n; [exact I|].
  destruct ents as [|e r]; [cbn; discriminate|].
  rewrite erecs_TD_nonempty by discriminate.
  inversion IH as [|? ? IHe _]; subst.
  intros E. apply map_eq_nil in E. revert E. apply rrecs_cons_nonempty. exact IHe.
Qed.

Lemma rrecs_nonempty es : es <> [] -> rrecs es <> [].
Proof.
  destruct es as [|e r]; [contradiction|]. intros _. apply rrecs_cons_nonempty.
  intros n. apply erecs_nonempty.
Qed.

Lemma entry_ok n es ex :
  ains (TD []) (rrecs es) = Some (TD es) -> tents_find ex n = None ->
  ains (TD ex) (erecs n (TD es)) = Some (TD (tents_put ex n (TD es))).
Proof.
  intros Hroot Hf. destruct es as [|e0 es'].
  - cbn [erecs ains fst snd aop_fn lins ensure_dir]. rewrite Hf. reflexivity.
  - rewrite erecs_TD_nonempty by discriminate.
    destruct (rrecs (e0 :: es')) as [|r recs] eqn:Er; [exfalso; revert Er; apply rrecs_nonempty; discriminate|].
    rewrite (ains_shift n recs r ex (TD [])) by (left; split; [exact Hf|reflexivity]).
    rewrite Hroot. reflexivity.
Qed.

(* ---- phase 2: the subdirectories in entry order ---- *)
Definition rebuilds (s : T) : Prop :=
  forall es, s = TD es -> twf s -> ains (TD []) (rrecs es) = Some (TD es).

Lemma subdirs_phase l2 : forall l1,
  Forall (fun e => rebuilds (snd e)) l2 -> Forall (fun e => twf (snd e)) l2 ->
  StronglySorted name_lt (map fst (l1 ++ l2)) ->
  ains (TD (l1 ++ filesonly l2)) (flat_map (fun e => erecs (fst e) (snd e)) l2) = Some (TD (l1 ++ l2)).
Proof.
  induction l2 as [|[n s] l2 IH]; intros l1 HQ Hwf Hs; [reflexivity|].
  inversion HQ as [|? ? Hq HQr]; subst. inversion Hwf as [|? ? Hw Hwr]; subst. cbn [snd] in Hq, Hw.
  assert (Hs' : StronglySorted name_lt (map fst ((l1 ++ [(n, s)]) ++ l2))) by (rewrite <- app_assoc; exact Hs).
  specialize (IH _ HQr Hwr Hs'). rewrite <- !app_assoc in IH. cbn [app] in IH.
  unfold filesonly in IH |- *. cbn [flat_map fst snd filter isfile].
  destruct s as [b|es]; cbn [isfile snd].
  - cbn [erecs app]. exact IH.
  - rewrite ains_app.
    destruct (sorted_split _ _ _ Hs) as [Hlt Hgt]. cbn [fst] in Hlt, Hgt.
    pose proof (Forall_filter _ isfile _ Hgt) as Hgt'.
    rewrite (entry_ok n es (l1 ++ filter isfile l2)).
    + cbn [obind]. rewrite (put_mid l1 _ n (TD es) Hlt Hgt'). exact IH.
    + apply Hq; [reflexivity|exact Hw].
    + apply find_mid_none; assumption.
Qed.

Lemma rebuilds_all s : rebuilds s.
Proof.
  induction s as [b|ents IH] using T_ind2; intros es E Hwf; [discriminate E|].
  injection E as <-. destruct (twf_TD_inv _ Hwf) as [[Hs _] Hsub].
  unfold rrecs. rewrite ains_app.
  pose proof (files_phase ents [] Hs) as Hf. cbn [filesonly filter app] in Hf. fold (filesonly ents) in Hf.
  rewrite Hf. cbn [obind].
  exact (subdirs_phase ents [] IH Hsub Hs).
Qed.

(* ------------------------------------------------------------------------------------------ *)
(* T2, T3                                                                                      *)
(* ------------------------------------------------------------------------------------------ *)
Theorem records_roundtrip : forall ents, twf (TD ents) ->
  tins_all (TD []) (records_T "." (TD ents)) = Some (TD ents).
Proof.
  intros ents Hwf. destruct ents as [|e r]; [reflexivity|].
  change "." with (dirpath []).
  rewrite (bridge (TD (e :: r)) (e :: r) [] eq_refl) by (try discriminate; try exact Hwf; constructor).
  rewrite (map_ext (pref []) (fun x => x)) by (intros [p o]; reflexivity). rewrite map_id.
  apply (rebuilds_all (TD (e :: r))); [reflexivity|exact Hwf].
Qed.

Corollary records_roundtrip_listing : forall ents, twf (TD ents) ->
  exists t', tins_all (TD []) (records_T "." (TD ents)) = Some t' /\
             listing_T "." t' = listing_T "." (TD ents).
Proof.
  intros ents Hwf. exists (TD ents). split; [apply records_roundtrip; exact Hwf|reflexivity].
Qed.

Print Assumptions tins_parts_group.
Print Assumptions records_roundtrip.
Print Assumptions records_roundtrip_listing.
