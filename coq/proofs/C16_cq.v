(* C16 — container queue layer (model/C16_cq.v): the boolean specification of the cq stage reflects the
   Prop-level one, and one Update of the model meets it for every instance-type table, database, cache,
   fault assignment and map-iteration order of every chooseType call. *)
From Coq Require Import List ZArith Bool String NArith Lia Permutation.
From AV Require Import model.C16_model model.C16_run model.C16_runq model.C16_cq model.C16_cq_run
                       proofs.C16_choose proofs.C16_spec.
Import ListNotations.
Local Open Scope Z_scope.

Lemma cst_eqb_spec a b : cstate_eqb a b = true <-> a = b.
Proof. destruct a, b; cbn; split; intros; congruence. Qed.

Lemma waiting_st_spec s : waiting_st s = true <-> s = Queued \/ s = Locked.
Proof. unfold waiting_st. rewrite orb_true_iff, !cst_eqb_spec. tauto. Qed.
Lemma not_waiting_spec s : negb (waiting_st s) = true <-> s <> Queued /\ s <> Locked.
Proof.
  rewrite negb_true_iff. split.
  - intros H. split; intros ->; cbn in H; discriminate.
  - intros [A B]. destruct s; cbn; try reflexivity; congruence.
Qed.

Lemma type_ok_b_spec r ts c id : type_ok_b r ts c id = true <-> type_ok r ts c id.
Proof.
  unfold type_ok_b, type_ok. destruct (find_it id ts) as [t|].
  - rewrite orb_true_iff, negb_true_iff, andb_true_iff, satisfies_b_spec, forallb_forall. split.
    + intros H. exists t. split; [reflexivity|]. intros R. apply in_range_b_spec in R.
      destruct H as [H|[H1 H2]]; [congruence|]. split; [exact H1|].
      intros x Hx Sx. specialize (H2 x Hx). rewrite impl_b in H2. apply Z.leb_le. apply H2.
      apply satisfies_b_spec. exact Sx.
    + intros (t' & E & H). injection E as <-.
      destruct (in_range_b r ts c) eqn:R; [right|left; reflexivity].
      apply in_range_b_spec in R. destruct (H R) as [H1 H2]. split; [exact H1|].
      intros x Hx. apply impl_b. intros Sx. apply Z.leb_le. apply H2; [exact Hx|apply satisfies_b_spec; exact Sx].
  - split; [discriminate|]. intros (t & E & _). discriminate.
Qed.

Lemma find_e_none_b u cur :
  match find_e u cur with Some _ => false | None => true end = true <-> find_e u cur = None.
Proof. destruct (find_e u cur); split; intros; congruence. Qed.

Theorem cq_spec_reflects c : spec_b c = true <-> CqSpec c.
Proof.
  unfold spec_b. cbn zeta. rewrite !andb_true_iff, !forallb_forall. split.
  - intros [[A B] C]. constructor.
    + intros e He. specialize (A e He). split.
      * intros id E. rewrite E in A. apply type_ok_b_spec. exact A.
      * intros E. rewrite E in A. apply not_waiting_spec. exact A.
    + intros d Hd O F W Fl R U. specialize (B d Hd). apply orb_true_iff in B. destruct B as [B|B].
      * exfalso. apply negb_true_iff in B. rewrite !andb_false_iff in B.
        destruct B as [[[[[B|B]|B]|B]|B]|B].
        -- congruence.
        -- rewrite F in B. discriminate.
        -- congruence.
        -- rewrite Fl in B. discriminate.
        -- apply in_range_b_spec in R. congruence.
        -- assert (T : forallb (fun x => negb (satisfies_b (ck_reserve c) (cons_of (ck_cons c) (cd_uuid d)) x)) (ck_types c) = true).
           { apply forallb_forall. intros x Hx. apply negb_true_iff. apply satisfies_b_false. apply U. exact Hx. }
           congruence.
      * apply existsb_exists in B. destruct B as (d' & Hd' & B).
        rewrite !andb_true_iff, !N.eqb_eq, cst_eqb_spec in B. destruct B as ((B1 & B2) & B3).
        exists d'. auto.
    + intros u calls Hin R x Hx. specialize (C (u, calls) Hin). cbn [fst] in C.
      apply orb_true_iff in C. destruct C as [C|C].
      * apply negb_true_iff in C. apply in_range_b_spec in R. congruence.
      * rewrite forallb_forall in C. apply satisfies_b_false. apply negb_true_iff. apply C. exact Hx.
  - intros [S1 S2 S3]. split; [split|].
    + intros e He. destruct (S1 e He) as [A B]. destruct (ce_type e) as [id|].
      * apply type_ok_b_spec. apply A. reflexivity.
      * apply not_waiting_spec. apply B. reflexivity.
    + intros d Hd.
      destruct (offered d && match find_e (cd_uuid d) (ck_cur c) with Some _ => false | None => true end &&
                waiting_st (cd_state d) && N.eqb (fault_of (ck_faults c) (cd_uuid d)) 0 &&
                in_range_b (ck_reserve c) (ck_types c) (cons_of (ck_cons c) (cd_uuid d)) &&
                forallb (fun x => negb (satisfies_b (ck_reserve c) (cons_of (ck_cons c) (cd_uuid d)) x)) (ck_types c)) eqn:G;
        cbn [negb orb]; [|reflexivity].
      rewrite !andb_true_iff, find_e_none_b, N.eqb_eq, in_range_b_spec, forallb_forall in G.
      destruct G as (((((G1 & G2) & G3) & G4) & G5) & G6).
      destruct (S2 d Hd G1 G2 G3 G4 G5) as (d' & A & B & C & D).
      { intros x Hx. apply satisfies_b_false. apply negb_true_iff. apply G6. exact Hx. }
      apply existsb_exists. exists d'. split; [exact A|].
      rewrite !andb_true_iff, !N.eqb_eq, cst_eqb_spec. auto.
    + intros [u calls] Hin. cbn [fst].
      destruct (in_range_b (ck_reserve c) (ck_types c) (cons_of (ck_cons c) u)) eqn:R; [|reflexivity].
      cbn [negb orb]. apply forallb_forall. intros x Hx. apply negb_true_iff. apply satisfies_b_false.
      apply (S3 u calls Hin); [apply in_range_b_spec; exact R|exact Hx].
Qed.

(* ---------------- the model ---------------- *)

Lemma cancel_run_uuid d k f : cd_uuid (snd (cancel_run d k f)) = cd_uuid d.
Proof.
  unfold cancel_run. destruct (cstate_eqb (cd_state d) Queued); cbn [andb];
    destruct (N.eqb f 1); cbn [snd]; try reflexivity;
    destruct (N.eqb f 2); cbn [snd cd_uuid]; try reflexivity;
    destruct (N.eqb f 3); cbn [snd cd_uuid]; reflexivity.
Qed.

(* without an injected fault the goroutine ends with the record Cancelled and the error recorded *)
Lemma cancel_run_nofault d k :
  snd (cancel_run d k 0%N) = mkdbr (cd_uuid d) Cancelled (cd_prio d) false k /\
  fst (cancel_run d k 0%N) = (if cstate_eqb (cd_state d) Queued then [ALock true] else []) ++ [ASetErr k true; ACancel true].
Proof.
  unfold cancel_run. change (N.eqb 0 1) with false. change (N.eqb 0 2) with false. change (N.eqb 0 3) with false.
  rewrite andb_false_r. destruct (cstate_eqb (cd_state d) Queued); cbn; split; reflexivity.
Qed.

Section Update.
Variable reserve : Z.
Variable ts : list itype.
Variable ord : N -> list itype.
Variable cons : list (N * ctr).
Variable faults : list (N * N).
Hypothesis Hnd : NoDup (map it_id ts).
Hypothesis Hord : forall u, Permutation (ord u) ts.

Notation cache' := (cache_after reserve ord cons).
Notation calls' := (calls_after reserve ord cons faults).
Notation db' := (db_after reserve ord cons faults).
Notation added' := (added_of reserve ord cons).

Lemma in_ord u x : In x (ord u) <-> In x ts.
Proof.
  split; [apply Permutation_in; apply Hord|apply Permutation_in; apply Permutation_sym; apply Hord].
Qed.

(* a type returned by the chooseType call is a configured type that satisfies the container's constraints,
   and no configured type satisfying them is cheaper *)
Lemma chosen_type_ok u t :
  choose reserve (ord u) (cons_of cons u) = Chosen t -> type_ok reserve ts (cons_of cons u) (it_id t).
Proof.
  unfold choose. intros E. exists t. split.
  - apply find_it_in; [exact Hnd|]. apply (in_ord u). exact (choose_in_table _ _ _ E).
  - intros R. split.
    + apply (adequate_iff_satisfies _ _ _ _ R). exact (choose_adequate _ _ _ E).
    + intros x Hx Sx.
      apply (choose_cheapest (need_of reserve (cons_of cons u)) (ord u) t x); [|exact E|apply (in_ord u); exact Hx|apply (adequate_iff_satisfies _ _ _ _ R); exact Sx].
      apply (all_sane_perm ts); [apply Permutation_sym; apply Hord|exact (in_range_sane _ _ _ R)].
Qed.

(* ... and when no configured type satisfies them the call fails, with the error of the right class *)
Lemma unsat_choice u :
  in_range reserve ts (cons_of cons u) ->
  (forall x, In x ts -> ~ satisfies reserve (cons_of cons u) x) ->
  match choose reserve (ord u) (cons_of cons u) with
  | Chosen _ => False
  | ErrNoTypes => err_class ts = 2%N
  | ErrUnsat _ => err_class ts = 1%N
  end.
Proof.
  intros R U. unfold choose.
  destruct (choose_need (need_of reserve (cons_of cons u)) (ord u)) as [t| |av] eqn:E.
  - apply (U t).
    + apply (in_ord u). exact (choose_in_table _ _ _ E).
    + apply (adequate_iff_satisfies _ _ _ _ R). exact (choose_adequate _ _ _ E).
  - apply choose_no_types in E. pose proof (Hord u) as Hp. rewrite E in Hp.
    apply Permutation_nil in Hp. rewrite Hp. reflexivity.
  - destruct ts as [|t0 r] eqn:Ets; [|reflexivity].
    pose proof (Hord u) as Hp. apply Permutation_sym, Permutation_nil in Hp. rewrite Hp in E. cbn in E. discriminate.
Qed.

Lemma in_new_ents db cur e :
  In e (new_ents reserve ord cons db cur) ->
  exists d, In d db /\ fresh cur d = true /\ added' d = AddEnt e.
Proof.
  unfold new_ents. rewrite in_flat_map. intros (d & Hd & H). exists d.
  destruct (fresh cur d); [|destruct H]. destruct (added' d) as [e'|] eqn:A; [|destruct H].
  destruct H as [<-|[]]. auto.
Qed.

Lemma added_ent_cases d e :
  added' d = AddEnt e ->
  ce_uuid e = cd_uuid d /\ ce_state e = cd_state d /\ ce_prio e = cd_prio d /\
  ((exists t, choose reserve (ord (cd_uuid d)) (cons_of cons (cd_uuid d)) = Chosen t /\ ce_type e = Some (it_id t)) \/
   (ce_type e = None /\ waiting_st (cd_state d) = false /\
    forall t, choose reserve (ord (cd_uuid d)) (cons_of cons (cd_uuid d)) <> Chosen t)).
Proof.
  unfold added_of, add_ent.
  destruct (choose reserve (ord (cd_uuid d)) (cons_of cons (cd_uuid d))) as [t| |av] eqn:E.
  - intros H. injection H as <-. cbn. repeat split. left. exists t. auto.
  - destruct (waiting_st (cd_state d)) eqn:W; [discriminate|]. intros H. injection H as <-. cbn. repeat split.
    right. repeat split. intros t. discriminate.
  - destruct (waiting_st (cd_state d)) eqn:W; [discriminate|]. intros H. injection H as <-. cbn. repeat split.
    right. repeat split. intros t. discriminate.
Qed.

(* the chooseType error of a Queued / Locked container never produces an entry *)
Lemma added_cancel_cases d u st k :
  added' d = AddCancel u st k ->
  u = cd_uuid d /\ st = cd_state d /\ waiting_st (cd_state d) = true /\
  (forall t, choose reserve (ord (cd_uuid d)) (cons_of cons (cd_uuid d)) <> Chosen t).
Proof.
  unfold added_of, add_ent.
  destruct (choose reserve (ord (cd_uuid d)) (cons_of cons (cd_uuid d))) as [t| |av] eqn:E; [discriminate| |];
    (destruct (waiting_st (cd_state d)) eqn:W; [|discriminate]); intros H; injection H as <- <- <-;
    repeat split; intros t; discriminate.
Qed.

Section Step.
Variable db : list dbrec.
Variable cur : list qent.
(* the cache before: every typed entry carries a type chosen for its container *)
Hypothesis Hcur : forall e, In e cur -> forall id, ce_type e = Some id -> type_ok reserve ts (cons_of cons (ce_uuid e)) id.
(* a container first seen Running or later (the only way to be cached with the zero type) does not return to
   Queued or Locked: the API server's state machine *)
Hypothesis Hreg : forall e d, In e cur -> ce_type e = None -> find_d (ce_uuid e) db = Some d -> waiting_st (cd_state d) = false.

Definition cq_model_case : case :=
  mkcq ts reserve cons db cur faults (cache' db cur) (calls' db cur) (db' db cur) true.

Lemma cache_entry_ok e : In e (cache' db cur) ->
  (forall id, ce_type e = Some id -> type_ok reserve ts (cons_of cons (ce_uuid e)) id) /\
  (ce_type e = None -> ce_state e <> Queued /\ ce_state e <> Locked).
Proof.
  unfold cache_after. rewrite in_app_iff, in_flat_map. intros [(e0 & He0 & H)|H].
  - unfold upd_ent in H. destruct (find_d (ce_uuid e0) db) as [d|] eqn:F; [|destruct H].
    destruct (offered d || negb (final_st (ce_state e0))); [|destruct H]. destruct H as [<-|[]].
    cbn [ce_type ce_uuid ce_state]. split.
    + intros id E. exact (Hcur e0 He0 id E).
    + intros E. apply not_waiting_spec. rewrite (Hreg e0 d He0 E F). reflexivity.
  - destruct (in_new_ents _ _ _ H) as (d & Hd & Fr & A).
    destruct (added_ent_cases _ _ A) as (U & S & _ & [(t & E & T)|(T & W & _)]).
    + split; [|rewrite T; discriminate]. intros id Eid. rewrite T in Eid. injection Eid as <-.
      rewrite U. apply chosen_type_ok. exact E.
    + split; [rewrite T; discriminate|]. intros _. rewrite S. apply not_waiting_spec. rewrite W. reflexivity.
Qed.

(* C16 at the queue layer, for ALL tables, databases, caches, faults and iteration orders *)
Theorem cq_update_meets_spec : CqSpec cq_model_case.
Proof.
  constructor; unfold cq_model_case; cbn [co_cur ck_reserve ck_types ck_cons ck_db ck_cur ck_faults co_db].
  - exact cache_entry_ok.
  - intros d Hd O F W Fl R U.
    exists (snd (cancel_run d (err_class ts) 0%N)).
    pose proof (unsat_choice (cd_uuid d) R U) as Hc.
    assert (Fr : fresh cur d = true) by (unfold fresh; rewrite O, F; reflexivity).
    assert (A : added' d = AddCancel (cd_uuid d) (cd_state d) (err_class ts)).
    { unfold added_of, add_ent. destruct (choose reserve (ord (cd_uuid d)) (cons_of cons (cd_uuid d))); [destruct Hc| |];
        rewrite W, Hc; reflexivity. }
    split; [|destruct (cancel_run_nofault d (err_class ts)) as [-> _]; cbn; auto].
    unfold db_after. apply in_map_iff. exists d. split; [|exact Hd].
    rewrite Fr, A, Fl. reflexivity.
  - intros u calls Hin R x Hx Sx. unfold co_calls in Hin. unfold calls_after in Hin. apply in_flat_map in Hin.
    destruct Hin as (d & Hd & Hin). destruct (fresh cur d); [|destruct Hin].
    destruct (added' d) as [e|u' st k] eqn:A; [destruct Hin|]. destruct Hin as [Hin|[]].
    injection Hin as -> _. destruct (added_cancel_cases _ _ _ _ A) as (-> & _ & _ & Hc).
    apply (adequate_iff_satisfies _ _ _ _ R) in Sx.
    assert (Hxo : In x (ord (cd_uuid d))) by (apply (in_ord (cd_uuid d)); exact Hx).
    unfold choose in Hc.
    destruct (choose_need (need_of reserve (cons_of cons (cd_uuid d))) (ord (cd_uuid d))) as [t| |av] eqn:E.
    + exact (Hc t eq_refl).
    + apply choose_no_types in E. rewrite E in Hxo. destruct Hxo.
    + assert (Hs : all_sane (ord (cd_uuid d))).
      { apply (all_sane_perm ts); [apply Permutation_sym; apply Hord|exact (in_range_sane _ _ _ R)]. }
      assert (Hne : ord (cd_uuid d) <> []) by (intros Z; rewrite Z in Hxo; destruct Hxo).
      pose proof (proj1 (choose_error_iff_none _ _ Hs Hne) (ex_intro _ av E) x Hxo) as Hf. congruence.
Qed.

(* never an arbitrary type: a container whose chooseType call fails while it is Queued or Locked is not handed
   to the scheduler at all ... *)
Theorem cq_unsat_not_queued d :
  In d db -> NoDup (map cd_uuid db) -> find_e (cd_uuid d) cur = None -> waiting_st (cd_state d) = true ->
  (forall t, choose reserve (ord (cd_uuid d)) (cons_of cons (cd_uuid d)) <> Chosen t) ->
  forall e, In e (cache' db cur) -> ce_uuid e <> cd_uuid d.
Proof.
  intros Hd Hn F W Hc e He Eu. unfold cache_after in He. rewrite in_app_iff, in_flat_map in He.
  destruct He as [(e0 & He0 & H)|H].
  - unfold upd_ent in H. destruct (find_d (ce_uuid e0) db) as [d0|]; [|destruct H].
    destruct (offered d0 || negb (final_st (ce_state e0))); [|destruct H]. destruct H as [<-|[]]. cbn in Eu.
    clear - He0 Eu F. induction cur as [|x r IH]; [destruct He0|]. cbn in F.
    destruct (N.eqb (ce_uuid x) (cd_uuid d)) eqn:E; [discriminate|]. destruct He0 as [->|He0]; [|exact (IH F He0)].
    apply N.eqb_neq in E. auto.
  - destruct (in_new_ents _ _ _ H) as (d1 & Hd1 & Fr & A).
    destruct (added_ent_cases _ _ A) as (U & S & _ & T).
    assert (d1 = d).
    { rewrite U in Eu. clear - Hd Hd1 Hn Eu. induction db as [|x r IH]; [destruct Hd|]. cbn in Hn. apply NoDup_cons_iff in Hn.
      destruct Hn as [Hx Hn]. destruct Hd as [->|Hd], Hd1 as [->|Hd1]; auto.
      - exfalso. apply Hx. rewrite <- Eu. apply in_map. exact Hd1.
      - exfalso. apply Hx. rewrite Eu. apply in_map. exact Hd. }
    subst d1. destruct T as [(t & E & _)|(_ & W' & _)]; [exact (Hc t E)|congruence].
Qed.

(* ... it gets the error instead: its goroutine's requests are recorded, and unless the API server refuses
   one of them they are [lock if Queued,] runtime_status.error := the ChooseInstanceType error, cancel *)
Theorem cq_unsat_gets_error d :
  In d db -> offered d = true -> find_e (cd_uuid d) cur = None -> waiting_st (cd_state d) = true ->
  (forall t, choose reserve (ord (cd_uuid d)) (cons_of cons (cd_uuid d)) <> Chosen t) ->
  exists k, (k = 1%N \/ k = 2%N) /\
    In (cd_uuid d, fst (cancel_run d k (fault_of faults (cd_uuid d)))) (calls' db cur) /\
    (fault_of faults (cd_uuid d) = 0%N ->
     fst (cancel_run d k 0%N) = (if cstate_eqb (cd_state d) Queued then [ALock true] else []) ++ [ASetErr k true; ACancel true]).
Proof.
  intros Hd O F W Hc.
  assert (Fr : fresh cur d = true) by (unfold fresh; rewrite O, F; reflexivity).
  assert (A : exists k, (k = 1%N \/ k = 2%N) /\ added' d = AddCancel (cd_uuid d) (cd_state d) k).
  { unfold added_of, add_ent. destruct (choose reserve (ord (cd_uuid d)) (cons_of cons (cd_uuid d))) as [t| |av] eqn:E.
    - exfalso. exact (Hc t eq_refl).
    - exists 2%N. rewrite W. auto.
    - exists 1%N. rewrite W. auto. }
  destruct A as (k & Hk & A). exists k. split; [exact Hk|]. split.
  - unfold calls_after. apply in_flat_map. exists d. split; [exact Hd|]. rewrite Fr, A. left. reflexivity.
  - intros _. exact (proj2 (cancel_run_nofault d k)).
Qed.
End Step.
End Update.

(* satisfiable and not vacuous: a dispatcher that has just started finds one satisfiable and one unsatisfiable
   container Locked by its token and one unsatisfiable Queued one *)
Example cq_example :
  let ts := [T 0 1 2000 1 0 false; T 1 2 4000 2 0 false] in
  let cons := [(1%N, mkctr 1000 0 1 [] EmptyString false); (2%N, mkctr 1000 0 4 [] EmptyString false);
               (3%N, mkctr 1000 0 4 [] EmptyString false)] in
  let db := [DB 1 1 5 true 0; DB 2 1 5 true 0; DB 3 0 5 false 0] in
  let c := cq_model_case 0 ts (fun _ => ts) cons [] db [] in
  co_cur c = [CE 1 1 5 (Some 0%N)] /\
  co_calls c = [(2%N, [ASetErr 1 true; ACancel true]); (3%N, [ALock true; ASetErr 1 true; ACancel true])] /\
  co_db c = [DB 1 1 5 true 0; DB 2 4 5 false 1; DB 3 4 5 false 1] /\
  spec_b c = true /\ model_b c = true.
Proof. vm_compute. repeat split. Qed.

(* the same database with the unsatisfiable Locked container handed to the scheduler with the zero
   InstanceType (and not cancelled) is rejected *)
Example cq_example_rejected :
  let ts := [T 0 1 2000 1 0 false; T 1 2 4000 2 0 false] in
  let cons := [(1%N, mkctr 1000 0 1 [] EmptyString false); (2%N, mkctr 1000 0 4 [] EmptyString false)] in
  let db := [DB 1 1 5 true 0; DB 2 1 5 true 0] in
  spec_b (mkcq ts 0 cons db [] [] [CE 1 1 5 (Some 0%N); CE 2 1 5 None] [] db true) = false /\
  spec_b (mkcq ts 0 cons db [] [] [CE 1 1 5 (Some 0%N)] [] db true) = false /\
  spec_b (mkcq ts 0 cons db [] [] [CE 1 1 5 (Some 1%N)] [(2%N, [ASetErr 1 true; ACancel true])] [DB 1 1 5 true 0; DB 2 4 5 false 1] true) = false.
Proof. vm_compute. repeat split. Qed.
